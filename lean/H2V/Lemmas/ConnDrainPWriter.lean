import H2V.Lemmas.ConnDrainPLoop
/-
  ConnDrainP, part 8 — the codec's writer: `flush` / `poll_ready` touch only the write waker of the transport;
  the write buffer's capacity never falls below `chain_threshold + 9` (`CapOK`, kept by every function that
  gets the writer), so `FramedWrite::poll_ready` answers `Pending` only with the waker registered.
-/
namespace H2V.Lemmas.ConnDrainP
open H2V H2V.Model H2V.Model.Conn

-- ===================================================================== the writer's wakers

theorem flush_io {w w' : Writer} {io io' : Tio} {tag : String} {r : WRes} (h : flush w io tag = (w', io', r)) :
    io'.readWaker = io.readWaker ∧ (io'.writeWaker = io.writeWaker ∨ io'.writeWaker = some tag) ∧
    (r = .pending → io'.writeWaker = some tag) := by
  unfold flush at h
  simp only at h
  repeat' split at h
  all_goals first
    | (simp only [Prod.mk.injEq] at h; obtain ⟨_, rfl, rfl⟩ := h; exact ⟨rfl, Or.inl rfl, fun h => by cases h⟩)
    | (simp only [Prod.mk.injEq] at h; obtain ⟨_, rfl, rfl⟩ := h; exact ⟨rfl, Or.inr rfl, fun _ => rfl⟩)

theorem pollReadyW_io {w w' : Writer} {io io' : Tio} {tag : String} {r : WRes} (h : pollReadyW w io tag = (w', io', r)) :
    io'.readWaker = io.readWaker ∧ (io'.writeWaker = io.writeWaker ∨ io'.writeWaker = some tag) ∧
    (r = .ready → w'.hasCapacity = true) := by
  unfold pollReadyW at h
  split at h
  · split at h
    · next w1 io1 hf =>
      have := flush_io hf
      split at h
      · next hc => cases h; exact ⟨this.1, this.2.1, fun _ => hc⟩
      · cases h; exact ⟨this.1, this.2.1, fun h => by cases h⟩
    · next r1 hne =>
      rcases hfl : flush w io tag with ⟨w1, io1, r2⟩
      rw [hfl] at h
      cases h
      have := flush_io hfl
      refine ⟨this.1, this.2.1, fun hr => ?_⟩
      subst hr
      exact absurd hfl (hne _ _)
  · next hc =>
    cases h
    exact ⟨rfl, Or.inl rfl, fun _ => by simpa using hc⟩


-- ===================================================================== the write buffer never gets too small

/-- the write buffer's capacity is at least `chain_threshold + 9` (so a flushed buffer has room for a frame) -/
def CapOK (w : Writer) : Prop := w.minBufferCapacity ≤ w.cap

theorem CapOK.of_eq {w w' : Writer} (h : CapOK w) (h1 : w'.chainThreshold = w.chainThreshold) (h2 : w.cap ≤ w'.cap) : CapOK w' := by
  unfold CapOK Writer.minBufferCapacity at *; rw [h1]; omega

theorem put_cap (w : Writer) (seg : Seg) : (w.put seg).chainThreshold = w.chainThreshold ∧ w.cap ≤ (w.put seg).cap := by
  unfold Writer.put
  refine ⟨rfl, ?_⟩
  dsimp only
  split <;> omega

theorem CapOK.put {w : Writer} (h : CapOK w) (seg : Seg) : CapOK (w.put seg) := h.of_eq (put_cap w seg).1 (put_cap w seg).2
theorem CapOK.bufferSimple {w : Writer} (h : CapOK w) (n : Nat) (r : String) : CapOK (w.bufferSimple n r) := h.put _
theorem CapOK.bufferHeaders {w : Writer} (h : CapOK w) (sid : Nat) (eos : Bool) (f : List Hpack.Field) : CapOK (w.bufferHeaders sid eos f) := by
  unfold Writer.bufferHeaders
  split
  · dsimp only
    refine CapOK.put ?_ _
    split <;> exact h.of_eq rfl (Nat.le_refl _)
  · exact h.of_eq rfl (Nat.le_refl _)
theorem CapOK.bufferPushPromise {w : Writer} (h : CapOK w) (sid p : Nat) (f : List Hpack.Field) : CapOK (w.bufferPushPromise sid p f) := by
  unfold Writer.bufferPushPromise
  split
  · dsimp only
    refine CapOK.put ?_ _
    split <;> exact h.of_eq rfl (Nat.le_refl _)
  · exact h.of_eq rfl (Nat.le_refl _)
theorem CapOK.bufferData {w w' : Writer} (h : CapOK w) {len : Nat} {e : Bool} {fr : DataFrame} (hb : w.bufferData len e fr = some w') : CapOK w' := by
  unfold Writer.bufferData at hb
  split at hb
  · cases hb
  · dsimp only at hb
    split at hb
    · split at hb
      · cases hb; exact ((h.put _).put _).of_eq rfl (Nat.le_refl _)
      · cases hb; exact (h.put _).of_eq rfl (Nat.le_refl _)
    · cases hb; exact (h.put _).of_eq rfl (Nat.le_refl _)
theorem CapOK.unsetFrame {w : Writer} (h : CapOK w) : CapOK w.unsetFrame := by
  unfold Writer.unsetFrame; dsimp only; split <;> exact h.of_eq rfl (Nat.le_refl _)
theorem CapOK.takeLast {w : Writer} (h : CapOK w) : CapOK w.takeLastDataFrame.1 := h.of_eq rfl (Nat.le_refl _)

theorem flush_cap {w w' : Writer} {io io' : Tio} {tag : String} {r : WRes} (h : flush w io tag = (w', io', r)) :
    w'.chainThreshold = w.chainThreshold ∧ w'.cap = w.cap := by
  unfold flush at h
  simp only at h
  repeat' split at h
  all_goals first
    | (simp only [Prod.mk.injEq] at h; obtain ⟨rfl, _, _⟩ := h; exact ⟨rfl, rfl⟩)
    | (simp only [Prod.mk.injEq] at h; obtain ⟨rfl, _, _⟩ := h
       exact ⟨(ConnWakeP.unsetFrame_fields _).2.2.2, (ConnWakeP.unsetFrame_fields _).2.2.1⟩)

theorem CapOK.ofFlush {w w' : Writer} {io io' : Tio} {tag : String} {r : WRes} (h : CapOK w) (hf : flush w io tag = (w', io', r)) : CapOK w' :=
  h.of_eq (flush_cap hf).1 (Nat.le_of_eq (flush_cap hf).2.symm)

theorem CapOK.ofPollReadyW {w w' : Writer} {io io' : Tio} {tag : String} {r : WRes} (h : CapOK w) (hf : pollReadyW w io tag = (w', io', r)) : CapOK w' := by
  unfold pollReadyW at hf
  split at hf
  · rcases hfl : flush w io tag with ⟨w1, io1, r1⟩
    rw [hfl] at hf
    have := h.ofFlush hfl
    cases r1 <;> simp only at hf <;> cases hf <;> exact this
  · cases hf; exact h

/-- `FramedWrite::poll_ready` answers `Pending` only after the transport took the waker -/
theorem pollReadyW_pending {w w' : Writer} {io io' : Tio} {tag : String} (h : CapOK w)
    (hf : pollReadyW w io tag = (w', io', .pending)) : io'.writeWaker = some tag :=
  ConnWakeP.pollReadyW_pending_parks hf (h.ofPollReadyW hf)


theorem CapOK.bufferOut {w : Writer} (h : CapOK w) (s : Streams) (f : Streams.OutFrame) : CapOK (s.bufferOut w f).2 := by
  unfold Streams.bufferOut
  split
  · dsimp only
    split
    · next w' hb => exact h.bufferData hb
    · exact h
  · exact h.bufferHeaders _ _ _
  · exact h.bufferSimple _ _
  · exact h.bufferPushPromise _ _ _

theorem CapOK.reclaimFrame {w : Writer} (h : CapOK w) (s : Streams) : CapOK (s.reclaimFrame w).2.1 := by
  unfold Streams.reclaimFrame
  split
  · next w1 frame heq =>
    have : w1 = w.takeLastDataFrame.1 := by rw [heq]
    dsimp only; rw [this]; exact h.takeLast
  · next w1 heq =>
    have : w1 = w.takeLastDataFrame.1 := by rw [heq]
    dsimp only; rw [this]; exact h.takeLast

theorem CapOK.prioLoop (n : Nat) : ∀ (s : Streams) (w : Writer), CapOK w → CapOK (Streams.prioBufferPendingLoop n s w).2.1 := by
  induction n with
  | zero => intro s w h; exact h
  | succ n ih =>
    intro s w h
    rw [ConnFlowP.loop_eq]
    split
    · exact h
    · split
      · next s' f heq =>
        refine ih _ _ ?_
        unfold ConnFlowP.loopPost
        dsimp only
        exact (h.bufferOut s' f).reclaimFrame _
      · exact h

theorem CapOK.sendConnWU {w : Writer} (h : CapOK w) (s : Streams) : CapOK (s.sendConnectionWindowUpdate w).2.1 := by
  unfold Streams.sendConnectionWindowUpdate
  split
  · split
    · exact h
    · dsimp only
      split <;> exact h.bufferSimple _ _
  · exact h

theorem CapOK.sendStreamWU (n : Nat) : ∀ (s : Streams) (w : Writer), CapOK w → CapOK (Streams.sendStreamWindowUpdates n s w).2.1 := by
  induction n with
  | zero => intro s w h; exact h
  | succ n ih =>
    intro s w h
    unfold Streams.sendStreamWindowUpdates
    split
    · exact h
    · split
      · exact h
      · dsimp only
        split
        · exact ih _ _ h
        · split
          · split
            · exact ih _ _ (h.bufferSimple _ _)
            · exact ih _ _ (h.bufferSimple _ _)
          · exact ih _ _ h

theorem CapOK.recvBufferPending {w : Writer} (h : CapOK w) (s : Streams) : CapOK (s.recvBufferPending w).2.1 := by
  unfold Streams.recvBufferPending
  split
  · next s1 w1 heq => have := h.sendConnWU s; rw [heq] at this; exact this
  · next s1 w1 heq => have := h.sendConnWU s; rw [heq] at this; exact CapOK.sendStreamWU _ _ _ this

theorem CapOK.pollComplete (n : Nat) : ∀ (s : Streams) (w : Writer) (io : Tio) (tag : String), CapOK w →
    CapOK (Streams.pollComplete n s w io tag).2.1 := by
  induction n with
  | zero => intro s w io tag h; exact h
  | succ n ih =>
    intro s w io tag h
    rw [ConnFlowP.pollComplete_eq]
    split
    · next w1 io1 hpr =>
      have h1 := h.ofPollReadyW hpr
      split
      · next s1 w2 hrb =>
        have := h1.recvBufferPending s; rw [hrb] at this
        exact ih _ _ _ _ this
      · next s1 w2 hrb =>
        have h2 := h1.recvBufferPending s; rw [hrb] at h2
        dsimp only
        have h3 := CapOK.prioLoop (n + 1) (s1.reclaimFrame w2).1 (s1.reclaimFrame w2).2.1 (h2.reclaimFrame s1)
        split
        · exact ih _ _ _ _ h3
        · split
          · next w4 io4 hfl =>
            have h4 := h3.ofFlush hfl
            split
            · exact h4.reclaimFrame _
            · exact ih _ _ _ _ (h4.reclaimFrame _)
          · next w4 io4 r4 hne hfl => exact h3.ofFlush hfl
    · next w1 io1 r1 hne hpr => exact h.ofPollReadyW hpr

end H2V.Lemmas.ConnDrainP
