import H2V.Lemmas.ConnFlowPMoves
/-
  ConnFlowP, part 16 — capacity handed back to the connection reaches the streams that wait for it:
  `assign_connection_capacity` stops only when the connection has nothing left or no stream waits in
  `pending_capacity` (and the model's fuel `len + 2` is enough for that).
-/
namespace H2V.Lemmas.ConnFlowP
open H2V H2V.Model H2V.Model.Conn H2V.Lemmas.Comp

/-- `requested_send_capacity` is a `u32` (every assignment to it in the model is a `u32` operation:
    `usizeAsU32`, `min _ U32_MAX`, `wrapSubU32`, `0`) -/
def ReqOk (s : Streams) : Prop := ∀ x ∈ s.store.slab, x.requestedSendCapacity < 4294967296

theorem qPush_pc_other (s : Streams) (id : Nat) :
    (s.qPush .pendingSend id).1.prio.pendingCapacity = s.prio.pendingCapacity := by
  unfold Streams.qPush
  split
  · rfl
  · show (s.modStream id _).prio.pendingCapacity = _
    rw [modStream_prio]

theorem qPush_pc (s : Streams) (id : Nat) :
    (s.qPush .pendingCapacity id).1.prio.pendingCapacity = s.prio.pendingCapacity ∨
    (s.qPush .pendingCapacity id).1.prio.pendingCapacity = s.prio.pendingCapacity ++ [id] := by
  unfold Streams.qPush
  split
  · exact Or.inl rfl
  · exact Or.inr rfl

theorem notifySend_req (x : Stream) : x.notifySend.1.requestedSendCapacity = x.requestedSendCapacity := by
  unfold Stream.notifySend
  cases x.sendTask <;> dsimp only <;> split <;> rfl

theorem assignCapacity_req (x : Stream) (n m : Nat) :
    (x.assignCapacity n m).1.requestedSendCapacity = x.requestedSendCapacity := by
  unfold Stream.assignCapacity; dsimp only; split
  · unfold Stream.notifyCapacity; exact notifySend_req _
  · rfl

/-- what decides whether `try_assign_capacity` re-queues the stream in `pending_capacity` -/
def wantsMore (x : Stream) : Bool :=
  x.sendFlow.available.ltUsize x.requestedSendCapacity && x.sendFlow.hasUnavailable

/-- a stream that got all it asked for (`additional`, limited by request and window) and not just
    what the connection had left does not want more -/
theorem wrapSubU32_big {a b : Nat} (h1 : a < b) (h2 : b ≤ 2147483647) : 2147483648 ≤ wrapSubU32 a b := by
  unfold wrapSubU32 U32_MOD; omega

theorem not_wantsMore_after_full_assign {x : Stream} (hok : FlOk x.sendFlow) (hreq : x.requestedSendCapacity < 4294967296)
    (y : Stream) (hy1 : y.requestedSendCapacity = x.requestedSendCapacity)
    (hy2 : y.sendFlow = (x.sendFlow.assignCapacity
      (min (wrapSubU32 x.requestedSendCapacity x.sendFlow.available.asSize)
           (wrapSubU32 x.sendFlow.windowSz x.sendFlow.available.asSize))).1) :
    wantsMore y = false := by
  have hle := hok.asSize_le
  have hlt := hok.windowSz_lt
  have hb : wrapSubU32 x.sendFlow.windowSz x.sendFlow.available.asSize = x.sendFlow.windowSz - x.sendFlow.available.asSize :=
    wrapSubU32_le (by omega) hle
  have hassign := flOk_assign hok (n := min (wrapSubU32 x.requestedSendCapacity x.sendFlow.available.asSize)
    (wrapSubU32 x.sendFlow.windowSz x.sendFlow.available.asSize)) (Nat.min_le_right _ _)
  have hF1 : y.sendFlow.available.val = x.sendFlow.available.val +
      ((min (wrapSubU32 x.requestedSendCapacity x.sendFlow.available.asSize)
        (wrapSubU32 x.sendFlow.windowSz x.sendFlow.available.asSize) : Nat) : Int) := by rw [hy2]; exact hassign.2.1
  have hF2 : y.sendFlow.windowSize.val = x.sendFlow.windowSize.val := by rw [hy2, hassign.2.2]
  have h0 := hok.av0; have hw := hok.avw; have hhi := hok.whi
  rw [hb] at hF1
  have hsz1 : x.sendFlow.available.asSize = x.sendFlow.available.val.toNat := asSize_eq _
  have hsz2 : x.sendFlow.windowSz = x.sendFlow.windowSize.val.toNat := asSize_eq _
  rw [hsz1, hsz2] at hF1 hle
  rw [hsz2] at hlt
  unfold wantsMore Window.ltUsize FlowControl.hasUnavailable
  rw [hy1]
  show ((if y.sendFlow.available.val < 0 then true else decide (y.sendFlow.available.val.toNat < x.requestedSendCapacity)) &&
    (if y.sendFlow.windowSize.val < 0 then false else decide (y.sendFlow.windowSize.val > y.sendFlow.available.val))) = false
  generalize y.sendFlow.available.val = ya at hF1 ⊢
  generalize y.sendFlow.windowSize.val = yw at hF2 ⊢
  have key : (ya.toNat < x.requestedSendCapacity → ¬ (0 ≤ yw ∧ yw > ya)) ∧ 0 ≤ ya := by
    subst hF2
    refine ⟨fun h1 h2 => ?_, by rw [hF1]; exact Int.add_nonneg h0 (Int.natCast_nonneg _)⟩
    rcases Nat.lt_or_ge x.requestedSendCapacity x.sendFlow.available.val.toNat with hlt' | hge
    · -- more assigned than requested (never seen): the `u32` difference wraps, the window limits
      have hbig := wrapSubU32_big hlt' (by omega)
      rw [Nat.min_eq_right (by omega)] at hF1
      omega
    · rw [wrapSubU32_le hreq hge] at hF1
      rcases Nat.le_total (x.requestedSendCapacity - x.sendFlow.available.val.toNat)
        (x.sendFlow.windowSize.val.toNat - x.sendFlow.available.val.toNat) with hc | hc
      · rw [Nat.min_eq_left hc] at hF1; omega
      · rw [Nat.min_eq_right hc] at hF1; omega
  have hya : ¬ ya < 0 := by omega
  simp only [hya, if_false]
  by_cases hyw : yw < 0
  · simp [hyw]
  · simp only [hyw, if_false]
    by_cases h1 : ya.toNat < x.requestedSendCapacity
    · have := key.1 h1
      have : ¬ (yw > ya) := fun h => this ⟨by omega, h⟩
      simp [this]
    · simp [h1]

theorem ReqOk.modStream {s : Streams} (h : ReqOk s) (id : Nat) (f : Stream → Stream)
    (hf : ∀ x, (f x).requestedSendCapacity = x.requestedSendCapacity) : ReqOk (s.modStream id f) := by
  unfold Streams.modStream
  split
  · rename_i st hget
    intro y hy
    simp only [Streams.setStream, Store.set, List.mem_map] at hy
    obtain ⟨x, hx, rfl⟩ := hy
    split
    · rw [hf]; exact h st (get?_mem hget).1
    · exact h x hx
  · intro y hy; rw [panic_store] at hy; exact h y hy

theorem ReqOk.modStreamW {s : Streams} (h : ReqOk s) (id : Nat) (f : Stream → Stream × List String)
    (hf : ∀ x, (f x).1.requestedSendCapacity = x.requestedSendCapacity) : ReqOk (s.modStreamW id f) := by
  unfold Streams.modStreamW
  split
  · rename_i st hget
    intro y hy
    simp only [Streams.wake, Streams.setStream, Store.set, List.mem_map] at hy
    obtain ⟨x, hx, rfl⟩ := hy
    split
    · rw [hf]; exact h st (get?_mem hget).1
    · exact h x hx
  · intro y hy; rw [panic_store] at hy; exact h y hy

theorem ReqOk.same {s t : Streams} (h : ReqOk s) (hs : t.store.slab = s.store.slab) : ReqOk t := by
  intro y hy; rw [hs] at hy; exact h y hy

theorem ReqOk.qPush {s : Streams} (h : ReqOk s) (q : QName) (id : Nat) : ReqOk (s.qPush q id).1 := by
  unfold Streams.qPush
  split
  · exact h
  · have h1 := h.modStream id (fun st => st.setQueued q true) (by intro x; cases q <;> rfl)
    exact h1.same (by cases q <;> rfl)

theorem stream_modStreamW_self {s : Streams} {id : Nat} {st : Stream} (h : s.store.get? id = some st)
    (f : Stream → Stream × List String) (hk : (f st).1.key = st.key) : (s.modStreamW id f).stream id = (f st).1 := by
  have hm := get?_mem h
  unfold Streams.modStreamW; rw [h]
  show ((s.setStream (f st).1).wake (f st).2).stream id = _
  unfold Streams.stream Streams.wake Streams.setStream
  simp only
  rw [get?_set_self h (hk.trans hm.2)]; rfl

/-- `try_assign_capacity` puts the stream back into `pending_capacity` only when the connection has
    nothing left -/
theorem tryAssign_queue {s : Streams} (h : SafeInv s) (hr : ReqOk s) (id : Nat) :
    ((s.tryAssignCapacity id).prio.pendingCapacity = s.prio.pendingCapacity ∨
      ((s.tryAssignCapacity id).prio.pendingCapacity = s.prio.pendingCapacity ++ [id] ∧
        (s.tryAssignCapacity id).prio.flow.available.val ≤ 0)) ∧
    ReqOk (s.tryAssignCapacity id) := by
  unfold Streams.tryAssignCapacity
  dsimp only
  split
  · exact ⟨Or.inl rfl, hr⟩
  split
  · exact ⟨Or.inl rfl, hr⟩
  rename_i hadd
  split
  · exact ⟨Or.inl rfl, hr⟩
  generalize hS1 : (if _ > 0 then _ else s) = S1
  have key : S1.prio.pendingCapacity = s.prio.pendingCapacity ∧ ReqOk S1 ∧
      (wantsMore (S1.stream id) = true → S1.prio.flow.available.val ≤ 0) := by
    subst hS1
    split
    · rename_i hpos
      refine ⟨by rw [prio_modPrio, modStreamW_prio], ?_, ?_⟩
      · exact (hr.modStreamW id _ (fun x => assignCapacity_req x _ _)).same rfl
      · intro hwm
        have hex := assign_exact h id (min s.prio.flow.available.asSize
          (min (wrapSubU32 (s.stream id).requestedSendCapacity (s.stream id).sendFlow.available.asSize)
            (wrapSubU32 (s.stream id).sendFlow.windowSz (s.stream id).sendFlow.available.asSize)))
          s.prio.maxBufferSize (Nat.min_le_left ..) (Nat.le_trans (Nat.min_le_right ..) (Nat.min_le_right ..))
        rw [hex.2.2.2]
        have hA0 := h.a0
        rcases Nat.le_total s.prio.flow.available.asSize
          (min (wrapSubU32 (s.stream id).requestedSendCapacity (s.stream id).sendFlow.available.asSize)
            (wrapSubU32 (s.stream id).sendFlow.windowSz (s.stream id).sendFlow.available.asSize)) with hc | hc
        · rw [Nat.min_eq_left hc, asSize_eq]; omega
        · -- the stream got all of `additional`: it does not want more
          exfalso
          rw [Nat.min_eq_right hc] at hwm
          cases hget : s.store.get? id with
          | none =>
            have hb : s.stream id = { key := id, id := 0 } := by unfold Streams.stream; rw [hget]; rfl
            simp only [hb] at hadd
            have e1 : ({ key := id, id := 0 } : Stream).sendFlow.windowSz = 0 := rfl
            have e2 : ({ key := id, id := 0 } : Stream).sendFlow.available.asSize = 0 := rfl
            rw [e1, e2, wrapSubU32_le (a := 0) (by omega) (Nat.le_refl _)] at hadd
            exact hadd (Nat.min_eq_zero_iff.2 (Or.inr rfl))
          | some st =>
            rw [stream_of_get hget] at hwm
            have hkf := assignCapacity_kf st (min (wrapSubU32 st.requestedSendCapacity st.sendFlow.available.asSize)
              (wrapSubU32 st.sendFlow.windowSz st.sendFlow.available.asSize)) s.prio.maxBufferSize
            have hstream : ((s.modStreamW id fun x => x.assignCapacity
                (min (wrapSubU32 st.requestedSendCapacity st.sendFlow.available.asSize)
                  (wrapSubU32 st.sendFlow.windowSz st.sendFlow.available.asSize)) s.prio.maxBufferSize).modPrio
                fun p => { p with flow := (p.flow.claimCapacity
                  (min (wrapSubU32 st.requestedSendCapacity st.sendFlow.available.asSize)
                    (wrapSubU32 st.sendFlow.windowSz st.sendFlow.available.asSize))).1 }).stream id = _ :=
              stream_modStreamW_self hget _ hkf.1
            rw [hstream] at hwm
            have := not_wantsMore_after_full_assign (h.st st (get?_mem hget).1) (hr st (get?_mem hget).1) _
              (assignCapacity_req st _ _) hkf.2
            rw [this] at hwm; cases hwm
    · rename_i hnp
      refine ⟨rfl, hr, fun _ => ?_⟩
      rw [asSize_eq] at hnp; omega
  obtain ⟨hpc, hr1, hwm⟩ := key
  clear hS1
  have hq := qPush_pc S1 id
  have hA : (S1.qPush .pendingCapacity id).1.prio.flow = S1.prio.flow := qPush_flow _ _ _
  have hWdef : ((S1.stream id).sendFlow.available.ltUsize (S1.stream id).requestedSendCapacity &&
      (S1.stream id).sendFlow.hasUnavailable) = wantsMore (S1.stream id) := rfl
  simp only [hWdef]
  have hfin : ∀ (S2 : Streams) (b : Bool), (if b = true then (S2.qPush .pendingSend id).1 else S2).prio.pendingCapacity =
      S2.prio.pendingCapacity ∧ (if b = true then (S2.qPush .pendingSend id).1 else S2).prio.flow = S2.prio.flow ∧
      (ReqOk S2 → ReqOk (if b = true then (S2.qPush .pendingSend id).1 else S2)) := by
    intro S2 b; cases b
    · exact ⟨rfl, rfl, fun h => h⟩
    · exact ⟨qPush_pc_other _ _, qPush_flow _ _ _, fun h => h.qPush _ _⟩
  have hf := hfin (if wantsMore (S1.stream id) = true then (S1.qPush .pendingCapacity id).1 else S1)
    (decide ((S1.stream id).bufferedSendData > 0) && (S1.stream id).isSendReady)
  rw [hf.1, hf.2.1]
  refine ⟨?_, hf.2.2 ?_⟩
  · by_cases hw : wantsMore (S1.stream id) = true
    · simp only [hw, if_true]
      rcases hq with hq | hq
      · exact Or.inl (hq.trans hpc)
      · exact Or.inr ⟨by rw [hq, hpc], by rw [hA]; exact hwm hw⟩
    · simp only [hw, if_false]
      exact Or.inl hpc
  · split
    · exact hr1.qPush _ _
    · exact hr1

-- ===================================================================== `transition_after` keeps queues and requests

theorem ReqOk.panic {s : Streams} (h : ReqOk s) (m : String) : ReqOk (s.panic m) := h.same (by rw [panic_store])
theorem ReqOk.modCountsA {s : Streams} (h : ReqOk s) (w : String) (f : Counts → Option Counts) :
    ReqOk (s.modCountsA w f) := by
  unfold Streams.modCountsA; split
  · exact h.same rfl
  · exact h.panic _
theorem ReqOk.modCounts {s : Streams} (h : ReqOk s) (f : Counts → Counts) : ReqOk (s.modCounts f) := h.same rfl
theorem ReqOk.withStoreUnlink {s : Streams} (h : ReqOk s) (id : Nat) : ReqOk { s with store := s.store.unlink id } :=
  h.same rfl
theorem ReqOk.withStoreRemoveLeak {s : Streams} (h : ReqOk s) (k n : Nat) :
    ReqOk { s with store := s.store.remove k, recvBufferLeaked := n } := by
  intro y hy
  exact h y (List.mem_filter.1 hy).1
theorem ReqOk.modStream' {s : Streams} {id : Nat} {f : Stream → Stream}
    (hf : ∀ x, (f x).requestedSendCapacity = x.requestedSendCapacity) (h : ReqOk s) : ReqOk (s.modStream id f) :=
  h.modStream id f hf

syntax "req_peel" : tactic
macro_rules | `(tactic| req_peel) => `(tactic| first
  | with_reducible apply ReqOk.panic
  | with_reducible apply ReqOk.modCountsA
  | with_reducible apply ReqOk.modCounts
  | (guard_mk; with_reducible apply ReqOk.withStoreUnlink)
  | (guard_mk; with_reducible apply ReqOk.withStoreRemoveLeak)
  | (with_reducible apply ReqOk.modStream'; (· intro _; rfl)))
macro "req_auto" : tactic => `(tactic| repeat' (first
  | with_reducible assumption | (guard_not_mk; req_peel) | (guard_mk; req_peel) | split | dsimp only))

theorem ReqOk.decNumStreams {s : Streams} (h : ReqOk s) (id : Nat) : ReqOk (s.decNumStreams id) := by
  unfold Streams.decNumStreams; dsimp only; req_auto
macro_rules | `(tactic| req_peel) => `(tactic| with_reducible apply ReqOk.decNumStreams)

theorem ReqOk.transitionAfter {s : Streams} (h : ReqOk s) (id : Nat) (b : Bool) : ReqOk (s.transitionAfter id b) := by
  unfold Streams.transitionAfter; dsimp only; req_auto

theorem transitionAfter_prio (t : Streams) (id : Nat) (b : Bool) : (t.transitionAfter id b).prio = t.prio := by
  obtain ⟨t1, hx, hc⟩ := transitionAfter_cases t id b
  rcases hc with hc | ⟨_, _, _, hp, _, _⟩
  · rw [hc, hx.prio]
  · rw [hp, hx.prio]

-- ===================================================================== the queue

theorem qPop_pc {s s' : Streams} {r : Option Nat} (h : s.qPop .pendingCapacity = (s', r)) :
    (r = none ∧ s' = s ∧ s.prio.pendingCapacity = []) ∨
    (∃ id, r = some id ∧ s.prio.pendingCapacity = id :: s'.prio.pendingCapacity ∧ s'.prio.flow = s.prio.flow) := by
  unfold Streams.qPop at h
  split at h
  · rename_i hq
    cases h
    exact Or.inl ⟨rfl, rfl, hq⟩
  · rename_i id rest hq
    cases h
    refine Or.inr ⟨id, rfl, ?_, ?_⟩
    · rw [modStream_prio]; exact hq
    · rw [modStream_prio]; rfl

theorem ReqOk.qPop {s : Streams} (h : ReqOk s) (q : QName) : ReqOk (s.qPop q).1 := by
  unfold Streams.qPop
  split
  · exact h
  · refine ReqOk.modStream (h.same (by cases q <;> rfl)) _ _ (by intro x; cases q <;> rfl)

theorem gtUsize_zero_false {w : Window} (h : w.gtUsize 0 = false) : w.val ≤ 0 := by
  unfold Window.gtUsize at h
  split at h
  · omega
  · simp at h; omega

theorem loop_stop (fuel : Nat) {s : Streams} (h : s.prio.flow.available.gtUsize 0 = false) :
    Streams.assignConnectionCapacityLoop fuel s = s := by
  cases fuel with
  | zero => rfl
  | succ n => unfold Streams.assignConnectionCapacityLoop; simp [h]

/-- **`assign_connection_capacity`'s loop drains**: it ends with the connection holding nothing or with
    `pending_capacity` empty; `len + 1` units of fuel are enough -/
theorem loop_drains (fuel : Nat) : ∀ {s : Streams}, SafeInv s → ReqOk s → s.prio.pendingCapacity.length < fuel →
    (Streams.assignConnectionCapacityLoop fuel s).prio.flow.available.val ≤ 0 ∨
    (Streams.assignConnectionCapacityLoop fuel s).prio.pendingCapacity = [] := by
  induction fuel with
  | zero => intro s _ _ h; omega
  | succ n ih =>
    intro s h hr hlen
    unfold Streams.assignConnectionCapacityLoop
    split
    · split
      · rename_i s' heq
        rcases qPop_pc heq with ⟨_, hs, hq⟩ | ⟨id, hid, _, _⟩
        · right; rw [hs]; exact hq
        · cases hid
      · rename_i s' id heq
        have hs' : SafeInv s' := SafeInvG.of_fst_eq heq (h.fr ((Fr.refl _).qPop _))
        have hr' : ReqOk s' := by have := hr.qPop .pendingCapacity; rw [heq] at this; exact this
        rcases qPop_pc heq with ⟨hn, _, _⟩ | ⟨id', hid, hq, _⟩
        · cases hn
        · cases hid
          rw [hq] at hlen
          simp only [List.length_cons] at hlen
          dsimp only
          split
          · first
            | exact ih hs' hr' (by omega)
            | exact ih (hs'.fr ((Fr.refl _).transitionAfter _ _)) (hr'.transitionAfter _ _)
                (by rw [transitionAfter_prio]; omega)
          · have hT := tryAssign_queue hs' hr' id
            have hs2 := hs'.tryAssignCapacity id
            rcases hT.1 with hpc | ⟨hpc, hA⟩
            · exact ih (hs2.fr ((Fr.refl _).transitionAfter _ _)) (hT.2.transitionAfter _ _)
                (by rw [transitionAfter_prio, hpc]; omega)
            · left
              have hstop : ((s'.tryAssignCapacity id).transitionAfter id (s'.stream id).isPendingResetExpiration).prio.flow.available.gtUsize 0 = false := by
                rw [transitionAfter_prio]
                unfold Window.gtUsize
                split
                · rfl
                · simp; omega
              rw [loop_stop n hstop, transitionAfter_prio]
              exact hA
    · rename_i hng
      left
      exact gtUsize_zero_false (by simpa using hng)

/-- `assign_connection_capacity(inc)`: what was handed back is passed on until the connection has
    nothing left or nobody waits -/
theorem assignConnectionCapacity_drains {s : Streams} {inc : Nat} (h : SafeInvG inc s) (hr : ReqOk s) :
    (s.assignConnectionCapacity inc).prio.flow.available.val ≤ 0 ∨
    (s.assignConnectionCapacity inc).prio.pendingCapacity = [] := by
  unfold Streams.assignConnectionCapacity
  dsimp only
  have hA := h.av_le
  have hA0 := h.a0
  have hW := h.whi
  have hc := conn_assign (f := s.prio.flow) h.a0 (n := inc) (by omega)
  have hc1 := hc.1
  have hs1 : SafeInv (s.modPrio fun p => { p with flow := (p.flow.assignCapacity inc).1 }) := by
    refine h.conn rfl (Int.le_refl _) ?_ ?_ ?_
    · show 0 ≤ (s.prio.flow.assignCapacity inc).1.available.val
      omega
    · show (s.prio.flow.assignCapacity inc).1.windowSize.val ≤ _
      rw [hc.2]; exact hW
    · show (s.prio.flow.assignCapacity inc).1.available.val - _ + _ ≤ (s.prio.flow.assignCapacity inc).1.windowSize.val - _
      rw [hc.2]; omega
  exact loop_drains _ hs1 (hr.same rfl) (by show s.prio.pendingCapacity.length < s.prio.pendingCapacity.length + 2; omega)

end H2V.Lemmas.ConnFlowP
