import H2V.Lemmas.ConnFlowPMoves
/-
  ConnFlowP, part 16 — capacity handed back to the connection reaches the streams that wait for it:
  `assign_connection_capacity` stops only when the connection has nothing left or no stream waits in
  `pending_capacity` (and the model's fuel `len + 2` is enough for that).
-/
namespace H2V.Lemmas.ConnFlowP
open H2V H2V.Model H2V.Model.Conn H2V.Lemmas.Comp

/-- `requested_send_capacity` is a `u32` (every assignment to it in the model is a `u32` operation:
    `usizeAsU32`, `min _ U32_MAX`, `wrapSubU32`, `0`) -/
def ReqOk (s : Streams) : Prop := ∀ x ∈ s.store.slab, x.requestedSendCapacity < 4294967296

theorem qPush_pc_other (s : Streams) (id : Nat) :
    (s.qPush .pendingSend id).1.prio.pendingCapacity = s.prio.pendingCapacity := by
  unfold Streams.qPush
  split
  · rfl
  · show (s.modStream id _).prio.pendingCapacity = _
    rw [modStream_prio]

theorem qPush_pc (s : Streams) (id : Nat) :
    (s.qPush .pendingCapacity id).1.prio.pendingCapacity = s.prio.pendingCapacity ∨
    (s.qPush .pendingCapacity id).1.prio.pendingCapacity = s.prio.pendingCapacity ++ [id] := by
  unfold Streams.qPush
  split
  · exact Or.inl rfl
  · exact Or.inr rfl

theorem assignCapacity_req (x : Stream) (n m : Nat) :
    (x.assignCapacity n m).1.requestedSendCapacity = x.requestedSendCapacity := by
  unfold Stream.assignCapacity; dsimp only; split
  · unfold Stream.notifyCapacity Stream.notifySend
    dsimp only
    split <;> split <;> (rename_i h; split at h <;> (cases h; rfl))
  · rfl

end H2V.Lemmas.ConnFlowP
