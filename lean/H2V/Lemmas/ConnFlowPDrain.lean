import H2V.Lemmas.ConnFlowPMoves
/-
  ConnFlowP, part 16 — capacity handed back to the connection reaches the streams that wait for it:
  `assign_connection_capacity` stops only when the connection has nothing left or no stream waits in
  `pending_capacity` (and the model's fuel `len + 2` is enough for that).
-/
namespace H2V.Lemmas.ConnFlowP
open H2V H2V.Model H2V.Model.Conn H2V.Lemmas.Comp

/-- `requested_send_capacity` is a `u32` (every assignment to it in the model is a `u32` operation:
    `usizeAsU32`, `min _ U32_MAX`, `wrapSubU32`, `0`) -/
def ReqOk (s : Streams) : Prop := ∀ x ∈ s.store.slab, x.requestedSendCapacity < 4294967296

theorem qPush_pc_other (s : Streams) (id : Nat) :
    (s.qPush .pendingSend id).1.prio.pendingCapacity = s.prio.pendingCapacity := by
  unfold Streams.qPush
  split
  · rfl
  · show (s.modStream id _).prio.pendingCapacity = _
    rw [modStream_prio]

theorem qPush_pc (s : Streams) (id : Nat) :
    (s.qPush .pendingCapacity id).1.prio.pendingCapacity = s.prio.pendingCapacity ∨
    (s.qPush .pendingCapacity id).1.prio.pendingCapacity = s.prio.pendingCapacity ++ [id] := by
  unfold Streams.qPush
  split
  · exact Or.inl rfl
  · exact Or.inr rfl

theorem notifySend_req (x : Stream) : x.notifySend.1.requestedSendCapacity = x.requestedSendCapacity := by
  unfold Stream.notifySend
  cases x.sendTask <;> dsimp only <;> split <;> rfl

theorem assignCapacity_req (x : Stream) (n m : Nat) :
    (x.assignCapacity n m).1.requestedSendCapacity = x.requestedSendCapacity := by
  unfold Stream.assignCapacity; dsimp only; split
  · unfold Stream.notifyCapacity; exact notifySend_req _
  · rfl

/-- what decides whether `try_assign_capacity` re-queues the stream in `pending_capacity` -/
def wantsMore (x : Stream) : Bool :=
  x.sendFlow.available.ltUsize x.requestedSendCapacity && x.sendFlow.hasUnavailable

/-- a stream that got all it asked for (`additional`, limited by request and window) and not just
    what the connection had left does not want more -/
theorem not_wantsMore_after_full_assign {x : Stream} (hok : FlOk x.sendFlow) (hreq : x.requestedSendCapacity < 4294967296)
    (y : Stream) (hy1 : y.requestedSendCapacity = x.requestedSendCapacity)
    (hy2 : y.sendFlow = (x.sendFlow.assignCapacity
      (min (wrapSubU32 x.requestedSendCapacity x.sendFlow.available.asSize)
           (wrapSubU32 x.sendFlow.windowSz x.sendFlow.available.asSize))).1) :
    wantsMore y = false := by
  have hle := hok.asSize_le
  have hlt := hok.windowSz_lt
  have hb : wrapSubU32 x.sendFlow.windowSz x.sendFlow.available.asSize = x.sendFlow.windowSz - x.sendFlow.available.asSize :=
    wrapSubU32_le (by omega) hle
  have ha : wrapSubU32 x.requestedSendCapacity x.sendFlow.available.asSize =
      (x.requestedSendCapacity + 4294967296 - x.sendFlow.available.asSize) % 4294967296 := by
    unfold wrapSubU32 U32_MOD; omega
  have hassign := flOk_assign hok (n := min (wrapSubU32 x.requestedSendCapacity x.sendFlow.available.asSize)
    (wrapSubU32 x.sendFlow.windowSz x.sendFlow.available.asSize)) (Nat.min_le_right _ _)
  have hF1 : y.sendFlow.available.val = x.sendFlow.available.val +
      ((min (wrapSubU32 x.requestedSendCapacity x.sendFlow.available.asSize)
        (wrapSubU32 x.sendFlow.windowSz x.sendFlow.available.asSize) : Nat) : Int) := by rw [hy2]; exact hassign.2.1
  have hF2 : y.sendFlow.windowSize.val = x.sendFlow.windowSize.val := by rw [hy2, hassign.2.2]
  have h0 := hok.av0; have hw := hok.avw; have hhi := hok.whi
  rw [ha, hb] at hF1
  have hsz1 : x.sendFlow.available.asSize = x.sendFlow.available.val.toNat := asSize_eq _
  have hsz2 : x.sendFlow.windowSz = x.sendFlow.windowSize.val.toNat := asSize_eq _
  rw [hsz1, hsz2] at hF1 hle
  rw [hsz2] at hlt
  generalize y.sendFlow.available.val = ya at hF1
  generalize y.sendFlow.windowSize.val = yw at hF2
  have key : (ya.toNat < x.requestedSendCapacity → ¬ (0 ≤ yw ∧ yw > ya)) ∧ 0 ≤ ya := by
    subst hF2
    refine ⟨fun h1 h2 => ?_, by omega⟩
    rcases Nat.le_total ((x.requestedSendCapacity + 4294967296 - x.sendFlow.available.val.toNat) % 4294967296)
      (x.sendFlow.windowSize.val.toNat - x.sendFlow.available.val.toNat) with hc | hc
    · rw [Nat.min_eq_left hc] at hF1; omega32
    · rw [Nat.min_eq_right hc] at hF1; omega
  unfold wantsMore Window.ltUsize FlowControl.hasUnavailable
  rw [hy1]
  show ((if y.sendFlow.available.val < 0 then true else decide (y.sendFlow.available.val.toNat < x.requestedSendCapacity)) &&
    (if y.sendFlow.windowSize.val < 0 then false else decide (y.sendFlow.windowSize.val > y.sendFlow.available.val))) = false
  sorry

end H2V.Lemmas.ConnFlowP
