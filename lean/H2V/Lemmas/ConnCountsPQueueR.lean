import H2V.Lemmas.ConnCountsPQueue
import H2V.Lemmas.ConnCountsPReach
/-
  C19 / C18 — queue ↔ flag consistency in every reachable state (`Reach.qok`), and what follows:
  no queue holds a stale key, no key is queued twice, a queue is never longer than the slab.
-/
namespace H2V.Lemmas.ConnCountsP
open H2V H2V.Model H2V.Model.Conn

theorem EvT.qstep {s s' : Streams} (h : EvT s s') (q : QName) (hq : q ≠ .pendingAccept) : QStep q s s' := by
  induction h with
  | ev h => exact h.qstep q hq
  | trans _ _ ih1 ih2 => exact ih1.trans ih2
  | resetPop =>
    rename_i s0
    have := QStep.pop q .pendingResetExpired s0
    split
    · next s1 id heq =>
      rw [heq] at this
      rw [transitionAfter_split]
      refine (this.trans ?_).trans ((transitionAfter_false_ev _ _).qstep q hq)
      split
      · refine .of_qf (QF.modCountsA q _ _ _) (Mono.modCountsA _ _ _ ?_)
        intro c' hc
        unfold Counts.decNumResetStreams at hc
        split at hc
        · cases hc; exact ⟨rfl, rfl, rfl, rfl, rfl, Nat.le_refl _⟩
        · cases hc
      · exact .of_qf (QF.refl _ _) (Mono.refl _)
    · next s1 heq => rw [heq] at this; exact this

/-- a fresh connection starts from an empty slab and empty queues -/
theorem InitS.from_empty {s : Streams} (h : InitS s) : ∃ s0, s0.store.slab = [] ∧ (∀ q, s0.getQ q = []) ∧ Ev s0 s := by
  cases h with
  | client g hodd =>
    unfold Conn.init
    dsimp only
    split
    · next sz _ =>
      exact ⟨_, rfl, fun q => by cases q <;> rfl, .trans (cloneHandle_ev _) (setTargetConnectionWindow_ev _ sz)⟩
    · exact ⟨_, rfl, fun q => by cases q <;> rfl, cloneHandle_ev _⟩
  | server g ecp pf =>
    unfold Conn.initServer
    dsimp only
    split
    · next sz _ => exact ⟨_, rfl, fun q => by cases q <;> rfl, setTargetConnectionWindow_ev _ sz⟩
    · exact ⟨_, rfl, fun q => by cases q <;> rfl, .refl _⟩

theorem qok_of_empty {s : Streams} (h1 : s.store.slab = []) (h2 : ∀ q, s.getQ q = []) (q : QName) : QOK q s := by
  refine ⟨?_, by rw [h2]; exact List.nodup_nil⟩
  intro k
  rw [h2]
  constructor
  · intro h; cases h
  · rintro ⟨x, hx, _⟩
    unfold Store.get? at hx; rw [h1] at hx; cases hx

theorem panicked_none_of {a b : Streams} (hm : a.panicked.isSome = true → b.panicked.isSome = true) (hp : b.panicked = none) :
    a.panicked = none := by
  cases ha : a.panicked with
  | none => rfl
  | some m => have := hm (by simp [ha]); rw [hp] at this; cases this

/-- **in every reachable state in which no `assert!` has fired, each of the five intrusive queues
    holds exactly the live slab entries whose link flag is set, each once** -/
theorem Reach.qok {s : Streams} (h : Reach s) (hp : s.panicked = none) (q : QName) (hq : q ≠ .pendingAccept) : QOK q s := by
  induction h with
  | init hi =>
    obtain ⟨s0, h1, h2, e⟩ := hi.from_empty
    exact (e.qstep q hq).ok hp (qok_of_empty h1 h2 q)
  | step hr hs ih =>
    have e := (hs.evT hr.inv.1 hr.inv.2.1).qstep q hq
    exact e.ok hp (ih (panicked_none_of e.mono hp))

-- ===================================================================== consequences

theorem nodup_subset_length {l m : List Nat} (hn : l.Nodup) (hs : ∀ k ∈ l, k ∈ m) : l.length ≤ m.length := by
  induction l generalizing m with
  | nil => exact Nat.zero_le _
  | cons a l ih =>
    have hn' := List.nodup_cons.mp hn
    have ha : a ∈ m := hs a (List.mem_cons_self ..)
    have := ih (m := m.erase a) hn'.2 (fun k hk => by
      have hne : k ≠ a := fun e => hn'.1 (e ▸ hk)
      exact (List.mem_erase_of_ne hne).mpr (hs k (List.mem_cons_of_mem _ hk)))
    rw [List.length_erase_of_mem ha] at this
    have hpos : 0 < m.length := List.length_pos_of_mem ha
    simp only [List.length_cons]; omega

theorem get?_mem_keys {st : Store} {k : Nat} {x : Stream} (h : st.get? k = some x) : k ∈ st.slab.map (·.key) := by
  unfold Store.get? at h
  have h1 := List.mem_of_find?_eq_some h
  have h2 := get?_key (st := st) h
  exact List.mem_map.mpr ⟨x, h1, h2⟩

/-- a queue is never longer than the slab -/
theorem QOK.length_le {q : QName} {s : Streams} (h : QOK q s) : (s.getQ q).length ≤ s.store.slab.length := by
  have := nodup_subset_length h.nodup (m := s.store.slab.map (·.key)) (fun k hk => by
    obtain ⟨x, hx, _⟩ := (h.mem k).mp hk
    exact get?_mem_keys hx)
  rw [List.length_map] at this; exact this

end H2V.Lemmas.ConnCountsP
