import H2V.Lemmas.ConnNoPanicPStickyBase
/-
  C08 (no panic) — the first recorded panic message is never overwritten, part 2: `f_st` for the light functions.
-/
namespace H2V.Lemmas.ConnNoPanicP.Sticky
open H2V H2V.Model H2V.Model.Conn
attribute [local irreducible] wrapSubU32 wrapSubUsize
theorem queueOpen_st (s : Streams) (k : Nat) : ST s (s.queueOpen k) := by
  unfold Streams.queueOpen; st_auto
theorem assignConnectionCapacityLoop_st (n : Nat) (s : Streams) : ST s (Streams.assignConnectionCapacityLoop n s) := by
  induction n generalizing s with
  | zero => unfold Streams.assignConnectionCapacityLoop; exact .refl _
  | succ n ih => unfold Streams.assignConnectionCapacityLoop; st_auto_ih ih
theorem assignConnectionCapacity_st (s : Streams) (inc : Nat) : ST s (s.assignConnectionCapacity inc) := by
  unfold Streams.assignConnectionCapacity; st_auto
theorem reserveCapacity_st (s : Streams) (k cap : Nat) : ST s (s.reserveCapacity k cap) := by
  unfold Streams.reserveCapacity; st_auto
theorem recvConnectionWindowUpdate_st (s : Streams) (inc : Nat) : ST s (s.recvConnectionWindowUpdate inc).1 := by
  unfold Streams.recvConnectionWindowUpdate; st_auto
theorem reclaimAllCapacity_st (s : Streams) (k : Nat) : ST s (s.reclaimAllCapacity k) := by
  unfold Streams.reclaimAllCapacity; st_auto
theorem clearQueue_st (s : Streams) (k : Nat) : ST s (s.clearQueue k) := by
  unfold Streams.clearQueue; st_auto
theorem sendOpenId_st (s : Streams) : ST s s.sendOpenId.1 := by
  unfold Streams.sendOpenId; st_auto
theorem sendHeaders_st (s : Streams) (k : Nat) (eos : Bool) (f : List Hpack.Field) : ST s (s.sendHeaders k eos f).1 := by
  unfold Streams.sendHeaders; st_auto
theorem sendReserveLocal_st (s : Streams) : ST s s.sendReserveLocal.1 := by
  unfold Streams.sendReserveLocal; st_auto
theorem sendPushPromise_st (s : Streams) (p pk pid : Nat) (f : List Hpack.Field) : ST s (s.sendPushPromise p pk pid f).1 := by
  unfold Streams.sendPushPromise; st_auto
theorem sendInterimInformationalHeaders_st (s : Streams) (k : Nat) (f : List Hpack.Field) : ST s (s.sendInterimInformationalHeaders k f).1 := by
  unfold Streams.sendInterimInformationalHeaders; st_auto
theorem sendSendReset_st (s : Streams) (k : Nat) (r : Reason) (i : Initiator) : ST s (s.sendSendReset k r i) := by
  unfold Streams.sendSendReset; st_auto
theorem pollCapacity_st (s : Streams) (k : Nat) (tag : String) : ST s (s.pollCapacity k tag).1 := by
  unfold Streams.pollCapacity; st_auto
theorem pollReset_st (s : Streams) (k : Nat) (m : PollReset) (tag : String) : ST s (s.pollReset k m tag).1 := by
  unfold Streams.pollReset; st_auto
theorem sendRecvGoAway_st (s : Streams) (l : Nat) : ST s (s.sendRecvGoAway l).1 := by
  unfold Streams.sendRecvGoAway; st_auto
theorem sendHandleError_st (s : Streams) (k : Nat) : ST s (s.sendHandleError k) := by
  unfold Streams.sendHandleError; st_auto
theorem sendMaybeResetNextStreamId_st (s : Streams) (id : Nat) : ST s (s.sendMaybeResetNextStreamId id) := by
  unfold Streams.sendMaybeResetNextStreamId; st_auto
theorem sendTrailers_st (s : Streams) (k : Nat) (f : List Hpack.Field) : ST s (s.sendTrailers k f).1 := by
  unfold Streams.sendTrailers; st_auto
theorem prioSendData_st (s : Streams) (k len : Nat) (eos : Bool) : ST s (s.prioSendData k len eos).1 := by
  unfold Streams.prioSendData; st_auto
theorem reclaimReservedCapacity_st (s : Streams) (k : Nat) : ST s (s.reclaimReservedCapacity k) := by
  unfold Streams.reclaimReservedCapacity; st_auto
theorem scheduleImplicitReset_st (s : Streams) (k : Nat) (r : Reason) : ST s (s.scheduleImplicitReset k r) := by
  unfold Streams.scheduleImplicitReset; st_auto
theorem prioRecvStreamWindowUpdate_st (s : Streams) (k inc : Nat) : ST s (s.prioRecvStreamWindowUpdate k inc).1 := by
  unfold Streams.prioRecvStreamWindowUpdate; st_auto
theorem sendRecvStreamWindowUpdate_st (s : Streams) (k sz : Nat) : ST s (s.sendRecvStreamWindowUpdate k sz).1 := by
  unfold Streams.sendRecvStreamWindowUpdate; st_auto
theorem decStreamWindow_st (dec acc : Nat) (s : Streams) (k : Nat) : ST s (Streams.decStreamWindow dec acc s k).1 := by
  unfold Streams.decStreamWindow; st_auto
theorem releaseConnectionCapacity_st (s : Streams) (c : Nat) (b : Bool) : ST s (s.releaseConnectionCapacity c b) := by
  unfold Streams.releaseConnectionCapacity; st_auto
theorem releaseCapacity_st (s : Streams) (k c : Nat) (b : Bool) : ST s (s.releaseCapacity k c b).1 := by
  unfold Streams.releaseCapacity; st_auto
theorem clearRecvBuffer_st (s : Streams) (k : Nat) (b : Bool) : ST s (s.clearRecvBuffer k b) := by
  unfold Streams.clearRecvBuffer; st_auto
theorem releaseClosedCapacity_st (s : Streams) (k : Nat) : ST s (s.releaseClosedCapacity k) := by
  unfold Streams.releaseClosedCapacity; st_auto
theorem consumeConnectionWindow_st (s : Streams) (sz : Nat) : ST s (s.consumeConnectionWindow sz).1 := by
  unfold Streams.consumeConnectionWindow; st_auto
theorem ignoreData_st (s : Streams) (sz : Nat) : ST s (s.ignoreData sz).1 := by
  unfold Streams.ignoreData; st_auto
theorem recvOpen_st (s : Streams) (id : Nat) (b : Bool) : ST s (s.recvOpen id b).1 := by
  unfold Streams.recvOpen; st_auto
theorem notifyPushIfRecvEnded_st (s : Streams) (k : Nat) : ST s (s.notifyPushIfRecvEnded k) := by
  unfold Streams.notifyPushIfRecvEnded; st_auto
theorem recvRecvTrailers_st (s : Streams) (k : Nat) (h : HeadersIn) : ST s (s.recvRecvTrailers k h).1 := by
  unfold Streams.recvRecvTrailers; st_auto
theorem recvRecvPushPromise_st (s : Streams) (k : Nat) (h : HeadersIn) : ST s (s.recvRecvPushPromise k h).1 := by
  unfold Streams.recvRecvPushPromise; st_auto
theorem recvHandleError_st (s : Streams) (k : Nat) (e : PErr) : ST s (s.recvHandleError k e) := by
  unfold Streams.recvHandleError; st_auto
theorem recvGoAway_st (s : Streams) (l : Nat) : ST s (s.recvGoAway l) := by
  unfold Streams.recvGoAway; st_auto
theorem recvRecvEof_st (s : Streams) (k : Nat) : ST s (s.recvRecvEof k) := by
  unfold Streams.recvRecvEof; st_auto
theorem recvMaybeResetNextStreamId_st (s : Streams) (id : Nat) : ST s (s.recvMaybeResetNextStreamId id) := by
  unfold Streams.recvMaybeResetNextStreamId; st_auto
theorem sendPendingRefusal_st (s : Streams) (w : Writer) : ST s (s.sendPendingRefusal w).1 := by
  unfold Streams.sendPendingRefusal; st_auto
theorem scheduleRecv_st (s : Streams) (k : Nat) (t : String) : ST s (s.scheduleRecv k t).1 := by
  unfold Streams.scheduleRecv; st_auto
theorem recvPollData_st (s : Streams) (k : Nat) (t : String) : ST s (s.recvPollData k t).1 := by
  unfold Streams.recvPollData; st_auto
theorem recvPollTrailers_st (s : Streams) (k : Nat) (t : String) : ST s (s.recvPollTrailers k t).1 := by
  unfold Streams.recvPollTrailers; st_auto
theorem recvPollInformational_st (s : Streams) (k : Nat) (t : String) : ST s (s.recvPollInformational k t).1 := by
  unfold Streams.recvPollInformational; st_auto
theorem enqueueResetExpiration_st (s : Streams) (k : Nat) : ST s (s.enqueueResetExpiration k) := by
  unfold Streams.enqueueResetExpiration; st_auto
theorem recvRecvReset_st (s : Streams) (k : Nat) (r : Reason) : ST s (s.recvRecvReset k r).1 := by
  unfold Streams.recvRecvReset; st_auto
theorem recvRecvHeaders_st (s : Streams) (k : Nat) (h : HeadersIn) : ST s (s.recvRecvHeaders k h).1 := by
  unfold Streams.recvRecvHeaders
  split
  · exact .refl _
  · next st' isInitial heq =>
    dsimp only
    generalize hs1 : Streams.modStream s k _ = s1
    have h1 : ST s s1 := by rw [← hs1]; exact modStream_st _ _ _
    split
    · exact h1
    · generalize hs2 : (if (isInitial && !(s1.stream k).isCounted) = true then _ else s1) = s2
      have h2 : ST s s2 := by
        rw [← hs2]
        split
        · refine h1.trans (ST.trans ?_ (incNumRecvStreams_st _ _))
          split
          · exact modRecv_st _ _
          · exact .refl _
        · exact h1
      st_auto
theorem recvRecvData_st (s : Streams) (k : Nat) (payload : Bytes) (eos : Bool) (pad : Option Nat) : ST s (s.recvRecvData k payload eos pad).1 := by
  unfold Streams.recvRecvData
  cases pad <;> dsimp only
  all_goals (
    generalize hs0 : (if _ > Generated.Consts.MAX_WINDOW_SIZE then s.panic _ else s) = s0
    have h0 : ST s s0 := by rw [← hs0]; split; exact panic_st _ _; exact .refl _
    split
    · exact h0
    split
    · st_auto
    split
    · st_auto
    · next s1 _ heq1 =>
      have h1 : ST s s1 := h0.trans (ST.of_fst_eq heq1 (consumeConnectionWindow_st _ _))
      split
      · exact h1
      · split
        · exact h1
        · next st1 hdc =>
          generalize hs2 : s1.setStream st1 = s2
          have h2 : ST s s2 := by
            rw [← hs2]; exact h1.trans (setStream_st s1 st1)
          generalize hs3 : (if eos = true then _ else (s2, (none : Option PErr))) = p3
          have h3 : ST s p3.1 := by
            rw [← hs3]
            split
            · split
              · exact h2
              · split
                · exact h2
                · exact h2.trans (modStream_st _ _ _)
            · exact h2
          split
          · exact h3
          · next s4 =>
            have h4 : ST s s4 := h3
            st_auto)
theorem recvPollPushed_st (s : Streams) (k : Nat) (t : String) : ST s (s.recvPollPushed k t).1 := by
  unfold Streams.recvPollPushed; st_auto
theorem maybeCancel_st (s : Streams) (k : Nat) : ST s (s.maybeCancel k) := by
  unfold Streams.maybeCancel; st_auto
theorem refReserveCapacity_st (s : Streams) (k c : Nat) : ST s (s.refReserveCapacity k c) := by
  unfold Streams.refReserveCapacity; st_auto
theorem refReleaseCapacity_st (s : Streams) (k c : Nat) : ST s (s.refReleaseCapacity k c).1 := by
  unfold Streams.refReleaseCapacity; st_auto
theorem refClearRecvBuffer_st (s : Streams) (k : Nat) : ST s (s.refClearRecvBuffer k) := by
  unfold Streams.refClearRecvBuffer; st_auto
theorem pollPendingOpen_st (s : Streams) (p : Option Nat) (t : String) : ST s (s.pollPendingOpen p t).1 := by
  unfold Streams.pollPendingOpen; st_auto
theorem cloneHandle_st (s : Streams) : ST s s.cloneHandle := by
  unfold Streams.cloneHandle; st_auto
theorem dropHandle_st (s : Streams) : ST s s.dropHandle := by
  unfold Streams.dropHandle; st_auto
theorem refPollData_st (s : Streams) (k : Nat) (t : String) : ST s (s.refPollData k t).1 := by
  unfold Streams.refPollData; st_auto
theorem refInc_st (s : Streams) (k : Nat) : ST s (s.refInc k) := by
  unfold Streams.refInc; st_auto
theorem cloneStreamRef_st (s : Streams) (k : Nat) : ST s (s.cloneStreamRef k) := by
  unfold Streams.cloneStreamRef; st_auto
theorem refPollPushed_st (s : Streams) (k : Nat) (t : String) : ST s (s.refPollPushed k t).1 := by
  unfold Streams.refPollPushed; st_auto
theorem recvNextIncoming_st (s : Streams) : ST s s.recvNextIncoming.1 := by
  unfold Streams.recvNextIncoming; st_auto
theorem nextIncoming_st (s : Streams) : ST s s.nextIncoming.1 := by
  unfold Streams.nextIncoming; st_auto
theorem recvTakeRequest_st (s : Streams) (k : Nat) : ST s (s.recvTakeRequest k).1 := by
  unfold Streams.recvTakeRequest; st_auto
theorem recvPollResponse_st (n : Nat) (s : Streams) (k : Nat) (t : String) : ST s (Streams.recvPollResponse n s k t).1 := by
  induction n generalizing s with
  | zero => unfold Streams.recvPollResponse; exact .refl _
  | succ n ih => unfold Streams.recvPollResponse; st_auto_ih ih
theorem resetOnRecvStreamErr_st (s : Streams) (k : Nat) (r : Except PErr Unit) : ST s (s.resetOnRecvStreamErr k r).1 := by
  unfold Streams.resetOnRecvStreamErr; st_auto
theorem setTargetConnectionWindow_st (s : Streams) (t : Nat) : ST s (s.setTargetConnectionWindow t).1 := by
  unfold Streams.setTargetConnectionWindow; st_auto
theorem recvWindowUpdate_st (s : Streams) (id inc : Nat) : ST s (s.recvWindowUpdate id inc).1 := by
  unfold Streams.recvWindowUpdate; st_auto

end H2V.Lemmas.ConnNoPanicP.Sticky
