import H2V.Lemmas.ConnNoPanicPDsOxOps
/-
  C08 (no panic) — the residual hypothesis `OH` as an invariant, part 6: the operations that need the role of the connection,
  a typing precondition or `DSum`, and the step theorem `OXs_step` for every operation outside the write path.
-/
namespace H2V.Lemmas.ConnNoPanicP
open H2V H2V.Model H2V.Model.Conn H2V.Lemmas.ConnCountsP
open H2V.Lemmas.ConnResetP (Op run)
attribute [local irreducible] wrapSubU32 wrapSubUsize

variable {sv : Bool}

theorem refSendResponse_xk (s : Streams) (k : Nat) (f : List Hpack.Field) (eos : Bool) (hr : s.counts.isServer = sv) :
    XK sv s (s.refSendResponse k f eos).1 := by
  unfold Streams.refSendResponse; exact transition_xk' _ _ _ (sendHeaders_xk s k eos f hr)
theorem refSendInformationalHeaders_xk (s : Streams) (k : Nat) (f : List Hpack.Field)
    (hty : locId sv (s.stream k).id = false) : XK sv s (s.refSendInformationalHeaders k f).1 := by
  unfold Streams.refSendInformationalHeaders; exact transition_xk' _ _ _ (sendInterimInformationalHeaders_xk s k f hty)
theorem refSendData_xk (s : Streams) (k len : Nat) (eos : Bool) (hds : DS (s.stream k))
    (hb : (s.stream k).bufferedSendData + len < USIZE_MOD) : XK sv s (s.refSendData k len eos).1 := by
  unfold Streams.refSendData; exact transition_xk' _ _ _ (prioSendData_xk s k len eos hds hb)

-- ===================================================================== Inner::recv_headers

theorem recvHeadersClosure_xk (k : Nat) (h : HeadersIn) (s : Streams) (hr : s.counts.isServer = sv) :
    XK sv s (recvHeadersClosure k h s).1 := by
  unfold recvHeadersClosure
  dsimp only
  split
  · exact .refl _
  · have hfin : ∀ (t : Streams) (r : Except PErr Unit), XK sv s t → XK sv s (t.resetOnRecvStreamErr k r).1 :=
      fun t r ht => ht.trans (resetOnRecvStreamErr_xk _ _ _)
    split
    · have hrole := (recvRecvHeaders_ev s k h).nx.role
      generalize hrr : s.recvRecvHeaders k h = p at hrole
      obtain ⟨s1, res⟩ := p
      have h1 : XK sv s s1 := XK.of_fst_eq hrr (recvRecvHeaders_xk s k h)
      cases res with
      | ok => exact hfin _ _ h1
      | oversize b =>
        cases b
        · exact hfin _ _ h1
        · refine hfin _ _ (h1.trans ?_)
          simp only []
          refine XK.trans (XK.trans (sendHeaders_xk s1 k true _ (hrole.trans hr)) (scheduleImplicitReset_xk _ _ _))
            (enqueueResetExpiration_xk _ _)
      | state e => exact hfin _ _ h1
      | unsupported => exact hfin _ _ (h1.trans (unsup_xk _ _))
    · generalize hrr : s.recvRecvTrailers k h = p
      obtain ⟨s1, res⟩ := p
      exact hfin _ _ (XK.of_fst_eq hrr (recvRecvTrailers_xk s k h))

theorem recvHeadersTail_xk (k : Nat) (h : HeadersIn) (s : Streams) (hr : s.counts.isServer = sv) :
    XK sv s (recvHeadersTail k h s).1 := by
  unfold recvHeadersTail
  dsimp only
  split
  · exact .refl _
  · split
    · exact .refl _
    · exact transition_xk' _ _ _ (recvHeadersClosure_xk k h s hr)

theorem recvHeaders_xk (s : Streams) (h : HeadersIn) (hr : s.counts.isServer = sv) : XK sv s (s.recvHeaders h).1 := by
  unfold Streams.recvHeaders
  dsimp only
  split
  · exact .refl _
  · cases hfk : s.store.findKey? h.sid with
    | some k =>
      simp only []
      exact recvHeadersTail_xk k h s hr
    | none =>
      simp only []
      by_cases hforg : (!s.counts.isServer && s.mayHaveForgottenStream h.sid) = true
      · simp only [hforg, if_true]; exact .refl _
      · simp only [hforg, Bool.false_eq_true, if_false]
        have hrole := (recvOpen_ev (ρ := true) s h.sid false).nx.role
        generalize hro : s.recvOpen h.sid false = p at hrole
        obtain ⟨s1, res⟩ := p
        have h1 : XK sv s s1 := XK.of_fst_eq hro (recvOpen_xk s h.sid false)
        cases res with
        | error e => exact h1
        | ok b =>
          cases b
          · exact h1
          · simp only []
            have h2 := h1.trans (insertNew_xk s1 h.sid s1.actions.send.initWindowSz s1.recv.initWindowSz)
            exact h2.trans (recvHeadersTail_xk _ h _ (hrole.trans hr))

-- ===================================================================== Streams::send_request

theorem sendRequestCore_xk (s : Streams) (isHead : Bool) (fields : List Hpack.Field) (eos : Bool) (hr : s.counts.isServer = sv) :
    XK sv s (sendRequestCore isHead fields eos s).1 := by
  unfold sendRequestCore
  have hrole := (sendOpenId_ev (ρ := true) s).nx.role
  generalize hso : s.sendOpenId = p at hrole
  obtain ⟨s1, r⟩ := p
  have h1 : XK sv s s1 := XK.of_fst_eq hso (sendOpenId_xk s)
  cases r with
  | error e => exact h1
  | ok id =>
    simp only []
    generalize hsP : (if s1.store.contains id = true then s1.panic _ else s1) = sP
    have hP : XK sv s sP := by rw [← hsP]; split; exact h1.trans (panic_xk _ _); exact h1
    have hrP : sP.counts.isServer = sv := by
      rw [← hsP]; split
      · rw [panic_counts]; exact hrole.trans hr
      · exact hrole.trans hr
    generalize hst : (if isHead = true then _ else Stream.new id s1.actions.send.initWindowSz s1.recv.initWindowSz) = st
    have hf : ∀ r k, XEr sv r { st with key := k } := by
      intro r k; rw [← hst]; split <;>
        exact ⟨fun _ _ => ⟨rfl, rfl, rfl⟩, fun h => Bool.noConfusion h, fun h => Bool.noConfusion h⟩
    have h2 : XK sv s { sP with store := (sP.store.insert st).1 } := hP.trans (insert_xk sP st hf)
    have hkk : (sP.store.insert st).2 = sP.store.nextKey := rfl
    rw [hkk]
    have h3 := sendHeaders_xk (sv := sv) ({ sP with store := (sP.store.insert st).1 } : Streams) sP.store.nextKey eos fields hrP
    generalize hsh : Streams.sendHeaders _ sP.store.nextKey eos fields = q at h3
    obtain ⟨s3, r3⟩ := q
    cases r3 with
    | error e =>
      simp only []
      exact (h2.trans h3).trans ((unlink_xk s3 id).trans (remove_xk ({ s3 with store := s3.store.unlink id } : Streams) _ _))
    | ok u =>
      simp only []
      exact (h2.trans h3).trans
        ((setMisc_xk s3 s3.actions (s3.refs + 1) s3.recvBufferLeaked s3.wakes s3.unsupported).trans (refInc_xk _ _))

theorem sendRequest_xk (s : Streams) (isHead : Bool) (fields : List Hpack.Field) (eos : Bool) (pending : Option Nat)
    (hr : s.counts.isServer = sv) : XK sv s (s.sendRequest isHead fields eos pending).1 := by
  rcases sendRequest_cases s isHead fields eos pending with e | e
  · rw [e]; exact .refl _
  · rw [e]; exact sendRequestCore_xk s isHead fields eos hr


-- ===================================================================== StreamRef::send_push_promise

theorem reserveLocal_ok {st st' : State} {u : Unit} (h : st.reserveLocal = (st', .ok u)) : st'.isSendStreaming = false := by
  obtain ⟨inner⟩ := st
  rcases inner with _ | _ | _ | ⟨_ | _, _ | _⟩ | ⟨_ | _⟩ | ⟨_ | _⟩ | _ <;> simp [State.reserveLocal] at h
  rw [← h]; rfl

/-- a new entry is reserved: `is_pending_push`, nothing queued -/
theorem xp_reserve (x : Stream) (st' : State) (h0 : x.pendingSend = [] ∧ x.isPendingSend = false ∧ x.bufferedSendData = 0)
    (hst : st'.isSendStreaming = false) : Xp sv x { x with state := st', isPendingPush := true } :=
  ⟨fun _ _ => ⟨fun _ _ => h0, fun _ => .inl ⟨h0.2.1, by show hnd x.pendingSend; rw [h0.1]; rfl, fun _ => ⟨hst, h0.2.2⟩⟩,
    fun _ => by show x.bufferedSendData ≤ _; rw [h0.2.2]; exact Nat.zero_le _⟩⟩

/-- **`StreamRef::send_push_promise`**, the parent being a peer-initiated stream (typing precondition) -/
theorem refSendPushPromise_xk (s : Streams) (hk : KeysFresh s) (parent : Nat) (valid : Bool) (fields : List Hpack.Field)
    (hlp : Live s parent) (hty : locId sv (s.stream parent).id = false) :
    XK sv s (s.refSendPushPromise parent valid fields).1 := by
  unfold Streams.refSendPushPromise Streams.sendReserveLocal
  generalize hso : s.sendOpenId = p
  obtain ⟨s1, r⟩ := p
  have hst1 : s1.store = s.store := by have := sendOpenId_store s; rw [hso] at this; exact this
  have h1 : XK sv s s1 := XK.of_fst_eq hso (sendOpenId_xk s)
  cases r with
  | error e => exact h1
  | ok pid =>
    simp only []
    generalize hsP : (if s1.store.contains pid = true then s1.panic _ else s1) = sP
    have hstP : sP.store = s.store := by rw [← hsP]; split; rw [panic_store, hst1]; exact hst1
    have hP : XK sv s sP := by rw [← hsP]; split; exact h1.trans (panic_xk _ _); exact h1
    have hkP : KeysFresh sP := keysFresh_of_store hstP hk
    generalize hst : Stream.new pid sP.actions.send.initWindowSz sP.recv.initWindowSz = st
    have hf : st.pendingSend = [] ∧ st.isPendingSend = false ∧ st.bufferedSendData = 0 := by
      rw [← hst]; exact ⟨rfl, rfl, rfl⟩
    have h2 : XK sv s { sP with store := (sP.store.insert st).1 } :=
      hP.trans (insert_xk sP st (fun _ _ => ⟨fun _ _ => hf, fun h => by
        have : flagB st = true := h
        rw [← hst] at this; exact Bool.noConfusion this, fun h => by
        have : flagB st = true := h
        rw [← hst] at this; exact Bool.noConfusion this⟩))
    have hkk : (sP.store.insert st).2 = sP.store.nextKey := rfl
    rw [hkk]
    have hs2 : ({ sP with store := (sP.store.insert st).1 } : Streams).stream sP.store.nextKey = { st with key := sP.store.nextKey } :=
      stream_of_get? (insert_get?_new hkP st)
    have hlpP : Live sP parent := by unfold Live at *; rw [hstP]; exact hlp
    have hne : parent ≠ sP.store.nextKey := by
      intro e; obtain ⟨x, hx⟩ := hlpP; rw [e, get?_nextKey_none hkP] at hx; cases hx
    have hpar2 : ({ sP with store := (sP.store.insert st).1 } : Streams).stream parent = s.stream parent := by
      obtain ⟨x, hx⟩ := hlpP
      have h' : ({ sP with store := (sP.store.insert st).1 } : Streams).store.get? parent = some x := insert_get?_old _ _ _ _ hx
      rw [stream_of_get? h']
      have : s.store.get? parent = some x := by rw [← hstP]; exact hx
      rw [stream_of_get? this]
    generalize hs2g : ({ sP with store := (sP.store.insert st).1 } : Streams) = s2 at h2 hs2 hpar2 ⊢
    split
    · exact h2
    · next st' u heq =>
      have hns : st'.isSendStreaming = false := reserveLocal_ok heq
      have h4 : XK sv s2 (s2.modStream sP.store.nextKey fun x => { x with state := st', isPendingPush := true }) := by
        refine modStream_xk _ _ _ ⟨rfl, ?_⟩
        rw [hs2]
        exact xp_reserve _ st' hf hns
      have hpar4 : ((s2.modStream sP.store.nextKey fun x => { x with state := st', isPendingPush := true }).stream parent) =
          s.stream parent := by
        have := ConnFlowP.stream_modStream_other (s := s2) (id := sP.store.nextKey) (k := parent)
          (fun x => ({ x with state := st', isPendingPush := true } : Stream)) (fun _ => rfl) hne
        rw [this]; exact hpar2
      generalize (s2.modStream sP.store.nextKey fun x => { x with state := st', isPendingPush := true }) = s4 at h4 hpar4 ⊢
      split
      · exact h2.trans h4
      · have h5 := sendPushPromise_xk (sv := sv) s4 parent sP.store.nextKey pid fields (by rw [hpar4]; exact hty)
        generalize hsp : s4.sendPushPromise parent sP.store.nextKey pid fields = q at h5
        obtain ⟨s5, r5⟩ := q
        cases r5 with
        | error e =>
          simp only []
          exact ((h2.trans h4).trans h5).trans
            ((unlink_xk s5 pid).trans (remove_xk ({ s5 with store := s5.store.unlink pid } : Streams) _ _))
        | ok u =>
          simp only []
          exact ((h2.trans h4).trans h5).trans
            ((setMisc_xk s5 s5.actions (s5.refs + 1) s5.recvBufferLeaked s5.wakes s5.unsupported).trans (refInc_xk _ _))

-- ===================================================================== the step theorem

/-- **the invariant**: `XE` for every entry, with the role of the connection -/
def OXs (s : Streams) : Prop := ∀ k, XE s.counts.isServer (s.stream k)

theorem OXs.oh {s : Streams} (h : OXs s) : OH s := fun k => (h k).ohead
theorem OXs_blank {s : Streams} (h : Blank s) : OXs s := fun k => by rw [blank_streamD h.slab k]; exact XEr.blank 0 k

theorem XK.oxs {s s' : Streams} (h : XK s.counts.isServer s s') (hr : s'.counts.isServer = s.counts.isServer) (hx : OXs s) :
    OXs s' := fun k => by rw [hr]; exact h.xe 0 k (hx k)

/-- typing preconditions (`fiPre`), the handle of `send_push_promise` exists, and `recv_push_promise` on a connection that
    accepts no PUSH_PROMISE changes nothing (`recvPushPromise_fiNoPush`) -/
def oxPre (s : Streams) : Op → Prop
  | .refSendInformationalHeaders k _ => s.counts.isLocalInit (s.stream k).id = false
  | .refSendPushPromise p _ _ => s.counts.isLocalInit (s.stream p).id = false ∧ Live s p
  | .recvPushPromise id h => (s.recvPushPromise id h).1 = s
  | _ => True

/-- **every operation outside the write path is an `XK` step** -/
theorem op_xk (s : Streams) (op : Op) (hk : KeysFresh s) (hd : DSum s) (hpre : oxPre s op) (hl : opLen s op)
    (hw : opNoWriter op) : XK s.counts.isServer s (op.apply s) := by
  cases op
  case recvHeaders h => exact recvHeaders_xk s h rfl
  case recvData id p eos pad => exact recvData_xk s id p eos pad
  case recvReset id r => exact recvReset_xk s id r
  case recvWindowUpdate id inc => exact recvWindowUpdate_xk s id inc
  case recvPushPromise id h =>
    have e : (s.recvPushPromise id h).1 = s := hpre
    show XK _ s (s.recvPushPromise id h).1
    rw [e]; exact .refl _
  case handleError e => exact handleError_xk s e
  case recvGoAwayFrame l r d => exact recvGoAwayFrame_xk s l r d
  case recvGoAway l => exact recvGoAway_xk s l
  case recvEof c => exact recvEof_xk s c
  case innerSendReset id r => exact innerSendReset_xk s id r
  case setTargetConnectionWindow t => exact setTargetConnectionWindow_xk s t
  case applyRemoteSettings v b => exact applyRemoteSettings_xk s v b
  case applyLocalSettingsFrame v => exact applyLocalSettingsFrame_xk s v
  case pollComplete => exact hw.elim
  case pollSendPendingRefusal => exact hw.elim
  case clearExpiredResetStreams n => exact clearExpiredResetStreams_xk n s
  case wake t => exact wake_xk s t
  case clearWakes => exact XK.of_store (s := s) (s' := { s with wakes := [] }) rfl
  case panic m => exact panic_xk s m
  case cloneHandle => exact cloneHandle_xk s
  case dropHandle => exact dropHandle_xk s
  case sendRequest a b c d => exact sendRequest_xk s a b c d rfl
  case pollPendingOpen p t => exact pollPendingOpen_xk s p t
  case nextIncoming => exact nextIncoming_xk s
  case recvTakeRequest k => exact recvTakeRequest_xk s k
  case cloneStreamRef k => exact cloneStreamRef_xk s k
  case dropStreamRef k => exact dropStreamRef_xk s k
  case refSendResponse k f eos => exact refSendResponse_xk s k f eos rfl
  case refSendInformationalHeaders k f =>
    have : s.counts.isLocalInit (s.stream k).id = false := hpre
    exact refSendInformationalHeaders_xk s k f (by rw [isLocalInit_eq] at this; exact this)
  case refSendPushPromise p v f =>
    have : s.counts.isLocalInit (s.stream p).id = false ∧ Live s p := hpre
    exact refSendPushPromise_xk s hk p v f this.2 (by have := this.1; rw [isLocalInit_eq] at this; exact this)
  case refSendData k len eos => exact refSendData_xk s k len eos (hd k) hl
  case refSendTrailers k f => exact refSendTrailers_xk s k f
  case refReserveCapacity k c => exact refReserveCapacity_xk s k c
  case pollCapacity k t => exact pollCapacity_xk s k t
  case refSendReset k r => exact refSendReset_xk s k r
  case pollReset k m t => exact pollReset_xk s k m t
  case recvPollResponse n k t => exact recvPollResponse_xk n s k t
  case recvPollInformational k t => exact recvPollInformational_xk s k t
  case refPollData k t => exact refPollData_xk s k t
  case recvPollTrailers k t => exact recvPollTrailers_xk s k t
  case refReleaseCapacity k c => exact refReleaseCapacity_xk s k c
  case refClearRecvBuffer k => exact refClearRecvBuffer_xk s k

/-- **`OXs` is kept by every operation outside the write path**; `hr`: the role of the connection does not change
    (`(f_ev …).nx.role` of ConnCountsP for every operation) -/
theorem OXs_step {s : Streams} (hn : NPI (fun _ => False) s) (hd : DSum s) (hx : OXs s) (op : Op) (hpre : oxPre s op)
    (hl : opLen s op) (hw : opNoWriter op) (hr : (op.apply s).counts.isServer = s.counts.isServer) : OXs (op.apply s) :=
  (op_xk s op hn.keys.fresh hd hpre hl hw).oxs hr hx


-- ===================================================================== the write path: what is closed

/-- **`Streams::send_pending_refusal` keeps `OXs`** (it does not touch the store) -/
theorem OXs_pollSendPendingRefusal {s : Streams} (hx : OXs s) (fuel : Nat) (w : Writer) (io : Tio) (tag : String)
    (hr : (Streams.pollSendPendingRefusal fuel s w io tag).1.counts.isServer = s.counts.isServer) :
    OXs (Streams.pollSendPendingRefusal fuel s w io tag).1 :=
  (pollSendPendingRefusal_xk fuel s w io tag).oxs hr hx

/-- the receive half of `Inner::buffer_pending` (WINDOW_UPDATE frames) is a frame step -/
theorem sendConnectionWindowUpdate_xk (s : Streams) (w : Writer) : XK sv s (s.sendConnectionWindowUpdate w).1 := by
  unfold Streams.sendConnectionWindowUpdate; xk_auto
theorem sendStreamWindowUpdates_xk (n : Nat) : ∀ (s : Streams) (w : Writer), XK sv s (Streams.sendStreamWindowUpdates n s w).1 := by
  induction n with
  | zero => intro s w; unfold Streams.sendStreamWindowUpdates; exact .refl _
  | succ n ih => intro s w; unfold Streams.sendStreamWindowUpdates; xk_auto_ih ih
theorem recvBufferPending_xk (s : Streams) (w : Writer) : XK sv s (s.recvBufferPending w).1 := by
  unfold Streams.recvBufferPending; xk_auto
theorem bufferOut_xk (s : Streams) (w : Writer) (f : Streams.OutFrame) : XK sv s (s.bufferOut w f).1 := by
  unfold Streams.bufferOut; xk_auto

end H2V.Lemmas.ConnNoPanicP
