import H2V.Lemmas.ConnCtlPViewRecv
import H2V.Lemmas.ConnCtlPViolStreams
/-
  ConnCtlP, part 12b — C09, flow-control overruns (RFC 9113 §6.9.1): DATA beyond the connection
  window is a connection error FLOW_CONTROL_ERROR; DATA within the connection window but beyond the
  stream's window is a stream error FLOW_CONTROL_ERROR (answered in place, see
  `resetOnRecvStreamErr_spec`); DATA for an unknown stream beyond the connection window likewise
  kills the connection.
-/
set_option autoImplicit false
set_option linter.unusedSimpArgs false
namespace H2V.Lemmas.ConnCtlP
open H2V H2V.Model H2V.Model.Conn

/-- `Recv::consume_connection_window` refuses more than the connection's receive window -/
theorem consumeConnectionWindow_overrun (s : Streams) (sz : Nat) (h : s.recv.flow.windowSz < sz) :
    s.consumeConnectionWindow sz = (s, .error (PErr.libraryGoAway FLOW_CONTROL_ERROR)) := by
  unfold Streams.consumeConnectionWindow
  rw [if_pos h]

/-- DATA beyond the connection window on a stream that is receiving: `Recv::recv_data` answers the
    connection error FLOW_CONTROL_ERROR and changes nothing -/
theorem recvDataCore_conn_overrun (s : Streams) (k : Nat) (payload : Bytes) (eos : Bool) (flowLen : Nat)
    (h1 : (s.stream k).state.isLocalError = false) (h2 : (s.stream k).state.isRecvStreaming = true)
    (h : s.recv.flow.windowSz < usizeAsU32 flowLen) :
    recvDataCore s k payload eos flowLen = (s, .error (PErr.libraryGoAway FLOW_CONTROL_ERROR)) := by
  unfold recvDataCore
  simp only [h1, h2, Bool.not_false, Bool.not_true, Bool.and_false, Bool.false_eq_true, if_false]
  rw [consumeConnectionWindow_overrun s _ h]

/-- DATA within the connection window but beyond the stream's window: the stream error
    FLOW_CONTROL_ERROR (the connection window stays debited: `Inner::recv_data` gives the octets
    back with `release_connection_capacity` before the reset) -/
theorem recvDataCore_stream_overrun (s s1 : Streams) (k : Nat) (payload : Bytes) (eos : Bool) (flowLen : Nat) (u : Unit)
    (h1 : (s.stream k).state.isLocalError = false) (h2 : (s.stream k).state.isRecvStreaming = true)
    (hc : s.consumeConnectionWindow (usizeAsU32 flowLen) = (s1, .ok u))
    (h : (s1.stream k).recvFlow.windowSz < usizeAsU32 flowLen) :
    recvDataCore s k payload eos flowLen = (s1, .error (PErr.libraryReset (s1.stream k).id FLOW_CONTROL_ERROR)) := by
  unfold recvDataCore
  simp only [h1, h2, Bool.not_false, Bool.not_true, Bool.and_false, Bool.false_eq_true, if_false]
  rw [hc]
  simp only [h, if_true]

/-- DATA for an unknown stream (above `max_stream_id`, or forgotten) beyond the connection window:
    `ignore_data` answers the connection error -/
theorem ignoreData_overrun (s : Streams) (sz : Nat) (h : s.recv.flow.windowSz < sz) :
    s.ignoreData sz = (s, .error (PErr.libraryGoAway FLOW_CONTROL_ERROR)) := by
  unfold Streams.ignoreData
  rw [consumeConnectionWindow_overrun s _ h]

/-- the whole of `Inner::recv_data` for the connection-window overrun: connection error -/
theorem recvData_conn_overrun (s : Streams) (id k : Nat) (payload : Bytes) (eos : Bool)
    (hk : s.store.findKey? id = some k) (hsz : payload.length ≤ Generated.Consts.MAX_WINDOW_SIZE)
    (h1 : (s.stream k).state.isLocalError = false) (h2 : (s.stream k).state.isRecvStreaming = true)
    (h : s.recv.flow.windowSz < usizeAsU32 payload.length) :
    (s.recvData id payload eos none).2 = .error (PErr.libraryGoAway FLOW_CONTROL_ERROR) := by
  have hrr : s.recvRecvData k payload eos none = (s, .error (PErr.libraryGoAway FLOW_CONTROL_ERROR)) := by
    rw [recvRecvData_eq]
    have : ¬ payload.length + 0 > Generated.Consts.MAX_WINDOW_SIZE := by omega
    simp only [this, if_false]
    exact recvDataCore_conn_overrun s k payload eos _ h1 h2 (by simpa using h)
  unfold Streams.recvData Streams.transition
  simp only [hk]
  rw [hrr]
  simp [Streams.resetOnRecvStreamErr, PErr.libraryGoAway]

end H2V.Lemmas.ConnCtlP
