import H2V.Lemmas.HpackDecInt
import H2V.Lemmas.HpackDecTable
import H2V.Lemmas.HpackDecLit
import H2V.Lemmas.HpackDecStep
import H2V.Lemmas.HpackDecInv
import H2V.Lemmas.HpackDecRefine
import H2V.Lemmas.HpackDecSplit
/-
  HPACK decoder lemmas (namespace `H2V.Lemmas.HpackDec`), for property C11.

  A  integers          HpackDecInt     decodeInt_sound, decodeInt_spec_none, decodeInt_shape,
                                       decodeInt_bounded, int_roundtrip, int_roundtrip_exact,
                                       int_roundtrip_overflow
  B  table invariant   HpackDecTable   Table.Inv, new_inv, insert_preserves_inv, setMaxSize_spec,
                                       setMaxSize_preserves_inv, consolidate_ne_none,
                                       insert_entries / evict_concat (h2 back-eviction = RFC evict)
                       HpackDecInv     decode_preserves_inv, decode_never_fuel, decode_never_panic,
                                       decode_no_model_error, table_within_limit
  C  refinement        HpackDecRefine  abs, decode_sound, spec_error_rejected
                       HpackDecLit     decodeString_sound, decodeLiteral_sound, mkHeader_ok, intoEntry_ok
  D  split invariance  HpackDecSplit   split_invariance, split_invariance_resume,
                                       split_invariance_error, split_invariance_list,
                                       step_needMore_tail (HpackDecLit: decodeLiteral_needMore_tail)

  The Huffman theorem of `H2V.Lemmas.Huffman` enters as the hypothesis `HuffSpec`; the `example`
  below checks that a proof of the statement in its original form is accepted as such.
-/
namespace H2V.Lemmas.HpackDec
open H2V

example
    (h : ∀ bs : Bytes, Bytes.Valid bs →
      Model.Huffman.decode bs =
        (match Spec.Huffman.decode bs with | some out => Res.ok out | none => Res.err ())) :
    HuffSpec := h

end H2V.Lemmas.HpackDec
