import Lean.Elab.Tactic
/-
  ConnResetP — the simp set `crp_store`: lemmas that push the projection `.store` through the
  primitive state transformers of `Streams` (`(s.panic m).store = s.store`, …), so that a goal about
  `(op … s …).store` is normalised to a term built from `Store` operations and opaque model functions.
-/
register_simp_attr crp_store
