import H2V.Lemmas.ConnCountsPInvC
/-
  C05 / C18 / C19 — invariants, part D: `Inv1` along `Ev` and `EvT`.
-/
namespace H2V.Lemmas.ConnCountsP
open H2V H2V.Model H2V.Model.Conn
variable {ρ : Bool}

theorem noPanic_of_mono {s s' : Streams} (h : Mono s s') (hp : s'.panicked = none) : s.panicked = none := by
  cases hs : s.panicked with
  | none => rfl
  | some m =>
    have := h.panic (by simp [hs])
    rw [hp] at this; cases this

/-- `Inv1` after a step that adds one counted entry and increments one of the two counters -/
theorem Inv1.inc {s s' : Streams} (hi : Inv1 s) (hcnt : cntAll s' = cntAll s + 1)
    (hq : s'.recv.pendingResetExpired = s.recv.pendingResetExpired)
    (hc : s'.counts = { s.counts with numSendStreams := s.counts.numSendStreams + 1 } ∨
          (s'.counts = { s.counts with numRecvStreams := s.counts.numRecvStreams + 1 } ∧ s.counts.canIncNumRecvStreams = true)) :
    Inv1 s' := by
  rcases hc with hc | ⟨hc, hcan⟩
  · refine ⟨?_, ?_, ?_, ?_, ?_, ?_⟩ <;> rw [hc] <;> dsimp only
    · have := hi.sum; omega
    · rw [hq]; exact hi.reset
    · exact hi.recvLe
    · exact hi.resetLe
    · exact hi.remoteLe
    · exact hi.errLe
  · refine ⟨?_, ?_, ?_, ?_, ?_, ?_⟩ <;> rw [hc] <;> dsimp only
    · have := hi.sum; omega
    · rw [hq]; exact hi.reset
    · simp only [Counts.canIncNumRecvStreams, decide_eq_true_eq] at hcan; omega
    · exact hi.resetLe
    · exact hi.remoteLe
    · exact hi.errLe

theorem incNumSendStreams_recv (s : Streams) (k : Nat) : (s.incNumSendStreams k).recv = s.recv := by
  unfold Streams.incNumSendStreams
  dsimp only
  rw [modStream_recv]
  unfold Streams.modCounts Streams.recv
  dsimp only
  repeat' split
  all_goals simp only [panic_actions]

theorem incNumRecvStreams_recv (s : Streams) (k : Nat) : (s.incNumRecvStreams k).recv = s.recv := by
  unfold Streams.incNumRecvStreams
  dsimp only
  rw [modStream_recv]
  unfold Streams.modCounts Streams.recv
  dsimp only
  repeat' split
  all_goals simp only [panic_actions]

theorem decNumStreams_recv (s : Streams) (k : Nat) : (s.decNumStreams k).recv = s.recv := by
  unfold Streams.decNumStreams
  dsimp only
  repeat' split
  all_goals (rw [modStream_recv]; simp only [Streams.modCounts, Streams.recv, panic_actions])

theorem Inv1.incSend {s : Streams} {k : Nat} (hA : KeysOK s) (hi : Inv1 s) (hp : (s.incNumSendStreams k).panicked = none) :
    Inv1 (s.incNumSendStreams k) := by
  obtain ⟨_, _, _, hc, hcnt⟩ := incNumSendStreams_spec hA hp
  exact hi.inc hcnt (by rw [incNumSendStreams_recv]) (.inl hc)

theorem Inv1.incRecv {s : Streams} {k : Nat} (hA : KeysOK s) (hi : Inv1 s) (hp : (s.incNumRecvStreams k).panicked = none) :
    Inv1 (s.incNumRecvStreams k) := by
  obtain ⟨_, hcan, _, hc, hcnt⟩ := incNumRecvStreams_spec hA hp
  exact hi.inc hcnt (by rw [incNumRecvStreams_recv]) (.inr ⟨hc, hcan⟩)

theorem Inv1.decNum {s : Streams} {k : Nat} (hA : KeysOK s) (hi : Inv1 s) (hp : (s.decNumStreams k).panicked = none) :
    Inv1 (s.decNumStreams k) := by
  obtain ⟨_, ⟨x, _, _, hc⟩, hcnt⟩ := decNumStreams_spec hA hp
  have hq := decNumStreams_recv s k
  rcases hc with ⟨_, hpos, hc⟩ | ⟨_, hpos, hc⟩
  · refine ⟨?_, ?_, ?_, ?_, ?_, ?_⟩ <;> rw [hc] <;> dsimp only
    · have := hi.sum; omega
    · rw [hq]; exact hi.reset
    · exact hi.recvLe
    · exact hi.resetLe
    · exact hi.remoteLe
    · exact hi.errLe
  · refine ⟨?_, ?_, ?_, ?_, ?_, ?_⟩ <;> rw [hc] <;> dsimp only
    · have := hi.sum; omega
    · rw [hq]; exact hi.reset
    · have := hi.recvLe; omega
    · exact hi.resetLe
    · exact hi.remoteLe
    · exact hi.errLe

/-- `enqueue_reset_expiration`'s step -/
theorem Inv1.resetEnq {s : Streams} {k : Nat} (hA : KeysOK s) (hi : Inv1 s)
    (hc : s.counts.canIncNumResetStreams = true) (hr : (s.stream k).resetAt = false) :
    Inv1 ((s.modCountsA "can_inc_num_reset_streams" Counts.incNumResetStreams).qPush .pendingResetExpired k).1 := by
  have h1 : s.modCountsA "can_inc_num_reset_streams" Counts.incNumResetStreams =
      { s with counts := { s.counts with numLocalResetStreams := s.counts.numLocalResetStreams + 1 } } := by
    unfold Streams.modCountsA Counts.incNumResetStreams
    simp only [hc, if_true]
  rw [h1]
  generalize hs1 : ({ s with counts := { s.counts with numLocalResetStreams := s.counts.numLocalResetStreams + 1 } } : Streams) = s1
  have hA1 : KeysOK s1 := by rw [← hs1]; exact ⟨hA.nodup, hA.fresh⟩
  have hst1 : s1.stream k = s.stream k := by rw [← hs1]; rfl
  have hc1 : s1.counts = { s.counts with numLocalResetStreams := s.counts.numLocalResetStreams + 1 } := by rw [← hs1]
  have hq1 : s1.getQ .pendingResetExpired = s.recv.pendingResetExpired := by rw [← hs1]; rfl
  have hcnt1 : cntAll s1 = cntAll s := by rw [← hs1]; rfl
  clear hs1 h1
  unfold Streams.qPush
  have hq : (s1.stream k).isQueued .pendingResetExpired = false := by rw [hst1]; exact hr
  simp only [hq, Bool.false_eq_true, if_false]
  have hcf := CF.modStream s1 k (fun st => st.setQueued .pendingResetExpired true) (fun x => setQueued_key x _ true) (fun x => setQueued_counted x _ true)
  generalize hs2 : (s1.modStream k fun st => st.setQueued .pendingResetExpired true) = s2 at hcf
  have hlen : (s2.setQ .pendingResetExpired (s1.getQ .pendingResetExpired ++ [k])).recv.pendingResetExpired.length =
      s.recv.pendingResetExpired.length + 1 := by
    show (s1.getQ .pendingResetExpired ++ [k]).length = _
    rw [List.length_append, hq1]; rfl
  have hcnts : (s2.setQ .pendingResetExpired (s1.getQ .pendingResetExpired ++ [k])).counts =
      { s.counts with numLocalResetStreams := s.counts.numLocalResetStreams + 1 } := by
    rw [setQ_counts, ← hs2, modStream_counts2, hc1]
  have hcnt : cntAll (s2.setQ .pendingResetExpired (s1.getQ .pendingResetExpired ++ [k])) = cntAll s := by
    rw [cntAll_of_store_eq (setQ_store _ _ _), hcf.cnt hA1, hcnt1]
  simp only [Counts.canIncNumResetStreams, decide_eq_true_eq] at hc
  refine ⟨?_, ?_, ?_, ?_, ?_, ?_⟩
  · rw [hcnts, hcnt]; exact hi.sum
  · rw [hcnts, hlen]; have := hi.reset; dsimp only; omega
  · rw [hcnts]; exact hi.recvLe
  · rw [hcnts]; dsimp only; omega
  · rw [hcnts]; exact hi.remoteLe
  · rw [hcnts]; exact hi.errLe

theorem EvB.inv1 {s s' : Streams} (h : EvB ρ s s') : s'.panicked = none → KeysOK s → Inv1 s → Inv1 s' := by
  induction h with
  | refl s => exact fun _ _ h => h
  | trans e1 e2 ih1 ih2 =>
    intro hp hA hi
    have hpb := noPanic_of_mono e2.mono hp
    exact ih2 hp (e1.keysOK hA) (ih1 hpb hA hi)
  | free h => exact fun _ hA hi => (CF.of_frame h).inv1 hA hi
  | setStream st' h => exact fun _ hA hi => (CF.setStream _ _ (fun x hx => (h x hx).counted)).inv1 hA hi
  | qPush q k hq _ => exact fun _ hA hi => (CF.qPush _ _ _ hq).inv1 hA hi
  | qPushFront q k hq _ => exact fun _ hA hi => (CF.qPushFront _ _ _ hq).inv1 hA hi
  | qPushOpen k _ => exact fun _ hA hi => (CF.qPush _ _ _ (by decide)).inv1 hA hi
  | qPop q hq _ => exact fun _ hA hi => (CF.qPop _ _ hq).inv1 hA hi
  | qPopOpen => exact fun _ hA hi => (CF.qPop _ _ (by decide)).inv1 hA hi
  | resetEnq k hc hr _ => exact fun _ hA hi => hi.resetEnq hA hc hr
  | insert st hf _ =>
    intro _ hA hi
    exact ⟨by rw [cntAll_insert _ _ hf.counted]; exact hi.sum, hi.reset, hi.recvLe, hi.resetLe, hi.remoteLe, hi.errLe⟩
  | bracket st hf e _ ih =>
    intro hp hA hi
    refine ih hp (hA.insert st) ?_
    exact ⟨by rw [cntAll_insert _ _ hf.counted]; exact hi.sum, hi.reset, hi.recvLe, hi.resetLe, hi.remoteLe, hi.errLe⟩
  | unlink _ => exact fun _ _ hi => ⟨hi.sum, hi.reset, hi.recvLe, hi.resetLe, hi.remoteLe, hi.errLe⟩
  | remove k n hg =>
    intro _ hA hi
    exact ⟨by rw [cntAll_remove hA k n (fun st hst => (hg st hst).1)]; exact hi.sum, hi.reset, hi.recvLe, hi.resetLe, hi.remoteLe, hi.errLe⟩
  | popOpen _ =>
    rename_i s0 _
    intro hp hA hi
    have hcf := CF.qPop s0 QName.pendingOpen (by decide)
    cases hq : s0.qPop .pendingOpen with
    | mk s1 o =>
      rw [hq] at hcf
      cases o with
      | none => simp only [hq] at hp ⊢; exact hcf.inv1 hA hi
      | some id => simp only [hq] at hp ⊢; exact (hcf.inv1 hA hi).incSend (hcf.keys.keysOK hA) hp
  | acceptFlag k v => exact fun _ hA hi => (CF.modStream _ k (fun st => { st with isPendingAccept := v }) (fun _ => rfl) (fun _ => rfl)).inv1 hA hi
  | queuePP k pk pid fields _ => exact fun _ hA hi => (CF.modStream _ k (fun st => { st with pendingSend := st.pendingSend ++ [.pushPromise pk pid fields] }) (fun _ => rfl) (fun _ => rfl)).inv1 hA hi
  | ppAct sid pk pid fields rest pushed _ _ =>
    rename_i s0 _ _
    intro hp hA hi
    have hcf1 := CF.modStream s0 sid (fun st => { st with pendingSend := rest }) (fun _ => rfl) (fun _ => rfl)
    generalize s0.modStream sid (fun st => { st with pendingSend := rest }) = s1 at hcf1 hp ⊢
    have hA1 := hcf1.keys.keysOK hA
    have hi1 := hcf1.inv1 hA hi
    clear hcf1
    unfold ppActivate Streams.queueOpen at hp ⊢
    dsimp only at hp ⊢
    have hcf2 := CF.modStream s1 pushed (fun st => { st with isPendingPush := false }) (fun _ => rfl) (fun _ => rfl)
    generalize s1.modStream pushed (fun st => { st with isPendingPush := false }) = s2 at hcf2 hp ⊢
    have hA2 := hcf2.keys.keysOK hA1
    have hi2 := hcf2.inv1 hA1 hi1
    by_cases hne : (!(s2.stream pushed).pendingSend.isEmpty) = true
    · simp only [hne, if_true] at hp ⊢
      by_cases hcan : s2.counts.canIncNumSendStreams = true
      · simp only [hcan, if_true] at hp ⊢
        have hp3 : (s2.incNumSendStreams pushed).panicked = none := noPanic_of_mono (Mono.qPush _ _ _) hp
        have hi3 := hi2.incSend hA2 hp3
        have hA3 := (SameKeys.incNumSendStreams s2 pushed).keysOK hA2
        exact (CF.qPush _ _ _ (by decide)).inv1 hA3 hi3
      · simp only [hcan] at hp ⊢
        exact (CF.qPush _ _ _ (by decide)).inv1 hA2 hi2
    · simp only [hne] at hp ⊢
      exact hi2
  | incRecv k st' s1 _ hf =>
    rename_i s0 _
    intro hp hA hi
    have hcf1 := CF.modStream s0 k (fun st => { st with state := st' }) (fun _ => rfl) (fun _ => rfl)
    have hcf := hcf1.trans (CF.of_frame hf)
    exact (hcf.inv1 hA hi).incRecv (hcf.keys.keysOK hA) hp
  | decNum k => exact fun hp hA hi => hi.decNum hA hp

theorem modCountsA_noPanic {s : Streams} {w : String} {f : Counts → Option Counts} (h : (s.modCountsA w f).panicked = none) :
    s.panicked = none ∧ ∃ c, f s.counts = some c ∧ s.modCountsA w f = { s with counts := c } := by
  unfold Streams.modCountsA at h ⊢
  cases hc : f s.counts with
  | none => rw [hc] at h; exact absurd h (panic_ne_none _ _)
  | some c => rw [hc] at h; exact ⟨h, c, rfl, rfl⟩

/-- the expiry pop: the queue loses its head, the counter is decremented, the rest is `transition_after` -/
theorem Inv1.resetPop {s0 : Streams} (hA : KeysOK s0) (hi : Inv1 s0)
    (hp : (match s0.qPop .pendingResetExpired with
           | (s', some id) => s'.transitionAfter id true
           | (s', none) => s').panicked = none) :
    Inv1 (match s0.qPop .pendingResetExpired with
          | (s', some id) => s'.transitionAfter id true
          | (s', none) => s') := by
  unfold Streams.qPop at hp ⊢
  cases hq : s0.getQ .pendingResetExpired with
  | nil => simp only [hq] at hp ⊢; exact hi
  | cons id rest =>
    simp only [hq] at hp ⊢
    have hq' : s0.recv.pendingResetExpired = id :: rest := hq
    generalize hs1 : ((s0.setQ .pendingResetExpired rest).modStream id fun st => st.setQueued .pendingResetExpired false) = s1 at hp ⊢
    rw [transitionAfter_split] at hp ⊢
    generalize hs2 : (if (true && !(s1.stream id).isPendingResetExpiration) = true then
        s1.modCountsA "self.num_local_reset_streams > 0" Counts.decNumResetStreams else s1) = s2 at hp ⊢
    have e2 := transitionAfter_false_ev s2 id
    have hp2 : s2.panicked = none := noPanic_of_mono e2.mono hp
    -- the entry exists (otherwise `modStream` panics) and its flag is cleared
    have hp1 : s1.panicked = none := by
      rw [← hs2] at hp2
      split at hp2
      · exact (modCountsA_noPanic hp2).1
      · exact hp2
    obtain ⟨_, x, hx⟩ := modStream_noPanic (by rw [hs1]; exact hp1 : ((s0.setQ .pendingResetExpired rest).modStream id fun st => st.setQueued .pendingResetExpired false).panicked = none)
    have hx1 : s1.store.get? id = some (x.setQueued .pendingResetExpired false) := by
      rw [← hs1]
      exact modStream_get?_self _ id _ x hx (setQueued_key x _ false)
    have hflag : (s1.stream id).isPendingResetExpiration = false := by
      rw [stream_of_get? hx1]; rfl
    -- counters and entries of `s1`
    have hA1 : KeysOK s1 := by
      rw [← hs1]
      exact (SameKeys.modStream _ _ _).keysOK ((SameKeys.setQ _ _ _).keysOK hA)
    have hc1 : s1.counts = s0.counts := by rw [← hs1, modStream_counts2, setQ_counts]
    have hcnt1 : cntAll s1 = cntAll s0 := by
      rw [← hs1]
      have hAq : KeysOK (s0.setQ .pendingResetExpired rest) := (SameKeys.setQ _ _ _).keysOK hA
      rw [cntAll_modStream_same hAq id _ (fun y => setQueued_key y _ false) (fun y => setQueued_counted y _ false)]
      exact cntAll_of_store_eq (setQ_store _ _ _)
    have hr1 : s1.recv.pendingResetExpired = rest := by
      rw [← hs1, modStream_recv]; exact getQ_setQ s0 .pendingResetExpired rest
    -- the decrement
    simp only [hflag, Bool.not_false, Bool.and_self, if_true] at hs2
    rw [← hs2] at hp2
    obtain ⟨_, c, hc, heq2⟩ := modCountsA_noPanic hp2
    unfold Counts.decNumResetStreams at hc
    split at hc
    · next hpos =>
      cases hc
      have hA2 : KeysOK s2 := by rw [← hs2, heq2]; exact ⟨hA1.nodup, hA1.fresh⟩
      refine e2.inv1 hp hA2 ?_
      rw [← hs2, heq2]
      have hlen : s0.recv.pendingResetExpired.length = rest.length + 1 := by rw [hq']; rfl
      refine ⟨?_, ?_, ?_, ?_, ?_, ?_⟩
      · show s1.counts.numSendStreams + s1.counts.numRecvStreams = cntAll s1
        rw [hc1, hcnt1]; exact hi.sum
      · show s1.counts.numLocalResetStreams - 1 = s1.recv.pendingResetExpired.length
        rw [hr1, hc1]; have := hi.reset; omega
      · show s1.counts.numRecvStreams ≤ s1.counts.maxRecvStreams
        rw [hc1]; exact hi.recvLe
      · show s1.counts.numLocalResetStreams - 1 ≤ s1.counts.maxLocalResetStreams
        rw [hc1]; have := hi.resetLe; omega
      · show s1.counts.numRemoteResetStreams ≤ s1.counts.maxRemoteResetStreams
        rw [hc1]; exact hi.remoteLe
      · show ∀ m, s1.counts.maxLocalErrorResetStreams = some m → s1.counts.numLocalErrorResetStreams ≤ m
        rw [hc1]; exact hi.errLe
    · cases hc

theorem EvT.mono_panic {s s' : Streams} (h : EvT s s') (hp : s'.panicked = none) : s.panicked = none := by
  induction h with
  | ev h => exact noPanic_of_mono h.mono hp
  | trans _ _ ih1 ih2 => exact ih1 (ih2 hp)
  | resetPop =>
    rename_i s0
    unfold Streams.qPop at hp
    cases hq : s0.getQ .pendingResetExpired with
    | nil => simp only [hq] at hp; exact hp
    | cons id rest =>
      simp only [hq] at hp
      rw [transitionAfter_split] at hp
      have h2 := noPanic_of_mono (transitionAfter_false_ev _ id).mono hp
      have h1 : ((s0.setQ .pendingResetExpired rest).modStream id fun st => st.setQueued .pendingResetExpired false).panicked = none := by
        split at h2
        · exact (modCountsA_noPanic h2).1
        · exact h2
      have := (modStream_noPanic h1).1
      rw [setQ_panicked] at this; exact this

theorem EvT.inv1 {s s' : Streams} (h : EvT s s') : s'.panicked = none → KeysOK s → Inv1 s → Inv1 s' := by
  induction h with
  | ev h => exact h.inv1
  | trans e1 e2 ih1 ih2 =>
    intro hp hA hi
    exact ih2 hp (e1.keysOK hA) (ih1 (e2.mono_panic hp) hA hi)
  | resetPop => exact fun hp hA hi => hi.resetPop hA hp

end H2V.Lemmas.ConnCountsP
