import H2V.Lemmas.ConnNoPanicPPushInvHeld
/-
  C08 (no panic) — PUSH_PROMISE bookkeeping, stage 2, part 2: `f_hr` for the light functions (generated from the `f_pp` list).
-/
namespace H2V.Lemmas.ConnNoPanicP
open H2V H2V.Model H2V.Model.Conn H2V.Lemmas.ConnCountsP
attribute [local irreducible] wrapSubU32 wrapSubUsize

theorem queueOpen_hr (s : Streams) (k : Nat) : HR s (s.queueOpen k) := by
  unfold Streams.queueOpen; hr_auto
theorem assignConnectionCapacityLoop_hr (n : Nat) (s : Streams) : HR s (Streams.assignConnectionCapacityLoop n s) := by
  induction n generalizing s with
  | zero => unfold Streams.assignConnectionCapacityLoop; exact .refl _
  | succ n ih =>
    unfold Streams.assignConnectionCapacityLoop
    repeat (first | hr_step | with_reducible refine HR.trans ?_ (ih ..) | hr_side | intro _ | split | dsimp only)
theorem assignConnectionCapacity_hr (s : Streams) (inc : Nat) : HR s (s.assignConnectionCapacity inc) := by
  unfold Streams.assignConnectionCapacity; hr_auto
theorem reserveCapacity_hr (s : Streams) (k cap : Nat) : HR s (s.reserveCapacity k cap) := by
  unfold Streams.reserveCapacity; hr_auto
theorem recvConnectionWindowUpdate_hr (s : Streams) (inc : Nat) : HR s (s.recvConnectionWindowUpdate inc).1 := by
  unfold Streams.recvConnectionWindowUpdate; hr_auto
theorem reclaimAllCapacity_hr (s : Streams) (k : Nat) : HR s (s.reclaimAllCapacity k) := by
  unfold Streams.reclaimAllCapacity; hr_auto
theorem clearQueue_hr (s : Streams) (k : Nat) : HR s (s.clearQueue k) := by
  unfold Streams.clearQueue; hr_auto
theorem sendOpenId_hr (s : Streams) : HR s s.sendOpenId.1 := by
  unfold Streams.sendOpenId; hr_auto
theorem sendHeaders_hr (s : Streams) (k : Nat) (eos : Bool) (f : List Hpack.Field) : HR s (s.sendHeaders k eos f).1 := by
  unfold Streams.sendHeaders; hr_auto
theorem sendReserveLocal_hr (s : Streams) : HR s s.sendReserveLocal.1 := by
  unfold Streams.sendReserveLocal; hr_auto
theorem sendPushPromise_hr (s : Streams) (p pk pid : Nat) (f : List Hpack.Field) : HR s (s.sendPushPromise p pk pid f).1 := by
  unfold Streams.sendPushPromise; hr_auto
theorem sendInterimInformationalHeaders_hr (s : Streams) (k : Nat) (f : List Hpack.Field) : HR s (s.sendInterimInformationalHeaders k f).1 := by
  unfold Streams.sendInterimInformationalHeaders; hr_auto
theorem sendSendReset_hr (s : Streams) (k : Nat) (r : Reason) (i : Initiator) : HR s (s.sendSendReset k r i) := by
  unfold Streams.sendSendReset; hr_auto
theorem pollCapacity_hr (s : Streams) (k : Nat) (tag : String) : HR s (s.pollCapacity k tag).1 := by
  unfold Streams.pollCapacity; hr_auto
theorem pollReset_hr (s : Streams) (k : Nat) (m : PollReset) (tag : String) : HR s (s.pollReset k m tag).1 := by
  unfold Streams.pollReset; hr_auto
theorem sendRecvGoAway_hr (s : Streams) (l : Nat) : HR s (s.sendRecvGoAway l).1 := by
  unfold Streams.sendRecvGoAway; hr_auto
theorem sendHandleError_hr (s : Streams) (k : Nat) : HR s (s.sendHandleError k) := by
  unfold Streams.sendHandleError; hr_auto
theorem sendMaybeResetNextStreamId_hr (s : Streams) (id : Nat) : HR s (s.sendMaybeResetNextStreamId id) := by
  unfold Streams.sendMaybeResetNextStreamId; hr_auto
theorem sendTrailers_hr (s : Streams) (k : Nat) (f : List Hpack.Field) : HR s (s.sendTrailers k f).1 := by
  unfold Streams.sendTrailers; hr_auto
theorem prioSendData_hr (s : Streams) (k len : Nat) (eos : Bool) : HR s (s.prioSendData k len eos).1 := by
  unfold Streams.prioSendData; hr_auto
theorem reclaimReservedCapacity_hr (s : Streams) (k : Nat) : HR s (s.reclaimReservedCapacity k) := by
  unfold Streams.reclaimReservedCapacity; hr_auto
theorem scheduleImplicitReset_hr (s : Streams) (k : Nat) (r : Reason) : HR s (s.scheduleImplicitReset k r) := by
  unfold Streams.scheduleImplicitReset; hr_auto
theorem prioRecvStreamWindowUpdate_hr (s : Streams) (k inc : Nat) : HR s (s.prioRecvStreamWindowUpdate k inc).1 := by
  unfold Streams.prioRecvStreamWindowUpdate; hr_auto
theorem sendRecvStreamWindowUpdate_hr (s : Streams) (k sz : Nat) : HR s (s.sendRecvStreamWindowUpdate k sz).1 := by
  unfold Streams.sendRecvStreamWindowUpdate; hr_auto
theorem decStreamWindow_hr (dec acc : Nat) (s : Streams) (k : Nat) : HR s (Streams.decStreamWindow dec acc s k).1 := by
  unfold Streams.decStreamWindow; hr_auto
theorem releaseConnectionCapacity_hr (s : Streams) (c : Nat) (b : Bool) : HR s (s.releaseConnectionCapacity c b) := by
  unfold Streams.releaseConnectionCapacity; hr_auto
theorem releaseCapacity_hr (s : Streams) (k c : Nat) (b : Bool) : HR s (s.releaseCapacity k c b).1 := by
  unfold Streams.releaseCapacity; hr_auto
theorem clearRecvBuffer_hr (s : Streams) (k : Nat) (b : Bool) : HR s (s.clearRecvBuffer k b) := by
  unfold Streams.clearRecvBuffer
  dsimp only
  have h0 : HR s { s with counts := (Streams.clearRecvBufferLoop (s.stream k).inFlightRecvData (s.stream k).pendingRecv 0 s.counts).2 } :=
    .of_store rfl rfl rfl
  split
  · hr_auto
  · hr_auto
theorem releaseClosedCapacity_hr (s : Streams) (k : Nat) : HR s (s.releaseClosedCapacity k) := by
  unfold Streams.releaseClosedCapacity; hr_auto
theorem consumeConnectionWindow_hr (s : Streams) (sz : Nat) : HR s (s.consumeConnectionWindow sz).1 := by
  unfold Streams.consumeConnectionWindow; hr_auto
theorem ignoreData_hr (s : Streams) (sz : Nat) : HR s (s.ignoreData sz).1 := by
  unfold Streams.ignoreData; hr_auto
theorem modRecv_hr_next (s : Streams) (f : Recv → Recv) (h : ∀ r, (f r).pendingAccept = r.pendingAccept)
    (hn : RNext s.recv.nextStreamId (f s.recv).nextStreamId) : HR s (s.modRecv f) := by
  refine ⟨fun c hc => ⟨hc.1, ?_⟩, hn⟩
  have : (s.modRecv f).recv.pendingAccept = s.recv.pendingAccept := h _
  rw [this]; exact hc.2

theorem recvOpen_hr (s : Streams) (id : Nat) (b : Bool) : HR s (s.recvOpen id b).1 := by
  unfold Streams.recvOpen
  dsimp only
  generalize hs0 : (if s.recv.refused.isSome = true then s.panic _ else s) = s0
  have h0 : HR s s0 := by rw [← hs0]; split; exact panic_hr _ _; exact .refl _
  generalize (if s0.counts.isServer = true then _ else _ : Bool) = canOpen
  split
  · exact h0
  · split
    · exact h0
    · next nextId hnx =>
      split
      · exact h0
      · next hge =>
        have h1 : HR s (s0.modRecv fun r => { r with nextStreamId := if id + 2 > 2147483647 then none else some (id + 2) }) := by
          refine h0.trans (modRecv_hr_next _ _ (fun _ => rfl) ?_)
          intro y hy
          refine ⟨nextId, hnx, ?_⟩
          dsimp only at hy
          split at hy
          · cases hy
          · cases hy; omega
        generalize (s0.modRecv fun r => { r with nextStreamId := if id + 2 > 2147483647 then none else some (id + 2) }) = s1 at h1 ⊢
        split
        · refine h1.trans ?_
          dsimp only
          exact modRecv_hr _ _ (fun _ => ⟨rfl, rfl⟩)
        · exact h1
theorem incNumRecvStreams_hr (s : Streams) (k : Nat) : HR s (s.incNumRecvStreams k) := by
  unfold Streams.incNumRecvStreams; hr_auto
theorem incNumSendStreams_hr (s : Streams) (k : Nat) : HR s (s.incNumSendStreams k) := by
  unfold Streams.incNumSendStreams; hr_auto
theorem notifyPushIfRecvEnded_hr (s : Streams) (k : Nat) : HR s (s.notifyPushIfRecvEnded k) := by
  unfold Streams.notifyPushIfRecvEnded; hr_auto
theorem recvRecvTrailers_hr (s : Streams) (k : Nat) (h : HeadersIn) : HR s (s.recvRecvTrailers k h).1 := by
  unfold Streams.recvRecvTrailers; hr_auto
theorem recvRecvPushPromise_hr (s : Streams) (k : Nat) (h : HeadersIn) : HR s (s.recvRecvPushPromise k h).1 := by
  unfold Streams.recvRecvPushPromise; hr_auto
theorem recvHandleError_hr (s : Streams) (k : Nat) (e : PErr) : HR s (s.recvHandleError k e) := by
  unfold Streams.recvHandleError; hr_auto
theorem recvGoAway_hr (s : Streams) (l : Nat) : HR s (s.recvGoAway l) := by
  unfold Streams.recvGoAway; hr_auto
theorem recvRecvEof_hr (s : Streams) (k : Nat) : HR s (s.recvRecvEof k) := by
  unfold Streams.recvRecvEof; hr_auto
theorem recvMaybeResetNextStreamId_hr (s : Streams) (id : Nat) : HR s (s.recvMaybeResetNextStreamId id) := by
  unfold Streams.recvMaybeResetNextStreamId
  split
  · next nxt hnx =>
    split
    · refine modRecv_hr_next _ _ (fun _ => rfl) ?_
      intro y hy
      refine ⟨nxt, hnx, ?_⟩
      dsimp only at hy
      split at hy
      · cases hy
      · cases hy; omega
    · exact .refl _
  · exact .refl _
theorem sendPendingRefusal_hr (s : Streams) (w : Writer) : HR s (s.sendPendingRefusal w).1 := by
  unfold Streams.sendPendingRefusal; hr_auto
theorem scheduleRecv_hr (s : Streams) (k : Nat) (t : String) : HR s (s.scheduleRecv k t).1 := by
  unfold Streams.scheduleRecv; hr_auto
theorem recvPollData_hr (s : Streams) (k : Nat) (t : String) : HR s (s.recvPollData k t).1 := by
  unfold Streams.recvPollData; hr_auto
theorem recvPollTrailers_hr (s : Streams) (k : Nat) (t : String) : HR s (s.recvPollTrailers k t).1 := by
  unfold Streams.recvPollTrailers; hr_auto
theorem recvPollInformational_hr (s : Streams) (k : Nat) (t : String) : HR s (s.recvPollInformational k t).1 := by
  unfold Streams.recvPollInformational; hr_auto
theorem enqueueResetExpiration_hr (s : Streams) (k : Nat) : HR s (s.enqueueResetExpiration k) := by
  unfold Streams.enqueueResetExpiration; hr_auto
theorem recvRecvReset_hr (s : Streams) (k : Nat) (r : Reason) : HR s (s.recvRecvReset k r).1 := by
  unfold Streams.recvRecvReset; hr_auto
theorem recvRecvHeaders_hr (s : Streams) (k : Nat) (h : HeadersIn) : HR s (s.recvRecvHeaders k h).1 := by
  unfold Streams.recvRecvHeaders
  split
  · exact .refl _
  · next st' isInitial heq =>
    dsimp only
    generalize hs1 : Streams.modStream s k _ = s1
    have h1 : HR s s1 := by rw [← hs1]; exact modStream_hr _ _ _ (fun _ => ⟨rfl, rfl⟩)
    split
    · exact h1
    · generalize hs2 : (if (isInitial && !(s1.stream k).isCounted) = true then _ else s1) = s2
      have h2 : HR s s2 := by
        rw [← hs2]
        split
        · refine h1.trans (HR.trans ?_ (incNumRecvStreams_hr _ _))
          split
          · exact modRecv_hr _ _ (fun _ => ⟨rfl, rfl⟩)
          · exact .refl _
        · exact h1
      hr_auto
theorem decContentLength_acc {x y : Stream} {n : Nat} (h : x.decContentLength n = some y) :
    y.isPendingAccept = x.isPendingAccept ∧ y.key = x.key := by
  unfold Stream.decContentLength at h
  split at h
  · split at h
    · cases h; exact ⟨rfl, rfl⟩
    · cases h
  · split at h
    · cases h
    · cases h; exact ⟨rfl, rfl⟩
  · cases h; exact ⟨rfl, rfl⟩

theorem recvRecvData_hr (s : Streams) (k : Nat) (payload : Bytes) (eos : Bool) (pad : Option Nat) : HR s (s.recvRecvData k payload eos pad).1 := by
  unfold Streams.recvRecvData
  cases pad <;> dsimp only
  all_goals (
    generalize hs0 : (if _ > Generated.Consts.MAX_WINDOW_SIZE then s.panic _ else s) = s0
    have h0 : HR s s0 := by rw [← hs0]; split; exact panic_hr _ _; exact .refl _
    split
    · exact h0
    split
    · hr_auto
    split
    · hr_auto
    · next s1 _ heq1 =>
      have h1 : HR s s1 := h0.trans (HR.of_fst_eq heq1 (consumeConnectionWindow_hr _ _))
      split
      · exact h1
      · split
        · exact h1
        · next st1 hdc =>
          have hsp := decContentLength_acc hdc
          generalize hs2 : s1.setStream st1 = s2
          have h2 : HR s s2 := by
            rw [← hs2]; exact h1.trans (setStream_hr s1 k st1 (hsp.2.trans (stream_key _ _)) hsp.1)
          generalize hs3 : (if eos = true then _ else (s2, (none : Option PErr))) = p3
          have h3 : HR s p3.1 := by
            rw [← hs3]
            split
            · split
              · exact h2
              · split
                · exact h2
                · exact h2.trans (modStream_hr _ _ _ (fun _ => ⟨rfl, rfl⟩))
            · exact h2
          split
          · exact h3
          · next s4 =>
            have h4 : HR s s4 := h3
            hr_auto)

theorem maybeCancel_hr (s : Streams) (k : Nat) : HR s (s.maybeCancel k) := by
  unfold Streams.maybeCancel; hr_auto
theorem refReserveCapacity_hr (s : Streams) (k c : Nat) : HR s (s.refReserveCapacity k c) := by
  unfold Streams.refReserveCapacity; hr_auto
theorem refReleaseCapacity_hr (s : Streams) (k c : Nat) : HR s (s.refReleaseCapacity k c).1 := by
  unfold Streams.refReleaseCapacity; hr_auto
theorem refClearRecvBuffer_hr (s : Streams) (k : Nat) : HR s (s.refClearRecvBuffer k) := by
  unfold Streams.refClearRecvBuffer; hr_auto
theorem pollPendingOpen_hr (s : Streams) (p : Option Nat) (t : String) : HR s (s.pollPendingOpen p t).1 := by
  unfold Streams.pollPendingOpen; hr_auto
theorem cloneHandle_hr (s : Streams) : HR s s.cloneHandle := by
  unfold Streams.cloneHandle; hr_auto
theorem dropHandle_hr (s : Streams) : HR s s.dropHandle := by
  unfold Streams.dropHandle; hr_auto
theorem refPollData_hr (s : Streams) (k : Nat) (t : String) : HR s (s.refPollData k t).1 := by
  unfold Streams.refPollData
  split
  · next s1 payload budgeted heq =>
    have h1 : HR s s1 := HR.of_fst_eq heq (recvPollData_hr s k t)
    dsimp only
    split
    · exact h1.trans (modCounts_hr _ _)
    · exact h1
  · exact recvPollData_hr s k t

end H2V.Lemmas.ConnNoPanicP
