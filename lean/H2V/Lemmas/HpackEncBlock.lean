import H2V.Lemmas.HpackEncInt
import H2V.Lemmas.HpackEncTable
import H2V.Lemmas.HpackEncIndex
import H2V.Spec.HpackSync
/-
  C10, part 4 — one header block: what `Encoder::encode` writes, the RFC 7541 reference decoder
  (`Spec.Hpack.decode`) reads back as exactly the submitted fields, and the two dynamic tables stay
  equal.
-/
namespace H2V.Lemmas.HpackEnc
open H2V H2V.Model.Hpack H2V.Spec.Hpack

/-- a string the encoder can be given: octets, and short enough for its Huffman-coded length to be
    a `usize` -/
def StrOk (s : Bytes) : Prop := Bytes.Valid s ∧ s.length < 2 ^ 59

instance (s : Bytes) : Decidable (StrOk s) := by unfold StrOk; infer_instance

/-! ### the representations of RFC 7541 §6, one by one -/

/-- §6.1 indexed header field -/
theorem block_indexed (fuel : Nat) (st : St) (seen : Bool) (i : Nat) (rest : Bytes)
    (acc : List Spec.Hpack.Field) (f : Spec.Hpack.Field) (hi : i < 2 ^ 64) (hl : lookup st i = some f) :
    block (fuel + 1) st seen (encodeInt i 7 128 ++ rest) acc = block fuel st true rest (acc ++ [f]) := by
  obtain ⟨b, tl, hb, hb1, hb2⟩ := encodeInt_head i 7 128 (by decide)
  have hint := spec_int_roundtrip i 7 128 rest (by decide) (by decide) (by decide) (by decide) hi
  rw [hb] at hint ⊢
  simp only [List.cons_append] at hint ⊢
  simp only [block]
  rw [if_pos (by omega)]
  simp only [hint, hl]

/-- §6.3 dynamic table size update -/
theorem block_sizeUpdate (fuel : Nat) (st : St) (v : Nat) (rest : Bytes)
    (acc : List Spec.Hpack.Field) (hv : v < 2 ^ 64) (hlim : v ≤ st.limit) :
    block (fuel + 1) st false (encodeInt v 5 32 ++ rest) acc =
      block fuel { st with maxSize := v, entries := evict st.entries v } false rest acc := by
  obtain ⟨b, tl, hb, hb1, hb2⟩ := encodeInt_head v 5 32 (by decide)
  have hint := spec_int_roundtrip v 5 32 rest (by decide) (by decide) (by decide) (by decide) hv
  rw [hb] at hint ⊢
  simp only [List.cons_append] at hint ⊢
  simp only [block]
  rw [if_neg (by omega), if_neg (by omega), if_pos (by omega)]
  simp only [hint, Bool.false_eq_true, if_false]
  rw [if_neg (by omega)]

/-- a literal whose name is an index -/
theorem literal_name (st : St) (n first i : Nat) (value rest : Bytes) (g : Spec.Hpack.Field)
    (hn1 : 1 ≤ n) (hn8 : n ≤ 8) (hf : first % 2 ^ n = 0) (hfirst : first < 256)
    (hi : i < 2 ^ 64) (hl : lookup st i = some g) (hv : StrOk value) :
    literal st n (encodeInt i n first ++ encodeStr value ++ rest) = .ok ((g.1, value), rest) := by
  have hi1 := (lookup_bound st i g hl).1
  unfold literal
  rw [List.append_assoc, spec_int_roundtrip i n first _ hn1 hn8 hf hfirst hi]
  simp only
  rw [if_neg (by omega)]
  simp only [hl, spec_str_roundtrip value rest hv.1 hv.2]

/-- a literal with a new name -/
theorem literal_new (st : St) (n first : Nat) (name value rest : Bytes)
    (hn : 1 < 2 ^ n - 1) (hf : first % 2 ^ n = 0) (hnm : StrOk name) (hv : StrOk value) :
    literal st n ([first] ++ encodeStr name ++ encodeStr value ++ rest) = .ok ((name, value), rest) := by
  unfold literal
  simp only [List.cons_append, List.nil_append, List.append_assoc, Spec.Hpack.int, hf]
  rw [if_pos (by omega)]
  simp only [if_true, spec_str_roundtrip name _ hnm.1 hnm.2, spec_str_roundtrip value rest hv.1 hv.2]

/-- §6.2.1 with an indexed name -/
theorem block_incr_name (fuel : Nat) (st : St) (seen : Bool) (i : Nat) (value rest : Bytes)
    (acc : List Spec.Hpack.Field) (g : Spec.Hpack.Field)
    (hi : i < 2 ^ 64) (hl : lookup st i = some g) (hv : StrOk value) :
    block (fuel + 1) st seen (encodeInt i 6 64 ++ encodeStr value ++ rest) acc =
      block fuel (insert st (g.1, value)) true rest (acc ++ [(g.1, value)]) := by
  have hlit := literal_name st 6 64 i value rest g (by decide) (by decide) (by decide) (by decide)
    hi hl hv
  obtain ⟨b, tl, hb, hb1, hb2⟩ := encodeInt_head i 6 64 (by decide)
  rw [hb] at hlit ⊢
  simp only [List.cons_append] at hlit ⊢
  simp only [block]
  rw [if_neg (by omega), if_pos (by omega)]
  simp only [hlit]

/-- §6.2.1 with a new name -/
theorem block_incr_new (fuel : Nat) (st : St) (seen : Bool) (name value rest : Bytes)
    (acc : List Spec.Hpack.Field) (hnm : StrOk name) (hv : StrOk value) :
    block (fuel + 1) st seen ([64] ++ encodeStr name ++ encodeStr value ++ rest) acc =
      block fuel (insert st (name, value)) true rest (acc ++ [(name, value)]) := by
  have hlit := literal_new st 6 64 name value rest (by decide) (by decide) hnm hv
  simp only [List.cons_append, List.nil_append] at hlit ⊢
  simp only [block]
  rw [if_neg (by omega), if_pos (by omega)]
  simp only [hlit]

/-- §6.2.2 / §6.2.3 with an indexed name (`encode_not_indexed`) -/
theorem block_notIndexed (fuel : Nat) (st : St) (seen : Bool) (i : Nat) (value rest : Bytes)
    (s : Bool) (acc : List Spec.Hpack.Field) (g : Spec.Hpack.Field)
    (hi : i < 2 ^ 64) (hl : lookup st i = some g) (hv : StrOk value) :
    block (fuel + 1) st seen (encodeNotIndexed i value s ++ rest) acc =
      block fuel st true rest (acc ++ [(g.1, value)]) := by
  unfold encodeNotIndexed
  have hf : (if s = true then 16 else 0) % 2 ^ 4 = 0 := by cases s <;> decide
  have hlt : (if s = true then 16 else 0) < 32 := by cases s <;> decide
  generalize (if s = true then 16 else 0) = first at hf hlt
  have hlit := literal_name st 4 first i value rest g (by decide) (by decide) hf (by omega) hi hl hv
  obtain ⟨b, tl, hb, hb1, hb2⟩ := encodeInt_head i 4 first hf
  rw [hb] at hlit ⊢
  simp only [List.cons_append] at hlit ⊢
  simp only [block]
  have hb32 : b < 32 := by
    have : first ≤ 16 := by simp only [Nat.reducePow] at hf; omega
    simp only [Nat.reducePow] at hb2; omega
  rw [if_neg (by omega), if_neg (by omega), if_neg (by omega)]
  simp only [hlit]

/-- §6.2.2 / §6.2.3 with a literal name (`encode_not_indexed2`) -/
theorem block_notIndexed2 (fuel : Nat) (st : St) (seen : Bool) (name value rest : Bytes)
    (s : Bool) (acc : List Spec.Hpack.Field) (hnm : StrOk name) (hv : StrOk value) :
    block (fuel + 1) st seen (encodeNotIndexed2 name value s ++ rest) acc =
      block fuel st true rest (acc ++ [(name, value)]) := by
  unfold encodeNotIndexed2
  have hf : (if s = true then 16 else 0) % 2 ^ 4 = 0 := by cases s <;> decide
  have hlt : (if s = true then 16 else 0) < 32 := by cases s <;> decide
  generalize (if s = true then 16 else 0) = first at hf hlt
  have hlit := literal_new st 4 first name value rest (by decide) hf hnm hv
  simp only [List.cons_append, List.nil_append] at hlit ⊢
  simp only [block]
  rw [if_neg (by omega), if_neg (by omega), if_neg (by omega)]
  simp only [hlit]

theorem encodeStr_ne_nil (s : Bytes) : encodeStr s ≠ [] := by
  unfold encodeStr
  split
  · simp
  · intro h
    exact encodeInt_ne_nil _ _ _ (List.append_eq_nil_iff.1 h).1

theorem encodeNotIndexed_length_pos (i : Nat) (v : Bytes) (s : Bool) :
    0 < (encodeNotIndexed i v s).length := by
  unfold encodeNotIndexed
  have := List.length_pos_iff.2 (encodeInt_ne_nil i 4 (if s = true then 16 else 0))
  simp only [List.length_append]; omega

theorem encodeNotIndexed2_length_pos (n v : Bytes) (s : Bool) :
    0 < (encodeNotIndexed2 n v s).length := by
  unfold encodeNotIndexed2
  simp

theorem encodeHeader_length_pos (ix : Index) (h : Header) (s : Bool) :
    0 < (encodeHeader ix h s).length := by
  cases ix with
  | indexed i => exact List.length_pos_iff.2 (encodeInt_ne_nil i 7 128)
  | name i => exact encodeNotIndexed_length_pos i h.2 s
  | inserted => simp [encodeHeader]
  | insertedValue i =>
    have := List.length_pos_iff.2 (encodeInt_ne_nil i 6 64)
    simp only [encodeHeader, List.length_append]; omega
  | notIndexed => exact encodeNotIndexed2_length_pos h.1 h.2 s

/-! ### one named field -/

/-- `encode_header(index)` is decoded to the header; the decoder inserts iff the encoder did -/
theorem block_header (fuel : Nat) (st : St) (seen : Bool) (ix : Index) (h : Header) (s : Bool)
    (rest : Bytes) (acc : List Spec.Hpack.Field)
    (hd : IndexDenotes st h ix) (hn : StrOk h.1) (hv : StrOk h.2)
    (hlen : st.entries.length < 2 ^ 63) :
    block (fuel + 1) st seen (encodeHeader ix h s ++ rest) acc =
      block fuel (if ix.inserts then insert st h else st) true rest (acc ++ [h]) := by
  have hbound : ∀ i g, lookup st i = some g → i < 2 ^ 64 := by
    intro i g hg
    have := (lookup_bound st i g hg).2
    simp only [Nat.reducePow] at hlen ⊢; omega
  cases ix with
  | indexed i =>
    exact block_indexed fuel st seen i rest acc h (hbound i h hd) hd
  | name i =>
    obtain ⟨g, hg, hgn⟩ := hd
    have := block_notIndexed fuel st seen i h.2 rest s acc g (hbound i g hg) hg hv
    rw [hgn] at this
    exact this
  | inserted =>
    exact block_incr_new fuel st seen h.1 h.2 rest acc hn hv
  | insertedValue i =>
    obtain ⟨g, hg, hgn⟩ := hd
    have := block_incr_name fuel st seen i h.2 rest acc g (hbound i g hg) hg hv
    rw [hgn] at this
    exact this
  | notIndexed =>
    exact block_notIndexed2 fuel st seen h.1 h.2 rest s acc hn hv

/-! ### the `for header in headers` loop -/

/-- a field as the encoder can be given it -/
def FieldOk (f : Model.Hpack.Field) : Prop := StrOk f.h.1 ∧ StrOk f.h.2

instance (f : Model.Hpack.Field) : Decidable (FieldOk f) := by unfold FieldOk; infer_instance

/-- what the `HeaderMap` iterator guarantees: a field yielded without a name (`nameless`) is never
    the first of its block and has the name of the field before it.
    `prev` = name of the previous field of the block. -/
def NamelessOk : Option Bytes → List Model.Hpack.Field → Prop
  | _, [] => True
  | prev, f :: rest => (f.nameless = true → prev = some f.h.1) ∧ NamelessOk (some f.h.1) rest

instance : (prev : Option Bytes) → (fs : List Model.Hpack.Field) → Decidable (NamelessOk prev fs)
  | _, [] => isTrue trivial
  | prev, f :: rest =>
    have := instDecidableNamelessOk (some f.h.1) rest
    by unfold NamelessOk; infer_instance

/-- the loop variable `last` against the decoder's current table: the index it resolves to (for
    the nameless path) names an entry with the last field's name -/
def LastOk (st : St) (prev : Option Bytes) : Option (Index × Header) → Prop
  | none => prev = none
  | some (ix, lh) => prev = some lh.1 ∧ StrOk lh.1 ∧
      match ix.resolveIdx with
      | some i => ∃ g, lookup st i = some g ∧ g.1 = lh.1
      | none => True

theorem lookup_newest (st : St) (h : Header) (hfit : fieldSize h ≤ st.maxSize) :
    lookup (insert st h) Generated.Consts.TABLE_DYN_OFFSET = some h := by
  rw [dyn_offset]
  unfold lookup Spec.Hpack.insert
  rw [if_neg (by omega), if_neg (by omega), if_pos hfit]
  rfl

/-- the field loop: no `panic!`, the reference decoder reads back the submitted fields in order,
    and the tables stay equal -/
theorem fields_sim : ∀ (fs : List Model.Hpack.Field) (e : Encoder) (st : St)
    (last : Option (Index × Header)) (prev : Option Bytes) (out : Bytes),
    TableSim e st → e.maxSize < 2 ^ 63 → LastOk st prev last → NamelessOk prev fs →
    (∀ f ∈ fs, FieldOk f) →
    ∃ e' bytes, Encoder.encodeFields fs e last out = some (e', out ++ bytes) ∧
      TableSim e' { st with entries := e'.entries } ∧
      e'.maxSize = e.maxSize ∧ e'.maxAllowed = e.maxAllowed ∧ e'.sizeUpdate = e.sizeUpdate ∧
      ∀ (fuel : Nat) (seen : Bool) (acc : List Spec.Hpack.Field), bytes.length < fuel →
        block fuel st seen bytes acc = .ok (acc ++ fs.map (·.h), { st with entries := e'.entries }) := by
  intro fs
  induction fs with
  | nil =>
    intro e st last prev out hsim _ _ _ _
    refine ⟨e, [], by simp [Encoder.encodeFields], ?_, rfl, rfl, rfl, ?_⟩
    · rw [hsim.entries]; exact hsim
    · intro fuel seen acc _
      have hst : ({ st with entries := e.entries } : St) = st := by rw [hsim.entries]
      rw [hst]
      cases fuel with
      | zero => simp [block]
      | succ k => simp [block]
  | cons f rest ih =>
    intro e st last prev out hsim hmax hlast hnl hok
    have hf : FieldOk f := hok f (List.mem_cons_self ..)
    have hokr : ∀ g ∈ rest, FieldOk g := fun g hg => hok g (List.mem_cons_of_mem _ hg)
    have hlen : st.entries.length < 2 ^ 63 := by
      have := length_le_tableSize e.entries
      have h1 := hsim.size
      have h2 := hsim.le
      rw [← hsim.entries]
      omega
    have hbound : ∀ i g, lookup st i = some g → i < 2 ^ 64 := by
      intro i g hg
      have := (lookup_bound st i g hg).2
      simp only [Nat.reducePow] at hlen ⊢; omega
    obtain ⟨hnl1, hnl2⟩ := hnl
    simp only [Encoder.encodeFields]
    by_cases hnameless : f.nameless = true
    · -- the nameless path
      rw [if_pos hnameless]
      have hprev := hnl1 hnameless
      match last, hlast with
      | none, hlast =>
        simp only [LastOk] at hlast
        rw [hlast] at hprev
        cases hprev
      | some (ix, lh), hlast =>
        obtain ⟨hp, hlhok, hres⟩ := hlast
        have hname : lh.1 = f.h.1 := by
          rw [hp] at hprev
          exact Option.some.inj hprev
        have hlast' : LastOk st (some f.h.1) (some (ix, lh)) := ⟨by rw [hname], hlhok, hres⟩
        simp only
        cases hr : ix.resolveIdx with
        | some i =>
          rw [hr] at hres
          obtain ⟨g, hg, hgn⟩ := hres
          simp only
          obtain ⟨e', bytes, h1, h2, h3, h4, h5, h6⟩ :=
            ih e st (some (ix, lh)) (some f.h.1) (out ++ encodeNotIndexed i f.h.2 f.sensitive)
              hsim hmax hlast' hnl2 hokr
          refine ⟨e', encodeNotIndexed i f.h.2 f.sensitive ++ bytes,
            by rw [h1, List.append_assoc], h2, h3, h4, h5, ?_⟩
          intro fuel seen acc hfuel
          have hpos := encodeNotIndexed_length_pos i f.h.2 f.sensitive
          cases fuel with
          | zero => omega
          | succ k =>
            rw [block_notIndexed k st seen i f.h.2 bytes f.sensitive acc g (hbound i g hg) hg hf.2]
            rw [h6 k true _ (by simp only [List.length_append] at hfuel; omega)]
            rw [hgn, hname]
            simp
        | none =>
          simp only
          obtain ⟨e', bytes, h1, h2, h3, h4, h5, h6⟩ :=
            ih e st (some (ix, lh)) (some f.h.1) (out ++ encodeNotIndexed2 lh.1 f.h.2 f.sensitive)
              hsim hmax hlast' hnl2 hokr
          refine ⟨e', encodeNotIndexed2 lh.1 f.h.2 f.sensitive ++ bytes,
            by rw [h1, List.append_assoc], h2, h3, h4, h5, ?_⟩
          intro fuel seen acc hfuel
          have hpos := encodeNotIndexed2_length_pos lh.1 f.h.2 f.sensitive
          cases fuel with
          | zero => omega
          | succ k =>
            rw [block_notIndexed2 k st seen lh.1 f.h.2 bytes f.sensitive acc hlhok hf.2]
            rw [h6 k true _ (by simp only [List.length_append] at hfuel; omega)]
            rw [hname]
            simp
    · -- a named field: `Table::index`, then `encode_header`
      rw [if_neg hnameless]
      obtain ⟨hden, hins⟩ := index_sound e st f.h f.sensitive hsim.entries
      generalize hidx : e.index f.h f.sensitive = r at hden hins
      obtain ⟨e1, ix⟩ := r
      simp only at hden hins ⊢
      -- the decoder's state after the field
      have hstep : ∃ st1 : St, st1 = (if ix.inserts then insert st f.h else st) ∧
          TableSim e1 st1 ∧ e1.maxSize = e.maxSize ∧ e1.maxAllowed = e.maxAllowed ∧
          e1.sizeUpdate = e.sizeUpdate ∧ st1 = { st with entries := e1.entries } ∧
          LastOk st1 (some f.h.1) (some (ix, f.h)) := by
        by_cases hi : ix.inserts = true
        · rw [if_pos hi] at hins
          obtain ⟨he1, h34⟩ := hins
          have hfit : f.h.size ≤ e.maxSize := by
            have : 32 ≤ f.h.size := by simp [Header.size]; omega
            omega
          obtain ⟨i1, i2⟩ := insert_eq_spec_insert e st f.h hsim hfit
          obtain ⟨_, _, _, j4, j5, j6⟩ := insert_spec e f.h hsim.size hfit
          refine ⟨insert st f.h, by rw [if_pos hi], by rw [he1]; exact i2, by rw [he1]; exact j4,
            by rw [he1]; exact j5, by rw [he1]; exact j6, by rw [he1]; exact i1, rfl, hf.1, ?_⟩
          have h62 : ix.resolveIdx = some Generated.Consts.TABLE_DYN_OFFSET := by
            cases ix <;> simp_all [Index.inserts, Index.resolveIdx]
          rw [h62]
          exact ⟨f.h, lookup_newest st f.h (by rw [fieldSize_eq, ← hsim.maxSize]; exact hfit), rfl⟩
        · rw [if_neg hi] at hins
          subst hins
          refine ⟨st, by rw [if_neg hi], hsim, rfl, rfl, rfl, by rw [hsim.entries], rfl, hf.1, ?_⟩
          cases ix with
          | indexed i => exact ⟨f.h, hden, rfl⟩
          | name i => exact hden
          | inserted => simp [Index.inserts] at hi
          | insertedValue i => simp [Index.inserts] at hi
          | notIndexed => trivial
      obtain ⟨st1, hst1, hsim1, hm1, ha1, hu1, hst1', hlast1⟩ := hstep
      obtain ⟨e', bytes, h1, h2, h3, h4, h5, h6⟩ :=
        ih e1 st1 (some (ix, f.h)) (some f.h.1) (out ++ encodeHeader ix f.h f.sensitive)
          hsim1 (by rw [hm1]; exact hmax) hlast1 hnl2 hokr
      have hst' : ({ st1 with entries := e'.entries } : St) = { st with entries := e'.entries } := by
        rw [hst1']
      rw [hst'] at h2 h6
      refine ⟨e', encodeHeader ix f.h f.sensitive ++ bytes, by rw [h1, List.append_assoc], h2,
        by rw [h3, hm1], by rw [h4, ha1], by rw [h5, hu1], ?_⟩
      intro fuel seen acc hfuel
      have hpos := encodeHeader_length_pos ix f.h f.sensitive
      cases fuel with
      | zero => omega
      | succ k =>
        rw [block_header k st seen ix f.h f.sensitive bytes acc hden hf.1 hf.2 hlen, ← hst1]
        rw [h6 k true _ (by simp only [List.length_append] at hfuel; omega)]
        simp

end H2V.Lemmas.HpackEnc
