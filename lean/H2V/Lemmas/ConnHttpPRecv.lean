import H2V.Lemmas.ConnHttpPQuiet
/-
  C13 (ConnHttpP), part 10 — the receive functions of `recv.rs`: what `recv_headers`, `recv_trailers`,
  `recv_push_promise` hand over (one event, only when every check of the model passed), and that they
  are `Quiet` whenever they answer anything but `Ok`.
-/
namespace H2V.Lemmas.ConnHttpP
open H2V H2V.Model H2V.Model.Conn

/-- appending one event to the receive queue of stream `k` -/
theorem delivers_append (P : Nat → REvent → Prop) (s : Streams) (k : Nat) (ev : REvent) (hp : P k ev) :
    Delivers P s (s.modStream k fun st => { st with pendingRecv := st.pendingRecv ++ [ev] }) := fun k' st' g => by
  rw [get?_modStream s k (fun st => { st with pendingRecv := st.pendingRecv ++ [ev] }) (fun _ => rfl)] at g
  split at g
  · rename_i e
    subst e
    cases hg : s.store.get? k' with
    | none => rw [hg] at g; cases g
    | some st =>
      rw [hg] at g
      cases g
      exact Or.inr (Or.inr ⟨ev, hp, Or.inl (by simp [prOf, hg])⟩)
  · exact Or.inr (Or.inl (by simp [prOf, g]))

/-- the two configuration bits the head checks look at: role, extended CONNECT enabled locally -/
def cfgOf (s : Streams) : Bool × Bool := (s.counts.isServer, s.recv.isExtendedConnectProtocolEnabled)

/-- what `Recv::recv_headers` may put into a receive queue for the head `h` -/
def HeadAccepted (cfg : Bool × Bool) (h : HeadersIn) (ev : REvent) : Prop :=
  h.isOverSize = false ∧
  match ev with
  | .request m u f => cfg.1 = true ∧ convertPollMessageServer h = .ok m u ∧ h.status = none ∧
      (h.hasProtocol = true → cfg.2 = true) ∧ f = h.fields
  | .headers st f => cfg.1 = false ∧ h.isInformational = false ∧ st = h.status.getD (Http.str "200") ∧ f = h.fields
  | .informational st f => cfg.1 = false ∧ h.isInformational = true ∧ st = h.status.getD (Http.str "200") ∧ f = h.fields
  | _ => False

theorem cfg_modStream (s : Streams) (k : Nat) (f : Stream → Stream) : cfgOf (s.modStream k f) = cfgOf s := by
  unfold Streams.modStream
  split
  · rfl
  · unfold Streams.panic; split <;> rfl

theorem cfg_panic (s : Streams) (m : String) : cfgOf (s.panic m) = cfgOf s := by
  unfold Streams.panic; split <;> rfl

theorem cfg_incNumRecvStreams (s : Streams) (k : Nat) : cfgOf (s.incNumRecvStreams k) = cfgOf s := by
  unfold Streams.incNumRecvStreams
  simp only [cfg_modStream]
  have h1 : cfgOf (if s.counts.canIncNumRecvStreams = true then s
      else s.panic "assertion failed: self.can_inc_num_recv_streams()") = cfgOf s := by
    split
    · rfl
    · exact cfg_panic _ _
  generalize (if s.counts.canIncNumRecvStreams = true then s
      else s.panic "assertion failed: self.can_inc_num_recv_streams()") = s1 at h1 ⊢
  have h2 : cfgOf (if (s1.stream k).isCounted = true then s1.panic "assertion failed: !stream.is_counted" else s1)
      = cfgOf s := by
    split
    · rw [cfg_panic, h1]
    · exact h1
  generalize (if (s1.stream k).isCounted = true then s1.panic "assertion failed: !stream.is_counted" else s1) = s2 at h2 ⊢
  rw [← h2]
  rfl

theorem cfg_modStreamW (s : Streams) (k : Nat) (f : Stream → Stream × List String) : cfgOf (s.modStreamW k f) = cfgOf s := by
  unfold Streams.modStreamW
  split
  · rfl
  · exact cfg_panic _ _


def _root_.H2V.Model.Conn.RecvHeadersRes.isOk : RecvHeadersRes → Bool
  | .ok => true
  | _ => false

/-! ### `Recv::recv_headers` in three stages -/

/-- stage 1: the state transition and the concurrency counter -/
def rhPre (s : Streams) (k : Nat) (h : HeadersIn) (st' : State) (isInitial : Bool) : Streams :=
  let s := s.modStream k fun st => { st with state := st' }
  if isInitial && !(s.stream k).isCounted then
    let s := if h.sid > s.recv.lastProcessedId then s.modRecv fun r => { r with lastProcessedId := h.sid } else s
    s.incNumRecvStreams k
  else s

/-- the `204` / `304` exemption of the END_STREAM check -/
def statusNot204304 (h : HeadersIn) : Bool :=
  match h.status with
  | some st => st != Http.str "204" && st != Http.str "304"
  | none => true

/-- stage 2: `content-length` -/
def rhCl (s : Streams) (k : Nat) (h : HeadersIn) : Streams × Option PErr :=
  if (s.stream k).contentLength != .head then
    match h.fields.find? (fun f => f.1 == Http.str "content-length") with
    | some (_, v :: rest) =>
      match parseU64 v with
      | none => (s, some (PErr.libraryReset (s.stream k).id PROTOCOL_ERROR))
      | some cl =>
        if rest.any (fun o => parseU64 o != some cl) then (s, some (PErr.libraryReset (s.stream k).id PROTOCOL_ERROR))
        else
        let s := s.modStream k fun st => { st with contentLength := .remaining cl }
        if h.eos && cl > 0 && statusNot204304 h then (s, some (PErr.libraryReset (s.stream k).id PROTOCOL_ERROR)) else (s, none)
    | _ => (s, none)
  else (s, none)

/-- stage 3: the head checks and the hand-over -/
def rhTail (s : Streams) (k : Nat) (h : HeadersIn) (isInitial : Bool) : Streams × RecvHeadersRes :=
  if h.isOverSize then (s, .oversize (s.counts.isServer && isInitial))
  else if h.hasProtocol && s.counts.isServer && !s.recv.isExtendedConnectProtocolEnabled then
    (s, .state (PErr.libraryReset (s.stream k).id PROTOCOL_ERROR))
  else if h.status.isSome && s.counts.isServer then (s, .state (PErr.libraryReset (s.stream k).id PROTOCOL_ERROR))
  else
    let status := h.status.getD (Http.str "200")
    if s.counts.isServer then
      match convertPollMessageServer h with
      | .malformed => (s, .state (PErr.libraryReset (s.stream k).id PROTOCOL_ERROR))
      | .unsupported => (s, .unsupported)
      | .ok method uri =>
        let s := s.modStream k fun st => { st with pendingRecv := st.pendingRecv ++ [.request method uri h.fields] }
        let s := s.modStreamW k Stream.notifyRecv
        let s := s.notifyPushIfRecvEnded k
        ((s.qPush .pendingAccept k).1, .ok)
    else if !h.isInformational then
      let s := s.modStream k fun st => { st with pendingRecv := st.pendingRecv ++ [.headers status h.fields] }
      ((s.modStreamW k Stream.notifyRecv).notifyPushIfRecvEnded k, .ok)
    else
      let s := s.modStream k fun st => { st with pendingRecv := st.pendingRecv ++ [.informational status h.fields] }
      (s.modStreamW k Stream.notifyRecv, .ok)

/-- stage 0: the state transition alone -/
def rhSt (s : Streams) (k : Nat) (st' : State) : Streams := s.modStream k fun st => { st with state := st' }

/-- the receive-stream limit was reached while the (promised) stream was only reserved: REFUSED_STREAM -/
def rhRefuse (s : Streams) (k : Nat) (st' : State) (isInitial : Bool) : Bool :=
  isInitial && !((rhSt s k st').stream k).isCounted && !(rhSt s k st').counts.canIncNumRecvStreams

theorem recvRecvHeaders_eq (s : Streams) (k : Nat) (h : HeadersIn) :
    s.recvRecvHeaders k h =
      match (s.stream k).state.recvOpen h.eos h.isInformational with
      | (_, .error e) => (s, .state e)
      | (st', .ok isInitial) =>
        if rhRefuse s k st' isInitial then
          (rhSt s k st', .state (PErr.libraryReset ((rhSt s k st').stream k).id REFUSED_STREAM))
        else
        match rhCl (rhPre s k h st' isInitial) k h with
        | (s, some e) => (s, .state e)
        | (s, none) => rhTail s k h isInitial := rfl

theorem rhSt_quiet (s : Streams) (k : Nat) (st' : State) : Quiet s (rhSt s k st') := by
  unfold rhSt; quiet


theorem cfg_modRecv_lpi (s : Streams) (v : Nat) :
    cfgOf (s.modRecv fun r => { r with lastProcessedId := v }) = cfgOf s := rfl

theorem rhPre_quiet (s : Streams) (k : Nat) (h : HeadersIn) (st' : State) (i : Bool) :
    Quiet s (rhPre s k h st' i) ∧ cfgOf (rhPre s k h st' i) = cfgOf s := by
  unfold rhPre
  have h1 : Quiet s (s.modStream k fun st => { st with state := st' }) := by quiet
  have c1 : cfgOf (s.modStream k fun st => { st with state := st' }) = cfgOf s := cfg_modStream _ _ _
  generalize (s.modStream k fun st => { st with state := st' }) = s1 at h1 c1 ⊢
  simp only
  split
  · constructor
    · quiet
    · rw [cfg_incNumRecvStreams]
      split
      · rw [cfg_modRecv_lpi, c1]
      · exact c1
  · exact ⟨h1, c1⟩

theorem rhCl_quiet (s : Streams) (k : Nat) (h : HeadersIn) :
    Quiet s (rhCl s k h).1 ∧ cfgOf (rhCl s k h).1 = cfgOf s := by
  generalize hr : rhCl s k h = r
  unfold rhCl at hr
  simp only at hr
  repeat' split at hr
  all_goals subst hr
  all_goals first
    | exact ⟨Quiet.refl _, rfl⟩
    | exact ⟨by quiet, cfg_modStream _ _ _⟩

theorem rhTail_delivers (s : Streams) (k : Nat) (h : HeadersIn) (i : Bool) :
    Delivers (fun k' ev => k' = k ∧ HeadAccepted (cfgOf s) h ev) s (rhTail s k h i).1 ∧
    ((rhTail s k h i).2.isOk = false → (rhTail s k h i).1 = s) := by
  unfold rhTail
  by_cases ho : h.isOverSize = true
  · rw [if_pos ho]; exact ⟨(Quiet.refl s).delivers, fun _ => rfl⟩
  rw [if_neg ho]
  have ho' : h.isOverSize = false := by simpa using ho
  by_cases hp : (h.hasProtocol && s.counts.isServer && !s.recv.isExtendedConnectProtocolEnabled) = true
  · rw [if_pos hp]; exact ⟨(Quiet.refl s).delivers, fun _ => rfl⟩
  rw [if_neg hp]
  by_cases hs : (h.status.isSome && s.counts.isServer) = true
  · rw [if_pos hs]; exact ⟨(Quiet.refl s).delivers, fun _ => rfl⟩
  rw [if_neg hs]
  simp only
  by_cases hsrv : s.counts.isServer = true
  · rw [if_pos hsrv]
    split
    · exact ⟨(Quiet.refl s).delivers, fun _ => rfl⟩
    · exact ⟨(Quiet.refl s).delivers, fun _ => rfl⟩
    · rename_i m u hc
      refine ⟨?_, fun x => by cases x⟩
      refine Delivers.step (Delivers.step (delivers_append _ s k _ ⟨rfl, ho', ?_⟩) (quiet_modStreamW _ _ _ keeps_notifyRecv))
        (((Quiet.refl _).notifyPushIfRecvEnded _).qPush _ _)
      refine ⟨hsrv, hc, ?_, fun hpr => ?_, rfl⟩
      · cases hst : h.status with
        | none => rfl
        | some v => simp [hst, hsrv] at hs
      · cases he : s.recv.isExtendedConnectProtocolEnabled with
        | true => exact he
        | false => simp [hpr, hsrv, he] at hp
  · rw [if_neg hsrv]
    have hsrv' : s.counts.isServer = false := by simpa using hsrv
    split
    · rename_i hi
      refine ⟨?_, fun x => by cases x⟩
      refine Delivers.step (Delivers.step (delivers_append _ s k _ ⟨rfl, ho', ?_⟩) (quiet_modStreamW _ _ _ keeps_notifyRecv))
        ((Quiet.refl _).notifyPushIfRecvEnded _)
      exact ⟨hsrv', by simpa using hi, rfl, rfl⟩
    · rename_i hi
      refine ⟨?_, fun x => by cases x⟩
      refine Delivers.step (delivers_append _ s k _ ⟨rfl, ho', ?_⟩) (quiet_modStreamW _ _ _ keeps_notifyRecv)
      exact ⟨hsrv', by simpa using hi, rfl, rfl⟩


/-- **`Recv::recv_headers`**: whatever the state, at most one event is handed over, to stream `k`, and
    only if the head passed every check (`HeadAccepted`); any answer but `Ok` hands over nothing -/
theorem recvRecvHeaders_delivers (s : Streams) (k : Nat) (h : HeadersIn) :
    Delivers (fun k' ev => k' = k ∧ HeadAccepted (cfgOf s) h ev) s (s.recvRecvHeaders k h).1 ∧
    ((s.recvRecvHeaders k h).2.isOk = false → Quiet s (s.recvRecvHeaders k h).1) := by
  rw [recvRecvHeaders_eq]
  split
  · exact ⟨(Quiet.refl s).delivers, fun _ => Quiet.refl s⟩
  · rename_i st' i _
    split
    · exact ⟨(rhSt_quiet s k st').delivers, fun _ => rhSt_quiet s k st'⟩
    obtain ⟨q1, c1⟩ := rhPre_quiet s k h st' i
    generalize rhPre s k h st' i = s1 at q1 c1 ⊢
    obtain ⟨q2, c2⟩ := rhCl_quiet s1 k h
    generalize rhCl s1 k h = c at q2 c2 ⊢
    obtain ⟨s2, o⟩ := c
    simp only at q2 c2
    cases o with
    | some e => exact ⟨(q1.trans q2).delivers, fun _ => q1.trans q2⟩
    | none =>
      simp only
      obtain ⟨d, hq⟩ := rhTail_delivers s2 k h i
      rw [c2, c1] at d
      exact ⟨(q1.trans q2).then d, fun hn => by rw [hq hn]; exact q1.trans q2⟩

/-! ### `Recv::recv_trailers` -/

/-- what `recv_trailers` may hand over: the fields of a block that is not over-size -/
def TrailersAccepted (h : HeadersIn) (ev : REvent) : Prop := ev = .trailers h.fields ∧ h.isOverSize = false

theorem recvRecvTrailers_delivers (s : Streams) (k : Nat) (h : HeadersIn) :
    Delivers (fun k' ev => k' = k ∧ TrailersAccepted h ev) s (s.recvRecvTrailers k h).1 ∧
    (∀ e, (s.recvRecvTrailers k h).2 = .error e → Quiet s (s.recvRecvTrailers k h).1) := by
  unfold Streams.recvRecvTrailers
  split
  · exact ⟨(Quiet.refl s).delivers, fun _ _ => Quiet.refl s⟩
  · simp only
    have q1 : Quiet s (s.modStream k fun st => { st with state := ‹State› }) := by quiet
    generalize (s.modStream k fun st => { st with state := ‹State› }) = s1 at q1 ⊢
    split
    · exact ⟨q1.delivers, fun _ _ => q1⟩
    · split
      · exact ⟨q1.delivers, fun _ _ => q1⟩
      · rename_i hov
        refine ⟨q1.then (Delivers.step (Delivers.step (delivers_append _ s1 k _ ⟨rfl, rfl, by simpa using hov⟩)
          (quiet_modStreamW _ _ _ keeps_notifyRecv)) (quiet_modStreamW _ _ _ keeps_notifyPush)), fun e he => by cases he⟩

end H2V.Lemmas.ConnHttpP
