import H2V.Lemmas.ConnRecvPProto
/-
  C03 — part 17: `DynConnection::recv_frame`, `Connection::poll2`, `proto::Connection::poll`,
  `client::Connection::poll`, shutdown; the initial connections; connection-level reachability
  (`CReach`) and the lifting of the receive-window invariant to every reachable connection
  (`creach_inv`).
-/
namespace H2V.Lemmas.ConnRecvP
open H2V H2V.Model H2V.Model.Conn
open H2V.Model.Conn.Streams

variable {T H : Nat}

theorem cinv_ite {p : Prop} [Decidable p] {a b : Conn} (ha : CInv T H a) (hb : CInv T H b) : CInv T H (if p then a else b) := by
  split <;> assumption

theorem takeError_cinv {c : Conn} (h : CInv T H c) (o : Reason) (i : Initiator) : CInv T H (c.takeError o i).1 := by
  unfold Conn.takeError
  dsimp only
  repeat' split
  all_goals exact h

theorem handleGoAway_cinv {c : Conn} (h : CInv T H c) (r : Reason) (d : Bytes) (i : Initiator) :
    CInv T H (c.handleGoAway r d i) := by
  unfold Conn.handleGoAway
  apply cinv_ite
  · exact h
  · dsimp only
    apply goAwayNowData_cinv
    exact h.op (.handleError _) trivial

theorem handlePoll2Result_cinv {c : Conn} (h : CInv T H c) (res : Except PErr Unit) : CInv T H (c.handlePoll2Result res).1 := by
  unfold Conn.handlePoll2Result
  split
  · exact h
  · exact handleGoAway_cinv h _ _ _
  · split
    · exact h
    · rename_i id reason init _
      have h1 : CI T H (c.streams.innerSendReset id reason).1 c.settings.loc := h.op (.innerSendReset id reason) trivial
      split
      · rename_i heq; exact CI.fst heq h1
      · rename_i s g heq
        apply handleGoAway_cinv
        exact CI.fst heq h1
  · dsimp only
    split <;> exact h.op (.handleError _) trivial

theorem lift_cinv {c : Conn} {α : Type} (r : Streams × Except PErr Unit) (hr : CI T H r.1 c.settings.loc) (a : α) :
    CInv T H (match r with
      | (s, .ok _) => ({ c with streams := s }, (Except.ok a : Except PErr α))
      | (s, .error e) => ({ c with streams := s }, Except.error e)).1 := by
  split <;> exact hr

/-- **`DynConnection::recv_frame`**: every frame the peer can send -/
theorem recvFrame_cinv {c : Conn} (h : CInv T H c) (f : Option Frame.Frame) : CInv T H (c.recvFrame f).1 := by
  unfold Conn.recvFrame
  dsimp only
  split
  · exact lift_cinv _ (h.op (.recvHeaders _) trivial) _
  · exact lift_cinv _ (h.op (.recvData _ _ _ _) trivial) _
  · exact lift_cinv _ (h.op (.recvReset _ _) trivial) _
  · exact lift_cinv _ (h.op (.recvPushPromise _ _) trivial) _
  · exact h
  · rename_i last code debug
    have := h.op (.recvGoAwayFrame last code debug) trivial
    split <;> (rename_i heq; exact CI.fst heq this)
  · -- PING
    rename_i ack payload
    have h1 : CI T H (c.streams.wake (c.pingPong.recvPing ack payload).2.2.1) c.settings.loc := h.op (.wake _) trivial
    have h1' : CInv T H { c with
        pingPong := (c.pingPong.recvPing ack payload).1,
        streams := c.streams.wake (c.pingPong.recvPing ack payload).2.2.1 } := h1
    have h2 := cinv_ite (p := (c.pingPong.recvPing ack payload).2.2.2 = true) h1' (panic_cinv h1' "ping_pong assertion")
    generalize (if (c.pingPong.recvPing ack payload).2.2.2 = true then _ else Conn.panic _ "ping_pong assertion") = c2 at h2 ⊢
    split
    · apply dynGoAway_cinv
      exact cinv_ite h2 (panic_cinv h2 _)
    · exact h2
  · exact lift_cinv _ (h.op (.recvWindowUpdate _ _) trivial) _
  · exact h
  · exact h.op (.recvEof false) trivial


/-- the part of the `poll2` loop after `send_pending_go_away`; `again` = the next turn -/
def poll2GoOn (again : Conn → Conn × PollRes) (c : Conn) : Conn × PollRes :=
  match c.pollReady with
  | (c, .pending) => (c, PollRes.pending)
  | (c, .err e) => (c, .ready (.error e))
  | (c, .ok) =>
    let (codec, polled) := pollNext (c.codec.r.buf.length + c.codec.io.rd.length + 2) c.codec c.cx
    let c := { c with codec := codec }
    match polled with
    | .pending => (c, .pending)
    | .err e => (c, .ready (.error (Conn.rerrToPErr e)))
    | .ioErr kind msg => (c, .ready (.error (.io kind msg)))
    | other =>
      let frame := match other with | .frame f => some f | _ => none
      match c.recvFrame frame with
      | (c, .error e) => (c, .ready (.error e))
      | (c, .ok .continue) => again c
      | (c, .ok .done) => (c, .ready (.ok ()))
      | (c, .ok (.settings ack vals)) =>
        match c.recvSettings ack vals with
        | (c, .error e) => (c, .ready (.error e))
        | (c, .ok _) => again c

theorem poll2Loop_succ (fuel : Nat) (c : Conn) : Conn.poll2Loop (fuel + 1) c =
    (match c.sendPendingGoAway with
     | (c, .pending) => (c, .pending)
     | (c, .err e) => (c, .ready (.error e))
     | (c, .reason reason) =>
       if c.goAway.shouldCloseNow then
         if c.goAway.isUserInitiated then (c, .ready (.ok ()))
         else (c, .ready (.error (PErr.libraryGoAway reason)))
       else poll2GoOn (Conn.poll2Loop fuel) c
     | (c, .none) => poll2GoOn (Conn.poll2Loop fuel) c) := by
  conv => lhs; unfold Conn.poll2Loop
  rfl

theorem poll2GoOn_cinv (again : Conn → Conn × PollRes) (hag : ∀ c, CInv T H c → CInv T H (again c).1) {c : Conn} (h : CInv T H c) :
    CInv T H (poll2GoOn again c).1 := by
  unfold poll2GoOn
  have h1 := pollReady_cinv h
  split
  · rename_i c1 heq; exact cinv_of_fst heq h1
  · rename_i c1 e heq; exact cinv_of_fst heq h1
  · rename_i c1 heq
    have h1 : CInv T H c1 := cinv_of_fst heq h1
    dsimp only
    have h2 : CInv T H { c1 with codec := (pollNext (c1.codec.r.buf.length + c1.codec.io.rd.length + 2) c1.codec c1.cx).1 } := h1
    split
    · exact h2
    · exact h2
    · exact h2
    · have h3 := recvFrame_cinv h2
      split
      · rename_i heq3; exact cinv_of_fst heq3 (h3 _)
      · rename_i heq3; exact hag _ (cinv_of_fst heq3 (h3 _))
      · rename_i heq3; exact cinv_of_fst heq3 (h3 _)
      · rename_i c3 ack vals heq3
        have h4 := recvSettings_cinv (cinv_of_fst heq3 (h3 _)) ack vals
        split
        · rename_i heq4; exact cinv_of_fst heq4 h4
        · rename_i heq4; exact hag _ (cinv_of_fst heq4 h4)

theorem poll2Loop_cinv (fuel : Nat) {c : Conn} (h : CInv T H c) : CInv T H (Conn.poll2Loop fuel c).1 := by
  induction fuel generalizing c with
  | zero => unfold Conn.poll2Loop; exact panic_cinv h _
  | succ fuel ih =>
    rw [poll2Loop_succ]
    have h1 := sendPendingGoAway_cinv h
    split
    · rename_i heq; exact cinv_of_fst heq h1
    · rename_i heq; exact cinv_of_fst heq h1
    · rename_i heq
      have h1 := cinv_of_fst heq h1
      split
      · split <;> exact h1
      · exact poll2GoOn_cinv _ (fun c hc => ih hc) h1
    · rename_i heq; exact poll2GoOn_cinv _ (fun c hc => ih hc) (cinv_of_fst heq h1)

theorem poll2_cinv (fuel : Nat) {c : Conn} (h : CInv T H c) : CInv T H (Conn.poll2 fuel c).1 := by
  unfold Conn.poll2
  exact poll2Loop_cinv fuel (h.op (.clearExpiredResetStreams _) trivial)


/-- **`proto::Connection::poll`**: whatever the peer sent, however the transport chops it -/
theorem protoPoll_cinv (fuel : Nat) {c : Conn} (h : CInv T H c) : CInv T H (Conn.protoPoll fuel c).1 := by
  induction fuel generalizing c with
  | zero => unfold Conn.protoPoll; exact panic_cinv h _
  | succ fuel ih =>
    unfold Conn.protoPoll
    split
    · -- open
      have h1 := poll2_cinv (fuel + 1) h
      split
      · rename_i c1 result heq
        have h2 := handlePoll2Result_cinv (cinv_of_fst heq h1) result
        split
        · rename_i heq2; exact ih (cinv_of_fst heq2 h2)
        · rename_i heq2; exact cinv_of_fst heq2 h2
      · rename_i c1 heq
        have h1 : CInv T H c1 := cinv_of_fst heq h1
        have h2 : CI T H (Streams.pollComplete (fuel + 1) c1.streams c1.codec.w c1.codec.io c1.cx).1 c1.settings.loc :=
          h1.op (.pollComplete (fuel + 1) c1.codec.w c1.codec.io c1.cx) trivial
        dsimp only
        split
        · exact h2
        · exact h2
        · split
          · exact ih (goAwayNow_cinv (c := { c1 with streams := _, codec := _ }) h2 _)
          · exact h2
    · -- closing
      dsimp only
      split
      · exact h
      · exact h
      · exact ih (c := { c with codec := _, state := _ }) h
    · -- closed
      dsimp only
      exact takeError_cinv h _ _

theorem clientPoll_cinv (fuel : Nat) {c : Conn} (h : CInv T H c) : CInv T H (Conn.clientPoll fuel c).1 := by
  unfold Conn.clientPoll
  dsimp only
  have h1 : CInv T H (if (!c.hasStreamsOrOtherReferences) = true then c.goAwayNow NO_ERROR else c) :=
    cinv_ite (goAwayNow_cinv h _) h
  generalize (if (!c.hasStreamsOrOtherReferences) = true then c.goAwayNow NO_ERROR else c) = c1 at h1 ⊢
  have h2 := protoPoll_cinv fuel h1
  repeat' split
  all_goals first | exact h2 | exact h2.op (.wake _) trivial

theorem goAwayGracefully_cinv {c : Conn} (h : CInv T H c) : CInv T H c.goAwayGracefully := by
  unfold Conn.goAwayGracefully
  split
  · exact h
  · dsimp only
    have h1 := dynGoAway_cinv h Conn.STREAM_ID_MAX NO_ERROR
    exact cinv_ite (panic_cinv h1 _) h1

theorem goAwayFromUser_cinv {c : Conn} (h : CInv T H c) (e : Reason) : CInv T H (c.goAwayFromUser e) := by
  unfold Conn.goAwayFromUser
  dsimp only
  split
  · exact h.op (.handleError _) trivial
  · exact (h.op (.panic _) trivial).op (.handleError _) trivial


-- ===================================================================== the initial connections

/-- the builder was given legal window sizes (`initial_window_size`, `initial_connection_window_size`
    ≤ 2^31-1; the real builder panics on a larger connection window and does not check the stream
    window — see the notes) -/
def CfgValid (cfg : Conn.Cfg) : Prop :=
  (∀ v, cfg.iws = some v → v ≤ 2147483647) ∧ (∀ v, cfg.cws = some v → v ≤ 2147483647)

theorem settingsIws_cfg (cfg : Conn.Cfg) : settingsIws cfg.settings = cfg.iws := by
  unfold settingsIws Conn.Cfg.settings
  cases cfg.hts <;> cases cfg.push <;> cases cfg.mcs <;> cases cfg.iws <;> cases cfg.mfs <;> cases cfg.mhl <;> simp

/-- the connection window the builder configured (`initial_connection_window_size`, default 65 535) -/
def cfgTarget (cfg : Conn.Cfg) : Nat := cfg.cws.getD 65535

theorem init_cinv (cfg : Conn.Cfg) (hv : CfgValid cfg) : CInv (cfgTarget cfg) (max 65535 (cfgTarget cfg)) (Conn.init cfg) := by
  constructor
  · unfold cfgTarget
    cases hc : cfg.cws with
    | none => exact ⟨_, .init (init_client cfg hc), rfl, rfl⟩
    | some sz => exact ⟨_, init_client_cws cfg sz hc (hv.2 sz hc), rfl, rfl⟩
  · have : (Conn.init cfg).settings.loc = .waitingAck cfg.settings := by
      unfold Conn.init
      cases cfg.cws <;> rfl
    rw [this]
    intro t ht
    rw [settingsIws_cfg] at ht
    exact hv.1 t ht

theorem init_server_cinv (cfg : Conn.Cfg) (ecp : Bool) (pf : Bytes) (hv : CfgValid cfg) :
    CInv (cfgTarget cfg) (max 65535 (cfgTarget cfg)) (Conn.initServer cfg ecp pf) := by
  constructor
  · unfold cfgTarget
    cases hc : cfg.cws with
    | none => exact ⟨_, .init (init_server cfg ecp pf hc), rfl, rfl⟩
    | some sz => exact ⟨_, init_server_cws cfg ecp pf sz hc (hv.2 sz hc), rfl, rfl⟩
  · have : (Conn.initServer cfg ecp pf).settings.loc =
        .waitingAck ((({ cfg with push := none } : Conn.Cfg).settings) ++ (if ecp then [(8, 1)] else [])) := by
      unfold Conn.initServer
      cases cfg.cws <;> rfl
    rw [this]
    intro t ht
    have h4 : settingsIws ((({ cfg with push := none } : Conn.Cfg).settings) ++ (if ecp then [(8, 1)] else [])) = cfg.iws := by
      unfold settingsIws Conn.Cfg.settings
      cases cfg.hts <;> cases cfg.mcs <;> cases cfg.iws <;> cases cfg.mfs <;> cases cfg.mhl <;> cases ecp <;> simp
    rw [h4] at ht
    exact hv.1 t ht

-- ===================================================================== connection-level reachability

/-- what an application (or the harness) can do with a connection: drive it (`poll`), reconfigure
    the windows, shut it down, ping — and any call of the stream layer that the handles
    (`SendRequest`, `SendStream`, `RecvStream`, `ResponseFuture`, …) make directly -/
inductive COp where
  | protoPoll (fuel : Nat)
  | clientPoll (fuel : Nat)
  | setTargetWindowSize (size : Nat)
  | setInitialWindowSize (size : Nat)
  | goAwayGracefully
  | goAwayFromUser (e : Reason)
  | goAwayNow (e : Reason)
  | userSendPing
  | userPollPong (tag : String)
  | dropUserPingsRx
  | takeUserPings
  | handle (op : Op)

def COp.apply (c : Conn) : COp → Conn
  | .protoPoll fuel => (c.protoPoll fuel).1
  | .clientPoll fuel => (c.clientPoll fuel).1
  | .setTargetWindowSize size => c.setTargetWindowSize size
  | .setInitialWindowSize size => (c.setInitialWindowSize size).1
  | .goAwayGracefully => c.goAwayGracefully
  | .goAwayFromUser e => c.goAwayFromUser e
  | .goAwayNow e => c.goAwayNow e
  | .userSendPing => c.userSendPing.1
  | .userPollPong t => (c.userPollPong t).1
  | .dropUserPingsRx => c.dropUserPingsRx
  | .takeUserPings => c.takeUserPings.1
  | .handle op => { c with streams := op.apply c.streams }

/-- window sizes are legal (`set_target_window_size` / `set_initial_window_size` assert it); a
    handle does not reconfigure the connection window -/
def COp.valid (c : Conn) : COp → Prop
  | .setTargetWindowSize size => size ≤ 2147483647
  | .setInitialWindowSize size => size ≤ 2147483647
  | .handle op => op.valid c.streams ∧ op.keepsTarget = true
  | _ => True

/-- the connection window configured last / the largest so far, after the call -/
def COp.target (T : Nat) : COp → Nat
  | .setTargetWindowSize size => size
  | _ => T
def COp.hi (H : Nat) : COp → Nat
  | .setTargetWindowSize size => max H size
  | _ => H

theorem COp.step_cinv {c : Conn} (h : CInv T H c) (op : COp) (hv : op.valid c) :
    CInv (op.target T) (op.hi H) (op.apply c) := by
  cases op with
  | protoPoll fuel => exact protoPoll_cinv fuel h
  | clientPoll fuel => exact clientPoll_cinv fuel h
  | setTargetWindowSize size => exact setTargetWindowSize_cinv h size hv
  | setInitialWindowSize size => exact setInitialWindowSize_cinv h size hv
  | goAwayGracefully => exact goAwayGracefully_cinv h
  | goAwayFromUser e => exact goAwayFromUser_cinv h e
  | goAwayNow e => exact goAwayNow_cinv h e
  | userSendPing => exact userSendPing_cinv h
  | userPollPong t => exact userPollPong_cinv h t
  | dropUserPingsRx => exact dropUserPingsRx_cinv h
  | takeUserPings => exact takeUserPings_cinv h
  | handle op => exact h.op op hv.1 hv.2

/-- connections reachable from a new client or server connection; `T` = the connection window the
    application configured last, `H` = the largest one so far -/
inductive CReach : Nat → Nat → Conn → Prop where
  | client (cfg : Conn.Cfg) (hv : CfgValid cfg) : CReach (cfgTarget cfg) (max 65535 (cfgTarget cfg)) (Conn.init cfg)
  | server (cfg : Conn.Cfg) (ecp : Bool) (pf : Bytes) (hv : CfgValid cfg) :
      CReach (cfgTarget cfg) (max 65535 (cfgTarget cfg)) (Conn.initServer cfg ecp pf)
  | step {T H : Nat} {c : Conn} (op : COp) (h : CReach T H c) (hv : op.valid c) :
      CReach (op.target T) (op.hi H) (op.apply c)
  /-- the environment: anything but the stream layer and the SETTINGS bookkeeping may change in any
      way (octets arriving on the transport, the transport taking or refusing writes, wakers, …) -/
  | env {T H : Nat} {c c' : Conn} (h : CReach T H c) (hs : c'.streams = c.streams) (hl : c'.settings = c.settings) :
      CReach T H c'

theorem creach_cinv {c : Conn} (h : CReach T H c) : CInv T H c := by
  induction h with
  | client cfg hv => exact init_cinv cfg hv
  | server cfg ecp pf hv => exact init_server_cinv cfg ecp pf hv
  | step op _ hv ih => exact COp.step_cinv ih op hv
  | env _ hs hl ih => unfold CInv; rw [hs, hl]; exact ih

/-- **the stream layer of every reachable connection is in a `Reach` state** — whatever the peer
    sends, however the transport chops reads and writes, whatever the application does: the
    connection-level theorems of `H2V/Props/C03.lean` apply to it, with `target = T` -/
theorem creach_reach {c : Conn} (h : CReach T H c) : ∃ g, Reach g c.streams ∧ g.target = T ∧ g.hiTarget = H :=
  (creach_cinv h).1

theorem creach_inv {c : Conn} (h : CReach T H c) : ∃ g, Inv false g c.streams ∧ g.target = T ∧ g.hiTarget = H :=
  let ⟨g, hg, ht, hh⟩ := creach_reach h; ⟨g, reach_inv hg, ht, hh⟩

end H2V.Lemmas.ConnRecvP
