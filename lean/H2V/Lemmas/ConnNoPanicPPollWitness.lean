import H2V.Lemmas.ConnNoPanicPPollComplete
import H2V.Lemmas.ConnNoPanicPReach
import H2V.Lemmas.ConnFlowPReach
/-
  C08 (no panic) — part 17: the hypotheses of `pollComplete_no_panic` are jointly satisfiable: the stream layer of
  a new connection (`wBlank`) with a fresh codec satisfies `WI`.
-/
namespace H2V.Lemmas.ConnNoPanicP
open H2V H2V.Model H2V.Model.Conn H2V.Lemmas.ConnCountsP

theorem blank_streamP {s : Streams} (h : s.store.slab = []) (k : Nat) : s.stream k = { key := k, id := 0 } := by
  unfold Streams.stream Store.get?; rw [h]; rfl

theorem blank_fi {s : Streams} (h : s.store.slab = []) : FI s := by
  have hq : ∀ k, ppq s k = [] := fun k => by unfold ppq; rw [blank_streamP h]; rfl
  refine ⟨fun k => ?_, ⟨fun k => by rw [hq]; exact List.nodup_nil, fun k k' pid h1 _ => by rw [hq] at h1; cases h1⟩,
    fun k pid hp => by rw [hq] at hp; cases hp⟩
  rw [blank_streamP h]
  exact ⟨fun hp => Bool.noConfusion hp, fun hp => Bool.noConfusion hp⟩

theorem wBlank_safe : ConnFlowP.SafeInv wBlank := by
  refine ⟨Int.le_refl _, ⟨List.nodup_nil, ?_⟩, ?_, Int.le_refl _, by decide, by decide⟩
  · intro x hx; cases hx
  · intro x hx; cases hx

theorem wBlank_wi : WI (fun _ => False) ConnRecvP.Ghost.init wBlank {} :=
  ⟨⟨blank_npi wBlank_blank rfl (fun q => by cases q <;> rfl), (rfl : wBlank.counts.canIncNumLocalErrorResets = true), blank_fi rfl⟩,
   wBlank_safe,
   ConnRecvP.Inv.init ⟨rfl, rfl, rfl, rfl, rfl⟩ true,
   fun k => by rw [blank_streamP (s := wBlank) rfl]; exact DS.blank k,
   .of_none rfl rfl⟩

/-- so the theorem says something: -/
example (fuel : Nat) (io : Tio) (tag : String) :
    OutOfFuel (Streams.pollComplete fuel wBlank {} io tag).1 ∨
    (Streams.pollComplete fuel wBlank {} io tag).1.panicked = none :=
  (pollComplete_w fuel wBlank_wi io tag).imp id (fun h => h.pi.npi.np)

-- ===================================================================== a state with something to write

instance (x : Stream) : Decidable (One x) := by unfold One; infer_instance
instance (x : Stream) : Decidable (DS x) := by unfold DS; infer_instance

theorem stream_mem_or_blank (s : Streams) (k : Nat) : s.stream k ∈ s.store.slab ∨ s.stream k = { key := k, id := 0 } := by
  unfold Streams.stream
  cases h : s.store.get? k with
  | none => exact .inr rfl
  | some x => exact .inl (get?_mem h)

/-- `FI` and `DSum` from facts about the slab entries, when no PUSH_PROMISE is queued -/
theorem fi_ds_of_slab {s : Streams} (h : ∀ x ∈ s.store.slab, One x ∧ ppIdsOf x.pendingSend = [] ∧ DS x) : FI s ∧ DSum s := by
  have hk : ∀ k, One (s.stream k) ∧ ppIdsOf (s.stream k).pendingSend = [] ∧ DS (s.stream k) := by
    intro k
    rcases stream_mem_or_blank s k with hm | hb
    · exact h _ hm
    · rw [hb]; exact ⟨⟨fun hp => Bool.noConfusion hp, fun hp => Bool.noConfusion hp⟩, rfl, DS.blank k⟩
  have hq : ∀ k, ppq s k = [] := fun k => (hk k).2.1
  exact ⟨⟨fun k => (hk k).1, ⟨fun k => by rw [hq]; exact List.nodup_nil, fun k k' pid h1 _ => by rw [hq] at h1; cases h1⟩,
    fun k pid hp => by rw [hq] at hp; cases hp⟩, fun k => (hk k).2.2⟩

/-- the client after `send_request` (`wR1`: HEADERS queued on stream 1, the stream waits in `pending_open`)
    satisfies all hypotheses; `poll_complete` then counts the stream (`inc_num_send_streams`), pops the frame and
    hands it to the codec (the run of the executable model writes `H:1:4:0:-`) -/
theorem wR1_wi : WI (fun _ => False) ConnRecvP.Ghost.init wR1 {} := by
  have r0 : Reach wBlank := .init wBlank_blank rfl (fun q => by cases q <;> rfl)
  have r1 : Reach wR1 := .step r0 (.sendRequest _ false [] false none (by intro id h; cases h; rfl))
  have hfd := fi_ds_of_slab (s := wR1) (by decide)
  exact ⟨⟨reach_npi r1 (rfl : wR1.counts.canIncNumLocalErrorResets = true),
      (rfl : wR1.counts.canIncNumLocalErrorResets = true), hfd.1⟩,
    wBlank_safe.sendRequest false [] false none,
    (ConnRecvP.Inv.init (s := wBlank) ⟨rfl, rfl, rfl, rfl, rfl⟩ true).of_ext (ConnRecvP.sendRequest_ext _ _ _ _ _),
    hfd.2, .of_none rfl rfl⟩

example (fuel : Nat) (io : Tio) (tag : String) :
    OutOfFuel (Streams.pollComplete fuel wR1 {} io tag).1 ∨
    (Streams.pollComplete fuel wR1 {} io tag).1.panicked = none :=
  (pollComplete_w fuel wR1_wi io tag).imp id (fun h => h.pi.npi.np)

end H2V.Lemmas.ConnNoPanicP
