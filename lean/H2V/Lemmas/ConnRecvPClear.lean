import H2V.Lemmas.ConnRecvPFlow
/-
  C03 — part 6b: `clear_recv_buffer`, `release_closed_capacity`, `ignore_data` preserve the invariant.
-/
namespace H2V.Lemmas.ConnRecvP
open H2V H2V.Model H2V.Model.Conn
open H2V.Model.Conn.Streams
open H2V.Lemmas.Comp
attribute [local irreducible] wrapSubU32 wrapSubUsize

-- ===================================================================== clear_recv_buffer / release_closed_capacity

theorem find?_map_key (l : List Stream) (g : Stream → Stream) (hg : ∀ y, (g y).key = y.key) (k : Nat) :
    (l.map g).find? (·.key == k) = (l.find? (·.key == k)).map g := by
  induction l with
  | nil => rfl
  | cons y l ih =>
    simp only [List.map_cons, List.find?_cons, hg]
    split
    · rfl
    · exact ih

theorem get?_setStream (s : Streams) (x' : Stream) (k : Nat) :
    (s.setStream x').store.get? k = (s.store.get? k).map fun y => if y.key == x'.key then x' else y := by
  show (s.store.slab.map fun y => if y.key == x'.key then x' else y).find? (·.key == k) = _
  apply find?_map_key
  intro y
  split
  · next h => exact (by simpa using h : y.key = x'.key).symm
  · rfl

theorem get?_modStream (s : Streams) (id : Nat) (f : Stream → Stream) (hk : ∀ x, (f x).key = x.key) :
    (s.modStream id f).store.get? id = (s.store.get? id).map f := by
  unfold Streams.modStream
  split
  · next x hx =>
    rw [get?_setStream, hx]
    have : (f x).key = id := by rw [hk]; exact (get?_mem hx).2
    simp [this, (get?_mem hx).2]
  · next hn => rw [panic_store, hn]; rfl

theorem clearRecvBufferLoop_le (inFlight : Nat) (l : List REvent) (acc : Nat) (c : Counts) (h : acc ≤ inFlight) :
    (clearRecvBufferLoop inFlight l acc c).1 ≤ inFlight := by
  induction l generalizing acc c with
  | nil => exact h
  | cons e l ih =>
    cases e <;> unfold clearRecvBufferLoop <;> first | exact ih _ _ h | exact ih _ _ (Nat.min_le_right _ _)

/-- `Recv::clear_recv_buffer(stream)`: buffered DATA is dropped, its octets go back to the
    CONNECTION window only.  For the stream-level books this needs a stream that is closed or whose
    `RecvStream` handle is gone (`is_recv == false`) — or nothing in flight -/
theorem clearRecvBuffer_inv {full : Bool} {g : Ghost} {s : Streams} (h : Inv full g s) (id : Nat) (b : Bool)
    (hx : full = true → ∀ x, s.store.get? id = some x →
      x.state.isClosed = true ∨ x.isRecv = false ∨ x.inFlightRecvData = 0) :
    Inv full g (s.clearRecvBuffer id b) := by
  unfold Streams.clearRecvBuffer
  dsimp only
  cases hl : clearRecvBufferLoop (s.stream id).inFlightRecvData (s.stream id).pendingRecv 0 s.counts with
  | mk tr c =>
    have htr : tr ≤ (s.stream id).inFlightRecvData := by
      have := clearRecvBufferLoop_le (s.stream id).inFlightRecvData (s.stream id).pendingRecv 0 s.counts (Nat.zero_le _)
      rw [hl] at this; exact this
    dsimp only
    have h1 : Inv full g (({ s with counts := c } : Streams).modStream id fun st => { st with pendingRecv := [] }) := by
      inv_auto
    have hg1 : (({ s with counts := c } : Streams).modStream id fun st => { st with pendingRecv := [] }).store.get? id =
        (s.store.get? id).map fun st => { st with pendingRecv := [] } := get?_modStream _ id _ (fun _ => rfl)
    generalize (({ s with counts := c } : Streams).modStream id fun st => { st with pendingRecv := [] }) = s1 at h1 hg1 ⊢
    split
    · next hpos =>
      have h2 : InvD full g tr (s1.modStream id fun st => { st with inFlightRecvData := wrapSubU32 st.inFlightRecvData tr }) := by
        refine h1.modStream id _ ?_ (fun _ => rfl) ?_ ?_
        · intro hn
          rw [hg1] at hn
          have : s.store.get? id = none := by cases hs : s.store.get? id <;> simp [hs] at hn ⊢
          rw [stream_of_get?_none this] at htr
          simp at htr; omega
        · intro x1 hx1
          rw [hg1] at hx1
          cases hs : s.store.get? id with
          | none => simp [hs] at hx1
          | some x =>
            simp only [hs, Option.map_some, Option.some.injEq] at hx1
            subst hx1
            rw [stream_eq_of_get? hs] at htr
            have hb := (h.infl_le (Int.le_refl 0) (get?_mem hs).1)
            have : wrapSubU32 x.inFlightRecvData tr = x.inFlightRecvData - tr := wrapSubU32_of_le (by omega) htr
            show ((wrapSubU32 x.inFlightRecvData tr : Nat) : Int) + tr ≤ (x.inFlightRecvData : Int) + 0
            rw [this]; omega
        · intro hf x1 hx1 ok
          rw [hg1] at hx1
          cases hs : s.store.get? id with
          | none => simp [hs] at hx1
          | some x =>
            simp only [hs, Option.map_some, Option.some.injEq] at hx1
            subst hx1
            rw [stream_eq_of_get? hs] at htr
            have hb := (h.infl_le (Int.le_refl 0) (get?_mem hs).1)
            have hsub : wrapSubU32 x.inFlightRecvData tr = x.inFlightRecvData - tr := wrapSubU32_of_le (by omega) htr
            refine ok.drop _ (by show wrapSubU32 x.inFlightRecvData tr ≤ x.inFlightRecvData; rw [hsub]; omega) ?_
            rcases hx hf x hs with hc | hr | h0
            · exact .inr (.inl hc)
            · exact .inr (.inr hr)
            · exfalso; omega
      have hc : tr ≤ cI (s1.modStream id fun st => { st with inFlightRecvData := wrapSubU32 st.inFlightRecvData tr }) := by
        have hs2 := h2.sum
        have := sumInfl s1.store.slab
        omega
      have h3 := (releaseConnectionCapacity_inv h2 tr b hc).1
      have : (tr : Int) - tr = 0 := by omega
      rw [this] at h3
      exact h3
    · exact h1

/-- `Recv::release_closed_capacity(stream)` (the last handle of the stream is gone): everything
    the stream still holds goes back to the connection window -/
theorem releaseClosedCapacity_inv {full : Bool} {g : Ghost} {s : Streams} (h : Inv full g s) (id : Nat)
    (hx : full = true → ∀ x, s.store.get? id = some x →
      x.state.isClosed = true ∨ x.isRecv = false ∨ x.inFlightRecvData = 0) :
    Inv full g (s.releaseClosedCapacity id) := by
  unfold Streams.releaseClosedCapacity
  dsimp only
  split
  · next hne =>
    -- something in flight: the entry exists
    cases hs : s.store.get? id with
    | none =>
      rw [stream_of_get?_none hs] at hne
      simp at hne
    | some x =>
      have hb := (h.infl_le (Int.le_refl 0) (get?_mem hs).1)
      rw [stream_eq_of_get? hs]
      obtain ⟨h1, hst1⟩ := releaseConnectionCapacity_inv h x.inFlightRecvData true hb.1
      have h2 : Inv full g ((s.releaseConnectionCapacity x.inFlightRecvData true).modStream id fun st =>
          { st with inFlightRecvData := 0 }) := by
        refine h1.modStream id _ ?_ (fun _ => rfl) ?_ ?_
        · intro hn; rw [hst1, hs] at hn; cases hn
        · intro y hy
          rw [hst1, hs] at hy; cases hy
          show ((0 : Nat) : Int) + 0 ≤ _
          omega
        · intro hf y hy ok
          rw [hst1, hs] at hy; cases hy
          refine ok.drop 0 (Nat.zero_le _) ?_
          rcases hx hf x hs with hc | hr | h0
          · exact .inr (.inl hc)
          · exact .inr (.inr hr)
          · exact .inl h0.symm
      have hg2 := get?_modStream (s.releaseConnectionCapacity x.inFlightRecvData true) id
        (fun st => { st with inFlightRecvData := 0 }) (fun _ => rfl)
      rw [hst1, hs] at hg2
      generalize ((s.releaseConnectionCapacity x.inFlightRecvData true).modStream id fun st =>
          { st with inFlightRecvData := 0 }) = s2 at h2 hg2 ⊢
      exact clearRecvBuffer_inv h2 id true fun _ y hy => by
        rw [hg2] at hy
        simp only [Option.map_some, Option.some.injEq] at hy
        subst hy; exact .inr (.inr rfl)
  · next he =>
    have he' : (s.stream id).inFlightRecvData = 0 := by simpa using he
    exact clearRecvBuffer_inv h id true fun _ y hy => by
      rw [stream_eq_of_get? hy] at he'; exact .inr (.inr he')

-- ===================================================================== ignore_data / recv_data

theorem consume_err_goaway (s : Streams) (sz : Nat) (e : PErr) (h : (s.consumeConnectionWindow sz).2 = .error e) :
    ∃ r, e = PErr.libraryGoAway r := by
  unfold Streams.consumeConnectionWindow at h
  split at h
  · cases h; exact ⟨_, rfl⟩
  · split at h
    · cases h; exact ⟨_, rfl⟩
    · cases h
    · cases h

/-- `Recv::ignore_data(sz)`: DATA for a stream that no longer takes it — consumed and given back
    to the connection window at once -/
theorem ignoreData_inv {full : Bool} {g : Ghost} {s : Streams} (h : Inv full g s) (sz : Nat) :
    Inv full g (s.ignoreData sz).1 := by
  obtain ⟨-, herr, hok⟩ := consume_inv h sz
  unfold Streams.ignoreData
  cases hc : s.consumeConnectionWindow sz with
  | mk s1 r =>
    rw [hc] at herr hok
    dsimp only at herr hok
    cases r with
    | error e => exact herr e rfl
    | ok u =>
      obtain ⟨h1, -⟩ := hok rfl
      have hcI : sz ≤ cI s1 := by
        have := h1.sum
        have := sumInfl s1.store.slab
        omega
      have h2 := (releaseConnectionCapacity_inv h1 sz false hcI).1
      have : (0 : Int) + sz - sz = 0 := by omega
      rw [this] at h2
      exact h2

theorem ignoreData_err_goaway (s : Streams) (sz : Nat) (e : PErr) (h : (s.ignoreData sz).2 = .error e) :
    ∃ r, e = PErr.libraryGoAway r := by
  unfold Streams.ignoreData at h
  cases hc : s.consumeConnectionWindow sz with
  | mk s1 r =>
    rw [hc] at h
    cases r with
    | error e' =>
      cases h
      exact consume_err_goaway s sz _ (by rw [hc])
    | ok u => cases h

end H2V.Lemmas.ConnRecvP
