import H2V.Model.Huffman
import H2V.Lemmas.HuffmanPack
/-
  The model of `h2::hpack::huffman::encode` (64-bit register, 40-bit window, flush loop) produces
  exactly the octets of the reference encoder `Spec.Huffman.encode`.

  Invariant: the pending (not yet flushed) bits `P`, fewer than 8 after each symbol, sit at the top
  of the low 40 bits of the register, with zeros below them: `Win bits P`; `bits_left = 40 - |P|`.
  Bits 40..63 of the register hold already-written garbage, which is why everything is mod `2^40`.
-/
namespace H2V.Lemmas.Huffman
open H2V H2V.Spec.Rfc7541 H2V.Spec.Huffman
open H2V.Model.Huffman (encEntry flush encLoop)

def Win (bits : Nat) (Q : List Bool) : Prop :=
  bits % 2 ^ 40 = bitsVal Q 0 * 2 ^ (40 - Q.length)

/-! ### arithmetic of the register operations -/

theorem or_eq_add {bits y left : Nat} (h0 : bits % 2 ^ left = 0) (hy : y < 2 ^ left) :
    bits ||| y = bits + y := by
  have h := Nat.div_add_mod bits (2 ^ left)
  rw [h0, Nat.add_zero, Nat.mul_comm, ← Nat.shiftLeft_eq] at h
  rw [← h, Nat.shiftLeft_add_eq_or_of_lt hy]

theorem win_low_zero {bits p left : Nat} (hl : left ≤ 40) (hw : bits % 2 ^ 40 = p * 2 ^ left) :
    bits % 2 ^ left = 0 := by
  rw [← Nat.mod_mod_of_dvd bits (Nat.pow_dvd_pow 2 hl), hw, Nat.mul_mod_left]

/-- `bits |= code << (bits_left - nbits)` -/
theorem win_add {bits p left n c : Nat} (hl : left ≤ 40) (hn : n ≤ left)
    (hp : p < 2 ^ (40 - left)) (hc : c < 2 ^ n) (hw : bits % 2 ^ 40 = p * 2 ^ left) :
    (bits ||| (c <<< (left - n))) % 2 ^ 40 = (p * 2 ^ n + c) * 2 ^ (left - n) := by
  have hsplit : 2 ^ left = 2 ^ n * 2 ^ (left - n) := by
    rw [← Nat.pow_add, show n + (left - n) = left by omega]
  have hy : c <<< (left - n) < 2 ^ left := by
    rw [Nat.shiftLeft_eq, hsplit]
    exact Nat.mul_lt_mul_of_lt_of_le hc (Nat.le_refl _) (Nat.two_pow_pos _)
  rw [or_eq_add (win_low_zero hl hw) hy, Nat.add_mod, hw]
  have h40 : (p + 1) * 2 ^ left ≤ 2 ^ 40 := by
    have : 2 ^ 40 = 2 ^ (40 - left) * 2 ^ left := by
      rw [← Nat.pow_add, show 40 - left + left = 40 by omega]
    rw [this]
    exact Nat.mul_le_mul_right _ hp
  rw [Nat.add_mul, Nat.one_mul] at h40
  rw [Nat.mod_eq_of_lt (a := c <<< (left - n)) (by omega), Nat.mod_eq_of_lt (by omega),
    Nat.shiftLeft_eq, hsplit, Nat.add_mul, Nat.mul_assoc]

/-- one round of the flush loop: `put_u8((bits >> 32) as u8); bits <<= 8` -/
theorem win_flush {bits a r q1 : Nat} (hq : q1 ≤ 32) (_ha : a < 256) (hr : r < 2 ^ q1)
    (hw : bits % 2 ^ 40 = (a * 2 ^ q1 + r) * 2 ^ (32 - q1)) :
    (bits >>> 32) % 256 = a ∧
      ((bits <<< 8) % 18446744073709551616) % 2 ^ 40 = r * 2 ^ (40 - q1) := by
  have h32 : 2 ^ q1 * 2 ^ (32 - q1) = 2 ^ 32 := by
    rw [← Nat.pow_add, show q1 + (32 - q1) = 32 by omega]
  have hm : r * 2 ^ (32 - q1) < 2 ^ 32 := by
    rw [← h32]; exact Nat.mul_lt_mul_of_lt_of_le hr (Nat.le_refl _) (Nat.two_pow_pos _)
  rw [Nat.add_mul, Nat.mul_assoc, h32] at hw
  rw [show 40 - q1 = 32 - q1 + 8 by omega, Nat.pow_add, ← Nat.mul_assoc]
  generalize r * 2 ^ (32 - q1) = m at hw hm
  rw [Nat.shiftRight_eq_div_pow, Nat.shiftLeft_eq]
  omega

/-- the final `bits |= (1 << bits_left) - 1; put_u8((bits >> 32) as u8)` -/
theorem win_final {bits p left : Nat} (h32 : 32 < left) (hl : left ≤ 40)
    (hp : p < 2 ^ (40 - left)) (hw : bits % 2 ^ 40 = p * 2 ^ left) :
    ((bits ||| ((1 <<< left) - 1)) >>> 32) % 256 = p * 2 ^ (left - 32) + (2 ^ (left - 32) - 1) := by
  have hpos := Nat.two_pow_pos left
  rw [Nat.one_shiftLeft, or_eq_add (win_low_zero hl hw) (show 2 ^ left - 1 < 2 ^ left by omega)]
  have hsplit : 2 ^ left = 2 ^ (left - 32) * 4294967296 := by
    rw [show 4294967296 = 2 ^ 32 by rfl, ← Nat.pow_add, show left - 32 + 32 = left by omega]
  have hM : (p + 1) * 2 ^ (left - 32) ≤ 256 := by
    have : 256 = 2 ^ (40 - left) * 2 ^ (left - 32) := by
      rw [← Nat.pow_add, show 40 - left + (left - 32) = 8 by omega]
    rw [this]
    exact Nat.mul_le_mul_right _ hp
  have hM1 : 1 ≤ (p + 1) * 2 ^ (left - 32) := Nat.mul_pos (by omega) (Nat.two_pow_pos _)
  have hX : (bits + (2 ^ left - 1)) % 2 ^ 40 = (p + 1) * 2 ^ (left - 32) * 4294967296 - 1 := by
    have h40 : (p + 1) * 2 ^ left ≤ 2 ^ 40 := by
      have : 2 ^ 40 = 2 ^ (40 - left) * 2 ^ left := by
        rw [← Nat.pow_add, show 40 - left + left = 40 by omega]
      rw [this]
      exact Nat.mul_le_mul_right _ hp
    rw [Nat.mul_assoc, ← hsplit]
    rw [Nat.add_mul, Nat.one_mul] at h40 ⊢
    rw [Nat.add_mod, hw, Nat.mod_eq_of_lt (a := 2 ^ left - 1) (by omega),
      Nat.mod_eq_of_lt (by omega)]
    omega
  rw [Nat.add_mul, Nat.one_mul] at hM hM1 hX
  generalize p * 2 ^ (left - 32) = A at *
  generalize 2 ^ (left - 32) = D at *
  generalize bits + (2 ^ left - 1) = X at *
  rw [Nat.shiftRight_eq_div_pow]
  omega

/-! ### the flush loop -/

theorem flush_spec : ∀ (fuel : Nat) (Q : List Bool) (bits : Nat) (out : Bytes),
    Q.length ≤ 40 → Q.length < 8 * fuel → Win bits Q →
    ∃ bits' Q' out', flush fuel bits (40 - Q.length) out = (bits', 40 - Q'.length, out') ∧
      Q'.length < 8 ∧ Win bits' Q' ∧ ∀ X, out ++ Pack (Q ++ X) = out' ++ Pack (Q' ++ X)
  | 0, Q, bits, out, _, hf, _ => by omega
  | fuel + 1, Q, bits, out, h40, hf, hw => by
    unfold flush
    by_cases hle : 40 - Q.length ≤ 32
    · simp only [hle, if_true]
      have hl8 : (Q.take 8).length = 8 := by simp; omega
      have hl1 : (Q.drop 8).length = Q.length - 8 := by simp
      have hv : bitsVal Q 0 = bitsVal (Q.take 8) 0 * 2 ^ (Q.drop 8).length + bitsVal (Q.drop 8) 0 := by
        conv => lhs; rw [← List.take_append_drop 8 Q, bitsVal_append, (bitsVal_shift _ _).1]
      have ha : bitsVal (Q.take 8) 0 < 256 := by
        have := bitsVal_lt (Q.take 8); rwa [hl8] at this
      have hr := bitsVal_lt (Q.drop 8)
      unfold Win at hw
      rw [hv, show 40 - Q.length = 32 - (Q.drop 8).length by omega] at hw
      obtain ⟨hbyte, hnew⟩ := win_flush (by omega) ha hr hw
      rw [hbyte, show 40 - Q.length + 8 = 40 - (Q.drop 8).length by omega]
      obtain ⟨bits', Q', out', hfl, hQ', hw', hX⟩ :=
        flush_spec fuel (Q.drop 8) _ (out ++ [bitsVal (Q.take 8) 0]) (by omega) (by omega) hnew
      refine ⟨bits', Q', out', hfl, hQ', hw', fun X => ?_⟩
      rw [← hX X]
      have := Pack_chunk (c8 := Q.take 8) (Q.drop 8 ++ X) hl8
      rw [← List.append_assoc, List.take_append_drop] at this
      rw [this]
      simp
    · simp only [hle, if_false]
      exact ⟨bits, Q, out, rfl, by omega, hw, fun _ => rfl⟩

/-! ### the symbol loop -/

theorem encEntry_code {b : Nat} (hb : b < 257) : ∃ n c, encEntry b = (n, c) ∧ Code b n c := by
  obtain ⟨n, c, hc⟩ := code_exists hb
  refine ⟨n, c, ?_, hc⟩
  unfold Code at hc
  simp only [encEntry, encL_eq, List.getD_eq_getElem?_getD, hc, Option.getD_some]

def encFin : Nat × Nat × Bytes → Bytes
  | (bits, left, out) =>
    if left ≠ 40 then out ++ [((bits ||| ((1 <<< left) - 1)) >>> 32) % 256] else out

theorem encLoop_spec : ∀ (src : Bytes), Bytes.Valid src → ∀ (P : List Bool) (bits : Nat)
    (out : Bytes), P.length < 8 → Win bits P →
    encFin (encLoop src bits (40 - P.length) out) = out ++ Pack (P ++ encodeBits src)
  | [], _, P, bits, out, hP, hw => by
    simp only [encLoop, encFin, encodeBits, List.append_nil]
    by_cases h0 : P.length = 0
    · have : P = [] := List.eq_nil_of_length_eq_zero h0
      subst this
      simp [Pack_nil]
    · have hne : 40 - P.length ≠ 40 := by omega
      simp only [hne, ne_eq, not_false_eq_true, if_true]
      rw [Pack_short (by omega) hP, bitsVal_append, bitsVal_ones]
      unfold Win at hw
      have hlt := bitsVal_lt P
      rw [win_final (by omega) (by omega) (by rwa [show 40 - (40 - P.length) = P.length by omega]) hw,
        show 40 - P.length - 32 = 8 - P.length by omega]
  | b :: rest, hv, P, bits, out, hP, hw => by
    have hb256 : b < 256 := hv b (by simp)
    have hv' : Bytes.Valid rest := fun x hx => hv x (by simp [hx])
    obtain ⟨n, c, hentry, hc⟩ := encEntry_code (show b < 257 by omega)
    have hr := code_range hc
    have hlt := bitsVal_lt P
    have hw' : Win (bits ||| (c <<< (40 - P.length - n))) (P ++ codeBits n c) := by
      unfold Win at hw ⊢
      rw [win_add (by omega) (by omega)
        (by rwa [show 40 - (40 - P.length) = P.length by omega]) hr.2.2 hw,
        bitsVal_append, bitsVal_codeBits, Nat.mod_eq_of_lt hr.2.2]
      simp only [List.length_append, codeBits_length]
      rw [show 40 - (P.length + n) = 40 - P.length - n by omega]
    obtain ⟨bits', Q', out', hfl, hQ', hwQ, hX⟩ :=
      flush_spec 5 (P ++ codeBits n c) _ out (by simp; omega) (by simp; omega) hw'
    rw [show 40 - (P ++ codeBits n c).length = 40 - P.length - n by simp; omega] at hfl
    simp only [encLoop, hentry, hfl]
    rw [encLoop_spec rest hv' Q' bits' out' hQ' hwQ, ← hX]
    simp only [encodeBits, symBits_of_code hc, List.append_assoc]

/-- **The model encoder is the reference encoder.** -/
theorem encode_eq_spec (s : Bytes) (h : Bytes.Valid s) :
    Model.Huffman.encode s = Spec.Huffman.encode s := by
  have := encLoop_spec s h [] 0 [] (by simp) (by simp [Win, bitsVal])
  simp only [List.length_nil, Nat.sub_zero, List.nil_append] at this
  rw [encode_eq_Pack, ← this]
  rfl

end H2V.Lemmas.Huffman
