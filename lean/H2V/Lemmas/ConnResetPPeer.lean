import H2V.Lemmas.ConnResetPHist
/-
  ConnResetP — peer errors surface intact (C17, second half): what the receive side of state.rs makes
  of RST_STREAM / GOAWAY / I/O errors, and what the handle operations answer on a stream closed by
  an error — for every error value (every 32-bit code, every initiator, every debug string).
-/
namespace H2V.Lemmas.ConnResetP
open H2V H2V.Model H2V.Model.Conn

/-- `State::recv_reset` on a stream that is not closed records exactly the peer's code, as a remote reset -/
theorem recvReset_state_open (x : State) (sid : Nat) (code : Reason) (q : Bool) (h : x.isClosed = false) :
    (x.recvReset sid code q).inner =
      .closed (if x.isRecvEndStream then .errorAfterEndStream (.reset sid code .remote) else .error (.reset sid code .remote)) := by
  rcases x with ⟨_ | _ | _ | _ | _ | _ | _⟩ <;> simp_all [State.recvReset, State.isClosed, PErr.remoteReset]

/-- `State::handle_error` (GOAWAY, I/O error, connection error) on a stream that is not closed records the error as it is -/
theorem handleError_state_open (x : State) (e : PErr) (h : x.isClosed = false) :
    (x.handleError e).inner = .closed (if x.isRecvEndStream then .errorAfterEndStream e else .error e) := by
  rcases x with ⟨_ | _ | _ | _ | _ | _ | _⟩ <;> simp_all [State.handleError, State.isClosed]

/-- the receive half reports the recorded error -/
theorem ensureRecvOpen_error (x : State) (e : PErr) (h : x.inner = .closed (.error e)) : x.ensureRecvOpen = .error e := by
  unfold State.ensureRecvOpen; rw [h]

/-- `poll_reset` reports the recorded reason of a reset or GOAWAY, and the error itself for an I/O error -/
theorem ensureReason_reset (x : State) (sid : Nat) (r : Reason) (i : Initiator) (m : PollReset)
    (h : x.inner = .closed (.error (.reset sid r i)) ∨ x.inner = .closed (.errorAfterEndStream (.reset sid r i))) :
    x.ensureReason m = .ok (some r) := by
  unfold State.ensureReason; rcases h with h | h <;> rw [h]

theorem ensureReason_goAway (x : State) (d : Bytes) (r : Reason) (i : Initiator) (m : PollReset)
    (h : x.inner = .closed (.error (.goAway d r i)) ∨ x.inner = .closed (.errorAfterEndStream (.goAway d r i))) :
    x.ensureReason m = .ok (some r) := by
  unfold State.ensureReason; rcases h with h | h <;> rw [h]

theorem ensureReason_io (x : State) (k : String) (msg : Option String) (m : PollReset)
    (h : x.inner = .closed (.error (.io k msg)) ∨ x.inner = .closed (.errorAfterEndStream (.io k msg))) :
    x.ensureReason m = .error (.proto (.io k msg)) := by
  unfold State.ensureReason; rcases h with h | h <;> rw [h]

section handles
variable (s : Streams) (id : Nat) (e : PErr) (tag : String)

/-- `poll_data` on a drained stream closed by an error: the error -/
theorem recvPollData_error (hq : (s.stream id).pendingRecv = []) (h : (s.stream id).state.inner = .closed (.error e)) :
    (s.recvPollData id tag).2 = .err e ∧ (s.recvPollData id tag).1 = s := by
  unfold Streams.recvPollData Streams.scheduleRecv
  rw [hq, ensureRecvOpen_error _ _ h]; exact ⟨rfl, rfl⟩

theorem refPollData_error (hq : (s.stream id).pendingRecv = []) (h : (s.stream id).state.inner = .closed (.error e)) :
    (s.refPollData id tag).2 = .err e := by
  unfold Streams.refPollData
  have := recvPollData_error s id e tag hq h
  generalize s.recvPollData id tag = r at this
  obtain ⟨s', d⟩ := r
  simp only at this
  rw [this.1]

theorem recvPollTrailers_error (hq : (s.stream id).pendingRecv = []) (h : (s.stream id).state.inner = .closed (.error e)) :
    (s.recvPollTrailers id tag).2 = .err e := by
  unfold Streams.recvPollTrailers Streams.scheduleRecv
  rw [hq, ensureRecvOpen_error _ _ h]

theorem recvPollResponse_error (fuel : Nat) (hq : (s.stream id).pendingRecv = [])
    (h : (s.stream id).state.inner = .closed (.error e)) :
    (Streams.recvPollResponse (fuel + 1) s id tag).2 = .err e := by
  unfold Streams.recvPollResponse
  rw [hq, ensureRecvOpen_error _ _ h]

theorem recvPollInformational_error (hq : (s.stream id).pendingRecv = []) (h : (s.stream id).state.inner = .closed (.error e)) :
    (s.recvPollInformational id tag).2 = .err e := by
  unfold Streams.recvPollInformational
  rw [hq, ensureRecvOpen_error _ _ h]

/-- `poll_reset` on a stream closed by a reset: the recorded code -/
theorem pollReset_reset (sid : Nat) (r : Reason) (i : Initiator) (m : PollReset)
    (h : (s.stream id).state.inner = .closed (.error (.reset sid r i)) ∨
         (s.stream id).state.inner = .closed (.errorAfterEndStream (.reset sid r i))) :
    (s.pollReset id m tag).2 = .ok (some r) := by
  unfold Streams.pollReset; rw [ensureReason_reset _ sid r i m h]

theorem pollReset_goAway (d : Bytes) (r : Reason) (i : Initiator) (m : PollReset)
    (h : (s.stream id).state.inner = .closed (.error (.goAway d r i)) ∨
         (s.stream id).state.inner = .closed (.errorAfterEndStream (.goAway d r i))) :
    (s.pollReset id m tag).2 = .ok (some r) := by
  unfold Streams.pollReset; rw [ensureReason_goAway _ d r i m h]

theorem pollReset_io (k : String) (msg : Option String) (m : PollReset)
    (h : (s.stream id).state.inner = .closed (.error (.io k msg)) ∨
         (s.stream id).state.inner = .closed (.errorAfterEndStream (.io k msg))) :
    (s.pollReset id m tag).2 = .error (.proto (.io k msg)) := by
  unfold Streams.pollReset; rw [ensureReason_io _ k msg m h]

/-- sending on a closed stream is refused (`InactiveStreamId`) and queues nothing -/
theorem prioSendData_closed (len : Nat) (eos : Bool) (hl : len ≤ Generated.Consts.MAX_WINDOW_SIZE)
    (h : (s.stream id).state.isClosed = true) :
    s.prioSendData id len eos = (s, .error .inactiveStreamId) := by
  have hs : (s.stream id).state.isSendStreaming = false := by
    revert h; generalize (s.stream id).state = x
    rcases x with ⟨_ | _ | _ | _ | _ | _ | _⟩ <;> simp [State.isClosed, State.isSendStreaming]
  unfold Streams.prioSendData
  simp [Nat.not_lt.mpr hl, hs, h]

end handles

end H2V.Lemmas.ConnResetP
