import H2V.Lemmas.ConnCtlPGoAwayHist
import H2V.Lemmas.ConnCtlPViewStreams
import H2V.Lemmas.ConnCtlPViolConn
/-
  ConnCtlP, part 17 — C15 closed: `poll_complete` writes nothing of the view (`view_pollComplete`),
  so the history theorems hold without side condition; every handle call of the driver is a `Keep15`
  step (frame lemmas of ConnCtlPViewStreams).
-/
set_option autoImplicit false
set_option linter.unusedSimpArgs false
namespace H2V.Lemmas.ConnCtlP
open H2V H2V.Model H2V.Model.Conn

theorem pollCompleteFrame : PollCompleteFrame := fun fuel s w io tag => view_pollComplete fuel s w io tag

/-- the GOAWAY invariant holds in every reachable state, the GOAWAYs sent have non-increasing ids -/
theorem hist15_final {c0 c : Conn} {evs : List Ev} (h : Hist15 c0 evs c) (h0 : GoAwayInv c0) :
    GoAwayInv c ∧ SentOK c0 evs c := hist15 pollCompleteFrame h h0

theorem hist15_covers_final {c0 c : Conn} {evs : List Ev} (h : Hist15 c0 evs c) (h0 : GoAwayInv c0) :
    ∀ f ∈ sentG evs, c.streams.recv.lastProcessedId ≤ f.lastStreamId := hist15_covers_processed pollCompleteFrame h h0

/-- a call that replaces the streams by streams with the same view (and anything in codec, waker,
    `unsupported`, ping handle, local settings) is a `Keep15` step -/
theorem keep15_streams (c : Conn) (s : Streams) (k : Codec) (cx : String) (u : Option String) (p : PingPong) (l : Settings)
    (hv : view s = view c.streams) :
    Keep15 c { c with streams := s, codec := k, cx := cx, unsupported := u, pingPong := p, settings := l } :=
  Keep15.of_view rfl hv

/-- `connection_error_fatal` with its hypothesis discharged from the invariant of the state before -/
theorem connection_error_fatal' (c : Conn) (d : Bytes) (r : Reason) (i : Initiator) (hi : GoAwayInv c) :
    let c' := (c.handlePoll2Result (.error (.goAway d r i))).1
    let lpi := (c.streams.handleError (.goAway d r i)).1.recv.lastProcessedId
    (c.handlePoll2Result (.error (.goAway d r i))).2 = .ok () ∧ Dead c' ∧ GoAwayInv c' ∧
    lpi = c.streams.recv.lastProcessedId ∧
    ((c'.state = .closing r i ∧ (∃ ga, c.goAway.goingAway = some ga ∧ ga.reason = r) ∧ c'.goAway = c.goAway ∧
        c'.streams = c.streams) ∨
     (Halting c' ∧ c'.streams = (c.streams.handleError (.goAway d r i)).1 ∧ c'.state = c.state ∧
      c'.goAway.goingAway = some { lastProcessedId := lpi, reason := r } ∧
      (c'.goAway.pending = some { lastStreamId := lpi, reason := r, debugData := d } ∨
       (c'.goAway.pending = c.goAway.pending ∧
        c.goAway.goingAway = some { lastProcessedId := lpi, reason := r })))) := by
  intro c' lpi
  have k := keep15_handleError c (.goAway d r i)
  obtain ⟨h1, h2, h3⟩ := connection_error_fatal c d r i (k.inv hi)
  exact ⟨h1, h2, (handlePoll2Result_step15 c _ hi).1, k.2.1, h3⟩

/-- a recorded connection error (`conn_error`: a received GOAWAY, a connection error of our own, a
    transport error, the end of input) is never forgotten, over any history — so from then on
    `send_request` / `poll_ready` fail -/
theorem hist15_connErr_persists {c0 c : Conn} {evs : List Ev} (h : Hist15 c0 evs c) (h0 : GoAwayInv c0)
    (he : c0.streams.actions.connError.isSome = true) :
    ∃ e, c.streams.actions.connError = some e ∧
      ∀ isHead fields eos pending, c.streams.sendRequest isHead fields eos pending = (c.streams, .error (.proto e)) := by
  have := (hist15_final h h0).2.mono.2 he
  cases hc : c.streams.actions.connError with
  | none => rw [show (view c.streams).connErr = c.streams.actions.connError from rfl, hc] at this; cases this
  | some e => exact ⟨e, rfl, fun a b d p => sendRequest_after_connError c.streams e hc a b d p⟩

end H2V.Lemmas.ConnCtlP
