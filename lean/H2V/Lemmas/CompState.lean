import H2V.Model.ConnState
import H2V.Spec.Lifecycle
import H2V.Lemmas.CompBasic
/-
  Part 1 -- the stream state machine of h2 (`Model.Conn.State`, mirror of
  `src/proto/streams/state.rs`) against RFC 9113 §5.1 (`Spec.Lifecycle`).

  Layout
    §0  abstraction `phase`, the `Peer` projections, helpers
    §1  refinement theorems, one block per transition, including the exact exceptions
    §2  predicate characterisations
    §3  `sendClose_none_iff`
    §4  end-of-stream is never forgotten / closed is absorbing
    §5  reachability, ghost history and well-formedness
-/
namespace H2V.Lemmas.Comp
open H2V H2V.Model.Conn
open H2V.Spec.Lifecycle (Phase Ev step)

-- ===================================================================== §0 abstraction

/-- the obvious abstraction `Inner → Phase` (forget the `Peer` sub-states and the `Cause`) -/
def phase (s : State) : Phase :=
  match s.inner with
  | .idle => .idle
  | .reservedLocal => .reservedLocal
  | .reservedRemote => .reservedRemote
  | .open _ _ => .open
  | .halfClosedLocal _ => .halfClosedLocal
  | .halfClosedRemote _ => .halfClosedRemote
  | .closed _ => .closed

/-- the `Peer` sub-state of our sending half, where it exists -/
def localPeer (s : State) : Option Peer :=
  match s.inner with
  | .open l _ => some l
  | .halfClosedRemote p => some p
  | _ => none

/-- the `Peer` sub-state of the peer's sending half, where it exists -/
def remotePeer (s : State) : Option Peer :=
  match s.inner with
  | .open _ r => some r
  | .halfClosedLocal p => some p
  | _ => none

/-- full case split of a `State`: 3 + 4 + 2 + 2 + 4 shapes -/
macro "state_cases " s:ident : tactic =>
  `(tactic| rcases $s:ident with ⟨_ | _ | _ | ⟨_ | _, _ | _⟩ | ⟨_ | _⟩ | ⟨_ | _⟩ | ⟨_ | _ | _ | _⟩⟩)

-- ===================================================================== §1 refinement

-- --------------------------------------------------------------------- send_open

/-- core form: on success the model follows Figure 2 along `send H` -/
theorem sendOpen_refines' (s : State) (eos : Bool) (h : isOk (s.sendOpen eos).2 = true) :
    step (phase s) (.sendH eos) = some (phase (s.sendOpen eos).1) := by
  state_cases s <;> cases eos <;> simp_all [State.sendOpen, phase, step]

/-- **sendOpen_refines** -/
theorem sendOpen_refines {s s' : State} {eos : Bool} (h : s.sendOpen eos = (s', .ok ())) :
    step (phase s) (.sendH eos) = some (phase s') := by
  have := sendOpen_refines' s eos (by rw [h]; rfl)
  rwa [h] at this

/-- whenever the RFC forbids `send H`, `send_open` answers `UserError::UnexpectedFrameType` and
    leaves the state alone -/
theorem sendOpen_forbidden {s : State} {eos : Bool} (h : step (phase s) (.sendH eos) = none) :
    s.sendOpen eos = (s, .error .unexpectedFrameType) := by
  state_cases s <;> cases eos <;> simp_all [State.sendOpen, phase, step]

/-- any failure of `send_open` leaves the state unchanged and is `UnexpectedFrameType` -/
theorem sendOpen_error (s : State) (eos : Bool) (h : isOk (s.sendOpen eos).2 = false) :
    s.sendOpen eos = (s, .error .unexpectedFrameType) := by
  state_cases s <;> cases eos <;> simp_all [State.sendOpen]

/-- exactly when `send_open` fails: the RFC forbids `send H`, **or** (h2 stricter than Figure 2)
    our half is already `Streaming` -- a second header block is a trailer and must go through
    `send_close`, never `send_open` -/
theorem sendOpen_error_iff (s : State) (eos : Bool) :
    isOk (s.sendOpen eos).2 = false ↔
      step (phase s) (.sendH eos) = none ∨ localPeer s = some .streaming := by
  state_cases s <;> cases eos <;> simp [State.sendOpen, phase, step, localPeer]

/-- the exception, with the concrete states: `Open{local: Streaming, ..}` and
    `HalfClosedRemote(Streaming)` reject `send_open` although RFC 9113 lets an endpoint send
    HEADERS there -/
theorem sendOpen_stricter_than_rfc (rem : Peer) (eos : Bool) :
    (State.sendOpen ⟨.open .streaming rem⟩ eos = (⟨.open .streaming rem⟩, .error .unexpectedFrameType)
      ∧ step .open (.sendH eos) ≠ none)
    ∧ (State.sendOpen ⟨.halfClosedRemote .streaming⟩ eos
          = (⟨.halfClosedRemote .streaming⟩, .error .unexpectedFrameType)
      ∧ step .halfClosedRemote (.sendH eos) ≠ none) := by
  cases rem <;> cases eos <;> simp [State.sendOpen, step]

/-- after a successful `send_open` our half is `Streaming` or closed -/
theorem sendOpen_local_streaming {s s' : State} {eos : Bool} (h : s.sendOpen eos = (s', .ok ())) :
    if eos then s'.isSendClosed = true else localPeer s' = some .streaming := by
  have h1 : (s.sendOpen eos).1 = s' := by rw [h]
  have h2 : isOk (s.sendOpen eos).2 = true := by rw [h]; rfl
  subst h1
  state_cases s <;> cases eos <;> simp_all [State.sendOpen, State.isSendClosed, localPeer]

-- --------------------------------------------------------------------- recv_open

/-- `recv_open` succeeds exactly when the state `is_recv_headers` (whatever the flags) -/
theorem recvOpen_ok_iff (s : State) (eos info : Bool) :
    isOk (s.recvOpen eos info).2 = s.isRecvHeaders := by
  state_cases s <;> cases eos <;> cases info <;> simp [State.recvOpen, State.isRecvHeaders]

/-- core form, non-informational HEADERS -/
theorem recvOpen_refines' (s : State) (eos : Bool) (h : isOk (s.recvOpen eos false).2 = true) :
    step (phase s) (.recvH eos) = some (phase (s.recvOpen eos false).1) := by
  state_cases s <;> cases eos <;> simp_all [State.recvOpen, phase, step]

/-- **recvOpen_refines** (non-informational HEADERS) -/
theorem recvOpen_refines {s s' : State} {eos initial : Bool}
    (h : s.recvOpen eos false = (s', .ok initial)) :
    step (phase s) (.recvH eos) = some (phase s') := by
  have := recvOpen_refines' s eos (by rw [h]; rfl)
  rwa [h] at this

/-- the `Ok(initial)` payload: `true` iff these HEADERS are what opens the stream -/
theorem recvOpen_initial {s s' : State} {eos info initial : Bool}
    (h : s.recvOpen eos info = (s', .ok initial)) :
    initial = true ↔ (phase s = .idle ∨ phase s = .reservedRemote) := by
  have h2 : (s.recvOpen eos info).2 = .ok initial := by rw [h]
  state_cases s <;> cases eos <;> cases info <;> simp_all [State.recvOpen, phase]

/-- whenever the RFC forbids `recv H`, `recv_open` answers the connection error
    `GOAWAY(PROTOCOL_ERROR)` and leaves the state alone -/
theorem recvOpen_forbidden {s : State} {eos : Bool} (info : Bool)
    (h : step (phase s) (.recvH eos) = none) :
    s.recvOpen eos info = (s, .error (PErr.libraryGoAway PROTOCOL_ERROR)) := by
  state_cases s <;> cases eos <;> cases info <;> simp_all [State.recvOpen, phase, step]

/-- any failure of `recv_open` leaves the state unchanged and is `GOAWAY(PROTOCOL_ERROR)` -/
theorem recvOpen_error (s : State) (eos info : Bool) (h : isOk (s.recvOpen eos info).2 = false) :
    s.recvOpen eos info = (s, .error (PErr.libraryGoAway PROTOCOL_ERROR)) := by
  state_cases s <;> cases eos <;> cases info <;> simp_all [State.recvOpen]

/-- exactly when `recv_open` fails: the RFC forbids `recv H`, **or** (h2 stricter than Figure 2)
    the peer's half is already `Streaming` -- a second header block from the peer is a trailer and
    is routed to `recv_close` (`recv_trailers`), never to `recv_open` -/
theorem recvOpen_error_iff (s : State) (eos info : Bool) :
    isOk (s.recvOpen eos info).2 = false ↔
      step (phase s) (.recvH eos) = none ∨ remotePeer s = some .streaming := by
  state_cases s <;> cases eos <;> cases info <;> simp [State.recvOpen, phase, step, remotePeer]

/-- the exception, with the concrete states -/
theorem recvOpen_stricter_than_rfc (loc : Peer) (eos info : Bool) :
    (State.recvOpen ⟨.open loc .streaming⟩ eos info
        = (⟨.open loc .streaming⟩, .error (PErr.libraryGoAway PROTOCOL_ERROR))
      ∧ step .open (.recvH eos) ≠ none)
    ∧ (State.recvOpen ⟨.halfClosedLocal .streaming⟩ eos info
        = (⟨.halfClosedLocal .streaming⟩, .error (PErr.libraryGoAway PROTOCOL_ERROR))
      ∧ step .halfClosedLocal (.recvH eos) ≠ none) := by
  cases loc <;> cases eos <;> cases info <;> simp [State.recvOpen, step]

/-- informational (1xx) HEADERS **with** END_STREAM: the `informational` flag is ignored, the frame
    is handled exactly like a final header block with END_STREAM (so `recvOpen_refines` applies).
    RFC 9113 §8.1 calls such a frame malformed; `State::recv_open` does not look at that. -/
theorem recvOpen_informational_eos (s : State) (info : Bool) :
    s.recvOpen true info = s.recvOpen true false := by
  state_cases s <;> cases info <;> simp [State.recvOpen]

/-- informational (1xx) HEADERS without END_STREAM, exactly what the code does: on success the
    state is unchanged, except that an `Idle` stream becomes `Open{AwaitingHeaders, AwaitingHeaders}`
    (the peer's half keeps waiting for the final header block) -/
theorem recvOpen_informational {s s' : State} {initial : Bool}
    (h : s.recvOpen false true = (s', .ok initial)) :
    (s.inner = .idle ∧ s' = ⟨.open .awaitingHeaders .awaitingHeaders⟩) ∨ (s.inner ≠ .idle ∧ s' = s) := by
  have h1 : (s.recvOpen false true).1 = s' := by rw [h]
  have h2 : isOk (s.recvOpen false true).2 = true := by rw [h]; rfl
  subst h1
  state_cases s <;> simp_all [State.recvOpen]

/-- ... in terms of phases: unchanged, or idle → open -/
theorem recvOpen_informational_phase {s s' : State} {initial : Bool}
    (h : s.recvOpen false true = (s', .ok initial)) :
    (phase s = .idle ∧ phase s' = .open) ∨ (phase s ≠ .idle ∧ phase s' = phase s) := by
  rcases recvOpen_informational h with ⟨h1, h2⟩ | ⟨h1, h2⟩
  · left; simp [phase, h1, h2]
  · right; refine ⟨?_, by rw [h2]⟩
    state_cases s <;> simp_all [phase]

/-- after a 1xx the peer's half is still `AwaitingHeaders` (a final header block must follow) -/
theorem recvOpen_informational_still_awaiting {s s' : State} {initial : Bool}
    (h : s.recvOpen false true = (s', .ok initial)) : s'.isRecvHeaders = true := by
  have h1 : (s.recvOpen false true).1 = s' := by rw [h]
  have h2 : isOk (s.recvOpen false true).2 = true := by rw [h]; rfl
  subst h1
  state_cases s <;> simp_all [State.recvOpen, State.isRecvHeaders]

/-- after a successful non-informational `recv_open` the peer's half is `Streaming` or closed -/
theorem recvOpen_remote_streaming {s s' : State} {eos initial : Bool}
    (h : s.recvOpen eos false = (s', .ok initial)) :
    if eos then s'.isRecvEndStream = true else remotePeer s' = some .streaming := by
  have h1 : (s.recvOpen eos false).1 = s' := by rw [h]
  have h2 : isOk (s.recvOpen eos false).2 = true := by rw [h]; rfl
  subst h1
  state_cases s <;> cases eos <;> simp_all [State.recvOpen, State.isRecvEndStream, remotePeer]

-- --------------------------------------------------------------------- reserve_remote / reserve_local

/-- **reserveRemote_refines** -/
theorem reserveRemote_refines {s s' : State} (h : s.reserveRemote = (s', .ok ())) :
    step (phase s) .recvPP = some (phase s') := by
  have h1 : (s.reserveRemote).1 = s' := by rw [h]
  have h2 : isOk (s.reserveRemote).2 = true := by rw [h]; rfl
  subst h1
  state_cases s <;> simp_all [State.reserveRemote, phase, step]

theorem reserveRemote_forbidden {s : State} (h : step (phase s) .recvPP = none) :
    s.reserveRemote = (s, .error (PErr.libraryGoAway PROTOCOL_ERROR)) := by
  state_cases s <;> simp_all [State.reserveRemote, phase, step]

/-- `reserve_remote` is exactly as strict as the RFC -/
theorem reserveRemote_exact (s : State) :
    isOk (s.reserveRemote).2 = (step (phase s) .recvPP).isSome := by
  state_cases s <;> simp [State.reserveRemote, phase, step]

/-- **reserveLocal_refines** -/
theorem reserveLocal_refines {s s' : State} (h : s.reserveLocal = (s', .ok ())) :
    step (phase s) .sendPP = some (phase s') := by
  have h1 : (s.reserveLocal).1 = s' := by rw [h]
  have h2 : isOk (s.reserveLocal).2 = true := by rw [h]; rfl
  subst h1
  state_cases s <;> simp_all [State.reserveLocal, phase, step]

theorem reserveLocal_forbidden {s : State} (h : step (phase s) .sendPP = none) :
    s.reserveLocal = (s, .error .unexpectedFrameType) := by
  state_cases s <;> simp_all [State.reserveLocal, phase, step]

/-- `reserve_local` is exactly as strict as the RFC -/
theorem reserveLocal_exact (s : State) :
    isOk (s.reserveLocal).2 = (step (phase s) .sendPP).isSome := by
  state_cases s <;> simp [State.reserveLocal, phase, step]

-- --------------------------------------------------------------------- recv_close / send_close

/-- **recvClose_refines** -/
theorem recvClose_refines {s s' : State} (h : s.recvClose = (s', .ok ())) :
    step (phase s) .recvES = some (phase s') := by
  have h1 : (s.recvClose).1 = s' := by rw [h]
  have h2 : isOk (s.recvClose).2 = true := by rw [h]; rfl
  subst h1
  state_cases s <;> simp_all [State.recvClose, phase, step]

theorem recvClose_forbidden {s : State} (h : step (phase s) .recvES = none) :
    s.recvClose = (s, .error (PErr.libraryGoAway PROTOCOL_ERROR)) := by
  state_cases s <;> simp_all [State.recvClose, phase, step]

/-- `recv_close` is exactly as strict as the RFC (no exception in either direction) -/
theorem recvClose_exact (s : State) :
    isOk (s.recvClose).2 = (step (phase s) .recvES).isSome := by
  state_cases s <;> simp [State.recvClose, phase, step]

/-- **sendClose_refines** -/
theorem sendClose_refines {s s' : State} (h : s.sendClose = some s') :
    step (phase s) .sendES = some (phase s') := by
  state_cases s <;> simp_all [State.sendClose, phase, step] <;> subst h <;> rfl

/-- whenever the RFC forbids `send ES`, `send_close` is the `panic!` -/
theorem sendClose_forbidden {s : State} (h : step (phase s) .sendES = none) : s.sendClose = none := by
  state_cases s <;> simp_all [State.sendClose, phase, step]

/-- `send_close` is defined exactly where the RFC allows `send ES` -/
theorem sendClose_exact (s : State) : (s.sendClose).isSome = (step (phase s) .sendES).isSome := by
  state_cases s <;> simp [State.sendClose, phase, step]

-- --------------------------------------------------------------------- recv_reset / set_reset

/-- `recv_reset` always ends in `closed` -/
theorem recvReset_closed (s : State) (sid : Nat) (r : Reason) (q : Bool) :
    phase (s.recvReset sid r q) = .closed := by
  state_cases s <;> cases q <;> simp [State.recvReset, phase]

/-- **recvReset_refines**: for every stream that is not idle the model follows `recv R`
    (including the tolerated late RST_STREAM on a closed stream) -/
theorem recvReset_refines (s : State) (sid : Nat) (r : Reason) (q : Bool) (h : phase s ≠ .idle) :
    step (phase s) .recvR = some (phase (s.recvReset sid r q)) := by
  rw [recvReset_closed]
  state_cases s <;> simp_all [phase, step]

/-- the only phase in which the RFC forbids `recv R` is idle ... -/
theorem recvR_forbidden_iff (s : State) : step (phase s) .recvR = none ↔ s.inner = .idle := by
  state_cases s <;> simp [phase, step]

/-- ... and there (exception, h2 more lenient at this level) `State::recv_reset` does *not* refuse:
    it closes the idle stream with `Cause::Error(remote reset)`.  RFC 9113 §5.1 wants a connection
    error PROTOCOL_ERROR; in h2 that check is made by the caller on the stream id
    (`Streams::recv_reset`), not by the state machine. -/
theorem recvReset_idle_exception (sid : Nat) (r : Reason) (q : Bool) :
    step (phase ⟨.idle⟩) .recvR = none ∧
    State.recvReset ⟨.idle⟩ sid r q = ⟨.closed (.error (PErr.remoteReset sid r))⟩ := by
  cases q <;> simp [State.recvReset, State.isRecvEndStream, phase, step]

/-- the exact result of `recv_reset` -/
theorem recvReset_spec (s : State) (sid : Nat) (r : Reason) (q : Bool) :
    s.recvReset sid r q =
      if s.isClosed && !q then s
      else ⟨.closed (if s.isRecvEndStream then .errorAfterEndStream (PErr.remoteReset sid r)
                     else .error (PErr.remoteReset sid r))⟩ := by
  state_cases s <;> cases q <;> simp [State.recvReset, State.isClosed, State.isRecvEndStream]

/-- `set_reset` always ends in `closed`, with cause `Error(Reset(..))` -/
theorem setReset_spec (s : State) (sid : Nat) (r : Reason) (i : Initiator) :
    s.setReset sid r i = ⟨.closed (.error (.reset sid r i))⟩ := rfl

theorem setReset_closed (s : State) (sid : Nat) (r : Reason) (i : Initiator) :
    phase (s.setReset sid r i) = .closed := rfl

/-- **setReset_refines**: for every stream that is neither idle nor closed the model follows
    `send R` -/
theorem setReset_refines (s : State) (sid : Nat) (r : Reason) (i : Initiator)
    (hi : phase s ≠ .idle) (hc : phase s ≠ .closed) :
    step (phase s) .sendR = some (phase (s.setReset sid r i)) := by
  rw [setReset_closed]
  state_cases s <;> simp_all [phase, step]

/-- the RFC forbids `send R` exactly in idle (§6.4) and in closed (§5.1 "MUST NOT send frames other
    than PRIORITY on a closed stream") -/
theorem sendR_forbidden_iff (s : State) :
    step (phase s) .sendR = none ↔ (phase s = .idle ∨ phase s = .closed) := by
  state_cases s <;> simp [phase, step]

/-- forbidden case 1: a closed stream stays closed (but its `Cause` is overwritten, see
    `setReset_forgets_eos`) -/
theorem setReset_on_closed (s : State) (sid : Nat) (r : Reason) (i : Initiator)
    (_h : phase s = .closed) : phase (s.setReset sid r i) = .closed := rfl

/-- forbidden case 2 (exception, h2 more lenient at this level): `set_reset` closes an *idle*
    stream although "RST_STREAM frames MUST NOT be sent for a stream in the idle state" (§6.4).
    In h2 the guard is in the callers (`Send::send_reset` / `Streams::send_reset` look at
    `is_idle`/the stream id), not in the state machine. -/
theorem setReset_idle_exception (sid : Nat) (r : Reason) (i : Initiator) :
    step (phase ⟨.idle⟩) .sendR = none ∧
    State.setReset ⟨.idle⟩ sid r i = ⟨.closed (.error (.reset sid r i))⟩ := by
  simp [State.setReset, phase, step]

/-- `set_scheduled_reset`, `handle_error`, `recv_eof` are not events of Figure 2 (no frame crosses
    the wire at that moment); all of them end in `closed` -/
theorem setScheduledReset_closed (s : State) (r : Reason) :
    phase (s.setScheduledReset r) = .closed := rfl

theorem handleError_closed (s : State) (e : PErr) : phase (s.handleError e) = .closed := by
  state_cases s <;> simp [State.handleError, phase]

theorem recvEof_closed (s : State) : phase s.recvEof = .closed := by
  state_cases s <;> simp [State.recvEof, phase]

-- ===================================================================== §2 predicates

theorem isClosed_iff (s : State) : s.isClosed = true ↔ phase s = .closed := by
  state_cases s <;> simp [State.isClosed, phase]

theorem isIdle_iff (s : State) : s.isIdle = true ↔ phase s = .idle := by
  state_cases s <;> simp [State.isIdle, phase]

/-- `is_send_closed`: our half can no longer carry HEADERS/DATA.  (Figure 2: exactly the phases in
    which `send H` is forbidden.) -/
theorem isSendClosed_iff (s : State) :
    s.isSendClosed = true ↔
      (phase s = .closed ∨ phase s = .halfClosedLocal ∨ phase s = .reservedRemote) := by
  state_cases s <;> simp [State.isSendClosed, phase]

theorem isSendClosed_iff_sendH_forbidden (s : State) (eos : Bool) :
    s.isSendClosed = true ↔ step (phase s) (.sendH eos) = none := by
  state_cases s <;> cases eos <;> simp [State.isSendClosed, phase, step]

theorem isSendStreaming_iff (s : State) :
    s.isSendStreaming = true ↔
      ((phase s = .open ∨ phase s = .halfClosedRemote) ∧ localPeer s = some .streaming) := by
  state_cases s <;> simp [State.isSendStreaming, phase, localPeer]

/-- shorter: the local `Peer` exists only in the phases that can send -/
theorem isSendStreaming_iff' (s : State) :
    s.isSendStreaming = true ↔ localPeer s = some .streaming := by
  state_cases s <;> simp [State.isSendStreaming, localPeer]

theorem localPeer_isSome_iff (s : State) :
    (localPeer s).isSome = Spec.Lifecycle.canSend (phase s) := by
  state_cases s <;> simp [localPeer, phase, Spec.Lifecycle.canSend]

theorem remotePeer_isSome_iff (s : State) :
    (remotePeer s).isSome = Spec.Lifecycle.canRecv (phase s) := by
  state_cases s <;> simp [remotePeer, phase, Spec.Lifecycle.canRecv]

theorem isRecvStreaming_iff (s : State) :
    s.isRecvStreaming = true ↔
      ((phase s = .open ∨ phase s = .halfClosedLocal) ∧ remotePeer s = some .streaming) := by
  state_cases s <;> simp [State.isRecvStreaming, phase, remotePeer]

theorem isRecvStreaming_iff' (s : State) :
    s.isRecvStreaming = true ↔ remotePeer s = some .streaming := by
  state_cases s <;> simp [State.isRecvStreaming, remotePeer]

theorem isRecvHeaders_iff (s : State) :
    s.isRecvHeaders = true ↔
      (phase s = .idle ∨ phase s = .reservedRemote ∨
        ((phase s = .open ∨ phase s = .halfClosedLocal) ∧ remotePeer s = some .awaitingHeaders)) := by
  state_cases s <;> simp [State.isRecvHeaders, phase, remotePeer]

/-- `is_recv_headers` / `is_recv_streaming` / "`recv H` forbidden" partition the states -/
theorem recv_trichotomy (s : State) (eos : Bool) :
    (s.isRecvHeaders = true ∧ s.isRecvStreaming = false ∧ step (phase s) (.recvH eos) ≠ none) ∨
    (s.isRecvHeaders = false ∧ s.isRecvStreaming = true ∧ step (phase s) (.recvH eos) ≠ none) ∨
    (s.isRecvHeaders = false ∧ s.isRecvStreaming = false ∧ step (phase s) (.recvH eos) = none) := by
  state_cases s <;> cases eos <;> simp [State.isRecvHeaders, State.isRecvStreaming, phase, step]

theorem isRecvEndStream_iff (s : State) :
    s.isRecvEndStream = true ↔
      (phase s = .halfClosedRemote ∨ s.inner = .closed .endStream ∨
        ∃ e, s.inner = .closed (.errorAfterEndStream e)) := by
  state_cases s <;> simp [State.isRecvEndStream, phase]

/-- `ensure_recv_open = Ok(true)`: the peer may still send on this stream -/
theorem ensureRecvOpen_true_iff (s : State) :
    s.ensureRecvOpen = .ok true ↔
      (phase s = .idle ∨ phase s = .reservedRemote ∨ phase s = .open ∨ phase s = .halfClosedLocal) := by
  state_cases s <;> simp [State.ensureRecvOpen, phase]

/-- `ensure_recv_open = Ok(false)`: the receive half ended cleanly (END_STREAM), or the stream is
    `ReservedLocal` (a pushed stream never has a receive half) -/
theorem ensureRecvOpen_false_iff (s : State) :
    s.ensureRecvOpen = .ok false ↔ (s.isRecvEndStream = true ∨ phase s = .reservedLocal) := by
  state_cases s <;> simp [State.ensureRecvOpen, State.isRecvEndStream, phase]

/-- `ensure_recv_open = Err(e)`: the stream was closed by an error *before* END_STREAM arrived -/
theorem ensureRecvOpen_error_iff (s : State) (e : PErr) :
    s.ensureRecvOpen = .error e ↔
      (s.inner = .closed (.error e) ∨
        ∃ r, s.inner = .closed (.scheduledLibraryReset r) ∧ e = PErr.libraryGoAway r) := by
  state_cases s <;> simp [State.ensureRecvOpen] <;> exact eq_comm

/-- summary: `ensure_recv_open` is an error iff closed and `¬ is_recv_end_stream` -/
theorem ensureRecvOpen_isOk (s : State) :
    isOk s.ensureRecvOpen = (!s.isClosed || s.isRecvEndStream) := by
  state_cases s <;> simp [State.ensureRecvOpen, State.isClosed, State.isRecvEndStream]

theorem isReset_iff (s : State) :
    s.isReset = true ↔ (phase s = .closed ∧ s.inner ≠ .closed .endStream) := by
  state_cases s <;> simp [State.isReset, phase]

-- ===================================================================== §3 send_close panic

/-- **sendClose_none_iff**: the Rust `panic!("send_close: unexpected state")` is reached exactly
    outside `open` / `half-closed (remote)` -/
theorem sendClose_none_iff (s : State) :
    s.sendClose = none ↔ ¬ (phase s = .open ∨ phase s = .halfClosedRemote) := by
  state_cases s <;> simp [State.sendClose, phase]

/-- ... equivalently, exactly when there is no local `Peer` -/
theorem sendClose_none_iff_localPeer (s : State) : s.sendClose = none ↔ localPeer s = none := by
  state_cases s <;> simp [State.sendClose, localPeer]

/-- a sufficient guard that the callers can check: `is_send_streaming` -/
theorem sendClose_some_of_isSendStreaming (s : State) (h : s.isSendStreaming = true) :
    (s.sendClose).isSome = true := by
  state_cases s <;> simp_all [State.sendClose, State.isSendStreaming]

-- ===================================================================== §4 EOS is never forgotten

/-- **recvReset_preserves_eos** -/
theorem recvReset_preserves_eos (s : State) (sid : Nat) (r : Reason) (q : Bool)
    (h : s.isRecvEndStream = true) : (s.recvReset sid r q).isRecvEndStream = true := by
  state_cases s <;> cases q <;> simp_all [State.recvReset, State.isRecvEndStream]

/-- **handleError_preserves_eos** -/
theorem handleError_preserves_eos (s : State) (e : PErr)
    (h : s.isRecvEndStream = true) : (s.handleError e).isRecvEndStream = true := by
  state_cases s <;> simp_all [State.handleError, State.isRecvEndStream]

/-- **recvEof_preserves_eos** -/
theorem recvEof_preserves_eos (s : State) (h : s.isRecvEndStream = true) :
    s.recvEof.isRecvEndStream = true := by
  state_cases s <;> simp_all [State.recvEof, State.isRecvEndStream]

/-- and these three never *invent* an END_STREAM either -/
theorem recvReset_eos_iff (s : State) (sid : Nat) (r : Reason) (q : Bool) :
    (s.recvReset sid r q).isRecvEndStream = s.isRecvEndStream := by
  state_cases s <;> cases q <;> simp [State.recvReset, State.isRecvEndStream]

theorem handleError_eos_iff (s : State) (e : PErr) :
    (s.handleError e).isRecvEndStream = s.isRecvEndStream := by
  state_cases s <;> simp [State.handleError, State.isRecvEndStream]

theorem recvEof_eos_iff (s : State) : s.recvEof.isRecvEndStream = s.isRecvEndStream := by
  state_cases s <;> simp [State.recvEof, State.isRecvEndStream]

/-- the fallible transitions keep it too (they either fail, or move HCR → HCR/closed(EndStream)) -/
theorem sendOpen_preserves_eos (s : State) (eos : Bool) (h : s.isRecvEndStream = true) :
    (s.sendOpen eos).1.isRecvEndStream = true := by
  state_cases s <;> cases eos <;> simp_all [State.sendOpen, State.isRecvEndStream]

theorem sendClose_preserves_eos {s s' : State} (h : s.isRecvEndStream = true)
    (hs : s.sendClose = some s') : s'.isRecvEndStream = true := by
  state_cases s <;> simp_all [State.sendClose, State.isRecvEndStream] <;> subst hs <;> rfl

/-- **the two transitions that DO forget END_STREAM**: `set_reset` and `set_scheduled_reset`
    overwrite the cause unconditionally.  Concrete witness: `Closed(EndStream)` (or
    `HalfClosedRemote`, or `Closed(ErrorAfterEndStream)`) has `is_recv_end_stream`, after
    `set_reset` it has not, and `ensure_recv_open` flips from `Ok(false)` to `Err(..)`. -/
theorem setReset_forgets_eos (s : State) (sid : Nat) (r : Reason) (i : Initiator) :
    (s.setReset sid r i).isRecvEndStream = false := rfl

theorem setScheduledReset_forgets_eos (s : State) (r : Reason) :
    (s.setScheduledReset r).isRecvEndStream = false := rfl

example :
    (State.mk (.closed .endStream)).isRecvEndStream = true ∧
    (State.mk (.closed .endStream)).ensureRecvOpen = .ok false ∧
    ((State.mk (.closed .endStream)).setReset 1 CANCEL .user).isRecvEndStream = false ∧
    ((State.mk (.closed .endStream)).setReset 1 CANCEL .user).ensureRecvOpen
      = .error (.reset 1 CANCEL .user) := ⟨rfl, rfl, rfl, rfl⟩

/-- **closed_is_absorbing**: once `is_closed`, every transition except `recv_reset(.., queued =
    true)`, `set_reset`, `set_scheduled_reset` fails (where it can fail) and leaves the state
    untouched -/
theorem closed_is_absorbing (s : State) (h : s.isClosed = true) :
    (∀ eos, s.sendOpen eos = (s, .error .unexpectedFrameType)) ∧
    (∀ eos info, s.recvOpen eos info = (s, .error (PErr.libraryGoAway PROTOCOL_ERROR))) ∧
    s.reserveRemote = (s, .error (PErr.libraryGoAway PROTOCOL_ERROR)) ∧
    s.reserveLocal = (s, .error .unexpectedFrameType) ∧
    s.recvClose = (s, .error (PErr.libraryGoAway PROTOCOL_ERROR)) ∧
    s.sendClose = none ∧
    (∀ sid r, s.recvReset sid r false = s) ∧
    (∀ e, s.handleError e = s) ∧
    s.recvEof = s := by
  state_cases s <;>
    simp_all [State.isClosed, State.sendOpen, State.recvOpen, State.reserveRemote,
      State.reserveLocal, State.recvClose, State.sendClose, State.recvReset, State.handleError,
      State.recvEof]

/-- the three that can still change a closed state, and exactly how: only the `Cause` changes.
    `recv_reset(queued = true)` keeps the END_STREAM bit of the cause; the two local ones drop it. -/
theorem closed_still_changes (s : State) (_h : s.isClosed = true) :
    (∀ sid r, s.recvReset sid r true =
        ⟨.closed (if s.isRecvEndStream then .errorAfterEndStream (PErr.remoteReset sid r)
                  else .error (PErr.remoteReset sid r))⟩) ∧
    (∀ sid r i, s.setReset sid r i = ⟨.closed (.error (.reset sid r i))⟩) ∧
    (∀ r, s.setScheduledReset r = ⟨.closed (.scheduledLibraryReset r)⟩) := by
  refine ⟨fun sid r => ?_, fun _ _ _ => rfl, fun _ => rfl⟩
  rw [recvReset_spec]; simp

/-- consequence worth knowing: a late RST_STREAM from the peer, arriving while frames of the
    stream are still queued, erases a *scheduled library reset* (the state no longer
    `is_scheduled_reset`, the reason that was to be sent is gone) -/
example (r : Reason) (sid : Nat) (r' : Reason) :
    (State.mk (.closed (.scheduledLibraryReset r))).isScheduledReset = true ∧
    ((State.mk (.closed (.scheduledLibraryReset r))).recvReset sid r' true).isScheduledReset = false :=
  ⟨rfl, rfl⟩

/-- a closed state stays closed under every transition (phase level) -/
theorem closed_stays_closed (s : State) (h : phase s = .closed) :
    (∀ eos, phase (s.sendOpen eos).1 = .closed) ∧
    (∀ eos info, phase (s.recvOpen eos info).1 = .closed) ∧
    phase s.reserveRemote.1 = .closed ∧ phase s.reserveLocal.1 = .closed ∧
    phase s.recvClose.1 = .closed ∧
    (∀ sid r q, phase (s.recvReset sid r q) = .closed) ∧
    (∀ e, phase (s.handleError e) = .closed) ∧ phase s.recvEof = .closed ∧
    (∀ sid r i, phase (s.setReset sid r i) = .closed) ∧
    (∀ r, phase (s.setScheduledReset r) = .closed) := by
  have hc := (isClosed_iff s).2 h
  obtain ⟨a, b, c, d, e, -, -, -, -⟩ := closed_is_absorbing s hc
  refine ⟨fun eos => by rw [a]; exact h, fun eos info => by rw [b]; exact h, by rw [c]; exact h,
    by rw [d]; exact h, by rw [e]; exact h, fun _ _ _ => recvReset_closed .., fun _ => handleError_closed ..,
    recvEof_closed _, fun _ _ _ => rfl, fun _ => rfl⟩

-- ===================================================================== §5 reachability

/-- every transition of `State`, with its arguments -/
inductive Op where
  | sendOpen (eos : Bool)
  | recvOpen (eos informational : Bool)
  | reserveRemote
  | reserveLocal
  | recvClose
  | sendClose
  | recvReset (sid : Nat) (reason : Reason) (queued : Bool)
  | handleError (e : PErr)
  | recvEof
  | setReset (sid : Nat) (reason : Reason) (init : Initiator)
  | setScheduledReset (reason : Reason)
  deriving Repr, DecidableEq

/-- the state after the call, whatever it answered (a failing call leaves the state alone; the
    `send_close` panic has no successor, we keep `s`) -/
def Op.apply (s : State) : Op → State
  | .sendOpen eos => (s.sendOpen eos).1
  | .recvOpen eos info => (s.recvOpen eos info).1
  | .reserveRemote => s.reserveRemote.1
  | .reserveLocal => s.reserveLocal.1
  | .recvClose => s.recvClose.1
  | .sendClose => s.sendClose.getD s
  | .recvReset sid r q => s.recvReset sid r q
  | .handleError e => s.handleError e
  | .recvEof => s.recvEof
  | .setReset sid r i => s.setReset sid r i
  | .setScheduledReset r => s.setScheduledReset r

/-- reachable from `State::default()` by any events with any arguments -/
inductive Reachable : State → Prop where
  | init : Reachable {}
  | step {s : State} (op : Op) : Reachable s → Reachable (op.apply s)

def runOps (s : State) (ops : List Op) : State := ops.foldl Op.apply s

theorem reachable_runOps (ops : List Op) {s : State} (h : Reachable s) : Reachable (runOps s ops) := by
  induction ops generalizing s with
  | nil => exact h
  | cons op ops ih => exact ih (.step op h)

theorem reachable_iff_runOps (s : State) : Reachable s ↔ ∃ ops, s = runOps {} ops := by
  constructor
  · intro h
    induction h with
    | init => exact ⟨[], rfl⟩
    | step op _ ih =>
      obtain ⟨ops, rfl⟩ := ih
      exact ⟨ops ++ [op], by simp [runOps, List.foldl_append]⟩
  · rintro ⟨ops, rfl⟩; exact reachable_runOps ops .init

/-- **every** value of the type is reachable: the type `State` carries no hidden invariant, so a
    state-only well-formedness predicate would be vacuous.  (`handle_error` accepts an arbitrary
    `proto::Error`.)  The real invariants relate the state to its *history*; see `WF` below. -/
theorem reachable_all (s : State) : Reachable s := by
  rw [reachable_iff_runOps]
  state_cases s
  · exact ⟨[], rfl⟩
  · exact ⟨[.reserveLocal], rfl⟩
  · exact ⟨[.reserveRemote], rfl⟩
  · exact ⟨[.recvOpen false true], rfl⟩
  · exact ⟨[.recvOpen false false], rfl⟩
  · exact ⟨[.sendOpen false], rfl⟩
  · exact ⟨[.sendOpen false, .recvOpen false false], rfl⟩
  · exact ⟨[.sendOpen true], rfl⟩
  · exact ⟨[.sendOpen true, .recvOpen false false], rfl⟩
  · exact ⟨[.recvOpen true false], rfl⟩
  · exact ⟨[.reserveLocal, .sendOpen false], rfl⟩
  · exact ⟨[.sendOpen true, .recvClose], rfl⟩
  · next e => exact ⟨[.handleError e], rfl⟩
  · next e => exact ⟨[.recvOpen true false, .handleError e], rfl⟩
  · next r => exact ⟨[.setScheduledReset r], rfl⟩

/-- step-level well-formedness: a `Closed(ErrorAfterEndStream(_))` only ever comes out of a state
    that has `is_recv_end_stream` -/
theorem errorAfterEndStream_only_after_eos (s : State) (op : Op) (e : PErr)
    (h : (op.apply s).inner = .closed (.errorAfterEndStream e)) : s.isRecvEndStream = true := by
  cases op with
  | sendOpen eos =>
    state_cases s <;> cases eos <;> simp_all [Op.apply, State.sendOpen, State.isRecvEndStream]
  | recvOpen eos info =>
    state_cases s <;> cases eos <;> cases info <;>
      simp_all [Op.apply, State.recvOpen, State.isRecvEndStream]
  | reserveRemote => state_cases s <;> simp_all [Op.apply, State.reserveRemote, State.isRecvEndStream]
  | reserveLocal => state_cases s <;> simp_all [Op.apply, State.reserveLocal, State.isRecvEndStream]
  | recvClose => state_cases s <;> simp_all [Op.apply, State.recvClose, State.isRecvEndStream]
  | sendClose => state_cases s <;> simp_all [Op.apply, State.sendClose, State.isRecvEndStream]
  | recvReset sid r q =>
    state_cases s <;> cases q <;> simp_all [Op.apply, State.recvReset, State.isRecvEndStream]
  | handleError e' => state_cases s <;> simp_all [Op.apply, State.handleError, State.isRecvEndStream]
  | recvEof => state_cases s <;> simp_all [Op.apply, State.recvEof, State.isRecvEndStream]
  | setReset sid r i => simp [Op.apply, State.setReset] at h
  | setScheduledReset r => simp [Op.apply, State.setScheduledReset] at h

/-- conversely a plain `Closed(Error(_))` produced by `recv_reset`/`handle_error`/`recv_eof` out of
    a non-closed state means END_STREAM had *not* been received -/
theorem error_only_without_eos (s : State) (e : PErr) (hc : s.isClosed = false) :
    (∀ sid r q, (s.recvReset sid r q).inner = .closed (.error e) → s.isRecvEndStream = false) ∧
    ((s.handleError e).inner = .closed (.error e) → s.isRecvEndStream = false) ∧
    (s.recvEof.inner = .closed (.error e) → s.isRecvEndStream = false) := by
  state_cases s <;>
    simp_all [State.isClosed, State.recvReset, State.handleError, State.recvEof, State.isRecvEndStream]

/-- ghost history of one stream -/
structure Ghost where
  /-- an END_STREAM from the peer was accepted (`recv_open` with eos, or `recv_close`, returned Ok) -/
  eosRecv : Bool := false
  /-- `reserve_local` succeeded (we promised this stream; it never has a receive half) -/
  pushedLocal : Bool := false
  /-- `set_reset` or `set_scheduled_reset` was applied -/
  localReset : Bool := false
  deriving Repr, DecidableEq

def Op.ghost (s : State) (g : Ghost) : Op → Ghost
  | .recvOpen eos info => if eos && isOk (s.recvOpen eos info).2 then { g with eosRecv := true } else g
  | .recvClose => if isOk s.recvClose.2 then { g with eosRecv := true } else g
  | .reserveLocal => if isOk s.reserveLocal.2 then { g with pushedLocal := true } else g
  | .setReset .. => { g with localReset := true }
  | .setScheduledReset _ => { g with localReset := true }
  | _ => g

/-- reachability with the ghost history alongside -/
inductive ReachableG : State → Ghost → Prop where
  | init : ReachableG {} {}
  | step {s : State} {g : Ghost} (op : Op) : ReachableG s g → ReachableG (op.apply s) (op.ghost s g)

theorem ReachableG.reachable {s : State} {g : Ghost} (h : ReachableG s g) : Reachable s := by
  induction h with
  | init => exact .init
  | step op _ ih => exact .step op ih

theorem Reachable.withGhost {s : State} (h : Reachable s) : ∃ g, ReachableG s g := by
  induction h with
  | init => exact ⟨{}, .init⟩
  | step op _ ih => obtain ⟨g, hg⟩ := ih; exact ⟨_, .step op hg⟩

/-- the well-formedness of a state w.r.t. its history -/
structure WF (s : State) (g : Ghost) : Prop where
  /-- `is_recv_end_stream` is never invented: either the peer's END_STREAM was accepted, or the
      stream was pushed by us (no receive half at all) -/
  eos_sound : s.isRecvEndStream = true → (g.eosRecv = true ∨ g.pushedLocal = true)
  /-- an accepted END_STREAM is never forgotten, unless a *local* reset overwrote the cause -/
  eos_kept : g.eosRecv = true → g.localReset = false → s.isRecvEndStream = true
  /-- `ReservedLocal` only via `reserve_local` -/
  reserved_pushed : s.inner = .reservedLocal → g.pushedLocal = true
  /-- a pushed stream is `ReservedLocal`, or `is_recv_end_stream` (implicitly half-closed
      (remote)), or closed -/
  pushed_shape : g.pushedLocal = true →
    (s.inner = .reservedLocal ∨ s.isRecvEndStream = true ∨ s.isClosed = true)
  /-- a pushed stream never accepts an END_STREAM from the peer -/
  pushed_no_eos : g.pushedLocal = true → g.eosRecv = false
  /-- after a local reset the stream is closed -/
  reset_closed : g.localReset = true → s.isClosed = true
  /-- after an accepted END_STREAM the receive half is over for good -/
  eos_done : g.eosRecv = true → (s.isRecvEndStream = true ∨ s.isClosed = true)
  /-- an idle stream has no history -/
  idle_fresh : s.inner = .idle → g = {}

theorem WF.init : WF {} {} := by
  constructor <;> simp [State.isRecvEndStream, State.isClosed]

/-- the simp set that evaluates one transition on a concrete state shape -/
macro "wf_step " f:ident : tactic =>
  `(tactic| first
    | assumption
    | (rename_i h
       obtain ⟨h1, h2, h3, h4, h5, h6, h7, h8⟩ := h
       constructor <;>
         simp_all [Op.apply, Op.ghost, $f:ident, State.isRecvEndStream, State.isClosed]))

theorem WF.step {s : State} {g : Ghost} (op : Op) (h : WF s g) : WF (op.apply s) (op.ghost s g) := by
  rcases g with ⟨a, b, c⟩
  cases op with
  | sendOpen eos => state_cases s <;> cases eos <;> wf_step State.sendOpen
  | recvOpen eos info => state_cases s <;> cases eos <;> cases info <;> wf_step State.recvOpen
  | reserveRemote => state_cases s <;> wf_step State.reserveRemote
  | reserveLocal => state_cases s <;> wf_step State.reserveLocal
  | recvClose => state_cases s <;> wf_step State.recvClose
  | sendClose => state_cases s <;> wf_step State.sendClose
  | recvReset sid r q => state_cases s <;> cases q <;> wf_step State.recvReset
  | handleError e' => state_cases s <;> wf_step State.handleError
  | recvEof => state_cases s <;> wf_step State.recvEof
  | setReset sid r i => state_cases s <;> wf_step State.setReset
  | setScheduledReset r => state_cases s <;> wf_step State.setScheduledReset

/-- **reachable_states**: every reachable (state, history) pair is well-formed -/
theorem reachable_states {s : State} {g : Ghost} (h : ReachableG s g) : WF s g := by
  induction h with
  | init => exact WF.init
  | step op _ ih => exact WF.step op ih

/-- corollary: a reachable `Closed(ErrorAfterEndStream(_))` has a real END_STREAM (or a push) in
    its history -/
theorem reachable_errorAfterEndStream {s : State} {g : Ghost} (h : ReachableG s g) (e : PErr)
    (hs : s.inner = .closed (.errorAfterEndStream e)) : g.eosRecv = true ∨ g.pushedLocal = true :=
  (reachable_states h).eos_sound (by rcases s with ⟨i⟩; subst hs; rfl)

/-- corollary: END_STREAM from the peer is accepted at most once per stream -/
theorem eos_accepted_at_most_once {s : State} {g : Ghost} (h : ReachableG s g)
    (hg : g.eosRecv = true) :
    (∀ eos info, isOk (s.recvOpen eos info).2 = false) ∧ isOk s.recvClose.2 = false := by
  have := (reachable_states h).eos_done hg
  state_cases s <;> simp_all [State.isRecvEndStream, State.isClosed, State.recvOpen, State.recvClose]

/-- corollary: as long as no local reset happened, an error that closes the stream after the
    peer's END_STREAM is recorded as `ErrorAfterEndStream` / the stream reads as cleanly ended:
    `ensure_recv_open` never turns into `Err` -/
theorem eos_then_ensureRecvOpen_ok {s : State} {g : Ghost} (h : ReachableG s g)
    (hg : g.eosRecv = true) (hr : g.localReset = false) : s.ensureRecvOpen = .ok false :=
  (ensureRecvOpen_false_iff s).2 (.inl ((reachable_states h).eos_kept hg hr))

-- ===================================================================== §6 the refinement in one statement

/-- the Figure-2 event an operation stands for.  `none`: no frame of Figure 2 crosses the wire
    (`handle_error`, `recv_eof`, `set_scheduled_reset`), or the frame is a 1xx HEADERS without
    END_STREAM (not an `H` of the figure).  A 1xx *with* END_STREAM is treated by the code as a final
    header block (`recvOpen_informational_eos`). -/
def Op.ev : Op → Option Ev
  | .sendOpen eos => some (.sendH eos)
  | .recvOpen true _ => some (.recvH true)
  | .recvOpen false false => some (.recvH false)
  | .recvOpen false true => none
  | .reserveRemote => some .recvPP
  | .reserveLocal => some .sendPP
  | .recvClose => some .recvES
  | .sendClose => some .sendES
  | .recvReset .. => some .recvR
  | .setReset .. => some .sendR
  | .handleError _ | .recvEof | .setScheduledReset _ => none

/-- the call answered `Ok` / did not panic (the infallible ones always "succeed") -/
def Op.succeeds (s : State) : Op → Bool
  | .sendOpen eos => isOk (s.sendOpen eos).2
  | .recvOpen eos info => isOk (s.recvOpen eos info).2
  | .reserveRemote => isOk s.reserveRemote.2
  | .reserveLocal => isOk s.reserveLocal.2
  | .recvClose => isOk s.recvClose.2
  | .sendClose => s.sendClose.isSome
  | _ => true

/-- the complete list of places where `State` accepts what Figure 2 forbids:
    `recv_reset` on an idle stream, `set_reset` on an idle or closed stream -/
def Op.lenient (s : State) : Op → Bool
  | .recvReset .. => s.isIdle
  | .setReset .. => s.isIdle || s.isClosed
  | _ => false

/-- a failing call never changes the state -/
theorem op_fail_unchanged (s : State) (op : Op) (h : op.succeeds s = false) : op.apply s = s := by
  cases op with
  | sendOpen eos => state_cases s <;> cases eos <;> simp_all [Op.apply, Op.succeeds, State.sendOpen]
  | recvOpen eos info =>
    state_cases s <;> cases eos <;> cases info <;> simp_all [Op.apply, Op.succeeds, State.recvOpen]
  | reserveRemote => state_cases s <;> simp_all [Op.apply, Op.succeeds, State.reserveRemote]
  | reserveLocal => state_cases s <;> simp_all [Op.apply, Op.succeeds, State.reserveLocal]
  | recvClose => state_cases s <;> simp_all [Op.apply, Op.succeeds, State.recvClose]
  | sendClose => state_cases s <;> simp_all [Op.apply, Op.succeeds, State.sendClose]
  | recvReset sid r q => simp [Op.succeeds] at h
  | handleError e => simp [Op.succeeds] at h
  | recvEof => simp [Op.succeeds] at h
  | setReset sid r i => simp [Op.succeeds] at h
  | setScheduledReset r => simp [Op.succeeds] at h

/-- **op_refines**: every successful operation that stands for a Figure-2 event, outside the three
    lenient spots, is a legal RFC 9113 transition between the abstracted states -/
theorem op_refines (s : State) (op : Op) (ev : Ev) (hev : op.ev = some ev)
    (hok : op.succeeds s = true) (hl : op.lenient s = false) :
    step (phase s) ev = some (phase (op.apply s)) := by
  cases op with
  | sendOpen eos =>
    simp only [Op.ev, Option.some.injEq] at hev; subst hev
    exact sendOpen_refines' s eos hok
  | recvOpen eos info =>
    cases eos <;> cases info <;> simp only [Op.ev, Option.some.injEq, reduceCtorEq] at hev <;> subst hev
    · exact recvOpen_refines' s false hok
    · exact recvOpen_refines' s true hok
    · simp only [Op.succeeds, Op.apply] at hok ⊢
      rw [recvOpen_informational_eos] at hok ⊢
      exact recvOpen_refines' s true hok
  | reserveRemote =>
    simp only [Op.ev, Option.some.injEq] at hev; subst hev
    state_cases s <;> simp_all [Op.apply, Op.succeeds, State.reserveRemote, phase, step]
  | reserveLocal =>
    simp only [Op.ev, Option.some.injEq] at hev; subst hev
    state_cases s <;> simp_all [Op.apply, Op.succeeds, State.reserveLocal, phase, step]
  | recvClose =>
    simp only [Op.ev, Option.some.injEq] at hev; subst hev
    state_cases s <;> simp_all [Op.apply, Op.succeeds, State.recvClose, phase, step]
  | sendClose =>
    simp only [Op.ev, Option.some.injEq] at hev; subst hev
    state_cases s <;> simp_all [Op.apply, Op.succeeds, State.sendClose, phase, step]
  | recvReset sid r q =>
    simp only [Op.ev, Option.some.injEq] at hev; subst hev
    have : phase s ≠ .idle := by
      intro hp; rw [← isIdle_iff] at hp; simp [Op.lenient, hp] at hl
    exact recvReset_refines s sid r q this
  | setReset sid r i =>
    simp only [Op.ev, Option.some.injEq] at hev; subst hev
    simp only [Op.lenient, Bool.or_eq_false_iff] at hl
    have h1 : phase s ≠ .idle := by
      intro hp; rw [← isIdle_iff] at hp; simp [hp] at hl
    have h2 : phase s ≠ .closed := by
      intro hp; rw [← isClosed_iff] at hp; simp [hp] at hl
    exact setReset_refines s sid r i h1 h2
  | handleError e => simp [Op.ev] at hev
  | recvEof => simp [Op.ev] at hev
  | setScheduledReset r => simp [Op.ev] at hev

/-- **op_forbidden**: when the RFC forbids the event, the operation fails (state unchanged, see
    `op_fail_unchanged`) -- or it is one of the three lenient spots -/
theorem op_forbidden (s : State) (op : Op) (ev : Ev) (hev : op.ev = some ev)
    (h : step (phase s) ev = none) : op.succeeds s = false ∨ op.lenient s = true := by
  cases hs : op.succeeds s
  · exact .inl rfl
  · right
    cases hl : op.lenient s
    · have := op_refines s op ev hev hs hl
      rw [h] at this; cases this
    · rfl

/-- a 1xx HEADERS without END_STREAM is a stutter step of the life cycle, except on an idle stream
    (which it opens) -/
theorem op_interim_stutter (s : State) (hok : (Op.recvOpen false true).succeeds s = true)
    (hi : s.isIdle = false) : (Op.recvOpen false true).apply s = s := by
  state_cases s <;> simp_all [Op.apply, Op.succeeds, State.recvOpen, State.isIdle]

/-- a history made of successful Figure-2 operations outside the lenient spots -/
def Legal (s : State) : List Op → Prop
  | [] => True
  | op :: ops => (op.ev).isSome = true ∧ op.succeeds s = true ∧ op.lenient s = false ∧ Legal (op.apply s) ops

/-- **trace_refines**: along such a history the abstracted state follows `Spec.Lifecycle.steps`
    on the corresponding event sequence; in particular that event sequence is RFC-legal -/
theorem trace_refines (s : State) (ops : List Op) (h : Legal s ops) :
    Spec.Lifecycle.steps (phase s) (ops.filterMap Op.ev) = some (phase (runOps s ops)) := by
  induction ops generalizing s with
  | nil => rfl
  | cons op ops ih =>
    obtain ⟨h1, h2, h3, h4⟩ := h
    obtain ⟨ev, hev⟩ := Option.isSome_iff_exists.1 h1
    have hstep := op_refines s op ev hev h2 h3
    simp only [List.filterMap_cons, hev, Spec.Lifecycle.steps, hstep, Option.bind_some]
    exact ih _ h4

end H2V.Lemmas.Comp
