import Lean
import H2V.Lemmas.ConnResetPState
/-
  ConnResetP — `Evolves (SRel D) RInv` for the operations of prioritize.rs / send.rs that touch the state
  or the `pending_send` deque of a stream (everything else is in ConnResetPFrame).
-/
set_option linter.unusedSectionVars false
namespace H2V.Lemmas.ConnResetP
open H2V H2V.Model H2V.Model.Conn
variable {D : Nat → Prop}

set_option allowUnsafeReducibility true in
attribute [local reducible] Streams.stream Store.getD'

section
variable {a : Store} {s : Streams}

/-- a queue change that obviously adds no RST_STREAM -/
macro_rules
  | `(tactic| ev_step) =>
    `(tactic| (with_reducible refine Evolves.mod_queue' ?_ _ _ (fun _ => rfl) (fun _ => rfl) (fun _ => rfl) (fun _ => rfl) ?hq;
               case hq => (intro _; simp [isResetFrame, resetCount_drop_le]; done)))

theorem clearQueue_sr (h : Evolves (SRel D) RInv a s.store) (id : Nat) : Evolves (SRel D) RInv a (s.clearQueue id).store := by
  unfold Streams.clearQueue; ev
macro_rules | `(tactic| ev_step) => `(tactic| with_reducible apply clearQueue_sr)

/-- `queue_frame` of anything but an RST_STREAM -/
theorem queueFrame_sr (h : Evolves (SRel D) RInv a s.store) (id : Nat) (f : SFrame) (hf : isResetFrame f = false) :
    Evolves (SRel D) RInv a (s.queueFrame id f).store := by
  unfold Streams.queueFrame
  ev
  refine Evolves.mod_queue' h _ _ (fun _ => rfl) (fun _ => rfl) (fun _ => rfl) (fun _ => rfl) (fun _ => by simp [hf])
macro_rules | `(tactic| ev_step) => `(tactic| (with_reducible refine queueFrame_sr ?_ _ _ rfl))

/-- closes `StateStep id st (f st)` for the transition functions of state.rs -/
syntax "state_step_tac" : tactic
macro_rules
  | `(tactic| state_step_tac) =>
    `(tactic| with_reducible first
      | exact StateStep.same
      | exact step_sendOpen _ _ _ | exact step_recvOpen _ _ _ _ | exact step_reserveRemote _ _
      | exact step_reserveLocal _ _ | exact step_recvClose _ _ | exact step_sendClose _ _ (by assumption)
      | exact step_recvReset _ _ _ _ | exact step_handleError _ _ _ | exact step_recvEof _ _)

/-- a state step of one entry, computed from the entry itself -/
macro_rules
  | `(tactic| ev_step) =>
    `(tactic| (with_reducible refine Evolves.mod_state ?_ _ _ (fun _ => rfl) (fun _ => rfl) (fun _ => rfl) (fun _ => rfl) ?hs;
               case hs => state_step_tac))

theorem Evolves.mod_setReset_scheduled {S : Store} (h : Evolves (SRel D) RInv a S) (id : Nat) (r : Reason) (i : Initiator)
    (hs : (Store.getD' S id).state.isScheduledReset = true) :
    Evolves (SRel D) RInv a (Store.mod S id (fun st => (st.setReset r i).1)) := by
  refine h.mod _ _ (fun st hg => ?_)
  rw [Store.getD'_of_get? hg] at hs
  exact SRel.setReset_scheduled st r i hs

theorem isScheduledReset_of_get {x : State} {r : Reason} (h : x.getScheduledReset = some r) : x.isScheduledReset = true := by
  unfold State.isScheduledReset; rw [h]; rfl

theorem sendHeaders_sr (h : Evolves (SRel D) RInv a s.store) (id : Nat) (eos : Bool) (f : List Hpack.Field) :
    Evolves (SRel D) RInv a (s.sendHeaders id eos f).1.store := by
  unfold Streams.sendHeaders; ev
macro_rules | `(tactic| ev_step) => `(tactic| with_reducible apply sendHeaders_sr)

theorem sendPushPromise_sr (h : Evolves (SRel D) RInv a s.store) (p k i : Nat) (f : List Hpack.Field) :
    Evolves (SRel D) RInv a (s.sendPushPromise p k i f).1.store := by
  unfold Streams.sendPushPromise; ev
macro_rules | `(tactic| ev_step) => `(tactic| with_reducible apply sendPushPromise_sr)

theorem sendInterimInformationalHeaders_sr (h : Evolves (SRel D) RInv a s.store) (id : Nat) (f : List Hpack.Field) :
    Evolves (SRel D) RInv a (s.sendInterimInformationalHeaders id f).1.store := by
  unfold Streams.sendInterimInformationalHeaders; ev
macro_rules | `(tactic| ev_step) => `(tactic| with_reducible apply sendInterimInformationalHeaders_sr)

theorem prioSendData_sr (h : Evolves (SRel D) RInv a s.store) (id len : Nat) (eos : Bool) :
    Evolves (SRel D) RInv a (s.prioSendData id len eos).1.store := by
  unfold Streams.prioSendData; ev
macro_rules | `(tactic| ev_step) => `(tactic| with_reducible apply prioSendData_sr)

theorem sendTrailers_sr (h : Evolves (SRel D) RInv a s.store) (id : Nat) (f : List Hpack.Field) :
    Evolves (SRel D) RInv a (s.sendTrailers id f).1.store := by
  unfold Streams.sendTrailers; ev
macro_rules | `(tactic| ev_step) => `(tactic| with_reducible apply sendTrailers_sr)

theorem scheduleImplicitReset_sr (h : Evolves (SRel D) RInv a s.store) (id : Nat) (r : Reason) :
    Evolves (SRel D) RInv a (s.scheduleImplicitReset id r).store := by
  unfold Streams.scheduleImplicitReset
  split
  · exact h
  · next hc =>
    have h1 : Evolves (SRel D) RInv a (s.modStream id fun st => { st with state := st.state.setScheduledReset r }).store := by
      simp only [crp_store]
      refine h.mod _ _ (fun st hg => ?_)
      rw [stream_eq, Store.getD'_of_get? hg] at hc
      exact SRel.state_step rfl rfl rfl rfl (step_setScheduledReset _ _ _ (by simpa using hc))
    ev
macro_rules | `(tactic| ev_step) => `(tactic| with_reducible apply scheduleImplicitReset_sr)

theorem clearPendingSend_sr (fuel : Nat) (h : Evolves (SRel D) RInv a s.store) :
    Evolves (SRel D) RInv a (Streams.clearPendingSend fuel s).store := by
  induction fuel generalizing s with
  | zero => unfold Streams.clearPendingSend; exact h
  | succ n ih =>
    unfold Streams.clearPendingSend
    split
    · ev
    · next s1 id heq =>
      subst_fst
      dsimp only
      apply ih
      apply transitionAfter_ev
      split
      · next r hr =>
        simp only [crp_store]
        exact Evolves.mod_setReset_scheduled (by ev) _ _ _ (isScheduledReset_of_get hr)
      · ev
macro_rules | `(tactic| ev_step) => `(tactic| with_reducible apply clearPendingSend_sr)

theorem sendHandleError_sr (h : Evolves (SRel D) RInv a s.store) (id : Nat) :
    Evolves (SRel D) RInv a (s.sendHandleError id).store := by
  unfold Streams.sendHandleError
  dsimp only
  split
  · split
    · next r hr =>
      simp only [crp_store]
      exact Evolves.mod_setReset_scheduled (by ev) _ _ _ (isScheduledReset_of_get hr)
    · ev
  · ev
macro_rules | `(tactic| ev_step) => `(tactic| with_reducible apply sendHandleError_sr)

theorem sendClearQueues_sr (h : Evolves (SRel D) RInv a s.store) : Evolves (SRel D) RInv a s.sendClearQueues.store := by
  unfold Streams.sendClearQueues; ev
macro_rules | `(tactic| ev_step) => `(tactic| with_reducible apply sendClearQueues_sr)


-- ===================================================================== send_reset

theorem clearQueue_store (s : Streams) (id : Nat) :
    (s.clearQueue id).store =
      Store.mod s.store id (fun st => { st with pendingSend := [], bufferedSendData := 0, requestedSendCapacity := 0 }) := by
  unfold Streams.clearQueue
  extract_lets s1
  split
  · split <;> simp [s1]
  · simp [s1]

theorem queueFrame_store (s : Streams) (id : Nat) (f : SFrame) :
    ∃ g : Stream → Stream, ((∀ x, g x = x) ∨ (∀ x, g x = x.setQueued .pendingSend true)) ∧
      (s.queueFrame id f).store = Store.mod s.store id (fun st => g { st with pendingSend := st.pendingSend ++ [f] }) := by
  unfold Streams.queueFrame Streams.scheduleSend
  split
  · simp only [crp_store, qPush_store]
    split
    · exact ⟨fun x => x, .inl fun _ => rfl, by simp⟩
    · refine ⟨fun x => x.setQueued .pendingSend true, .inr fun _ => rfl, ?_⟩
      rw [Store.mod_mod _ _ _ _ (by intro; rfl) (by intro x; exact setQueued_key x _ _)]
  · exact ⟨fun x => x, .inl fun _ => rfl, by simp⟩


/-- everything but the state and the four task slots -/
structure SameButTasks (a b : Stream) : Prop where
  key : b.key = a.key
  id : b.id = a.id
  pendingSend : b.pendingSend = a.pendingSend
  bufferedSendData : b.bufferedSendData = a.bufferedSendData
  requestedSendCapacity : b.requestedSendCapacity = a.requestedSendCapacity
  isPendingOpen : b.isPendingOpen = a.isPendingOpen
  isPendingPush : b.isPendingPush = a.isPendingPush
  isPendingSend : b.isPendingSend = a.isPendingSend
  refCount : b.refCount = a.refCount
  sendFlow : b.sendFlow = a.sendFlow
  isPendingSendCapacity : b.isPendingSendCapacity = a.isPendingSendCapacity
  resetAt : b.resetAt = a.resetAt
  isCounted : b.isCounted = a.isCounted

theorem sameButTasks_notifySend (st : Stream) : SameButTasks st st.notifySend.1 := by
  unfold Stream.notifySend
  cases h1 : st.sendTask <;> dsimp only <;> split <;> constructor <;> rfl
theorem sameButTasks_notifyRecv (st : Stream) : SameButTasks st st.notifyRecv.1 := by
  unfold Stream.notifyRecv; split <;> constructor <;> rfl
theorem sameButTasks_notifyPush (st : Stream) : SameButTasks st st.notifyPush.1 := by
  unfold Stream.notifyPush; split <;> constructor <;> rfl
theorem SameButTasks.trans {a b c : Stream} (h1 : SameButTasks a b) (h2 : SameButTasks b c) : SameButTasks a c := by
  constructor
  all_goals first
    | exact h2.key.trans h1.key | exact h2.id.trans h1.id | exact h2.pendingSend.trans h1.pendingSend
    | exact h2.bufferedSendData.trans h1.bufferedSendData | exact h2.requestedSendCapacity.trans h1.requestedSendCapacity
    | exact h2.isPendingOpen.trans h1.isPendingOpen | exact h2.isPendingPush.trans h1.isPendingPush
    | exact h2.isPendingSend.trans h1.isPendingSend | exact h2.refCount.trans h1.refCount
    | exact h2.sendFlow.trans h1.sendFlow | exact h2.isPendingSendCapacity.trans h1.isPendingSendCapacity
    | exact h2.resetAt.trans h1.resetAt | exact h2.isCounted.trans h1.isCounted

theorem sameButTasks_setReset (st : Stream) (r : Reason) (i : Initiator) : SameButTasks st (st.setReset r i).1 := by
  have h0 : SameButTasks st { st with state := st.state.setReset st.id r i } := by constructor <;> rfl
  have h1 := sameButTasks_notifySend { st with state := st.state.setReset st.id r i }
  have h2 := sameButTasks_notifyPush ({ st with state := st.state.setReset st.id r i }).notifySend.1
  have h3 := sameButTasks_notifyRecv (({ st with state := st.state.setReset st.id r i }).notifySend.1).notifyPush.1
  exact ((h0.trans h1).trans h2).trans h3


theorem Store.getD'_mod {S : Store} {id : Nat} {st : Stream} (f : Stream → Stream) (hf : ∀ x, (f x).key = x.key)
    (h : S.get? id = some st) : Store.getD' (Store.mod S id f) id = f st := by
  unfold Store.getD'
  rw [Store.get?_mod' _ _ _ hf, if_pos rfl, h]; rfl

/-- what `send_reset` makes of the stream it resets -/
structure ResetSpec (st y : Stream) (r : Reason) (i : Initiator) : Prop where
  key : y.key = st.key
  id : y.id = st.id
  state : y.state = st.state.setReset st.id r i
  pendingSend : y.pendingSend = (if st.isPendingOpen then st.pendingSend.head?.toList else []) ++ [.reset r]
  bufferedSendData : y.bufferedSendData = 0
  requestedSendCapacity : y.requestedSendCapacity = 0
  isPendingOpen : y.isPendingOpen = st.isPendingOpen
  isPendingPush : y.isPendingPush = st.isPendingPush
  refCount : y.refCount = st.refCount
  sendFlow : y.sendFlow = st.sendFlow

/-- the part of `send_reset` before `reclaim_all_capacity`, on a stream that is not reset yet and has
    something unsent (or is not closed) -/
def sendResetPre (s : Streams) (id : Nat) (reason : Reason) (init : Initiator) : Streams :=
  let s := s.modStreamW id fun st => st.setReset reason init
  let s :=
    if (s.stream id).isPendingOpen then
      let headers := (s.stream id).pendingSend.head?
      let s := s.modStream id fun st => { st with pendingSend := st.pendingSend.drop 1 }
      let s := s.clearQueue id
      match headers with
      | some f => s.modStream id fun st => { st with pendingSend := st.pendingSend ++ [f] }
      | none => s
    else s.clearQueue id
  s.queueFrame id (.reset reason)

theorem sendSendReset_eq (s : Streams) (id : Nat) (r : Reason) (i : Initiator)
    (hr : (s.stream id).state.isReset = false)
    (hne : ((s.stream id).state.isClosed && ((s.stream id).pendingSend.isEmpty && (s.stream id).bufferedSendData == 0)) = false) :
    s.sendSendReset id r i = (sendResetPre s id r i).reclaimAllCapacity id := by
  unfold Streams.sendSendReset sendResetPre
  simp only [hr, hne, Bool.false_eq_true, if_false]
  rfl

theorem resetSpec_close (st : Stream) (r : Reason) (i : Initiator) (g : Stream → Stream) (L : List SFrame)
    (hg : (∀ x, g x = x) ∨ (∀ x, g x = x.setQueued .pendingSend true))
    (hL : L = if st.isPendingOpen then st.pendingSend.head?.toList else []) :
    ResetSpec st (g { ({ (st.setReset r i).1 with pendingSend := L, bufferedSendData := 0, requestedSendCapacity := 0 } : Stream)
      with pendingSend := L ++ [SFrame.reset r] }) r i := by
  have sb := sameButTasks_setReset st r i
  have hs := setReset_state st r i
  subst hL
  rcases hg with hg | hg <;> rw [hg] <;> constructor <;>
    first | exact sb.key | exact sb.id | exact hs | rfl | exact sb.isPendingOpen | exact sb.isPendingPush
          | exact sb.refCount | exact sb.sendFlow

theorem sendResetPre_store (s : Streams) (id : Nat) (r : Reason) (i : Initiator) :
    ∃ G : Stream → Stream, (sendResetPre s id r i).store = Store.mod s.store id G ∧ (∀ x, (G x).key = x.key) ∧
      ∀ st, s.store.get? id = some st → ResetSpec st (G st) r i := by
  unfold sendResetPre
  extract_lets s1 headers sA sB s2
  have hs1 : s1.store = Store.mod s.store id (fun st => (st.setReset r i).1) := by simp [s1]
  have hk1 : ∀ x : Stream, (x.setReset r i).1.key = x.key := fun x => setReset_key x r i
  have h1 : ∀ st, s.store.get? id = some st → s1.stream id = (st.setReset r i).1 := by
    intro st hg; rw [stream_eq, hs1]; exact Store.getD'_mod _ hk1 hg
  obtain ⟨g, hg1, hg2⟩ := queueFrame_store s2 id (.reset r)
  have hgk : ∀ x, (g x).key = x.key := by
    intro x; rcases hg1 with h | h <;> rw [h]; exact setQueued_key _ _ _
  rw [hg2]
  -- the store of `s2` in every case: the reset stream with the queue `L`
  have key : ∀ L : List SFrame,
      s2.store = Store.mod s.store id (fun st =>
        ({ (st.setReset r i).1 with pendingSend := L, bufferedSendData := 0, requestedSendCapacity := 0 } : Stream)) →
      (∀ st, s.store.get? id = some st → L = if st.isPendingOpen then st.pendingSend.head?.toList else []) →
      ∃ G : Stream → Stream, Store.mod s2.store id (fun st => g { st with pendingSend := st.pendingSend ++ [SFrame.reset r] })
          = Store.mod s.store id G ∧ (∀ x, (G x).key = x.key) ∧
        ∀ st, s.store.get? id = some st → ResetSpec st (G st) r i := by
    intro L hs2 hL
    rw [hs2, Store.mod_mod _ _ _ _ (by intro x; exact hk1 x) (by intro x; exact hgk _)]
    exact ⟨_, rfl, fun x => (hgk _).trans (hk1 x), fun st hst => resetSpec_close st r i g L hg1 (hL st hst)⟩
  by_cases hpo : (s1.stream id).isPendingOpen = true
  · cases hh : headers with
    | none =>
      refine key [] ?_ ?_
      · have e2 : s2 = sB := by simp only [s2, hpo, if_true, hh]
        rw [e2]
        simp only [sB, sA, clearQueue_store, modStream_store, hs1]
        rw [Store.mod_mod _ _ _ _ (by intro x; first | rfl | exact hk1 _) (by intro x; first | rfl | exact hk1 _), Store.mod_mod _ _ _ _ (by intro x; first | rfl | exact hk1 _) (by intro x; first | rfl | exact hk1 _)]
      · intro st hst
        have sb := sameButTasks_setReset st r i
        have e := h1 st hst
        simp only [headers, e, sb.pendingSend] at hh
        rw [e, sb.isPendingOpen] at hpo
        simp [hpo, hh]
    | some f =>
      refine key [f] ?_ ?_
      · have e2 : s2 = sB.modStream id fun st => { st with pendingSend := st.pendingSend ++ [f] } := by
          simp only [s2, hpo, if_true, hh]
        rw [e2]
        simp only [sB, sA, clearQueue_store, modStream_store, hs1]
        rw [Store.mod_mod _ _ _ _ (by intro x; first | rfl | exact hk1 _) (by intro x; first | rfl | exact hk1 _), Store.mod_mod _ _ _ _ (by intro x; first | rfl | exact hk1 _) (by intro x; first | rfl | exact hk1 _),
          Store.mod_mod _ _ _ _ (by intro x; first | rfl | exact hk1 _) (by intro x; first | rfl | exact hk1 _)]
        rfl
      · intro st hst
        have sb := sameButTasks_setReset st r i
        have e := h1 st hst
        simp only [headers, e, sb.pendingSend] at hh
        rw [e, sb.isPendingOpen] at hpo
        simp [hpo, hh]
  · refine key [] ?_ ?_
    · have e2 : s2 = s1.clearQueue id := by simp only [s2, hpo, Bool.false_eq_true, if_false]
      rw [e2]
      simp only [clearQueue_store, hs1]
      rw [Store.mod_mod _ _ _ _ (by intro x; first | rfl | exact hk1 _) (by intro x; first | rfl | exact hk1 _)]
    · intro st hst
      have sb := sameButTasks_setReset st r i
      have e := h1 st hst
      rw [e, sb.isPendingOpen] at hpo
      simp [hpo]



/-- a stream that was not reset is closed by an error and its queue rewritten in one step -/
theorem SRel.reset_atomic' {a b : Stream} (hk : b.key = a.key) (hi : b.id = a.id) (hrc : b.refCount = a.refCount)
    (ha : a.state.isReset = false) (hb : isErr b.state = true) (hq : RInv a → resetCount b.pendingSend ≤ 1) : SRel D a b := by
  refine ⟨hk, hi, fun i => ⟨hq i, fun _ => hb⟩, fun _ => ?_, fun _ => (isErr_closed hb).2, fun _ => (isErr_closed hb).1, ?_,
    fun _ => Nat.le_of_eq hrc.symm⟩
  · unfold rank; rw [ha]; simp
  · constructor <;> intro e he
    · rw [(facts_of_error he).1] at ha; cases ha
    · rw [(facts_of_errorAES he).1] at ha; cases ha

theorem resetCount_zero_of_fresh {st : Stream} (i : RInv st) (hr : st.state.isReset = false) :
    resetCount st.pendingSend = 0 := by
  have := i.le
  rcases Nat.lt_or_ge (resetCount st.pendingSend) 1 with h | h
  · omega
  · have := i.err (by omega); unfold isErr at this; simp [hr] at this

theorem ResetSpec.srel {st y : Stream} {r : Reason} {i : Initiator} (h : ResetSpec st y r i)
    (hr : st.state.isReset = false) : SRel D st y := by
  refine SRel.reset_atomic' h.key h.id h.refCount hr (by rw [h.state]; rfl) (fun inv => ?_)
  rw [h.pendingSend]
  have h0 := resetCount_zero_of_fresh inv hr
  have h1 := resetCount_head?_le st.pendingSend
  simp only [resetCount_append, resetCount_cons, resetCount_nil, isResetFrame]
  split <;> simp <;> omega

theorem sendSendReset_sr (h : Evolves (SRel D) RInv a s.store) (id : Nat) (r : Reason) (i : Initiator) :
    Evolves (SRel D) RInv a (s.sendSendReset id r i).store := by
  by_cases hr : (s.stream id).state.isReset = true
  · unfold Streams.sendSendReset; simp only [hr, if_true]; exact h
  · have hr' : (s.stream id).state.isReset = false := by simpa using hr
    by_cases hne : ((s.stream id).state.isClosed &&
        ((s.stream id).pendingSend.isEmpty && (s.stream id).bufferedSendData == 0)) = true
    · unfold Streams.sendSendReset
      simp only [hr', hne, Bool.false_eq_true, if_false, if_true]
      simp only [crp_store]
      refine h.mod _ _ (fun st hg => ?_)
      rw [stream_of_get? _ hg] at hr'
      exact SRel.setReset_fresh st r i hr'
    · have hne' : ((s.stream id).state.isClosed &&
          ((s.stream id).pendingSend.isEmpty && (s.stream id).bufferedSendData == 0)) = false := by simpa using hne
      rw [sendSendReset_eq s id r i hr' hne']
      apply reclaimAllCapacity_ev
      obtain ⟨G, hG, _, hspec⟩ := sendResetPre_store s id r i
      rw [hG]
      refine h.mod _ _ (fun st hg => ?_)
      rw [stream_of_get? _ hg] at hr'
      exact (hspec st hg).srel hr'
macro_rules | `(tactic| ev_step) => `(tactic| with_reducible apply sendSendReset_sr)

theorem sendRecvStreamWindowUpdate_sr (h : Evolves (SRel D) RInv a s.store) (id sz : Nat) :
    Evolves (SRel D) RInv a (s.sendRecvStreamWindowUpdate id sz).1.store := by
  unfold Streams.sendRecvStreamWindowUpdate; ev
macro_rules | `(tactic| ev_step) => `(tactic| with_reducible apply sendRecvStreamWindowUpdate_sr)

theorem sendApplyRemoteSettings_sr (h : Evolves (SRel D) RInv a s.store) (i p c : Option Nat) :
    Evolves (SRel D) RInv a (s.sendApplyRemoteSettings i p c).1.store := by
  unfold Streams.sendApplyRemoteSettings; ev
macro_rules | `(tactic| ev_step) => `(tactic| with_reducible apply sendApplyRemoteSettings_sr)

end
end H2V.Lemmas.ConnResetP
