import H2V.Lemmas.ConnResetPState
/-
  ConnResetP — `Evolves SRel RInv` for the operations of prioritize.rs / send.rs that touch the state
  or the `pending_send` deque of a stream (everything else is in ConnResetPFrame).
-/
set_option linter.unusedSectionVars false
namespace H2V.Lemmas.ConnResetP
open H2V H2V.Model H2V.Model.Conn

section
variable {a : Store} {s : Streams}

/-- a queue change that obviously adds no RST_STREAM -/
macro_rules
  | `(tactic| ev_step) =>
    `(tactic| (with_reducible refine Evolves.mod_queue' ?_ _ _ (fun _ => rfl) (fun _ => rfl) (fun _ => rfl) ?hq;
               case hq => (intro _; simp [isResetFrame, resetCount_drop_le]; done)))

theorem clearQueue_sr (h : Evolves SRel RInv a s.store) (id : Nat) : Evolves SRel RInv a (s.clearQueue id).store := by
  unfold Streams.clearQueue; ev
macro_rules | `(tactic| ev_step) => `(tactic| with_reducible apply clearQueue_sr)

/-- `queue_frame` of anything but an RST_STREAM -/
theorem queueFrame_sr (h : Evolves SRel RInv a s.store) (id : Nat) (f : SFrame) (hf : isResetFrame f = false) :
    Evolves SRel RInv a (s.queueFrame id f).store := by
  unfold Streams.queueFrame
  ev
  refine Evolves.mod_queue' h _ _ (fun _ => rfl) (fun _ => rfl) (fun _ => rfl) (fun _ => by simp [hf])
macro_rules | `(tactic| ev_step) => `(tactic| (with_reducible refine queueFrame_sr ?_ _ _ rfl))

/-- closes `StateStep id st (f st)` for the transition functions of state.rs -/
syntax "state_step_tac" : tactic
macro_rules
  | `(tactic| state_step_tac) =>
    `(tactic| first
      | exact step_sendOpen _ _ _ | exact step_recvOpen _ _ _ _ | exact step_reserveRemote _ _
      | exact step_reserveLocal _ _ | exact step_recvClose _ _ | exact step_sendClose _ _ (by assumption)
      | exact step_recvReset _ _ _ _ | exact step_handleError _ _ _ | exact step_recvEof _ _)

/-- a state step of one entry, computed from the entry itself -/
macro_rules
  | `(tactic| ev_step) =>
    `(tactic| (with_reducible refine Evolves.mod_state ?_ _ _ (fun _ => rfl) (fun _ => rfl) (fun _ => rfl) ?hs;
               case hs => state_step_tac))

theorem Evolves.mod_setReset_scheduled {S : Store} (h : Evolves SRel RInv a S) (id : Nat) (r : Reason) (i : Initiator)
    (hs : (Store.getD' S id).state.isScheduledReset = true) :
    Evolves SRel RInv a (Store.mod S id (fun st => (st.setReset r i).1)) := by
  refine h.mod _ _ (fun st hg => ?_)
  rw [Store.getD'_of_get? hg] at hs
  exact SRel.setReset_scheduled st r i hs

theorem isScheduledReset_of_get {x : State} {r : Reason} (h : x.getScheduledReset = some r) : x.isScheduledReset = true := by
  unfold State.isScheduledReset; rw [h]; rfl

theorem sendHeaders_sr (h : Evolves SRel RInv a s.store) (id : Nat) (eos : Bool) (f : List Hpack.Field) :
    Evolves SRel RInv a (s.sendHeaders id eos f).1.store := by
  unfold Streams.sendHeaders; ev
macro_rules | `(tactic| ev_step) => `(tactic| with_reducible apply sendHeaders_sr)

theorem sendPushPromise_sr (h : Evolves SRel RInv a s.store) (p k i : Nat) (f : List Hpack.Field) :
    Evolves SRel RInv a (s.sendPushPromise p k i f).1.store := by
  unfold Streams.sendPushPromise; ev
macro_rules | `(tactic| ev_step) => `(tactic| with_reducible apply sendPushPromise_sr)

theorem sendInterimInformationalHeaders_sr (h : Evolves SRel RInv a s.store) (id : Nat) (f : List Hpack.Field) :
    Evolves SRel RInv a (s.sendInterimInformationalHeaders id f).1.store := by
  unfold Streams.sendInterimInformationalHeaders; ev
macro_rules | `(tactic| ev_step) => `(tactic| with_reducible apply sendInterimInformationalHeaders_sr)

theorem prioSendData_sr (h : Evolves SRel RInv a s.store) (id len : Nat) (eos : Bool) :
    Evolves SRel RInv a (s.prioSendData id len eos).1.store := by
  unfold Streams.prioSendData; ev
macro_rules | `(tactic| ev_step) => `(tactic| with_reducible apply prioSendData_sr)

theorem sendTrailers_sr (h : Evolves SRel RInv a s.store) (id : Nat) (f : List Hpack.Field) :
    Evolves SRel RInv a (s.sendTrailers id f).1.store := by
  unfold Streams.sendTrailers; ev
macro_rules | `(tactic| ev_step) => `(tactic| with_reducible apply sendTrailers_sr)

theorem scheduleImplicitReset_sr (h : Evolves SRel RInv a s.store) (id : Nat) (r : Reason) :
    Evolves SRel RInv a (s.scheduleImplicitReset id r).store := by
  unfold Streams.scheduleImplicitReset
  split
  · exact h
  · next hc =>
    have h1 : Evolves SRel RInv a (s.modStream id fun st => { st with state := st.state.setScheduledReset r }).store := by
      simp only [crp_store]
      refine h.mod _ _ (fun st hg => ?_)
      rw [stream_eq, Store.getD'_of_get? hg] at hc
      exact SRel.state_step rfl rfl rfl (step_setScheduledReset _ _ _ (by simpa using hc))
    ev
macro_rules | `(tactic| ev_step) => `(tactic| with_reducible apply scheduleImplicitReset_sr)

theorem clearPendingSend_sr (fuel : Nat) (h : Evolves SRel RInv a s.store) :
    Evolves SRel RInv a (Streams.clearPendingSend fuel s).store := by
  induction fuel generalizing s with
  | zero => unfold Streams.clearPendingSend; exact h
  | succ n ih =>
    unfold Streams.clearPendingSend
    split
    · ev
    · next s1 id heq =>
      subst_fst
      dsimp only
      apply ih
      apply transitionAfter_ev
      split
      · next r hr =>
        simp only [crp_store]
        exact Evolves.mod_setReset_scheduled (by ev) _ _ _ (isScheduledReset_of_get hr)
      · ev
macro_rules | `(tactic| ev_step) => `(tactic| with_reducible apply clearPendingSend_sr)

theorem sendHandleError_sr (h : Evolves SRel RInv a s.store) (id : Nat) :
    Evolves SRel RInv a (s.sendHandleError id).store := by
  unfold Streams.sendHandleError
  dsimp only
  split
  · split
    · next r hr =>
      simp only [crp_store]
      exact Evolves.mod_setReset_scheduled (by ev) _ _ _ (isScheduledReset_of_get hr)
    · ev
  · ev
macro_rules | `(tactic| ev_step) => `(tactic| with_reducible apply sendHandleError_sr)

theorem sendClearQueues_sr (h : Evolves SRel RInv a s.store) : Evolves SRel RInv a s.sendClearQueues.store := by
  unfold Streams.sendClearQueues; ev
macro_rules | `(tactic| ev_step) => `(tactic| with_reducible apply sendClearQueues_sr)

end
end H2V.Lemmas.ConnResetP
