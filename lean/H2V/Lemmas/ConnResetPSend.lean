import H2V.Lemmas.ConnResetPState
/-
  ConnResetP — `Evolves SRel RInv` for the operations of prioritize.rs / send.rs that touch the state
  or the `pending_send` deque of a stream (everything else is in ConnResetPFrame).
-/
set_option linter.unusedSectionVars false
namespace H2V.Lemmas.ConnResetP
open H2V H2V.Model H2V.Model.Conn

section
variable {a : Store} {s : Streams}

/-- a queue change that obviously adds no RST_STREAM -/
macro_rules
  | `(tactic| ev_step) =>
    `(tactic| (refine Evolves.mod_queue' ?_ _ _ (fun _ => rfl) (fun _ => rfl) (fun _ => rfl) ?hq;
               case hq => (intro _; simp [isResetFrame, resetCount_drop_le]; done)))

theorem clearQueue_sr (h : Evolves SRel RInv a s.store) (id : Nat) : Evolves SRel RInv a (s.clearQueue id).store := by
  unfold Streams.clearQueue; ev
macro_rules | `(tactic| ev_step) => `(tactic| with_reducible apply clearQueue_sr)

/-- `queue_frame` of anything but an RST_STREAM -/
theorem queueFrame_sr (h : Evolves SRel RInv a s.store) (id : Nat) (f : SFrame) (hf : isResetFrame f = false) :
    Evolves SRel RInv a (s.queueFrame id f).store := by
  unfold Streams.queueFrame
  ev
  refine Evolves.mod_queue' h _ _ (fun _ => rfl) (fun _ => rfl) (fun _ => rfl) (fun _ => by simp [hf])
macro_rules | `(tactic| ev_step) => `(tactic| (with_reducible refine queueFrame_sr ?_ _ _ rfl))

theorem sendHeaders_sr (h : Evolves SRel RInv a s.store) (id : Nat) (eos : Bool) (f : List Hpack.Field) :
    Evolves SRel RInv a (s.sendHeaders id eos f).1.store := by
  unfold Streams.sendHeaders
  split
  · exact h
  · split
    · exact h
    · next st' _ heq =>
      have hst : st' = ((s.stream id).state.sendOpen eos).1 := by rw [heq]
      subst hst
      have h1 : Evolves SRel RInv a
          (s.modStream id fun st => { st with state := ((s.stream id).state.sendOpen eos).1 }).store := by
        simp only [crp_store]
        exact h.mod_state _ _ (fun _ => rfl) (fun _ => rfl) (fun _ => rfl) (step_sendOpen _ _ _)
      revert h1
      generalize (s.modStream id fun st => { st with state := ((s.stream id).state.sendOpen eos).1 }) = s1
      intro h1
      ev

macro_rules | `(tactic| ev_step) => `(tactic| with_reducible apply sendHeaders_sr)

end
end H2V.Lemmas.ConnResetP
