import H2V.Lemmas.ConnFlowPRecvFr
/-
  ConnFlowP, part 9 — `SafeInv` through every function of `streams.rs` (`ConnStreams.lean`): the frame
  entry points of `Inner`, `poll_complete`, `send_request`, the handle methods, `drop_stream_ref`.
-/
namespace H2V.Lemmas.ConnFlowP
open H2V H2V.Model H2V.Model.Conn H2V.Lemmas.Comp

-- ===================================================================== new streams are fresh

theorem fresh_new (id a b : Nat) : Fresh (Stream.new id a b) := by
  unfold Fresh Stream.new
  dsimp only
  rw [Flow.incWindow_eq]
  have hr := u32AsI32_range a
  split
  · rename_i hc
    have := (inI32_iff _).1 hc.1
    refine ⟨rfl, ?_, ?_⟩ <;> (show _ ≤ _; simp only [FlowControl.new] at *; omega32)
  · exact ⟨rfl, by decide, by decide⟩

theorem fresh_head {st : Stream} (h : Fresh st) (c : ContentLength) : Fresh { st with contentLength := c } := h

/-- side condition `Fresh st` of an insertion -/
syntax "fresh_tac" : tactic
macro_rules | `(tactic| fresh_tac) => `(tactic| first
  | exact fresh_new _ _ _
  | exact fresh_head (fresh_new _ _ _) _
  | (split <;> first | exact fresh_new _ _ _ | exact fresh_head (fresh_new _ _ _) _))

theorem Fr.withStoreInsert' {s t : Streams} {st : Stream} (hf : Fresh st) (h : Fr s t) :
    Fr s { t with store := (t.store.insert st).1 } := h.withStoreInsert st hf

macro_rules | `(tactic| fr_peel) => `(tactic| (guard_mk; with_reducible apply Fr.withStoreInsert'; (· fresh_tac)))

-- ===================================================================== folds

theorem SafeInv.foldl {α : Type} (f : Streams → α → Streams) (hf : ∀ t a, SafeInv t → SafeInv (f t a)) :
    ∀ (l : List α) {t : Streams}, SafeInv t → SafeInv (l.foldl f t)
  | [], _, h => h
  | a :: l, _, h => SafeInv.foldl f hf l (hf _ a h)

-- ===================================================================== a shorthand

/-- unfold a function of `streams.rs` (and `counts.transition`) and peel it -/
macro "safe_by'" f:ident : tactic =>
  `(tactic| (unfold $f; (try unfold Streams.transition); (try dsimp only); safe_auto))

section
variable {s : Streams}

theorem SafeInv.resetOnRecvStreamErr (h : SafeInv s) (id : Nat) (r : Except PErr Unit) :
    SafeInv (s.resetOnRecvStreamErr id r).1 := by
  safe_by' Streams.resetOnRecvStreamErr
macro_rules | `(tactic| safe_peel) => `(tactic| with_reducible apply SafeInv.resetOnRecvStreamErr)

theorem SafeInv.actionsSendReset (h : SafeInv s) (id : Nat) (r : Reason) (i : Initiator) :
    SafeInv (s.actionsSendReset id r i).1 := by
  safe_by' Streams.actionsSendReset
macro_rules | `(tactic| safe_peel) => `(tactic| with_reducible apply SafeInv.actionsSendReset)

theorem SafeInv.clearQueues (h : SafeInv s) (b : Bool) : SafeInv (s.clearQueues b) := by
  safe_by' Streams.clearQueues
macro_rules | `(tactic| safe_peel) => `(tactic| with_reducible apply SafeInv.clearQueues)

theorem SafeInv.recvHeaders (h : SafeInv s) (hd : HeadersIn) : SafeInv (s.recvHeaders hd).1 := by
  safe_by' Streams.recvHeaders

theorem SafeInv.recvData (h : SafeInv s) (id : Nat) (p : Bytes) (eos : Bool) (pad : Option Nat) :
    SafeInv (s.recvData id p eos pad).1 := by
  safe_by' Streams.recvData

theorem SafeInv.recvReset (h : SafeInv s) (id : Nat) (r : Reason) : SafeInv (s.recvReset id r).1 := by
  safe_by' Streams.recvReset

/-- WINDOW_UPDATE; the increment has 31 bits (`WindowUpdate::load` masks the reserved bit) -/
theorem SafeInv.recvWindowUpdate (h : SafeInv s) (id inc : Nat) (hinc : inc ≤ 2147483647) :
    SafeInv (s.recvWindowUpdate id inc).1 := by
  unfold Streams.recvWindowUpdate
  split
  · have := h.recvConnectionWindowUpdate inc hinc
    split
    · rename_i heq; rw [heq] at this; exact this
    · rename_i heq; rw [heq] at this; exact this
  · split
    · split
      · exact h
      · have := h.sendRecvStreamWindowUpdate ‹_› inc hinc
        dsimp only
        exact SafeInv.resetOnRecvStreamErr this _ _
    · split <;> exact h

set_option maxHeartbeats 800000 in
theorem SafeInv.recvPushPromise (h : SafeInv s) (id : Nat) (hd : HeadersIn) : SafeInv (s.recvPushPromise id hd).1 := by
  safe_by' Streams.recvPushPromise

theorem SafeInv.handleError (h : SafeInv s) (e : PErr) : SafeInv (s.handleError e).1 := by
  unfold Streams.handleError
  dsimp only
  refine SafeInvG.fr ((Fr.refl _).withConnError _) ?_
  refine h.storeForEach _ (fun t id ht => ?_)
  unfold Streams.transition; dsimp only; safe_auto

theorem SafeInv.recvGoAwayFrame (h : SafeInv s) (l : Nat) (r : Reason) (d : Bytes) :
    SafeInv (s.recvGoAwayFrame l r d).1 := by
  unfold Streams.recvGoAwayFrame
  split
  · safe_auto
  · dsimp only
    refine SafeInvG.fr ((Fr.refl _).withConnError _) ?_
    refine SafeInv.storeForEach (by safe_auto) _ (fun t id ht => ?_)
    unfold Streams.transition; dsimp only; safe_auto

theorem SafeInv.recvEof (h : SafeInv s) (b : Bool) : SafeInv (s.recvEof b) := by
  unfold Streams.recvEof
  dsimp only
  apply SafeInv.clearQueues
  refine SafeInv.storeForEach (by safe_auto) _ (fun t id ht => ?_)
  unfold Streams.transition; dsimp only; safe_auto

theorem SafeInv.innerSendReset (h : SafeInv s) (id : Nat) (r : Reason) : SafeInv (s.innerSendReset id r).1 := by
  safe_by' Streams.innerSendReset

theorem SafeInv.bufferPending (h : SafeInv s) (fuel : Nat) (w : Writer) : SafeInv (Streams.bufferPending fuel s w).1 := by
  safe_by' Streams.bufferPending
macro_rules | `(tactic| safe_peel) => `(tactic| with_reducible apply SafeInv.bufferPending)

theorem SafeInv.pollComplete (fuel : Nat) :
    ∀ {s : Streams}, SafeInv s → ∀ w io tag, SafeInv (Streams.pollComplete fuel s w io tag).1 := by
  induction fuel with
  | zero => intro s h w io tag; unfold Streams.pollComplete; safe_auto
  | succ n ih => intro s h w io tag; unfold Streams.pollComplete; dsimp only; safe_auto

theorem SafeInv.pollSendPendingRefusal (fuel : Nat) :
    ∀ {s : Streams}, SafeInv s → ∀ w io tag, SafeInv (Streams.pollSendPendingRefusal fuel s w io tag).1 := by
  induction fuel with
  | zero => intro s h w io tag; unfold Streams.pollSendPendingRefusal; safe_auto
  | succ n ih => intro s h w io tag; unfold Streams.pollSendPendingRefusal; safe_auto

/-- SETTINGS of the peer; identifier 4 (initial window size) carries a 31-bit value -/
theorem SafeInv.applyRemoteSettings (h : SafeInv s) (vals : List (Nat × Nat)) (b : Bool)
    (hv : ∀ v, (vals.find? (·.1 = 4)).map (·.2) = some v → v ≤ 2147483647) :
    SafeInv (s.applyRemoteSettings vals b).1 := by
  unfold Streams.applyRemoteSettings
  dsimp only
  exact SafeInv.sendApplyRemoteSettings (h.fr ((Fr.refl _).modCounts _)) _ _ _ hv

end

end H2V.Lemmas.ConnFlowP
