import H2V.Lemmas.ConnNoPanicPRespHandles
/-
  C08 (no panic) — the client response path, part 7: what the operations that DO touch the receive queue of a
  request stream `k` (response head / DATA / trailers routed to it, the polls of its `ResponseFuture`) do to `RGood`.
-/
namespace H2V.Lemmas.ConnNoPanicP
open H2V H2V.Model H2V.Model.Conn H2V.Lemmas.ConnCountsP
attribute [local irreducible] wrapSubU32 wrapSubUsize

-- ===================================================================== `RGood` and appends

theorem RGood.of_head {y : Stream} (h : respHead y.pendingRecv = true) : RGood y := ⟨respShape_of_head h, fun _ => h⟩

theorem RGood.append_headers {x y : Stream} (g : RGood x) {a : Bytes} {f : Fields} (hq : y.pendingRecv = x.pendingRecv ++ [.headers a f]) :
    RGood y := .of_head (by rw [hq]; exact respHead_append_headers a f g.shape)

theorem RGood.append_info {x y : Stream} (g : RGood x) {a : Bytes} {f : Fields} (hq : y.pendingRecv = x.pendingRecv ++ [.informational a f])
    (hs : y.state.isRecvStreaming = false) : RGood y :=
  ⟨by rw [hq]; exact respShape_append_info a f g.shape, fun h => by rw [hs] at h; cases h⟩

theorem RGood.append_streaming {x y : Stream} (g : RGood x) (hs : x.state.isRecvStreaming = true) {l : List REvent}
    (hq : y.pendingRecv = x.pendingRecv ++ l) : RGood y := .of_head (by rw [hq]; exact respHead_append l (g.head hs))

/-- the shape alone survives when the state is not "receive streaming" -/
theorem RGood.of_shape {x y : Stream} (g : RGood x) (hq : y.pendingRecv = x.pendingRecv) (hs : y.state.isRecvStreaming = false) : RGood y :=
  ⟨by rw [hq]; exact g.shape, fun h => by rw [hs] at h; cases h⟩

theorem RP.good {s s' : Streams} {k : Nat} (h : RP [] s s') (hr : 0 < (s.stream k).refCount) (g : RGood (s.stream k)) :
    RGood (s'.stream k) ∧ 0 < (s'.stream k).refCount :=
  have r := h.fr k List.not_mem_nil hr
  ⟨r.good g, Nat.lt_of_lt_of_le hr r.ref⟩

/-- frame steps and at most one append while the stream is "receive streaming" keep `RGood` -/
theorem good_of_dec {s s' : Streams} {k : Nat} (hr : 0 < (s.stream k).refCount) (g : RGood (s.stream k))
    (hdec : RP [] s s' ∨ ∃ t e, RP [] s t ∧ RP [] (appendTo t k e) s' ∧ (s.stream k).state.isRecvStreaming = true) :
    RGood (s'.stream k) ∧ 0 < (s'.stream k).refCount := by
  rcases hdec with h | ⟨t, e, ht, hap, hstr⟩
  · exact h.good hr g
  · have rt := ht.fr k List.not_mem_nil hr
    have hrt : 0 < (t.stream k).refCount := Nat.lt_of_lt_of_le hr rt.ref
    obtain ⟨hq, _, hrc⟩ := appendTo_stream (live_of_ref_pos hrt) e
    have ga : RGood ((appendTo t k e).stream k) := g.append_streaming hstr (by rw [hq, rt.q])
    exact hap.good (by rw [hrc]; exact hrt) ga

-- ===================================================================== a library reset closes the stream

theorem isReset_not_streaming {st : State} (h : st.isReset = true) : st.isRecvStreaming = false := by
  obtain ⟨i⟩ := st
  cases i <;> first | rfl | cases h

theorem setReset_not_streaming (x : Stream) (r : Reason) (i : Initiator) : (x.setReset r i).1.state.isRecvStreaming = false := by
  cases h : (x.setReset r i).1.state.isRecvStreaming with
  | false => rfl
  | true =>
    unfold Stream.setReset at h
    simp only [] at h
    have := ((notifySend_rs _).trans ((notifyPush_rs _).trans (notifyRecv_rs _))).str h
    cases this

theorem setReset_key (x : Stream) (r : Reason) (i : Initiator) : (x.setReset r i).1.key = x.key := (setReset_rs x r i).key

theorem sendSendReset_closes {s : Streams} {k : Nat} (hr : 0 < (s.stream k).refCount) (r : Reason) (i : Initiator) :
    ((s.sendSendReset k r i).stream k).state.isRecvStreaming = false := by
  have hk := live_of_ref_pos hr
  unfold Streams.sendSendReset
  dsimp only
  split
  · next h => exact isReset_not_streaming h
  · generalize hs1 : (s.modStreamW k fun st => st.setReset r i) = s1
    have h1 : s1.stream k = ((s.stream k).setReset r i).1 := by
      rw [← hs1]; exact stream_modStreamW_live hk _ (fun x => setReset_key x r i)
    have hns : (s1.stream k).state.isRecvStreaming = false := by rw [h1]; exact setReset_not_streaming _ _ _
    have hr1 : 0 < (s1.stream k).refCount := by rw [h1]; exact Nat.lt_of_lt_of_le hr (setReset_rs _ _ _).ref
    generalize hfin : (if ((s.stream k).state.isClosed && ((s.stream k).pendingSend.isEmpty && (s.stream k).bufferedSendData == 0)) = true
      then s1 else _) = fin
    have hrp : RP [] s1 fin := by rw [← hfin]; rp_auto
    cases hh : (fin.stream k).state.isRecvStreaming with
    | false => rfl
    | true => rw [(hrp.fr k List.not_mem_nil hr1).str hh] at hns; cases hns

theorem modCountsA_stream (s : Streams) (m : String) (f : Counts → Option Counts) (j : Nat) :
    (s.modCountsA m f).stream j = s.stream j := by
  unfold Streams.stream; rw [modCountsA_store']

/-- `reset_on_recv_stream_err` on a stream error, while the local-error-reset quota lasts: the stream is closed -/
theorem resetOnRecvStreamErr_closes {s : Streams} {k : Nat} (hr : 0 < (s.stream k).refCount) (he : ErrOK s)
    (i : Nat) (r : Reason) (init : Initiator) :
    ((s.resetOnRecvStreamErr k (.error (.reset i r init))).1.stream k).state.isRecvStreaming = false := by
  unfold Streams.resetOnRecvStreamErr
  unfold ErrOK at he
  simp only [he, if_true]
  generalize hs1 : s.modCountsA "can_inc_num_local_error_resets" Counts.incNumLocalErrorResets = s1
  have hr1 : 0 < (s1.stream k).refCount := by rw [← hs1, modCountsA_stream]; exact hr
  have hns := sendSendReset_closes hr1 r init
  have hr2 : 0 < ((s1.sendSendReset k r init).stream k).refCount :=
    Nat.lt_of_lt_of_le hr1 ((sendSendReset_rp (X := []) s1 k r init).fr k List.not_mem_nil hr1).ref
  have hrp : RP [] (s1.sendSendReset k r init) (((s1.sendSendReset k r init).enqueueResetExpiration k).modStreamW k Stream.notifyRecv) := by
    rp_auto
  cases hh : ((((s1.sendSendReset k r init).enqueueResetExpiration k).modStreamW k Stream.notifyRecv).stream k).state.isRecvStreaming with
  | false => rfl
  | true => rw [(hrp.fr k List.not_mem_nil hr2).str hh] at hns; cases hns

-- ===================================================================== state facts

theorem recvOpen_info_str {st st' : State} {eos ini : Bool} (h : st.recvOpen eos true = (st', .ok ini)) :
    st'.isRecvStreaming = false := by
  obtain ⟨i⟩ := st
  unfold State.recvOpen at h
  cases i with
  | «open» l r =>
    cases r <;> first | (cases h; done) | (simp only [Prod.mk.injEq] at h; rw [← h.1]; cases eos <;> rfl)
  | halfClosedLocal p =>
    cases p <;> first | (cases h; done) | (simp only [Prod.mk.injEq] at h; rw [← h.1]; cases eos <;> rfl)
  | _ => first | (cases h; done) | (simp only [Prod.mk.injEq] at h; rw [← h.1]; cases eos <;> rfl)

theorem recvClose_ok_streaming {st st' : State} {u : Unit} (h : st.recvClose = (st', .ok u)) (hh : st.isRecvHeaders = false) :
    st.isRecvStreaming = true := by
  obtain ⟨i⟩ := st
  unfold State.recvClose at h
  cases i with
  | «open» l r => cases r <;> first | rfl | cases hh
  | halfClosedLocal p => cases p <;> first | rfl | cases hh
  | _ => first | (cases h; done) | cases hh

theorem qhSt_stream {s : Streams} {k : Nat} (hk : Live s k) (st' : State) : (qhSt s k st').stream k = { s.stream k with state := st' } := by
  unfold qhSt; exact stream_modStream_live hk _ (fun _ => rfl)

-- ===================================================================== `Inner::recv_headers` on the stream itself

theorem resetOnRecvStreamErr_ok (s : Streams) (k : Nat) : (s.resetOnRecvStreamErr k (.ok ())).1 = s := rfl
theorem resetOnRecvStreamErr_goAway (s : Streams) (k : Nat) (d : Bytes) (r : Reason) (i : Initiator) :
    (s.resetOnRecvStreamErr k (.error (.goAway d r i))).1 = s := rfl

/-- after a stream error from `recv_headers` the stream is reset: the queue keeps its shape, nothing streams -/
theorem good_after_reset {s t : Streams} {k : Nat} (g : RGood (s.stream k))
    (hq : (t.stream k).pendingRecv = (s.stream k).pendingRecv) (hrt : 0 < (t.stream k).refCount) (het : ErrOK t)
    (i : Nat) (r : Reason) (init : Initiator) :
    RGood ((t.resetOnRecvStreamErr k (.error (.reset i r init))).1.stream k) ∧
    0 < ((t.resetOnRecvStreamErr k (.error (.reset i r init))).1.stream k).refCount := by
  have hrs := (resetOnRecvStreamErr_rp (X := []) t k (.error (.reset i r init))).fr k List.not_mem_nil hrt
  exact ⟨g.of_shape (hrs.q.trans hq) (resetOnRecvStreamErr_closes hrt het i r init), Nat.lt_of_lt_of_le hrt hrs.ref⟩

theorem recvHeadersClosure_good {s : Streams} {k : Nat} (h : HeadersIn) (hr : 0 < (s.stream k).refCount)
    (hsv : s.counts.isServer = false) (he : ErrOK s) (g : RGood (s.stream k)) :
    RGood ((recvHeadersClosure k h s).1.stream k) ∧ 0 < ((recvHeadersClosure k h s).1.stream k).refCount := by
  have hk := live_of_ref_pos hr
  unfold recvHeadersClosure
  dsimp only
  split
  · exact ⟨g, hr⟩
  · split
    · -- the response head (or an interim one)
      have hdec := recvRecvHeaders_dec (X := []) s k h hsv
      have herr : ErrSame s (s.recvRecvHeaders k h).1 := (recvRecvHeaders_lt s k h).err
      generalize s.recvRecvHeaders k h = p at hdec herr
      obtain ⟨s1, res⟩ := p
      dsimp only at hdec herr
      rcases hdec with h0 | ⟨st', ini, hro, t, ht, ⟨h1, hcls⟩ | ⟨e, hap, hok, hev⟩⟩
      · cases h0
        exact ⟨g, hr⟩
      · -- a stream error after the state transition
        subst h1
        have hst := qhSt_stream hk st'
        have hr0 : 0 < ((qhSt s k st').stream k).refCount := by rw [hst]; exact hr
        have rt := ht.fr k List.not_mem_nil hr0
        have hq : (s1.stream k).pendingRecv = (s.stream k).pendingRecv := by rw [rt.q, hst]
        have hrt : 0 < (s1.stream k).refCount := Nat.lt_of_lt_of_le hr0 rt.ref
        cases hcls with
        | oversize => exact good_after_reset g hq hrt (herr.errOK he) _ _ _
        | state i r init => exact good_after_reset g hq hrt (herr.errOK he) _ _ _
      · -- the hand-over
        subst hok
        have hst := qhSt_stream hk st'
        have hr0 : 0 < ((qhSt s k st').stream k).refCount := by rw [hst]; exact hr
        have rt := ht.fr k List.not_mem_nil hr0
        have hrt : 0 < (t.stream k).refCount := Nat.lt_of_lt_of_le hr0 rt.ref
        obtain ⟨hq, hstate, hrc⟩ := appendTo_stream (live_of_ref_pos hrt) e
        have hq' : ((appendTo t k e).stream k).pendingRecv = (s.stream k).pendingRecv ++ [e] := by rw [hq, rt.q, hst]
        have ga : RGood ((appendTo t k e).stream k) := by
          rcases hev with ⟨a, f, rfl⟩ | ⟨hinf, a, f, rfl⟩
          · exact g.append_headers hq'
          · refine g.append_info hq' ?_
            rw [hstate]
            cases hh : (t.stream k).state.isRecvStreaming with
            | false => rfl
            | true =>
              have := rt.str hh
              rw [hst] at this
              rw [hinf] at hro
              rw [recvOpen_info_str hro] at this
              cases this
        exact hap.good (by rw [hrc]; exact hrt) ga
    · -- trailers
      next hnh =>
      have hnh' : (s.stream k).state.isRecvHeaders = false := by
        cases hh : (s.stream k).state.isRecvHeaders with
        | false => rfl
        | true => exact absurd hh hnh
      have hdec := recvRecvTrailers_dec (X := []) s k h
      generalize s.recvRecvTrailers k h = p at hdec
      obtain ⟨s1, res⟩ := p
      dsimp only at hdec
      have h1 : RGood (s1.stream k) ∧ 0 < (s1.stream k).refCount := by
        refine good_of_dec hr g ?_
        rcases hdec with h | ⟨t, e, ht, hap, st', u, hrc⟩
        · exact .inl h
        · exact .inr ⟨t, e, ht, hap, recvClose_ok_streaming hrc hnh'⟩
      exact (resetOnRecvStreamErr_rp (X := []) s1 k res).good h1.2 h1.1

/-- **a HEADERS frame routed to a request stream keeps its queue in shape** (client, quota not exhausted) -/
theorem recvHeaders_good {s : Streams} {k : Nat} (h : HeadersIn) (hfk : s.store.findKey? h.sid = some k)
    (hr : 0 < (s.stream k).refCount) (hsv : s.counts.isServer = false) (he : ErrOK s) (g : RGood (s.stream k)) :
    RGood ((s.recvHeaders h).1.stream k) := by
  unfold Streams.recvHeaders
  dsimp only
  split
  · exact g
  · simp only [hfk]
    split
    · exact g
    · split
      · exact g
      · have h1 := recvHeadersClosure_good h hr hsv he g
        have : (s.transition k (recvHeadersClosure k h)).1 =
            (recvHeadersClosure k h s).1.transitionAfter k (s.stream k).isPendingResetExpiration := rfl
        exact ((transitionAfter_rp (X := []) _ _ _).good h1.2 h1.1).1

-- ===================================================================== `Inner::recv_data` on the stream itself

theorem recvDataClosure_good {s : Streams} {k : Nat} (payload : Bytes) (eos : Bool) (pad : Option Nat)
    (hr : 0 < (s.stream k).refCount) (g : RGood (s.stream k)) :
    RGood ((recvDataClosure k payload eos pad s).1.stream k) ∧ 0 < ((recvDataClosure k payload eos pad s).1.stream k).refCount := by
  unfold recvDataClosure
  have hdec := recvRecvData_dec (X := []) s k payload eos pad
  generalize s.recvRecvData k payload eos pad = p at hdec
  obtain ⟨s1, res⟩ := p
  dsimp only at hdec ⊢
  have h1 : RGood (s1.stream k) ∧ 0 < (s1.stream k).refCount := good_of_dec hr g hdec
  refine RP.good ?_ h1.2 h1.1
  rp_auto

theorem recvData_good {s : Streams} {k : Nat} (id : Nat) (payload : Bytes) (eos : Bool) (pad : Option Nat)
    (hfk : s.store.findKey? id = some k) (hr : 0 < (s.stream k).refCount) (g : RGood (s.stream k)) :
    RGood ((s.recvData id payload eos pad).1.stream k) := by
  rw [recvData_some payload eos pad hfk]
  have h1 := recvDataClosure_good payload eos pad hr g
  have : (s.transition k (recvDataClosure k payload eos pad)).1 =
      (recvDataClosure k payload eos pad s).1.transitionAfter k (s.stream k).isPendingResetExpiration := rfl
  rw [this]
  exact ((transitionAfter_rp (X := []) _ _ _).good h1.2 h1.1).1

-- ===================================================================== the polls of a stream whose queue is in shape

/-- `poll_data` on a queue in shape pops nothing (no DATA in front) -/
theorem recvPollData_rp' {X : List Nat} (s : Streams) (k : Nat) (t : String) (hs : respShape (s.stream k).pendingRecv = true) :
    RP X s (s.recvPollData k t).1 := by
  unfold Streams.recvPollData
  split
  · next heq => rw [heq] at hs; cases hs
  · rp_auto
  · rp_auto

theorem refPollData_rp' {X : List Nat} (s : Streams) (k : Nat) (t : String) (hs : respShape (s.stream k).pendingRecv = true) :
    RP X s (s.refPollData k t).1 := by
  unfold Streams.refPollData
  have := recvPollData_rp' (X := X) s k t hs
  split
  · next s1 _ _ heq => rw [heq] at this; dsimp only; rp_auto
  · exact this

/-- `poll_trailers` on a queue in shape pops nothing -/
theorem recvPollTrailers_rp' {X : List Nat} (s : Streams) (k : Nat) (t : String) (hs : respShape (s.stream k).pendingRecv = true) :
    RP X s (s.recvPollTrailers k t).1 := by
  unfold Streams.recvPollTrailers
  split
  · next heq => rw [heq] at hs; cases hs
  · rp_auto
  · rp_auto

/-- `poll_informational` pops a leading interim head only -/
theorem recvPollInformational_good {s : Streams} {k : Nat} (hr : 0 < (s.stream k).refCount) (g : RGood (s.stream k)) (t : String) :
    RGood ((s.recvPollInformational k t).1.stream k) := by
  have hk := live_of_ref_pos hr
  unfold Streams.recvPollInformational
  rcases hq : (s.stream k).pendingRecv with _ | ⟨_ | _ | _ | _ | _, rest⟩ <;> dsimp only
  case cons.informational a f =>
    rw [stream_modStream_live hk (fun st => { st with pendingRecv := rest }) (fun _ => rfl)]
    exact ⟨by have := g.shape; rw [hq] at this; exact this, fun h => by have := g.head h; rw [hq] at this; exact this⟩
  all_goals (
    refine (RP.good (s := s) ?_ hr g).1
    rp_auto)

theorem modStream_queue_npi {s : Streams} (hn : NPI (fun _ => False) s) {k : Nat} (hk : Live s k) (rest : List REvent) :
    NPI (fun _ => False) (s.modStream k fun st => { st with pendingRecv := rest }) :=
  hn.lt (modStream_lt s k (fun st => { st with pendingRecv := rest }) (fun _ => ⟨rfl, rfl, rfl, rfl, fun h => h⟩)).w (liveAll1 hk)
    (modStream_ev (ρ := false) s k _ (fun st _ => by same_fields)) noE

theorem modStream_recvTask_npi {s : Streams} (hn : NPI (fun _ => False) s) {k : Nat} (hk : Live s k) (o : Option String) :
    NPI (fun _ => False) (s.modStream k fun st => { st with recvTask := o }) :=
  hn.lt (modStream_lt s k (fun st => { st with recvTask := o }) (fun _ => ⟨rfl, rfl, rfl, rfl, fun h => h⟩)).w (liveAll1 hk)
    (modStream_ev (ρ := false) s k _ (fun st _ => by same_fields)) noE

/-- **`poll_response` on a stream whose future has not completed**: it does not panic, and unless it completes the
    future (any answer but `Pending`) the queue stays in shape -/
theorem recvPollResponse_spec (fuel : Nat) {s : Streams} (hn : NPI (fun _ => False) s) {k : Nat} (hr : 0 < (s.stream k).refCount)
    (g : RGood (s.stream k)) (tag : String) :
    NPI (fun _ => False) (Streams.recvPollResponse fuel s k tag).1 ∧
    ((Streams.recvPollResponse fuel s k tag).2 = .pending → RGood ((Streams.recvPollResponse fuel s k tag).1.stream k)) := by
  induction fuel generalizing s with
  | zero => exact ⟨hn, fun _ => g⟩
  | succ n ih =>
    have hk := live_of_ref_pos hr
    unfold Streams.recvPollResponse
    rcases hq : (s.stream k).pendingRecv with _ | ⟨_ | _ | _ | _ | _, rest⟩ <;> dsimp only
    case nil =>
      split
      · exact ⟨hn, fun h => by cases h⟩
      · exact ⟨hn, fun h => by cases h⟩
      · refine ⟨modStream_recvTask_npi hn hk _, fun _ => ?_⟩
        refine (RP.good (s := s) ?_ hr g).1
        rp_auto
    case cons.headers a f => exact ⟨modStream_queue_npi hn hk rest, fun h => by cases h⟩
    case cons.informational a f =>
      have hst := stream_modStream_live hk (fun st => { st with pendingRecv := rest }) (fun _ => rfl)
      refine ih (modStream_queue_npi hn hk rest) (by rw [hst]; exact hr) ?_
      rw [hst]
      exact ⟨by have := g.shape; rw [hq] at this; exact this, fun h => by have := g.head h; rw [hq] at this; exact this⟩
    all_goals (have := g.shape; rw [hq] at this; cases this)

/-- **`Recv::poll_response` cannot panic on a stream whose `ResponseFuture` has not completed** -/
theorem recvPollResponse_good_npi {s : Streams} (hn : NPI (fun _ => False) s) {k : Nat} (hr : 0 < (s.stream k).refCount)
    (g : RGood (s.stream k)) (fuel : Nat) (tag : String) : NPI (fun _ => False) (Streams.recvPollResponse fuel s k tag).1 :=
  (recvPollResponse_spec fuel hn hr g tag).1

end H2V.Lemmas.ConnNoPanicP
