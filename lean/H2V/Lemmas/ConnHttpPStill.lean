import H2V.Lemmas.ConnHttpPStore
/-
  C13 (ConnHttpP), part 17 — bookkeeping leaves a chosen field of every stream alone: `Still s s'` =
  "every stream of `s'` was there in `s`, with the same `π`" (no stream is created; streams may be
  removed).  Instantiated with `π = state` (a reset stream stays reset through queue / capacity /
  counter bookkeeping and `transition_after`).  Same continuation-style lemmas as `Quiet`.
-/
namespace H2V.Lemmas.ConnHttpP
open H2V H2V.Model H2V.Model.Conn

def Still (s s' : Streams) : Prop :=
  ∀ k st', s'.store.get? k = some st' → ∃ st, s.store.get? k = some st ∧ st'.state = st.state

@[reducible] def KeepsP (f : Stream → Stream) : Prop := ∀ st, (f st).key = st.key ∧ (f st).state = st.state

theorem Still.refl (s : Streams) : Still s s := fun _ st' h => ⟨st', h, rfl⟩

theorem Still.trans {a b c : Streams} (h1 : Still a b) (h2 : Still b c) : Still a c := fun k st'' h => by
  obtain ⟨st', g', e'⟩ := h2 k st'' h
  obtain ⟨st, g, e⟩ := h1 k st' g'
  exact ⟨st, g, e'.trans e⟩

theorem Still.ite {s a b : Streams} {c : Prop} [Decidable c] (ha : Still s a) (hb : Still s b) :
    Still s (if c then a else b) := by
  split
  · exact ha
  · exact hb

theorem still_of_slab {s s' : Streams} (h : s'.store.slab = s.store.slab) : Still s s' := fun k st' g => by
  refine ⟨st', ?_, rfl⟩
  unfold Store.get? at g ⊢
  rw [← h]; exact g

theorem still_modStream (s : Streams) (k : Nat) (f : Stream → Stream) (hf : KeepsP f) :
    Still s (s.modStream k f) := fun k' st' g => by
  rw [get?_modStream s k f (fun st => (hf st).1)] at g
  split at g
  · rename_i e
    subst e
    cases hg : s.store.get? k' with
    | none => rw [hg] at g; cases g
    | some st =>
      rw [hg] at g
      cases g
      exact ⟨st, rfl, (hf st).2⟩
  · exact ⟨st', g, rfl⟩

theorem still_modStreamW (s : Streams) (k : Nat) (f : Stream → Stream × List String) (hf : KeepsP fun st => (f st).1) :
    Still s (s.modStreamW k f) := by
  have h := still_modStream s k (fun st => (f st).1) hf
  refine Still.trans h (still_of_slab ?_)
  unfold Streams.modStreamW Streams.modStream
  cases s.store.get? k with
  | none => rfl
  | some st => rfl

theorem still_remove (s : Streams) (k n : Nat) :
    Still s { s with store := s.store.remove k, recvBufferLeaked := n } := fun k' st' g => by
  simp only [get?_remove] at g
  split at g
  · cases g
  · exact ⟨st', g, rfl⟩

/-- one step of the `Still` prover; extended by `macro_rules` as lemmas become available (later rules
    are tried first) -/
syntax "still_step" : tactic
macro "still" : tactic => `(tactic| repeat still_step)

macro_rules | `(tactic| still_step) => `(tactic| split)
macro_rules | `(tactic| still_step) => `(tactic| with_reducible apply Still.ite)
macro_rules | `(tactic| still_step) => `(tactic| exact fun st => ⟨rfl, rfl⟩)

theorem Still.modStream {s0 s : Streams} {f : Stream → Stream} (hf : KeepsP f) (h : Still s0 s) (k : Nat) :
    Still s0 (s.modStream k f) := h.trans (still_modStream _ _ _ hf)
macro_rules | `(tactic| still_step) => `(tactic| with_reducible apply Still.modStream)

theorem keepsP_setQueued (q : QName) (v : Bool) : KeepsP fun st => st.setQueued q v := by
  intro st; cases q <;> exact ⟨rfl, rfl⟩
macro_rules | `(tactic| still_step) => `(tactic| exact keepsP_setQueued _ _)

theorem Still.panic {s0 s : Streams} (h : Still s0 s) (m : String) : Still s0 (s.panic m) :=
  h.trans (still_of_slab (by rw [panic_store]))
macro_rules | `(tactic| still_step) => `(tactic| with_reducible apply Still.panic)

theorem Still.unsup {s0 s : Streams} (h : Still s0 s) (m : String) : Still s0 (s.unsup m) := by
  unfold Streams.unsup; split <;> exact h.trans (still_of_slab rfl)
macro_rules | `(tactic| still_step) => `(tactic| with_reducible apply Still.unsup)

theorem Still.wake {s0 s : Streams} (h : Still s0 s) (t : List String) : Still s0 (s.wake t) :=
  h.trans (still_of_slab rfl)
macro_rules | `(tactic| still_step) => `(tactic| with_reducible apply Still.wake)

theorem Still.modPrio {s0 s : Streams} (h : Still s0 s) (f : Prioritize → Prioritize) : Still s0 (s.modPrio f) :=
  h.trans (still_of_slab rfl)
macro_rules | `(tactic| still_step) => `(tactic| with_reducible apply Still.modPrio)
theorem Still.modSend {s0 s : Streams} (h : Still s0 s) (f : Send → Send) : Still s0 (s.modSend f) :=
  h.trans (still_of_slab rfl)
macro_rules | `(tactic| still_step) => `(tactic| with_reducible apply Still.modSend)
theorem Still.modRecv {s0 s : Streams} (h : Still s0 s) (f : Recv → Recv) : Still s0 (s.modRecv f) :=
  h.trans (still_of_slab rfl)
macro_rules | `(tactic| still_step) => `(tactic| with_reducible apply Still.modRecv)
theorem Still.modCounts {s0 s : Streams} (h : Still s0 s) (f : Counts → Counts) : Still s0 (s.modCounts f) :=
  h.trans (still_of_slab rfl)
macro_rules | `(tactic| still_step) => `(tactic| with_reducible apply Still.modCounts)

theorem Still.modCountsA {s0 s : Streams} (h : Still s0 s) (w : String) (f : Counts → Option Counts) :
    Still s0 (s.modCountsA w f) := by
  unfold Streams.modCountsA
  split
  · exact h.trans (still_of_slab rfl)
  · exact h.panic _
macro_rules | `(tactic| still_step) => `(tactic| with_reducible apply Still.modCountsA)

theorem Still.setQ {s0 s : Streams} (h : Still s0 s) (q : QName) (l : List Nat) : Still s0 (s.setQ q l) := by
  cases q <;> exact h.trans (still_of_slab rfl)
macro_rules | `(tactic| still_step) => `(tactic| with_reducible apply Still.setQ)

theorem Still.qPush {s0 s : Streams} (h : Still s0 s) (q : QName) (id : Nat) : Still s0 (s.qPush q id).1 := by
  unfold Streams.qPush
  split
  · exact h
  · exact (h.modStream (keepsP_setQueued q true) _).setQ _ _
macro_rules | `(tactic| still_step) => `(tactic| with_reducible apply Still.qPush)

theorem Still.qPushFront {s0 s : Streams} (h : Still s0 s) (q : QName) (id : Nat) : Still s0 (s.qPushFront q id).1 := by
  unfold Streams.qPushFront
  split
  · exact h
  · exact (h.modStream (keepsP_setQueued q true) _).setQ _ _
macro_rules | `(tactic| still_step) => `(tactic| with_reducible apply Still.qPushFront)

theorem Still.qPop {s0 s : Streams} (h : Still s0 s) (q : QName) : Still s0 (s.qPop q).1 := by
  unfold Streams.qPop
  split
  · exact h
  · exact (h.setQ _ _).modStream (keepsP_setQueued q false) _
macro_rules | `(tactic| still_step) => `(tactic| with_reducible apply Still.qPop)

theorem Still.notifyTask {s0 s : Streams} (h : Still s0 s) : Still s0 s.notifyTask := by
  unfold Streams.notifyTask
  split
  · exact h.trans (still_of_slab rfl)
  · exact h
macro_rules | `(tactic| still_step) => `(tactic| with_reducible apply Still.notifyTask)

macro_rules | `(tactic| still_step) => `(tactic| with_reducible exact Still.refl _)
macro_rules | `(tactic| still_step) => `(tactic| assumption)

theorem Still.scheduleSend {s0 s : Streams} (h : Still s0 s) (id : Nat) : Still s0 (s.scheduleSend id) := by
  unfold Streams.scheduleSend
  still
macro_rules | `(tactic| still_step) => `(tactic| with_reducible apply Still.scheduleSend)

/-! ### stream methods that wake tasks -/

theorem keepsP_notifySend : KeepsP fun st => (Stream.notifySend st).1 := by
  intro st
  simp only [Stream.notifySend]
  cases h1 : st.sendTask <;> cases h2 : st.openTask <;> simp
theorem keepsP_notifyRecv : KeepsP fun st => (Stream.notifyRecv st).1 := by
  intro st; simp only [Stream.notifyRecv]
  cases h : st.recvTask <;> simp
theorem keepsP_notifyPush : KeepsP fun st => (Stream.notifyPush st).1 := by
  intro st; simp only [Stream.notifyPush]
  cases h : st.pushTask <;> simp
theorem KeepsP.comp {f g : Stream → Stream} (hf : KeepsP f) (hg : KeepsP g) : KeepsP fun st => g (f st) := by
  intro st
  exact ⟨(hg (f st)).1.trans (hf st).1, (hg (f st)).2.trans (hf st).2⟩
theorem keepsP_notifyCapacity : KeepsP fun st => (Stream.notifyCapacity st).1 :=
  KeepsP.comp (f := fun st => { st with sendCapacityInc := true }) (fun _ => ⟨rfl, rfl⟩) keepsP_notifySend
theorem keepsP_assignCapacity (c m : Nat) : KeepsP fun st => (Stream.assignCapacity st c m).1 := by
  intro st
  simp only [Stream.assignCapacity]
  split
  · exact keepsP_notifyCapacity { st with sendFlow := (st.sendFlow.assignCapacity c).1 }
  · exact ⟨rfl, rfl⟩

theorem Still.modStreamW {s0 s : Streams} {f : Stream → Stream × List String} (hf : KeepsP fun st => (f st).1)
    (h : Still s0 s) (k : Nat) : Still s0 (s.modStreamW k f) := h.trans (still_modStreamW _ _ _ hf)

theorem Still.mw_notifySend {s0 s : Streams} (h : Still s0 s) (k : Nat) : Still s0 (s.modStreamW k Stream.notifySend) :=
  h.modStreamW keepsP_notifySend k
theorem Still.mw_notifyRecv {s0 s : Streams} (h : Still s0 s) (k : Nat) : Still s0 (s.modStreamW k Stream.notifyRecv) :=
  h.modStreamW keepsP_notifyRecv k
theorem Still.mw_notifyPush {s0 s : Streams} (h : Still s0 s) (k : Nat) : Still s0 (s.modStreamW k Stream.notifyPush) :=
  h.modStreamW keepsP_notifyPush k
theorem Still.mw_assignCapacity {s0 s : Streams} (h : Still s0 s) (k c m : Nat) :
    Still s0 (s.modStreamW k fun st => st.assignCapacity c m) := h.modStreamW (keepsP_assignCapacity c m) k

macro_rules | `(tactic| still_step) => `(tactic| with_reducible apply Still.mw_notifySend)
macro_rules | `(tactic| still_step) => `(tactic| with_reducible apply Still.mw_notifyRecv)
macro_rules | `(tactic| still_step) => `(tactic| with_reducible apply Still.mw_notifyPush)
macro_rules | `(tactic| still_step) => `(tactic| with_reducible apply Still.mw_assignCapacity)

/-! ### counters and `transition_after` -/

theorem Still.incNumRecvStreams {s0 s : Streams} (h : Still s0 s) (id : Nat) : Still s0 (s.incNumRecvStreams id) := by
  unfold Streams.incNumRecvStreams
  still
macro_rules | `(tactic| still_step) => `(tactic| with_reducible apply Still.incNumRecvStreams)

theorem Still.incNumSendStreams {s0 s : Streams} (h : Still s0 s) (id : Nat) : Still s0 (s.incNumSendStreams id) := by
  unfold Streams.incNumSendStreams
  still
macro_rules | `(tactic| still_step) => `(tactic| with_reducible apply Still.incNumSendStreams)

theorem Still.decNumStreams {s0 s : Streams} (h : Still s0 s) (id : Nat) : Still s0 (s.decNumStreams id) := by
  unfold Streams.decNumStreams
  still
macro_rules | `(tactic| still_step) => `(tactic| with_reducible apply Still.decNumStreams)


theorem Still.unlink {s0 s : Streams} (h : Still s0 s) (id : Nat) : Still s0 { s with store := s.store.unlink id } :=
  h.trans (still_of_slab rfl)

theorem Still.transitionAfter {s0 s : Streams} (h : Still s0 s) (id : Nat) (b : Bool) :
    Still s0 (s.transitionAfter id b) := by
  unfold Streams.transitionAfter
  simp only
  have h1 : Still s0 (if (b && !(s.stream id).isPendingResetExpiration) = true then
      s.modCountsA "self.num_local_reset_streams > 0" Counts.decNumResetStreams else s) := by still
  generalize (if (b && !(s.stream id).isPendingResetExpiration) = true then
      s.modCountsA "self.num_local_reset_streams > 0" Counts.decNumResetStreams else s) = s1 at h1 ⊢
  have h2 : Still s0 (if (s.stream id).isClosed = true then
      if (!(s.stream id).state.isScheduledReset && (s.stream id).isCounted) = true then
        (if (!(s.stream id).isPendingResetExpiration) = true then { s1 with store := s1.store.unlink (s.stream id).id }
          else s1).decNumStreams id
      else if (!(s.stream id).isPendingResetExpiration) = true then { s1 with store := s1.store.unlink (s.stream id).id }
        else s1
    else s1) := by
    apply Still.ite
    · apply Still.ite
      · apply Still.decNumStreams
        apply Still.ite
        · exact h1.unlink _
        · exact h1
      · apply Still.ite
        · exact h1.unlink _
        · exact h1
    · exact h1
  generalize (if (s.stream id).isClosed = true then
      if (!(s.stream id).state.isScheduledReset && (s.stream id).isCounted) = true then
        (if (!(s.stream id).isPendingResetExpiration) = true then { s1 with store := s1.store.unlink (s.stream id).id }
          else s1).decNumStreams id
      else if (!(s.stream id).isPendingResetExpiration) = true then { s1 with store := s1.store.unlink (s.stream id).id }
        else s1
    else s1) = s2 at h2 ⊢
  apply Still.ite
  · refine Still.trans ?_ (still_remove _ _ _)
    apply Still.ite
    · exact h2.decNumStreams _
    · exact h2
  · exact h2
macro_rules | `(tactic| still_step) => `(tactic| with_reducible apply Still.transitionAfter)


/-! ### prioritize.rs / send.rs -/

theorem Still.queueFrame {s0 s : Streams} (h : Still s0 s) (id : Nat) (f : SFrame) : Still s0 (s.queueFrame id f) := by
  unfold Streams.queueFrame
  still
macro_rules | `(tactic| still_step) => `(tactic| with_reducible apply Still.queueFrame)

theorem Still.queueOpen {s0 s : Streams} (h : Still s0 s) (id : Nat) : Still s0 (s.queueOpen id) := by
  unfold Streams.queueOpen
  still
macro_rules | `(tactic| still_step) => `(tactic| with_reducible apply Still.queueOpen)

theorem Still.clearQueue {s0 s : Streams} (h : Still s0 s) (id : Nat) : Still s0 (s.clearQueue id) := by
  unfold Streams.clearQueue
  simp only
  still
macro_rules | `(tactic| still_step) => `(tactic| with_reducible apply Still.clearQueue)

theorem Still.tryAssignCapacity {s0 s : Streams} (h : Still s0 s) (id : Nat) : Still s0 (s.tryAssignCapacity id) := by
  unfold Streams.tryAssignCapacity
  simp only
  apply Still.ite h
  apply Still.ite h
  apply Still.ite h
  have h1 : Still s0 (if s.prio.flow.available.asSize > 0 then
      (s.modStreamW id fun st => st.assignCapacity
        (min s.prio.flow.available.asSize (min (wrapSubU32 (s.stream id).requestedSendCapacity (s.stream id).sendFlow.available.asSize)
          (wrapSubU32 (s.stream id).sendFlow.windowSz (s.stream id).sendFlow.available.asSize))) s.prio.maxBufferSize).modPrio
        fun p => { p with flow := (p.flow.claimCapacity (min s.prio.flow.available.asSize
          (min (wrapSubU32 (s.stream id).requestedSendCapacity (s.stream id).sendFlow.available.asSize)
          (wrapSubU32 (s.stream id).sendFlow.windowSz (s.stream id).sendFlow.available.asSize)))).1 }
      else s) := by still
  generalize (if s.prio.flow.available.asSize > 0 then
      (s.modStreamW id fun st => st.assignCapacity
        (min s.prio.flow.available.asSize (min (wrapSubU32 (s.stream id).requestedSendCapacity (s.stream id).sendFlow.available.asSize)
          (wrapSubU32 (s.stream id).sendFlow.windowSz (s.stream id).sendFlow.available.asSize))) s.prio.maxBufferSize).modPrio
        fun p => { p with flow := (p.flow.claimCapacity (min s.prio.flow.available.asSize
          (min (wrapSubU32 (s.stream id).requestedSendCapacity (s.stream id).sendFlow.available.asSize)
          (wrapSubU32 (s.stream id).sendFlow.windowSz (s.stream id).sendFlow.available.asSize)))).1 }
      else s) = s1 at h1 ⊢
  still
macro_rules | `(tactic| still_step) => `(tactic| with_reducible apply Still.tryAssignCapacity)


theorem Still.assignConnectionCapacityLoop {s0 : Streams} : ∀ (fuel : Nat) {s : Streams}, Still s0 s →
    Still s0 (Streams.assignConnectionCapacityLoop fuel s)
  | 0, s, h => h
  | fuel + 1, s, h => by
    unfold Streams.assignConnectionCapacityLoop
    split
    · have hp := h.qPop .pendingCapacity
      generalize s.qPop .pendingCapacity = r at hp ⊢
      obtain ⟨s1, o⟩ := r
      cases o with
      | none => exact hp
      | some id =>
        simp only
        split
        · exact Still.assignConnectionCapacityLoop fuel hp
        · exact Still.assignConnectionCapacityLoop fuel ((hp.tryAssignCapacity id).transitionAfter _ _)
    · exact h

theorem Still.assignConnectionCapacity {s0 s : Streams} (h : Still s0 s) (inc : Nat) :
    Still s0 (s.assignConnectionCapacity inc) := by
  unfold Streams.assignConnectionCapacity
  exact Still.assignConnectionCapacityLoop _ (h.modPrio _)
macro_rules | `(tactic| still_step) => `(tactic| with_reducible apply Still.assignConnectionCapacity)

theorem Still.reclaimAllCapacity {s0 s : Streams} (h : Still s0 s) (id : Nat) : Still s0 (s.reclaimAllCapacity id) := by
  unfold Streams.reclaimAllCapacity
  simp only
  still
macro_rules | `(tactic| still_step) => `(tactic| with_reducible apply Still.reclaimAllCapacity)

theorem Still.reclaimReservedCapacity {s0 s : Streams} (h : Still s0 s) (id : Nat) :
    Still s0 (s.reclaimReservedCapacity id) := by
  unfold Streams.reclaimReservedCapacity
  simp only
  still
macro_rules | `(tactic| still_step) => `(tactic| with_reducible apply Still.reclaimReservedCapacity)

theorem Still.enqueueResetExpiration {s0 s : Streams} (h : Still s0 s) (id : Nat) :
    Still s0 (s.enqueueResetExpiration id) := by
  unfold Streams.enqueueResetExpiration
  simp only
  still
macro_rules | `(tactic| still_step) => `(tactic| with_reducible apply Still.enqueueResetExpiration)


end H2V.Lemmas.ConnHttpP
