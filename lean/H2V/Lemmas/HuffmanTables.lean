import H2V.Model.Huffman
import H2V.Lemmas.HuffmanGo
/-
  Consistency of the 15 generated decode sub-tables with the RFC code and with the path witness
  `pathL`: one kernel-evaluated Boolean check per table, lifted to the semantic `EntryOK`.
-/
namespace H2V.Lemmas.Huffman
open H2V H2V.Spec.Rfc7541 H2V.Spec.Huffman
open H2V.Generated.Huffman (BRANCH TABLE_INDEX_MASK pathL decT)
open H2V.Model.Huffman (lookup)

/-! ### Boolean checkers -/

/-- no entry of the list is a prefix of (or equal to) the `L`-bit string `V` -/
def noPrefix : List (Nat × Nat) → Nat → Nat → Bool
  | [], _, _ => true
  | (n, c) :: rest, L, V => (if n ≤ L then V / 2 ^ (L - n) != c else true) && noPrefix rest L V

def isCode (s n c : Nat) : Bool :=
  match huffmanCode[s]? with
  | some (n', c') => n' == n && c' == c
  | none => false

/-- EOS is completed within the first `K` of the 8 bits `i` read after the path `(plen, pv)` -/
def eosWithin (plen pv i : Nat) : Nat → Bool
  | 0 => false
  | k + 1 =>
    isCode 256 (plen + (k + 1)) (pv * 2 ^ (k + 1) + i / 2 ^ (8 - (k + 1))) || eosWithin plen pv i k

/-- entry `e` at index `i` of the sub-table reached by the bit string `(plen, pv)` -/
def chkEntry (plen pv i e : Nat) : Bool :=
  if e &&& BRANCH = 0 then
    decide (1 ≤ e >>> 8) && decide (e >>> 8 ≤ 8) &&
      isCode (e % 256) (plen + e >>> 8) (pv * 2 ^ (e >>> 8) + i / 2 ^ (8 - e >>> 8))
  else if (e &&& TABLE_INDEX_MASK) >>> 8 = 0 then eosWithin plen pv i 8
  else
    (pathL[(e &&& TABLE_INDEX_MASK) >>> 8]? == some (plen + 8, pv * 256 + i)) &&
      noPrefix huffmanCode (plen + 8) (pv * 256 + i)

def chkTab (plen pv : Nat) : List Nat → Nat → Bool
  | [], _ => true
  | e :: es, i => chkEntry plen pv i e && chkTab plen pv es (i + 1)

def chkTable (plen pv : Nat) (es : List Nat) : Bool := chkTab plen pv es 0 && es.length == 256

/-! ### what a successful check means -/

/-- semantic reading of a decode-table entry `e` at index `i` of the sub-table for `(plen, pv)` -/
structure EntryOK (plen pv i e : Nat) : Prop where
  /-- a leaf consumes `k = e >>> 8 ∈ 1..8` bits and they complete the code of symbol `e % 256` -/
  leaf : e &&& BRANCH = 0 →
    1 ≤ e >>> 8 ∧ e >>> 8 ≤ 8 ∧
      Code (e % 256) (plen + e >>> 8) (pv * 2 ^ (e >>> 8) + i / 2 ^ (8 - e >>> 8))
  /-- "invalid" entries are exactly where EOS gets completed -/
  invalid : e &&& BRANCH ≠ 0 → (e &&& TABLE_INDEX_MASK) >>> 8 = 0 →
    ∃ k, 1 ≤ k ∧ k ≤ 8 ∧ Code 256 (plen + k) (pv * 2 ^ k + i / 2 ^ (8 - k))
  /-- a branch goes to the sub-table of the 8 bits longer path, and no code word ends on the way -/
  branch : e &&& BRANCH ≠ 0 → (e &&& TABLE_INDEX_MASK) >>> 8 ≠ 0 →
    pathL[(e &&& TABLE_INDEX_MASK) >>> 8]? = some (plen + 8, pv * 256 + i) ∧
      NoPre (plen + 8) (pv * 256 + i)

theorem noPrefix_spec : ∀ {C : List (Nat × Nat)} {L V : Nat}, noPrefix C L V = true →
    ∀ {j n c : Nat}, C[j]? = some (n, c) → n ≤ L → V / 2 ^ (L - n) ≠ c
  | [], _, _, _, j, n, c, h, _ => by simp at h
  | (n1, c1) :: rest, L, V, hc, j, n, c, h, hn => by
    simp only [noPrefix, Bool.and_eq_true] at hc
    cases j with
    | zero =>
      simp only [List.getElem?_cons_zero, Option.some.injEq, Prod.mk.injEq] at h
      obtain ⟨rfl, rfl⟩ := h
      simpa [hn] using hc.1
    | succ j =>
      simp only [List.getElem?_cons_succ] at h
      exact noPrefix_spec hc.2 h hn

theorem noPrefix_NoPre {L V : Nat} (h : noPrefix huffmanCode L V = true) : NoPre L V :=
  fun _ _ _ hc hn => noPrefix_spec h hc hn

theorem isCode_spec {s n c : Nat} (h : isCode s n c = true) : Code s n c := by
  unfold isCode at h
  unfold Code
  split at h
  · rename_i n' c' heq
    simp only [Bool.and_eq_true, beq_iff_eq] at h
    rw [heq, h.1, h.2]
  · simp at h

theorem eosWithin_spec {plen pv i : Nat} : ∀ {K : Nat}, eosWithin plen pv i K = true →
    ∃ k, 1 ≤ k ∧ k ≤ K ∧ Code 256 (plen + k) (pv * 2 ^ k + i / 2 ^ (8 - k))
  | 0, h => by simp [eosWithin] at h
  | K + 1, h => by
    simp only [eosWithin, Bool.or_eq_true] at h
    rcases h with h | h
    · exact ⟨K + 1, by omega, by omega, isCode_spec h⟩
    · obtain ⟨k, h1, h2, h3⟩ := eosWithin_spec h
      exact ⟨k, h1, by omega, h3⟩

theorem chkEntry_spec {plen pv i e : Nat} (h : chkEntry plen pv i e = true) :
    EntryOK plen pv i e := by
  unfold chkEntry at h
  split at h
  · rename_i hb
    simp only [Bool.and_eq_true, decide_eq_true_eq] at h
    exact ⟨fun _ => ⟨h.1.1, h.1.2, isCode_spec h.2⟩, fun hn => absurd hb hn, fun hn => absurd hb hn⟩
  · rename_i hb
    split at h
    · rename_i ht
      exact ⟨fun hn => absurd hn hb, fun _ _ => eosWithin_spec h, fun _ hn => absurd ht hn⟩
    · rename_i ht
      simp only [Bool.and_eq_true, beq_iff_eq] at h
      exact ⟨fun hn => absurd hn hb, fun _ hn => absurd hn ht, fun _ _ => ⟨h.1, noPrefix_NoPre h.2⟩⟩

theorem chkTab_spec {plen pv : Nat} : ∀ {es : List Nat} {i0 : Nat}, chkTab plen pv es i0 = true →
    ∀ {j e : Nat}, es[j]? = some e → EntryOK plen pv (i0 + j) e
  | [], _, _, j, e, h => by simp at h
  | e1 :: es, i0, hc, j, e, h => by
    simp only [chkTab, Bool.and_eq_true] at hc
    cases j with
    | zero =>
      simp only [List.getElem?_cons_zero, Option.some.injEq] at h
      subst h
      exact chkEntry_spec hc.1
    | succ j =>
      simp only [List.getElem?_cons_succ] at h
      have := chkTab_spec hc.2 h
      rwa [show i0 + 1 + j = i0 + (j + 1) by omega] at this

/-- sub-table `t` is consistent with the code and with `pathL` -/
def TableOK (t : Nat) : Prop :=
  ∃ plen pv, pathL[t]? = some (plen, pv) ∧ ∀ i, i < 256 → EntryOK plen pv i (lookup t i)

theorem tableOK_of_chk {t plen pv : Nat} {es : List Nat} (hp : pathL[t]? = some (plen, pv))
    (hd : decT[t]? = some es) (hc : chkTable plen pv es = true) : TableOK t := by
  refine ⟨plen, pv, hp, fun i hi => ?_⟩
  simp only [chkTable, Bool.and_eq_true, beq_iff_eq] at hc
  have hl : lookup t i = es[i]'(by omega) := by
    simp only [lookup, List.getD_eq_getElem?_getD, hd, Option.getD_some]
    rw [List.getElem?_eq_getElem (by omega), Option.getD_some]
  have := chkTab_spec hc.1 (List.getElem?_eq_getElem (show i < es.length by omega))
  rw [hl]
  simpa using this

/-! ### the 15 tables -/
open H2V.Generated.Huffman in
theorem table0_chk : chkTable 0 0 dec0 = true := by decide +kernel
open H2V.Generated.Huffman in
theorem table1_chk : chkTable 8 255 dec1 = true := by decide +kernel
open H2V.Generated.Huffman in
theorem table2_chk : chkTable 16 65535 dec2 = true := by decide +kernel
open H2V.Generated.Huffman in
theorem table3_chk : chkTable 24 16777214 dec3 = true := by decide +kernel
open H2V.Generated.Huffman in
theorem table4_chk : chkTable 24 16777215 dec4 = true := by decide +kernel
open H2V.Generated.Huffman in
theorem table5_chk : chkTable 8 254 dec5 = true := by decide +kernel
open H2V.Generated.Huffman in
theorem table6_chk : chkTable 16 65534 dec6 = true := by decide +kernel
open H2V.Generated.Huffman in
theorem table7_chk : chkTable 24 16777208 dec7 = true := by decide +kernel
open H2V.Generated.Huffman in
theorem table8_chk : chkTable 24 16777206 dec8 = true := by decide +kernel
open H2V.Generated.Huffman in
theorem table9_chk : chkTable 24 16777209 dec9 = true := by decide +kernel
open H2V.Generated.Huffman in
theorem table10_chk : chkTable 24 16777211 dec10 = true := by decide +kernel
open H2V.Generated.Huffman in
theorem table11_chk : chkTable 24 16777212 dec11 = true := by decide +kernel
open H2V.Generated.Huffman in
theorem table12_chk : chkTable 24 16777210 dec12 = true := by decide +kernel
open H2V.Generated.Huffman in
theorem table13_chk : chkTable 24 16777207 dec13 = true := by decide +kernel
open H2V.Generated.Huffman in
theorem table14_chk : chkTable 24 16777213 dec14 = true := by decide +kernel

/-- every sub-table is consistent with the RFC code and with `pathL` -/
theorem tables_ok : ∀ {t : Nat}, t < 15 → TableOK t
  | 0, _ => tableOK_of_chk rfl rfl table0_chk
  | 1, _ => tableOK_of_chk rfl rfl table1_chk
  | 2, _ => tableOK_of_chk rfl rfl table2_chk
  | 3, _ => tableOK_of_chk rfl rfl table3_chk
  | 4, _ => tableOK_of_chk rfl rfl table4_chk
  | 5, _ => tableOK_of_chk rfl rfl table5_chk
  | 6, _ => tableOK_of_chk rfl rfl table6_chk
  | 7, _ => tableOK_of_chk rfl rfl table7_chk
  | 8, _ => tableOK_of_chk rfl rfl table8_chk
  | 9, _ => tableOK_of_chk rfl rfl table9_chk
  | 10, _ => tableOK_of_chk rfl rfl table10_chk
  | 11, _ => tableOK_of_chk rfl rfl table11_chk
  | 12, _ => tableOK_of_chk rfl rfl table12_chk
  | 13, _ => tableOK_of_chk rfl rfl table13_chk
  | 14, _ => tableOK_of_chk rfl rfl table14_chk
  | n + 15, h => absurd h (by omega)

theorem pathL_length : pathL.length = 15 := rfl

/-- every leaf entry consumes between 1 and 8 bits: the Rust `while bits >= 8` loop terminates -/
theorem leaf_bits_pos {t i : Nat} (ht : t < 15) (hi : i < 256) (h : lookup t i &&& BRANCH = 0) :
    1 ≤ lookup t i >>> 8 ∧ lookup t i >>> 8 ≤ 8 := by
  obtain ⟨plen, pv, _, hE⟩ := tables_ok ht
  have := (hE i hi).leaf h
  exact ⟨this.1, this.2.1⟩

/-- sub-tables other than the root are reached by at least 8 bits; paths fit in 24 bits -/
theorem pathL_range {t plen pv : Nat} (h : pathL[t]? = some (plen, pv)) :
    (t ≠ 0 → 8 ≤ plen) ∧ plen ≤ 24 ∧ (t = 0 → plen = 0 ∧ pv = 0) := by
  have ht : t < 15 := (List.getElem?_eq_some_iff.mp h).1
  revert h
  match t, ht with
  | 0, _ | 1, _ | 2, _ | 3, _ | 4, _ | 5, _ | 6, _ | 7, _ | 8, _ | 9, _ | 10, _ | 11, _ | 12, _
  | 13, _ | 14, _ =>
    intro h
    simp only [pathL, List.getElem?_cons_succ, List.getElem?_cons_zero, Option.some.injEq,
      Prod.mk.injEq] at h
    omega
  | n + 15, h => omega

end H2V.Lemmas.Huffman
