import H2V.Model.ConnProto
import H2V.Lemmas.ConnRecvPExact
/-
  C03 — part 15: the initial states of the two roles are initial states of `Reach`
  (`Conn.init` / `Conn.initServer`), a checker for concrete op histories, and the history of the
  former finding (repaired as F30): DATA received on a pushed stream that the application never
  polls is now credited back to the connection window when the parent's last handle goes away
  (`pushed_stream_data_credited_back`).
-/
namespace H2V.Lemmas.ConnRecvP
open H2V H2V.Model H2V.Model.Conn
open H2V.Model.Conn.Streams

theorem flowInit_eq : ((FlowControl.new.incWindow Generated.Consts.DEFAULT_INITIAL_WINDOW_SIZE).1.assignCapacity
    Generated.Consts.DEFAULT_INITIAL_WINDOW_SIZE).1 = ⟨⟨65535⟩, ⟨65535⟩⟩ := by decide

/-- a client connection built without `initial_connection_window_size` starts in an `Init` state -/
theorem init_client (cfg : Conn.Cfg) (h : cfg.cws = none) : Init (Conn.init cfg).streams := by
  unfold Conn.init
  simp only [h]
  exact ⟨rfl, rfl, flowInit_eq, rfl, rfl⟩

/-- … with it, in the state after `set_target_window_size` -/
theorem init_client_cws (cfg : Conn.Cfg) (sz : Nat) (h : cfg.cws = some sz) (hsz : sz ≤ 2147483647) :
    Reach (Ghost.init.setTarget sz) (Conn.init cfg).streams := by
  unfold Conn.init
  simp only [h]
  refine Reach.step (.setTargetConnectionWindow sz) (.init ?_) hsz
  exact ⟨rfl, rfl, flowInit_eq, rfl, rfl⟩

theorem init_server (cfg : Conn.Cfg) (ecp : Bool) (pf : Bytes) (h : cfg.cws = none) :
    Init (Conn.initServer cfg ecp pf).streams := by
  unfold Conn.initServer
  simp only [h]
  exact ⟨rfl, rfl, flowInit_eq, rfl, rfl⟩

theorem init_server_cws (cfg : Conn.Cfg) (ecp : Bool) (pf : Bytes) (sz : Nat) (h : cfg.cws = some sz)
    (hsz : sz ≤ 2147483647) : Reach (Ghost.init.setTarget sz) (Conn.initServer cfg ecp pf).streams := by
  unfold Conn.initServer
  simp only [h]
  refine Reach.step (.setTargetConnectionWindow sz) (.init ?_) hsz
  exact ⟨rfl, rfl, flowInit_eq, rfl, rfl⟩

-- ===================================================================== concrete histories

/-- run a list of calls -/
def runOps (s : Streams) (ops : List Op) : Streams := ops.foldl (fun s op => op.apply s) s
def runGhost (g : Ghost) (ops : List Op) : Ghost := ops.foldl (fun g op => op.ghost g) g

/-- executable form of `Op.valid` / `Op.ok` -/
def Op.validB (_s : Streams) : Op → Bool
  | .setTargetConnectionWindow t => decide (t ≤ 2147483647)
  | .applyLocalSettings vals => match settingsIws vals with
    | some t => decide (t ≤ 2147483647)
    | none => true
  | _ => true

theorem Op.valid_of_validB {s : Streams} {op : Op} (h : op.validB s = true) : op.valid s := by
  cases op <;> simp only [Op.valid] <;> (try trivial)
  · next vals =>
    intro t ht
    simp only [Op.validB, ht] at h
    simpa using h
  · simpa [Op.validB] using h

def isOkB {ε : Type} : Except ε Unit → Bool
  | .ok _ => true
  | .error _ => false

def Op.okB (s : Streams) : Op → Bool
  | .applyLocalSettings vals => isOkB (s.applyLocalSettingsFrame vals).2
  | .innerSendReset id r => isOkB (s.innerSendReset id r).2
  | _ => true

theorem isOkB_iff {ε : Type} (r : Except ε Unit) : isOkB r = true ↔ r = .ok () := by
  cases r <;> simp [isOkB]

theorem Op.ok_of_okB {s : Streams} {op : Op} (h : op.okB s = true) : op.ok s := by
  cases op <;> simp only [Op.ok] <;> (try trivial)
  · exact (isOkB_iff _).1 h
  · exact (isOkB_iff _).1 h

/-- every call of the history is valid (and `ok`) in the state in which it is made -/
def allValidOk : Streams → List Op → Bool
  | _, [] => true
  | s, op :: ops => op.validB s && op.okB s && allValidOk (op.apply s) ops

theorem reachOk_runOps {g : Ghost} {s : Streams} (h : ReachOk g s) (ops : List Op) (hv : allValidOk s ops = true) :
    ReachOk (runGhost g ops) (runOps s ops) := by
  induction ops generalizing g s with
  | nil => exact h
  | cons op ops ih =>
    simp only [allValidOk, Bool.and_eq_true] at hv
    exact ih (.step op h (Op.valid_of_validB hv.1.1) (Op.ok_of_okB hv.1.2)) hv.2

-- ===================================================================== the pushed-stream history (F30)

/-- a new client connection whose reset-stream queue is disabled (`max_concurrent_reset_streams(0)`;
    with the default queue the same happens when the entry expires) -/
def leakStart : Streams :=
  { counts := { maxLocalResetStreams := 0 },
    actions := { recv := { flow := ⟨⟨65535⟩, ⟨65535⟩⟩ } } }

/-- the promised request `GET http://a/` on stream 2 -/
def leakPromised : HeadersIn :=
  { sid := 2, eos := false, status := none, method := some [71, 69, 84], scheme := some [104, 116, 116, 112],
    authority := some [97], path := some [47] }

/-- request on stream 1; the peer promises stream 2 (PUSH_PROMISE), answers on it (HEADERS 200) and
    sends 10 octets of DATA; the peer resets stream 2; the application, which never polled the
    pushed stream, drops its two handles of stream 1 -/
def leakOps : List Op :=
  [ .sendRequest false [] false none, .cloneStreamRef 0,
    .recvPushPromise 1 leakPromised,
    .recvHeaders { sid := 2, eos := false, status := some [50, 48, 48] },
    .recvData 2 [1, 2, 3, 4, 5, 6, 7, 8, 9, 10] false none,
    .recvReset 2 8,
    .dropStreamRef 0, .dropStreamRef 0 ]

theorem leakStart_init : Init leakStart := ⟨rfl, rfl, rfl, rfl, rfl⟩

/-- **The former finding, now the positive statement** (F30: `drop_stream_ref` used to only cancel the
    promised streams of the stream that goes away; since the repair it also calls
    `release_closed_capacity` on them).  On the history that used to leave the connection window 10
    octets short for ever, the 10 octets received on the never-polled pushed stream are given back when
    the last handle of the parent goes away: nothing is in flight, `available` is back at the target,
    no stream holds anything, the pushed stream has left the store.  (Before the repair the same
    history ended with `in_flight_data = 10`, `available = 65525`.) -/
theorem pushed_stream_data_credited_back :
    ReachOk Ghost.init (runOps leakStart leakOps) ∧
    cI (runOps leakStart leakOps) = 0 ∧ cA (runOps leakStart leakOps) = 65535 ∧
    sumInfl (runOps leakStart leakOps).store.slab = 0 ∧
    (runOps leakStart leakOps).store.slab.map (fun x => (x.id, x.refCount, x.inFlightRecvData)) = [(1, 0, 0)] ∧
    (runOps leakStart leakOps).panicked = none := by
  refine ⟨reachOk_runOps (.init leakStart_init) leakOps (by decide +kernel), ?_⟩
  decide +kernel

/-- the octets were really in flight before the handles went away (the history is not trivial) -/
theorem pushed_stream_data_in_flight :
    cI (runOps leakStart (leakOps.take 6)) = 10 ∧ cA (runOps leakStart (leakOps.take 6)) = 65525 ∧
    (runOps leakStart (leakOps.take 6)).store.slab.map (fun x => (x.id, x.refCount, x.inFlightRecvData)) =
      [(1, 2, 0), (2, 0, 10)] := by
  decide +kernel

end H2V.Lemmas.ConnRecvP
