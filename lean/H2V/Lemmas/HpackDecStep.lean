import H2V.Lemmas.HpackDecInt
import H2V.Lemmas.HpackDecTable
/-
  One iteration of the `while let Some(ty) = peek_u8(src)` loop of `Decoder::decode` as a function
  (`step`), so that every loop property is a property of one step plus an induction on the fuel.
-/
namespace H2V.Lemmas.HpackDec
open H2V H2V.Model.Hpack H2V.Generated.Static

/-- outcome of one loop iteration -/
inductive Step where
  /-- the loop returns: decoder, what is left in the buffer, result -/
  | stop (d : Decoder) (tail : Bytes) (res : Except DErr Unit)
  /-- the loop goes on: decoder, `can_resize`, rest of the buffer, emitted fields (0 or 1) -/
  | next (d : Decoder) (canResize : Bool) (rest : Bytes) (emit : List Header)

/-- a field representation: sets `seen_field`, then decodes -/
def stepLiteral (d : Decoder) (buf : Bytes) (index : Bool) : Step :=
  let d := { d with seenField := true }
  match decodeLiteral d.table buf index with
  | .error (e, tl) => .stop d tl (.error e)
  | .ok (h, rest) =>
    .next (if index then { d with table := d.table.insert h } else d) false rest [h]

def step (d : Decoder) (canResize : Bool) (buf : Bytes) : Step :=
  match buf with
  | [] => .stop d [] (.ok ())
  | ty :: _ =>
    match Rep.load ty with
    | .error e => .stop d buf (.error e)
    | .ok .indexed =>
      let d := { d with seenField := true }
      match decodeInt buf 7 with
      | .error e => .stop d buf (.error e)
      | .ok (index, rest) =>
        match d.table.get index with
        | .error e => .stop d buf (.error e)
        | .ok h => .next d false rest [h]
    | .ok .literalWithIndexing => stepLiteral d buf true
    | .ok .literalWithoutIndexing => stepLiteral d buf false
    | .ok .literalNeverIndexed => stepLiteral d buf false
    | .ok .sizeUpdate =>
      if ¬ canResize then .stop d buf (.error .invalidMaxDynamicSize)
      else
        match decodeInt buf 5 with
        | .error e => .stop d buf (.error e)
        | .ok (newSize, rest) =>
          if newSize > d.lastMaxUpdate then .stop d buf (.error .invalidMaxDynamicSize)
          else
            match d.table.setMaxSize newSize with
            | none => .stop d buf (.error .panic)
            | some t => .next { d with table := t } canResize rest []

theorem decodeLoop_zero (d : Decoder) (c : Bool) (buf : Bytes) (acc : List Header) :
    decodeLoop 0 d c buf acc = ⟨acc, d, buf, if buf.isEmpty then .ok () else .error .fuel⟩ := rfl

theorem decodeLoop_succ (fuel : Nat) (d : Decoder) (c : Bool) (buf : Bytes) (acc : List Header) :
    decodeLoop (fuel + 1) d c buf acc =
      match step d c buf with
      | .stop d' tl res => ⟨acc, d', tl, res⟩
      | .next d' c' rest emit => decodeLoop fuel d' c' rest (acc ++ emit) := by
  cases buf with
  | nil => rfl
  | cons ty tl =>
    simp only [decodeLoop, step]
    cases Rep.load ty with
    | error e => rfl
    | ok r =>
      cases r with
      | indexed =>
        simp only
        cases decodeInt (ty :: tl) 7 with
        | error e => rfl
        | ok r =>
          obtain ⟨index, rest⟩ := r
          simp only
          cases d.table.get index <;> rfl
      | literalWithIndexing =>
        simp only [stepLiteral]
        cases decodeLiteral d.table (ty :: tl) true with
        | error e => rfl
        | ok r => rfl
      | literalWithoutIndexing =>
        simp only [stepLiteral]
        cases decodeLiteral d.table (ty :: tl) false with
        | error e => rfl
        | ok r => rfl
      | literalNeverIndexed =>
        simp only [stepLiteral]
        cases decodeLiteral d.table (ty :: tl) false with
        | error e => rfl
        | ok r => rfl
      | sizeUpdate =>
        simp only
        cases c with
        | false => rfl
        | true =>
          simp only [Bool.not_eq_true, Bool.true_eq_false, if_false]
          cases decodeInt (ty :: tl) 5 with
          | error e => rfl
          | ok r =>
            obtain ⟨newSize, rest⟩ := r
            simp only
            by_cases hgt : newSize > d.lastMaxUpdate
            · simp only [if_pos hgt, not_true_eq_false, if_false]
            · simp only [if_neg hgt, not_true_eq_false, if_false]
              cases d.table.setMaxSize newSize with
              | none => rfl
              | some t => simp

end H2V.Lemmas.HpackDec
