import H2V.Lemmas.HpackDecLit
/-
  One iteration of the `while let Some(ty) = peek_u8(src)` loop of `Decoder::decode` as a function
  (`step`), so that every loop property is a property of one step plus an induction on the fuel.
-/
namespace H2V.Lemmas.HpackDec
open H2V H2V.Model.Hpack H2V.Generated.Static

/-- outcome of one loop iteration -/
inductive Step where
  /-- the loop returns: decoder, what is left in the buffer, result -/
  | stop (d : Decoder) (tail : Bytes) (res : Except DErr Unit)
  /-- the loop goes on: decoder, `can_resize`, rest of the buffer, emitted fields (0 or 1) -/
  | next (d : Decoder) (canResize : Bool) (rest : Bytes) (emit : List Header)

/-- a field representation: sets `seen_field`, then decodes -/
def stepLiteral (d : Decoder) (buf : Bytes) (index : Bool) : Step :=
  let d := { d with seenField := true }
  match decodeLiteral d.table buf index with
  | .error (e, tl) => .stop d tl (.error e)
  | .ok (h, rest) =>
    .next (if index then { d with table := d.table.insert h } else d) false rest [h]

def step (d : Decoder) (canResize : Bool) (buf : Bytes) : Step :=
  match buf with
  | [] => .stop d [] (.ok ())
  | ty :: _ =>
    match Rep.load ty with
    | .error e => .stop d buf (.error e)
    | .ok .indexed =>
      let d := { d with seenField := true }
      match decodeInt buf 7 with
      | .error e => .stop d buf (.error e)
      | .ok (index, rest) =>
        match d.table.get index with
        | .error e => .stop d buf (.error e)
        | .ok h => .next d false rest [h]
    | .ok .literalWithIndexing => stepLiteral d buf true
    | .ok .literalWithoutIndexing => stepLiteral d buf false
    | .ok .literalNeverIndexed => stepLiteral d buf false
    | .ok .sizeUpdate =>
      if ¬ canResize then .stop d buf (.error .invalidMaxDynamicSize)
      else
        match decodeInt buf 5 with
        | .error e => .stop d buf (.error e)
        | .ok (newSize, rest) =>
          if newSize > d.lastMaxUpdate then .stop d buf (.error .invalidMaxDynamicSize)
          else
            match d.table.setMaxSize newSize with
            | none => .stop d buf (.error .panic)
            | some t => .next { d with table := t } canResize rest []

theorem decodeLoop_zero (d : Decoder) (c : Bool) (buf : Bytes) (acc : List Header) :
    decodeLoop 0 d c buf acc = ⟨acc, d, buf, if buf.isEmpty then .ok () else .error .fuel⟩ := rfl

theorem decodeLoop_succ (fuel : Nat) (d : Decoder) (c : Bool) (buf : Bytes) (acc : List Header) :
    decodeLoop (fuel + 1) d c buf acc =
      match step d c buf with
      | .stop d' tl res => ⟨acc, d', tl, res⟩
      | .next d' c' rest emit => decodeLoop fuel d' c' rest (acc ++ emit) := by
  cases buf with
  | nil => rfl
  | cons ty tl =>
    simp only [decodeLoop, step]
    cases Rep.load ty with
    | error e => rfl
    | ok r =>
      cases r with
      | indexed =>
        simp only
        cases decodeInt (ty :: tl) 7 with
        | error e => rfl
        | ok r =>
          obtain ⟨index, rest⟩ := r
          simp only
          cases d.table.get index <;> rfl
      | literalWithIndexing =>
        simp only [stepLiteral]
        cases decodeLiteral d.table (ty :: tl) true with
        | error e => rfl
        | ok r => rfl
      | literalWithoutIndexing =>
        simp only [stepLiteral]
        cases decodeLiteral d.table (ty :: tl) false with
        | error e => rfl
        | ok r => rfl
      | literalNeverIndexed =>
        simp only [stepLiteral]
        cases decodeLiteral d.table (ty :: tl) false with
        | error e => rfl
        | ok r => rfl
      | sizeUpdate =>
        simp only
        cases c with
        | false => rfl
        | true =>
          simp only
          cases decodeInt (ty :: tl) 5 with
          | error e => rfl
          | ok r =>
            obtain ⟨newSize, rest⟩ := r
            simp only
            by_cases hgt : newSize > d.lastMaxUpdate
            · simp only [if_pos hgt, not_true_eq_false, if_false]
            · simp only [if_neg hgt, not_true_eq_false, if_false]
              cases d.table.setMaxSize newSize with
              | none => rfl
              | some t => simp

/-! ### `Representation::load` on an octet -/

/-- the RFC 7541 §6 pattern of a first octet -/
def repOf (ty : Nat) : Rep :=
  if ty ≥ 128 then .indexed else if ty ≥ 64 then .literalWithIndexing else if ty ≥ 32 then .sizeUpdate
  else if ty ≥ 16 then .literalNeverIndexed else .literalWithoutIndexing

def loadOpt (ty : Nat) : Option Rep := match Rep.load ty with | .ok r => some r | .error _ => none

theorem loadOpt_eq : ∀ ty, ty < 256 → loadOpt ty = some (repOf ty) := by decide +kernel

/-- `Representation::load` is total on octets (`InvalidRepresentation` is dead code) -/
theorem Rep_load_eq (ty : Nat) (h : ty < 256) : Rep.load ty = .ok (repOf ty) := by
  have := loadOpt_eq ty h
  unfold loadOpt at this
  split at this
  · rename_i r hr; rw [hr]; simp only [Option.some.injEq] at this; rw [this]
  · cases this

theorem Rep_load_err (ty : Nat) (e : DErr) (h : Rep.load ty = .error e) : e = .invalidRepresentation := by
  unfold Rep.load at h
  repeat' split at h
  all_goals first | (cases h; rfl) | cases h

/-! ### what one step does to the decoder -/

/-- the fields of the decoder that the loop never writes -/
structure SameCfg (d d' : Decoder) : Prop where
  lmu : d'.lastMaxUpdate = d.lastMaxUpdate
  msu : d'.maxSizeUpdate = d.maxSizeUpdate
  cont : d'.continuing = d.continuing

theorem SameCfg.refl (d : Decoder) : SameCfg d d := ⟨rfl, rfl, rfl⟩

theorem SameCfg.trans {a b c : Decoder} (h1 : SameCfg a b) (h2 : SameCfg b c) : SameCfg a c :=
  ⟨h2.lmu.trans h1.lmu, h2.msu.trans h1.msu, h2.cont.trans h1.cont⟩

theorem stepLiteral_next_inv (d : Decoder) (buf : Bytes) (index : Bool) (d' : Decoder) (c' : Bool)
    (rest : Bytes) (emit : List Header) (h : stepLiteral d buf index = .next d' c' rest emit) :
    ∃ hd, decodeLiteral d.table buf index = .ok (hd, rest) ∧ emit = [hd] ∧ c' = false ∧
      d' = (if index then { d with seenField := true, table := d.table.insert hd }
            else { d with seenField := true }) := by
  unfold stepLiteral at h
  simp only at h
  split at h
  · cases h
  · rename_i hd rest0 hk
    simp only [Step.next.injEq] at h
    obtain ⟨h1, h2, h3, h4⟩ := h
    subst h3
    exact ⟨hd, hk, h4.symm, h2.symm, by rw [← h1]⟩

theorem stepLiteral_stop_inv (d : Decoder) (buf : Bytes) (index : Bool) (d' : Decoder)
    (tl : Bytes) (res : Except DErr Unit) (h : stepLiteral d buf index = .stop d' tl res) :
    ∃ e, decodeLiteral d.table buf index = .error (e, tl) ∧ res = .error e ∧
      d' = { d with seenField := true } := by
  unfold stepLiteral at h
  simp only at h
  split at h
  · rename_i e tl0 hk
    simp only [Step.stop.injEq] at h
    obtain ⟨h1, h2, h3⟩ := h
    subst h2
    exact ⟨e, hk, h3.symm, h1.symm⟩
  · cases h

/-- P1 — a continuing step: consumes at least one octet, keeps the configuration, keeps
    `can_resize = !seen_field`, keeps the table invariant -/
theorem step_next_props (d : Decoder) (c : Bool) (buf : Bytes) (d' : Decoder) (c' : Bool)
    (rest : Bytes) (emit : List Header) (h : step d c buf = .next d' c' rest emit) :
    (∃ pre, buf = pre ++ rest ∧ 1 ≤ pre.length) ∧ SameCfg d d' ∧
    (c = !d.seenField → c' = !d'.seenField) ∧
    (Table.Inv d.table → Table.Inv d'.table ∧
      (d'.table.maxSize = d.table.maxSize ∨ d'.table.maxSize ≤ d.lastMaxUpdate)) := by
  have lit : ∀ index, stepLiteral d buf index = .next d' c' rest emit →
      (∃ pre, buf = pre ++ rest ∧ 1 ≤ pre.length) ∧ SameCfg d d' ∧
      (c = !d.seenField → c' = !d'.seenField) ∧
      (Table.Inv d.table → Table.Inv d'.table ∧
        (d'.table.maxSize = d.table.maxSize ∨ d'.table.maxSize ≤ d.lastMaxUpdate)) := by
    intro index hl
    obtain ⟨hd, hk, -, hc, hd'⟩ := stepLiteral_next_inv _ _ _ _ _ _ _ hl
    refine ⟨decodeLiteral_shape _ _ _ _ _ hk, ?_, ?_, ?_⟩
    · subst hd'; cases index <;> exact ⟨rfl, rfl, rfl⟩
    · intro _; subst hd' hc; cases index <;> rfl
    · intro hi
      subst hd'
      cases index
      · exact ⟨hi, Or.inl rfl⟩
      · exact ⟨insert_preserves_inv _ _ hi, Or.inl (insert_maxSize _ _ hi.sizeOk)⟩
  unfold step at h
  cases buf with
  | nil => cases h
  | cons ty tl0 =>
    simp only at h
    split at h
    · cases h
    · split at h
      · cases h
      · rename_i index rest0 hdi
        split at h
        · cases h
        · simp only [Step.next.injEq] at h
          obtain ⟨h1, h2, h3, h4⟩ := h
          subst h1 h2 h3
          obtain ⟨pre, hpre, hl, -⟩ := decodeInt_shape _ _ _ _ hdi
          exact ⟨⟨pre, hpre, hl⟩, ⟨rfl, rfl, rfl⟩, fun _ => rfl, fun hi => ⟨hi, Or.inl rfl⟩⟩
    · exact lit _ h
    · exact lit _ h
    · exact lit _ h
    · split at h
      · cases h
      · split at h
        · cases h
        · rename_i newSize rest0 hdi
          split at h
          · cases h
          · rename_i hle
            split at h
            · cases h
            · rename_i t ht
              simp only [Step.next.injEq] at h
              obtain ⟨h1, h2, h3, h4⟩ := h
              subst h1 h2 h3
              obtain ⟨pre, hpre, hl, -⟩ := decodeInt_shape _ _ _ _ hdi
              refine ⟨⟨pre, hpre, hl⟩, ⟨rfl, rfl, rfl⟩, fun hc => hc, fun hi => ?_⟩
              obtain ⟨i1, i2⟩ := setMaxSize_preserves_inv _ _ _ hi ht
              exact ⟨i1, Or.inr (by simp only [i2]; omega)⟩

/-- P2 — a returning step: the table is untouched; `Ok` only on an empty buffer; a `NeedMore`
    error leaves the whole representation in the buffer -/
theorem step_stop_props (d : Decoder) (c : Bool) (buf : Bytes) (d' : Decoder)
    (tl : Bytes) (res : Except DErr Unit) (h : step d c buf = .stop d' tl res) :
    (d' = d ∨ d' = { d with seenField := true }) ∧
    (res = .ok () → buf = [] ∧ tl = [] ∧ d' = d) ∧
    (∀ e, res = .error e → e.isNeedMore = true → tl = buf) := by
  have lit : ∀ index, stepLiteral d buf index = .stop d' tl res →
      (d' = d ∨ d' = { d with seenField := true }) ∧
      (res = .ok () → buf = [] ∧ tl = [] ∧ d' = d) ∧
      (∀ e, res = .error e → e.isNeedMore = true → tl = buf) := by
    intro index hl
    obtain ⟨e, hk, hr, hd'⟩ := stepLiteral_stop_inv _ _ _ _ _ _ hl
    subst hr
    refine ⟨Or.inr hd', (fun hc => by cases hc), fun e' he hn => ?_⟩
    cases he
    exact decodeLiteral_needMore_tail _ _ _ _ _ hk hn
  unfold step at h
  cases buf with
  | nil =>
    simp only [Step.stop.injEq] at h
    obtain ⟨h1, h2, h3⟩ := h
    subst h1 h2 h3
    exact ⟨Or.inl rfl, fun _ => ⟨rfl, rfl, rfl⟩, fun e he => by cases he⟩
  | cons ty tl0 =>
    simp only at h
    have stopErr : ∀ (d0 : Decoder) (e : DErr), (d0 = d ∨ d0 = { d with seenField := true }) →
        Step.stop d0 (ty :: tl0) (Except.error e) = Step.stop d' tl res →
        (d' = d ∨ d' = { d with seenField := true }) ∧
        (res = .ok () → ty :: tl0 = [] ∧ tl = [] ∧ d' = d) ∧
        (∀ e, res = .error e → e.isNeedMore = true → tl = ty :: tl0) := by
      intro d0 e hd0 he
      simp only [Step.stop.injEq] at he
      obtain ⟨h1, h2, h3⟩ := he
      subst h1 h2 h3
      exact ⟨hd0, (fun hc => by cases hc), fun _ _ _ => rfl⟩
    split at h
    · exact stopErr _ _ (Or.inl rfl) h
    · split at h
      · exact stopErr _ _ (Or.inr rfl) h
      · split at h
        · exact stopErr _ _ (Or.inr rfl) h
        · cases h
    · exact lit _ h
    · exact lit _ h
    · exact lit _ h
    · split at h
      · exact stopErr _ _ (Or.inl rfl) h
      · split at h
        · exact stopErr _ _ (Or.inl rfl) h
        · split at h
          · exact stopErr _ _ (Or.inl rfl) h
          · split at h
            · exact stopErr _ _ (Or.inl rfl) h
            · cases h

theorem step_stop_sameCfg (d : Decoder) (c : Bool) (buf : Bytes) (d' : Decoder)
    (tl : Bytes) (res : Except DErr Unit) (h : step d c buf = .stop d' tl res) :
    SameCfg d d' ∧ d'.table = d.table ∧ (c = !d.seenField → res ≠ .ok () → True) := by
  rcases (step_stop_props _ _ _ _ _ _ h).1 with rfl | rfl
  · exact ⟨⟨rfl, rfl, rfl⟩, rfl, fun _ _ => trivial⟩
  · exact ⟨⟨rfl, rfl, rfl⟩, rfl, fun _ _ => trivial⟩

/-- P3 — the errors a step returns are Rust errors: never the model's `fuel`, and never `panic`
    as long as `size` is exact -/
theorem step_stop_err (hHuff : HuffSpec) (d : Decoder) (c : Bool) (buf : Bytes) (d' : Decoder)
    (tl : Bytes) (e : DErr) (hv : Bytes.Valid buf) (hs : Table.SizeOk d.table)
    (h : step d c buf = .stop d' tl (.error e)) : e.isModelOnly = false := by
  have lit : ∀ index, stepLiteral d buf index = .stop d' tl (.error e) → e.isModelOnly = false := by
    intro index hl
    obtain ⟨e', hk, hr, -⟩ := stepLiteral_stop_inv _ _ _ _ _ _ hl
    cases hr
    exact decodeLiteral_err hHuff _ _ _ _ _ hv hk
  unfold step at h
  cases buf with
  | nil => cases h
  | cons ty tl0 =>
    simp only at h
    split at h
    · rename_i e' hr
      simp only [Step.stop.injEq, Except.error.injEq] at h
      rw [← h.2.2, Rep_load_err _ _ hr]; rfl
    · split at h
      · rename_i e' hdi
        simp only [Step.stop.injEq, Except.error.injEq] at h
        rw [← h.2.2]
        rcases decodeInt_err _ _ _ (by decide) hdi with rfl | rfl <;> rfl
      · split at h
        · rename_i e' hg
          simp only [Step.stop.injEq, Except.error.injEq] at h
          rw [← h.2.2, Table.get_err _ _ _ hg]; rfl
        · cases h
    · exact lit _ h
    · exact lit _ h
    · exact lit _ h
    · split at h
      · simp only [Step.stop.injEq, Except.error.injEq] at h
        rw [← h.2.2]; rfl
      · split at h
        · rename_i e' hdi
          simp only [Step.stop.injEq, Except.error.injEq] at h
          rw [← h.2.2]
          rcases decodeInt_err _ _ _ (by decide) hdi with rfl | rfl <;> rfl
        · split at h
          · simp only [Step.stop.injEq, Except.error.injEq] at h
            rw [← h.2.2]; rfl
          · split at h
            · rename_i hnone
              exact absurd hnone (consolidate_ne_none _ _ hs)
            · cases h

end H2V.Lemmas.HpackDec
