import H2V.Model.ConnStreams
import H2V.Lemmas.ConnResetPAttr
/-
  ConnResetP — base layer: the store (`get?` / `set` / `remove` / `insert`), the primitive state
  transformers of `Streams` (`panic`, `wake`, `modStream`, `modStreamW`, `modPrio`, …) and the six
  intrusive queues (`qPush`, `qPop`), as `simp` lemmas about
      * `(… s).store.get? k`   (which slab entry a key names afterwards), and
      * the other fields (`counts`, `actions`, `panicked`, …).
  No uniqueness-of-keys invariant is needed: `Store.set` replaces *every* entry with the key and
  `get?` returns the first one.
-/
namespace H2V.Lemmas.ConnResetP
open H2V H2V.Model H2V.Model.Conn

-- ===================================================================== Store

theorem Store.get?_key {st : Store} {k : Nat} {x : Stream} (h : st.get? k = some x) : x.key = k := by
  unfold Store.get? at h
  have := List.find?_some h
  simpa using this

theorem find?_map_set_ne (l : List Stream) (x : Stream) (k : Nat) (hk : k ≠ x.key) :
    (l.map fun y => if y.key == x.key then x else y).find? (·.key == k) = l.find? (·.key == k) := by
  induction l with
  | nil => rfl
  | cons a l ih =>
    simp only [List.map_cons, List.find?_cons]
    by_cases ha : a.key = x.key
    · have h1 : (a.key == x.key) = true := by simp [ha]
      have h2 : (x.key == k) = false := by simp; exact fun h => hk h.symm
      have h3 : (a.key == k) = false := by simp [ha]; exact fun h => hk h.symm
      simp only [h1, if_true, h2, h3, ih]
    · have h1 : (a.key == x.key) = false := by simp [ha]
      simp only [h1, ih]; rfl

theorem find?_map_set_eq (l : List Stream) (x : Stream) :
    (l.map fun y => if y.key == x.key then x else y).find? (·.key == x.key) =
      (l.find? (·.key == x.key)).map (fun _ => x) := by
  induction l with
  | nil => rfl
  | cons a l ih =>
    simp only [List.map_cons, List.find?_cons]
    by_cases ha : a.key = x.key
    · have h1 : (a.key == x.key) = true := by simp [ha]
      have h2 : (x.key == x.key) = true := by simp
      simp only [h1, if_true, h2, Option.map_some]
    · have h1 : (a.key == x.key) = false := by simp [ha]
      simp only [h1, ih, Bool.false_eq_true, if_false]

theorem Store.get?_set_ne (st : Store) (x : Stream) (k : Nat) (hk : k ≠ x.key) :
    (st.set x).get? k = st.get? k := find?_map_set_ne _ _ _ hk

theorem Store.get?_set_eq (st : Store) (x : Stream) :
    (st.set x).get? x.key = (st.get? x.key).map (fun _ => x) := find?_map_set_eq _ _

theorem Store.get?_set (st : Store) (x : Stream) (k : Nat) :
    (st.set x).get? k = if k = x.key then (st.get? k).map (fun _ => x) else st.get? k := by
  by_cases h : k = x.key
  · subst h; simp [Store.get?_set_eq]
  · simp [h, Store.get?_set_ne _ _ _ h]

theorem Store.get?_remove (st : Store) (k k' : Nat) :
    (st.remove k).get? k' = if k' = k then none else st.get? k' := by
  unfold Store.remove Store.get?
  simp only
  induction st.slab with
  | nil => simp
  | cons a l ih =>
    simp only [List.filter_cons]
    by_cases ha : a.key = k
    · simp only [ha, bne_self_eq_false, Bool.false_eq_true, if_false, ih, List.find?_cons]
      by_cases hk : k' = k
      · simp [hk]
      · have : (k == k') = false := by simp; exact fun h => hk h.symm
        simp [hk, this]
    · have : (a.key != k) = true := by simp [ha]
      simp only [this, if_true, List.find?_cons, ih]
      by_cases hk : k' = k
      · have : (a.key == k) = false := by simp [ha]
        simp [hk, this]
      · simp [hk]

@[simp] theorem Store.get?_unlink (st : Store) (id k : Nat) : (st.unlink id).get? k = st.get? k := rfl
@[simp] theorem Store.ids_set (st : Store) (x : Stream) : (st.set x).ids = st.ids := rfl
@[simp] theorem Store.ids_remove (st : Store) (k : Nat) : (st.remove k).ids = st.ids := rfl
@[simp] theorem Store.nextKey_set (st : Store) (x : Stream) : (st.set x).nextKey = st.nextKey := rfl
@[simp] theorem Store.nextKey_remove (st : Store) (k : Nat) : (st.remove k).nextKey = st.nextKey := rfl
@[simp] theorem Store.nextKey_unlink (st : Store) (k : Nat) : (st.unlink k).nextKey = st.nextKey := rfl
@[simp] theorem Store.slab_unlink (st : Store) (k : Nat) : (st.unlink k).slab = st.slab := rfl

/-- all keys in the slab are below `nextKey` (so `insert` hands out a fresh key) -/
def Store.KeysFresh (st : Store) : Prop := ∀ x ∈ st.slab, x.key < st.nextKey

theorem Store.get?_none_of_fresh {st : Store} (h : Store.KeysFresh st) {k : Nat} (hk : st.nextKey ≤ k) :
    st.get? k = none := by
  unfold Store.get?
  rw [List.find?_eq_none]
  intro x hx
  have := h x hx
  simp; omega

theorem Store.get?_insert (st : Store) (x : Stream) (k : Nat) (hf : Store.KeysFresh st) :
    (st.insert x).1.get? k =
      if k = st.nextKey then some { x with key := st.nextKey } else st.get? k := by
  unfold Store.insert Store.get?
  simp only [List.find?_append]
  by_cases hk : k = st.nextKey
  · subst hk
    have : st.slab.find? (·.key == st.nextKey) = none := Store.get?_none_of_fresh hf (Nat.le_refl _)
    simp [this]
  · simp only [hk, if_false]
    cases h : st.slab.find? (·.key == k) with
    | some y => simp
    | none =>
      have : (st.nextKey == k) = false := by simp; exact fun h => hk h.symm
      simp [this]

@[simp] theorem Store.insert_snd (st : Store) (x : Stream) : (st.insert x).2 = st.nextKey := rfl
@[simp] theorem Store.insert_nextKey (st : Store) (x : Stream) : (st.insert x).1.nextKey = st.nextKey + 1 := rfl

-- ===================================================================== Streams: primitive transformers

section prim
variable (s : Streams)

@[simp, crp_store] theorem panic_store (m : String) : (s.panic m).store = s.store := by unfold Streams.panic; split <;> rfl
@[simp] theorem panic_counts (m : String) : (s.panic m).counts = s.counts := by unfold Streams.panic; split <;> rfl
@[simp] theorem panic_actions (m : String) : (s.panic m).actions = s.actions := by unfold Streams.panic; split <;> rfl
@[simp] theorem panic_refs (m : String) : (s.panic m).refs = s.refs := by unfold Streams.panic; split <;> rfl
@[simp] theorem panic_wakes (m : String) : (s.panic m).wakes = s.wakes := by unfold Streams.panic; split <;> rfl
@[simp] theorem panic_unsupported (m : String) : (s.panic m).unsupported = s.unsupported := by unfold Streams.panic; split <;> rfl
@[simp] theorem panic_leaked (m : String) : (s.panic m).recvBufferLeaked = s.recvBufferLeaked := by unfold Streams.panic; split <;> rfl

@[simp, crp_store] theorem unsup_store (m : String) : (s.unsup m).store = s.store := by unfold Streams.unsup; split <;> rfl
@[simp] theorem unsup_counts (m : String) : (s.unsup m).counts = s.counts := by unfold Streams.unsup; split <;> rfl
@[simp] theorem unsup_actions (m : String) : (s.unsup m).actions = s.actions := by unfold Streams.unsup; split <;> rfl
@[simp] theorem unsup_panicked (m : String) : (s.unsup m).panicked = s.panicked := by unfold Streams.unsup; split <;> rfl

@[simp, crp_store] theorem wake_store (t : List String) : (s.wake t).store = s.store := rfl
@[simp] theorem wake_counts (t : List String) : (s.wake t).counts = s.counts := rfl
@[simp] theorem wake_actions (t : List String) : (s.wake t).actions = s.actions := rfl
@[simp] theorem wake_panicked (t : List String) : (s.wake t).panicked = s.panicked := rfl
@[simp] theorem wake_refs (t : List String) : (s.wake t).refs = s.refs := rfl

@[simp, crp_store] theorem notifyTask_store : s.notifyTask.store = s.store := by unfold Streams.notifyTask; split <;> rfl
@[simp] theorem notifyTask_counts : s.notifyTask.counts = s.counts := by unfold Streams.notifyTask; split <;> rfl
@[simp] theorem notifyTask_panicked : s.notifyTask.panicked = s.panicked := by unfold Streams.notifyTask; split <;> rfl
@[simp] theorem notifyTask_refs : s.notifyTask.refs = s.refs := by unfold Streams.notifyTask; split <;> rfl
@[simp] theorem notifyTask_send : s.notifyTask.actions.send = s.actions.send := by unfold Streams.notifyTask; split <;> rfl
@[simp] theorem notifyTask_recv : s.notifyTask.actions.recv = s.actions.recv := by unfold Streams.notifyTask; split <;> rfl
@[simp] theorem notifyTask_connError : s.notifyTask.actions.connError = s.actions.connError := by
  unfold Streams.notifyTask; split <;> rfl
@[simp] theorem notifyTask_prio : s.notifyTask.prio = s.prio := by unfold Streams.prio; simp
@[simp] theorem notifyTask_recv' : s.notifyTask.recv = s.recv := by unfold Streams.recv; simp

@[simp, crp_store] theorem modPrio_store (f : Prioritize → Prioritize) : (s.modPrio f).store = s.store := rfl
@[simp] theorem modPrio_counts (f : Prioritize → Prioritize) : (s.modPrio f).counts = s.counts := rfl
@[simp] theorem modPrio_panicked (f : Prioritize → Prioritize) : (s.modPrio f).panicked = s.panicked := rfl
@[simp] theorem modPrio_refs (f : Prioritize → Prioritize) : (s.modPrio f).refs = s.refs := rfl
@[simp] theorem modPrio_prio (f : Prioritize → Prioritize) : (s.modPrio f).prio = f s.prio := rfl
@[simp] theorem modPrio_recv (f : Prioritize → Prioritize) : (s.modPrio f).recv = s.recv := rfl
@[simp] theorem modPrio_connError (f : Prioritize → Prioritize) : (s.modPrio f).actions.connError = s.actions.connError := rfl

@[simp, crp_store] theorem modSend_store (f : Send → Send) : (s.modSend f).store = s.store := rfl
@[simp] theorem modSend_counts (f : Send → Send) : (s.modSend f).counts = s.counts := rfl
@[simp] theorem modSend_panicked (f : Send → Send) : (s.modSend f).panicked = s.panicked := rfl
@[simp] theorem modSend_refs (f : Send → Send) : (s.modSend f).refs = s.refs := rfl
@[simp] theorem modSend_send (f : Send → Send) : (s.modSend f).actions.send = f s.actions.send := rfl
@[simp] theorem modSend_recv (f : Send → Send) : (s.modSend f).recv = s.recv := rfl

@[simp, crp_store] theorem modRecv_store (f : Recv → Recv) : (s.modRecv f).store = s.store := rfl
@[simp] theorem modRecv_counts (f : Recv → Recv) : (s.modRecv f).counts = s.counts := rfl
@[simp] theorem modRecv_panicked (f : Recv → Recv) : (s.modRecv f).panicked = s.panicked := rfl
@[simp] theorem modRecv_refs (f : Recv → Recv) : (s.modRecv f).refs = s.refs := rfl
@[simp] theorem modRecv_recv (f : Recv → Recv) : (s.modRecv f).recv = f s.recv := rfl
@[simp] theorem modRecv_prio (f : Recv → Recv) : (s.modRecv f).prio = s.prio := rfl
@[simp] theorem modRecv_send (f : Recv → Recv) : (s.modRecv f).actions.send = s.actions.send := rfl

@[simp, crp_store] theorem modCounts_store (f : Counts → Counts) : (s.modCounts f).store = s.store := rfl
@[simp] theorem modCounts_counts (f : Counts → Counts) : (s.modCounts f).counts = f s.counts := rfl
@[simp] theorem modCounts_actions (f : Counts → Counts) : (s.modCounts f).actions = s.actions := rfl
@[simp] theorem modCounts_panicked (f : Counts → Counts) : (s.modCounts f).panicked = s.panicked := rfl
@[simp] theorem modCounts_refs (f : Counts → Counts) : (s.modCounts f).refs = s.refs := rfl
@[simp] theorem modCounts_prio (f : Counts → Counts) : (s.modCounts f).prio = s.prio := rfl
@[simp] theorem modCounts_recv (f : Counts → Counts) : (s.modCounts f).recv = s.recv := rfl

@[simp, crp_store] theorem modCountsA_store (w : String) (f : Counts → Option Counts) : (s.modCountsA w f).store = s.store := by
  unfold Streams.modCountsA; split <;> simp
@[simp] theorem modCountsA_actions (w : String) (f : Counts → Option Counts) : (s.modCountsA w f).actions = s.actions := by
  unfold Streams.modCountsA; split <;> simp
@[simp] theorem modCountsA_refs (w : String) (f : Counts → Option Counts) : (s.modCountsA w f).refs = s.refs := by
  unfold Streams.modCountsA; split <;> simp
@[simp] theorem modCountsA_prio (w : String) (f : Counts → Option Counts) : (s.modCountsA w f).prio = s.prio := by
  unfold Streams.prio; simp
@[simp] theorem modCountsA_recv (w : String) (f : Counts → Option Counts) : (s.modCountsA w f).recv = s.recv := by
  unfold Streams.recv; simp
@[simp] theorem modCountsA_isServer (w : String) (f : Counts → Option Counts)
    (hf : ∀ c c', f c = some c' → c'.isServer = c.isServer) : (s.modCountsA w f).counts.isServer = s.counts.isServer := by
  unfold Streams.modCountsA; split
  · next c h => exact hf _ _ h
  · simp

@[simp] theorem setStream_counts (x : Stream) : (s.setStream x).counts = s.counts := rfl
@[simp] theorem setStream_actions (x : Stream) : (s.setStream x).actions = s.actions := rfl
@[simp] theorem setStream_panicked (x : Stream) : (s.setStream x).panicked = s.panicked := rfl
@[simp] theorem setStream_refs (x : Stream) : (s.setStream x).refs = s.refs := rfl
@[simp] theorem setStream_prio (x : Stream) : (s.setStream x).prio = s.prio := rfl
@[simp] theorem setStream_recv (x : Stream) : (s.setStream x).recv = s.recv := rfl
@[simp] theorem setStream_ids (x : Stream) : (s.setStream x).store.ids = s.store.ids := rfl
@[simp] theorem setStream_nextKey (x : Stream) : (s.setStream x).store.nextKey = s.store.nextKey := rfl

theorem setStream_get? (x : Stream) (k : Nat) :
    (s.setStream x).store.get? k = if k = x.key then (s.store.get? k).map (fun _ => x) else s.store.get? k :=
  Store.get?_set _ _ _

/-- `modStream` seen from the store: replace the entry of `id` by its image, nothing on a dangling key -/
def Store.mod (st : Store) (id : Nat) (f : Stream → Stream) : Store :=
  match st.get? id with
  | some x => st.set (f x)
  | none => st

@[simp, crp_store] theorem setStream_store (x : Stream) : (s.setStream x).store = s.store.set x := rfl

@[simp, crp_store] theorem modStream_store (id : Nat) (f : Stream → Stream) :
    (s.modStream id f).store = Store.mod s.store id f := by
  unfold Streams.modStream Store.mod; cases h : s.store.get? id <;> simp

@[simp, crp_store] theorem modStreamW_store (id : Nat) (f : Stream → Stream × List String) :
    (s.modStreamW id f).store = Store.mod s.store id (fun st => (f st).1) := by
  unfold Streams.modStreamW Store.mod; cases h : s.store.get? id <;> simp

@[simp] theorem modStream_counts (id : Nat) (f : Stream → Stream) : (s.modStream id f).counts = s.counts := by
  unfold Streams.modStream; split <;> simp
@[simp] theorem modStream_actions (id : Nat) (f : Stream → Stream) : (s.modStream id f).actions = s.actions := by
  unfold Streams.modStream; split <;> simp
@[simp] theorem modStream_refs (id : Nat) (f : Stream → Stream) : (s.modStream id f).refs = s.refs := by
  unfold Streams.modStream; split <;> simp
@[simp] theorem modStream_prio (id : Nat) (f : Stream → Stream) : (s.modStream id f).prio = s.prio := by
  unfold Streams.prio; simp
@[simp] theorem modStream_recv (id : Nat) (f : Stream → Stream) : (s.modStream id f).recv = s.recv := by
  unfold Streams.recv; simp
@[simp] theorem modStream_ids (id : Nat) (f : Stream → Stream) : (s.modStream id f).store.ids = s.store.ids := by
  unfold Streams.modStream; split <;> simp
@[simp] theorem modStream_nextKey (id : Nat) (f : Stream → Stream) : (s.modStream id f).store.nextKey = s.store.nextKey := by
  unfold Streams.modStream; split <;> simp

/-- `modStream` with a key-preserving `f` -/
theorem modStream_get? (id : Nat) (f : Stream → Stream) (hf : ∀ st, (f st).key = st.key) (k : Nat) :
    (s.modStream id f).store.get? k = if k = id then (s.store.get? id).map f else s.store.get? k := by
  unfold Streams.modStream
  cases h : s.store.get? id with
  | none =>
    simp only [panic_store, Option.map_none]
    split
    · next hk => rw [hk, h]
    · rfl
  | some st =>
    have hkey : (f st).key = id := by rw [hf, Store.get?_key h]
    simp only [setStream_get?, hkey, Option.map_some]
    split
    · next hk => rw [hk, h]; rfl
    · rfl

@[simp] theorem modStreamW_counts (id : Nat) (f : Stream → Stream × List String) : (s.modStreamW id f).counts = s.counts := by
  unfold Streams.modStreamW; split <;> simp
@[simp] theorem modStreamW_actions (id : Nat) (f : Stream → Stream × List String) : (s.modStreamW id f).actions = s.actions := by
  unfold Streams.modStreamW; split <;> simp
@[simp] theorem modStreamW_refs (id : Nat) (f : Stream → Stream × List String) : (s.modStreamW id f).refs = s.refs := by
  unfold Streams.modStreamW; split <;> simp
@[simp] theorem modStreamW_prio (id : Nat) (f : Stream → Stream × List String) : (s.modStreamW id f).prio = s.prio := by
  unfold Streams.prio; simp
@[simp] theorem modStreamW_recv (id : Nat) (f : Stream → Stream × List String) : (s.modStreamW id f).recv = s.recv := by
  unfold Streams.recv; simp
@[simp] theorem modStreamW_ids (id : Nat) (f : Stream → Stream × List String) : (s.modStreamW id f).store.ids = s.store.ids := by
  unfold Streams.modStreamW; split <;> simp
@[simp] theorem modStreamW_nextKey (id : Nat) (f : Stream → Stream × List String) :
    (s.modStreamW id f).store.nextKey = s.store.nextKey := by
  unfold Streams.modStreamW; split <;> simp

theorem modStreamW_get? (id : Nat) (f : Stream → Stream × List String) (hf : ∀ st, (f st).1.key = st.key) (k : Nat) :
    (s.modStreamW id f).store.get? k = if k = id then (s.store.get? id).map (fun st => (f st).1) else s.store.get? k := by
  unfold Streams.modStreamW
  cases h : s.store.get? id with
  | none =>
    simp only [panic_store, Option.map_none]
    split
    · next hk => rw [hk, h]
    · rfl
  | some st =>
    have hkey : (f st).1.key = id := by rw [hf, Store.get?_key h]
    simp only [wake_store, setStream_get?, hkey, Option.map_some]
    split
    · next hk => rw [hk, h]; rfl
    · rfl

/-- on a key that is present neither `modStream` nor `modStreamW` panics -/
theorem modStream_panicked_of_some (id : Nat) (f : Stream → Stream) {st : Stream} (h : s.store.get? id = some st) :
    (s.modStream id f).panicked = s.panicked := by
  unfold Streams.modStream; rw [h]; rfl

theorem modStreamW_panicked_of_some (id : Nat) (f : Stream → Stream × List String) {st : Stream}
    (h : s.store.get? id = some st) : (s.modStreamW id f).panicked = s.panicked := by
  unfold Streams.modStreamW; rw [h]; rfl

theorem stream_of_get? {k : Nat} {st : Stream} (h : s.store.get? k = some st) : s.stream k = st := by
  unfold Streams.stream; rw [h]; rfl

theorem stream_of_none {k : Nat} (h : s.store.get? k = none) : s.stream k = { key := k, id := 0 } := by
  unfold Streams.stream; rw [h]; rfl

end prim


-- ===================================================================== `stream k` seen from the store

/-- `Streams.stream` seen from the store -/
def Store.getD' (S : Store) (k : Nat) : Stream := (S.get? k).getD { key := k, id := 0 }

@[crp_store] theorem stream_eq (s : Streams) (k : Nat) : s.stream k = Store.getD' s.store k := by
  rw [Streams.stream, Store.getD']

theorem Store.getD'_of_get? {S : Store} {k : Nat} {st : Stream} (h : S.get? k = some st) : Store.getD' S k = st := by
  unfold Store.getD'; rw [h]; rfl

@[simp, crp_store] theorem ite_panic_store (c : Prop) [Decidable c] (s : Streams) (m : String) :
    (if c then s else s.panic m).store = s.store := by split <;> simp
@[simp, crp_store] theorem ite_panic_store' (c : Prop) [Decidable c] (s : Streams) (m : String) :
    (if c then s.panic m else s).store = s.store := by split <;> simp

@[simp, crp_store] theorem decNumStreams_store (s : Streams) (id : Nat) :
    (s.decNumStreams id).store = Store.mod s.store id (fun st => { st with isCounted := false }) := by
  unfold Streams.decNumStreams; dsimp only; split <;> split <;> simp

-- ===================================================================== stream-level notifications keep everything but tasks

section notify
variable (st : Stream)

@[simp] theorem setQueued_key (q : QName) (v : Bool) : (st.setQueued q v).key = st.key := by cases q <;> rfl
@[simp] theorem setQueued_id (q : QName) (v : Bool) : (st.setQueued q v).id = st.id := by cases q <;> rfl
@[simp] theorem setQueued_state (q : QName) (v : Bool) : (st.setQueued q v).state = st.state := by cases q <;> rfl
@[simp] theorem setQueued_pendingSend (q : QName) (v : Bool) : (st.setQueued q v).pendingSend = st.pendingSend := by
  cases q <;> rfl
@[simp] theorem setQueued_isQueued (q : QName) (v : Bool) : (st.setQueued q v).isQueued q = v := by cases q <;> rfl

end notify

end H2V.Lemmas.ConnResetP
