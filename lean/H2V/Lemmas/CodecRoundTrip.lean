import H2V.Lemmas.CodecDecode
/-
  Codec lemmas, part 8 (corollary of A + B): h2's reader reads back what h2's writer wrote — for the
  frames `encodeSimple` emits, `decode_frame` on the serialisation delivers the same frame value.
-/
namespace H2V.Lemmas.Codec
open H2V H2V.Model.Frame H2V.Model.CodecRead

-- ===================================================================== `lastWins` on a canonical list

theorem find?_reverse_of_pairwise (L : List (Nat × Nat)) (id : Nat)
    (hp : L.Pairwise (fun a b => a.1 ≠ b.1)) :
    L.reverse.find? (·.1 = id) = L.find? (·.1 = id) := by
  induction L with
  | nil => rfl
  | cons x xs ih =>
    rw [List.reverse_cons, List.find?_append]
    obtain ⟨hx, hxs⟩ := List.pairwise_cons.1 hp
    by_cases hid : x.1 = id
    · have : xs.reverse.find? (·.1 = id) = none := by
        rw [List.find?_eq_none]
        intro y hy
        have := hx y (List.mem_reverse.1 hy)
        simp only [decide_eq_true_eq]
        omega
      rw [this]
      simp [hid]
    · rw [ih hxs]
      simp [hid]

theorem settingsOrder_pairwise (vals : List (Nat × Nat)) :
    (settingsOrder vals).Pairwise (fun a b => a.1 ≠ b.1) := by
  unfold settingsOrder
  apply List.Pairwise.filterMap (R := fun a b : Nat => a ≠ b)
  · intro a a' hne b hb b' hb'
    have h1 := List.find?_some hb
    have h2 := List.find?_some hb'
    simp only [decide_eq_true_eq] at h1 h2
    omega
  · decide

theorem find?_filterMap_key (K : List Nat) (g : Nat → Option (Nat × Nat))
    (hg : ∀ i x, g i = some x → x.1 = i) (hK : K.Pairwise (· ≠ ·)) (id : Nat) (hid : id ∈ K) :
    (K.filterMap g).find? (·.1 = id) = g id := by
  induction K with
  | nil => cases hid
  | cons k ks ih =>
    obtain ⟨hk, hks⟩ := List.pairwise_cons.1 hK
    rw [List.filterMap_cons]
    by_cases hidk : id = k
    · subst hidk
      have hnone : (ks.filterMap g).find? (·.1 = id) = none := by
        rw [List.find?_eq_none]
        intro y hy
        obtain ⟨i, hi, hgi⟩ := List.mem_filterMap.1 hy
        have := hg i y hgi
        have := hk i hi
        simp only [decide_eq_true_eq]
        omega
      cases hgk : g id with
      | none => simpa using hnone
      | some x => simp [hg id x hgk]
    · have hmem : id ∈ ks := by
        rcases List.mem_cons.1 hid with h | h
        · exact absurd h hidk
        · exact h
      cases hgk : g k with
      | none => simpa using ih hks hmem
      | some x =>
        have := hg k x hgk
        simp only
        rw [List.find?_cons]
        have : decide (x.1 = id) = false := by simp; omega
        rw [this]
        exact ih hks hmem

/-- a list in `for_each` form is its own `lastWins` -/
theorem lastWins_settingsOrder (vals : List (Nat × Nat)) : lastWins (settingsOrder vals) = settingsOrder vals := by
  unfold lastWins
  conv => rhs; unfold settingsOrder
  apply filterMap_congr'
  intro id hid
  rw [find?_reverse_of_pairwise _ _ (settingsOrder_pairwise vals)]
  unfold settingsOrder
  apply find?_filterMap_key _ _ _ (by decide) id hid
  intro i x hx
  simpa using List.find?_some hx

-- ===================================================================== `decode_frame` on a serialised frame

/-- between header blocks, `decode_frame` on `Head::encode ++ payload` dispatches to the loader with
    exactly that head and payload -/
theorem decodeFrame_encode (h : Head) (p : Bytes) (n : Nat)
    (hs : h.sid < 2 ^ 31) :
    Head.parse (h.encode n ++ p) = h ∧ (h.encode n ++ p).drop 9 = p :=
  ⟨Head.parse_encode h n hs p, by rw [Head.encode_cons]; rfl⟩

theorem ofParts_of_parse {h : Head} {p : Bytes} {x : Except Spec.Frame.Violation Spec.Frame.Frame}
    (hs : h.sid < 2 ^ 31) (hp : p.length < 2 ^ 24)
    (hx : Spec.Frame.parse (h.encode p.length ++ p) = some x) : Spec.Frame.ofParts h.kind h.flag h.sid p = x := by
  rw [parse_head_encode h p hs hp] at hx
  exact Option.some.inj hx

/-- DATA -/
theorem roundtrip_data (r : Reader) (hpb : r.partialBlk = none) (sid : Nat) (payload : Bytes) (eos : Bool)
    (pad : Option Nat) (hs0 : sid ≠ 0) (hs : sid < 2 ^ 31) (hp : payload.length < 2 ^ 24) :
    ∃ bytes, encodeSimple (.data sid payload eos pad) = some bytes ∧
      decodeFrame r bytes = (r, .frame (.data sid payload eos none)) := by
  obtain ⟨bytes, hb, hparse⟩ := parse_encode_data sid payload eos pad hs0 hs hp
  refine ⟨bytes, hb, ?_⟩
  simp only [encodeSimple, Option.some.injEq] at hb
  subst hb
  have hof := ofParts_of_parse (h := Head.mk 0 (if eos then 1 else 0) sid) hs hp hparse
  obtain ⟨f, hl, hts⟩ := loadData_complete _ _ _ hof
  obtain ⟨h1, h2⟩ := decodeFrame_encode (Head.mk 0 (if eos then 1 else 0) sid) payload payload.length hs
  unfold decodeFrame
  simp only [h1, h2, hpb, hl]
  cases f <;> simp [toSpec] at hts
  obtain ⟨rfl, rfl, rfl, rfl⟩ := hts
  simp

/-- PING -/
theorem roundtrip_ping (r : Reader) (hpb : r.partialBlk = none) (ack : Bool) (p : Bytes) (hp : p.length = 8) :
    ∃ bytes, encodeSimple (.ping ack p) = some bytes ∧ decodeFrame r bytes = (r, .frame (.ping ack p)) := by
  obtain ⟨bytes, hb, hparse⟩ := parse_encode_ping ack p hp
  refine ⟨bytes, hb, ?_⟩
  simp only [encodeSimple, Option.some.injEq] at hb
  subst hb
  rw [← hp] at hparse ⊢
  have hof := ofParts_of_parse (h := Head.mk 6 (if ack then 1 else 0) 0) (by simp) (by omega) hparse
  obtain ⟨f, hl, hts⟩ := loadPing_complete _ _ _ hof
  obtain ⟨h1, h2⟩ := decodeFrame_encode (Head.mk 6 (if ack then 1 else 0) 0) p p.length (by simp)
  unfold decodeFrame
  simp only [h1, h2, hpb, hl]
  cases f <;> simp [toSpec] at hts
  obtain ⟨rfl, rfl⟩ := hts
  simp

/-- GOAWAY -/
theorem roundtrip_goaway (r : Reader) (hpb : r.partialBlk = none) (last code : Nat) (dbg : Bytes)
    (hl : last < 2 ^ 31) (hc : code < 2 ^ 32) (hd : 8 + dbg.length < 2 ^ 24) :
    ∃ bytes, encodeSimple (.goAway last code dbg) = some bytes ∧
      decodeFrame r bytes = (r, .frame (.goAway last code dbg)) := by
  obtain ⟨bytes, hb, hparse⟩ := parse_encode_goaway last code dbg hl hc hd
  refine ⟨bytes, hb, ?_⟩
  simp only [encodeSimple, Option.some.injEq] at hb
  subst hb
  have hlen : (be32 last ++ be32 code ++ dbg).length = 8 + dbg.length := by simp; omega
  simp only [List.append_assoc] at hparse hlen ⊢
  rw [← hlen] at hparse ⊢
  have hof := ofParts_of_parse (h := Head.mk 7 0 0) (by simp) (by omega) hparse
  obtain ⟨f, hl', hts⟩ := loadGoAway_complete _ _ _ hof
  obtain ⟨h1, h2⟩ := decodeFrame_encode (Head.mk 7 0 0) (be32 last ++ (be32 code ++ dbg))
    (be32 last ++ (be32 code ++ dbg)).length (by simp)
  unfold decodeFrame
  simp only [h1, h2, hpb, hl']
  cases f <;> simp [toSpec] at hts
  obtain ⟨rfl, rfl, rfl⟩ := hts
  simp

/-- WINDOW_UPDATE -/
theorem roundtrip_window_update (r : Reader) (hpb : r.partialBlk = none) (sid inc : Nat)
    (hs : sid < 2 ^ 31) (hi0 : inc ≠ 0) (hi : inc < 2 ^ 31) :
    ∃ bytes, encodeSimple (.windowUpdate sid inc) = some bytes ∧
      decodeFrame r bytes = (r, .frame (.windowUpdate sid inc)) := by
  obtain ⟨bytes, hb, hparse⟩ := parse_encode_window_update sid inc hs hi0 hi
  refine ⟨bytes, hb, ?_⟩
  simp only [encodeSimple, Option.some.injEq] at hb
  subst hb
  have hof := ofParts_of_parse (h := Head.mk 8 0 sid) (p := be32 inc) hs (by simp) hparse
  obtain ⟨f, hl, hts⟩ := loadWindowUpdate_complete _ _ _ hof
  obtain ⟨h1, h2⟩ := decodeFrame_encode (Head.mk 8 0 sid) (be32 inc) 4 hs
  unfold decodeFrame
  simp only [h1, h2, hpb, hl]
  cases f <;> simp [toSpec] at hts
  obtain ⟨rfl, rfl⟩ := hts
  simp

/-- RST_STREAM -/
theorem roundtrip_reset (r : Reader) (hpb : r.partialBlk = none) (sid code : Nat)
    (hs0 : sid ≠ 0) (hs : sid < 2 ^ 31) (hc : code < 2 ^ 32) :
    ∃ bytes, encodeSimple (.reset sid code) = some bytes ∧
      decodeFrame r bytes = (r, .frame (.reset sid code)) := by
  obtain ⟨bytes, hb, hparse⟩ := parse_encode_reset sid code hs0 hs hc
  refine ⟨bytes, hb, ?_⟩
  simp only [encodeSimple, Option.some.injEq] at hb
  subst hb
  have hof := ofParts_of_parse (h := Head.mk 3 0 sid) (p := be32 code) hs (by simp) hparse
  obtain ⟨f, hl, hts⟩ := loadReset_complete _ _ _ hof
  obtain ⟨h1, h2⟩ := decodeFrame_encode (Head.mk 3 0 sid) (be32 code) 4 hs
  unfold decodeFrame
  simp only [h1, h2, hpb, hl]
  cases f <;> simp [toSpec] at hts
  obtain ⟨rfl, rfl⟩ := hts
  simp

/-- SETTINGS: the reader obtains the values in `for_each` form -/
theorem roundtrip_settings (r : Reader) (hpb : r.partialBlk = none) (vals : List (Nat × Nat))
    (hv : ∀ p ∈ vals, SettingOK p) :
    ∃ bytes, encodeSimple (.settings false vals) = some bytes ∧
      decodeFrame r bytes = (r, .frame (.settings false (settingsOrder vals))) := by
  obtain ⟨bytes, hb, hparse⟩ := parse_encode_settings vals hv
  refine ⟨bytes, hb, ?_⟩
  simp only [encodeSimple, Option.some.injEq] at hb
  subst hb
  have hlen := settingsPayload_length vals
  have hle := settingsOrder_length_le vals
  have hof := ofParts_of_parse (h := Head.mk 4 (if false then 1 else 0) 0) (by simp) (by omega) hparse
  have hl := loadSettings_complete _ _ _ _ hof
  rw [lastWins_settingsOrder] at hl
  obtain ⟨h1, h2⟩ := decodeFrame_encode (Head.mk 4 (if false then 1 else 0) 0) (settingsPayload vals)
    (settingsPayload vals).length (by simp)
  unfold decodeFrame
  simp only [h1, h2, hpb, hl]
  simp

/-- SETTINGS ACK -/
theorem roundtrip_settings_ack (r : Reader) (hpb : r.partialBlk = none) :
    ∃ bytes, encodeSimple (.settings true []) = some bytes ∧
      decodeFrame r bytes = (r, .frame (.settings true [])) := by
  refine ⟨_, rfl, ?_⟩
  unfold decodeFrame
  simp only [hpb]
  rfl

end H2V.Lemmas.Codec
