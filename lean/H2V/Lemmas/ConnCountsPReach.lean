import H2V.Lemmas.ConnCountsPInvJ
/-
  C05 / C18 / C19 — reachable states of the stream layer.

  `ApiStep s s'`: `s'` is what one call of a function of the stream layer makes of `s` — the
  functions are exactly those that `ConnProto.lean` (the connection loop: `recv_frame`, `poll2`,
  `poll_complete`, settings, GOAWAY, EOF) and `ConnDriver.lean` (the user handles: `SendRequest`,
  `SendStream`, `RecvStream`, `ResponseFuture`, `SendResponse`, …) call on `Conn.streams`, with
  arbitrary arguments, in arbitrary order.  `Reach s`: `s` is reachable from the stream state of a
  freshly built client or server connection (any builder configuration) by such calls.  This
  over-approximates what a real run can do (arguments and order are unconstrained).
-/
namespace H2V.Lemmas.ConnCountsP
open H2V H2V.Model H2V.Model.Conn
variable {ρ : Bool}

inductive ApiStep : Streams → Streams → Prop
  -- frames of the peer (`Inner::recv_*`)
  | recvHeaders (s : Streams) (h : HeadersIn) : ApiStep s (s.recvHeaders h).1
  | recvData (s : Streams) (id : Nat) (p : Bytes) (eos : Bool) (pad : Option Nat) : ApiStep s (s.recvData id p eos pad).1
  | recvReset (s : Streams) (id : Nat) (r : Reason) : ApiStep s (s.recvReset id r).1
  | recvWindowUpdate (s : Streams) (id inc : Nat) : ApiStep s (s.recvWindowUpdate id inc).1
  | recvPushPromise (s : Streams) (id : Nat) (h : HeadersIn) : ApiStep s (s.recvPushPromise id h).1
  | recvGoAwayFrame (s : Streams) (last : Nat) (r : Reason) (d : Bytes) : ApiStep s (s.recvGoAwayFrame last r d).1
  | recvEof (s : Streams) (b : Bool) : ApiStep s (s.recvEof b)
  | handleError (s : Streams) (e : PErr) : ApiStep s (s.handleError e).1
  | innerSendReset (s : Streams) (id : Nat) (r : Reason) : ApiStep s (s.innerSendReset id r).1
  | recvGoAway (s : Streams) (last : Nat) : ApiStep s (s.recvGoAway last)
  -- settings
  | applyRemoteSettings (s : Streams) (v : List (Nat × Nat)) (b : Bool) : ApiStep s (s.applyRemoteSettings v b).1
  | applyLocalSettingsFrame (s : Streams) (v : List (Nat × Nat)) : ApiStep s (s.applyLocalSettingsFrame v).1
  | setTargetConnectionWindow (s : Streams) (t : Nat) : ApiStep s (s.setTargetConnectionWindow t).1
  -- writing
  | pollComplete (fuel : Nat) (s : Streams) (w : Writer) (io : Tio) (tag : String) : ApiStep s (Streams.pollComplete fuel s w io tag).1
  | pollSendPendingRefusal (fuel : Nat) (s : Streams) (w : Writer) (io : Tio) (tag : String) :
      ApiStep s (Streams.pollSendPendingRefusal fuel s w io tag).1
  | clearExpiredResetStreams (fuel : Nat) (s : Streams) : ApiStep s (Streams.clearExpiredResetStreams fuel s)
  -- the user's handles
  | sendRequest (s : Streams) (isHead : Bool) (f : List Hpack.Field) (eos : Bool) (p : Option Nat) : ApiStep s (s.sendRequest isHead f eos p).1
  | pollPendingOpen (s : Streams) (p : Option Nat) (tag : String) : ApiStep s (s.pollPendingOpen p tag).1
  | cloneHandle (s : Streams) : ApiStep s s.cloneHandle
  | dropHandle (s : Streams) : ApiStep s s.dropHandle
  | cloneStreamRef (s : Streams) (k : Nat) : ApiStep s (s.cloneStreamRef k)
  | dropStreamRef (s : Streams) (k : Nat) : ApiStep s (s.dropStreamRef k)
  | nextIncoming (s : Streams) : ApiStep s s.nextIncoming.1
  | recvTakeRequest (s : Streams) (k : Nat) : ApiStep s (s.recvTakeRequest k).1
  | refSendResponse (s : Streams) (k : Nat) (f : List Hpack.Field) (eos : Bool) : ApiStep s (s.refSendResponse k f eos).1
  | refSendInformationalHeaders (s : Streams) (k : Nat) (f : List Hpack.Field) : ApiStep s (s.refSendInformationalHeaders k f).1
  | refSendData (s : Streams) (k len : Nat) (eos : Bool) : ApiStep s (s.refSendData k len eos).1
  | refSendTrailers (s : Streams) (k : Nat) (f : List Hpack.Field) : ApiStep s (s.refSendTrailers k f).1
  | refSendPushPromise (s : Streams) (parent : Nat) (valid : Bool) (f : List Hpack.Field) : ApiStep s (s.refSendPushPromise parent valid f).1
  | refSendReset (s : Streams) (k : Nat) (r : Reason) : ApiStep s (s.refSendReset k r)
  | refReserveCapacity (s : Streams) (k cap : Nat) : ApiStep s (s.refReserveCapacity k cap)
  | pollCapacity (s : Streams) (k : Nat) (tag : String) : ApiStep s (s.pollCapacity k tag).1
  | pollReset (s : Streams) (k : Nat) (m : PollReset) (tag : String) : ApiStep s (s.pollReset k m tag).1
  | recvPollResponse (fuel : Nat) (s : Streams) (k : Nat) (tag : String) : ApiStep s (Streams.recvPollResponse fuel s k tag).1
  | recvPollInformational (s : Streams) (k : Nat) (tag : String) : ApiStep s (s.recvPollInformational k tag).1
  | refPollData (s : Streams) (k : Nat) (tag : String) : ApiStep s (s.refPollData k tag).1
  | refPollPushed (s : Streams) (k : Nat) (tag : String) : ApiStep s (s.refPollPushed k tag).1
  | recvPollTrailers (s : Streams) (k : Nat) (tag : String) : ApiStep s (s.recvPollTrailers k tag).1
  | refReleaseCapacity (s : Streams) (k cap : Nat) : ApiStep s (s.refReleaseCapacity k cap).1
  | refClearRecvBuffer (s : Streams) (k : Nat) : ApiStep s (s.refClearRecvBuffer k)
  -- bookkeeping of the model (wake log)
  | wake (s : Streams) (t : List String) : ApiStep s (s.wake t)
  | clearWakes (s : Streams) : ApiStep s { s with wakes := [] }
  /-- an `assert!` of the connection layer fires / the model gives up -/
  | panic (s : Streams) (m : String) : ApiStep s (s.panic m)
  | unsup (s : Streams) (m : String) : ApiStep s (s.unsup m)

theorem ApiStep.evT {s s' : Streams} (h : ApiStep s s') (hA : KeysOK s) (hN : NextLocal s) : EvT s s' := by
  cases h with
  | recvHeaders _ h => exact .ev (recvHeaders_ev _ _)
  | recvData _ id p eos pad => exact .ev (recvData_ev _ _ _ _ _)
  | recvReset _ id r => exact .ev (recvReset_ev _ _ _)
  | recvWindowUpdate _ id inc => exact .ev (recvWindowUpdate_ev _ _ _)
  | recvPushPromise _ id h => exact .ev (recvPushPromise_ev _ _ _)
  | recvGoAwayFrame _ last r d => exact .ev (recvGoAwayFrame_ev _ _ _ _)
  | recvEof _ b => exact recvEof_evT _ _
  | handleError _ e => exact .ev (handleError_ev _ _)
  | innerSendReset _ id r => exact .ev (innerSendReset_ev _ _ _)
  | recvGoAway _ last => exact .ev (recvGoAway_ev _ _)
  | applyRemoteSettings _ v b => exact .ev (applyRemoteSettings_ev _ _ _)
  | applyLocalSettingsFrame _ v => exact .ev (applyLocalSettingsFrame_ev _ _)
  | setTargetConnectionWindow _ t => exact .ev (setTargetConnectionWindow_ev _ _)
  | pollComplete fuel _ w io tag => exact .ev (pollComplete_ev _ _ _ _ _)
  | pollSendPendingRefusal fuel _ w io tag => exact .ev (pollSendPendingRefusal_ev _ _ _ _ _)
  | clearExpiredResetStreams fuel _ => exact clearExpiredResetStreams_evT _ _
  | sendRequest _ isHead f eos p => exact .ev (sendRequest_ev _ hA.fresh _ _ _ _)
  | pollPendingOpen _ p tag => exact .ev (pollPendingOpen_ev _ _ _)
  | cloneHandle _ => exact .ev (cloneHandle_ev _)
  | dropHandle _ => exact .ev (dropHandle_ev _)
  | cloneStreamRef _ k => exact .ev (cloneStreamRef_ev _ _)
  | dropStreamRef _ k => exact .ev (dropStreamRef_ev _ _)
  | nextIncoming _ => exact .ev (nextIncoming_ev _)
  | recvTakeRequest _ k => exact .ev (recvTakeRequest_ev _ _)
  | refSendResponse _ k f eos => exact .ev (refSendResponse_ev _ _ _ _)
  | refSendInformationalHeaders _ k f => exact .ev (refSendInformationalHeaders_ev _ _ _)
  | refSendData _ k len eos => exact .ev (refSendData_ev _ _ _ _)
  | refSendTrailers _ k f => exact .ev (refSendTrailers_ev _ _ _)
  | refSendPushPromise _ parent valid f => exact .ev (refSendPushPromise_ev _ hA.fresh hN _ _ _)
  | refSendReset _ k r => exact .ev (refSendReset_ev _ _ _)
  | refReserveCapacity _ k cap => exact .ev (refReserveCapacity_ev _ _ _)
  | pollCapacity _ k tag => exact .ev (pollCapacity_ev _ _ _)
  | pollReset _ k m tag => exact .ev (pollReset_ev _ _ _ _)
  | recvPollResponse fuel _ k tag => exact .ev (recvPollResponse_ev _ _ _ _)
  | recvPollInformational _ k tag => exact .ev (recvPollInformational_ev _ _ _)
  | refPollData _ k tag => exact .ev (refPollData_ev _ _ _)
  | refPollPushed _ k tag => exact .ev (refPollPushed_ev _ _ _)
  | recvPollTrailers _ k tag => exact .ev (recvPollTrailers_ev _ _ _)
  | refReleaseCapacity _ k cap => exact .ev (refReleaseCapacity_ev _ _ _)
  | refClearRecvBuffer _ k => exact .ev (refClearRecvBuffer_ev _ _)
  | wake _ t => exact .ev (wake_ev _ _)
  | clearWakes _ => exact .ev (setMisc_ev _ _ _ _ _ _ ⟨rfl, rfl, rfl, rfl, rfl⟩)
  | panic _ m => exact .ev (panic_ev _ _)
  | unsup _ m => exact .ev (unsup_ev _ _)

/-- the stream state of a freshly built connection -/
inductive InitS : Streams → Prop
  /-- (`client::Builder::initial_stream_id` asserts that the id is odd) -/
  | client (g : Conn.Cfg) (hodd : g.firstId % 2 = 1) : InitS (Conn.init g).streams
  | server (g : Conn.Cfg) (ecp : Bool) (peerFirst : Bytes) : InitS (Conn.initServer g ecp peerFirst).streams

inductive Reach : Streams → Prop
  | init {s : Streams} : InitS s → Reach s
  | step {s s' : Streams} : Reach s → ApiStep s s' → Reach s'

-- ===================================================================== the invariants hold in every reachable state

/-- a stream state with an empty store, empty queues and zero counters -/
structure Blank (s : Streams) : Prop where
  slab : s.store.slab = []
  ids : s.store.ids = []
  nextKey : s.store.nextKey = 0
  numSend : s.counts.numSendStreams = 0
  numRecv : s.counts.numRecvStreams = 0
  numReset : s.counts.numLocalResetStreams = 0
  numRemote : s.counts.numRemoteResetStreams = 0
  numErr : s.counts.numLocalErrorResetStreams = 0
  resetQ : s.recv.pendingResetExpired = []
  openQ : s.prio.pendingOpen = []
  next : NextLocal s

theorem Blank.keysOK {s : Streams} (h : Blank s) : KeysOK s :=
  ⟨by rw [h.slab]; exact List.nodup_nil, by intro x hx; rw [h.slab] at hx; cases hx⟩

theorem Blank.inv1 {s : Streams} (h : Blank s) : Inv1 s :=
  ⟨by unfold cntAll; rw [h.numSend, h.numRecv, h.slab]; rfl, by rw [h.numReset, h.resetQ]; rfl,
   by rw [h.numRecv]; exact Nat.zero_le _, by rw [h.numReset]; exact Nat.zero_le _,
   by rw [h.numRemote]; exact Nat.zero_le _, by intro m _; rw [h.numErr]; exact Nat.zero_le _⟩

theorem Blank.get?_none {s : Streams} (h : Blank s) (k : Nat) : s.store.get? k = none := by
  unfold Store.get?; rw [h.slab]; rfl

theorem Blank.inv2 {s : Streams} (h : Blank s) : Inv2 s.counts.isServer (fun _ => False) s := by
  refine ⟨rfl, ?_, ?_, ?_, ?_, ?_, ?_⟩
  · intro k hk; rw [h.openQ] at hk; cases hk
  · intro p hp; rw [h.ids] at hp; cases hp
  · intro k st hst; rw [h.get?_none] at hst; cases hst
  · intro _ k st hst; rw [h.get?_none] at hst; cases hst
  · intro _; unfold cntP; rw [h.numSend, h.slab]; rfl
  · intro x hx; have := h.next x hx; rw [isLocalInit_eq] at this; exact this

theorem InitS.from_blank {s : Streams} (h : InitS s) : ∃ s0, Blank s0 ∧ Ev s0 s := by
  cases h with
  | client g hodd =>
    have hnl : ∀ x, some g.firstId = some x → (false == (x % 2 == 0)) = true := by
      intro x hx; cases hx; simp [hodd]
    unfold Conn.init
    dsimp only
    split
    · next sz _ =>
      refine ⟨_, ?_, .trans (cloneHandle_ev _) (setTargetConnectionWindow_ev _ sz)⟩
      exact ⟨rfl, rfl, rfl, rfl, rfl, rfl, rfl, rfl, rfl, rfl, hnl⟩
    · refine ⟨_, ?_, cloneHandle_ev _⟩
      exact ⟨rfl, rfl, rfl, rfl, rfl, rfl, rfl, rfl, rfl, rfl, hnl⟩
  | server g ecp pf =>
    have hnl : ∀ x, some 2 = some x → (true == (x % 2 == 0)) = true := by
      intro x hx; cases hx; rfl
    unfold Conn.initServer
    dsimp only
    split
    · next sz _ =>
      refine ⟨_, ?_, setTargetConnectionWindow_ev _ sz⟩
      exact ⟨rfl, rfl, rfl, rfl, rfl, rfl, rfl, rfl, rfl, rfl, hnl⟩
    · refine ⟨_, ?_, .refl _⟩
      exact ⟨rfl, rfl, rfl, rfl, rfl, rfl, rfl, rfl, rfl, rfl, hnl⟩

/-- **the invariants hold in every reachable state**: keys and the parity of `next_stream_id` always,
    the counting invariants as long as no `assert!` has fired -/
theorem Reach.inv {s : Streams} (h : Reach s) :
    KeysOK s ∧ NextLocal s ∧ (s.panicked = none → Inv1 s ∧ Inv2 s.counts.isServer (fun _ => False) s) := by
  induction h with
  | init hi =>
    obtain ⟨s0, hb, e⟩ := hi.from_blank
    refine ⟨e.keysOK hb.keysOK, e.nx.nextLocal hb.next, fun hp => ⟨e.inv1 hp hb.keysOK hb.inv1, ?_⟩⟩
    rw [e.nx.role]
    exact e.inv2 _ _ hp hb.keysOK (fun _ _ h => h) hb.inv2
  | step _ hs ih =>
    have e := hs.evT ih.1 ih.2.1
    refine ⟨e.keysOK ih.1, e.nx.nextLocal ih.2.1, fun hp => ?_⟩
    have hi := ih.2.2 (e.mono_panic hp)
    refine ⟨e.inv1 hp ih.1 hi.1, ?_⟩
    rw [e.nx.role]
    exact e.inv2 _ hp ih.1 hi.2

end H2V.Lemmas.ConnCountsP
