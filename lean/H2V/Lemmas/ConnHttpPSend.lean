import H2V.Lemmas.ConnHttpPBasic
import H2V.Model.ConnDriver
/-
  C13 (ConnHttpP), part 16 — the send side: `Send::check_headers` and the four places that call it
  (`send_headers` for requests and responses, `send_trailers`, `send_push_promise`,
  `send_interim_informational_headers`).
-/
namespace H2V.Lemmas.ConnHttpP
open H2V H2V.Model H2V.Model.Conn

/-- the names and values of a field list handed to the send API, as the reference sees them -/
def wireFields (fields : List Hpack.Field) : List (Bytes × Bytes) := fields.map (·.h)

theorem checkHeaders_err (fields : List Hpack.Field) (e : UserError) (h : Streams.checkHeaders fields = .error e) :
    e = .malformedHeaders := by
  unfold Streams.checkHeaders at h
  simp only at h
  repeat' split at h
  all_goals first | (cases h; rfl) | cases h

theorem any_name_false (fields : List Hpack.Field) (n : Bytes)
    (h : (fields.any fun f => f.h.1 == n) = false) : ∀ f ∈ fields, f.h.1 ≠ n := by
  intro f hf e
  have := List.any_eq_false.mp h f hf
  simp [e] at this

/-- **what `check_headers` guarantees**: no connection-specific field at all, and EVERY `te` field is
    `trailers` (since the repair of finding N5) -/
theorem checkHeaders_ok (fields : List Hpack.Field) (h : Streams.checkHeaders fields = .ok ()) :
    (∀ f ∈ fields, Spec.Http.connectionSpecific.contains f.h.1 = false) ∧
    (∀ f ∈ fields, f.h.1 = Spec.Http.ascii "te" → f.h.2 = Spec.Http.ascii "trailers") := by
  unfold Streams.checkHeaders at h
  simp only at h
  split at h
  · cases h
  · rename_i hc
    simp only [Bool.or_eq_true, not_or, Bool.not_eq_true] at hc
    obtain ⟨⟨⟨⟨c1, c2⟩, c3⟩, c4⟩, c5⟩ := hc
    constructor
    · intro f hf
      rw [connectionSpecific_eq]
      have a1 := any_name_false _ _ c1 f hf
      have a2 := any_name_false _ _ c2 f hf
      have a3 := any_name_false _ _ c3 f hf
      have a4 := any_name_false _ _ c4 f hf
      have a5 := any_name_false _ _ c5 f hf
      rw [str_connection] at a1
      rw [str_transfer_encoding] at a2
      rw [str_upgrade] at a3
      rw [str_keep_alive] at a4
      rw [str_proxy_connection] at a5
      simp [a1, a2, a3, a4, a5]
    · intro f hf hte
      split at h
      · cases h
      · rename_i hv
        have hv' : ∀ x ∈ fields, x.h.1 = Http.str "te" → x.h.2 = Http.str "trailers" := by simpa using hv
        rw [ascii_te, ← str_te] at hte
        rw [ascii_trailers, ← str_trailers]
        exact hv' f hf hte

/-- in the reference's terms: an accepted field list violates neither `connection-specific-field` nor
    `te-not-trailers` -/
theorem checkHeaders_ok_spec (fields : List Hpack.Field) (h : Streams.checkHeaders fields = .ok ()) :
    "connection-specific-field" ∉ Spec.Http.common (wireFields fields) ∧
    "te-not-trailers" ∉ Spec.Http.common (wireFields fields) := by
  obtain ⟨h1, h2⟩ := checkHeaders_ok fields h
  unfold Spec.Http.common
  have e1 : (wireFields fields).any (fun f => Spec.Http.connectionSpecific.contains f.1) = false := by
    rw [List.any_eq_false]
    intro x hx
    obtain ⟨f, hf, rfl⟩ := List.mem_map.mp hx
    rw [h1 f hf]; simp
  have e2 : (Spec.Http.get (wireFields fields) "te").any (· != Spec.Http.ascii "trailers") = false := by
    rw [List.any_eq_false]
    intro v hv
    unfold Spec.Http.get at hv
    obtain ⟨x, hx, rfl⟩ := List.mem_map.mp hv
    obtain ⟨hx1, hx2⟩ := List.mem_filter.mp hx
    obtain ⟨f, hf, rfl⟩ := List.mem_map.mp hx1
    have := h2 f hf (by simpa using hx2)
    simp [this]
  rw [e1, e2]
  simp only [Bool.false_eq_true, if_false, List.append_nil, List.mem_append, not_or]
  constructor
  · refine ⟨⟨⟨?_, ?_⟩, ?_⟩, ?_⟩ <;> (split <;> simp)
  · refine ⟨⟨⟨?_, ?_⟩, ?_⟩, ?_⟩ <;> (split <;> simp)

/-! ### the four callers refuse before touching anything -/

theorem sendHeaders_refuses (s : Streams) (id : Nat) (eos : Bool) (fields : List Hpack.Field) (e : UserError)
    (h : Streams.checkHeaders fields = .error e) : s.sendHeaders id eos fields = (s, .error e) := by
  unfold Streams.sendHeaders; rw [h]

theorem sendTrailers_refuses (s : Streams) (id : Nat) (fields : List Hpack.Field) (e : UserError)
    (h : Streams.checkHeaders fields = .error e) : s.sendTrailers id fields = (s, .error e) := by
  unfold Streams.sendTrailers; rw [h]

theorem sendInterim_refuses (s : Streams) (id : Nat) (fields : List Hpack.Field) (e : UserError)
    (h : Streams.checkHeaders fields = .error e) : s.sendInterimInformationalHeaders id fields = (s, .error e) := by
  unfold Streams.sendInterimInformationalHeaders; rw [h]

theorem sendPushPromise_refuses (s : Streams) (parent pk pid : Nat) (fields : List Hpack.Field) (e : UserError)
    (h : Streams.checkHeaders fields = .error e) :
    (s.sendPushPromise parent pk pid fields).1 = s ∧ ∃ e', (s.sendPushPromise parent pk pid fields).2 = .error e' := by
  unfold Streams.sendPushPromise
  split
  · exact ⟨rfl, _, rfl⟩
  · split
    · exact ⟨rfl, _, rfl⟩
    · rw [h]; exact ⟨rfl, _, rfl⟩

/-- conversely: whatever these four accept passed `check_headers` -/
theorem sendHeaders_ok (s : Streams) (id : Nat) (eos : Bool) (fields : List Hpack.Field)
    (h : (s.sendHeaders id eos fields).2 = .ok ()) : Streams.checkHeaders fields = .ok () := by
  unfold Streams.sendHeaders at h
  cases hc : Streams.checkHeaders fields with
  | ok u => rfl
  | error e => rw [hc] at h; cases h

theorem sendTrailers_ok (s : Streams) (id : Nat) (fields : List Hpack.Field)
    (h : (s.sendTrailers id fields).2 = .ok ()) : Streams.checkHeaders fields = .ok () := by
  unfold Streams.sendTrailers at h
  cases hc : Streams.checkHeaders fields with
  | ok u => rfl
  | error e => rw [hc] at h; cases h

theorem sendInterim_ok (s : Streams) (id : Nat) (fields : List Hpack.Field)
    (h : (s.sendInterimInformationalHeaders id fields).2 = .ok ()) : Streams.checkHeaders fields = .ok () := by
  unfold Streams.sendInterimInformationalHeaders at h
  cases hc : Streams.checkHeaders fields with
  | ok u => rfl
  | error e => rw [hc] at h; cases h

theorem sendPushPromise_ok (s : Streams) (parent pk pid : Nat) (fields : List Hpack.Field)
    (h : (s.sendPushPromise parent pk pid fields).2 = .ok ()) : Streams.checkHeaders fields = .ok () := by
  unfold Streams.sendPushPromise at h
  split at h
  · cases h
  · split at h
    · cases h
    · cases hc : Streams.checkHeaders fields with
      | ok u => rfl
      | error e => rw [hc] at h; cases h

/-- `Streams::send_request`: a refused head leaves no stream behind and no frame queued -/
theorem sendRequest_ok (s : Streams) (isHead : Bool) (fields : List Hpack.Field) (eos : Bool) (p : Option Nat)
    (r : Nat × Bool) (h : (s.sendRequest isHead fields eos p).2 = .ok r) : Streams.checkHeaders fields = .ok () := by
  cases hc : Streams.checkHeaders fields with
  | ok u => rfl
  | error e =>
    exfalso
    unfold Streams.sendRequest at h
    simp only [sendHeaders_refuses _ _ _ _ _ hc] at h
    repeat' split at h
    all_goals cases h

end H2V.Lemmas.ConnHttpP
