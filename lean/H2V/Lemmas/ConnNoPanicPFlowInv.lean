import H2V.Lemmas.ConnNoPanicPHist
import H2V.Lemmas.ConnFlowPReach
namespace H2V.Lemmas.ConnNoPanicP
open H2V H2V.Model H2V.Model.Conn H2V.Lemmas.ConnCountsP
open H2V.Lemmas.ConnResetP (Op run)
open H2V.Lemmas.ConnFlowP (SafeInv)

/-- argument bounds the decoder guarantees (ConnFlowP's `Reach`) -/
def flowPre : Op → Prop
  | .recvWindowUpdate _ inc => inc ≤ 2147483647
  | .applyRemoteSettings vals _ => ConnFlowP.SettingsOk vals
  | _ => True

/-- ConnFlowP's send-side safety invariant survives every operation -/
theorem safeInv_step {s : Streams} (ih : SafeInv s) (op : Op) (hv : flowPre op) : SafeInv (op.apply s) := by
  cases op
  case recvHeaders hd => exact ih.recvHeaders hd
  case recvData id p eos pad => exact ih.recvData id p eos pad
  case recvReset id r => exact ih.recvReset id r
  case recvWindowUpdate id inc => exact ih.recvWindowUpdate id inc hv
  case recvPushPromise id hd => exact ih.recvPushPromise id hd
  case recvGoAwayFrame l r d => exact ih.recvGoAwayFrame l r d
  case recvGoAway id => exact ih.fr ((ConnFlowP.Fr.refl _).recvGoAway id)
  case recvEof b => exact ih.recvEof b
  case handleError e => exact ih.handleError e
  case innerSendReset id r => exact ih.innerSendReset id r
  case applyRemoteSettings vals b => exact ih.applyRemoteSettings vals b hv
  case applyLocalSettingsFrame vals => exact ih.applyLocalSettingsFrame vals
  case setTargetConnectionWindow n => exact ih.fr ((ConnFlowP.Fr.refl _).setTargetConnectionWindow n)
  case clearExpiredResetStreams fuel => exact ih.fr (ConnFlowP.Fr.clearExpiredResetStreams fuel (ConnFlowP.Fr.refl _))
  case pollComplete fuel w io tag => exact SafeInv.pollComplete fuel ih w io tag
  case pollSendPendingRefusal fuel w io tag => exact SafeInv.pollSendPendingRefusal fuel ih w io tag
  case wake w => exact ih.fr ((ConnFlowP.Fr.refl _).wake w)
  case panic m => exact ih.fr ((ConnFlowP.Fr.refl _).panic m)
  case clearWakes => exact ih.fr ((ConnFlowP.Fr.refl _).withWakes [])
  case cloneHandle => exact ih.cloneHandle
  case dropHandle => exact ih.dropHandle
  case cloneStreamRef id => exact ih.cloneStreamRef id
  case dropStreamRef id => exact ih.dropStreamRef id
  case sendRequest b f eos p => exact ih.sendRequest b f eos p
  case pollPendingOpen p tag => exact ih.pollPendingOpen p tag
  case nextIncoming => exact ih.nextIncoming
  case recvTakeRequest id => exact ih.fr ((ConnFlowP.Fr.refl _).recvTakeRequest id)
  case refSendResponse k f eos => exact ih.refSendResponse k f eos
  case refSendInformationalHeaders k f => exact ih.refSendInformationalHeaders k f
  case refSendPushPromise k b f => exact ih.refSendPushPromise k b f
  case refSendData id len eos => exact ih.refSendData id len eos
  case refSendTrailers id f => exact ih.refSendTrailers id f
  case refSendReset id r => exact ih.refSendReset id r
  case refReserveCapacity id c => exact ih.refReserveCapacity id c
  case pollCapacity id tag => exact ih.fr ((ConnFlowP.Fr.refl _).pollCapacity id tag)
  case pollReset id m tag => exact ih.fr ((ConnFlowP.Fr.refl _).pollReset id m tag)
  case recvPollResponse fuel id tag => exact ih.fr (ConnFlowP.Fr.recvPollResponse fuel (ConnFlowP.Fr.refl _) id tag)
  case recvPollInformational id tag => exact ih.fr ((ConnFlowP.Fr.refl _).recvPollInformational id tag)
  case refPollData id tag => exact ih.refPollData id tag
  case recvPollTrailers id tag => exact ih.fr ((ConnFlowP.Fr.refl _).recvPollTrailers id tag)
  case refReleaseCapacity id c => exact ih.refReleaseCapacity id c
  case refClearRecvBuffer id => exact ih.refClearRecvBuffer id
