import H2V.Lemmas.ConnWakePConn
/-
  ConnWakeP, part 18 — C07 for a received GOAWAY: `Inner::recv_go_away` fails every locally initiated
  stream above `last_stream_id` (and the streams still waiting in `pending_open`): same guarantee as
  for `recv_eof`, for the streams whose id is above `last_stream_id`.
  Needs that the role (`counts.peer`) is not changed by the per-stream closure (`Srv`).
-/
namespace H2V.Lemmas.ConnWakeP
open H2V H2V.Model H2V.Model.Conn

/-- the role of the endpoint -/
def Srv (b : Bool) (s : Streams) : Prop := s.counts.isServer = b

section
variable {b : Bool} {s : Streams}

theorem srv_of_counts_eq {t : Streams} (h : Srv b s) (e : t.counts.isServer = s.counts.isServer) : Srv b t := e.trans h

@[grind ←] theorem panic_srv (m : String) (h : Srv b s) : Srv b (s.panic m) :=
  srv_of_counts_eq h (by unfold Streams.panic; split <;> rfl)
@[grind ←] theorem wake_srv (w : List String) (h : Srv b s) : Srv b (s.wake w) := srv_of_counts_eq h rfl
@[grind ←] theorem notifyTask_srv (h : Srv b s) : Srv b s.notifyTask :=
  srv_of_counts_eq h (by unfold Streams.notifyTask; split <;> rfl)
@[grind ←] theorem modPrio_srv (f : Prioritize → Prioritize) (h : Srv b s) : Srv b (s.modPrio f) := srv_of_counts_eq h rfl
@[grind ←] theorem modSend_srv (f : Send → Send) (h : Srv b s) : Srv b (s.modSend f) := srv_of_counts_eq h rfl
@[grind ←] theorem modRecv_srv (f : Recv → Recv) (h : Srv b s) : Srv b (s.modRecv f) := srv_of_counts_eq h rfl
@[grind ←] theorem setQ_srv (q : QName) (l : List Nat) (h : Srv b s) : Srv b (s.setQ q l) := by
  cases q <;> exact srv_of_counts_eq h rfl
@[grind ←] theorem modStream_srv (k : Nat) (f : Stream → Stream) (h : Srv b s) : Srv b (s.modStream k f) :=
  srv_of_counts_eq h (by unfold Streams.modStream; split; rfl; unfold Streams.panic; split <;> rfl)
@[grind ←] theorem modStreamW_srv (k : Nat) (f : Stream → Stream × List String) (h : Srv b s) : Srv b (s.modStreamW k f) :=
  srv_of_counts_eq h (by unfold Streams.modStreamW; split; rfl; unfold Streams.panic; split <;> rfl)
@[grind ←] theorem modCounts_srv (f : Counts → Counts) (hf : (f s.counts).isServer = s.counts.isServer) (h : Srv b s) :
    Srv b (s.modCounts f) := srv_of_counts_eq h hf
@[grind ←] theorem decNumResetStreams_srv (m : String) (h : Srv b s) : Srv b (s.modCountsA m Counts.decNumResetStreams) := by
  unfold Streams.modCountsA Counts.decNumResetStreams
  split
  · next c hc => split at hc
                 · cases hc; exact srv_of_counts_eq h rfl
                 · cases hc
  · exact panic_srv _ h
@[grind ←] theorem unlink_srv (id : Nat) (h : Srv b s) : Srv b { s with store := s.store.unlink id } := srv_of_counts_eq h rfl
@[grind ←] theorem remove_srv (k n : Nat) (h : Srv b s) : Srv b { s with store := s.store.remove k, recvBufferLeaked := n } :=
  srv_of_counts_eq h rfl
@[grind ←] theorem setConnError_srv (e : PErr) (h : Srv b s) :
    Srv b { s with actions := { s.actions with connError := some e } } := srv_of_counts_eq h rfl

@[grind ←] theorem qPush_srv (q : QName) (k : Nat) (h : Srv b s) : Srv b (s.qPush q k).1 := by
  unfold Streams.qPush; tear_grind
@[grind ←] theorem qPop_srv (q : QName) (h : Srv b s) : Srv b (s.qPop q).1 := by
  unfold Streams.qPop; tear_grind
@[grind ←] theorem decNumStreams_srv (k : Nat) (h : Srv b s) : Srv b (s.decNumStreams k) := by
  unfold Streams.decNumStreams; tear_grind
@[grind ←] theorem transitionAfter_srv (k : Nat) (r : Bool) (h : Srv b s) : Srv b (s.transitionAfter k r) := by
  unfold Streams.transitionAfter; tear_grind
@[grind ←] theorem tryAssignCapacity_srv (k : Nat) (h : Srv b s) : Srv b (s.tryAssignCapacity k) := by
  unfold Streams.tryAssignCapacity; tear_grind
@[grind ←] theorem assignConnectionCapacityLoop_srv (n : Nat) (h : Srv b s) : Srv b (Streams.assignConnectionCapacityLoop n s) := by
  induction n generalizing s with
  | zero => unfold Streams.assignConnectionCapacityLoop; exact h
  | succ n ih => unfold Streams.assignConnectionCapacityLoop; tear_grind
@[grind ←] theorem assignConnectionCapacity_srv (inc : Nat) (h : Srv b s) : Srv b (s.assignConnectionCapacity inc) := by
  unfold Streams.assignConnectionCapacity; tear_grind
@[grind ←] theorem reclaimAllCapacity_srv (k : Nat) (h : Srv b s) : Srv b (s.reclaimAllCapacity k) := by
  unfold Streams.reclaimAllCapacity; tear_grind
@[grind ←] theorem clearQueue_srv (k : Nat) (h : Srv b s) : Srv b (s.clearQueue k) := by
  unfold Streams.clearQueue; tear_grind
@[grind ←] theorem sendHandleError_srv (k : Nat) (h : Srv b s) : Srv b (s.sendHandleError k) := by
  unfold Streams.sendHandleError; tear_grind
@[grind ←] theorem recvHandleError_srv (k : Nat) (e : PErr) (h : Srv b s) : Srv b (s.recvHandleError k e) := by
  unfold Streams.recvHandleError; tear_grind
theorem errClosure_srv (e : PErr) (k : Nat) (h : Srv b s) :
    Srv b (s.transition k fun s => ((s.recvHandleError k e).sendHandleError k, ())).1 := by
  unfold Streams.transition; tear_grind
theorem sendRecvGoAway_srv (l : Nat) (h : Srv b s) : Srv b (s.sendRecvGoAway l).1 := by
  unfold Streams.sendRecvGoAway; tear_grind
end

theorem isLocalInit_of_srv {b : Bool} {t : Streams} (h : Srv b t) (x : Nat) :
    t.counts.isLocalInit x = (b == (x % 2 == 0)) := by
  unfold Counts.isLocalInit; rw [h]

/-- the closure of `recv_go_away` -/
def goAwayClosure (last : Nat) (err : PErr) (t : Streams) (k : Nat) : Streams :=
  let st := t.stream k
  if (st.id > last || st.isPendingOpen) && t.counts.isLocalInit st.id then
    (t.transition k fun s => ((s.recvHandleError k err).sendHandleError k, ())).1
  else t

theorem goAwayClosure_cases (last : Nat) (err : PErr) (t : Streams) (k : Nat) :
    goAwayClosure last err t k = (t.transition k fun s => ((s.recvHandleError k err).sendHandleError k, ())).1 ∨
    goAwayClosure last err t k = t := by
  unfold goAwayClosure; simp only; split
  · exact Or.inl rfl
  · exact Or.inr rfl

/-- **`Inner::recv_go_away`** (GOAWAY received): `conn_error` is the remote GOAWAY, and every locally initiated
    stream above `last_stream_id` that the id map knew is released or closed with all parked wakers
    woken, its receive queue / reference count / END_STREAM flag untouched -/
theorem recvGoAwayFrame_all (s s' : Streams) (hg : Good s) (last : Nat) (r : Reason) (d : Bytes)
    (hok : s.recvGoAwayFrame last r d = (s', .ok ())) :
    s'.actions.connError = some (PErr.remoteGoAway d r) ∧
    ∀ e ∈ s.store.ids, e.1 > last → s.counts.isLocalInit e.1 = true →
      ∀ a, s.store.get? e.2 = some a → EndedAt s s' e.2 a := by
  have hstep : Step none s s' := (recvGoAwayFrame_acc last r d (Step.refl none s)).of_fst hok
  have hkeep : KS s s' := (k_recvGoAwayFrame last r d (GStep.refl s)).of_fst hok
  unfold Streams.recvGoAwayFrame at hok
  rcases hsg : s.sendRecvGoAway last with ⟨s1, e | u⟩
  · rw [hsg] at hok; cases hok
  · rw [hsg] at hok
    simp only at hok
    obtain ⟨rfl, _⟩ := Prod.mk.inj hok
    refine ⟨rfl, fun e he hlast hloc a ha => endedAt_of hg.bounded ha ?_ hkeep hstep⟩
    have h1s : s1.store = s.store := by
      have : s1 = (s.sendRecvGoAway last).1 := by rw [hsg]
      rw [this]; unfold Streams.sendRecvGoAway; split <;> rfl
    have hsrv1 : Srv s.counts.isServer s1 := by
      have := sendRecvGoAway_srv last (b := s.counts.isServer) (s := s) rfl
      rw [hsg] at this; exact this
    have hC := errClosure_closure (PErr.remoteGoAway d r)
    -- the loop
    have key := tryForEach_visits (goAwayClosure last (PErr.remoteGoAway d r))
      (fun t => IdsOK t.store ∧ Srv s.counts.isServer t)
      (fun e t => e.1 > last → (s.counts.isServer == (e.1 % 2 == 0)) = true → Done e.2 t)
      (fun t hI => hI.1.1)
      (fun t e hI he h1 h2 => by
        cases hga : t.store.get? e.2 with
        | none =>
          rcases goAwayClosure_cases last (PErr.remoteGoAway d r) t e.2 with h | h
          · rw [h]; exact Or.inl ((hC.rs t e.2).fresh e.2 hga)
          · rw [h]; exact Or.inl hga
        | some a0 =>
          have hid : a0.id = e.1 := hI.1.2 e he a0 hga
          have : goAwayClosure last (PErr.remoteGoAway d r) t e.2 =
              (t.transition e.2 fun s => ((s.recvHandleError e.2 (PErr.remoteGoAway d r)).sendHandleError e.2, ())).1 := by
            unfold goAwayClosure
            simp only [stream_eq_of_get? hga, hid, isLocalInit_of_srv hI.2, h2, Bool.and_true]
            simp [h1]
          rw [this]; exact hC.done t e.2)
      (fun t e e' hI he hP h1 h2 => by
        rcases goAwayClosure_cases last (PErr.remoteGoAway d r) t e.2 with h | h
        · rw [h]; exact (hP h1 h2).of_rs (hC.rs t e.2)
        · rw [h]; exact hP h1 h2)
      (fun t e hI he => by
        rcases goAwayClosure_cases last (PErr.remoteGoAway d r) t e.2 with h | h
        · rw [h]; exact ⟨hC.idsOK hI.1 he, errClosure_srv _ _ hI.2⟩
        · rw [h]; exact hI)
      (fun t e hI he => by
        rcases goAwayClosure_cases last (PErr.remoteGoAway d r) t e.2 with h | h
        · rw [h]
          cases hga : t.store.get? e.2 with
          | none => exact Or.inl (hC.ids_none t e.2 hga)
          | some a0 => rw [← hI.1.2 e he a0 hga]; exact hC.ids t e.2 a0 hga
        · rw [h]; exact Or.inl rfl)
      s1.store.ids (2 * s1.store.ids.length + 1) 0 s1 ⟨h1s ▸ hg.ids, hsrv1⟩ (by omega)
      (fun e he => by
        obtain ⟨j, hj⟩ := List.getElem?_of_mem he
        exact Or.inr ⟨j, Nat.zero_le _, hj⟩)
    have hd := key.2 e (h1s ▸ he) hlast (by
      have := hloc; unfold Counts.isLocalInit at this; exact this)
    -- `storeForEach` is that loop; setting `conn_error` afterwards does not touch the store
    have : Done e.2 (s1.storeForEach (goAwayClosure last (PErr.remoteGoAway d r))) := by
      unfold Streams.storeForEach Streams.storeTryForEach; exact hd
    exact this.of_rs (g_setConnError _ (GStep.refl _))

end H2V.Lemmas.ConnWakeP
