import H2V.Lemmas.ConnNoPanicPPollCoupled
/-
  C08 (no panic) — part 15: the loop of `Prioritize::buffer_pending`, `Inner::buffer_pending`,
  `Streams::poll_complete`, `Streams::send_pending_refusal`.
-/
namespace H2V.Lemmas.ConnNoPanicP
open H2V H2V.Model H2V.Model.Conn H2V.Lemmas.ConnCountsP
attribute [local irreducible] wrapSubU32 wrapSubUsize

/-- everything the write path keeps -/
structure WI (E : Nat → Prop) (g : ConnRecvP.Ghost) (s : Streams) (w : Writer) : Prop where
  pi : PI E s
  safe : ConnFlowP.SafeInv s
  recv : ConnRecvP.Inv true g s
  ds : DSum s
  cp : Coupled s w

/-- the model's own markers: a loop of the model ran out of fuel (the Rust loops have none) -/
def OutOfFuel (t : Streams) : Prop :=
  t.panicked = some "model: buffer_pending out of fuel" ∨ t.panicked = some "model: poll_complete out of fuel"

theorem hasCapacity_nextP {w : Writer} (h : w.hasCapacity = true) : w.next = none := by
  unfold Writer.hasCapacity at h
  simp only [Bool.and_eq_true] at h
  cases hn : w.next with
  | none => rfl
  | some _ => rw [hn] at h; cases h.1

theorem panic_of_noneP {s : Streams} (h : s.panicked = none) (m : String) : (s.panic m).panicked = some m := by
  unfold Streams.panic; rw [h]

/-- the `pop_pending_open` step at the head of the loop of `buffer_pending` -/
theorem loopOpen_w {E : Nat → Prop} {g : ConnRecvP.Ghost} {s : Streams} (h : PI E s) (hs : ConnFlowP.SafeInv s)
    (hr : ConnRecvP.Inv true g s) (hd : DSum s) :
    ∀ s1, s1 = (match s.popPendingOpen.2 with
      | some id => ((s.popPendingOpen.1.qPushFront .pendingSend id).1).tryAssignCapacity id
      | none => s.popPendingOpen.1) →
    PI E s1 ∧ ConnFlowP.SafeInv s1 ∧ ConnRecvP.Inv true g s1 ∧ DSum s1 := by
  intro s1 hs1
  subst hs1
  have hp := popPendingOpen_pi h
  have hs1 : ConnFlowP.SafeInv s.popPendingOpen.1 := by safe_auto
  have hr1 := hr.of_ext (ConnRecvP.popPendingOpen_ext s)
  have hd1 := (popPendingOpen_dk s).dsum hd
  generalize s.popPendingOpen = p at hp hs1 hr1 hd1 ⊢
  obtain ⟨s0, o⟩ := p
  cases o with
  | some id =>
    dsimp only at hp hs1 hr1 hd1 ⊢
    have hl := hp.2 id rfl
    refine ⟨hp.1.st (ks := [id]) ⟨?_, ?_, ?_⟩ (liveAll1 hl), ?_, ?_, DK.dsum ?_ hd1⟩
    · lt_auto
    · ev_auto
    · fk_auto
    · safe_auto
    · exact (hr1.of_ext (ConnRecvP.qPushFront_ext _ _ _)).of_ext (ConnRecvP.tryAssignCapacity_ext _ _)
    · dk_auto
  | none => exact ⟨hp.1, hs1, hr1, hd1⟩

theorem reclaimFrame_none {s : Streams} {w : Writer} (h : w.lastDataFrame = none) : (s.reclaimFrame w).1 = s := by
  unfold Streams.reclaimFrame Writer.takeLastDataFrame; rw [h]

/-- one frame goes to the codec and what the codec hands back at once is reclaimed -/
theorem bufferReclaim_w {E : Nat → Prop} {g : ConnRecvP.Ghost} {s : Streams} {w : Writer} {f : Streams.OutFrame}
    (h : PI E s) (hs : ConnFlowP.SafeInv s) (hr : ConnRecvP.Inv true g s) (hd : DSum s)
    (hw1 : w.lastDataFrame = none) (hw2 : w.next = none)
    (hlen : ∀ len e fr, f = .data len e fr → len ≤ w.maxFrameSize)
    (hheld : ∀ len e fr, f = .data len e fr → HeldOK s fr) :
    WI E g ((s.bufferOut w f).1.reclaimFrame (s.bufferOut w f).2).1 ((s.bufferOut w f).1.reclaimFrame (s.bufferOut w f).2).2.1 ∧
    ((s.bufferOut w f).1.reclaimFrame (s.bufferOut w f).2).2.1.lastDataFrame = none := by
  have hb := bufferOut_pi h w f hlen
  have hs3 : ConnFlowP.SafeInv (s.bufferOut w f).1 := by safe_auto
  have hr3 := hr.of_ext (ConnRecvP.bufferOut_ext s w f)
  have hd3 : DSum (s.bufferOut w f).1 := (DK.of_store hb.2.1).dsum hd
  have hc3 : Coupled (s.bufferOut w f).1 (s.bufferOut w f).2 := by
    cases f with
    | data len e fr =>
      have hb' := hb.2.2
      dsimp only at hb'
      have hfr : ∀ fr', held (s.bufferOut w (.data len e fr)).2 fr' → fr' = fr := by
        intro fr' hf
        rcases hb'.2 with ⟨h1, h2⟩ | ⟨h1, nd, h2, h3⟩
        · rcases hf with e1 | ⟨nd', e1, _⟩
          · rw [h1] at e1; cases e1; rfl
          · rw [h2, hw2] at e1; cases e1
        · rcases hf with e1 | ⟨nd', e1, e2⟩
          · rw [h1, hw1] at e1; cases e1
          · rw [h2] at e1; cases e1; rw [← e2, h3]
      refine ⟨?_, fun fr' hf => ?_, fun fr' hf _ => ?_⟩
      · rcases hb'.2 with ⟨_, h2⟩ | ⟨h1, _⟩
        · exact .inr (h2.trans hw2)
        · exact .inl (h1.trans hw1)
      · rw [hb'.1]; intro h'; cases h'
      · rw [hfr fr' hf]
        exact (HK.of_store hb.2.1).heldOK (hheld len e fr rfl)
    | headers sid eos fields =>
      have hb' := hb.2.2; dsimp only at hb'
      exact .of_none (hb'.2.1.trans hw1) (hb'.2.2.trans hw2)
    | reset sid reason =>
      have hb' := hb.2.2; dsimp only at hb'
      exact .of_none (hb'.2.1.trans hw1) (hb'.2.2.trans hw2)
    | pushPromise sid p fields =>
      have hb' := hb.2.2; dsimp only at hb'
      exact .of_none (hb'.2.1.trans hw1) (hb'.2.2.trans hw2)
  generalize hs3' : (s.bufferOut w f).1 = s3 at hb hs3 hr3 hd3 hc3 ⊢
  generalize hw3' : (s.bufferOut w f).2 = w3 at hc3 ⊢
  have hrc := reclaimFrame_pi hb.1 hd3 hc3
  have hs4 : ConnFlowP.SafeInv (s3.reclaimFrame w3).1 := by safe_auto
  have hr4 := hr3.of_ext (ConnRecvP.reclaimFrame_ext s3 w3)
  refine ⟨⟨hrc.1, hs4, hr4, hrc.2.1, ?_⟩, by rw [hrc.2.2]⟩
  rw [hrc.2.2]
  cases hld : w3.lastDataFrame with
  | some fr =>
    have hn : w3.next = none := by
      rcases hc3.one with e | e
      · rw [e] at hld; cases hld
      · exact e
    exact .of_none rfl hn
  | none =>
    rw [reclaimFrame_none hld]
    refine hc3.writer (.inl rfl) (fun fr hf => ?_)
    rcases hf with e | ⟨nd, e, e2⟩
    · cases e
    · exact .inr ⟨nd, e, e2⟩

set_option hygiene false in
/-- the loop body behind `pop_pending_open`: `pop_frame`, `dst.buffer`, `reclaim_frame` -/
local macro "loop_rest" : tactic => `(tactic|
  (have hp := popFrame_pi ho.1 ho.2.1 (Streams.popFrameFuel s1) w.maxFrameSize
   have hps := ho.2.1.popFrame (Streams.popFrameFuel s1) w.maxFrameSize
   have hpr := ho.2.2.1.of_ext (ConnRecvP.popFrame_ext (Streams.popFrameFuel s1) s1 w.maxFrameSize)
   have hpd := popFrame_ds ho.1 ho.2.1 ho.2.2.2 (Streams.popFrameFuel s1) w.maxFrameSize
   split
   · next s2 f heq =>
     rw [heq] at hp hps hpr hpd
     have hbr := bufferReclaim_w (f := f) hp hps hpr hpd.1 hw1 hw2
       (fun len e fr hf => by subst hf; exact popFrame_len_le ho.2.1 heq)
       (fun len e fr hf => hpd.2 len e fr (by rw [hf]))
     exact ih hbr.1 hbr.2
   · next s2 heq =>
     rw [heq] at hp hps hpr hpd
     exact .inr ⟨hp, hps, hpr, hpd.1, .of_none hw1 hw2⟩))

/-- **the loop of `Prioritize::buffer_pending`**: out of (model) fuel, or everything is kept -/
theorem prioBufferPendingLoop_w {E : Nat → Prop} {g : ConnRecvP.Ghost} (fuel : Nat) :
    ∀ {s : Streams} {w : Writer}, WI E g s w → w.lastDataFrame = none →
      OutOfFuel (Streams.prioBufferPendingLoop fuel s w).1 ∨
      WI E g (Streams.prioBufferPendingLoop fuel s w).1 (Streams.prioBufferPendingLoop fuel s w).2.1 := by
  induction fuel with
  | zero =>
    intro s w h _
    unfold Streams.prioBufferPendingLoop
    exact .inl (.inl (panic_of_noneP h.pi.npi.np _))
  | succ n ih =>
    intro s w h hw1
    unfold Streams.prioBufferPendingLoop
    split
    · exact .inr h
    · next hcap =>
      have hw2 : w.next = none := hasCapacity_nextP (by simpa using hcap)
      have ho := loopOpen_w h.pi h.safe h.recv h.ds
      dsimp only
      cases hpo : s.popPendingOpen with
      | mk s0 o =>
      rw [hpo] at ho
      dsimp only at ho
      cases o with
      | some id =>
        dsimp only at ho ⊢
        have ho := ho _ rfl
        generalize ((s0.qPushFront .pendingSend id).1).tryAssignCapacity id = s1 at ho ⊢
        loop_rest
      | none =>
        dsimp only at ho ⊢
        have ho := ho _ rfl
        generalize s0 = s1 at ho ⊢
        loop_rest

end H2V.Lemmas.ConnNoPanicP
