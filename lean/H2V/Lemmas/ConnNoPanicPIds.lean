import H2V.Lemmas.ConnNoPanicPHist
/-
  C08 (no panic) — `IBS`, part 1: every locally initiated slab entry has an id below `next_stream_id`.
  With `IdsOK` this discharges `assert!(self.ids.insert(id, index).is_none())` of `Store::insert`
  (`IBS.hfree`).  Steps without insertion (`EvB false`, the pops of `pending_reset_expired`) are `LD`.
-/
namespace H2V.Lemmas.ConnNoPanicP
open H2V H2V.Model H2V.Model.Conn H2V.Lemmas.ConnCountsP
open H2V.Lemmas.ConnResetP (Op run)

/-- every locally initiated slab entry has an id below `next_stream_id` -/
def IBS (s : Streams) : Prop :=
  ∀ x ∈ s.store.slab, s.counts.isLocalInit x.id = true → ∀ n, s.actions.send.nextStreamId = some n → x.id < n

theorem IBS_blank {s : Streams} (h : Blank s) (_hq : ∀ q, s.getQ q = []) : IBS s := by
  intro x hx; rw [h.slab] at hx; cases hx

theorem IBS.hfree {s : Streams} (hn : NPI (fun _ => False) s) (hi : IBS s) :
    ∀ id, s.actions.send.nextStreamId = some id → s.store.contains id = false := by
  intro id hid
  cases hc : s.store.contains id with
  | false => rfl
  | true =>
    exfalso
    unfold Store.contains at hc
    obtain ⟨k, hk⟩ := Option.isSome_iff_exists.mp hc
    obtain ⟨⟨x, hx⟩, hxid⟩ := hn.ids.findKey hk
    rw [stream_of_get? hx] at hxid
    have := hi x (get?_mem hx) (by rw [hxid]; exact hn.nl id hid) id hid
    omega

/-- the steps available without insertion keep every look-up under its key and stream id -/
theorem evB_ld_aux {ρ : Bool} {s s' : Streams} (h : EvB ρ s s') (hρ : ρ = false) : LD s s' := by
  induction h with
  | refl s => exact LD.refl s
  | trans _ _ ih1 ih2 => exact (ih1 hρ).trans (ih2 hρ)
  | free h => exact LD.of_frame h
  | setStream st' h => exact LD.setStream _ _ (fun x hx => ⟨(h x hx).early, (h x hx).id⟩)
  | qPush q k _ _ => exact LD.qPush _ _ _
  | qPushFront q k _ _ => exact LD.qPushFront _ _ _
  | qPushOpen k _ => exact LD.qPush _ _ _
  | qPop q _ _ => exact LD.qPop _ _
  | qPopOpen => exact LD.qPop _ _
  | resetEnq k _ _ _ => exact (LD.modCountsA _ _ _).trans (LD.qPush _ _ _)
  | insert st _ _ => cases hρ
  | bracket st _ _ _ ih => cases hρ
  | unlink _ => exact LD.of_store_eq rfl |>.trans (LD.refl _) |> fun h => ⟨h.nextKey, h.desc⟩
  | remove k n _ => exact LD.remove _ k n
  | popOpen _ =>
    rename_i s0 _
    have := LD.qPop s0 QName.pendingOpen
    split
    · next s1 id heq => rw [heq] at this; exact this.trans (LD.incNumSendStreams _ _)
    · next s1 heq => rw [heq] at this; exact this
  | acceptFlag k v => exact LD.modStream _ k _ (fun _ => ⟨id, rfl⟩) (fun _ => rfl)
  | queuePP k pk pid fields _ => exact LD.modStream _ k _ (fun _ => ⟨id, rfl⟩) (fun _ => rfl)
  | ppAct sid pk pid fields rest pushed _ _ =>
    rename_i s0 _ _
    refine LD.trans (LD.modStream s0 sid (fun st => { st with pendingSend := rest }) (fun _ => ⟨id, rfl⟩) (fun _ => rfl)) ?_
    generalize s0.modStream sid (fun st => { st with pendingSend := rest }) = s1
    unfold ppActivate Streams.queueOpen
    dsimp only
    repeat (first
      | with_reducible exact LD.refl _
      | with_reducible refine LD.trans ?_ (LD.qPush _ _ _)
      | with_reducible refine LD.trans ?_ (LD.incNumSendStreams _ _)
      | with_reducible refine LD.trans ?_ (LD.modStream _ _ _ (fun _ => ⟨id, rfl⟩) (fun _ => rfl))
      | split)
  | incRecv k st' s1 he hf => cases hρ
  | decNum k => exact LD.decNumStreams _ _

theorem evF_ld {s s' : Streams} (h : EvB false s s') : LD s s' := evB_ld_aux h rfl

/-- `IBS` travels along look-up-descending steps -/
theorem IBS.of_ld {s s' : Streams} (hi : IBS s) (hk' : KeysOK s') (hld : LD s s') (hnx : NX s s') : IBS s' := by
  intro x' hx' hloc n' hn'
  obtain ⟨x, hx, _, hid⟩ := hld.desc x'.key x' (hk'.get?_of_mem hx')
  obtain ⟨n, hn, hle, _⟩ := hnx.next n' hn'
  rw [isLocalInit_eq, hnx.role, ← isLocalInit_eq, hid] at hloc
  have := hi x (get?_mem hx) hloc n hn
  omega

theorem IBS.of_evF {s s' : Streams} (hi : IBS s) (hk : KeysOK s) (e : EvB false s s') : IBS s' :=
  hi.of_ld (e.keysOK hk) (evF_ld e) e.nx

-- ===================================================================== the pops of `pending_reset_expired`

theorem LD.transitionAfter (s : Streams) (k : Nat) (b : Bool) : LD s (s.transitionAfter k b) := by
  rw [transitionAfter_split]
  refine LD.trans ?_ (evF_ld (transitionAfter_ev _ k false (fun h => Bool.noConfusion h)))
  split
  · exact LD.modCountsA _ _ _
  · exact LD.refl _

theorem LD.resetPop (s : Streams) :
    LD s (match s.qPop .pendingResetExpired with
          | (s', some id) => s'.transitionAfter id true
          | (s', none) => s') := by
  have h := LD.qPop s .pendingResetExpired
  split
  · next s' id heq => rw [heq] at h; exact h.trans (LD.transitionAfter _ _ _)
  · next s' heq => rw [heq] at h; exact h

theorem clearExpiredResetStreams_ld : ∀ (fuel : Nat) (s : Streams), LD s (Streams.clearExpiredResetStreams fuel s) := by
  intro fuel
  induction fuel with
  | zero => intro s; exact .refl _
  | succ n ih =>
    intro s
    unfold Streams.clearExpiredResetStreams
    split
    · exact .refl _
    · have h := LD.resetPop s
      split
      · next s' heq => rw [heq] at h; exact h
      · next s' id heq => rw [heq] at h; exact .trans h (ih _)

theorem clearAllResetStreams_ld : ∀ (fuel : Nat) (s : Streams), LD s (Streams.clearAllResetStreams fuel s) := by
  intro fuel
  induction fuel with
  | zero => intro s; exact .refl _
  | succ n ih =>
    intro s
    unfold Streams.clearAllResetStreams
    have h := LD.resetPop s
    split
    · next s' heq => rw [heq] at h; exact h
    · next s' id heq => rw [heq] at h; exact .trans h (ih _)

theorem recvClearQueues_ld (s : Streams) (b : Bool) : LD s (s.recvClearQueues b) := by
  unfold Streams.recvClearQueues
  dsimp only
  split
  · exact .trans (.trans (evF_ld (clearStreamWindowUpdateQueue_ev _ _)) (clearAllResetStreams_ld _ _)) (evF_ld (clearAllPendingAccept_ev _ _))
  · exact .trans (evF_ld (clearStreamWindowUpdateQueue_ev _ _)) (clearAllResetStreams_ld _ _)

theorem clearQueues_ld (s : Streams) (b : Bool) : LD s (s.clearQueues b) := by
  unfold Streams.clearQueues
  exact .trans (recvClearQueues_ld _ _) (evF_ld (sendClearQueues_ev _))

theorem recvEof_ld (s : Streams) (b : Bool) : LD s (s.recvEof b) := by
  unfold Streams.recvEof
  dsimp only
  refine .trans (evF_ld ?_) (clearQueues_ld _ _)
  refine .trans ?_ (storeForEach_ev _ _ (fun s id => eofStream_ev s id))
  split
  · exact setMisc_ev _ _ _ _ _ _ ⟨rfl, rfl, rfl, rfl, rfl⟩
  · exact .refl _

end H2V.Lemmas.ConnNoPanicP
