import H2V.Lemmas.ConnDrainPCore
/-
  ConnDrainP, part 4 — what the queue operations, `transition_after`, `try_assign_capacity` and the loop of
  `assign_connection_capacity` do to the measure `Phi`; the invariant `PInv` carried through `pop_frame`.
-/
namespace H2V.Lemmas.ConnDrainP
open H2V H2V.Model H2V.Model.Conn
open H2V.Lemmas.ConnFlowP (KeysOk SafeInv SafeInvG ReqOk stream_of_get stream_panic stream_modStream_self stream_modStream_other modStream_none)
open H2V.Lemmas.ConnCountsP (QOK Flagged Ev EvB)

-- ===================================================================== queue operations and the measure

theorem qPop_none_eq {s s' : Streams} {q : QName} (h : s.qPop q = (s', none)) : s' = s ∧ s.getQ q = [] := by
  unfold Streams.qPop at h
  split at h
  · next hq => cases h; exact ⟨rfl, hq⟩
  · cases h

theorem qPop_some_eq {s s' : Streams} {q : QName} {k : Nat} (h : s.qPop q = (s', some k)) :
    ∃ rest, s.getQ q = k :: rest ∧ s' = (s.setQ q rest).modStream k fun st => st.setQueued q false := by
  unfold Streams.qPop at h
  split at h
  · cases h
  · next id rest hq => cases h; exact ⟨rest, hq, rfl⟩

theorem qPush_PS_phi {s : Streams} (hk : KeysOk s.store) (k : Nat) :
    Phi (s.qPush .pendingSend k).1 ≤ Phi s + (if ret0 (s.stream k) then 0 else 2) := by
  unfold Streams.qPush
  split
  · exact Nat.le_add_right _ _
  · show Phi ((s.modStream k _).setQ _ _) ≤ _
    rw [Phi_setQ]
    refine Phi_modStream_le hk k _ (fun x => setQueued_key x _ _) _ ?_
    intro a ha
    rw [stream_of_get ha]
    exact phi_setPS_true_le a

theorem qPush_PC_phi {s : Streams} (hk : KeysOk s.store) (k : Nat) :
    Phi (s.qPush .pendingCapacity k).1 ≤ Phi s + (if (s.qPush .pendingCapacity k).1.prio.pendingCapacity = s.prio.pendingCapacity then 0 else 2) := by
  unfold Streams.qPush
  split
  · simp
  · have hne : ¬ ((((s.modStream k fun st => st.setQueued .pendingCapacity true).setQ .pendingCapacity
        (s.getQ .pendingCapacity ++ [k])), true).1.prio.pendingCapacity = s.prio.pendingCapacity) := by
      show ¬ (s.getQ .pendingCapacity ++ [k] = s.prio.pendingCapacity)
      intro h
      have := congrArg List.length h
      simp [Streams.getQ] at this
    rw [if_neg hne]
    show Phi ((s.modStream k _).setQ _ _) ≤ _
    rw [Phi_setQ]
    refine Phi_modStream_le hk k _ (fun x => setQueued_key x _ _) _ ?_
    intro a _
    exact phi_setPC_true_le a

theorem qPop_PS_phi {s s0 : Streams} {k : Nat} (hk : KeysOk s.store) (hq : QOK .pendingSend s)
    (h : s.qPop .pendingSend = (s0, some k)) :
    Phi s0 + (if ret0 (s.stream k) then 0 else 2) = Phi s := by
  obtain ⟨rest, hg, rfl⟩ := qPop_some_eq h
  obtain ⟨a, ha, hfl⟩ := (hq.mem k).mp (by rw [hg]; exact List.mem_cons_self ..)
  have hk' : KeysOk (s.setQ .pendingSend rest).store := by rw [ConnCountsP.setQ_store]; exact hk
  have ha' : (s.setQ .pendingSend rest).store.get? k = some a := by rw [ConnCountsP.setQ_store]; exact ha
  have := (Phi_modStream hk' k (fun st => st.setQueued .pendingSend false) (fun x => setQueued_key x _ _)).1 a ha'
  rw [Phi_setQ] at this
  have h2 := phi_setPS_false a hfl
  rw [stream_of_get ha]
  omega

theorem qPop_PC_phi {s s0 : Streams} {k : Nat} (hk : KeysOk s.store) (hq : QOK .pendingCapacity s)
    (h : s.qPop .pendingCapacity = (s0, some k)) : Phi s0 + 2 = Phi s := by
  obtain ⟨rest, hg, rfl⟩ := qPop_some_eq h
  obtain ⟨a, ha, hfl⟩ := (hq.mem k).mp (by rw [hg]; exact List.mem_cons_self ..)
  have hk' : KeysOk (s.setQ .pendingCapacity rest).store := by rw [ConnCountsP.setQ_store]; exact hk
  have ha' : (s.setQ .pendingCapacity rest).store.get? k = some a := by rw [ConnCountsP.setQ_store]; exact ha
  have := (Phi_modStream hk' k (fun st => st.setQueued .pendingCapacity false) (fun x => setQueued_key x _ _)).1 a ha'
  rw [Phi_setQ] at this
  have h2 := phi_setPC_false a hfl
  omega

-- ===================================================================== `transition_after` never raises the measure

theorem phi_setCounted (a : Stream) (v : Bool) : phi { a with isCounted := v } = phi a := rfl

theorem Phi_ite_panic (c : Prop) [Decidable c] (t : Streams) (m : String) : Phi (if c then t else t.panic m) = Phi t := by
  split
  · rfl
  · exact Phi_panic _ _
theorem Phi_ite_panic' (c : Prop) [Decidable c] (t : Streams) (m : String) : Phi (if c then t.panic m else t) = Phi t := by
  split
  · exact Phi_panic _ _
  · rfl
theorem store_ite_panic (c : Prop) [Decidable c] (t : Streams) (m : String) : (if c then t else t.panic m).store = t.store := by
  split
  · rfl
  · exact ConnFlowP.panic_store _ _

theorem Phi_count_step {t : Streams} (hk : KeysOk t.store) (f : Counts → Counts) (k : Nat) (v : Bool) :
    Phi ((t.modCounts f).modStream k fun st => { st with isCounted := v }) = Phi t := by
  have hk' : KeysOk (t.modCounts f).store := hk
  rw [Phi_modStream_eq hk' k (fun st => { st with isCounted := v }) (fun _ => rfl) (fun a => phi_setCounted a v)]
  rfl

theorem decNumStreams_phi {s : Streams} (hk : KeysOk s.store) (k : Nat) : Phi (s.decNumStreams k) = Phi s := by
  unfold Streams.decNumStreams
  generalize hT : (if (s.stream k).isCounted = true then s else s.panic _) = T
  have hT1 : T.store = s.store := by subst hT; exact store_ite_panic _ _ _
  have hT2 : Phi T = Phi s := Phi_of_slab (by rw [hT1])
  have hkT : KeysOk T.store := by rw [hT1]; exact hk
  dsimp only
  split
  · rw [Phi_count_step (by rw [store_ite_panic]; exact hkT), Phi_ite_panic, hT2]
  · rw [Phi_count_step (by rw [store_ite_panic]; exact hkT), Phi_ite_panic, hT2]

theorem keysOk_of_fr {s s' : Streams} (h : ConnFlowP.Fr s s') (hk : KeysOk s.store) : KeysOk s'.store := (h.2.2 hk).1

theorem transitionAfter_phi_le {s : Streams} (hk : KeysOk s.store) (k : Nat) (b : Bool) :
    Phi (s.transitionAfter k b) ≤ Phi s := by
  unfold Streams.transitionAfter
  dsimp only
  generalize hS1 : (if (b && !(s.stream k).isPendingResetExpiration) = true then _ else s) = S1
  have h1 : Phi S1 = Phi s ∧ KeysOk S1.store := by
    subst hS1; split
    · refine ⟨Phi_modCountsA _ _ _, ?_⟩
      unfold Streams.modCountsA; split
      · exact hk
      · rw [ConnFlowP.panic_store]; exact hk
    · exact ⟨rfl, hk⟩
  generalize hS2 : (if (s.stream k).isClosed = true then _ else S1) = S2
  have h2 : Phi S2 = Phi s ∧ KeysOk S2.store := by
    subst hS2
    split
    · generalize hS3 : (if (!(s.stream k).isPendingResetExpiration) = true then _ else S1) = S3
      have h3 : Phi S3 = Phi s ∧ KeysOk S3.store := by
        subst hS3; split
        · exact ⟨(Phi_of_slab rfl).trans h1.1, h1.2⟩
        · exact h1
      split
      · exact ⟨(decNumStreams_phi h3.2 k).trans h3.1, keysOk_of_fr ((ConnFlowP.Fr.refl _).decNumStreams k) h3.2⟩
      · exact h3
    · exact h1
  split
  · refine Nat.le_trans (Phi_remove_le _ _ _) ?_
    split
    · rw [decNumStreams_phi h2.2, h2.1]; exact Nat.le_refl _
    · rw [h2.1]; exact Nat.le_refl _
  · exact Nat.le_of_eq h2.1


-- ===================================================================== keys

theorem set_keys (st : Store) (b : Stream) : (st.set b).slab.map (·.key) = st.slab.map (·.key) := by
  unfold Store.set
  simp only [List.map_map]
  apply List.map_congr_left
  intro x _
  simp only [Function.comp]
  split
  · next h => simp at h; exact h.symm
  · rfl

theorem keysOk_set {st : Store} (h : KeysOk st) (b : Stream) : KeysOk (st.set b) := by
  refine ⟨by rw [set_keys]; exact h.1, ?_⟩
  intro x hx
  have : x.key ∈ (st.set b).slab.map (·.key) := List.mem_map.2 ⟨x, hx, rfl⟩
  rw [set_keys] at this
  obtain ⟨y, hy, e⟩ := List.mem_map.1 this
  rw [← e]; exact h.2 y hy

theorem keysOk_modStream {s : Streams} (h : KeysOk s.store) (k : Nat) (f : Stream → Stream) : KeysOk (s.modStream k f).store := by
  unfold Streams.modStream; split
  · exact keysOk_set h _
  · rw [ConnFlowP.panic_store]; exact h

theorem keysOk_modStreamW {s : Streams} (h : KeysOk s.store) (k : Nat) (f : Stream → Stream × List String) :
    KeysOk (s.modStreamW k f).store := by
  unfold Streams.modStreamW; split
  · exact keysOk_set h _
  · rw [ConnFlowP.panic_store]; exact h

-- ===================================================================== `try_assign_capacity`

theorem phi_notifySend (x : Stream) : phi x.notifySend.1 = phi x := by
  unfold Stream.notifySend
  cases x.sendTask <;> dsimp only <;> split <;> rfl

theorem phi_assignCapacity (x : Stream) (a b : Nat) : phi (x.assignCapacity a b).1 = phi x := by
  unfold Stream.assignCapacity; dsimp only; split
  · unfold Stream.notifyCapacity; rw [phi_notifySend]; rfl
  · rfl

theorem qPush_PC_phi_len {s : Streams} (hk : KeysOk s.store) (k : Nat) :
    Phi (s.qPush .pendingCapacity k).1 + 2 * s.prio.pendingCapacity.length ≤
      Phi s + 2 * (s.qPush .pendingCapacity k).1.prio.pendingCapacity.length := by
  unfold Streams.qPush
  split
  · exact Nat.le_refl _
  · have e : (((s.modStream k fun st => st.setQueued .pendingCapacity true).setQ .pendingCapacity
        (s.getQ .pendingCapacity ++ [k])), true).1.prio.pendingCapacity = s.prio.pendingCapacity ++ [k] := rfl
    rw [e, List.length_append]
    show Phi ((s.modStream k _).setQ _ _) + _ ≤ _
    rw [Phi_setQ]
    have := Phi_modStream_le hk k (fun st => st.setQueued .pendingCapacity true) (fun x => setQueued_key x _ _) 2
      (fun a _ => phi_setPC_true_le a)
    simp only [List.length_singleton]
    omega

theorem ite_qPush_PS_phi (c : Prop) [Decidable c] {s : Streams} (hk : KeysOk s.store) (k : Nat) :
    Phi (if c then (s.qPush .pendingSend k).1 else s) ≤ Phi s + 2 ∧
    (if c then (s.qPush .pendingSend k).1 else s).prio.pendingCapacity = s.prio.pendingCapacity := by
  split
  · refine ⟨Nat.le_trans (qPush_PS_phi hk k) ?_, ConnFlowP.qPush_pc_other _ _⟩
    split <;> omega
  · exact ⟨Nat.le_add_right _ _, rfl⟩

theorem ite_qPush_PC_phi (c : Prop) [Decidable c] {s : Streams} (hk : KeysOk s.store) (k : Nat) :
    Phi (if c then (s.qPush .pendingCapacity k).1 else s) + 2 * s.prio.pendingCapacity.length ≤
      Phi s + 2 * (if c then (s.qPush .pendingCapacity k).1 else s).prio.pendingCapacity.length ∧
    KeysOk (if c then (s.qPush .pendingCapacity k).1 else s).store := by
  split
  · exact ⟨qPush_PC_phi_len hk k, keysOk_of_fr ((ConnFlowP.Fr.refl _).qPush _ _) hk⟩
  · exact ⟨Nat.le_refl _, hk⟩

theorem tryAssign_phi_len {s : Streams} (hk : KeysOk s.store) (j : Nat) :
    Phi (s.tryAssignCapacity j) + 2 * s.prio.pendingCapacity.length ≤
      Phi s + 2 + 2 * (s.tryAssignCapacity j).prio.pendingCapacity.length := by
  unfold Streams.tryAssignCapacity
  dsimp only
  split
  · omega
  split
  · omega
  split
  · omega
  generalize hS1 : (if _ > 0 then _ else s) = S1
  have h1 : Phi S1 = Phi s ∧ KeysOk S1.store ∧ S1.prio.pendingCapacity = s.prio.pendingCapacity := by
    subst hS1
    split
    · refine ⟨?_, keysOk_modStreamW hk _ _, ?_⟩
      · refine (Phi_of_slab rfl).trans ?_
        exact Phi_modStreamW_eq hk j _ (fun x => key_assignCapacity x _ _) (fun x => phi_assignCapacity x _ _)
      · rw [ConnFlowP.prio_modPrio, ConnFlowP.modStreamW_prio]
    · exact ⟨rfl, hk, rfl⟩
  obtain ⟨e1, k1, p1⟩ := h1
  have h2 := ite_qPush_PC_phi
    (((S1.stream j).sendFlow.available.ltUsize (S1.stream j).requestedSendCapacity && (S1.stream j).sendFlow.hasUnavailable) = true)
    k1 j
  have h3 := ite_qPush_PS_phi ((decide ((S1.stream j).bufferedSendData > 0) && (S1.stream j).isSendReady) = true) h2.2 j
  rw [h3.2]
  have := h3.1
  have := h2.1
  rw [p1] at this
  omega

theorem tryAssign_phi {s : Streams} (h : SafeInv s) (hr : ReqOk s) (j : Nat) :
    Phi (s.tryAssignCapacity j) ≤ Phi s + 2 ∨
    (Phi (s.tryAssignCapacity j) ≤ Phi s + 4 ∧ (s.tryAssignCapacity j).prio.flow.available.val ≤ 0) := by
  have hl := tryAssign_phi_len h.keys j
  rcases (ConnFlowP.tryAssign_queue h hr j).1 with e | ⟨e, ha⟩
  · left; rw [e] at hl; omega
  · right; rw [e, List.length_append] at hl; simp only [List.length_singleton] at hl; exact ⟨by omega, ha⟩


-- ===================================================================== the invariant carried through `pop_frame`

/-- what the measure argument needs of a state: the send-flow safety invariant and `u32` requests (ConnFlowP),
    queue ↔ flag consistency of `pending_send` and `pending_capacity` (ConnCountsP) -/
structure PInv (s : Streams) : Prop where
  safe : SafeInv s
  req : ReqOk s
  qs : QOK .pendingSend s
  qc : QOK .pendingCapacity s

theorem PInv.next {s s' : Streams} (h : PInv s) (e : Ev s s') (hs : SafeInv s') (hr : ReqOk s') (hp : s'.panicked = none) :
    PInv s' :=
  ⟨hs, hr, (e.qstep _ (by decide)).ok hp h.qs, (e.qstep _ (by decide)).ok hp h.qc⟩

theorem Ev.panic_none {s s' : Streams} (e : Ev s s') (hp : s'.panicked = none) : s.panicked = none :=
  ConnCountsP.panicked_none_of e.mono.panic hp

theorem gtUsize_false_of_le {w : Window} (h : w.val ≤ 0) : w.gtUsize 0 = false := by
  unfold Window.gtUsize; split
  · rfl
  · simp; omega

theorem loop_stop (n : Nat) (s : Streams) (h : s.prio.flow.available.gtUsize 0 = false) :
    Streams.assignConnectionCapacityLoop n s = s := by
  cases n with
  | zero => rfl
  | succ n => unfold Streams.assignConnectionCapacityLoop; rw [h]; rfl

/-- **the loop of `assign_connection_capacity` raises the measure by at most 2**: every stream it moves
    into `pending_send` left `pending_capacity`, except the last one, which used up the connection window -/
theorem loop_phi (n : Nat) : ∀ s : Streams, PInv s → (Streams.assignConnectionCapacityLoop n s).panicked = none →
    Phi (Streams.assignConnectionCapacityLoop n s) ≤ Phi s + 2 := by
  induction n with
  | zero => intro s _ _; exact Nat.le_add_right _ _
  | succ n ih =>
    intro s h hp
    unfold Streams.assignConnectionCapacityLoop at hp ⊢
    split
    · rename_i hav
      rw [if_pos hav] at hp
      split
      · next s0 heq =>
        rw [(qPop_none_eq heq).1]; exact Nat.le_add_right _ _
      · next s0 j heq =>
        rw [heq] at hp
        dsimp only at hp ⊢
        have e0 : Ev s s0 := .of_fst_eq heq (ConnCountsP.qPop_ev _ _ (by decide) (by decide))
        have hs0 : SafeInv s0 := h.safe.fr (ConnFlowP.Fr.qPop_eq heq (ConnFlowP.Fr.refl _))
        have hr0 : ReqOk s0 := ConnFlowP.ReqOk.of_fst_eq heq (h.req.qPop _)
        have hphi0 := qPop_PC_phi h.safe.keys h.qc heq
        split
        · next hf =>
          rw [if_pos hf] at hp
          have hp0 : s0.panicked = none := Ev.panic_none (ConnCountsP.assignConnectionCapacityLoop_ev n s0) hp
          have := ih s0 (h.next e0 hs0 hr0 hp0) hp
          omega
        · next hf =>
          rw [if_neg hf] at hp
          have e1 : Ev s0 (s0.tryAssignCapacity j) := ConnCountsP.tryAssignCapacity_ev _ _
          have e2 : Ev (s0.tryAssignCapacity j) ((s0.tryAssignCapacity j).transitionAfter j (s0.stream j).isPendingResetExpiration) :=
            ConnCountsP.transitionAfter_ev _ _ _ (fun hb => e1.mono.resetAt j hb)
          have hs1 : SafeInv (s0.tryAssignCapacity j) := hs0.tryAssignCapacity j
          have hs2 : SafeInv ((s0.tryAssignCapacity j).transitionAfter j (s0.stream j).isPendingResetExpiration) :=
            hs1.fr ((ConnFlowP.Fr.refl _).transitionAfter _ _)
          have hr2 : ReqOk ((s0.tryAssignCapacity j).transitionAfter j (s0.stream j).isPendingResetExpiration) :=
            (hr0.tryAssignCapacity j).transitionAfter _ _
          have hp2 : ((s0.tryAssignCapacity j).transitionAfter j (s0.stream j).isPendingResetExpiration).panicked = none :=
            Ev.panic_none (ConnCountsP.assignConnectionCapacityLoop_ev n _) hp
          have hta := transitionAfter_phi_le hs1.keys j (s0.stream j).isPendingResetExpiration
          rcases tryAssign_phi hs0 hr0 j with hA | ⟨hB, hav1⟩
          · have hp0 : s0.panicked = none := Ev.panic_none (e1.trans e2) hp2
            have := ih _ ((h.next e0 hs0 hr0 hp0).next (e1.trans e2) hs2 hr2 hp2) hp
            omega
          · rw [loop_stop n _ (by rw [ConnFlowP.transitionAfter_prio]; exact gtUsize_false_of_le hav1)]
            omega
    · exact Nat.le_add_right _ _

end H2V.Lemmas.ConnDrainP
