import H2V.Lemmas.ConnFidPFnSend
/-
  ConnFidP, part 6 — every function of ConnRecv.lean (recv.rs) as a sequence of elementary steps,
  including the `poll_*` functions of the receive handles.  Hypotheses: `P.rpush k e` where an event
  is queued, `P.rpop k` where the application takes one, `P.rclear k` for `clear_recv_buffer`.
-/
set_option linter.unusedSectionVars false
namespace H2V.Lemmas.ConnFidP
open H2V H2V.Model H2V.Model.Conn H2V.Lemmas.ConnWakeP

/-- an event may be taken off the receive queue of any entry (`poll_pushed`: the promised stream's) -/
def RpopAll (P : Perm) : Prop := ∀ k, P.rpop k
theorem rpop_of_all {P : Perm} (k : Nat) (h : RpopAll P) : P.rpop k := h k
grind_pattern rpop_of_all => P.rpop k

section
variable {P : Perm} {s0 s : Streams} (hg : P.gone)
include hg

-- ===================================================================== recv.rs
@[grind ←] theorem releaseConnectionCapacity_acc (c : Nat) (u : Bool) (h : Tr P s0 s) :
    Tr P s0 (s.releaseConnectionCapacity c u) := by
  unfold Streams.releaseConnectionCapacity; fid_grind
@[grind ←] theorem releaseCapacity_acc (k c : Nat) (u : Bool) (h : Tr P s0 s) :
    Tr P s0 (s.releaseCapacity k c u).1 := by
  unfold Streams.releaseCapacity; fid_grind
@[grind ←] theorem clearRecvBuffer_acc (k : Nat) (u : Bool) (hr : P.rclear k) (h : Tr P s0 s) :
    Tr P s0 (s.clearRecvBuffer k u) := by
  unfold Streams.clearRecvBuffer; fid_fold; fid_grind
@[grind ←] theorem releaseClosedCapacity_acc (k : Nat) (hr : P.rclear k) (h : Tr P s0 s) :
    Tr P s0 (s.releaseClosedCapacity k) := by
  unfold Streams.releaseClosedCapacity; fid_grind
@[grind ←] theorem setTargetConnectionWindow_acc (t : Nat) (h : Tr P s0 s) :
    Tr P s0 (s.setTargetConnectionWindow t).1 := by
  unfold Streams.setTargetConnectionWindow; fid_grind
@[grind ←] theorem applyLocalSettings_acc (a b : Option Nat) (h : Tr P s0 s) : Tr P s0 (s.applyLocalSettings a b).1 := by
  unfold Streams.applyLocalSettings
  have h2 := @storeTryForEach_acc P s0
  fid_grind
@[grind ←] theorem consumeConnectionWindow_acc (sz : Nat) (h : Tr P s0 s) : Tr P s0 (s.consumeConnectionWindow sz).1 := by
  unfold Streams.consumeConnectionWindow; fid_grind
@[grind ←] theorem ignoreData_acc (sz : Nat) (h : Tr P s0 s) : Tr P s0 (s.ignoreData sz).1 := by
  unfold Streams.ignoreData; fid_grind
@[grind ←] theorem recvOpen_acc (k : Nat) (b : Bool) (h : Tr P s0 s) : Tr P s0 (s.recvOpen k b).1 := by
  unfold Streams.recvOpen; fid_grind
@[grind ←] theorem notifyPushIfRecvEnded_acc (k : Nat) (h : Tr P s0 s) : Tr P s0 (s.notifyPushIfRecvEnded k) := by
  unfold Streams.notifyPushIfRecvEnded; fid_grind
@[grind ←] theorem recvRecvHeaders_acc (k : Nat) (hd : HeadersIn) (hA : RpushAny P k) (h : Tr P s0 s) :
    Tr P s0 (s.recvRecvHeaders k hd).1 := by
  unfold Streams.recvRecvHeaders; fid_fold; fid_grind
@[grind ←] theorem recvRecvTrailers_acc (k : Nat) (hd : HeadersIn) (hA : P.rpush k (.trailers hd.fields)) (h : Tr P s0 s) :
    Tr P s0 (s.recvRecvTrailers k hd).1 := by
  unfold Streams.recvRecvTrailers; fid_fold; fid_grind
@[grind ←] theorem recvRecvData_acc (k : Nat) (p : Bytes) (eos : Bool) (pad : Option Nat) (hA : P.rpush k (.data p (!eos)))
    (h : Tr P s0 s) : Tr P s0 (s.recvRecvData k p eos pad).1 := by
  unfold Streams.recvRecvData; fid_fold; fid_grind
@[grind ←] theorem recvRecvPushPromise_acc (k : Nat) (hd : HeadersIn) (hA : RpushAny P k) (h : Tr P s0 s) :
    Tr P s0 (s.recvRecvPushPromise k hd).1 := by
  unfold Streams.recvRecvPushPromise; fid_fold; fid_grind
@[grind ←] theorem recvNextIncoming_acc (h : Tr P s0 s) : Tr P s0 s.recvNextIncoming.1 := by
  unfold Streams.recvNextIncoming; fid_grind
@[grind ←] theorem recvTakeRequest_acc (k : Nat) (hp : P.rpop k) (h : Tr P s0 s) : Tr P s0 (s.recvTakeRequest k).1 := by
  unfold Streams.recvTakeRequest; fid_fold; fid_grind
@[grind ←] theorem recvRecvReset_acc (k : Nat) (r : Reason) (h : Tr P s0 s) : Tr P s0 (s.recvRecvReset k r).1 := by
  unfold Streams.recvRecvReset; fid_grind
@[grind ←] theorem recvHandleError_acc (k : Nat) (e : PErr) (h : Tr P s0 s) : Tr P s0 (s.recvHandleError k e) := by
  unfold Streams.recvHandleError; fid_grind
@[grind ←] theorem recvGoAway_acc (l : Nat) (h : Tr P s0 s) : Tr P s0 (s.recvGoAway l) := by
  unfold Streams.recvGoAway; fid_grind
@[grind ←] theorem recvRecvEof_acc (k : Nat) (h : Tr P s0 s) : Tr P s0 (s.recvRecvEof k) := by
  unfold Streams.recvRecvEof; fid_grind
@[grind ←] theorem recvMaybeResetNextStreamId_acc (k : Nat) (h : Tr P s0 s) :
    Tr P s0 (s.recvMaybeResetNextStreamId k) := by
  unfold Streams.recvMaybeResetNextStreamId; fid_grind
@[grind ←] theorem enqueueResetExpiration_acc (k : Nat) (h : Tr P s0 s) : Tr P s0 (s.enqueueResetExpiration k) := by
  unfold Streams.enqueueResetExpiration; fid_grind
@[grind ←] theorem sendPendingRefusal_acc (w : Writer) (h : Tr P s0 s) : Tr P s0 (s.sendPendingRefusal w).1 := by
  unfold Streams.sendPendingRefusal; fid_grind
@[grind ←] theorem clearExpiredResetStreams_acc (n : Nat) (h : Tr P s0 s) :
    Tr P s0 (Streams.clearExpiredResetStreams n s) := by
  induction n generalizing s with
  | zero => unfold Streams.clearExpiredResetStreams; exact h
  | succ n ih => unfold Streams.clearExpiredResetStreams; fid_grind
@[grind ←] theorem clearStreamWindowUpdateQueue_acc (n : Nat) (h : Tr P s0 s) :
    Tr P s0 (Streams.clearStreamWindowUpdateQueue n s) := by
  induction n generalizing s with
  | zero => unfold Streams.clearStreamWindowUpdateQueue; exact h
  | succ n ih => unfold Streams.clearStreamWindowUpdateQueue; fid_grind
@[grind ←] theorem clearAllResetStreams_acc (n : Nat) (h : Tr P s0 s) : Tr P s0 (Streams.clearAllResetStreams n s) := by
  induction n generalizing s with
  | zero => unfold Streams.clearAllResetStreams; exact h
  | succ n ih => unfold Streams.clearAllResetStreams; fid_grind
@[grind ←] theorem clearAllPendingAccept_acc (n : Nat) (h : Tr P s0 s) : Tr P s0 (Streams.clearAllPendingAccept n s) := by
  induction n generalizing s with
  | zero => unfold Streams.clearAllPendingAccept; exact h
  | succ n ih => unfold Streams.clearAllPendingAccept; fid_grind
@[grind ←] theorem recvClearQueues_acc (b : Bool) (h : Tr P s0 s) : Tr P s0 (s.recvClearQueues b) := by
  unfold Streams.recvClearQueues; fid_grind
@[grind ←] theorem sendConnectionWindowUpdate_acc (w : Writer) (h : Tr P s0 s) :
    Tr P s0 (s.sendConnectionWindowUpdate w).1 := by
  unfold Streams.sendConnectionWindowUpdate; fid_grind
@[grind ←] theorem sendStreamWindowUpdates_acc (n : Nat) (w : Writer) (h : Tr P s0 s) :
    Tr P s0 (Streams.sendStreamWindowUpdates n s w).1 := by
  induction n generalizing s w with
  | zero => unfold Streams.sendStreamWindowUpdates; exact h
  | succ n ih => unfold Streams.sendStreamWindowUpdates; fid_grind
@[grind ←] theorem recvBufferPending_acc (w : Writer) (h : Tr P s0 s) : Tr P s0 (s.recvBufferPending w).1 := by
  unfold Streams.recvBufferPending; fid_grind

-- ===================================================================== the `poll_*` functions of the handles
@[grind ←] theorem scheduleRecv_acc (k : Nat) (t : String) (h : Tr P s0 s) : Tr P s0 (s.scheduleRecv k t).1 := by
  unfold Streams.scheduleRecv; fid_grind
@[grind ←] theorem recvPollData_acc (k : Nat) (t : String) (hp : P.rpop k) (h : Tr P s0 s) : Tr P s0 (s.recvPollData k t).1 := by
  unfold Streams.recvPollData; fid_fold; fid_grind
@[grind ←] theorem recvPollTrailers_acc (k : Nat) (t : String) (hp : P.rpop k) (h : Tr P s0 s) :
    Tr P s0 (s.recvPollTrailers k t).1 := by
  unfold Streams.recvPollTrailers; fid_fold; fid_grind
@[grind ←] theorem recvPollResponse_acc (n k : Nat) (t : String) (hp : P.rpop k) (h : Tr P s0 s) :
    Tr P s0 (Streams.recvPollResponse n s k t).1 := by
  induction n generalizing s with
  | zero => unfold Streams.recvPollResponse; exact h
  | succ n ih => unfold Streams.recvPollResponse; fid_fold; fid_grind
@[grind ←] theorem recvPollInformational_acc (k : Nat) (t : String) (hp : P.rpop k) (h : Tr P s0 s) :
    Tr P s0 (s.recvPollInformational k t).1 := by
  unfold Streams.recvPollInformational; fid_fold; fid_grind
@[grind ←] theorem recvPollPushed_acc (k : Nat) (t : String) (hp : RpopAll P) (h : Tr P s0 s) :
    Tr P s0 (s.recvPollPushed k t).1 := by
  unfold Streams.recvPollPushed; fid_fold; fid_grind
@[grind ←] theorem pollCapacity_acc (k : Nat) (t : String) (h : Tr P s0 s) : Tr P s0 (s.pollCapacity k t).1 := by
  unfold Streams.pollCapacity; fid_grind
@[grind ←] theorem pollReset_acc (k : Nat) (m : PollReset) (t : String) (h : Tr P s0 s) : Tr P s0 (s.pollReset k m t).1 := by
  unfold Streams.pollReset; fid_grind
end
end H2V.Lemmas.ConnFidP
