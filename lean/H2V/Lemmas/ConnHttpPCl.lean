import H2V.Lemmas.ConnHttpPBody
import H2V.Lemmas.ConnHttpPMain
/-
  C13 (ConnHttpP), part 15 — the announced content-length: `parse_u64` against the reference's reading
  of the field, and what `Recv::recv_headers` stores in `Stream.content_length`.
-/
namespace H2V.Lemmas.ConnHttpP
open H2V H2V.Model H2V.Model.Frame H2V.Model.Hpack H2V.Model.Conn

def isDig (b : Nat) : Bool := decide (48 ≤ b) && decide (b ≤ 57)

theorem parseU64_fold : ∀ (v : Bytes) (acc : Nat),
    v.foldl (fun (a : Option Nat) d => match a with
      | none => none
      | some r => if d < 48 || d > 57 then none else some (r * 10 + (d - 48))) (some acc) =
    if v.all isDig then some (v.foldl (fun a b => a * 10 + (b - 48)) acc) else none
  | [], acc => rfl
  | d :: rest, acc => by
    simp only [List.foldl_cons, List.all_cons]
    by_cases hd : isDig d = true
    · have : (d < 48 || d > 57) = false := by
        unfold isDig at hd; simp only [Bool.and_eq_true, decide_eq_true_eq] at hd
        simp only [Bool.or_eq_false_iff, decide_eq_false_iff_not]; omega
      simp only [this, Bool.false_eq_true, if_false, hd, Bool.true_and]
      exact parseU64_fold rest _
    · have hd' : isDig d = false := by simpa using hd
      have : (d < 48 || d > 57) = true := by
        unfold isDig at hd'; simp only [Bool.and_eq_false_iff, decide_eq_false_iff_not] at hd'
        simp only [Bool.or_eq_true, decide_eq_true_eq]; omega
      simp only [this, if_true, hd', Bool.false_and, Bool.false_eq_true, if_false]
      clear this hd hd'
      induction rest with
      | nil => rfl
      | cons a t ih => simpa using ih

/-- `frame::parse_u64`: 1 to 19 octets, all digits; the decimal value (since the repair of finding N4b an
    empty string is an error) -/
theorem parseU64_eq (v : Bytes) :
    parseU64 v = if v.isEmpty then none else if v.length > 19 then none
      else if v.all isDig then some (v.foldl (fun a b => a * 10 + (b - 48)) 0) else none := by
  unfold parseU64
  split
  · rfl
  · split
    · rfl
    · exact parseU64_fold v 0

/-- whatever `parse_u64` accepts is non-empty, all digits, and its decimal value -/
theorem parseU64_some (v : Bytes) (n : Nat) (hp : parseU64 v = some n) :
    v ≠ [] ∧ v.all isDig = true ∧ n = v.foldl (fun a b => a * 10 + (b - 48)) 0 := by
  rw [parseU64_eq] at hp
  split at hp
  · cases hp
  · rename_i he
    split at hp
    · cases hp
    · split at hp
      · rename_i hd
        cases hp
        exact ⟨fun e => by subst e; simp at he, hd, rfl⟩
      · cases hp

/-- whatever `parse_u64` accepts, the reference reads as the same number -/
theorem parseU64_clValue (v : Bytes) (n : Nat) (hp : parseU64 v = some n) : Spec.Http.clValue v = some n := by
  obtain ⟨hne, hd, hn⟩ := parseU64_some v n hp
  unfold Spec.Http.clValue
  have : (!v.isEmpty && v.all fun b => decide (48 ≤ b) && decide (b ≤ 57)) = true := by
    have : v.isEmpty = false := by cases v <;> simp_all
    rw [this]; exact hd
  rw [if_pos this, hn]

/-- conversely, up to 19 digits `parse_u64` accepts what the reference reads (beyond, it refuses: the one
    difference, on the safe side) -/
theorem clValue_parseU64 (v : Bytes) (n : Nat) (hlen : v.length ≤ 19) (hc : Spec.Http.clValue v = some n) :
    parseU64 v = some n := by
  unfold Spec.Http.clValue at hc
  split at hc
  · rename_i hd
    simp only [Bool.and_eq_true, Bool.not_eq_true'] at hd
    cases hc
    rw [parseU64_eq, if_neg (by simp [hd.1]), if_neg (by omega)]
    have : v.all isDig = true := hd.2
    rw [if_pos this]
  · cases hc

/-- the repaired reading of a (possibly repeated) content-length: every value must parse, all to the
    same number (`HeaderMap::get_all`) -/
def clOfValues : List Bytes → Option (Option Nat)
  | [] => none
  | v :: rest => some (match parseU64 v with
    | none => none
    | some cl => if rest.any (fun o => parseU64 o != some cl) then none else some cl)

theorem clOfValues_some (vs : List Bytes) (n : Nat) :
    clOfValues vs = some (some n) ↔ vs ≠ [] ∧ ∀ v ∈ vs, parseU64 v = some n := by
  cases vs with
  | nil => simp [clOfValues]
  | cons v rest =>
    unfold clOfValues
    cases hp : parseU64 v with
    | none => simp [hp]
    | some cl =>
      simp only [Option.some.injEq, ne_eq, reduceCtorEq, not_false_eq_true, List.mem_cons, forall_eq_or_imp, true_and, hp]
      by_cases ha : rest.any (fun o => parseU64 o != some cl) = true
      · rw [if_pos ha]
        simp only [reduceCtorEq, false_iff, not_and]
        intro e
        subst e
        simp only [List.any_eq_true, bne_iff_ne, ne_eq] at ha
        obtain ⟨o, ho, hne⟩ := ha
        exact fun hall => hne (hall o ho)
      · rw [if_neg ha]
        simp only [Option.some.injEq]
        constructor
        · intro e
          subst e
          refine ⟨rfl, fun o ho => ?_⟩
          have ha' : ∀ x ∈ rest, parseU64 x = some cl := by simpa using ha
          exact ha' o ho
        · exact fun h => h.1

/-! ### looking a name up in the grouped field map -/

def lookupF (l : Fields) (n : Bytes) : Option (List Bytes) := (l.find? (fun f => f.1 == n)).map (·.2)

theorem lookupF_appendField : ∀ (l : Fields) (a v n : Bytes),
    lookupF (appendField l a v) n = if a = n then some ((lookupF l n).getD [] ++ [v]) else lookupF l n
  | [], a, v, n => by
    unfold appendField lookupF
    by_cases e : a = n
    · simp [e]
    · simp [e]
  | (n', vs) :: rest, a, v, n => by
    unfold appendField
    by_cases e1 : n' = a
    · rw [if_pos e1]
      subst e1
      by_cases e : n' = n
      · subst e; simp [lookupF]
      · simp [lookupF, e]
    · rw [if_neg e1]
      have ih := lookupF_appendField rest a v n
      by_cases e : n' = n
      · subst e
        have : ¬ a = n' := fun x => e1 x.symm
        simp [lookupF, this]
      · unfold lookupF at ih ⊢
        simp only [List.find?_cons, show (n' == n) = false by simpa using e]
        exact ih

theorem lookupF_groupInto : ∀ (l : List Header) (acc : Fields) (n : Bytes),
    lookupF (groupInto acc l) n =
      if (lookupF acc n).isNone ∧ vals l n = [] then none else some ((lookupF acc n).getD [] ++ vals l n)
  | [], acc, n => by
    unfold groupInto vals
    cases h : lookupF acc n <;> simp [h]
  | h :: rest, acc, n => by
    have ih := lookupF_groupInto rest (appendField acc h.1 h.2) n
    unfold groupInto at ih ⊢
    rw [List.foldl_cons, ih, lookupF_appendField, vals_cons]
    by_cases e : h.1 = n
    · simp [e]
    · simp [e]

theorem vals_regular (g : List Header) (n : Bytes) (hn : n.head? ≠ some 58) : vals (regular g) n = vals g n := by
  unfold vals regular
  rw [List.filter_filter]
  congr 1
  apply List.filter_congr
  intro x _
  by_cases e : x.1 = n
  · simp [e, hn]
  · simp [e]

/-- what `fields.get_all(CONTENT_LENGTH)` sees in a delivered block: all `content-length` values of the
    field list, in wire order -/
theorem find_content_length (g : List Header) :
    (match (groupInto [] (regular g)).find? (fun f => f.1 == Http.str "content-length") with
      | some (_, v :: rest) => v :: rest
      | _ => []) = Spec.Http.get g "content-length" := by
  have h := lookupF_groupInto (regular g) [] (Http.str "content-length")
  rw [vals_regular g _ (by rw [str_content_length]; decide)] at h
  rw [get_eq_vals, ascii_content_length, ← str_content_length]
  unfold lookupF at h
  cases hv : vals g (Http.str "content-length") with
  | nil =>
    rw [hv] at h
    simp only [List.find?_nil, Option.map_none, Option.isNone_none, and_self, if_true, Option.map_eq_none_iff] at h
    rw [h]
  | cons v rest =>
    rw [hv] at h
    simp only [List.find?_nil, Option.map_none, Option.isNone_none, true_and, reduceCtorEq, if_false,
      Option.getD_none, List.nil_append] at h
    cases hf : (groupInto [] (regular g)).find? (fun f => f.1 == Http.str "content-length") with
    | none => rw [hf] at h; cases h
    | some p =>
      rw [hf] at h
      obtain ⟨a, b⟩ := p
      simp only [Option.map_some, Option.some.injEq] at h
      subst h
      rfl

/-! ### what `Recv::recv_headers` stores -/

theorem sameCL_ite_panic {s0 s : Streams} (h : SameCL s0 s) (c : Prop) [Decidable c] (m : String) :
    SameCL s0 (if c then s.panic m else s) ∧ SameCL s0 (if c then s else s.panic m) := by
  constructor <;> split <;> first | exact h | exact h.trans (sameCL_panic _ _)

theorem sameCL_incNumRecvStreams (s : Streams) (k : Nat) : SameCL s (s.incNumRecvStreams k) := by
  unfold Streams.incNumRecvStreams
  simp only
  refine (SameCL.trans ?_ (sameCL_of_slab rfl)).trans (sameCL_modStream _ k (fun st => { st with isCounted := true })
    (fun _ => ⟨rfl, rfl⟩))
  exact (sameCL_ite_panic (sameCL_ite_panic (SameCL.refl s) _ _).2 _ _).1

theorem rhPre_sameCL (s : Streams) (k : Nat) (h : HeadersIn) (st' : State) (i : Bool) : SameCL s (rhPre s k h st' i) := by
  unfold rhPre
  have h1 : SameCL s (s.modStream k fun st => { st with state := st' }) :=
    sameCL_modStream s k (fun st => { st with state := st' }) (fun _ => ⟨rfl, rfl⟩)
  generalize (s.modStream k fun st => { st with state := st' }) = s1 at h1 ⊢
  simp only
  split
  · refine SameCL.trans ?_ (sameCL_incNumRecvStreams _ _)
    split
    · exact h1.trans (sameCL_of_slab rfl)
    · exact h1
  · exact h1

theorem rhTail_sameCL (s : Streams) (k : Nat) (h : HeadersIn) (i : Bool) : SameCL s (rhTail s k h i).1 := by
  generalize hr : rhTail s k h i = r
  unfold rhTail at hr
  simp only at hr
  repeat' split at hr
  all_goals subst hr
  all_goals first
    | exact SameCL.refl _
    | exact (((sameCL_modStream s k (fun st => { st with pendingRecv := st.pendingRecv ++ [_] }) (fun _ => ⟨rfl, rfl⟩)).trans
        (sameCL_mw_notifyRecv _ k)).trans (sameCL_notifyPushIfRecvEnded _ k)).trans (sameCL_qPush _ _ _)
    | exact ((sameCL_modStream s k (fun st => { st with pendingRecv := st.pendingRecv ++ [_] }) (fun _ => ⟨rfl, rfl⟩)).trans
        (sameCL_mw_notifyRecv _ k)).trans (sameCL_notifyPushIfRecvEnded _ k)
    | exact (sameCL_modStream s k (fun st => { st with pendingRecv := st.pendingRecv ++ [_] }) (fun _ => ⟨rfl, rfl⟩)).trans
        (sameCL_mw_notifyRecv _ k)

/-- `content-length` as `recv_headers` reads it: all values through `parse_u64`, which must agree -/
def headCl (h : HeadersIn) : Option (Option Nat) :=
  match h.fields.find? (fun f => f.1 == Http.str "content-length") with
  | some (_, v :: rest) => clOfValues (v :: rest)
  | _ => none

theorem clOf_modStream_self (s : Streams) (k : Nat) (f : Stream → Stream) (hf : ∀ st, (f st).key = st.key)
    (st : Stream) (hg : s.store.get? k = some st) : clOf (s.modStream k f) k = some (f st).contentLength := by
  unfold clOf
  rw [get?_modStream s k f hf, if_pos rfl, hg]
  rfl

theorem rhCl_cl (s : Streams) (k : Nat) (h : HeadersIn) (cl0 : ContentLength) (live : clOf s k = some cl0)
    (hres : (rhCl s k h).2 = none) :
    clOf (rhCl s k h).1 k = some (if cl0 = .head then .head else
      match headCl h with
      | some (some n) => .remaining n
      | _ => cl0) ∧
    (cl0 ≠ .head → headCl h ≠ some none ∧
      ∀ n, headCl h = some (some n) → ¬(h.eos = true ∧ n > 0 ∧ statusNot204304 h = true)) := by
  obtain ⟨st, hst, hcl⟩ : ∃ st, s.store.get? k = some st ∧ st.contentLength = cl0 := by
    unfold clOf at live
    cases hg : s.store.get? k with
    | none => rw [hg] at live; cases live
    | some st => rw [hg] at live; exact ⟨st, rfl, by simpa using live⟩
  generalize hr : rhCl s k h = r at hres ⊢
  unfold rhCl at hr
  rw [stream_of_get? s k st hst, hcl] at hr
  unfold headCl
  by_cases hh : cl0 = .head
  · subst hh
    simp only [bne_self_eq_false, Bool.false_eq_true, if_false] at hr
    subst hr
    simp only [if_true]
    exact ⟨live, fun x => absurd rfl x⟩
  · have : (cl0 != ContentLength.head) = true := by simpa using hh
    simp only [this, if_true] at hr
    simp only [if_neg hh]
    split at hr
    · rename_i nm v rest hf
      simp only [hf]
      unfold clOfValues
      split at hr
      · subst hr; cases hres
      · rename_i n hp
        simp only [hp]
        by_cases ha : rest.any (fun o => parseU64 o != some n) = true
        · rw [if_pos ha] at hr; subst hr; cases hres
        · rw [if_neg ha] at hr
          simp only [if_neg ha]
          by_cases hc : (h.eos && decide (n > 0) && statusNot204304 h) = true
          · rw [if_pos hc] at hr; subst hr; cases hres
          · rw [if_neg hc] at hr
            subst hr
            refine ⟨clOf_modStream_self s k (fun st => { st with contentLength := .remaining n }) (fun _ => rfl) st hst, fun _ => ⟨by simp, fun n' hn' => ?_⟩⟩
            cases hn'
            intro ⟨a, b, c⟩
            apply hc
            simp only [a, b, c, decide_true, Bool.and_self]
    · rename_i hf
      subst hr
      have : (match h.fields.find? (fun f => f.1 == Http.str "content-length") with
          | some (_, v :: rest) => clOfValues (v :: rest)
          | _ => none) = none := by
        split
        · rename_i nm v rest hf'; exact absurd hf' (hf nm v rest)
        · rfl
      rw [this]
      exact ⟨live, fun _ => ⟨by simp, fun n hn => by cases hn⟩⟩


/-- **what an accepted head leaves in `Stream.content_length`** (`cl0` = what was there: `Head` for a
    response to HEAD): the number all `content-length` values parse to; and a head with
    END_STREAM is only accepted with content-length 0 (or status 204 / 304) -/
theorem recvRecvHeaders_cl (s : Streams) (k : Nat) (h : HeadersIn) (cl0 : ContentLength)
    (live : clOf s k = some cl0) (hok : (s.recvRecvHeaders k h).2.isOk = true) :
    clOf (s.recvRecvHeaders k h).1 k = some (if cl0 = .head then .head else
      match headCl h with
      | some (some n) => .remaining n
      | _ => cl0) ∧
    (cl0 ≠ .head → headCl h ≠ some none ∧
      ∀ n, headCl h = some (some n) → ¬(h.eos = true ∧ n > 0 ∧ statusNot204304 h = true)) := by
  rw [recvRecvHeaders_eq] at hok ⊢
  split at hok
  · cases hok
  · rename_i st' i heq
    split at hok
    · cases hok
    rename_i hnr
    rw [if_neg hnr]
    have c1 := rhPre_sameCL s k h st' i
    generalize rhPre s k h st' i = s1 at c1 hok ⊢
    have live1 : clOf s1 k = some cl0 := by rw [c1 k]; exact live
    have := rhCl_cl s1 k h cl0 live1
    generalize rhCl s1 k h = c at this hok ⊢
    obtain ⟨s2, o⟩ := c
    cases o with
    | some e => cases hok
    | none =>
      simp only at this hok ⊢
      obtain ⟨t1, t2⟩ := this trivial
      exact ⟨by rw [rhTail_sameCL s2 k h i k]; exact t1, t2⟩

/-- the head of a delivered block reads ALL `content-length` values of the field list -/
theorem headCl_block (blk : HeaderBlock) (g : List Header) (sid : Nat) (eos : Bool)
    (hf : blk.fields = groupInto [] (regular g)) :
    headCl (Conn.headersIn sid eos blk) = clOfValues (Spec.Http.get g "content-length") := by
  unfold headCl
  simp only [Conn.headersIn, hf]
  rw [← find_content_length g]
  split
  · rfl
  · rfl

/-- **announced = stored**: an accepted head (live stream, not a response to HEAD) leaves in the ledger
    exactly the number that ALL `content-length` values of the field list parse to (untouched when there is
    none), and END_STREAM on the head only goes with 0 (or status 204 / 304) -/
theorem accepted_head_content_length_all (s : Streams) (k : Nat) (blk : HeaderBlock) (g : List Header) (sid : Nat)
    (eos : Bool) (cl0 : ContentLength) (hf : blk.fields = groupInto [] (regular g))
    (live : clOf s k = some cl0) (hnh : cl0 ≠ .head)
    (hok : (s.recvRecvHeaders k (Conn.headersIn sid eos blk)).2.isOk = true) :
    (Spec.Http.get g "content-length" = [] ∧
      clOf (s.recvRecvHeaders k (Conn.headersIn sid eos blk)).1 k = some cl0) ∨
    (∃ n, (∀ v ∈ Spec.Http.get g "content-length", parseU64 v = some n) ∧
      clOf (s.recvRecvHeaders k (Conn.headersIn sid eos blk)).1 k = some (.remaining n) ∧
      ¬(eos = true ∧ n > 0 ∧ statusNot204304 (Conn.headersIn sid eos blk) = true)) := by
  obtain ⟨c1, c2⟩ := recvRecvHeaders_cl s k _ cl0 live hok
  obtain ⟨c3, c4⟩ := c2 hnh
  rw [if_neg hnh, headCl_block blk g sid eos hf] at c1
  rw [headCl_block blk g sid eos hf] at c3 c4
  cases hv : Spec.Http.get g "content-length" with
  | nil => rw [hv] at c1; exact Or.inl ⟨rfl, c1⟩
  | cons v rest =>
    cases hcl : clOfValues (v :: rest) with
    | none => simp [clOfValues] at hcl
    | some o =>
      cases o with
      | none => rw [hv] at c3; exact absurd hcl c3
      | some n =>
        rw [hv, hcl] at c1
        have := (clOfValues_some (v :: rest) n).mp hcl
        exact Or.inr ⟨n, this.2, c1, c4 n (by rw [hv]; exact hcl)⟩

/-- **a head whose content-length values do not all parse to one number is refused** (findings N4a, N4b
    repaired): live stream, not a response to HEAD -/
theorem bad_content_length_refused (s : Streams) (k : Nat) (blk : HeaderBlock) (g : List Header) (sid : Nat)
    (eos : Bool) (cl0 : ContentLength) (hf : blk.fields = groupInto [] (regular g))
    (live : clOf s k = some cl0) (hnh : cl0 ≠ .head)
    (hbad : Spec.Http.get g "content-length" ≠ [] ∧
      ¬ ∃ n, ∀ v ∈ Spec.Http.get g "content-length", parseU64 v = some n) :
    (s.recvRecvHeaders k (Conn.headersIn sid eos blk)).2.isOk = false := by
  cases hok : (s.recvRecvHeaders k (Conn.headersIn sid eos blk)).2.isOk with
  | false => rfl
  | true =>
    rcases accepted_head_content_length_all s k blk g sid eos cl0 hf live hnh hok with ⟨e, -⟩ | ⟨n, hn, -⟩
    · exact absurd e hbad.1
    · exact absurd ⟨n, hn⟩ hbad.2

/-- all values parse to `n` ⇒ the reference reads `n` -/
theorem spec_of_all_parse (g : List Header) (n : Nat) (hne : Spec.Http.get g "content-length" ≠ [])
    (hall : ∀ v ∈ Spec.Http.get g "content-length", parseU64 v = some n) :
    Spec.Http.contentLength g = some (some n) := by
  unfold Spec.Http.contentLength
  cases hv : Spec.Http.get g "content-length" with
  | nil => exact absurd hv hne
  | cons v rest =>
    rw [hv] at hall
    simp only
    rw [parseU64_clValue v n (hall v (by simp))]
    simp only
    have : rest.all (fun o => Spec.Http.clValue o == some n) = true := by
      rw [List.all_eq_true]
      intro o ho
      rw [parseU64_clValue o n (hall o (by simp [ho]))]
      simp
    rw [if_pos this]

/-- **the code agrees with the reference**: an accepted head (live stream, not a response to HEAD) that
    carries a content-length is one for which `Spec.Http.contentLength` reads a number `n`, and `n` is
    what the ledger starts from -/
theorem accepted_head_agrees_with_reference (s : Streams) (k : Nat) (blk : HeaderBlock) (g : List Header) (sid : Nat)
    (eos : Bool) (cl0 : ContentLength) (hf : blk.fields = groupInto [] (regular g))
    (live : clOf s k = some cl0) (hnh : cl0 ≠ .head)
    (hok : (s.recvRecvHeaders k (Conn.headersIn sid eos blk)).2.isOk = true) :
    (Spec.Http.contentLength g = none ∧ clOf (s.recvRecvHeaders k (Conn.headersIn sid eos blk)).1 k = some cl0) ∨
    (∃ n, Spec.Http.contentLength g = some (some n) ∧
      clOf (s.recvRecvHeaders k (Conn.headersIn sid eos blk)).1 k = some (.remaining n) ∧
      ¬(eos = true ∧ n > 0 ∧ statusNot204304 (Conn.headersIn sid eos blk) = true)) := by
  rcases accepted_head_content_length_all s k blk g sid eos cl0 hf live hnh hok with ⟨e, h1⟩ | ⟨n, hn, h1, h2⟩
  · exact Or.inl ⟨by unfold Spec.Http.contentLength; rw [e], h1⟩
  · by_cases hne : Spec.Http.get g "content-length" = []
    · -- no field at all: `accepted_head_content_length_all` cannot be in its second case with the ledger changed
      obtain ⟨c1, c2⟩ := recvRecvHeaders_cl s k _ cl0 live hok
      rw [if_neg hnh, headCl_block blk g sid eos hf, hne] at c1
      exact Or.inl ⟨by unfold Spec.Http.contentLength; rw [hne], c1⟩
    · exact Or.inr ⟨n, spec_of_all_parse g n hne hn, h1, h2⟩

/-- in the reference's terms: when `Spec.Http.contentLength` reads `n` and the head is accepted, `n` is
    what the ledger starts from -/
theorem accepted_head_content_length (s : Streams) (k : Nat) (blk : HeaderBlock) (g : List Header) (sid : Nat)
    (eos : Bool) (cl0 : ContentLength) (n : Nat) (hf : blk.fields = groupInto [] (regular g))
    (live : clOf s k = some cl0) (hnh : cl0 ≠ .head)
    (hspec : Spec.Http.contentLength g = some (some n))
    (hok : (s.recvRecvHeaders k (Conn.headersIn sid eos blk)).2.isOk = true) :
    clOf (s.recvRecvHeaders k (Conn.headersIn sid eos blk)).1 k = some (.remaining n) ∧
    ¬(eos = true ∧ n > 0 ∧ statusNot204304 (Conn.headersIn sid eos blk) = true) := by
  rcases accepted_head_agrees_with_reference s k blk g sid eos cl0 hf live hnh hok with ⟨e, -⟩ | ⟨n', e, h1, h2⟩
  · rw [hspec] at e; cases e
  · rw [hspec] at e
    have : n = n' := by simpa using e
    subst this
    exact ⟨h1, h2⟩

/-- **an announcement the reference cannot read is refused**: `Spec.Http.contentLength g = some none`
    (a value that is empty or not all digits, or values that differ) ⇒ `recv_headers` does not answer `Ok` -/
theorem unreadable_content_length_refused (s : Streams) (k : Nat) (blk : HeaderBlock) (g : List Header) (sid : Nat)
    (eos : Bool) (cl0 : ContentLength) (hf : blk.fields = groupInto [] (regular g))
    (live : clOf s k = some cl0) (hnh : cl0 ≠ .head) (hspec : Spec.Http.contentLength g = some none) :
    (s.recvRecvHeaders k (Conn.headersIn sid eos blk)).2.isOk = false := by
  cases hok : (s.recvRecvHeaders k (Conn.headersIn sid eos blk)).2.isOk with
  | false => rfl
  | true =>
    rcases accepted_head_agrees_with_reference s k blk g sid eos cl0 hf live hnh hok with ⟨e, -⟩ | ⟨n, e, -⟩
    · rw [hspec] at e; cases e
    · rw [hspec] at e; cases e

/-- **the one difference, on the safe side**: when the reference reads `n` and no value is longer than 19
    octets, every value parses to `n` — so the only readable announcements the code refuses are those
    with more than 19 digits -/
theorem spec_content_length_parses (g : List Header) (n : Nat) (hspec : Spec.Http.contentLength g = some (some n))
    (hlen : ∀ v ∈ Spec.Http.get g "content-length", v.length ≤ 19) :
    Spec.Http.get g "content-length" ≠ [] ∧ ∀ v ∈ Spec.Http.get g "content-length", parseU64 v = some n := by
  unfold Spec.Http.contentLength at hspec
  cases hv : Spec.Http.get g "content-length" with
  | nil => rw [hv] at hspec; cases hspec
  | cons v rest =>
    rw [hv] at hspec hlen
    simp only at hspec
    cases hc : Spec.Http.clValue v with
    | none => rw [hc] at hspec; cases hspec
    | some m =>
      rw [hc] at hspec
      simp only at hspec
      split at hspec
      · rename_i hall
        have e : m = n := by simpa using hspec
        subst e
        refine ⟨by simp, fun o ho => ?_⟩
        rcases List.mem_cons.mp ho with rfl | ho'
        · exact clValue_parseU64 _ _ (hlen _ (by simp)) hc
        · have := List.all_eq_true.mp hall o ho'
          exact clValue_parseU64 _ _ (hlen _ (by simp [ho'])) (by simpa using this)
      · cases hspec

end H2V.Lemmas.ConnHttpP
