import H2V.Lemmas.ConnFidPWitness
/-
  ConnFidP, part 23 — the statements of H2V/Props/C01Streams.lean whose proofs take more than a line or two.
-/
namespace H2V.Lemmas.ConnFidP
open H2V H2V.Model H2V.Model.Conn H2V.Lemmas.ConnWakeP

/-- a call off the write path: queues of entries that are not cut/removed grow at the back by what the permission allows -/
theorem Tr.send_only {P : Perm} {s s' : Streams} (t : Tr P s s') (hw : ¬P.write) (hp : ¬P.pop) (hc : ∀ j, ¬P.cut j)
    (Q : Nat → SFrame → Prop) (hQ : ∀ j f, P.push j f → Q j f) :
    ∃ tr, Path P s s' tr ∧ (∀ j, wasCut j tr = false → sq s' j = sq s j ++ pushed j tr) ∧
      (∀ j f, f ∈ pushed j tr → Q j f) := by
  obtain ⟨tr, p, h1, h2, _⟩ := t.send_frames hw hp
  refine ⟨tr, p, h1, fun j f hf => ?_⟩
  rcases h2 j f hf with h | ⟨_, h⟩
  · exact hQ j f h
  · exact absurd h (hc j)

theorem refSendData_queues (s : Streams) (k len : Nat) (eos : Bool) :
    ∃ tr, Path (permSendData k len eos) s (s.refSendData k len eos).1 tr ∧
      (∀ j, wasCut j tr = false → sq (s.refSendData k len eos).1 j = sq s j ++ pushed j tr) ∧
      (∀ j f, f ∈ pushed j tr → j = k ∧ f = .data len eos) :=
  (refSendData_tr s k len eos).send_only (fun h => h) (fun h => h) (fun _ h => h) _ (fun _ _ h => h)

theorem refSendTrailers_queues (s : Streams) (k : Nat) (f : List Hpack.Field) :
    ∃ tr, Path (permSendHeaders k true f) s (s.refSendTrailers k f).1 tr ∧
      (∀ j, wasCut j tr = false → sq (s.refSendTrailers k f).1 j = sq s j ++ pushed j tr) ∧
      (∀ j g, g ∈ pushed j tr → j = k ∧ g = .headers true f) :=
  (refSendTrailers_tr s k f).send_only (fun h => h) (fun h => h) (fun _ h => h) _ (fun _ _ h => h)

theorem refSendResponse_queues (s : Streams) (k : Nat) (f : List Hpack.Field) (eos : Bool) :
    ∃ tr, Path (permSendHeaders k eos f) s (s.refSendResponse k f eos).1 tr ∧
      (∀ j, wasCut j tr = false → sq (s.refSendResponse k f eos).1 j = sq s j ++ pushed j tr) ∧
      (∀ j g, g ∈ pushed j tr → j = k ∧ g = .headers eos f) :=
  (refSendResponse_tr s k f eos).send_only (fun h => h) (fun h => h) (fun _ h => h) _ (fun _ _ h => h)

theorem sendRequest_queues (s : Streams) (b : Bool) (f : List Hpack.Field) (eos : Bool) (p : Option Nat) :
    ∃ tr, Path (permSendRequest eos f) s (s.sendRequest b f eos p).1 tr ∧
      (∀ j, wasCut j tr = false → sq (s.sendRequest b f eos p).1 j = sq s j ++ pushed j tr) ∧
      (∀ j g, g ∈ pushed j tr → g = .headers eos f) :=
  (sendRequest_tr s b f eos p).send_only (fun h => h) (fun h => h) (fun _ h => h) (fun _ g => g = .headers eos f)
    (fun _ _ h => h)

theorem refSendReset_queues (s : Streams) (k : Nat) (r : Reason) :
    ∃ tr, Path (permReset k) s (s.refSendReset k r) tr ∧
      ∀ j, j ≠ k → wasCut j tr = false → sq (s.refSendReset k r) j = sq s j := by
  obtain ⟨tr, p, h1, h2, _⟩ := (refSendReset_tr s k r).send_frames (fun h => h) (fun h => h)
  refine ⟨tr, p, fun j hj hc => ?_⟩
  have hp : pushed j tr = [] := by
    cases hq : pushed j tr with
    | nil => rfl
    | cons f rest =>
      have := h2 j f (by rw [hq]; exact List.mem_cons_self ..)
      rcases this with h | ⟨_, h⟩
      · exact absurd h id
      · exact absurd h hj
  rw [h1 j hc, hp, List.append_nil]

/-- off the write path the in-flight marker is kept, or turned to `Drop` by a cut of the very entry it named -/
theorem Path.marker_cut {P : Perm} {s s' : Streams} {tr : List Lbl} (p : Path P s s' tr) (hw : ¬P.write) :
    marker s' = marker s ∨ (∃ j, P.cut j ∧ marker s = .dataFrame j ∧ marker s' = .drop) := by
  induction p with
  | refl => exact Or.inl rfl
  | tau _ e ih =>
    rw [e.mark]; exact ih
  | lbl l _ e ok ih =>
    have hl : ∀ l', some l = some l' → l'.isWrite = false := by
      intro l' h'; cases h'
      cases l <;> simp only [Lbl.isWrite] <;> exact absurd ok hw
    rcases e.marker_step hl with hm | ⟨j, n, hl', hj, hd⟩
    · rw [hm]; exact ih
    · cases hl'
      rcases ih with ih | ⟨j', _, _, hd'⟩
      · exact Or.inr ⟨j, ok, by rw [← ih]; exact hj, hd⟩
      · rw [hd'] at hj; cases hj

/-- **`send_reset(k)` drops the chunk in the codec only if it belongs to `k`** -/
theorem refSendReset_marker (s : Streams) (k : Nat) (r : Reason) :
    marker (s.refSendReset k r) = marker s ∨ (marker s = .dataFrame k ∧ marker (s.refSendReset k r) = .drop) := by
  obtain ⟨tr, p⟩ := refSendReset_tr s k r
  rcases p.marker_cut (fun h => h) with h | ⟨j, hj, h1, h2⟩
  · exact Or.inl h
  · have : j = k := hj
    subst this; exact Or.inr ⟨h1, h2⟩

theorem refPollData_queues (s : Streams) (k : Nat) (t : String) :
    ∃ tr, Path (permPoll k) s (s.refPollData k t).1 tr ∧ (∀ j, rcvd j tr = []) ∧ (∀ j, j ≠ k → dlvd j tr = []) := by
  obtain ⟨tr, p, _, h2, h3⟩ := (refPollData_tr s k t).recv_events
  refine ⟨tr, p, fun j => ?_, fun j hj => ?_⟩
  · cases hq : rcvd j tr with
    | nil => rfl
    | cons e _ => exact absurd (h2 j e (by rw [hq]; exact List.mem_cons_self ..)) id
  · cases hq : dlvd j tr with
    | nil => rfl
    | cons e _ => exact absurd (h3 j e (by rw [hq]; exact List.mem_cons_self ..)) hj

theorem Hist.drained {s : Streams} {w : Writer} {g : Ghost} (h : Hist s w g) (hw : g.weird = false)
    (k : Nat) (hc : g.cut k = false) (ho : out s (held w) k = []) :
    Refine (g.emi k) (g.acc k) ∧ toks (g.emi k) = toks (g.acc k) := by
  obtain ⟨D, hR, hD⟩ := h.fidelity hw k
  rw [hD hc, ho] at hR
  simp only [msg_nil, List.append_nil] at hR
  exact ⟨hR, hR.toks_eq⟩

end H2V.Lemmas.ConnFidP
