import H2V.Lemmas.ConnNoPanicPDsOxPoll3
/-
  C08 (no panic) — the residual hypothesis `OH` as an invariant, part 10: `Streams::poll_complete` keeps `OXs`, given that no
  PUSH_PROMISE frame is queued (`NoPPQ`).
-/
namespace H2V.Lemmas.ConnNoPanicP
open H2V H2V.Model H2V.Model.Conn H2V.Lemmas.ConnCountsP
attribute [local irreducible] wrapSubU32 wrapSubUsize

variable {sv : Bool} {E E' : Nat → Prop}

set_option hygiene false in
local macro "loop_rest_xb" : tactic => `(tactic|
  (have hp := popFrame_pi ho.1 ho.2.1 (Streams.popFrameFuel s1) w.maxFrameSize
   have hps := ho.2.1.popFrame (Streams.popFrameFuel s1) w.maxFrameSize
   have hpr := ho.2.2.1.of_ext (ConnRecvP.popFrame_ext (Streams.popFrameFuel s1) s1 w.maxFrameSize)
   have hpd := popFrame_ds ho.1 ho.2.1 ho.2.2.2 (Streams.popFrameFuel s1) w.maxFrameSize
   have hpf := popFrame_fb ho.1 hf1 ho.2.1 (Streams.popFrameFuel s1) w.maxFrameSize
   have hpx := popFrame_xb ho.1 hf1 ho.2.1 hx1.pq hx1.xe (Streams.popFrameFuel s1) w.maxFrameSize
   split
   · next s2 f heq =>
     rw [heq] at hp hps hpr hpd hpf hpx
     have hbr := bufferReclaim_w (f := f) hp hps hpr hpd.1 hw1 hw2
       (fun len e fr hf => by subst hf; exact popFrame_len_le ho.2.1 heq)
       (fun len e fr hf => hpd.2 len e fr (by rw [hf]))
     have hbf := bufferReclaim_fb (f := f) hp hpf hw1 hw2
       (fun len e fr hf => by subst hf; exact popFrame_len_le ho.2.1 heq)
       (fun len e fr hf => hpd.2 len e fr (by rw [hf]))
     have hbx := bufferReclaim_xb (f := f) hp ⟨hpx.1, hpx.2⟩ hw1 hw2
       (fun len e fr hf => by subst hf; exact popFrame_len_le ho.2.1 heq)
       (fun len e fr hf => hpd.2 len e fr (by rw [hf]))
     exact ih hbr.1 hbf hbx hbr.2
   · next s2 heq =>
     rw [heq] at hp hps hpr hpd hpf hpx
     exact .inr ⟨⟨hp, hps, hpr, hpd.1, .of_none hw1 hw2⟩, hpf, ⟨hpx.1, hpx.2⟩⟩))

/-- **the loop of `Prioritize::buffer_pending`** -/
theorem prioBufferPendingLoop_wxx {g : ConnRecvP.Ghost} (fuel : Nat) :
    ∀ {s : Streams} {w : Writer}, WI E' g s w → FB sv E s → XB sv s → w.lastDataFrame = none →
      OutOfFuel (Streams.prioBufferPendingLoop fuel s w).1 ∨
      (WI E' g (Streams.prioBufferPendingLoop fuel s w).1 (Streams.prioBufferPendingLoop fuel s w).2.1 ∧
       FB sv E (Streams.prioBufferPendingLoop fuel s w).1 ∧ XB sv (Streams.prioBufferPendingLoop fuel s w).1) := by
  induction fuel with
  | zero =>
    intro s w h _ _ _
    unfold Streams.prioBufferPendingLoop
    exact .inl (.inl (panic_of_noneP h.pi.npi.np _))
  | succ n ih =>
    intro s w h hb hx hw1
    unfold Streams.prioBufferPendingLoop
    split
    · exact .inr ⟨h, hb, hx⟩
    · next hcap =>
      have hw2 : w.next = none := hasCapacity_nextP (by simpa using hcap)
      have ho := loopOpen_w h.pi h.safe h.recv h.ds
      have hf1 := loopOpen_fb h.pi hb
      have hx1 := loopOpen_xb h.pi hb hx
      dsimp only
      cases hpo : s.popPendingOpen with
      | mk s0 o =>
      rw [hpo] at ho hf1 hx1
      dsimp only at ho hf1 hx1
      cases o with
      | some id =>
        dsimp only at ho hf1 hx1 ⊢
        have ho := ho _ rfl
        have hf1 := hf1 _ rfl
        have hx1 := hx1 _ rfl
        generalize ((s0.qPushFront .pendingSend id).1).tryAssignCapacity id = s1 at ho hf1 hx1 ⊢
        loop_rest_xb
      | none =>
        dsimp only at ho hf1 hx1 ⊢
        have ho := ho _ rfl
        have hf1 := hf1 _ rfl
        have hx1 := hx1 _ rfl
        generalize s0 = s1 at ho hf1 hx1 ⊢
        loop_rest_xb

theorem prioBufferPending_wxx {g : ConnRecvP.Ghost} (fuel : Nat) {s : Streams} {w : Writer} (h : WI E' g s w) (hb : FB sv E s)
    (hx : XB sv s) :
    OutOfFuel (Streams.prioBufferPending fuel s w).1 ∨
    (WI E' g (Streams.prioBufferPending fuel s w).1 (Streams.prioBufferPending fuel s w).2.1 ∧
     FB sv E (Streams.prioBufferPending fuel s w).1 ∧ XB sv (Streams.prioBufferPending fuel s w).1) := by
  unfold Streams.prioBufferPending
  have hr := reclaimFrame_w h
  exact prioBufferPendingLoop_wxx fuel hr.1 (reclaimFrame_fb hb h.cp) (reclaimFrame_xb hx h.cp) hr.2

theorem bufferPending_wxx {g : ConnRecvP.Ghost} (fuel : Nat) {s : Streams} {w : Writer} (h : WI E' g s w) (hb : FB sv E s)
    (hx : XB sv s) :
    OutOfFuel (Streams.bufferPending fuel s w).1 ∨
    (WI E' g (Streams.bufferPending fuel s w).1 (Streams.bufferPending fuel s w).2.1 ∧ FB sv E (Streams.bufferPending fuel s w).1 ∧
     XB sv (Streams.bufferPending fuel s w).1) := by
  unfold Streams.bufferPending
  have h1 := recvBufferPending_w h
  have hb1 : FB sv E (s.recvBufferPending w).1 := hb.st (recvBufferPending_fk s w) (recvBufferPending_sk s w)
  have hx1 : XB sv (s.recvBufferPending w).1 := hx.st (recvBufferPending_xk s w) (recvBufferPending_fk s w)
  split
  · next s1 w1 heq => rw [heq] at h1 hb1 hx1; exact .inr ⟨h1, hb1, hx1⟩
  · next s1 w1 heq => rw [heq] at h1 hb1 hx1; exact prioBufferPending_wxx fuel h1 hb1 hx1

/-- **`Streams::poll_complete`** -/
theorem pollComplete_wxx {g : ConnRecvP.Ghost} (fuel : Nat) :
    ∀ {s : Streams} {w : Writer}, WI E' g s w → FB sv E s → XB sv s → ∀ (io : Tio) (tag : String),
      OutOfFuel (Streams.pollComplete fuel s w io tag).1 ∨
      (WI E' g (Streams.pollComplete fuel s w io tag).1 (Streams.pollComplete fuel s w io tag).2.1 ∧
       FB sv E (Streams.pollComplete fuel s w io tag).1 ∧ XB sv (Streams.pollComplete fuel s w io tag).1) := by
  induction fuel with
  | zero =>
    intro s w h _ _ io tag
    unfold Streams.pollComplete
    exact .inl (.inr (panic_of_noneP h.pi.npi.np _))
  | succ n ih =>
    intro s w h hb hx io tag
    unfold Streams.pollComplete
    have hw1 := pollReadyW_wle w io tag
    split
    · next w1 io1 heq =>
      rw [heq] at hw1
      have h1 : WI E' g s w1 := ⟨h.pi, h.safe, h.recv, h.ds, h.cp.wle hw1⟩
      have hbp := bufferPending_wxx (sv := sv) (E := E) (n + 1) h1 hb hx
      have hbk := bufferPending_pk (n + 1) s w1
      generalize Streams.bufferPending (n + 1) s w1 = r at hbp hbk ⊢
      obtain ⟨s2, w2, status⟩ := r
      dsimp only at hbp hbk ⊢
      cases status with
      | codecFull =>
        dsimp only
        rcases hbp with hbp | hbp
        · exact .inl (hbp.pk (pollComplete_pk n s2 w2 io1 tag))
        · exact ih hbp.1 hbp.2.1 hbp.2.2 io1 tag
      | complete =>
        dsimp only
        have hfl := flush_wle w2 io1 tag
        split
        · next w3 io3 heq3 =>
          rw [heq3] at hfl
          dsimp only at hfl
          rcases hbp with hbp | hbp
          · have hk1 : PK s2 ({ s2 with actions := { s2.actions with task := some tag } } : Streams) := .of_eq rfl
            have hk2 := hk1.trans (reclaimFrame_pk _ w3)
            split
            · exact .inl (hbp.pk hk2)
            · exact .inl (hbp.pk (hk2.trans (pollComplete_pk n _ _ io3 tag)))
          · have h3 := setTask_w hbp.1 (some tag)
            have hb3 : FB sv E ({ s2 with actions := { s2.actions with task := some tag } } : Streams) := hbp.2.1.of_store rfl rfl
            have hx3 : XB sv ({ s2 with actions := { s2.actions with task := some tag } } : Streams) := hbp.2.2.of_store rfl
            have h3' : WI E' g ({ s2 with actions := { s2.actions with task := some tag } } : Streams) w3 :=
              ⟨h3.pi, h3.safe, h3.recv, h3.ds, h3.cp.wle hfl.1⟩
            have h4 := reclaimFrame_w h3'
            have hb4 := reclaimFrame_fb hb3 h3'.cp
            have hx4 := reclaimFrame_xb hx3 h3'.cp
            split
            · exact .inr ⟨h4.1, hb4, hx4⟩
            · exact ih h4.1 hb4 hx4 io3 tag
        · next w3 io3 r3 hne heq3 =>
          rw [heq3] at hfl
          dsimp only at hfl
          rcases hbp with hbp | hbp
          · exact .inl (hbp.pk (.of_eq rfl))
          · have h3 := setTask_w hbp.1 (some tag)
            exact .inr ⟨⟨h3.pi, h3.safe, h3.recv, h3.ds, h3.cp.wle hfl.1⟩, hbp.2.1.of_store rfl rfl, hbp.2.2.of_store rfl⟩
    · next w1 io1 r1 hne heq =>
      rw [heq] at hw1
      exact .inr ⟨⟨h.pi, h.safe, h.recv, h.ds, h.cp.wle hw1⟩, hb, hx⟩

/-- **`Streams::poll_complete` keeps `OXs`** when no PUSH_PROMISE frame is queued (`NoPPQ`, kept as well) -/
theorem OXs_pollComplete {g : ConnRecvP.Ghost} {s : Streams} {w : Writer} (h : WI (fun _ => False) g s w) (hj : FJ s)
    (hx : OXs s) (hq : NoPPQ s) (fuel : Nat) (io : Tio) (tag : String)
    (hnp : (Streams.pollComplete fuel s w io tag).1.panicked = none) :
    OXs (Streams.pollComplete fuel s w io tag).1 ∧ NoPPQ (Streams.pollComplete fuel s w io tag).1 := by
  have hrole := (pollComplete_ev (ρ := true) fuel s w io tag).nx.role
  rcases pollComplete_wxx (sv := s.counts.isServer) (E := fun _ => False) fuel h hj ⟨hx, hq⟩ io tag with h1 | h1
  · rcases h1 with h1 | h1 <;> (rw [hnp] at h1; cases h1)
  · exact ⟨fun k => by rw [hrole]; exact h1.2.2.xe k, h1.2.2.pq⟩

end H2V.Lemmas.ConnNoPanicP
