import H2V.Lemmas.ConnWakePTask2
import H2V.Lemmas.CompBasic
/-
  ConnWakeP, part 20 — F32 (positive): the waker of `poll_pushed` (`push_task`) is woken when END_STREAM
  closes the receive side; `poll_pushed` `Pending` ⇒ registered ∧ receive side open.
  And the case the repair does NOT cover (W3): `recv_data` returns early when the `RecvStream` was dropped
  (`!stream.is_recv`), before the new `notify_push`.
-/
namespace H2V.Lemmas.ConnWakeP
open H2V H2V.Model H2V.Model.Conn H2V.Lemmas.Comp

theorem modStreamW_wakes_eq {s : Streams} {k : Nat} {a : Stream} (f : Stream → Stream × List String)
    (ha : s.store.get? k = some a) : (s.modStreamW k f).wakes = s.wakes ++ (f a).2 := by
  simp only [Streams.modStreamW, ha, Streams.wake, Streams.setStream]

/-- `stream.notify_push()`: the slot is empty afterwards and the parked tag is in the wake log -/
theorem notifyPush_post {s : Streams} {k : Nat} {a : Stream} (ha : s.store.get? k = some a) :
    ((s.modStreamW k Stream.notifyPush).stream k).pushTask = none ∧
    ∀ t, a.pushTask = some t → t ∈ newWakes s (s.modStreamW k Stream.notifyPush) := by
  have hk := (notifyPush_fields a).1
  refine ⟨?_, fun t ht => ?_⟩
  · rw [stream_modStreamW_same _ ha hk]; exact (notifyPush_slots a).2.2.2
  · rw [newWakes_of_eq (modStreamW_wakes_eq _ ha)]
    simp [Stream.notifyPush, ht]

/-- the step added by repair F32: when the stream's receive side has ended, `push_task` is taken and woken -/
theorem notifyPushIfRecvEnded_post {s : Streams} {k : Nat} {a : Stream} (ha : s.store.get? k = some a)
    (he : a.state.isRecvEndStream = true) :
    ((s.notifyPushIfRecvEnded k).stream k).pushTask = none ∧
    ∀ t, a.pushTask = some t → t ∈ newWakes s (s.notifyPushIfRecvEnded k) := by
  unfold Streams.notifyPushIfRecvEnded
  rw [stream_eq_of_get? ha, he]
  simp only [if_true]
  exact notifyPush_post ha

/-- a tag parked before a chain of steps that ends with an empty slot was woken on the way -/
theorem pushTask_woken_of_none {s s' : Streams} (hs : Step none s s') (hb : KeysBounded s.store) {k : Nat} {a : Stream}
    (ha : s.store.get? k = some a) (hn : (s'.stream k).pushTask = none) (hex : (s'.store.get? k).isSome = true) :
    ∀ t, a.pushTask = some t → t ∈ newWakes s s' := by
  intro t ht
  rcases hs.keep k a (hb.get? ha) ha with h | ⟨b, hb', hab⟩
  · rw [h] at hex; cases hex
  · rw [stream_eq_of_get? hb'] at hn
    exact SlotStep.woken_of_none (hn ▸ hab.pushTask) ht

/-- **trailers** (`Recv::recv_trailers`, always END_STREAM): accepted ⇒ `push_task` empty, its tag woken -/
theorem recvRecvTrailers_wakes_push {s : Streams} {k : Nat} {h : HeadersIn} {a : Stream} (hb : KeysBounded s.store)
    (ha : s.store.get? k = some a) (hok : (s.recvRecvTrailers k h).2 = .ok ()) :
    ((s.recvRecvTrailers k h).1.stream k).pushTask = none ∧
    ∀ t, a.pushTask = some t → t ∈ newWakes s (s.recvRecvTrailers k h).1 := by
  have hstep : Step none s (s.recvRecvTrailers k h).1 := recvRecvTrailers_acc k h (Step.refl _ _)
  have key : ((s.recvRecvTrailers k h).1.stream k).pushTask = none ∧ ((s.recvRecvTrailers k h).1.store.get? k).isSome = true := by
    unfold Streams.recvRecvTrailers at hok ⊢
    rcases hrc : (s.stream k).state.recvClose with ⟨st', e | u⟩
    · simp [hrc] at hok
    · simp only [hrc] at hok ⊢
      split
      · next hh => simp [hh] at hok
      · split
        · next hh => simp [hh] at hok
        · have h1 := get?_modStream_same (fun st => { st with state := st' }) ha rfl
          have h2 := get?_modStream_same (fun st => { st with pendingRecv := st.pendingRecv ++ [REvent.trailers h.fields] }) h1 rfl
          have h3 := get?_modStreamW_same Stream.notifyRecv h2 (notifyRecv_fields' _).1
          have h4 := get?_modStreamW_same Stream.notifyPush h3 (notifyPush_fields _).1
          exact ⟨(notifyPush_post h3).1, by rw [h4]; rfl⟩
  exact ⟨key.1, pushTask_woken_of_none hstep hb ha key.1 key.2⟩

/-- **`poll_pushed`** answers `Pending` only with no promised stream queued, on a stream whose receive side is
    still open, after parking the caller in `push_task` -/
theorem recvPollPushed_pending {s s' : Streams} {k : Nat} {tag : String} {a : Stream}
    (ha : s.store.get? k = some a) (h : s.recvPollPushed k tag = (s', .pending)) :
    (s'.stream k).pushTask = some tag ∧ a.pendingPushPromises = [] ∧ a.state.ensureRecvOpen = .ok true ∧
    s'.wakes = s.wakes := by
  have hst : s.stream k = a := stream_eq_of_get? ha
  unfold Streams.recvPollPushed at h
  simp only [hst] at h
  split at h
  · try simp only at h
    split at h <;> cases h
  · next hq =>
    split at h
    · cases h
    · next hr =>
      obtain ⟨rfl, _⟩ := Prod.mk.inj h
      rw [stream_modStream_same _ ha rfl]
      exact ⟨rfl, hq, hr, modStream_wakes _ _ _⟩
    · cases h

/-- … also through the handle (`OpaqueStreamRef::poll_pushed`) -/
theorem refPollPushed_pending {s s' : Streams} {k : Nat} {tag : String} {a : Stream}
    (ha : s.store.get? k = some a) (h : s.refPollPushed k tag = (s', .pending)) :
    (s'.stream k).pushTask = some tag ∧ a.pendingPushPromises = [] ∧ a.state.ensureRecvOpen = .ok true ∧
    s'.wakes = s.wakes := by
  unfold Streams.refPollPushed at h
  split at h
  · cases h
  · rcases hr : s.recvPollPushed k tag with ⟨s1, r1⟩
    rw [hr] at h; cases h
    exact recvPollPushed_pending ha hr

/-- on a stream whose receive side has ended (or that is closed) `poll_pushed` never waits -/
theorem recvPollPushed_ended {s : Streams} {k : Nat} {tag : String}
    (h : (s.stream k).state.isRecvEndStream = true ∨ (s.stream k).state.isClosed = true) :
    ∀ s', s.recvPollPushed k tag ≠ (s', .pending) := by
  intro s' hp
  have hne : (s.stream k).state.ensureRecvOpen ≠ .ok true := by
    rcases h with h | h
    · rw [ensureRecvOpen_of_eos h]; intro hh; cases hh
    · exact ensureRecvOpen_of_closed h
  cases hg : s.store.get? k with
  | some a =>
    have := (recvPollPushed_pending hg hp).2.2.1
    rw [stream_eq_of_get? hg] at hne; exact hne this
  | none =>
    simp [Streams.stream, hg, State.isRecvEndStream, State.isClosed] at h

-- ===================================================================== `recv_data` as a whole

/-- `state` untouched -/
structure StSame (a b : Stream) : Prop where
  key : b.key = a.key
  id : b.id = a.id
  state : b.state = a.state

instance : IsPre StSame where
  refl _ := ⟨rfl, rfl, rfl⟩
  trans h1 h2 := ⟨h2.key.trans h1.key, h2.id.trans h1.id, h2.state.trans h1.state⟩
  key h := h.key

@[grind =] theorem stSame_iff (a b : Stream) : StSame a b ↔ (b.key = a.key ∧ b.id = a.id ∧ b.state = a.state) :=
  ⟨fun h => ⟨h.1, h.2, h.3⟩, fun ⟨h1, h2, h3⟩ => ⟨h1, h2, h3⟩⟩

abbrev SS := GStep False StSame

@[grind ←] theorem stSame_notifyRecv (x : Stream) : StSame x x.notifyRecv.1 := by
  obtain ⟨h1, h2, h3, _⟩ := notifyRecv_fields' x; exact ⟨h1, h2, h3⟩
@[grind ←] theorem stSame_setQueued (a : Stream) (q : QName) (v : Bool) : StSame a (a.setQueued q v) := by
  obtain ⟨h1, h2, h3, _⟩ := setQueued_fields a q v; exact ⟨h1, h2, h3⟩

section
variable {s0 s : Streams}
@[grind ←] theorem ss_qPush (q : QName) (k : Nat) (h : SS s0 s) : SS s0 (s.qPush q k).1 := by
  unfold Streams.qPush; tear_grind
@[grind ←] theorem ss_releaseConnectionCapacity (c : Nat) (u : Bool) (h : SS s0 s) : SS s0 (s.releaseConnectionCapacity c u) := by
  unfold Streams.releaseConnectionCapacity; tear_grind
@[grind ←] theorem ss_releaseCapacity (k c : Nat) (u : Bool) (h : SS s0 s) : SS s0 (s.releaseCapacity k c u).1 := by
  unfold Streams.releaseCapacity; tear_grind
@[grind ←] theorem ss_consumeConnectionWindow (sz : Nat) (h : SS s0 s) : SS s0 (s.consumeConnectionWindow sz).1 := by
  unfold Streams.consumeConnectionWindow; tear_grind
@[grind ←] theorem ss_ignoreData (sz : Nat) (h : SS s0 s) : SS s0 (s.ignoreData sz).1 := by
  unfold Streams.ignoreData; tear_grind
end

theorem SS.state_eq {s1 s2 : Streams} (h : SS s1 s2) (k : Nat) : (s2.stream k).state = (s1.stream k).state := by
  cases h1 : s1.store.get? k with
  | none => simp [Streams.stream, h1, h.fresh k h1]
  | some a =>
    rcases h.keep k a h1 with ⟨f, _⟩ | ⟨b, hb, hab⟩
    · exact f.elim
    · simp [Streams.stream, h1, hb, hab.state]

/-- after the step added by F32 the push slot cannot be occupied on a stream whose receive side has ended -/
theorem notifyPushIfRecvEnded_quiet (s : Streams) (k : Nat)
    (he : ((s.notifyPushIfRecvEnded k).stream k).state.isRecvEndStream = true) :
    ((s.notifyPushIfRecvEnded k).stream k).pushTask = none := by
  cases hg : s.store.get? k with
  | none =>
    have : s.notifyPushIfRecvEnded k = s := by
      unfold Streams.notifyPushIfRecvEnded; simp [Streams.stream, hg, State.isRecvEndStream]
    rw [this]; simp [Streams.stream, hg]
  | some a =>
    by_cases hea : a.state.isRecvEndStream = true
    · exact (notifyPushIfRecvEnded_post hg hea).1
    · have : s.notifyPushIfRecvEnded k = s := by
        unfold Streams.notifyPushIfRecvEnded; rw [stream_eq_of_get? hg]; simp [hea]
      rw [this] at he; rw [stream_eq_of_get? hg] at he; exact absurd he hea

/-- the post-condition of `recv_data`: an `Ok` answer without a panic leaves the push slot empty whenever
    END_STREAM has just ended the receive side (it had not ended before) -/
theorem recvRecvData_quiet (s : Streams) (k : Nat) (p : Bytes) (pad : Option Nat)
    (hne : (s.stream k).state.isRecvEndStream = false)
    (hok : (s.recvRecvData k p true pad).2 = .ok ()) (hp : (s.recvRecvData k p true pad).1.panicked = none)
    (he : ((s.recvRecvData k p true pad).1.stream k).state.isRecvEndStream = true) :
    ((s.recvRecvData k p true pad).1.stream k).pushTask = none := by
  revert hok hp he
  unfold Streams.recvRecvData
  simp only [Bool.not_true, Bool.and_false, Bool.false_eq_true, if_false]
  generalize (p.length + (match pad with | some p => p + 1 | none => 0)) = flowLen
  -- the state in front: a possible panic flag, nothing else
  have hpan : ∀ (c : Prop) [Decidable c] (m : String), (if c then s.panic m else s).stream k = s.stream k := by
    intro c _ m; split
    · unfold Streams.stream; rw [panic_store']
    · rfl
  generalize hs1 : (if flowLen > Generated.Consts.MAX_WINDOW_SIZE then
      s.panic "assertion failed: sz <= MAX_WINDOW_SIZE" else s) = s1
  have hst1 : s1.stream k = s.stream k := by subst hs1; exact hpan _ _
  rw [hst1]
  split
  · intro hok; cases hok
  · split
    · -- the frame is ignored: the state does not move
      intro _ _ he
      rw [SS.state_eq (ss_ignoreData _ (GStep.refl s1)) k, hst1, hne] at he; cases he
    · split
      · intro hok; cases hok
      · next s2 _ hcw =>
        split
        · intro hok; cases hok
        · split
          · intro hok; cases hok
          · try simp only
            split
            · intro hok; cases hok
            · split
              · intro _ _ he; exact notifyPushIfRecvEnded_quiet _ _ he
              · split
                · intro hok; cases hok
                · intro _ hp; exact absurd hp (panic_panicked _ _)
                · intro _ _ he; exact notifyPushIfRecvEnded_quiet _ _ he

/-- **`Recv::recv_data` with END_STREAM** (`Ok`, no panic flag, the receive side had not ended before): in the result
    the receive side has ended ⇒ `push_task` is empty and the tag that was parked there is in the wake log — on EVERY
    `Ok` path (also when the `RecvStream` was dropped: W3 repaired) -/
theorem recvRecvData_eos_wakes_push {s : Streams} {k : Nat} {p : Bytes} {pad : Option Nat} {a : Stream}
    (hb : KeysBounded s.store) (ha : s.store.get? k = some a) (hne : a.state.isRecvEndStream = false)
    (hok : (s.recvRecvData k p true pad).2 = .ok ()) (hp : (s.recvRecvData k p true pad).1.panicked = none)
    (he : ((s.recvRecvData k p true pad).1.stream k).state.isRecvEndStream = true) :
    ((s.recvRecvData k p true pad).1.stream k).pushTask = none ∧
    ∀ t, a.pushTask = some t → t ∈ newWakes s (s.recvRecvData k p true pad).1 := by
  have hq := recvRecvData_quiet s k p pad (by rw [stream_eq_of_get? ha]; exact hne) hok hp he
  have hstep : Step none s (s.recvRecvData k p true pad).1 := recvRecvData_acc k p true pad (Step.refl _ _)
  refine ⟨hq, pushTask_woken_of_none hstep hb ha hq ?_⟩
  cases hg : (s.recvRecvData k p true pad).1.store.get? k with
  | some _ => rfl
  | none => simp [Streams.stream, hg, State.isRecvEndStream] at he

-- ===================================================================== witnesses (client, default builder)
namespace W3
/-- request without END_STREAM on stream key 0 (id 1), opened and its HEADERS popped -/
def p0 : Streams := ((Conn.init {}).streams.sendRequest false [] false none).1
def p1 : Streams :=
  let s := p0.popPendingOpen.1
  let s := ((s.qPushFront .pendingSend 0).1).tryAssignCapacity 0
  (Streams.popFrame 4 s 16384).1
/-- the response head (no END_STREAM) arrives and is taken by the application -/
def p2 : Streams := (p1.recvHeaders { sid := 1, eos := false, status := some [50, 48, 48] }).1
def p3 : Streams := (Streams.recvPollResponse 2 p2 0 "p0").1
/-- `PushPromises::poll_push_promise` parks `q0` -/
def p4 : Streams := (p3.refPollPushed 0 "q0").1
/-- DATA with END_STREAM arrives: `q0` is woken, the slot is empty, a new poll says "no more" -/
def p5 : Streams := (p4.recvData 1 [1, 2, 3] true none).1

theorem data_end_stream_wakes_push_example :
    (match (p3.refPollPushed 0 "q0").2 with | .pending => true | _ => false) = true ∧ (p4.stream 0).pushTask = some "q0" ∧
    (p5.stream 0).state.isRecvEndStream = true ∧ "q0" ∈ p5.wakes ∧ (p5.stream 0).pushTask = none ∧
    (match (p5.refPollPushed 0 "q0").2 with | .none => true | _ => false) = true := by decide

/-- the same with the END_STREAM on the response head itself -/
def h4 : Streams := (p1.refPollPushed 0 "q0").1
def h5 : Streams := (h4.recvHeaders { sid := 1, eos := true, status := some [50, 48, 48] }).1
theorem headers_end_stream_wakes_push_example :
    (h4.stream 0).pushTask = some "q0" ∧ "q0" ∈ h5.wakes ∧ (h5.stream 0).pushTask = none := by decide

/-- **W3 (residual of F32, repaired by 334158d).**  The application dropped the `RecvStream` (`clear_recv_buffer`:
    `is_recv = false`) and waits in `poll_pushed`; DATA with END_STREAM arrives.  Before the repair `recv_data`
    returned at `if !stream.is_recv` without `notify_push`; now `q0` is woken there too. -/
def d4 : Streams := p3.refClearRecvBuffer 0
def d5 : Streams := (d4.refPollPushed 0 "q0").1
def d6 : Streams := (d5.recvData 1 [1, 2, 3] true none).1
theorem dropped_body_end_stream_wakes_push_example :
    (d5.stream 0).pushTask = some "q0" ∧ (d5.stream 0).isRecv = false ∧ (d5.recvData 1 [1, 2, 3] true none).2 = .ok () ∧
    (d6.stream 0).state.isRecvEndStream = true ∧ "q0" ∈ d6.wakes ∧ (d6.stream 0).pushTask = none := by decide
end W3

end H2V.Lemmas.ConnWakeP
