import H2V.Lemmas.ConnFlowPCw3
/-
  ConnFlowP, part 25 — the history form for the connection: along any API history,

      connection send window = credit granted − DATA handed to the codec,     0 ≤ sent ≤ granted

  where `granted` = 65 535 + the increments of the WINDOW_UPDATE frames on stream 0 that were
  accepted, and `sent` = the lengths of the DATA frames `pop_frame` returned inside `poll_complete`
  (`pollLog`, `ConnFlowPHist.lean`).  `ReachH s g d` is `Reach s` with these two ghost quantities.
-/
namespace H2V.Lemmas.ConnFlowP
open H2V H2V.Model H2V.Model.Conn H2V.Lemmas.Comp

inductive ReachH : Streams → Int → Int → Prop
  | init {s} : Init s → ReachH s 65535 0
  | recvHeaders {s} {g d : Int} (hd) : ReachH s g d → ReachH (s.recvHeaders hd).1 g d
  | recvData {s} {g d : Int} (id p eos pad) : ReachH s g d → ReachH (s.recvData id p eos pad).1 g d
  | recvReset {s} {g d : Int} (id r) : ReachH s g d → ReachH (s.recvReset id r).1 g d
  | recvWindowUpdateStream {s} {g d : Int} (id inc) : id ≠ 0 → inc ≤ 2147483647 → ReachH s g d → ReachH (s.recvWindowUpdate id inc).1 g d
  | recvWindowUpdateConn {s} {g d : Int} (inc) : inc ≤ 2147483647 → ReachH s g d →
      ReachH (s.recvWindowUpdate 0 inc).1 (g + (if isOk (s.recvWindowUpdate 0 inc).2 then (inc : Int) else 0)) d
  | recvPushPromise {s} {g d : Int} (id hd) : ReachH s g d → ReachH (s.recvPushPromise id hd).1 g d
  | recvGoAwayFrame {s} {g d : Int} (l r dbg) : ReachH s g d → ReachH (s.recvGoAwayFrame l r dbg).1 g d
  | recvGoAway {s} {g d : Int} (id) : ReachH s g d → ReachH (s.recvGoAway id) g d
  | recvEof {s} {g d : Int} (b) : ReachH s g d → ReachH (s.recvEof b) g d
  | handleError {s} {g d : Int} (e) : ReachH s g d → ReachH (s.handleError e).1 g d
  | innerSendReset {s} {g d : Int} (id r) : ReachH s g d → ReachH (s.innerSendReset id r).1 g d
  | applyRemoteSettings {s} {g d : Int} (vals b) : SettingsOk vals → ReachH s g d → ReachH (s.applyRemoteSettings vals b).1 g d
  | applyLocalSettingsFrame {s} {g d : Int} (vals) : ReachH s g d → ReachH (s.applyLocalSettingsFrame vals).1 g d
  | setTargetConnectionWindow {s} {g d : Int} (n) : ReachH s g d → ReachH (s.setTargetConnectionWindow n).1 g d
  | clearExpiredResetStreams {s} {g d : Int} (fuel) : ReachH s g d → ReachH (Streams.clearExpiredResetStreams fuel s) g d
  | pollComplete {s} {g d : Int} (fuel w io tag) : ReachH s g d →
      ReachH (Streams.pollComplete fuel s w io tag).1 g (d + sentIn (pollLog fuel s w io tag))
  | pollSendPendingRefusal {s} {g d : Int} (fuel w io tag) : ReachH s g d → ReachH (Streams.pollSendPendingRefusal fuel s w io tag).1 g d
  | wake {s} {g d : Int} (w) : ReachH s g d → ReachH (s.wake w) g d
  | panic {s} {g d : Int} (m) : ReachH s g d → ReachH (s.panic m) g d
  | clearWakes {s} {g d : Int} : ReachH s g d → ReachH { s with wakes := [] } g d
  | cloneHandle {s} {g d : Int} : ReachH s g d → ReachH s.cloneHandle g d
  | dropHandle {s} {g d : Int} : ReachH s g d → ReachH s.dropHandle g d
  | cloneStreamRef {s} {g d : Int} (id) : ReachH s g d → ReachH (s.cloneStreamRef id) g d
  | dropStreamRef {s} {g d : Int} (id) : ReachH s g d → ReachH (s.dropStreamRef id) g d
  | sendRequest {s} {g d : Int} (b f eos p) : ReachH s g d → ReachH (s.sendRequest b f eos p).1 g d
  | pollPendingOpen {s} {g d : Int} (p tag) : ReachH s g d → ReachH (s.pollPendingOpen p tag).1 g d
  | nextIncoming {s} {g d : Int} : ReachH s g d → ReachH s.nextIncoming.1 g d
  | recvTakeRequest {s} {g d : Int} (id) : ReachH s g d → ReachH (s.recvTakeRequest id).1 g d
  | refSendResponse {s} {g d : Int} (k f eos) : ReachH s g d → ReachH (s.refSendResponse k f eos).1 g d
  | refSendInformationalHeaders {s} {g d : Int} (k f) : ReachH s g d → ReachH (s.refSendInformationalHeaders k f).1 g d
  | refSendPushPromise {s} {g d : Int} (k b f) : ReachH s g d → ReachH (s.refSendPushPromise k b f).1 g d
  | refSendData {s} {g d : Int} (id len eos) : ReachH s g d → ReachH (s.refSendData id len eos).1 g d
  | refSendTrailers {s} {g d : Int} (id f) : ReachH s g d → ReachH (s.refSendTrailers id f).1 g d
  | refSendReset {s} {g d : Int} (id r) : ReachH s g d → ReachH (s.refSendReset id r) g d
  | refReserveCapacity {s} {g d : Int} (id c) : ReachH s g d → ReachH (s.refReserveCapacity id c) g d
  | pollCapacity {s} {g d : Int} (id tag) : ReachH s g d → ReachH (s.pollCapacity id tag).1 g d
  | pollReset {s} {g d : Int} (id m tag) : ReachH s g d → ReachH (s.pollReset id m tag).1 g d
  | recvPollResponse {s} {g d : Int} (fuel id tag) : ReachH s g d → ReachH (Streams.recvPollResponse fuel s id tag).1 g d
  | recvPollInformational {s} {g d : Int} (id tag) : ReachH s g d → ReachH (s.recvPollInformational id tag).1 g d
  | refPollData {s} {g d : Int} (id tag) : ReachH s g d → ReachH (s.refPollData id tag).1 g d
  | recvPollTrailers {s} {g d : Int} (id tag) : ReachH s g d → ReachH (s.recvPollTrailers id tag).1 g d
  | refReleaseCapacity {s} {g d : Int} (id c) : ReachH s g d → ReachH (s.refReleaseCapacity id c).1 g d
  | refClearRecvBuffer {s} {g d : Int} (id) : ReachH s g d → ReachH (s.refClearRecvBuffer id) g d

theorem ReachH.reach {s : Streams} {g d : Int} (h : ReachH s g d) : Reach s := by
  induction h with
  | init h => exact .init h
  | recvHeaders hd _ ih => exact .recvHeaders hd ih
  | recvData id p eos pad _ ih => exact .recvData id p eos pad ih
  | recvReset id r _ ih => exact .recvReset id r ih
  | recvWindowUpdateStream id inc _ hinc _ ih => exact .recvWindowUpdate id inc hinc ih
  | recvWindowUpdateConn inc hinc _ ih => exact .recvWindowUpdate 0 inc hinc ih
  | recvPushPromise id hd _ ih => exact .recvPushPromise id hd ih
  | recvGoAwayFrame l r dbg _ ih => exact .recvGoAwayFrame l r dbg ih
  | recvGoAway id _ ih => exact .recvGoAway id ih
  | recvEof b _ ih => exact .recvEof b ih
  | handleError e _ ih => exact .handleError e ih
  | innerSendReset id r _ ih => exact .innerSendReset id r ih
  | applyRemoteSettings vals b hv _ ih => exact .applyRemoteSettings vals b hv ih
  | applyLocalSettingsFrame vals _ ih => exact .applyLocalSettingsFrame vals ih
  | setTargetConnectionWindow n _ ih => exact .setTargetConnectionWindow n ih
  | clearExpiredResetStreams fuel _ ih => exact .clearExpiredResetStreams fuel ih
  | pollComplete fuel w io tag _ ih => exact .pollComplete fuel w io tag ih
  | pollSendPendingRefusal fuel w io tag _ ih => exact .pollSendPendingRefusal fuel w io tag ih
  | wake w _ ih => exact .wake w ih
  | panic m _ ih => exact .panic m ih
  | clearWakes _ ih => exact .clearWakes ih
  | cloneHandle _ ih => exact .cloneHandle ih
  | dropHandle _ ih => exact .dropHandle ih
  | cloneStreamRef id _ ih => exact .cloneStreamRef id ih
  | dropStreamRef id _ ih => exact .dropStreamRef id ih
  | sendRequest b f eos p _ ih => exact .sendRequest b f eos p ih
  | pollPendingOpen p tag _ ih => exact .pollPendingOpen p tag ih
  | nextIncoming _ ih => exact .nextIncoming ih
  | recvTakeRequest id _ ih => exact .recvTakeRequest id ih
  | refSendResponse k f eos _ ih => exact .refSendResponse k f eos ih
  | refSendInformationalHeaders k f _ ih => exact .refSendInformationalHeaders k f ih
  | refSendPushPromise k b f _ ih => exact .refSendPushPromise k b f ih
  | refSendData id len eos _ ih => exact .refSendData id len eos ih
  | refSendTrailers id f _ ih => exact .refSendTrailers id f ih
  | refSendReset id r _ ih => exact .refSendReset id r ih
  | refReserveCapacity id c _ ih => exact .refReserveCapacity id c ih
  | pollCapacity id tag _ ih => exact .pollCapacity id tag ih
  | pollReset id m tag _ ih => exact .pollReset id m tag ih
  | recvPollResponse fuel id tag _ ih => exact .recvPollResponse fuel id tag ih
  | recvPollInformational id tag _ ih => exact .recvPollInformational id tag ih
  | refPollData id tag _ ih => exact .refPollData id tag ih
  | recvPollTrailers id tag _ ih => exact .recvPollTrailers id tag ih
  | refReleaseCapacity id c _ ih => exact .refReleaseCapacity id c ih
  | refClearRecvBuffer id _ ih => exact .refClearRecvBuffer id ih

theorem cw_step {s t : Streams} {g d : Int} (h : CW s.prio.flow.windowSize t) (ih : s.prio.flow.windowSize.val = g - d) :
    t.prio.flow.windowSize.val = g - d := by
  have : t.prio.flow.windowSize = s.prio.flow.windowSize := h
  rw [this]; exact ih

theorem recvConnectionWindowUpdate_window (s : Streams) (inc : Nat) (hinc : inc ≤ 2147483647) :
    (s.recvConnectionWindowUpdate inc).1.prio.flow.windowSize.val =
      s.prio.flow.windowSize.val + (if isOk (s.recvConnectionWindowUpdate inc).2 then (inc : Int) else 0) := by
  unfold Streams.recvConnectionWindowUpdate
  rw [Flow.incWindow_eq, u32AsI32_small hinc]
  by_cases hc : inI32 (s.prio.flow.windowSize.val + (inc : Int)) = true ∧
      s.prio.flow.windowSize.val + (inc : Int) ≤ (Generated.Consts.MAX_WINDOW_SIZE : Int)
  · rw [if_pos hc]
    have := CW.assignConnectionCapacity (W := ⟨s.prio.flow.windowSize.val + inc⟩)
      (t := s.modPrio fun p => { p with flow := { s.prio.flow with windowSize := ⟨s.prio.flow.windowSize.val + inc⟩ } })
      rfl inc
    have e : (Streams.assignConnectionCapacity (s.modPrio fun p =>
        { p with flow := { s.prio.flow with windowSize := ⟨s.prio.flow.windowSize.val + inc⟩ } }) inc).prio.flow.windowSize =
        ⟨s.prio.flow.windowSize.val + inc⟩ := this
    show (Streams.assignConnectionCapacity _ inc).prio.flow.windowSize.val = _ + (if isOk (Except.ok () : Except Reason Unit) then (inc : Int) else 0)
    rw [e]; simp only [isOk_ok, if_true]
  · rw [if_neg hc]
    show s.prio.flow.windowSize.val = _ + (if isOk (Except.error _ : Except Reason Unit) then (inc : Int) else 0)
    simp only [isOk_error, Bool.false_eq_true, if_false]; omega

/-- WINDOW_UPDATE on stream 0: the window grows by the increment when the frame is accepted, not at all
    when it is refused (overflow past `2^31 - 1`: connection error) -/
theorem recvWindowUpdate_conn_window {s : Streams} {g d : Int} (hs : SafeInv s)
    (ih : s.prio.flow.windowSize.val = g - d) (inc : Nat) (hinc : inc ≤ 2147483647) :
    (s.recvWindowUpdate 0 inc).1.prio.flow.windowSize.val =
      g + (if isOk (s.recvWindowUpdate 0 inc).2 then (inc : Int) else 0) - d := by
  have h := recvConnectionWindowUpdate_window s inc hinc
  unfold Streams.recvWindowUpdate
  simp only [if_true]
  split
  · rename_i heq
    rw [heq] at h
    simp only [isOk_error, Bool.false_eq_true, if_false] at h ⊢
    omega
  · rename_i heq
    rw [heq] at h
    simp only [isOk_ok, if_true] at h ⊢
    omega

theorem pollComplete_window {s : Streams} {g d : Int} (hs : SafeInv s)
    (ih : s.prio.flow.windowSize.val = g - d) (fuel : Nat) (w : Writer) (io : Tio) (tag : String) :
    (Streams.pollComplete fuel s w io tag).1.prio.flow.windowSize.val = g - (d + sentIn (pollLog fuel s w io tag)) := by
  rw [(poll_log fuel w io tag hs).2, ih]; omega

/-- **window = granted − sent** along every history -/
theorem ReachH.window {s : Streams} {g d : Int} (h : ReachH s g d) : s.prio.flow.windowSize.val = g - d := by
  induction h with
  | init h => rw [h.flow, flowInit_eq]; rfl
  | recvHeaders hd _ ih => exact cw_step (CW.recvHeaders rfl hd) ih
  | recvData id p eos pad _ ih => exact cw_step (CW.recvData rfl id p eos pad) ih
  | recvReset id r _ ih => exact cw_step (CW.recvReset rfl id r) ih
  | recvWindowUpdateStream id inc hid _ _ ih => exact cw_step (CW.recvWindowUpdate_stream rfl id inc hid) ih
  | recvWindowUpdateConn inc hinc hr ih => exact recvWindowUpdate_conn_window hr.reach.safe ih inc hinc
  | recvPushPromise id hd _ ih => exact cw_step (CW.recvPushPromise rfl id hd) ih
  | recvGoAwayFrame l r dbg _ ih => exact cw_step (CW.recvGoAwayFrame rfl l r dbg) ih
  | recvGoAway id _ ih => exact cw_step (CW.recvGoAway rfl id) ih
  | recvEof b _ ih => exact cw_step (CW.recvEof rfl b) ih
  | handleError e _ ih => exact cw_step (CW.handleError rfl e) ih
  | innerSendReset id r _ ih => exact cw_step (CW.innerSendReset rfl id r) ih
  | applyRemoteSettings vals b hv _ ih => exact cw_step (CW.applyRemoteSettings rfl vals b) ih
  | applyLocalSettingsFrame vals _ ih => exact cw_step (CW.applyLocalSettingsFrame rfl vals) ih
  | setTargetConnectionWindow n _ ih => exact cw_step (CW.setTargetConnectionWindow rfl n) ih
  | clearExpiredResetStreams fuel _ ih => exact cw_step (CW.clearExpiredResetStreams fuel rfl) ih
  | pollComplete fuel w io tag hr ih => exact pollComplete_window hr.reach.safe ih fuel w io tag
  | pollSendPendingRefusal fuel w io tag _ ih => exact cw_step (CW.pollSendPendingRefusal fuel rfl w io tag) ih
  | wake w _ ih => exact cw_step (CW.wake rfl w) ih
  | panic m _ ih => exact cw_step (CW.panic rfl m) ih
  | clearWakes _ ih => exact cw_step (CW.withWakes rfl []) ih
  | cloneHandle _ ih => exact cw_step (CW.cloneHandle rfl) ih
  | dropHandle _ ih => exact cw_step (CW.dropHandle rfl) ih
  | cloneStreamRef id _ ih => exact cw_step (CW.cloneStreamRef rfl id) ih
  | dropStreamRef id _ ih => exact cw_step (CW.dropStreamRef rfl id) ih
  | sendRequest b f eos p _ ih => exact cw_step (CW.sendRequest rfl b f eos p) ih
  | pollPendingOpen p tag _ ih => exact cw_step (CW.pollPendingOpen rfl p tag) ih
  | nextIncoming _ ih => exact cw_step (CW.nextIncoming rfl) ih
  | recvTakeRequest id _ ih => exact cw_step (CW.recvTakeRequest rfl id) ih
  | refSendResponse k f eos _ ih => exact cw_step (CW.refSendResponse rfl k f eos) ih
  | refSendInformationalHeaders k f _ ih => exact cw_step (CW.refSendInformationalHeaders rfl k f) ih
  | refSendPushPromise k b f _ ih => exact cw_step (CW.refSendPushPromise rfl k b f) ih
  | refSendData id len eos _ ih => exact cw_step (CW.refSendData rfl id len eos) ih
  | refSendTrailers id f _ ih => exact cw_step (CW.refSendTrailers rfl id f) ih
  | refSendReset id r _ ih => exact cw_step (CW.refSendReset rfl id r) ih
  | refReserveCapacity id c _ ih => exact cw_step (CW.refReserveCapacity rfl id c) ih
  | pollCapacity id tag _ ih => exact cw_step (CW.pollCapacity rfl id tag) ih
  | pollReset id m tag _ ih => exact cw_step (CW.pollReset rfl id m tag) ih
  | recvPollResponse fuel id tag _ ih => exact cw_step (CW.recvPollResponse fuel rfl id tag) ih
  | recvPollInformational id tag _ ih => exact cw_step (CW.recvPollInformational rfl id tag) ih
  | refPollData id tag _ ih => exact cw_step (CW.refPollData rfl id tag) ih
  | recvPollTrailers id tag _ ih => exact cw_step (CW.recvPollTrailers rfl id tag) ih
  | refReleaseCapacity id c _ ih => exact cw_step (CW.refReleaseCapacity rfl id c) ih
  | refClearRecvBuffer id _ ih => exact cw_step (CW.refClearRecvBuffer rfl id) ih

theorem ReachH.sent_nonneg {s : Streams} {g d : Int} (h : ReachH s g d) : 0 ≤ d := by
  induction h with
  | init _ => exact Int.le_refl _
  | pollComplete fuel w io tag _ ih => omega
  | _ => assumption

/-- **sent ≤ granted**: the DATA octets handed to the codec for the whole connection never exceed
    the credit the peer has granted so far -/
theorem ReachH.sent_le_granted {s : Streams} {g d : Int} (h : ReachH s g d) : d ≤ g := by
  have hw := h.window
  have hs := h.reach.safe
  have := hs.av_le
  have := hs.a0
  omega

end H2V.Lemmas.ConnFlowP
