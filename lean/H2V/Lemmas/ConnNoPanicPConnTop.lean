import H2V.Lemmas.ConnNoPanicPAll5
import H2V.Lemmas.ConnNoPanicPConnIwsAll
/-
  C08 (no panic) — the connection level.  np-conn: every function of ConnProto does to `(streams, writer)` what a history
  of guarded stream-layer operations does (`HistWX ConnP' FuelMsg`), and none of the connection layer's own asserts can
  fire (`ConnOK`).  Here: such a history is a history of the final stream-layer relation `WReach`; hence the
  stream-layer theorem holds in every reachable state of a connection.
-/
namespace H2V.Lemmas.ConnNoPanicP
open H2V H2V.Model H2V.Model.Conn H2V.Lemmas.ConnCountsP
open H2V.Lemmas.ConnResetP (Op run)
open H2V.Lemmas.ConnCtlP (view)

/-- what the connection layer guarantees at a call is what the stream-layer theorem asks for (no handle involved) -/
theorem connP'_pre {s : Streams} {T : List Nat} {op : Op} (h : ConnP' s op) (hnw : usesWriter op = false) :
    opPre5 s T op ∧ opKey3 op = none ∧ (∀ H, opHandles3 s H op = H) ∧ (∀ H, opResp s H T op = T) := by
  cases op <;> first | exact h.elim | cases hnw | skip
  case recvHeaders hd => exact ⟨⟨fun _ => h, trivial, trivial, trivial⟩, rfl, fun _ => rfl, fun _ => rfl⟩
  case recvData id p e pad => exact ⟨⟨fun _ => h, trivial, trivial, trivial⟩, rfl, fun _ => rfl, fun _ => rfl⟩
  case recvReset id r => exact ⟨⟨fun _ => trivial, trivial, trivial, trivial⟩, rfl, fun _ => rfl, fun _ => rfl⟩
  case recvWindowUpdate id inc => exact ⟨⟨fun _ => h, trivial, trivial, trivial⟩, rfl, fun _ => rfl, fun _ => rfl⟩
  case recvPushPromise id hd => exact ⟨⟨fun _ => trivial, trivial, trivial, trivial⟩, rfl, fun _ => rfl, fun _ => rfl⟩
  case handleError e => exact ⟨⟨fun _ => h, trivial, trivial, trivial⟩, rfl, fun _ => rfl, fun _ => rfl⟩
  case recvGoAwayFrame l r d => exact ⟨⟨fun _ => trivial, trivial, trivial, trivial⟩, rfl, fun _ => rfl, fun _ => rfl⟩
  case recvGoAway l => exact ⟨⟨fun _ => h, trivial, trivial, trivial⟩, rfl, fun _ => rfl, fun _ => rfl⟩
  case recvEof b => exact ⟨⟨fun _ => trivial, trivial, trivial, trivial⟩, rfl, fun _ => rfl, fun _ => rfl⟩
  case innerSendReset id r => exact ⟨⟨fun _ => trivial, trivial, trivial, trivial⟩, rfl, fun _ => rfl, fun _ => rfl⟩
  case setTargetConnectionWindow t => exact ⟨⟨fun _ => h, trivial, trivial, trivial⟩, rfl, fun _ => rfl, fun _ => rfl⟩
  case applyRemoteSettings v b => exact ⟨⟨fun _ => h, trivial, trivial, trivial⟩, rfl, fun _ => rfl, fun _ => rfl⟩
  case applyLocalSettingsFrame v =>
    have h4 : ConnRecvP.settingsIws v = none := h
    exact ⟨⟨fun _ => ⟨fun t ht => (by rw [h4] at ht; cases ht), applyLocalSettingsFrame_ok_of_none s v h4⟩, trivial, trivial, trivial⟩,
      rfl, fun _ => rfl, fun _ => rfl⟩
  case clearExpiredResetStreams n => exact ⟨⟨fun _ => trivial, trivial, trivial, trivial⟩, rfl, fun _ => rfl, fun _ => rfl⟩
  case wake t => exact ⟨⟨fun _ => trivial, trivial, trivial, trivial⟩, rfl, fun _ => rfl, fun _ => rfl⟩
  case cloneHandle => exact ⟨⟨fun _ => trivial, trivial, trivial, trivial⟩, rfl, fun _ => rfl, fun _ => rfl⟩

/-- **a history of the connection layer is a history of the final stream-layer relation** -/
theorem WReach.ofHistW {A : Op → Prop} (hA : ∀ s o, ConnP' s o → A o) {s0 s : Streams} {w0 w : Writer} {H T : List Nat}
    (h0 : WReach A RT s0 w0 H T) (h : HistWX ConnP' FuelMsg s0 w0 s w) : WReach A RT s w H T := by
  induction h with
  | refl => exact h0
  | @op t w o _ hp hu ih =>
    by_cases hm : ∃ m, o = .panic m
    · obtain ⟨m, rfl⟩ := hm
      exact .fuel m ih hp
    · have hc : ConnP' t o := by
        cases o <;> first | exact hp | exact absurd ⟨_, rfl⟩ hm
      obtain ⟨hpre, hk, hH, hT⟩ := connP'_pre (T := T) hc hu
      have := WReach.op o ih hu (fun m e => hm ⟨m, e⟩) hpre (by intro k hk'; rw [hk] at hk'; cases hk') (hA _ _ hc)
      rw [hH, hT] at this; exact this
  | pollComplete f io t _ _ ih => exact .pollComplete f io t ih trivial
  | pollSendPendingRefusal f io t _ _ ih => exact .pollSendPendingRefusal f io t ih
  | writer _ hw ih => exact .writer ih hw

-- ===================================================================== the calls of the application

/-- the operations the application performs through its handles (client.rs / server.rs / share.rs) -/
def isHandleOp : Op → Bool
  | .cloneHandle | .dropHandle | .sendRequest .. | .pollPendingOpen .. | .nextIncoming | .recvTakeRequest _
  | .cloneStreamRef _ | .dropStreamRef _ | .refSendResponse .. | .refSendInformationalHeaders .. | .refSendPushPromise ..
  | .refSendData .. | .refSendTrailers .. | .refReserveCapacity .. | .pollCapacity .. | .refSendReset .. | .pollReset ..
  | .recvPollResponse .. | .recvPollInformational .. | .refPollData .. | .recvPollTrailers .. | .refReleaseCapacity ..
  | .refClearRecvBuffer _ => true
  | _ => false

/-- a handle call does not touch what the connection layer's invariant reads of the stream layer (ConnCtlP) -/
theorem view_handle (s : Streams) (op : Op) (h : isHandleOp op = true) : view (op.apply s) = view s := by
  cases op <;> first | (cases h; done) | (simp only [Op.apply]; simp)

theorem handle_noWriter {op : Op} (h : isHandleOp op = true) : usesWriter op = false ∧ ∀ m, op ≠ .panic m := by
  cases op <;> first | (cases h; done) | exact ⟨rfl, fun m e => by cases e⟩

-- ===================================================================== the initial stream layers

theorem flowInit0_eq : flowInit0 = ⟨⟨65535⟩, ⟨65535⟩⟩ := by decide

theorem clientStreams0_init2 (g : Conn.Cfg) (hf : g.firstId % 2 = 1) : Init2 (clientStreams0 g) := by
  refine ⟨⟨rfl, rfl, rfl, rfl, rfl, rfl, rfl, rfl, rfl, rfl, ?_⟩, rfl, fun q => by cases q <;> rfl,
    ⟨rfl, rfl, flowInit0_eq, rfl, rfl⟩, ⟨rfl, ?_⟩⟩
  · intro x hx
    have : x = g.firstId := by cases hx; rfl
    subst this
    show (false == (g.firstId % 2 == 0)) = true
    rw [hf]; rfl
  · show flowInit0 = ConnFlowP.flowInit
    rfl

theorem clientStreams0_nopush (g : Conn.Cfg) (hp : g.push = some 0) : NoPush (clientStreams0 g) := by
  refine .inr ?_
  show (match g.push with | some v => v != 0 | none => true) = false
  rw [hp]; rfl

theorem serverStreams0_init2 (g : Conn.Cfg) (ecp : Bool) : Init2 (serverStreams0 g ecp) := by
  refine ⟨⟨rfl, rfl, rfl, rfl, rfl, rfl, rfl, rfl, rfl, rfl, ?_⟩, rfl, fun q => by cases q <;> rfl,
    ⟨rfl, rfl, flowInit0_eq, rfl, rfl⟩, ⟨rfl, ?_⟩⟩
  · intro x hx; cases hx; rfl
  · show flowInit0 = ConnFlowP.flowInit
    rfl

-- ===================================================================== reachable connections

open H2V.Lemmas.ConnRecvP (COp) in
/-- **reachable connections** (without server push, SETTINGS_INITIAL_WINDOW_SIZE left at its default): a new client
    (`Conn.init`, ENABLE_PUSH = 0) or server (`Conn.initServer`) connection; every non-handle operation of ConnRecvP's `COp`
    (`poll`, the client's `poll`, `set_target_window_size`, graceful / abrupt shutdown, the PING handle …) except
    `set_initial_window_size`; every handle call of the application on the stream layer (`isHandleOp`; preconditions
    `opPre5`, handle discipline `H`, response futures `T`; `A`: a restriction on the calls, e.g. `NoPushReq`); the
    environment (octets arriving on / taken by the transport, the waker of the polling task). -/
inductive CReach (A : Op → Prop) : Conn → List Nat → List Nat → Prop
  | client (g : Conn.Cfg) : CfgOK g → CwsOK g → g.iws = none → g.push = some 0 → g.firstId % 2 = 1 → CReach A (Conn.init g) [] []
  | server (g : Conn.Cfg) (ecp : Bool) (pf : Bytes) : CfgOK g → CwsOK g → g.iws = none → CReach A (Conn.initServer g ecp pf) [] []
  | cop {c : Conn} {H T : List Nat} (op : COp) : CReach A c H T → (∀ o, op ≠ .handle o) → (∀ n, op ≠ .setInitialWindowSize n) →
      (∀ size, op = .setTargetWindowSize size → size ≤ 2147483647) → CReach A (op.apply c) H T
  | handle {c : Conn} {H T : List Nat} (op : Op) : CReach A c H T → isHandleOp op = true → A op → opPre5 c.streams T op →
      (∀ k, opKey3 op = some k → k ∈ H) →
      CReach A { c with streams := op.apply c.streams } (opHandles3 c.streams H op) (opResp c.streams H T op)
  | env {c : Conn} {H T : List Nat} (io : Tio) (cx : String) : CReach A c H T →
      CReach A { c with codec := { c.codec with io := io }, cx := cx } H T
  /-- the application drops the `Connection` (`Drop for Connection`: `streams.recv_eof(true)`); the handles live on -/
  | dropConn {c : Conn} {H T : List Nat} : CReach A c H T → A (.recvEof true) →
      CReach A { c with streams := c.streams.recvEof true } H T
  /-- the transport wakes tasks (the model keeps a log of wake-ups in `streams.wakes`) -/
  | wake {c : Conn} {H T : List Nat} (tags : List String) : CReach A c H T → A (.wake tags) →
      CReach A { c with streams := c.streams.wake tags } H T

/-- the connection invariant, and the stream layer + writer are in a `WReach` state -/
theorem creach_wreach {A : Op → Prop} (hA : ∀ s o, ConnP' s o → A o) {c : Conn} {H T : List Nat} (h : CReach A c H T) :
    ConnOK c ∧ IwsInv c ∧ WReach A RT c.streams c.codec.w H T := by
  induction h with
  | client g hg hc hi hp hf =>
    have hok := init_ok' g hg hi
    exact ⟨hok.1, hok.2, WReach.ofHistW hA (.init (clientStreams0_init2 g hf) (clientStreams0_nopush g hp) rfl rfl)
      (init_hist' g hc).toX'⟩
  | server g ecp pf hg hc hi =>
    have hok := initServer_ok' g ecp pf hg hi
    exact ⟨hok.1, hok.2, WReach.ofHistW hA (.init (serverStreams0_init2 g ecp) (.inl rfl) rfl rfl)
      (initServer_hist' g ecp pf hc).toX'⟩
  | cop op _ hop hs hv ih =>
    have st := cop_step' ih.1 ih.2.1 op hop hs hv
    exact ⟨st.ok, st.iws, WReach.ofHistW hA ih.2.2 st.hist⟩
  | @handle c H T op _ hh hAop hpre hin ih =>
    have hv := view_handle c.streams op hh
    refine ⟨ConnOK.handle ih.1 (op.apply c.streams) c.codec c.cx (by rw [hv]) (by rw [hv]) (by rw [hv]; exact fun h => h) rfl,
      IwsInv.congr ih.2.1 rfl, ?_⟩
    exact .op op ih.2.2 (handle_noWriter hh).1 (handle_noWriter hh).2 hpre hin hAop
  | @env c H T io cx _ ih =>
    exact ⟨ConnOK.handle ih.1 c.streams { c.codec with io := io } cx rfl rfl (fun h => h) rfl, IwsInv.congr ih.2.1 rfl, ih.2.2⟩
  | @dropConn c H T _ hAop ih =>
    have hv := ConnCtlP.view_recvEof c.streams true
    refine ⟨ConnOK.handle ih.1 (c.streams.recvEof true) c.codec c.cx (by rw [hv]) (by rw [hv]) (by rw [hv]; intro _; rfl) rfl,
      IwsInv.congr ih.2.1 rfl, ?_⟩
    exact WReach.op (.recvEof true) ih.2.2 rfl (by intro m e; cases e) ⟨fun _ => trivial, trivial, trivial, trivial⟩
      (by intro k hk; cases hk) hAop
  | @wake c H T tags _ hAop ih =>
    refine ⟨ConnOK.handle ih.1 (c.streams.wake tags) c.codec c.cx rfl rfl (fun h => h) rfl, IwsInv.congr ih.2.1 rfl, ?_⟩
    exact WReach.op (.wake tags) ih.2.2 rfl (by intro m e; cases e) ⟨fun _ => trivial, trivial, trivial, trivial⟩
      (by intro k hk; cases hk) hAop

theorem connP'_allOps (s : Streams) (o : Op) (_ : ConnP' s o) : AllOps o := trivial

/-- the connection layer never calls `push_request` -/
theorem connP'_noPushReq (s : Streams) (o : Op) (h : ConnP' s o) : NoPushReq o := by
  intro p v f e; subst e; exact h

/-- generic form -/
theorem creach_good {A : Op → Prop} {Q : Streams → Prop} (P : Plug A RT Q) (hA : ∀ s o, ConnP' s o → A o) {c : Conn} {H T : List Nat}
    (h : CReach A c H T) (he : ErrOK c.streams) :
    (c.streams.panicked = none ∧ ConnOK c ∧ GoodW Q c.streams c.codec.w H T) ∨
    ∃ m, c.streams.panicked = some m ∧ FuelAll m := by
  have hw := creach_wreach hA h
  rcases wreach_good P hw.2.2 he with ⟨hn, g⟩ | hf
  · exact .inl ⟨hn, hw.1, g⟩
  · exact .inr hf

/-- **No endpoint panic in any reachable connection** whose application does not call `push_request`: in every reachable
    state either nothing has panicked — neither one of the connection layer's own asserts nor a site of the stream layer —
    and the invariants hold, or the recorded message is one of the model's out-of-fuel markers.  NO open lemma, NO residual
    state hypothesis. -/
theorem creach_good_final {c : Conn} {H T : List Nat} (h : CReach NoPushReq c H T) (he : ErrOK c.streams) :
    (c.streams.panicked = none ∧ ConnOK c ∧ GoodW (fun s => OXs s ∧ NoPPQ s) c.streams c.codec.w H T) ∨
    ∃ m, c.streams.panicked = some m ∧ FuelAll m := creach_good plugFinal connP'_noPushReq h he

/-- with `push_request`: conditional on the ONE open lemma `PcOX` ("`poll_complete` keeps `OXs`") -/
theorem creach_good_pc (hpc : PcOX) {c : Conn} {H T : List Nat} (h : CReach AllOps c H T) (he : ErrOK c.streams) :
    (c.streams.panicked = none ∧ ConnOK c ∧ GoodW OXs c.streams c.codec.w H T) ∨
    ∃ m, c.streams.panicked = some m ∧ FuelAll m := creach_good (plug_of_pc hpc) connP'_allOps h he

-- ===================================================================== witness

/-- witness: a new client connection (ENABLE_PUSH = 0), polled, a request sent through the `SendRequest` handle, polled again -/
def wCfg : Conn.Cfg := { push := some 0 }
def wC1 : Conn := (ConnRecvP.COp.clientPoll 40).apply (Conn.init wCfg)
def wC2 : Conn := { wC1 with streams := (Op.sendRequest false [] true none).apply wC1.streams }
def wC3 : Conn := (ConnRecvP.COp.clientPoll 40).apply wC2

theorem wC3_creach : ∃ H T, CReach NoPushReq wC3 H T := by
  have r0 : CReach NoPushReq (Conn.init wCfg) [] [] :=
    .client wCfg (by intro m h; cases h) (by intro m h; cases h) rfl rfl rfl
  have r1 := CReach.cop (.clientPoll 40) r0 (by intro o e; cases e) (by intro n e; cases e) (by intro n e; cases e)
  have r2 := CReach.handle (.sendRequest false [] true none) r1 rfl (by intro p v f e; cases e) ⟨fun _ => trivial, trivial, trivial, trivial⟩
    (by intro k h; cases h)
  exact ⟨_, _, CReach.cop (.clientPoll 40) r2 (by intro o e; cases e) (by intro n e; cases e) (by intro n e; cases e)⟩

set_option maxRecDepth 40000 in
theorem wC3_facts : ErrOK wC3.streams ∧ wC3.streams.panicked = none ∧ wC3.streams.store.slab.length = 1 :=
  ⟨by unfold ErrOK; decide +kernel, by decide +kernel, by decide +kernel⟩

end H2V.Lemmas.ConnNoPanicP
