import H2V.Lemmas.ConnRecvPClear
/-
  C03 — part 7: `Recv::recv_data` preserves the invariant.  When it answers a stream error
  (`Error::Reset`), the octets of the frame have been taken from the connection window and are not
  accounted for by any stream: slack, which the caller (`Inner::recv_data`) gives back with
  `release_connection_capacity`.
-/
namespace H2V.Lemmas.ConnRecvP
open H2V H2V.Model H2V.Model.Conn
open H2V.Model.Conn.Streams
open H2V.Lemmas.Comp
attribute [local irreducible] wrapSubU32 wrapSubUsize

/-- the result is not a stream error -/
def NotReset (r : Except PErr Unit) : Prop := ∀ sid reason init, r ≠ .error (.reset sid reason init)

theorem notReset_ok : NotReset (.ok ()) := fun _ _ _ h => nomatch h
theorem notReset_goAway (r : Reason) : NotReset (.error (PErr.libraryGoAway r)) := fun _ _ _ h => nomatch h

theorem decContentLength_same (x x1 : Stream) (n : Nat) (h : x.decContentLength n = some x1) : SameR x x1 := by
  unfold Stream.decContentLength at h
  split at h
  · split at h
    · cases h; exact ⟨rfl, rfl, rfl, fun h => h, fun h => h⟩
    · cases h
  · split at h
    · cases h
    · cases h; exact SameR.refl _
  · cases h; exact SameR.refl _

/-- the tail of `recv_data` once the stream has been charged: release the padding, queue the event -/
theorem recvData_tail_inv {full : Bool} {g : Ghost} {s : Streams} (h : Inv full g s) (id padding : Nat)
    (payload : Bytes) (eos : Bool) :
    Inv full g
      (let s := if padding > 0 then (s.releaseCapacity id padding false).1 else s
       if payload.isEmpty && !eos then (s, (Except.ok () : Except PErr Unit))
       else
         let s := s.modStream id fun st => { st with pendingRecv := st.pendingRecv ++ [.data payload (!eos)] }
         ((s.modStreamW id Stream.notifyRecv).notifyPushIfRecvEnded id, .ok ())).1 := by
  inv_auto

/-- what `recv_data` guarantees about the pair it returns: the invariant, with `sz` octets of slack
    when the answer is a stream error -/
def DataPost (full : Bool) (g : Ghost) (sz : Nat) (p : Streams × Except PErr Unit) : Prop :=
  (NotReset p.2 → Inv full g p.1) ∧ (¬ NotReset p.2 → InvD full g sz p.1)

theorem DataPost.of_slack {full : Bool} {g : Ghost} {sz : Nat} {s : Streams} (h : InvD full g sz s)
    (r : Except PErr Unit) : DataPost full g sz (s, r) :=
  ⟨fun _ => h.weaken (by omega), fun _ => h⟩

theorem DataPost.of_inv {full : Bool} {g : Ghost} {sz : Nat} {s : Streams} (h : Inv full g s)
    {r : Except PErr Unit} (hr : NotReset r) : DataPost full g sz (s, r) :=
  ⟨fun _ => h, fun hn => absurd hr hn⟩

theorem recvRecvData_post {full : Bool} {g : Ghost} {s : Streams} (h : Inv full g s) (id : Nat) (payload : Bytes)
    (eos : Bool) (padLen : Option Nat) :
    DataPost full g (usizeAsU32 (payload.length + (match padLen with | some p => p + 1 | none => 0)))
      (s.recvRecvData id payload eos padLen) := by
  unfold Streams.recvRecvData
  generalize (payload.length + (match padLen with | some p => p + 1 | none => 0)) = flowLen
  zeta_let
  abs_let s0 h0 : Inv full g s0
  · inv_auto
  zeta_let
  generalize usizeAsU32 flowLen = sz
  zeta_let
  zeta_let
  split
  · exact DataPost.of_inv h0 (notReset_goAway _)
  split
  · -- the stream was reset locally: the frame is ignored
    refine ⟨fun _ => ignoreData_inv h0 sz, fun hn => ?_⟩
    exfalso; apply hn
    intro sid r i he
    obtain ⟨r', hr'⟩ := ignoreData_err_goaway _ _ _ he
    cases hr'
  -- the connection window
  obtain ⟨-, herr, hok⟩ := consume_inv h0 sz
  cases hc : s0.consumeConnectionWindow sz with
  | mk s1 r =>
  rw [hc] at herr hok
  dsimp only at herr hok ⊢
  cases r with
  | error e =>
    obtain ⟨r', rfl⟩ := consume_err_goaway s0 sz e (by rw [hc])
    exact DataPost.of_inv (herr _ rfl) (notReset_goAway _)
  | ok u =>
  obtain ⟨h1', hszM⟩ := hok rfl
  have h1 : InvD full g sz s1 := by
    have : (0 : Int) + sz = sz := by omega
    rw [this] at h1'; exact h1'
  dsimp only
  split
  · exact DataPost.of_slack h1 _
  split
  · exact DataPost.of_slack h1 _
  next st1 heq =>
  have h2 : InvD full g sz (s1.setStream st1) :=
    h1.of_ext (setStream_stream_ext s1 id st1 (decContentLength_same _ _ _ heq))
  generalize s1.setStream st1 = s2 at h2 ⊢
  split
  · next s3 e heq2 =>
    have her : InvD full g sz s3 := by
      split at heq2
      · split at heq2
        · first | (cases heq2; exact h2) | cases heq2
        · split at heq2
          · first | (cases heq2; exact h2) | cases heq2
          · next st' _ hrc =>
            first
            | (cases heq2; exact h2.of_ext (modStream_ext _ _ _ fun x hx => recvClose_state_same hrc x hx))
            | cases heq2
      · first | (cases heq2; exact h2) | cases heq2
    exact DataPost.of_slack her _
  next s3 heq2 =>
  have her : InvD full g sz s3 := by
    split at heq2
    · split at heq2
      · first | (cases heq2; exact h2) | cases heq2
      · split at heq2
        · first | (cases heq2; exact h2) | cases heq2
        · next st' _ hrc =>
          first
          | (cases heq2; exact h2.of_ext (modStream_ext _ _ _ fun x hx => recvClose_state_same hrc x hx))
          | cases heq2
    · first | (cases heq2; exact h2) | cases heq2
  have hsum3 := her.sum
  have hcI3 : sz ≤ cI s3 := by have := sumInfl s3.store.slab; omega
  split
  · -- no `RecvStream` any more: the octets go straight back to the connection window
    have h4 := (releaseConnectionCapacity_inv her sz false hcI3).1
    have : (sz : Int) - sz = 0 := by omega
    rw [this] at h4
    exact DataPost.of_inv (h4.of_ext (notifyPushIfRecvEnded_ext _ id)) notReset_ok
  -- charge the stream
  cases hsd : (s3.stream id).recvFlow.sendData sz with
  | mk fl r =>
  cases r with
  | error e =>
    cases e with
    | assertFailed => exact DataPost.of_inv ((her.weaken (by omega)).of_ext (panic_ext _ _)) notReset_ok
    | reason rr =>
      dsimp only
      refine DataPost.of_inv ?_ (notReset_goAway _)
      refine (her.weaken (d' := 0) (by omega)).modStream id _ (fun _ => Int.le_refl _) (fun _ => rfl)
        (fun _ _ => Int.le_refl _) ?_
      intro hf x hx ok
      rw [stream_eq_of_get? hx] at hsd
      have he := sendData_err hsd
      have hwa := ok.wa
      have hA := (inI32_iff _).1 ok.aI32
      rcases he.2 with rfl | hpart
      · exact ok
      · exfalso
        have hu : u32AsI32 sz = (sz : Int) := u32AsI32_of_lt (by omega)
        have h5 := hpart.2.2.2.2
        rw [hu] at hpart h5
        have : inI32 (x.recvFlow.available.val - (sz : Int)) = true := by
          apply inI32_of_range <;> omega
        rw [this] at h5; cases h5
  | ok u' =>
    dsimp only
    have h4 : Inv full g (s3.modStream id fun st =>
        { st with recvFlow := fl, inFlightRecvData := wrapAddU32 st.inFlightRecvData sz }) := by
      refine her.modStream id _ (fun _ => by omega) (fun _ => rfl) ?_ ?_
      · intro x hx
        have hb := le_sumInfl_of_mem (get?_mem hx).1
        have hI := (her.infl_le (by omega) (get?_mem hx).1).2
        have : wrapAddU32 x.inFlightRecvData sz = x.inFlightRecvData + sz := by
          apply wrapAddU32_of_lt; omega
        show ((wrapAddU32 x.inFlightRecvData sz : Nat) : Int) + 0 ≤ _
        rw [this]; omega
      · intro hf x hx ok
        rw [stream_eq_of_get? hx] at hsd
        have hb := le_sumInfl_of_mem (get?_mem hx).1
        have hI := (her.infl_le (by omega) (get?_mem hx).1).2
        exact ok.charge sz fl hsd hszM (by omega)
    generalize (s3.modStream id fun st =>
        { st with recvFlow := fl, inFlightRecvData := wrapAddU32 st.inFlightRecvData sz }) = s4 at h4 ⊢
    refine ⟨fun _ => recvData_tail_inv h4 id _ payload eos, fun hn => ?_⟩
    exfalso; apply hn
    split <;> exact notReset_ok

end H2V.Lemmas.ConnRecvP
