import H2V.Lemmas.ConnHttpPMain
import H2V.Lemmas.ConnHttpPSend
import H2V.Lemmas.ConnHttpPCl
import H2V.Lemmas.ConnHttpPData
import H2V.Lemmas.ConnHttpPWire
import H2V.Model.ConnDriver
/-
  C13 (ConnHttpP), part 13 — witnesses: concrete wire bytes through `decode_frame` and the stream layer of
  a freshly handshaken connection.  Every `…_counterexample` is a malformed message (per
  `H2V.Spec.Http`) that the model — and the real code, see ConnHttpPNOTES.md — hands to the application.
-/
namespace H2V.Lemmas.ConnHttpP
open H2V H2V.Model H2V.Model.Frame H2V.Model.Hpack H2V.Model.Conn H2V.Model.CodecRead

/-- a server connection right after the handshake -/
def srv0 : Streams := (Conn.initServer {} false []).streams
/-- a client connection right after the handshake -/
def cli0 : Streams := (Conn.init {}).streams

/-- the head a HEADERS frame is delivered with (`None`: not delivered by `decode_frame`) -/
def hdrOf (r : Reader) (bytes : Bytes) : Option HeadersIn :=
  match (decodeFrame r bytes).2 with
  | .frame (.headers sid eos _ blk) => some (Conn.headersIn sid eos blk)
  | _ => none

/-- the field list HPACK decodes from the block of a single HEADERS frame -/
def fieldsOf (r : Reader) (bytes : Bytes) : List Header := ghostNext [] r bytes

/-- the receive queues after `Inner::recv_headers` -/
def queuesAfter (s : Streams) (r : Reader) (bytes : Bytes) : Option (List (List REvent)) :=
  (hdrOf r bytes).map fun h => (s.recvHeaders h).1.store.slab.map (·.pendingRecv)

def rd0 : Reader := Reader.new 16384

/-- per stream after `Inner::recv_headers`: (reset?, receive queue, send queue) — in three lists -/
def resetsAfter (s : Streams) (r : Reader) (bytes : Bytes) : Option (List Bool) :=
  (hdrOf r bytes).map fun h => (s.recvHeaders h).1.store.slab.map (·.state.isReset)
def sendQueuesAfter (s : Streams) (r : Reader) (bytes : Bytes) : Option (List (List SFrame)) :=
  (hdrOf r bytes).map fun h => (s.recvHeaders h).1.store.slab.map (·.pendingSend)

/-- a valid request: `82 86 84 41 01 61` = GET http://a/ -/
def getFrame : Bytes := [0, 0, 6, 1, 5, 0, 0, 0, 1, 0x82, 0x86, 0x84, 0x41, 1, 97]

theorem valid_request_delivered :
    queuesAfter srv0 rd0 getFrame = some [[.request [71, 69, 84] [104, 116, 116, 112, 58, 47, 47, 97, 47] []]] ∧
    Spec.Http.request (fieldsOf rd0 getFrame) false = [] := by decide +kernel

/-- N2 (repaired): HEADERS[`02 07 "CONNECT"`] — CONNECT without `:authority` -/
def connectOnly : Bytes := [0, 0, 9, 1, 5, 0, 0, 0, 1, 0x02, 7, 67, 79, 78, 78, 69, 67, 84]

/-- formerly delivered (`ok:0:1:CONNECT:-:-`); now nothing is queued, the stream is reset and
    RST_STREAM(PROTOCOL_ERROR) is queued -/
theorem connect_without_authority_rejected :
    Spec.Http.request (fieldsOf rd0 connectOnly) false = ["connect-without-authority"] ∧
    queuesAfter srv0 rd0 connectOnly = some [[]] ∧ resetsAfter srv0 rd0 connectOnly = some [true] ∧
    sendQueuesAfter srv0 rd0 connectOnly = some [[.reset Conn.PROTOCOL_ERROR]] := by decide +kernel

/-- N3 (repaired): HEADERS[`82 86`] — GET with `:scheme` only (no `:path`, no `:authority`) -/
def getSchemeOnly : Bytes := [0, 0, 2, 1, 5, 0, 0, 0, 1, 0x82, 0x86]

theorem get_without_path_rejected :
    Spec.Http.request (fieldsOf rd0 getSchemeOnly) false = ["missing-path"] ∧
    queuesAfter srv0 rd0 getSchemeOnly = some [[]] ∧ resetsAfter srv0 rd0 getSchemeOnly = some [true] ∧
    sendQueuesAfter srv0 rd0 getSchemeOnly = some [[.reset Conn.PROTOCOL_ERROR]] := by decide +kernel

/-! ### client side (known findings F5a, F5b, F5c) -/

/-- the client after `send_request(GET http://example.com/, end_of_stream)` and one `poll` of the
    connection (the HEADERS frame of stream 1 is on the wire) -/
def cli1 : Streams :=
  (({ (Conn.init {}) with streams :=
      (cli0.sendRequest false [Conn.field ":method" "GET", Conn.field ":scheme" "http",
        Conn.field ":authority" "example.com", Conn.field ":path" "/"] true none).1 } : Conn).clientPoll 100).1.streams

/-- a valid response: HEADERS[`88`] = `:status: 200` -/
def okResp : Bytes := [0, 0, 1, 1, 4, 0, 0, 0, 1, 0x88]

theorem valid_response_delivered :
    queuesAfter cli1 rd0 okResp = some [[.headers [50, 48, 48] []]] ∧
    Spec.Http.response (fieldsOf rd0 okResp) = [] := by decide +kernel

/-- F5b: HEADERS[`00 03 "x-a" 01 "1"`] — a response without `:status` is delivered, as status 200 -/
def noStatusResp : Bytes := [0, 0, 7, 1, 4, 0, 0, 0, 1, 0, 3, 120, 45, 97, 1, 49]

theorem response_without_status_counterexample :
    queuesAfter cli1 rd0 noStatusResp = some [[.headers [50, 48, 48] [([120, 45, 97], [[49]])]]] ∧
    Spec.Http.response (fieldsOf rd0 noStatusResp) = ["missing-status"] := by decide +kernel

/-- F5a: HEADERS[`88 84`] — a response carrying `:path` is delivered -/
def pathResp : Bytes := [0, 0, 2, 1, 4, 0, 0, 0, 1, 0x88, 0x84]

theorem response_with_request_pseudo_counterexample :
    queuesAfter cli1 rd0 pathResp = some [[.headers [50, 48, 48] []]] ∧
    Spec.Http.response (fieldsOf rd0 pathResp) = ["request-pseudo-in-response"] := by decide +kernel

/-- F5c: after the response head, HEADERS(END_STREAM)[`88`] — trailers carrying `:status` are delivered -/
def statusTrailers : Bytes := [0, 0, 1, 1, 5, 0, 0, 0, 1, 0x88]

theorem trailers_with_pseudo_counterexample :
    ((hdrOf rd0 okResp).bind fun h => queuesAfter (cli1.recvHeaders h).1 (decodeFrame rd0 okResp).1 statusTrailers)
      = some [[.headers [50, 48, 48] [], .trailers []]] ∧
    Spec.Http.trailers (fieldsOf (decodeFrame rd0 okResp).1 statusTrailers) = ["pseudo-in-trailers"] := by
  decide +kernel


/-! ### N1 (repaired): the `malformed` flag survives a fragment boundary -/

/-- HEADERS(END_STREAM, no END_HEADERS)[GET http://a/, `connection: close`, `00 01`] — the fragment ends
    inside the next field — followed by CONTINUATION(END_HEADERS)[`78 01 79`] (`x: y`) -/
def splitMalformed1 : Bytes :=
  [0, 0, 26, 1, 1, 0, 0, 0, 1, 0x82, 0x86, 0x84, 0x41, 1, 97,
   0, 10, 99, 111, 110, 110, 101, 99, 116, 105, 111, 110, 5, 99, 108, 111, 115, 101, 0, 1]
def splitMalformed2 : Bytes := [0, 0, 3, 9, 4, 0, 0, 0, 1, 120, 1, 121]

def dfErr : DF → Option RErr
  | .err e => some e
  | _ => none

/-- before the repair of N1 this block was delivered (without the `connection` field); now the final
    `load` answers `MalformedMessage`: stream error PROTOCOL_ERROR -/
theorem split_malformed_block_rejected :
    dfErr (decodeFrame (decodeFrame rd0 splitMalformed1).1 splitMalformed2).2 = some (.reset 1 CodecRead.PROTOCOL_ERROR) ∧
    Spec.Http.common (ghostNext (ghostNext [] rd0 splitMalformed1) (decodeFrame rd0 splitMalformed1).1 splitMalformed2)
      = ["connection-specific-field"] := by decide +kernel

/-! ### N6 (repaired): trailers larger than SETTINGS_MAX_HEADER_LIST_SIZE were delivered truncated -/

def rd200 : Reader := rd0.setMaxHeaderListSize 200

/-- POST http://a/ (no END_STREAM) -/
def postFrame : Bytes := [0, 0, 6, 1, 4, 0, 0, 0, 1, 0x83, 0x86, 0x84, 0x41, 1, 97]

/-- trailers `x-a: a…a` (20) and `x-b: b…b` (120): 55 + 155 octets against a limit of 200 -/
def bigTrailers : Bytes :=
  [0, 0, 151, 1, 5, 0, 0, 0, 1] ++ [0, 3, 120, 45, 97, 20] ++ List.replicate 20 97 ++
    [0, 3, 120, 45, 98, 120] ++ List.replicate 120 98

/-- before the repair of N6 these trailers were handed over without `x-b`; now the block is flagged
    over-size, no `trailers` event is queued (the queue still holds just the request), and the stream is
    reset with PROTOCOL_ERROR -/
theorem oversize_trailers_rejected :
    ((hdrOf rd200 postFrame).bind fun h =>
      (hdrOf (decodeFrame rd200 postFrame).1 bigTrailers).map fun t =>
        (t.isOverSize, ((srv0.recvHeaders h).1.recvHeaders t).1.store.slab.map fun st =>
          (st.state.isReset, st.pendingRecv.length))) = some (true, [(true, 1)]) ∧
    ((hdrOf rd200 postFrame).bind fun h =>
      (hdrOf (decodeFrame rd200 postFrame).1 bigTrailers).map fun t =>
        ((srv0.recvHeaders h).1.recvHeaders t).1.store.slab.map fun st => st.pendingSend) =
      some [[.reset Conn.PROTOCOL_ERROR]] ∧
    (ghostNext [] (decodeFrame rd200 postFrame).1 bigTrailers).map (·.1) = [[120, 45, 97], [120, 45, 98]] := by
  decide +kernel

/-! ### content-length (N4, repaired) -/

/-- POST http://a/ with `content-length: 5` and `content-length: 7`, no END_STREAM -/
def twoClFrame : Bytes :=
  [0, 0, 42, 1, 4, 0, 0, 0, 1, 0x83, 0x86, 0x84, 0x41, 1, 97,
   0, 14, 99, 111, 110, 116, 101, 110, 116, 45, 108, 101, 110, 103, 116, 104, 1, 53,
   0, 14, 99, 111, 110, 116, 101, 110, 116, 45, 108, 101, 110, 103, 116, 104, 1, 55]

/-- N4a (repaired): two different content-length values — formerly the first one counted; now the head is
    refused: nothing queued, stream reset -/
theorem two_content_lengths_rejected :
    Spec.Http.contentLength (fieldsOf rd0 twoClFrame) = some none ∧
    queuesAfter srv0 rd0 twoClFrame = some [[]] ∧ resetsAfter srv0 rd0 twoClFrame = some [true] ∧
    sendQueuesAfter srv0 rd0 twoClFrame = some [[.reset Conn.PROTOCOL_ERROR]] := by decide +kernel

/-- the same with `content-length: 5` twice -/
def sameClFrame : Bytes :=
  [0, 0, 42, 1, 4, 0, 0, 0, 1, 0x83, 0x86, 0x84, 0x41, 1, 97,
   0, 14, 99, 111, 110, 116, 101, 110, 116, 45, 108, 101, 110, 103, 116, 104, 1, 53,
   0, 14, 99, 111, 110, 116, 101, 110, 116, 45, 108, 101, 110, 103, 116, 104, 1, 53]

/-- a repeated content-length with EQUAL values: the reference (RFC 9110 §8.6) reads 5, the code accepts
    the head and the ledger starts at 5 — reference and code agree -/
theorem repeated_equal_content_length_agrees :
    Spec.Http.contentLength (fieldsOf rd0 sameClFrame) = some (some 5) ∧
    ((hdrOf rd0 sameClFrame).map fun h => clOf (srv0.recvHeaders h).1 0) = some (some (.remaining 5)) ∧
    ((queuesAfter srv0 rd0 sameClFrame).map fun q => q.map (·.length)) = some [1] := by decide +kernel

/-- POST http://a/ with an EMPTY `content-length` value, END_STREAM -/
def emptyClFrame : Bytes :=
  [0, 0, 23, 1, 5, 0, 0, 0, 1, 0x83, 0x86, 0x84, 0x41, 1, 97,
   0, 14, 99, 111, 110, 116, 101, 110, 116, 45, 108, 101, 110, 103, 116, 104, 0]

/-- N4b (repaired): an empty content-length value no longer parses (`parse_u64("")` is an error): refused -/
theorem empty_content_length_rejected :
    Spec.Http.contentLength (fieldsOf rd0 emptyClFrame) = some none ∧ parseU64 [] = none ∧
    queuesAfter srv0 rd0 emptyClFrame = some [[]] ∧ resetsAfter srv0 rd0 emptyClFrame = some [true] := by
  decide +kernel

/-- POST http://a/ with `content-length: 5`, no END_STREAM -/
def oneClFrame : Bytes :=
  [0, 0, 24, 1, 4, 0, 0, 0, 1, 0x83, 0x86, 0x84, 0x41, 1, 97,
   0, 14, 99, 111, 110, 116, 101, 110, 116, 45, 108, 101, 110, 103, 116, 104, 1, 53]

/-! ### send side (N5, F8) -/

/-- N5 (repaired): `te: trailers` followed by `te: gzip` — formerly accepted (only the first value was
    looked at); now `check_headers` refuses it -/
theorem send_second_te_rejected :
    (Streams.checkHeaders [Conn.field "te" "trailers", Conn.field "te" "gzip"]).toOption = none ∧
    (Streams.checkHeaders [Conn.field "te" "trailers", Conn.field "te" "trailers"]).toOption = some () ∧
    Spec.Http.common (wireFields [Conn.field "te" "trailers", Conn.field "te" "gzip"]) = ["te-not-trailers"] := by
  decide +kernel

/-- F8: the send side keeps no content-length ledger: a request announcing `content-length: 5` may
    send 10 octets of DATA with END_STREAM (and, equally, end after 0) -/
theorem send_body_beyond_content_length_counterexample :
    let r := cli0.sendRequest false [Conn.field ":method" "POST", Conn.field ":scheme" "http",
      Conn.field ":authority" "example.com", Conn.field ":path" "/", Conn.field "content-length" "5"] false none
    r.2.toOption = some (0, false) ∧ (r.1.refSendData 0 10 true).2.toOption = some () ∧
      (r.1.refSendData 0 0 true).2.toOption = some () := by
  decide +kernel


/-! ### refused messages fail the stream (witnesses for the hypotheses of `refused_…_fails`) -/

def errOf {α : Type} : Except PErr α → Option PErr
  | .error e => some e
  | .ok _ => none

def stateErrOf : RecvHeadersRes → Option PErr
  | .state e => some e
  | _ => none

/-- a request head carrying `:status` (`82 86 84 41 01 61 88`) -/
def statusReqFrame : Bytes := [0, 0, 7, 1, 5, 0, 0, 0, 1, 0x82, 0x86, 0x84, 0x41, 1, 97, 0x88]

/-- `Recv::recv_headers` refuses it with a stream error; after `Inner::recv_headers` the stream is reset
    (state `Closed(Error(Reset(Conn.PROTOCOL_ERROR, Library)))`), RST_STREAM is queued, nothing is handed over -/
theorem status_in_request_refused :
    ((hdrOf rd0 statusReqFrame).map fun h => stateErrOf ((rhEntry srv0 h).1.recvRecvHeaders 0 h).2) =
      some (some (.reset 1 Conn.PROTOCOL_ERROR .library)) ∧
    ((hdrOf rd0 statusReqFrame).map fun h => ((rhEntry srv0 h).1.stream 0).state.isRecvHeaders) = some true ∧
    ((hdrOf rd0 statusReqFrame).map fun h => (srv0.recvHeaders h).1.store.slab.map fun st => st.state.isReset) = some [true] ∧
    ((hdrOf rd0 statusReqFrame).map fun h => (srv0.recvHeaders h).1.store.slab.map fun st => st.pendingRecv) = some [[]] ∧
    ((hdrOf rd0 statusReqFrame).map fun h => (srv0.recvHeaders h).1.store.slab.map fun st => st.pendingSend) =
      some [[.reset Conn.PROTOCOL_ERROR]] ∧
    Spec.Http.request (fieldsOf rd0 statusReqFrame) false = ["status-in-request"] := by decide +kernel

/-- with `content-length: 5` announced, a 6-octet DATA frame is refused with a stream error, and so is
    END_STREAM after 4 octets -/
theorem data_against_content_length_witness :
    ((hdrOf rd0 oneClFrame).map fun h =>
      errOf ((srv0.recvHeaders h).1.recvRecvData 0 [1, 2, 3, 4, 5, 6] false none).2) =
        some (some (.reset 1 Conn.PROTOCOL_ERROR .library)) ∧
    ((hdrOf rd0 oneClFrame).map fun h =>
      errOf ((srv0.recvHeaders h).1.recvRecvData 0 [1, 2, 3, 4] true none).2) =
        some (some (.reset 1 Conn.PROTOCOL_ERROR .library)) ∧
    ((hdrOf rd0 oneClFrame).map fun h => ((srv0.recvHeaders h).1.stream 0).state.isLocalError) = some false ∧
    ((hdrOf rd0 oneClFrame).map fun h =>
      ((srv0.recvHeaders h).1.recvRecvData 0 [104, 101, 108, 108, 111] true none).2.toOption) = some (some ()) := by
  decide +kernel


def pollErr : Streams.PollData → Option PErr
  | .err e => some e
  | _ => none

/-- … and the application's `poll_data` on that stream answers the reset error -/
theorem refused_head_poll_witness :
    ((hdrOf rd0 statusReqFrame).map fun h => pollErr ((srv0.recvHeaders h).1.recvPollData 0 "b0").2) =
      some (some (.reset 1 Conn.PROTOCOL_ERROR .library)) := by decide +kernel

/-- the announced length is what the ledger starts from; trailers right after the head (no DATA) are
    refused with a stream error -/
theorem content_length_witness :
    Spec.Http.contentLength (fieldsOf rd0 oneClFrame) = some (some 5) ∧
    ((hdrOf rd0 oneClFrame).map fun h => clOf (rhEntry srv0 h).1 0) = some (some .omitted) ∧
    ((hdrOf rd0 oneClFrame).map fun h => ((rhEntry srv0 h).1.recvRecvHeaders 0 h).2.isOk) = some true ∧
    ((hdrOf rd0 oneClFrame).map fun h => clOf (srv0.recvHeaders h).1 0) = some (some (.remaining 5)) ∧
    ((hdrOf rd0 oneClFrame).map fun h => ((srv0.recvHeaders h).1.stream 0).state.isRecvHeaders) = some false ∧
    ((hdrOf rd0 oneClFrame).map fun h =>
      errOf ((srv0.recvHeaders h).1.recvRecvTrailers 0 { sid := 1, eos := true, status := none }).2) =
        some (some (.reset 1 Conn.PROTOCOL_ERROR .library)) := by decide +kernel


/-- a valid request cut into HEADERS[`82 86 84`] + CONTINUATION[`41`] + CONTINUATION(END_HEADERS)[`01 61`]
    (the last cut falls inside the `:authority` literal) -/
def cut1 : Bytes := [0, 0, 3, 1, 1, 0, 0, 0, 1, 0x82, 0x86, 0x84]
def cut2 : Bytes := [0, 0, 1, 9, 0, 0, 0, 0, 1, 0x41]
def cut3 : Bytes := [0, 0, 2, 9, 4, 0, 0, 0, 1, 1, 97]

/-- the second ghost collects exactly the concatenation of the fragments, the first ghost the fields of
    its decoding, and the block is delivered -/
theorem fragmented_block_witness :
    (wireNext (runFrames (rd0, [], none) [cut1, cut2]).2.2 (runFrames (rd0, [], none) [cut1, cut2]).1 cut3).map (·.2)
      = some [0x82, 0x86, 0x84, 0x41, 1, 97] ∧
    ghostNext (runFrames (rd0, [], none) [cut1, cut2]).2.1 (runFrames (rd0, [], none) [cut1, cut2]).1 cut3 =
      (rd0.hpack.decode [0x82, 0x86, 0x84, 0x41, 1, 97]).fields ∧
    (dfBlock (decodeFrame (runFrames (rd0, [], none) [cut1, cut2]).1 cut3).2).isSome = true ∧
    Spec.Http.request (rd0.hpack.decode [0x82, 0x86, 0x84, 0x41, 1, 97]).fields false = [] := by decide +kernel


/-! ### REFUSED_STREAM (F31, repaired): the concurrency limit reached while a pushed stream was reserved -/

/-- a client that allows ONE concurrent pushed stream, after `send_request` and one `poll` -/
def cliLim : Conn :=
  (({ (Conn.init { mcs := some 1 }) with streams :=
      ((Conn.init { mcs := some 1 }).streams.sendRequest false [Conn.field ":method" "GET", Conn.field ":scheme" "http",
        Conn.field ":authority" "example.com", Conn.field ":path" "/"] true none).1 } : Conn).clientPoll 100).1

/-- PUSH_PROMISE on stream 1 promising `promised`: GET http://a/ -/
def ppFrame (promised : Nat) : Bytes := [0, 0, 10, 5, 4, 0, 0, 0, 1, 0, 0, 0, promised, 0x82, 0x86, 0x84, 0x41, 1, 97]
/-- HEADERS[`88`] (`:status: 200`) on stream `sid` -/
def respFrame (sid : Nat) : Bytes := [0, 0, 1, 1, 4, 0, 0, 0, sid, 0x88]

def frameOf (r : Reader) (b : Bytes) : Option Frame.Frame :=
  match (decodeFrame r b).2 with | .frame f => some f | _ => none

def feedFrame (c : Conn) (b : Bytes) : Conn := (c.recvFrame (frameOf rd0 b)).1

/-- two promises are reserved (2 and 4), the response on 2 takes the only slot -/
def cliLim3 : Conn := feedFrame (feedFrame (feedFrame cliLim (ppFrame 2)) (ppFrame 4)) (respFrame 2)

/-- the (perfectly valid) response on stream 4 is then refused with REFUSED_STREAM — the only way that code
    comes out of `Recv::recv_headers` —, nothing more is queued for it, the stream is reset -/
theorem refused_stream_witness :
    ((hdrOf rd0 (respFrame 4)).map fun h => stateErrOf (cliLim3.streams.recvRecvHeaders 2 h).2) =
      some (some (.reset 4 REFUSED_STREAM .library)) ∧
    (feedFrame cliLim3 (respFrame 4)).streams.store.slab.map (fun st => (st.id, st.state.isReset, st.pendingRecv.length)) =
      [(1, false, 0), (2, false, 2), (4, true, 1)] ∧
    cliLim3.streams.store.slab.map (fun st => (st.id, st.pendingRecv.length)) = [(1, 0), (2, 2), (4, 1)] := by
  decide +kernel

end H2V.Lemmas.ConnHttpP
