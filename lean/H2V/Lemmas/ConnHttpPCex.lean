import H2V.Lemmas.ConnHttpPMain
import H2V.Model.ConnDriver
/-
  C13 (ConnHttpP), part 13 — witnesses: concrete wire bytes through `decode_frame` and the stream layer of
  a freshly handshaken connection.  Every `…_counterexample` is a malformed message (per
  `H2V.Spec.Http`) that the model — and the real code, see ConnHttpPNOTES.md — hands to the application.
-/
namespace H2V.Lemmas.ConnHttpP
open H2V H2V.Model H2V.Model.Frame H2V.Model.Hpack H2V.Model.Conn H2V.Model.CodecRead

/-- a server connection right after the handshake -/
def srv0 : Streams := (Conn.initServer {} false []).streams
/-- a client connection right after the handshake -/
def cli0 : Streams := (Conn.init {}).streams

/-- the head a HEADERS frame is delivered with (`None`: not delivered by `decode_frame`) -/
def hdrOf (r : Reader) (bytes : Bytes) : Option HeadersIn :=
  match (decodeFrame r bytes).2 with
  | .frame (.headers sid eos _ blk) => some (Conn.headersIn sid eos blk)
  | _ => none

/-- the field list HPACK decodes from the block of a single HEADERS frame -/
def fieldsOf (r : Reader) (bytes : Bytes) : List Header := ghostNext [] r bytes

/-- the receive queues after `Inner::recv_headers` -/
def queuesAfter (s : Streams) (r : Reader) (bytes : Bytes) : Option (List (List REvent)) :=
  (hdrOf r bytes).map fun h => (s.recvHeaders h).1.store.slab.map (·.pendingRecv)

def rd0 : Reader := Reader.new 16384

/-- a valid request: `82 86 84 41 01 61` = GET http://a/ -/
def getFrame : Bytes := [0, 0, 6, 1, 5, 0, 0, 0, 1, 0x82, 0x86, 0x84, 0x41, 1, 97]

theorem valid_request_delivered :
    queuesAfter srv0 rd0 getFrame = some [[.request [71, 69, 84] [104, 116, 116, 112, 58, 47, 47, 97, 47] []]] ∧
    Spec.Http.request (fieldsOf rd0 getFrame) false = [] := by decide +kernel

/-- N2: HEADERS[`02 07 "CONNECT"`] — CONNECT without `:authority` is delivered -/
def connectOnly : Bytes := [0, 0, 9, 1, 5, 0, 0, 0, 1, 0x02, 7, 67, 79, 78, 78, 69, 67, 84]

theorem connect_without_authority_counterexample :
    queuesAfter srv0 rd0 connectOnly = some [[.request [67, 79, 78, 78, 69, 67, 84] [] []]] ∧
    Spec.Http.request (fieldsOf rd0 connectOnly) false = ["connect-without-authority"] := by decide +kernel

/-- N3: HEADERS[`82 86`] — GET with `:scheme` only (no `:path`, no `:authority`) is delivered -/
def getSchemeOnly : Bytes := [0, 0, 2, 1, 5, 0, 0, 0, 1, 0x82, 0x86]

theorem get_without_path_counterexample :
    queuesAfter srv0 rd0 getSchemeOnly = some [[.request [71, 69, 84] [] []]] ∧
    Spec.Http.request (fieldsOf rd0 getSchemeOnly) false = ["missing-path"] := by decide +kernel


/-! ### client side (known findings F5a, F5b, F5c) -/

/-- the client after `send_request(GET http://example.com/, end_of_stream)` and one `poll` of the
    connection (the HEADERS frame of stream 1 is on the wire) -/
def cli1 : Streams :=
  (({ (Conn.init {}) with streams :=
      (cli0.sendRequest false [Conn.field ":method" "GET", Conn.field ":scheme" "http",
        Conn.field ":authority" "example.com", Conn.field ":path" "/"] true none).1 } : Conn).clientPoll 100).1.streams

/-- a valid response: HEADERS[`88`] = `:status: 200` -/
def okResp : Bytes := [0, 0, 1, 1, 4, 0, 0, 0, 1, 0x88]

theorem valid_response_delivered :
    queuesAfter cli1 rd0 okResp = some [[.headers [50, 48, 48] []]] ∧
    Spec.Http.response (fieldsOf rd0 okResp) = [] := by decide +kernel

/-- F5b: HEADERS[`00 03 "x-a" 01 "1"`] — a response without `:status` is delivered, as status 200 -/
def noStatusResp : Bytes := [0, 0, 7, 1, 4, 0, 0, 0, 1, 0, 3, 120, 45, 97, 1, 49]

theorem response_without_status_counterexample :
    queuesAfter cli1 rd0 noStatusResp = some [[.headers [50, 48, 48] [([120, 45, 97], [[49]])]]] ∧
    Spec.Http.response (fieldsOf rd0 noStatusResp) = ["missing-status"] := by decide +kernel

/-- F5a: HEADERS[`88 84`] — a response carrying `:path` is delivered -/
def pathResp : Bytes := [0, 0, 2, 1, 4, 0, 0, 0, 1, 0x88, 0x84]

theorem response_with_request_pseudo_counterexample :
    queuesAfter cli1 rd0 pathResp = some [[.headers [50, 48, 48] []]] ∧
    Spec.Http.response (fieldsOf rd0 pathResp) = ["request-pseudo-in-response"] := by decide +kernel

/-- F5c: after the response head, HEADERS(END_STREAM)[`88`] — trailers carrying `:status` are delivered -/
def statusTrailers : Bytes := [0, 0, 1, 1, 5, 0, 0, 0, 1, 0x88]

theorem trailers_with_pseudo_counterexample :
    ((hdrOf rd0 okResp).bind fun h => queuesAfter (cli1.recvHeaders h).1 (decodeFrame rd0 okResp).1 statusTrailers)
      = some [[.headers [50, 48, 48] [], .trailers []]] ∧
    Spec.Http.trailers (fieldsOf (decodeFrame rd0 okResp).1 statusTrailers) = ["pseudo-in-trailers"] := by
  decide +kernel

end H2V.Lemmas.ConnHttpP
