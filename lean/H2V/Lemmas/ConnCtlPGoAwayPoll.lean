import H2V.Lemmas.ConnCtlPGoAwaySent
import H2V.Lemmas.ConnCtlPViewFrames
import H2V.Lemmas.ConnCtlPSettings
/-
  ConnCtlP, part 15 — C15: `Connection::poll` keeps the GOAWAY invariant, and the GOAWAY frames it
  hands to the codec carry non-increasing last-stream-ids (`SentOK`).  The only frame that moves
  `last_processed_id` is HEADERS, which `recv_headers` accepts only at or below `max_stream_id`, and
  `poll2` reads frames only while `close_now` is unset — when `max_stream_id` is what was announced.
-/
set_option autoImplicit false
set_option linter.unusedSimpArgs false
namespace H2V.Lemmas.ConnCtlP
open H2V H2V.Model H2V.Model.Conn

/-- a step that leaves `goAway`, `last_processed_id` and `max_stream_id` alone -/
def Keep15 (c c' : Conn) : Prop :=
  c'.goAway = c.goAway ∧ (view c'.streams).lpi = (view c.streams).lpi ∧ (view c'.streams).rmax = (view c.streams).rmax

theorem Keep15.refl (c : Conn) : Keep15 c c := ⟨rfl, rfl, rfl⟩
theorem Keep15.trans {a b c : Conn} (h1 : Keep15 a b) (h2 : Keep15 b c) : Keep15 a c :=
  ⟨h2.1.trans h1.1, h2.2.1.trans h1.2.1, h2.2.2.trans h1.2.2⟩
theorem Keep15.of_view {c c' : Conn} (hg : c'.goAway = c.goAway) (hv : view c'.streams = view c.streams) : Keep15 c c' :=
  ⟨hg, by rw [hv], by rw [hv]⟩
theorem Keep15.inv {c c' : Conn} (h : Keep15 c c') (hi : GoAwayInv c) : GoAwayInv c' := hi.congr' h.1 h.2.1 h.2.2
theorem Keep15.gaLe {c c' : Conn} (h : Keep15 c c') : GaLe c c' := GaLe.of_eq (by rw [h.1])

/-- what a step of `poll` must satisfy: invariant kept, announced id monotone -/
def Step15 (c c' : Conn) : Prop := GoAwayInv c' ∧ GaLe c c'

theorem Keep15.step {c c' : Conn} (h : Keep15 c c') (hi : GoAwayInv c) : Step15 c c' := ⟨h.inv hi, h.gaLe⟩

-- ===================================================================== poll_ready

theorem view_pollSendPendingRefusal (fuel : Nat) (s : Streams) (w : Writer) (io : Tio) (tag : String) :
    view (Streams.pollSendPendingRefusal fuel s w io tag).1 = view s := by
  induction fuel generalizing s w io with
  | zero => rfl
  | succ n ih =>
    unfold Streams.pollSendPendingRefusal
    rcases hr : s.sendPendingRefusal w with ⟨s1, w1, st⟩
    have hv : view s1 = view s := by
      have := view_sendPendingRefusal s w; rw [hr] at this; exact this
    cases st with
    | complete => exact hv
    | codecFull =>
      dsimp only
      rcases hp : pollReadyW w1 io tag with ⟨w2, io2, r⟩
      cases r with
      | ready => dsimp only; rw [ih, hv]
      | pending => exact hv
      | err k => exact hv

theorem sendPendingPongT_keep (c : Conn) : Keep15 c (sendPendingPongT c).1.1 ∧ sentG (sendPendingPongT c).2 = [] := by
  unfold sendPendingPongT
  cases hp : c.pingPong.pendingPong with
  | none => exact ⟨Keep15.refl c, rfl⟩
  | some p =>
    dsimp only
    rcases h : c.codecPollReady with ⟨c1, st⟩
    obtain ⟨-, -, h3, h4, -, -⟩ := codecPollReady_eq c c1 st h
    cases st <;> exact ⟨Keep15.of_view (by simp [h3]) (by simp [h4]), rfl⟩

theorem sendPendingPing_keep (c : Conn) : Keep15 c c.sendPendingPing.1 := by
  unfold Conn.sendPendingPing
  cases hp : c.pingPong.pendingPing with
  | some ping =>
    dsimp only
    split
    · rcases h : c.codecPollReady with ⟨c1, st⟩
      obtain ⟨-, -, h3, h4, -, -⟩ := codecPollReady_eq c c1 st h
      cases st <;> exact Keep15.of_view (by simp [h3]) (by simp [h4])
    · exact Keep15.refl c
  | none =>
    dsimp only
    cases hu : c.pingPong.userPings with
    | none => exact Keep15.refl c
    | some u =>
      dsimp only
      split
      · rcases h : Conn.codecPollReady _ with ⟨c1, st⟩
        obtain ⟨-, -, h3, h4, -, -⟩ := codecPollReady_eq _ c1 st h
        cases st <;> exact Keep15.of_view (by simp [h3]) (by simp [h4])
      · exact Keep15.of_view rfl rfl

theorem ackAndApply_keep (c : Conn) (v : List (Nat × Nat)) : Keep15 c (ackAndApply c v).1 := by
  obtain ⟨ms, iw, p, hv⟩ := view_applyRemoteSettings c.streams v (!c.settings.hasReceivedRemoteInitialSettings)
  have hs := (ackAndApply_spec c v).2.1
  refine ⟨?_, by rw [hs, hv], by rw [hs, hv]⟩
  unfold ackAndApply
  dsimp only
  split <;> rfl

theorem settingsPollSendT_keep (c : Conn) :
    Keep15 c (settingsPollSendT c).1.1 ∧ sentG (settingsPollSendT c).2 = [] := by
  have hloc : ∀ c : Conn, Keep15 c (settingsLocalSendT c).1.1 ∧ sentG (settingsLocalSendT c).2 = [] := by
    intro c
    unfold settingsLocalSendT
    cases hl : c.settings.loc with
    | toSend vals =>
      dsimp only
      rcases h : c.codecPollReady with ⟨c1, st⟩
      obtain ⟨-, -, h3, h4, -, -⟩ := codecPollReady_eq c c1 st h
      cases st <;> exact ⟨Keep15.of_view (by simp [h3]) (by simp [h4]), rfl⟩
    | waitingAck _ => exact ⟨Keep15.refl c, rfl⟩
    | synced => exact ⟨Keep15.refl c, rfl⟩
  have hrem : Keep15 c (settingsRemotePartT c).1.1 ∧ sentG (settingsRemotePartT c).2 = [] := by
    unfold settingsRemotePartT
    cases hr : c.settings.remote with
    | none => exact ⟨Keep15.refl c, rfl⟩
    | some v =>
      dsimp only
      rcases h : c.codecPollReady with ⟨c1, st⟩
      obtain ⟨-, -, h3, h4, -, -⟩ := codecPollReady_eq c c1 st h
      have k1 : Keep15 c c1 := Keep15.of_view h3 (by rw [h4])
      cases st with
      | pending => exact ⟨k1, rfl⟩
      | err e => exact ⟨k1, rfl⟩
      | ok => exact ⟨k1.trans (ackAndApply_keep c1 v), rfl⟩
  unfold settingsPollSendT
  rcases hR : settingsRemotePartT c with ⟨⟨c1, st⟩, e1⟩
  rw [hR] at hrem
  cases st with
  | ok =>
    dsimp only
    unfold settingsLocalPartT
    obtain ⟨l1, l2⟩ := hloc { c1 with settings := { c1.settings with remote := none } }
    exact ⟨(hrem.1.trans (Keep15.of_view rfl rfl)).trans l1, by simp [hrem.2, l2]⟩
  | pending => exact hrem
  | err e => exact hrem

theorem pollReadyT_keep (c : Conn) : Keep15 c (pollReadyT c).1.1 ∧ sentG (pollReadyT c).2 = [] := by
  obtain ⟨p1, p2⟩ := sendPendingPongT_keep c
  unfold pollReadyT
  rcases hP : sendPendingPongT c with ⟨⟨c1, st1⟩, e1⟩
  rw [hP] at p1 p2
  cases st1 with
  | pending => exact ⟨p1, p2⟩
  | err e => exact ⟨p1, p2⟩
  | ok =>
    dsimp only
    have q := sendPendingPing_keep c1
    rcases hQ : c1.sendPendingPing with ⟨c2, st2⟩
    rw [hQ] at q
    cases st2 with
    | pending => exact ⟨p1.trans q, p2⟩
    | err e => exact ⟨p1.trans q, p2⟩
    | ok =>
      dsimp only
      obtain ⟨s1, s2⟩ := settingsPollSendT_keep c2
      rcases hS : settingsPollSendT c2 with ⟨⟨c3, st3⟩, e2⟩
      rw [hS] at s1 s2
      cases st3 with
      | pending => exact ⟨(p1.trans q).trans s1, by simp [p2, s2]⟩
      | err e => exact ⟨(p1.trans q).trans s1, by simp [p2, s2]⟩
      | ok =>
        dsimp only
        have hv := view_pollSendPendingRefusal 4 c3.streams c3.codec.w c3.codec.io c3.cx
        rcases hR : Streams.pollSendPendingRefusal 4 c3.streams c3.codec.w c3.codec.io c3.cx with ⟨s, w, io, r⟩
        rw [hR] at hv
        exact ⟨((p1.trans q).trans s1).trans (Keep15.of_view rfl hv), by simp [p2, s2]⟩

-- ===================================================================== recv_frame / recv_settings

/-- `recv_frame` while `close_now` is unset keeps the invariant; the announced id can only go down
    (the ACK of the shutdown PING) -/
theorem recvFrame_step15 (c : Conn) (frame : Option Frame.Frame) (hi : GoAwayInv c) (hcn : c.goAway.closeNow = false) :
    Step15 c (c.recvFrame frame).1 := by
  have lift : ∀ (r : Streams × Except PErr Unit), view r.1 = view c.streams →
      Step15 c (match r with
        | (s, .ok _) => (({ c with streams := s } : Conn), (Except.ok Conn.ReceivedFrame.continue : Except PErr Conn.ReceivedFrame))
        | (s, .error e) => ({ c with streams := s }, Except.error e)).1 := by
    intro r hv
    rcases r with ⟨s, r⟩
    cases r <;> exact (Keep15.of_view rfl hv).step hi
  unfold Conn.recvFrame
  cases frame with
  | none =>
    refine (Keep15.step ⟨rfl, ?_, ?_⟩ hi)
    · show (view (c.streams.recvEof false)).lpi = _; rw [view_recvEof]
    · show (view (c.streams.recvEof false)).rmax = _; rw [view_recvEof]
  | some f =>
    cases f with
    | headers sid eos dep blk =>
      dsimp only
      obtain ⟨l, hl1, hl2⟩ := view_recvHeaders c.streams (Conn.headersIn sid eos blk)
      rcases hr : c.streams.recvHeaders (Conn.headersIn sid eos blk) with ⟨s, r⟩
      rw [hr] at hl1
      dsimp only at hl1
      have hinv : GoAwayInv ({ c with streams := s } : Conn) := by
        rcases hl2 with hl2 | ⟨hl2, hl3, hl4⟩
        · exact hi.congr' rfl (by show (view s).lpi = _; rw [hl1]; exact hl2) (by show (view s).rmax = _; rw [hl1])
        · have hsid : (Conn.headersIn sid eos blk).sid = sid := rfl
          rw [hsid] at hl2 hl3 hl4
          constructor
          · show (view s).lpi ≤ (view s).rmax; rw [hl1]; dsimp only; rw [hl2]; exact hl4
          · intro ga hga
            show (view s).lpi ≤ _
            rw [hl1]; dsimp only; rw [hl2, hi.ga_eq_max ga hga hcn]; exact hl4
          · intro ga hga hc
            show _ = (view s).rmax
            rw [hl1]; exact hi.ga_eq_max ga hga hc
          · intro hn
            show (view s).rmax = _
            rw [hl1]; exact hi.none_max hn
          · exact hi.pend
          · exact hi.close_ga
      cases r <;> exact ⟨hinv, GaLe.of_eq rfl⟩
    | data sid payload eos padLen => exact lift _ (view_recvData _ _ _ _ _)
    | reset sid code => exact lift _ (view_recvReset _ _ _)
    | pushPromise sid promised blk => exact lift _ (view_recvPushPromise _ _ _)
    | windowUpdate sid inc => exact lift _ (view_recvWindowUpdate _ _ _)
    | priority sid dep w e => exact (Keep15.refl c).step hi
    | settings ack vals => exact (Keep15.refl c).step hi
    | goAway last code debug =>
      dsimp only
      obtain ⟨g1, g2⟩ := view_recvGoAwayFrame c.streams last code debug
      rcases hr : c.streams.recvGoAwayFrame last code debug with ⟨s, r⟩
      rw [hr] at g1 g2
      cases r with
      | error e =>
        obtain ⟨e1, -⟩ := g2 e rfl
        dsimp only at e1
        exact (Keep15.of_view rfl (by show view s = _; rw [e1])).step hi
      | ok u =>
        obtain ⟨e1, -⟩ := g1 u rfl
        dsimp only at e1
        exact (Keep15.step ⟨rfl, by show (view s).lpi = _; rw [e1], by show (view s).rmax = _; rw [e1]⟩ hi)
    | ping ack payload =>
      dsimp only
      rcases hrp : c.pingPong.recvPing ack payload with ⟨pp, status, woken, ok⟩
      dsimp only
      -- the connection after the bookkeeping of `recv_ping`
      have hk1 : ∀ c1 : Conn, c1.goAway = c.goAway → view c1.streams = view c.streams →
          Step15 c (if status == .shutdown then
            ((if c1.goAway.isGoingAway then c1 else c1.panic "received unexpected shutdown ping").dynGoAway
              (if c1.goAway.isGoingAway then c1 else c1.panic "received unexpected shutdown ping").streams.recv.lastProcessedId NO_ERROR,
              (Except.ok Conn.ReceivedFrame.continue : Except PErr Conn.ReceivedFrame))
            else (c1, Except.ok Conn.ReceivedFrame.continue)).1 := by
        intro c1 hg hv
        have k1 : Keep15 c c1 := Keep15.of_view hg hv
        split
        · have k2 : Keep15 c (if c1.goAway.isGoingAway then c1 else c1.panic "received unexpected shutdown ping") := by
            split
            · exact k1
            · exact k1.trans (Keep15.of_view rfl (by simp [Conn.panic]))
          have i2 := k2.inv hi
          obtain ⟨d1, -, -, d4, -, -⟩ := dynGoAway_inv _ _ NO_ERROR (Nat.le_refl _) i2.lpi_le_max
            (fun ga hga => i2.lpi_le_ga ga hga)
          refine ⟨d1, ?_⟩
          intro m hm
          refine ⟨_, by simp [gaLast, d4], ?_⟩
          have hm' : gaLast (if c1.goAway.isGoingAway then c1 else c1.panic "received unexpected shutdown ping") = some m := by
            unfold gaLast at hm ⊢; rw [k2.1]; exact hm
          unfold gaLast at hm'
          cases hga : (if c1.goAway.isGoingAway then c1 else c1.panic "received unexpected shutdown ping").goAway.goingAway with
          | none => rw [hga] at hm'; cases hm'
          | some ga =>
            rw [hga] at hm'
            simp at hm'
            rw [← hm']
            exact i2.lpi_le_ga ga hga
        · exact k1.step hi
      split
      · exact hk1 _ rfl (by simp)
      · exact hk1 _ rfl (by simp [Conn.panic])

theorem recvSettings_keep (c : Conn) (ack : Bool) (vals : List (Nat × Nat)) : Keep15 c (c.recvSettings ack vals).1 := by
  cases ack with
  | false =>
    unfold Conn.recvSettings
    simp only [Bool.false_eq_true, if_false]
    split
    · exact Keep15.of_view rfl (by simp [Conn.panic])
    · exact Keep15.of_view rfl rfl
  | true =>
    cases hl : c.settings.loc with
    | waitingAck loc =>
      rw [recvSettings_ack_eq c vals loc hl]
      dsimp only
      obtain ⟨w, hw, -⟩ := view_applyLocalSettingsFrame c.streams loc
      rcases hs : c.streams.applyLocalSettingsFrame loc with ⟨s, r⟩
      rw [hs] at hw
      dsimp only at hw
      cases r <;> exact ⟨rfl, by show (view s).lpi = _; rw [hw], by show (view s).rmax = _; rw [hw]⟩
    | toSend l => rw [recvSettings_ack_unsolicited c vals (by intro l' h; rw [hl] at h; cases h)]; exact Keep15.refl c
    | synced => rw [recvSettings_ack_unsolicited c vals (by intro l' h; rw [hl] at h; cases h)]; exact Keep15.refl c

end H2V.Lemmas.ConnCtlP
