import H2V.Lemmas.ConnCtlPGoAwaySent
import H2V.Lemmas.ConnCtlPViewFrames
import H2V.Lemmas.ConnCtlPSettings
/-
  ConnCtlP, part 15 — C15: `Connection::poll` keeps the GOAWAY invariant, and the GOAWAY frames it
  hands to the codec carry non-increasing last-stream-ids (`SentOK`).  The only frame that moves
  `last_processed_id` is HEADERS, which `recv_headers` accepts only at or below `max_stream_id`, and
  `poll2` reads frames only while `close_now` is unset — when `max_stream_id` is what was announced.
-/
set_option autoImplicit false
set_option linter.unusedSimpArgs false
namespace H2V.Lemmas.ConnCtlP
open H2V H2V.Model H2V.Model.Conn

/-- a step that leaves `goAway`, `last_processed_id` and `max_stream_id` alone -/
def Keep15 (c c' : Conn) : Prop :=
  c'.goAway = c.goAway ∧ (view c'.streams).lpi = (view c.streams).lpi ∧ (view c'.streams).rmax = (view c.streams).rmax ∧
  ((view c.streams).connErr.isSome = true → (view c'.streams).connErr.isSome = true)

theorem Keep15.refl (c : Conn) : Keep15 c c := ⟨rfl, rfl, rfl, id⟩
theorem Keep15.trans {a b c : Conn} (h1 : Keep15 a b) (h2 : Keep15 b c) : Keep15 a c :=
  ⟨h2.1.trans h1.1, h2.2.1.trans h1.2.1, h2.2.2.1.trans h1.2.2.1, fun h => h2.2.2.2 (h1.2.2.2 h)⟩
theorem Keep15.of_view {c c' : Conn} (hg : c'.goAway = c.goAway) (hv : view c'.streams = view c.streams) : Keep15 c c' :=
  ⟨hg, by rw [hv], by rw [hv], by rw [hv]; exact id⟩
theorem Keep15.inv {c c' : Conn} (h : Keep15 c c') (hi : GoAwayInv c) : GoAwayInv c' := hi.congr' h.1 h.2.1 h.2.2.1
theorem Keep15.gaLe {c c' : Conn} (h : Keep15 c c') : GaLe c c' :=
  ⟨(GaLe.of_eq (c := c) (c' := c) rfl rfl).1 |> fun _ => by
      intro m hm
      exact ⟨m, by unfold gaLast at *; rw [h.1]; exact hm, Nat.le_refl _⟩, h.2.2.2⟩

/-- what a step of `poll` must satisfy: invariant kept, announced id monotone -/
def Step15 (c c' : Conn) : Prop := GoAwayInv c' ∧ GaLe c c'

theorem Keep15.step {c c' : Conn} (h : Keep15 c c') (hi : GoAwayInv c) : Step15 c c' := ⟨h.inv hi, h.gaLe⟩

-- ===================================================================== poll_ready

theorem view_pollSendPendingRefusal (fuel : Nat) (s : Streams) (w : Writer) (io : Tio) (tag : String) :
    view (Streams.pollSendPendingRefusal fuel s w io tag).1 = view s := by
  induction fuel generalizing s w io with
  | zero => rfl
  | succ n ih =>
    unfold Streams.pollSendPendingRefusal
    rcases hr : s.sendPendingRefusal w with ⟨s1, w1, st⟩
    have hv : view s1 = view s := by
      have := view_sendPendingRefusal s w; rw [hr] at this; exact this
    cases st with
    | complete => exact hv
    | codecFull =>
      dsimp only
      rcases hp : pollReadyW w1 io tag with ⟨w2, io2, r⟩
      cases r with
      | ready => dsimp only; rw [ih, hv]
      | pending => exact hv
      | err k => exact hv

theorem sendPendingPongT_keep (c : Conn) : Keep15 c (sendPendingPongT c).1.1 ∧ sentG (sendPendingPongT c).2 = [] := by
  unfold sendPendingPongT
  cases hp : c.pingPong.pendingPong with
  | none => exact ⟨Keep15.refl c, rfl⟩
  | some p =>
    dsimp only
    rcases h : c.codecPollReady with ⟨c1, st⟩
    obtain ⟨-, -, h3, h4, -, -⟩ := codecPollReady_eq c c1 st h
    cases st <;> exact ⟨Keep15.of_view (by simp [h3]) (by simp [h4]), rfl⟩

theorem sendPendingPing_keep (c : Conn) : Keep15 c c.sendPendingPing.1 := by
  unfold Conn.sendPendingPing
  cases hp : c.pingPong.pendingPing with
  | some ping =>
    dsimp only
    split
    · rcases h : c.codecPollReady with ⟨c1, st⟩
      obtain ⟨-, -, h3, h4, -, -⟩ := codecPollReady_eq c c1 st h
      cases st <;> exact Keep15.of_view (by simp [h3]) (by simp [h4])
    · exact Keep15.refl c
  | none =>
    dsimp only
    cases hu : c.pingPong.userPings with
    | none => exact Keep15.refl c
    | some u =>
      dsimp only
      split
      · rcases h : Conn.codecPollReady _ with ⟨c1, st⟩
        obtain ⟨-, -, h3, h4, -, -⟩ := codecPollReady_eq _ c1 st h
        cases st <;> exact Keep15.of_view (by simp [h3]) (by simp [h4])
      · exact Keep15.of_view rfl rfl

theorem ackAndApply_keep (c : Conn) (v : List (Nat × Nat)) : Keep15 c (ackAndApply c v).1 := by
  obtain ⟨ms, iw, p, hv, -⟩ := view_applyRemoteSettings c.streams v (!c.settings.hasReceivedRemoteInitialSettings)
  have hs := (ackAndApply_spec c v).2.1
  refine ⟨?_, by rw [hs, hv], by rw [hs, hv], by rw [hs, hv]; exact id⟩
  unfold ackAndApply
  dsimp only
  split <;> rfl

theorem settingsPollSendT_keep (c : Conn) :
    Keep15 c (settingsPollSendT c).1.1 ∧ sentG (settingsPollSendT c).2 = [] := by
  have hloc : ∀ c : Conn, Keep15 c (settingsLocalSendT c).1.1 ∧ sentG (settingsLocalSendT c).2 = [] := by
    intro c
    unfold settingsLocalSendT
    cases hl : c.settings.loc with
    | toSend vals =>
      dsimp only
      rcases h : c.codecPollReady with ⟨c1, st⟩
      obtain ⟨-, -, h3, h4, -, -⟩ := codecPollReady_eq c c1 st h
      cases st <;> exact ⟨Keep15.of_view (by simp [h3]) (by simp [h4]), rfl⟩
    | waitingAck _ => exact ⟨Keep15.refl c, rfl⟩
    | synced => exact ⟨Keep15.refl c, rfl⟩
  have hrem : Keep15 c (settingsRemotePartT c).1.1 ∧ sentG (settingsRemotePartT c).2 = [] := by
    unfold settingsRemotePartT
    cases hr : c.settings.remote with
    | none => exact ⟨Keep15.refl c, rfl⟩
    | some v =>
      dsimp only
      rcases h : c.codecPollReady with ⟨c1, st⟩
      obtain ⟨-, -, h3, h4, -, -⟩ := codecPollReady_eq c c1 st h
      have k1 : Keep15 c c1 := Keep15.of_view h3 (by rw [h4])
      cases st with
      | pending => exact ⟨k1, rfl⟩
      | err e => exact ⟨k1, rfl⟩
      | ok => exact ⟨k1.trans (ackAndApply_keep c1 v), rfl⟩
  unfold settingsPollSendT
  rcases hR : settingsRemotePartT c with ⟨⟨c1, st⟩, e1⟩
  rw [hR] at hrem
  cases st with
  | ok =>
    dsimp only
    unfold settingsLocalPartT
    obtain ⟨l1, l2⟩ := hloc { c1 with settings := { c1.settings with remote := none } }
    exact ⟨(hrem.1.trans (Keep15.of_view rfl rfl)).trans l1, by simp [hrem.2, l2]⟩
  | pending => exact hrem
  | err e => exact hrem

theorem pollReadyT_keep (c : Conn) : Keep15 c (pollReadyT c).1.1 ∧ sentG (pollReadyT c).2 = [] := by
  obtain ⟨p1, p2⟩ := sendPendingPongT_keep c
  unfold pollReadyT
  rcases hP : sendPendingPongT c with ⟨⟨c1, st1⟩, e1⟩
  rw [hP] at p1 p2
  cases st1 with
  | pending => exact ⟨p1, p2⟩
  | err e => exact ⟨p1, p2⟩
  | ok =>
    dsimp only
    have q := sendPendingPing_keep c1
    rcases hQ : c1.sendPendingPing with ⟨c2, st2⟩
    rw [hQ] at q
    cases st2 with
    | pending => exact ⟨p1.trans q, p2⟩
    | err e => exact ⟨p1.trans q, p2⟩
    | ok =>
      dsimp only
      obtain ⟨s1, s2⟩ := settingsPollSendT_keep c2
      rcases hS : settingsPollSendT c2 with ⟨⟨c3, st3⟩, e2⟩
      rw [hS] at s1 s2
      cases st3 with
      | pending => exact ⟨(p1.trans q).trans s1, by simp [p2, s2]⟩
      | err e => exact ⟨(p1.trans q).trans s1, by simp [p2, s2]⟩
      | ok =>
        dsimp only
        have hv := view_pollSendPendingRefusal 4 c3.streams c3.codec.w c3.codec.io c3.cx
        rcases hR : Streams.pollSendPendingRefusal 4 c3.streams c3.codec.w c3.codec.io c3.cx with ⟨s, w, io, r⟩
        rw [hR] at hv
        exact ⟨((p1.trans q).trans s1).trans (Keep15.of_view rfl hv), by simp [p2, s2]⟩

-- ===================================================================== recv_frame / recv_settings

/-- what `recv_frame` does with a PING once `recv_ping` has answered (a copy) -/
def pingTail (c : Conn) (shutdown : Bool) : Conn × Except PErr Conn.ReceivedFrame :=
  if shutdown then
    let c := if c.goAway.isGoingAway then c else c.panic "received unexpected shutdown ping"
    (c.dynGoAway c.streams.recv.lastProcessedId NO_ERROR, .ok .continue)
  else (c, .ok .continue)

theorem recvFrame_ping_eq (c : Conn) (ack : Bool) (payload : Bytes) :
    c.recvFrame (some (.ping ack payload)) =
      pingTail
        (let r := c.pingPong.recvPing ack payload
         let c0 : Conn := { c with pingPong := r.1, streams := c.streams.wake r.2.2.1 }
         if r.2.2.2 then c0 else c0.panic "ping_pong assertion")
        ((c.pingPong.recvPing ack payload).2.1 == .shutdown) := rfl

theorem pingTail_step15 (c c1 : Conn) (sh : Bool) (hi : GoAwayInv c) (hg : c1.goAway = c.goAway)
    (hv : view c1.streams = view c.streams) : Step15 c (pingTail c1 sh).1 := by
  have k1 : Keep15 c c1 := Keep15.of_view hg hv
  unfold pingTail
  cases sh with
  | false => exact k1.step hi
  | true =>
    simp only [if_true]
    have k2 : Keep15 c (if c1.goAway.isGoingAway then c1 else c1.panic "received unexpected shutdown ping") := by
      split
      · exact k1
      · exact k1.trans (Keep15.of_view rfl (by simp [Conn.panic]))
    generalize (if c1.goAway.isGoingAway then c1 else c1.panic "received unexpected shutdown ping") = c2 at k2 ⊢
    have i2 := k2.inv hi
    obtain ⟨d1, d2', -, d4, -, -⟩ := dynGoAway_inv c2 c2.streams.recv.lastProcessedId NO_ERROR (Nat.le_refl _) i2.lpi_le_max
      (fun ga hga => i2.lpi_le_ga ga hga)
    obtain ⟨-, dv, -, -, -⟩ := recvGoAway_ok c2.streams c2.streams.recv.lastProcessedId i2.lpi_le_max
    refine ⟨d1, ?_, ?_⟩
    · intro m hm
      refine ⟨_, by unfold gaLast; rw [d4]; rfl, ?_⟩
      have hm' : gaLast c2 = some m := by
        unfold gaLast at hm ⊢; rw [k2.1]; exact hm
      unfold gaLast at hm'
      cases hga : c2.goAway.goingAway with
      | none => rw [hga] at hm'; cases hm'
      | some ga =>
        rw [hga] at hm'
        simp at hm'
        rw [← hm']
        exact i2.lpi_le_ga ga hga
    · intro hs
      have := k2.2.2.2 hs
      show (view (c2.dynGoAway c2.streams.recv.lastProcessedId NO_ERROR).streams).connErr.isSome = true
      rw [d2', dv]; exact this

/-- `recv_frame` while `close_now` is unset keeps the invariant; the announced id can only go down
    (the ACK of the shutdown PING) -/
theorem recvFrame_step15 (c : Conn) (frame : Option Frame.Frame) (hi : GoAwayInv c) (hcn : c.goAway.closeNow = false) :
    Step15 c (c.recvFrame frame).1 := by
  have lift : ∀ (r : Streams × Except PErr Unit), view r.1 = view c.streams →
      Step15 c (match r with
        | (s, .ok _) => (({ c with streams := s } : Conn), (Except.ok Conn.ReceivedFrame.continue : Except PErr Conn.ReceivedFrame))
        | (s, .error e) => ({ c with streams := s }, Except.error e)).1 := by
    intro r hv
    rcases r with ⟨s, r⟩
    have hv' : view s = view c.streams := hv
    cases r <;> exact (Keep15.of_view (c := c) (c' := { c with streams := s }) rfl hv').step hi
  cases frame with
  | none =>
    unfold Conn.recvFrame
    refine (Keep15.step ⟨rfl, ?_, ?_, ?_⟩ hi)
    · show (view (c.streams.recvEof false)).lpi = _; rw [view_recvEof]
    · show (view (c.streams.recvEof false)).rmax = _; rw [view_recvEof]
    · intro _; show (view (c.streams.recvEof false)).connErr.isSome = true; rw [view_recvEof]; rfl
  | some f =>
    cases f with
    | headers sid eos dep blk =>
      unfold Conn.recvFrame
      dsimp only
      obtain ⟨l, hl1, hl2⟩ := view_recvHeaders c.streams (Conn.headersIn sid eos blk)
      rcases hr : c.streams.recvHeaders (Conn.headersIn sid eos blk) with ⟨s, r⟩
      rw [hr] at hl1
      dsimp only at hl1
      have hinv : GoAwayInv ({ c with streams := s } : Conn) := by
        rcases hl2 with hl2 | ⟨hl2, hl3, hl4⟩
        · exact hi.congr' rfl (by show (view s).lpi = _; rw [hl1]; exact hl2) (by show (view s).rmax = _; rw [hl1])
        · have hsid : (Conn.headersIn sid eos blk).sid = sid := rfl
          rw [hsid] at hl2 hl3 hl4
          constructor
          · show (view s).lpi ≤ (view s).rmax; rw [hl1]; dsimp only; rw [hl2]; exact hl4
          · intro ga hga
            show (view s).lpi ≤ _
            rw [hl1]; dsimp only; rw [hl2, hi.ga_eq_max ga hga hcn]; exact hl4
          · intro ga hga hc
            show _ = (view s).rmax
            rw [hl1]; exact hi.ga_eq_max ga hga hc
          · intro hn
            show (view s).rmax = _
            rw [hl1]; exact hi.none_max hn
          · exact hi.pend
          · exact hi.close_ga
      cases r <;> exact ⟨hinv, GaLe.of_eq rfl (by show (view s).connErr = _; rw [hl1])⟩
    | data sid payload eos padLen => unfold Conn.recvFrame; exact lift _ (view_recvData _ _ _ _ _)
    | reset sid code => unfold Conn.recvFrame; exact lift _ (view_recvReset _ _ _)
    | pushPromise sid promised blk => unfold Conn.recvFrame; exact lift _ (view_recvPushPromise _ _ _)
    | windowUpdate sid inc => unfold Conn.recvFrame; exact lift _ (view_recvWindowUpdate _ _ _)
    | priority sid dep w e => exact (Keep15.refl c).step hi
    | settings ack vals => exact (Keep15.refl c).step hi
    | goAway last code debug =>
      unfold Conn.recvFrame
      dsimp only
      obtain ⟨g1, g2⟩ := view_recvGoAwayFrame c.streams last code debug
      rcases hr : c.streams.recvGoAwayFrame last code debug with ⟨s, r⟩
      rw [hr] at g1 g2
      cases r with
      | error e =>
        obtain ⟨e1, -⟩ := g2 e rfl
        dsimp only at e1
        exact (Keep15.of_view (c := c) (c' := { c with streams := s }) rfl (by show view s = _; rw [e1])).step hi
      | ok u =>
        obtain ⟨e1, -⟩ := g1 u rfl
        dsimp only at e1
        exact (Keep15.step (c := c) (c' := { c with streams := s, error := some { lastStreamId := last, reason := code, debugData := debug } })
          ⟨rfl, by show (view s).lpi = _; rw [e1], by show (view s).rmax = _; rw [e1],
            by intro _; show (view s).connErr.isSome = true; rw [e1]; rfl⟩ hi)
    | ping ack payload =>
      rw [recvFrame_ping_eq]
      apply pingTail_step15 c _ _ hi
      · dsimp only; split <;> rfl
      · dsimp only; split <;> simp [Conn.panic]

theorem recvSettings_keep (c : Conn) (ack : Bool) (vals : List (Nat × Nat)) : Keep15 c (c.recvSettings ack vals).1 := by
  cases ack with
  | false =>
    unfold Conn.recvSettings
    simp only [Bool.false_eq_true, if_false]
    split
    · exact Keep15.of_view rfl (by simp [Conn.panic])
    · exact Keep15.of_view rfl rfl
  | true =>
    cases hl : c.settings.loc with
    | waitingAck loc =>
      rw [recvSettings_ack_eq c vals loc hl]
      dsimp only
      obtain ⟨w, hw, -⟩ := view_applyLocalSettingsFrame c.streams loc
      rcases hs : c.streams.applyLocalSettingsFrame loc with ⟨s, r⟩
      rw [hs] at hw
      dsimp only at hw
      cases r <;> exact ⟨rfl, by show (view s).lpi = _; rw [hw], by show (view s).rmax = _; rw [hw],
        by show _ → (view s).connErr.isSome = true; rw [hw]; exact id⟩
    | toSend l => rw [recvSettings_ack_unsolicited c vals (by intro l' h; rw [hl] at h; cases h)]; exact Keep15.refl c
    | synced => rw [recvSettings_ack_unsolicited c vals (by intro l' h; rw [hl] at h; cases h)]; exact Keep15.refl c

-- ===================================================================== go_away_now / handle_poll2_result

theorem Step15.trans {a b c : Conn} (h1 : Step15 a b) (h2 : GoAwayInv b → Step15 b c) : Step15 a c :=
  ⟨(h2 h1.1).1, h1.2.trans (h2 h1.1).2⟩

theorem goAwayNowData_step15 (c : Conn) (e : Reason) (d : Bytes) (hi : GoAwayInv c) : Step15 c (c.goAwayNowData e d) := by
  refine ⟨(goAwayNowData_inv c e d hi).1, ?_, fun hs => by rw [(goAwayNowData_inv c e d hi).2]; exact hs⟩
  intro m hm
  have hg := (goAwayNow_result c e d c.goAway.isUserInitiated hi).2.1
  refine ⟨c.streams.recv.lastProcessedId, ?_, ?_⟩
  · unfold gaLast
    rw [goAwayNowData_eq c e d hi]
    dsimp only
    rw [hg]; rfl
  · unfold gaLast at hm
    cases hga : c.goAway.goingAway with
    | none => rw [hga] at hm; cases hm
    | some ga =>
      rw [hga] at hm
      simp at hm
      rw [← hm]
      exact hi.lpi_le_ga ga hga

theorem keep15_handleError (c : Conn) (err : PErr) : Keep15 c { c with streams := (c.streams.handleError err).1 } := by
  have := (view_handleError c.streams err).1
  exact ⟨rfl, by show (view (c.streams.handleError err).1).lpi = _; rw [this],
    by show (view (c.streams.handleError err).1).rmax = _; rw [this],
    by intro _; show (view (c.streams.handleError err).1).connErr.isSome = true; rw [this]; rfl⟩

theorem handleGoAway_step15 (c : Conn) (r : Reason) (d : Bytes) (i : Initiator) (hi : GoAwayInv c) :
    Step15 c (c.handleGoAway r d i) := by
  rcases handleGoAway_cases c r d i with h | h <;> rw [h]
  · exact (Keep15.of_view (c := c) (c' := { c with state := .closing r i }) rfl rfl).step hi
  · exact ((keep15_handleError c (.goAway d r i)).step hi).trans (fun h1 => goAwayNowData_step15 _ r d h1)

theorem handlePoll2Result_step15 (c : Conn) (res : Except PErr Unit) (hi : GoAwayInv c) :
    Step15 c (c.handlePoll2Result res).1 := by
  unfold Conn.handlePoll2Result
  cases res with
  | ok u => exact (Keep15.of_view (c := c) (c' := { c with state := .closing NO_ERROR .library }) rfl rfl).step hi
  | error e =>
    cases e with
    | goAway d r i => exact handleGoAway_step15 c r d i hi
    | reset id r i =>
      dsimp only
      split
      · exact (Keep15.refl c).step hi
      · rcases hs : c.streams.innerSendReset id r with ⟨s, rr⟩
        have hv : view s = view c.streams := by
          have := view_innerSendReset c.streams id r; rw [hs] at this; exact this
        have k : Keep15 c { c with streams := s } := Keep15.of_view rfl hv
        cases rr with
        | ok u => exact k.step hi
        | error g => exact (k.step hi).trans (fun h1 => handleGoAway_step15 _ _ _ _ h1)
    | io kind msg =>
      dsimp only
      have k := keep15_handleError c (.io kind msg)
      split
      · exact Keep15.step (c := c) ⟨rfl, k.2.1, k.2.2.1, k.2.2.2⟩ hi
      · exact k.step hi

-- ===================================================================== the loop of poll2

/-- what a run of `poll` satisfies for C15 -/
def Run15 (c : Conn) (x : (Conn × PollRes) × List Ev) : Prop := GoAwayInv x.1.1 ∧ SentOK c x.2 x.1.1

theorem Run15.pre {c c1 : Conn} {e1 : List Ev} {x : (Conn × PollRes) × List Ev}
    (h1 : SentOK c e1 c1) (h2 : Run15 c1 x) : Run15 c (x.1, e1 ++ x.2) :=
  ⟨h2.1, h1.trans h2.2⟩

theorem Run15.left {c c0 : Conn} {x : (Conn × PollRes) × List Ev} (k : Keep15 c c0) (h : Run15 c0 x) : Run15 c x :=
  ⟨h.1, by have := SentOK.trans (SentOK.quiet (evs := []) rfl k.gaLe) h.2; simpa using this⟩

theorem Step15.run {c c1 : Conn} {evs : List Ev} (h : Step15 c c1) (hq : sentG evs = []) (r : PollRes) :
    Run15 c ((c1, r), evs) := ⟨h.1, SentOK.quiet hq h.2⟩

theorem Step15.sent {c c1 : Conn} {evs : List Ev} (h : Step15 c c1) (hq : sentG evs = []) : SentOK c evs c1 :=
  SentOK.quiet hq h.2

theorem sentG_frameEv (frame : Option Frame.Frame) : sentG (frameEv frame) = [] := by
  unfold frameEv
  (repeat' split) <;> rfl

theorem sendPendingGoAwayT_reason (c : Conn) (r : Reason) (h : (sendPendingGoAwayT c).1.2 = .reason r) :
    (sendPendingGoAwayT c).1.1.goAway.pending = none := by
  unfold sendPendingGoAwayT at h ⊢
  cases hp : c.goAway.pending with
  | none =>
    rw [hp] at h
    dsimp only at h ⊢
    (repeat' split) <;> exact hp
  | some f =>
    rw [hp] at h
    dsimp only at h ⊢
    rcases hc : c.codecPollReady with ⟨c1, st⟩
    rw [hc] at h
    cases st with
    | pending => cases h
    | err e => cases h
    | ok => rfl

theorem poll2DispatchT_15 (kT : Conn → (Conn × PollRes) × List Ev) (hk : ∀ c, GoAwayInv c → Run15 c (kT c))
    (c : Conn) (frame : Option Frame.Frame) (hi : GoAwayInv c) (hcn : c.goAway.closeNow = false) :
    Run15 c (poll2DispatchT kT c frame) := by
  have hs := recvFrame_step15 c frame hi hcn
  have hq := sentG_frameEv frame
  unfold poll2DispatchT
  rcases hF : c.recvFrame frame with ⟨c1, r1⟩
  rw [hF] at hs
  dsimp only at hs
  cases r1 with
  | error e => exact hs.run hq _
  | ok rf =>
    cases rf with
    | «continue» => exact Run15.pre (hs.sent hq) (hk c1 hs.1)
    | done => exact hs.run hq _
    | settings a v =>
      dsimp only
      have ks := recvSettings_keep c1 a v
      rcases hS : c1.recvSettings a v with ⟨c2, r2⟩
      rw [hS] at ks
      dsimp only at ks
      have hs2 : Step15 c c2 := hs.trans (fun h1 => ks.step h1)
      cases r2 with
      | error e => exact hs2.run hq _
      | ok u => exact Run15.pre (hs2.sent hq) (hk c2 hs2.1)

theorem poll2ReadT_15 (kT : Conn → (Conn × PollRes) × List Ev) (hk : ∀ c, GoAwayInv c → Run15 c (kT c))
    (c : Conn) (hi : GoAwayInv c) (hcn : c.goAway.closeNow = false) : Run15 c (poll2ReadT kT c) := by
  unfold poll2ReadT
  rcases h1 : pollNext (c.codec.r.buf.length + c.codec.io.rd.length + 2) c.codec c.cx with ⟨codec, polled⟩
  dsimp only
  have k : Keep15 c { c with codec := codec } := Keep15.of_view rfl rfl
  split
  · exact (k.step hi).run rfl _
  · exact (k.step hi).run rfl _
  · exact (k.step hi).run rfl _
  · exact Run15.left k (poll2DispatchT_15 kT hk _ _ (k.inv hi) hcn)

theorem poll2GoOnT_15 (kT : Conn → (Conn × PollRes) × List Ev) (hk : ∀ c, GoAwayInv c → Run15 c (kT c))
    (c : Conn) (hi : GoAwayInv c) (hcn : c.goAway.closeNow = false) : Run15 c (poll2GoOnT kT c) := by
  obtain ⟨p1, p2⟩ := pollReadyT_keep c
  unfold poll2GoOnT
  rcases hP : pollReadyT c with ⟨⟨c1, st1⟩, e1⟩
  rw [hP] at p1 p2
  dsimp only at p1 p2
  cases st1 with
  | pending => exact (p1.step hi).run p2 _
  | err e => exact (p1.step hi).run p2 _
  | ok => exact Run15.pre ((p1.step hi).sent p2) (poll2ReadT_15 kT hk c1 (p1.inv hi) (by rw [p1.1]; exact hcn))

/-- **the loop of `Connection::poll2` keeps the GOAWAY invariant and sends GOAWAYs with
    non-increasing ids**, for every state satisfying the invariant and every amount of input -/
theorem poll2LoopT_15 : ∀ (fuel : Nat) (c : Conn), GoAwayInv c → Run15 c (poll2LoopT fuel c)
  | 0, c, hi => ((Keep15.of_view (c := c) (c' := c.panic "model: poll2 out of fuel") rfl (by simp [Conn.panic])).step hi).run rfl _
  | fuel + 1, c, hi => by
    obtain ⟨s1, s2, -⟩ := sendPendingGoAwayT_sent c hi
    obtain ⟨-, g2, g3, -, -, -, -, -, -, g10⟩ := sendPendingGoAwayT_spec c
    have hr := sendPendingGoAwayT_reason c
    unfold poll2LoopT
    rcases hG : sendPendingGoAwayT c with ⟨⟨c1, st1⟩, e0⟩
    rw [hG] at s1 s2 g2 g3 g10 hr
    dsimp only at s1 s2 g2 g3 g10 hr
    cases st1 with
    | pending => exact ⟨s1, s2⟩
    | err e => exact ⟨s1, s2⟩
    | none =>
      have hcn : c1.goAway.closeNow = false := by
        cases hc : c1.goAway.closeNow with
        | false => rfl
        | true =>
          exfalso
          have hh : Halting c := ⟨by rw [← g2]; exact hc, hi.close_ga (by rw [← g2]; exact hc)⟩
          exact g10 hh
      exact Run15.pre s2 (poll2GoOnT_15 _ (poll2LoopT_15 fuel) c1 s1 hcn)
    | reason r =>
      dsimp only
      split
      · split <;> exact ⟨s1, s2⟩
      · rename_i hns
        have hcn : c1.goAway.closeNow = false := by
          have hp := hr r rfl
          cases hc : c1.goAway.closeNow with
          | false => rfl
          | true => exact absurd (by simp [GoAway.shouldCloseNow, hp, hc]) hns
        exact Run15.pre s2 (poll2GoOnT_15 _ (poll2LoopT_15 fuel) c1 s1 hcn)

end H2V.Lemmas.ConnCtlP
