import H2V.Lemmas.ConnCtlPGoAwaySent
import H2V.Lemmas.ConnCtlPViewStreams
/-
  ConnCtlP, part 15 — C15: `Connection::poll` keeps the GOAWAY invariant, and the GOAWAY frames it
  hands to the codec carry non-increasing last-stream-ids (`SentOK`).  The only frame that moves
  `last_processed_id` is HEADERS, which `recv_headers` accepts only at or below `max_stream_id`, and
  `poll2` reads frames only while `close_now` is unset — when `max_stream_id` is what was announced.
-/
set_option autoImplicit false
set_option linter.unusedSimpArgs false
namespace H2V.Lemmas.ConnCtlP
open H2V H2V.Model H2V.Model.Conn

/-- a step that leaves `goAway`, `last_processed_id` and `max_stream_id` alone -/
def Keep15 (c c' : Conn) : Prop :=
  c'.goAway = c.goAway ∧ (view c'.streams).lpi = (view c.streams).lpi ∧ (view c'.streams).rmax = (view c.streams).rmax

theorem Keep15.refl (c : Conn) : Keep15 c c := ⟨rfl, rfl, rfl⟩
theorem Keep15.trans {a b c : Conn} (h1 : Keep15 a b) (h2 : Keep15 b c) : Keep15 a c :=
  ⟨h2.1.trans h1.1, h2.2.1.trans h1.2.1, h2.2.2.trans h1.2.2⟩
theorem Keep15.of_view {c c' : Conn} (hg : c'.goAway = c.goAway) (hv : view c'.streams = view c.streams) : Keep15 c c' :=
  ⟨hg, by rw [hv], by rw [hv]⟩
theorem Keep15.inv {c c' : Conn} (h : Keep15 c c') (hi : GoAwayInv c) : GoAwayInv c' := hi.congr' h.1 h.2.1 h.2.2
theorem Keep15.gaLe {c c' : Conn} (h : Keep15 c c') : GaLe c c' := GaLe.of_eq (by rw [h.1])

/-- what a step of `poll` must satisfy: invariant kept, announced id monotone -/
def Step15 (c c' : Conn) : Prop := GoAwayInv c' ∧ GaLe c c'

theorem Keep15.step {c c' : Conn} (h : Keep15 c c') (hi : GoAwayInv c) : Step15 c c' := ⟨h.inv hi, h.gaLe⟩

-- ===================================================================== poll_ready

theorem sendPendingPongT_keep (c : Conn) : Keep15 c (sendPendingPongT c).1.1 ∧ sentG (sendPendingPongT c).2 = [] := by
  unfold sendPendingPongT
  cases hp : c.pingPong.pendingPong with
  | none => exact ⟨Keep15.refl c, rfl⟩
  | some p =>
    dsimp only
    rcases h : c.codecPollReady with ⟨c1, st⟩
    obtain ⟨-, -, h3, h4, -, -⟩ := codecPollReady_eq c c1 st h
    cases st <;> exact ⟨Keep15.of_view (by simp [h3]) (by simp [h4]), rfl⟩

theorem sendPendingPing_keep (c : Conn) : Keep15 c c.sendPendingPing.1 := by
  unfold Conn.sendPendingPing
  cases hp : c.pingPong.pendingPing with
  | some ping =>
    dsimp only
    split
    · rcases h : c.codecPollReady with ⟨c1, st⟩
      obtain ⟨-, -, h3, h4, -, -⟩ := codecPollReady_eq c c1 st h
      cases st <;> exact Keep15.of_view (by simp [h3]) (by simp [h4])
    · exact Keep15.refl c
  | none =>
    dsimp only
    cases hu : c.pingPong.userPings with
    | none => exact Keep15.refl c
    | some u =>
      dsimp only
      split
      · rcases h : Conn.codecPollReady _ with ⟨c1, st⟩
        obtain ⟨-, -, h3, h4, -, -⟩ := codecPollReady_eq _ c1 st h
        cases st <;> exact Keep15.of_view (by simp [h3]) (by simp [h4])
      · exact Keep15.of_view rfl rfl

theorem ackAndApply_keep (c : Conn) (v : List (Nat × Nat)) : Keep15 c (ackAndApply c v).1 := by
  obtain ⟨ms, iw, p, hv⟩ := view_applyRemoteSettings c.streams v (!c.settings.hasReceivedRemoteInitialSettings)
  have hs := (ackAndApply_spec c v).2.1
  refine ⟨?_, by rw [hs, hv], by rw [hs, hv]⟩
  unfold ackAndApply
  dsimp only
  split <;> rfl

theorem settingsPollSendT_keep (c : Conn) :
    Keep15 c (settingsPollSendT c).1.1 ∧ sentG (settingsPollSendT c).2 = [] := by
  have hloc : ∀ c : Conn, Keep15 c (settingsLocalSendT c).1.1 ∧ sentG (settingsLocalSendT c).2 = [] := by
    intro c
    unfold settingsLocalSendT
    cases hl : c.settings.loc with
    | toSend vals =>
      dsimp only
      rcases h : c.codecPollReady with ⟨c1, st⟩
      obtain ⟨-, -, h3, h4, -, -⟩ := codecPollReady_eq c c1 st h
      cases st <;> exact ⟨Keep15.of_view (by simp [h3]) (by simp [h4]), rfl⟩
    | waitingAck _ => exact ⟨Keep15.refl c, rfl⟩
    | synced => exact ⟨Keep15.refl c, rfl⟩
  have hrem : Keep15 c (settingsRemotePartT c).1.1 ∧ sentG (settingsRemotePartT c).2 = [] := by
    unfold settingsRemotePartT
    cases hr : c.settings.remote with
    | none => exact ⟨Keep15.refl c, rfl⟩
    | some v =>
      dsimp only
      rcases h : c.codecPollReady with ⟨c1, st⟩
      obtain ⟨-, -, h3, h4, -, -⟩ := codecPollReady_eq c c1 st h
      have k1 : Keep15 c c1 := Keep15.of_view h3 (by rw [h4])
      cases st with
      | pending => exact ⟨k1, rfl⟩
      | err e => exact ⟨k1, rfl⟩
      | ok => exact ⟨k1.trans (ackAndApply_keep c1 v), rfl⟩
  unfold settingsPollSendT
  rcases hR : settingsRemotePartT c with ⟨⟨c1, st⟩, e1⟩
  rw [hR] at hrem
  cases st with
  | ok =>
    dsimp only
    unfold settingsLocalPartT
    obtain ⟨l1, l2⟩ := hloc { c1 with settings := { c1.settings with remote := none } }
    exact ⟨(hrem.1.trans (Keep15.of_view rfl rfl)).trans l1, by simp [hrem.2, l2]⟩
  | pending => exact hrem
  | err e => exact hrem

theorem pollReadyT_keep (c : Conn) : Keep15 c (pollReadyT c).1.1 ∧ sentG (pollReadyT c).2 = [] := by
  obtain ⟨p1, p2⟩ := sendPendingPongT_keep c
  unfold pollReadyT
  rcases hP : sendPendingPongT c with ⟨⟨c1, st1⟩, e1⟩
  rw [hP] at p1 p2
  cases st1 with
  | pending => exact ⟨p1, p2⟩
  | err e => exact ⟨p1, p2⟩
  | ok =>
    dsimp only
    have q := sendPendingPing_keep c1
    rcases hQ : c1.sendPendingPing with ⟨c2, st2⟩
    rw [hQ] at q
    cases st2 with
    | pending => exact ⟨p1.trans q, p2⟩
    | err e => exact ⟨p1.trans q, p2⟩
    | ok =>
      dsimp only
      obtain ⟨s1, s2⟩ := settingsPollSendT_keep c2
      rcases hS : settingsPollSendT c2 with ⟨⟨c3, st3⟩, e2⟩
      rw [hS] at s1 s2
      cases st3 with
      | pending => exact ⟨(p1.trans q).trans s1, by simp [p2, s2]⟩
      | err e => exact ⟨(p1.trans q).trans s1, by simp [p2, s2]⟩
      | ok =>
        dsimp only
        have hv := view_pollSendPendingRefusal 4 c3.streams c3.codec.w c3.codec.io c3.cx
        rcases hR : Streams.pollSendPendingRefusal 4 c3.streams c3.codec.w c3.codec.io c3.cx with ⟨s, w, io, r⟩
        rw [hR] at hv
        exact ⟨((p1.trans q).trans s1).trans (Keep15.of_view rfl hv), by simp [p2, s2]⟩

-- ===================================================================== recv_frame / recv_settings

/-- `recv_frame` while `close_now` is unset keeps the invariant; the announced id can only go down
    (the ACK of the shutdown PING) -/
theorem recvFrame_step15 (c : Conn) (frame : Option Frame.Frame) (hi : GoAwayInv c) (hcn : c.goAway.closeNow = false) :
    Step15 c (c.recvFrame frame).1 := by
  have lift : ∀ (r : Streams × Except PErr Unit), view r.1 = view c.streams →
      Step15 c (match r with
        | (s, .ok _) => (({ c with streams := s } : Conn), (Except.ok Conn.ReceivedFrame.continue : Except PErr Conn.ReceivedFrame))
        | (s, .error e) => ({ c with streams := s }, Except.error e)).1 := by
    intro r hv
    rcases r with ⟨s, r⟩
    cases r <;> exact (Keep15.of_view rfl hv).step hi
  unfold Conn.recvFrame
  cases frame with
  | none => exact (Keep15.of_view rfl (by simp [view_recvEof]; sorry)).step hi
  | some f => sorry

end H2V.Lemmas.ConnCtlP
