import H2V.Model.ConnStreams
/-
  ConnCtlP, view lemmas part 0 — the configuration-like part of the stream layer (`View`): fields
  that only a handful of functions write (`last_processed_id`, the two `max_stream_id`s, the peer
  role, the concurrency limits, the initial window sizes, the push switches, `conn_error`).
  Frame lemmas `view (f s …) = view s` for the primitives of ConnStore.lean; the files
  ConnCtlPViewSend / ViewRecv / ViewStreams lift them through prioritize.rs / send.rs / recv.rs /
  streams.rs.
-/
set_option autoImplicit false
set_option linter.unusedSimpArgs false
namespace H2V.Lemmas.ConnCtlP
open H2V H2V.Model H2V.Model.Conn

/-- the configuration-like part of `Streams` -/
structure View where
  lpi : Nat            -- `recv.last_processed_id`
  rmax : Nat           -- `recv.max_stream_id`
  smax : Nat           -- `send.max_stream_id`
  isServer : Bool
  maxSend : Nat        -- `counts.max_send_streams`
  maxRecv : Nat        -- `counts.max_recv_streams`
  sInitWin : Nat       -- `send.init_window_sz`
  rInitWin : Nat       -- `recv.init_window_sz`
  sPush : Bool         -- `send.is_push_enabled`
  rPush : Bool         -- `recv.is_push_enabled`
  connErr : Option PErr
  deriving DecidableEq

def view (s : Streams) : View :=
  { lpi := s.actions.recv.lastProcessedId, rmax := s.actions.recv.maxStreamId, smax := s.actions.send.maxStreamId,
    isServer := s.counts.isServer, maxSend := s.counts.maxSendStreams, maxRecv := s.counts.maxRecvStreams,
    sInitWin := s.actions.send.initWindowSz, rInitWin := s.actions.recv.initWindowSz,
    sPush := s.actions.send.isPushEnabled, rPush := s.actions.recv.isPushEnabled, connErr := s.actions.connError }

/-- a `Counts` update that keeps the role and the limits -/
def CountsKeep (c c' : Counts) : Prop :=
  c'.isServer = c.isServer ∧ c'.maxSendStreams = c.maxSendStreams ∧ c'.maxRecvStreams = c.maxRecvStreams

@[simp] theorem view_panic (s : Streams) (m : String) : view (s.panic m) = view s := by
  unfold Streams.panic; split <;> rfl
@[simp] theorem view_unsup (s : Streams) (m : String) : view (s.unsup m) = view s := by
  unfold Streams.unsup; split <;> rfl
@[simp] theorem view_wake (s : Streams) (t : List String) : view (s.wake t) = view s := rfl
@[simp] theorem view_notifyTask (s : Streams) : view s.notifyTask = view s := by
  unfold Streams.notifyTask; split <;> rfl
@[simp] theorem view_setStream (s : Streams) (st : Stream) : view (s.setStream st) = view s := rfl
@[simp] theorem view_modStream (s : Streams) (id : Nat) (f : Stream → Stream) : view (s.modStream id f) = view s := by
  unfold Streams.modStream; split <;> simp
@[simp] theorem view_modStreamW (s : Streams) (id : Nat) (f : Stream → Stream × List String) :
    view (s.modStreamW id f) = view s := by
  unfold Streams.modStreamW; split <;> simp
@[simp] theorem view_modPrio (s : Streams) (f : Prioritize → Prioritize) : view (s.modPrio f) = view s := rfl
@[simp] theorem view_setQ (s : Streams) (q : QName) (l : List Nat) : view (s.setQ q l) = view s := by
  cases q <;> rfl
@[simp] theorem view_qPush (s : Streams) (q : QName) (id : Nat) : view (s.qPush q id).1 = view s := by
  unfold Streams.qPush; split <;> simp
@[simp] theorem view_qPushFront (s : Streams) (q : QName) (id : Nat) : view (s.qPushFront q id).1 = view s := by
  unfold Streams.qPushFront; split <;> simp
@[simp] theorem view_qPop (s : Streams) (q : QName) : view (s.qPop q).1 = view s := by
  unfold Streams.qPop; split <;> simp
@[simp] theorem view_store (s : Streams) (st : Store) : view { s with store := st } = view s := rfl
@[simp] theorem view_refs (s : Streams) (n : Nat) : view { s with refs := n } = view s := rfl

theorem view_modCounts (s : Streams) (f : Counts → Counts) (hf : ∀ c, CountsKeep c (f c)) :
    view (s.modCounts f) = view s := by
  obtain ⟨h1, h2, h3⟩ := hf s.counts
  simp [view, Streams.modCounts, h1, h2, h3]

theorem view_modCountsA (s : Streams) (w : String) (f : Counts → Option Counts)
    (hf : ∀ c c', f c = some c' → CountsKeep c c') : view (s.modCountsA w f) = view s := by
  unfold Streams.modCountsA
  split
  · rename_i c' h
    obtain ⟨h1, h2, h3⟩ := hf _ _ h
    simp [view, h1, h2, h3]
  · simp

end H2V.Lemmas.ConnCtlP
