import H2V.Lemmas.ConnFlowPInv
/-
  ConnFlowP, part 4 — the capacity-moving functions of `prioritize.rs` keep `SafeInv`:
  `try_assign_capacity`, `assign_connection_capacity`, `reserve_capacity`, `reclaim_all_capacity`,
  `reclaim_reserved_capacity`.  Also the tactic `safe_auto` (the `SafeInv` analogue of `fr_auto`).
-/
namespace H2V.Lemmas.ConnFlowP
open H2V H2V.Model H2V.Model.Conn H2V.Lemmas.Comp

-- ===================================================================== tactic

/-- function-level preservation lemmas (extended below and in later files) -/
syntax "safe_peel" : tactic
macro_rules | `(tactic| safe_peel) => `(tactic| fail "safe_peel: no rule applies")

theorem SafeInvG.of_fst_eq {α : Type} {g : Int} {p : Streams × α} {t' : Streams} {r : α} (he : p = (t', r))
    (h : SafeInvG g p.1) : SafeInvG g t' := by
  subst he; exact h

/-- close the goal `SafeInvG g X`, peel a flow function, or peel a frame primitive -/
macro "safe_step" : tactic => `(tactic| first
  | with_reducible assumption
  | (guard_not_mk; safe_peel)
  | apply_ih
  | (with_reducible apply SafeInvG.fr; (· fr_peel; with_reducible exact Fr.refl _))
  | (with_reducible apply SafeInvG.of_fst_eq; (· with_reducible assumption)))

macro "safe_auto" : tactic => `(tactic| repeat' (first | safe_step | split | dsimp only))

-- ===================================================================== arithmetic

/-- `omega` after exposing the `i32` bounds -/
macro "omega32" : tactic => `(tactic| ((try simp only [I32_MAX, I32_MIN] at *); omega))

theorem asSize_eq (w : Window) : w.asSize = w.val.toNat := by
  unfold Window.asSize; split <;> omega

theorem u32AsI32_small {x : Nat} (h : x ≤ 2147483647) : u32AsI32 x = (x : Int) := by
  unfold u32AsI32 U32_MOD; simp only; split <;> omega

theorem wrapSubU32_le {a b : Nat} (ha : a < 4294967296) (hb : b ≤ a) : wrapSubU32 a b = a - b := by
  unfold wrapSubU32 U32_MOD; omega

theorem usizeAsU32_small {x : Nat} (h : x < 4294967296) : usizeAsU32 x = x := by
  unfold usizeAsU32 U32_MOD; omega

theorem FlOk.asSize_le {f : FlowControl} (h : FlOk f) : f.available.asSize ≤ f.windowSz := by
  have := h.av0; have := h.avw; have := h.whi
  unfold FlowControl.windowSz
  rw [asSize_eq, asSize_eq]
  omega

theorem FlOk.windowSz_lt {f : FlowControl} (h : FlOk f) : f.windowSz ≤ 2147483647 := by
  have := h.whi
  unfold FlowControl.windowSz I32_MAX at *
  rw [asSize_eq]; omega

/-- assigning at most `window − available` to a stream -/
theorem flOk_assign {f : FlowControl} (hf : FlOk f) {n : Nat}
    (hn : n ≤ wrapSubU32 f.windowSz f.available.asSize) :
    FlOk (f.assignCapacity n).1 ∧ (f.assignCapacity n).1.available.val = f.available.val + n ∧
      (f.assignCapacity n).1.windowSize = f.windowSize := by
  have h1 := hf.asSize_le
  have h2 := hf.windowSz_lt
  rw [wrapSubU32_le (by omega) h1] at hn
  have h0 := hf.av0; have hw := hf.avw; have hlo := hf.wlo; have hhi := hf.whi
  unfold FlowControl.windowSz at *
  rw [asSize_eq] at h1 h2 hn
  rw [asSize_eq] at h1 hn
  have hs : u32AsI32 n = (n : Int) := u32AsI32_small (by omega)
  rw [Flow.assignCapacity_eq, hs]
  unfold I32_MAX I32_MIN at *
  have hin : inI32 (f.available.val + (n : Int)) = true := (inI32_iff _).2 (by omega)
  rw [if_pos hin]
  refine ⟨⟨?_, ?_, ?_, ?_⟩, rfl, rfl⟩ <;> simp only <;> omega32

/-- the connection gives away at most what it has -/
theorem conn_claim {f : FlowControl} (h0 : 0 ≤ f.available.val) (hhi : f.available.val ≤ I32_MAX) {n : Nat}
    (hn : n ≤ f.available.asSize) :
    (f.claimCapacity n).1.available.val = f.available.val - n ∧ (f.claimCapacity n).1.windowSize = f.windowSize := by
  rw [asSize_eq] at hn
  unfold I32_MAX at hhi
  have hs : u32AsI32 n = (n : Int) := u32AsI32_small (by omega)
  rw [Flow.claimCapacity_eq, hs]
  have hin : inI32 (f.available.val - (n : Int)) = true := (inI32_iff _).2 (by omega)
  rw [if_pos hin]
  exact ⟨rfl, rfl⟩

/-- a stream gives back at most what it holds -/
theorem flOk_claim {f : FlowControl} (hf : FlOk f) {n : Nat} (hn : n ≤ f.available.asSize) :
    FlOk (f.claimCapacity n).1 ∧ (f.claimCapacity n).1.available.val = f.available.val - n ∧
      (f.claimCapacity n).1.windowSize = f.windowSize := by
  have h1 := hf.asSize_le
  have h2 := hf.windowSz_lt
  have h0 := hf.av0; have hw := hf.avw; have hlo := hf.wlo; have hhi := hf.whi
  unfold FlowControl.windowSz at *
  rw [asSize_eq] at h1 h2 hn
  rw [asSize_eq] at h1
  have hs : u32AsI32 n = (n : Int) := u32AsI32_small (by omega)
  rw [Flow.claimCapacity_eq, hs]
  unfold I32_MAX I32_MIN at *
  have hin : inI32 (f.available.val - (n : Int)) = true := (inI32_iff _).2 (by omega)
  rw [if_pos hin]
  refine ⟨⟨?_, ?_, ?_, ?_⟩, rfl, rfl⟩ <;> simp only <;> omega32

/-- the connection takes back `n ≤ g` -/
theorem conn_assign {f : FlowControl} (h0 : 0 ≤ f.available.val) {n : Nat}
    (hn : f.available.val + n ≤ I32_MAX) :
    (f.assignCapacity n).1.available.val = f.available.val + n ∧ (f.assignCapacity n).1.windowSize = f.windowSize := by
  unfold I32_MAX at hn
  have hs : u32AsI32 n = (n : Int) := u32AsI32_small (by omega)
  rw [Flow.assignCapacity_eq, hs]
  have hin : inI32 (f.available.val + (n : Int)) = true := (inI32_iff _).2 (by omega)
  rw [if_pos hin]
  exact ⟨rfl, rfl⟩

-- ===================================================================== shapes

theorem stream_of_get {s : Streams} {id : Nat} {st : Stream} (h : s.store.get? id = some st) : s.stream id = st := by
  unfold Streams.stream; rw [h]; rfl

theorem assignCapacity_kf (x : Stream) (c m : Nat) :
    (x.assignCapacity c m).1.key = x.key ∧ (x.assignCapacity c m).1.sendFlow = (x.sendFlow.assignCapacity c).1 := by
  unfold Stream.assignCapacity; dsimp only; split
  · exact ⟨(notifyCapacity_kf _).1, (notifyCapacity_kf _).2⟩
  · exact ⟨rfl, rfl⟩

theorem panic_store (s : Streams) (m : String) : (s.panic m).store = s.store := by
  unfold Streams.panic; split <;> rfl
theorem panic_prio (s : Streams) (m : String) : (s.panic m).prio = s.prio := by
  unfold Streams.panic; split <;> rfl

theorem Upd.modStream {s : Streams} {id : Nat} {st : Stream} (hget : s.store.get? id = some st)
    (f : Stream → Stream) (hk : (f st).key = st.key) : Upd s (s.modStream id f) id st (f st) := by
  have hm := get?_mem hget
  refine ⟨hget, hk.trans hm.2, ?_, ?_⟩ <;> (unfold Streams.modStream; rw [hget]; rfl)

theorem Upd.modStreamW {s : Streams} {id : Nat} {st : Stream} (hget : s.store.get? id = some st)
    (f : Stream → Stream × List String) (hk : (f st).1.key = st.key) : Upd s (s.modStreamW id f) id st (f st).1 := by
  have hm := get?_mem hget
  refine ⟨hget, hk.trans hm.2, ?_, ?_⟩ <;> (unfold Streams.modStreamW; rw [hget]; rfl)

theorem Upd.modPrio {s s' : Streams} {id : Nat} {st st' : Stream} (h : Upd s s' id st st') (g : Prioritize → Prioritize) :
    Upd s (s'.modPrio g) id st st' := ⟨h.get, h.key, h.slab, h.next⟩

theorem modStream_prio (s : Streams) (id : Nat) (f : Stream → Stream) : (s.modStream id f).prio = s.prio := by
  unfold Streams.modStream; split
  · rfl
  · exact panic_prio _ _

theorem modStreamW_prio (s : Streams) (id : Nat) (f : Stream → Stream × List String) :
    (s.modStreamW id f).prio = s.prio := by
  unfold Streams.modStreamW; split
  · rfl
  · exact panic_prio _ _

theorem modStream_none {s : Streams} {id : Nat} (h : s.store.get? id = none) (f : Stream → Stream) :
    s.modStream id f = s.panic s!"dangling store key {id}" := by
  unfold Streams.modStream; rw [h]

theorem modStreamW_none {s : Streams} {id : Nat} (h : s.store.get? id = none) (f : Stream → Stream × List String) :
    s.modStreamW id f = s.panic s!"dangling store key {id}" := by
  unfold Streams.modStreamW; rw [h]

-- ===================================================================== the moves

theorem SafeInvG.av_le {g : Int} {s : Streams} (h : SafeInvG g s) :
    s.prio.flow.available.val + g ≤ s.prio.flow.windowSize.val := by
  have := sumAv_nonneg (fun x hx => (h.st x hx).av0)
  have := h.ledger; omega

theorem SafeInvG.st_le {g : Int} {s : Streams} (h : SafeInvG g s) {x : Stream} (hx : x ∈ s.store.slab) :
    x.sendFlow.available.val + s.prio.flow.available.val + g ≤ s.prio.flow.windowSize.val := by
  have := mem_le_sumAv (fun x hx => (h.st x hx).av0) hx
  have := h.ledger; omega

/-- connection → stream (`try_assign_capacity`) -/
theorem assign_step {s : Streams} (h : SafeInv s) (id n m : Nat)
    (h1 : n ≤ s.prio.flow.available.asSize)
    (h2 : n ≤ wrapSubU32 (s.stream id).sendFlow.windowSz (s.stream id).sendFlow.available.asSize) :
    SafeInv ((s.modStreamW id fun st => st.assignCapacity n m).modPrio
      fun p => { p with flow := (p.flow.claimCapacity n).1 }) := by
  have hA := h.av_le
  have hA0 := h.a0
  have hc := conn_claim h.a0 (by have := h.whi; omega32) h1
  cases hget : s.store.get? id with
  | none =>
    rw [modStreamW_none hget]
    refine h.conn (panic_store _ _) (Int.le_refl _) ?_ ?_ ?_
    · show 0 ≤ ((s.panic _).prio.flow.claimCapacity n).1.available.val
      rw [panic_prio, hc.1]; rw [asSize_eq] at h1; omega
    · show ((s.panic _).prio.flow.claimCapacity n).1.windowSize.val ≤ _
      rw [panic_prio, hc.2]; exact h.whi
    · show ((s.panic _).prio.flow.claimCapacity n).1.available.val - _ + _ ≤
        ((s.panic _).prio.flow.claimCapacity n).1.windowSize.val - _
      rw [panic_prio, hc.1, hc.2]; omega
  | some st =>
    have hm := get?_mem hget
    rw [stream_of_get hget] at h2
    have hkf := assignCapacity_kf st n m
    have hf := flOk_assign (h.st st hm.1) h2
    have hu := (Upd.modStreamW hget (fun st => st.assignCapacity n m) hkf.1).modPrio
      (fun p => { p with flow := (p.flow.claimCapacity n).1 })
    refine h.upd hu (Int.le_refl _) (by rw [hkf.2]; exact hf.1) ?_ ?_ ?_
    · show 0 ≤ ((s.modStreamW id _).prio.flow.claimCapacity n).1.available.val
      rw [modStreamW_prio, hc.1]; rw [asSize_eq] at h1; omega
    · show ((s.modStreamW id _).prio.flow.claimCapacity n).1.windowSize.val ≤ _
      rw [modStreamW_prio, hc.2]; exact h.whi
    · show _ + (((s.modStreamW id _).prio.flow.claimCapacity n).1.available.val - _) + _ ≤
        ((s.modStreamW id _).prio.flow.claimCapacity n).1.windowSize.val - _
      rw [modStreamW_prio, hc.1, hc.2, hkf.2, hf.2.1]; omega

theorem SafeInv.tryAssignCapacity {s : Streams} (h : SafeInv s) (id : Nat) : SafeInv (s.tryAssignCapacity id) := by
  unfold Streams.tryAssignCapacity
  dsimp only
  split
  · exact h
  split
  · exact h
  split
  · exact h
  generalize hS1 : (if _ > 0 then _ else s) = S1
  refine SafeInvG.fr (s := S1) (by fr_auto) ?_
  subst hS1
  split
  · exact assign_step h id _ _ (Nat.min_le_left ..) (Nat.le_trans (Nat.min_le_right ..) (Nat.min_le_right ..))
  · exact h

macro_rules | `(tactic| safe_peel) => `(tactic| with_reducible apply SafeInv.tryAssignCapacity)

theorem SafeInv.assignConnectionCapacityLoop (fuel : Nat) :
    ∀ {s : Streams}, SafeInv s → SafeInv (Streams.assignConnectionCapacityLoop fuel s) := by
  induction fuel with
  | zero => intro s h; exact h
  | succ n ih =>
    intro s h
    unfold Streams.assignConnectionCapacityLoop
    dsimp only
    safe_auto

macro_rules | `(tactic| safe_peel) => `(tactic| with_reducible apply SafeInv.assignConnectionCapacityLoop)

/-- `assign_connection_capacity(inc)` hands `inc` units, which some caller took from a stream or got
    from the peer (`g = inc`), back to the connection and on to waiting streams -/
theorem SafeInvG.assignConnectionCapacity {s : Streams} {inc : Nat} (h : SafeInvG inc s) :
    SafeInv (s.assignConnectionCapacity inc) := by
  unfold Streams.assignConnectionCapacity
  dsimp only
  apply SafeInv.assignConnectionCapacityLoop
  have hA := h.av_le
  have hA0 := h.a0
  have hW := h.whi
  have hc := conn_assign (f := s.prio.flow) h.a0 (n := inc) (by omega)
  refine h.conn rfl (Int.le_refl _) ?_ ?_ ?_
  · show 0 ≤ (s.prio.flow.assignCapacity inc).1.available.val
    rw [hc.1]; omega
  · show (s.prio.flow.assignCapacity inc).1.windowSize.val ≤ _
    rw [hc.2]; exact hW
  · show (s.prio.flow.assignCapacity inc).1.available.val - _ + _ ≤ (s.prio.flow.assignCapacity inc).1.windowSize.val - _
    rw [hc.1, hc.2]; omega

macro_rules | `(tactic| safe_peel) => `(tactic| with_reducible apply SafeInvG.assignConnectionCapacity)

/-- stream → pending credit: `claim_capacity(n)` on a stream that holds at least `n` -/
theorem claim_step {s : Streams} (h : SafeInv s) (id n : Nat) (hn : n ≤ (s.stream id).sendFlow.available.asSize) :
    SafeInvG n (s.modStream id fun st => { st with sendFlow := (st.sendFlow.claimCapacity n).1 }) := by
  cases hget : s.store.get? id with
  | none =>
    have : s.stream id = { key := id, id := 0 } := by unfold Streams.stream; rw [hget]; rfl
    rw [this] at hn
    have hn0 : n = 0 := by
      have : ({ key := id, id := 0 } : Stream).sendFlow.available.asSize = 0 := rfl
      omega
    subst hn0
    rw [modStream_none hget]
    exact h.fr ((Fr.refl _).panic _)
  | some st =>
    have hm := get?_mem hget
    rw [stream_of_get hget] at hn
    have hf := flOk_claim (h.st st hm.1) hn
    have hu := Upd.modStream hget (fun st => { st with sendFlow := (st.sendFlow.claimCapacity n).1 }) rfl
    refine h.upd hu (Int.natCast_nonneg _) hf.1 ?_ ?_ ?_
    · rw [modStream_prio]; exact h.a0
    · rw [modStream_prio]; exact h.whi
    · rw [modStream_prio]
      show (st.sendFlow.claimCapacity n).1.available.val - _ + _ + _ ≤ _
      rw [hf.2.1]; omega

theorem SafeInv.reclaimAllCapacity {s : Streams} (h : SafeInv s) (id : Nat) : SafeInv (s.reclaimAllCapacity id) := by
  unfold Streams.reclaimAllCapacity
  dsimp only
  split
  · exact (claim_step h id _ (Nat.le_refl _)).assignConnectionCapacity
  · exact h

-- ----------------------------------------------------------------- looking a stream up after an update

theorem find?_map_set_self {k : Nat} {st' : Stream} (hk : st'.key = k) :
    ∀ (l : List Stream) {st : Stream}, l.find? (fun x => x.key == k) = some st →
      (l.map fun x => if x.key == st'.key then st' else x).find? (fun x => x.key == k) = some st'
  | [], _, h => by simp at h
  | x :: t, st, h => by
    simp only [List.map_cons, List.find?_cons] at h ⊢
    by_cases hx : x.key = k
    · simp [hx, hk]
    · have hx' : (x.key == k) = false := by simpa using hx
      have hx'' : (x.key == st'.key) = false := by rw [hk]; exact hx'
      simp only [hx'] at h
      simp only [hx'', Bool.false_eq_true, if_false, hx']
      exact find?_map_set_self hk t h

theorem get?_set_self {a : Store} {k : Nat} {st : Stream} (h : a.get? k = some st) {st' : Stream} (hk : st'.key = k) :
    (a.set st').get? k = some st' := by
  unfold Store.get? Store.set at *
  exact find?_map_set_self hk _ h

theorem find?_map_set_other {k : Nat} {st' : Stream} (hk : k ≠ st'.key) :
    ∀ (l : List Stream), (l.map fun x => if x.key == st'.key then st' else x).find? (fun x => x.key == k) =
      l.find? (fun x => x.key == k)
  | [] => rfl
  | x :: t => by
    simp only [List.map_cons, List.find?_cons]
    by_cases hx : x.key = st'.key
    · have h1 : (x.key == st'.key) = true := by simpa using hx
      have h2 : (st'.key == k) = false := by simpa using (Ne.symm hk)
      have h3 : (x.key == k) = false := by rw [hx]; exact h2
      simp only [h1, if_true, h2, h3]
      exact find?_map_set_other hk t
    · have h1 : (x.key == st'.key) = false := by simpa using hx
      simp only [h1, Bool.false_eq_true, if_false]
      cases (x.key == k)
      · exact find?_map_set_other hk t
      · rfl

theorem get?_set_other (a : Store) (st' : Stream) {k : Nat} (hk : k ≠ st'.key) : (a.set st').get? k = a.get? k := by
  unfold Store.get? Store.set
  exact find?_map_set_other hk _

theorem stream_panic (s : Streams) (m : String) (k : Nat) : (s.panic m).stream k = s.stream k := by
  unfold Streams.stream; rw [panic_store]

/-- the entry `modStream` wrote -/
theorem stream_modStream_self {s : Streams} {id : Nat} {st : Stream} (h : s.store.get? id = some st)
    (f : Stream → Stream) (hk : (f st).key = st.key) : (s.modStream id f).stream id = f st := by
  have hm := get?_mem h
  unfold Streams.modStream; rw [h]
  unfold Streams.stream Streams.setStream
  simp only
  rw [get?_set_self h (hk.trans hm.2)]; rfl

theorem stream_modStream_other {s : Streams} {id k : Nat} (f : Stream → Stream) (hf : ∀ x, (f x).key = x.key)
    (hk : k ≠ id) : (s.modStream id f).stream k = s.stream k := by
  unfold Streams.modStream
  split
  · rename_i st h
    have hm := get?_mem h
    unfold Streams.stream Streams.setStream
    simp only
    rw [get?_set_other _ _ (by rw [hf, hm.2]; exact hk)]
  · exact stream_panic _ _ _

/-- a key/flow preserving update does not change the send flow one reads back -/
theorem stream_modStream_flow {s : Streams} (id k : Nat) (f : Stream → Stream) (hf : NoFlow f) :
    ((s.modStream id f).stream k).sendFlow = (s.stream k).sendFlow := by
  by_cases hk : k = id
  · subst hk
    cases h : s.store.get? k with
    | none => rw [modStream_none h, stream_panic]
    | some st => rw [stream_modStream_self h f (hf st).1, stream_of_get h, (hf st).2]
  · rw [stream_modStream_other f (fun x => (hf x).1) hk]

theorem SafeInvG.stream_ok {g : Int} {s : Streams} (h : SafeInvG g s) (id : Nat) : FlOk (s.stream id).sendFlow := by
  cases hg : s.store.get? id with
  | none =>
    have : s.stream id = { key := id, id := 0 } := by unfold Streams.stream; rw [hg]; rfl
    rw [this]
    exact ⟨Int.le_refl _, fun h => absurd h (Int.lt_irrefl 0), by show I32_MIN ≤ (0 : Int); decide,
      by show (0 : Int) ≤ I32_MAX; decide⟩
  | some st => rw [stream_of_get hg]; exact h.st st (get?_mem hg).1

/-- `claim_step` with the new flow computed outside the closure -/
theorem claim_step_const {s : Streams} (h : SafeInv s) (id n : Nat) (hn : n ≤ (s.stream id).sendFlow.available.asSize) :
    SafeInvG n (s.modStream id fun st => { st with sendFlow := ((s.stream id).sendFlow.claimCapacity n).1 }) := by
  cases hget : s.store.get? id with
  | none =>
    have : s.stream id = { key := id, id := 0 } := by unfold Streams.stream; rw [hget]; rfl
    rw [this] at hn
    have hn0 : n = 0 := by
      have : ({ key := id, id := 0 } : Stream).sendFlow.available.asSize = 0 := rfl
      omega
    subst hn0
    rw [modStream_none hget]
    exact h.fr ((Fr.refl _).panic _)
  | some st =>
    have := claim_step h id n hn
    unfold Streams.modStream at this ⊢
    rw [hget] at this ⊢
    rw [stream_of_get hget]
    exact this

theorem SafeInv.reclaimReservedCapacity {s : Streams} (h : SafeInv s) (id : Nat) :
    SafeInv (s.reclaimReservedCapacity id) := by
  unfold Streams.reclaimReservedCapacity
  dsimp only
  split
  · rename_i hgt
    have hlt := (h.stream_ok id).windowSz_lt
    have hle := (h.stream_ok id).asSize_le
    have hres : wrapSubU32 (s.stream id).sendFlow.available.asSize (usizeAsU32 (s.stream id).bufferedSendData) ≤
        (s.stream id).sendFlow.available.asSize := by
      rw [usizeAsU32_small (by omega), wrapSubU32_le (by omega) (by omega)]; omega
    apply SafeInvG.assignConnectionCapacity
    split
    · exact claim_step_const h id _ hres
    · have h' : SafeInv (s.panic "window size should be greater than reserved") := h.fr ((Fr.refl _).panic _)
      have := claim_step_const h' id _ (by rw [stream_panic]; exact hres)
      rw [stream_panic] at this; exact this
  · exact h

theorem SafeInv.reserveCapacity {s : Streams} (h : SafeInv s) (id capacity : Nat) :
    SafeInv (s.reserveCapacity id capacity) := by
  unfold Streams.reserveCapacity
  dsimp only
  split
  · exact h
  split
  · split
    · rename_i hgt
      have hlt := (h.stream_ok id).windowSz_lt
      have hle := (h.stream_ok id).asSize_le
      apply SafeInvG.assignConnectionCapacity
      have h1 : SafeInv (s.modStream id fun st =>
          { st with requestedSendCapacity := usizeAsU32 (capacity + (s.stream id).bufferedSendData) }) :=
        h.fr ((Fr.refl _).modStream _ _ (fun _ => ⟨rfl, rfl⟩))
      refine claim_step h1 id _ ?_
      have e := stream_modStream_flow (s := s) id id (fun st : Stream =>
        { st with requestedSendCapacity := usizeAsU32 (capacity + (s.stream id).bufferedSendData) }) (fun _ => ⟨rfl, rfl⟩)
      rw [e]
      rw [usizeAsU32_small (by omega), wrapSubU32_le (by omega) (by omega)]; omega
    · safe_auto
  · safe_auto

macro_rules | `(tactic| safe_peel) => `(tactic| first
  | with_reducible apply SafeInv.reclaimAllCapacity
  | with_reducible apply SafeInv.reclaimReservedCapacity
  | with_reducible apply SafeInv.reserveCapacity)

end H2V.Lemmas.ConnFlowP
