import H2V.Lemmas.CodecBytes
/-
  Codec lemmas, part 2 (goal A): what `encodeSimple` writes is read back by the reference parser
  `Spec.Frame.parse` as the frame that was meant.
-/
namespace H2V.Lemmas.Codec
open H2V H2V.Model.Frame

/-- the RFC-level frame a decoded/encodable model frame stands for (header frames carry a decoded
    block in the model and an opaque fragment in the spec: no correspondence at this level) -/
def toSpec : Model.Frame.Frame → Option Spec.Frame.Frame
  | .data sid payload eos padLen => some (.data sid eos padLen payload)
  | .priority sid dep weight excl => some (.priority sid ⟨excl, dep, weight⟩)
  | .reset sid code => some (.rstStream sid code)
  | .settings ack vals => some (.settings ack vals)
  | .ping ack p => some (.ping ack p)
  | .goAway last code dbg => some (.goaway last code dbg)
  | .windowUpdate sid inc => some (.windowUpdate sid inc)
  | .headers .. => none
  | .pushPromise .. => none

theorem flag_ite_one (b : Bool) : Spec.Frame.flag (if b then 1 else 0) 1 = b := by
  cases b <;> rfl
theorem flag_ite_one_8 (b : Bool) : Spec.Frame.flag (if b then 1 else 0) 8 = false := by
  cases b <;> rfl

-- ===================================================================== DATA

/-- DATA: `sid` a real stream, payload within the 24-bit length field -/
theorem parse_encode_data (sid : Nat) (payload : Bytes) (eos : Bool) (pad : Option Nat)
    (hs0 : sid ≠ 0) (hs : sid < 2 ^ 31) (hp : payload.length < 2 ^ 24) :
    ∃ bytes, encodeSimple (.data sid payload eos pad) = some bytes ∧
      Spec.Frame.parse bytes = some (.ok (.data sid eos none payload)) := by
  refine ⟨_, rfl, ?_⟩
  rw [parse_head_encode _ _ hs hp]
  simp [Spec.Frame.ofParts, hs0, Spec.Frame.unpad, flag_ite_one, flag_ite_one_8]

-- ===================================================================== PING

theorem parse_encode_ping (ack : Bool) (p : Bytes) (hp : p.length = 8) :
    ∃ bytes, encodeSimple (.ping ack p) = some bytes ∧
      Spec.Frame.parse bytes = some (.ok (.ping ack p)) := by
  refine ⟨_, rfl, ?_⟩
  have := parse_head_encode (Head.mk 6 (if ack then 1 else 0) 0) p (by simp) (by omega)
  rw [hp] at this
  rw [this]
  simp [Spec.Frame.ofParts, hp, flag_ite_one]

-- ===================================================================== GOAWAY

theorem parse_encode_goaway (last code : Nat) (dbg : Bytes)
    (hl : last < 2 ^ 31) (hc : code < 2 ^ 32) (hd : 8 + dbg.length < 2 ^ 24) :
    ∃ bytes, encodeSimple (.goAway last code dbg) = some bytes ∧
      Spec.Frame.parse bytes = some (.ok (.goaway last code dbg)) := by
  refine ⟨_, rfl, ?_⟩
  have := parse_head_encode (Head.mk 7 0 0) (be32 last ++ be32 code ++ dbg) (by decide) (by simpa using by omega)
  have hlen : (be32 last ++ be32 code ++ dbg).length = 8 + dbg.length := by simp; omega
  rw [hlen] at this
  simp only [List.append_assoc] at this ⊢
  rw [this]
  have h1 : Spec.Frame.u31 (be32 last ++ (be32 code ++ dbg)) = last := be32_u31 last hl _
  have h2 : (be32 last ++ (be32 code ++ dbg)).drop 4 = be32 code ++ dbg := rfl
  have h3 : (be32 last ++ (be32 code ++ dbg)).drop 8 = dbg := rfl
  have h4 : ¬ ((be32 last ++ (be32 code ++ dbg)).length < 8) := by simp; omega
  simp only [Spec.Frame.ofParts, h1, h2, h3, be32_u32 code hc]
  simp
  omega

-- ===================================================================== WINDOW_UPDATE

theorem parse_encode_window_update (sid inc : Nat)
    (hs : sid < 2 ^ 31) (hi0 : inc ≠ 0) (hi : inc < 2 ^ 31) :
    ∃ bytes, encodeSimple (.windowUpdate sid inc) = some bytes ∧
      Spec.Frame.parse bytes = some (.ok (.windowUpdate sid inc)) := by
  refine ⟨_, rfl, ?_⟩
  have := parse_head_encode (Head.mk 8 0 sid) (be32 inc) hs (by simp)
  simp only [be32_length] at this
  rw [this]
  have h1 : Spec.Frame.u31 (be32 inc) = inc := by simpa using be32_u31 inc hi []
  simp [Spec.Frame.ofParts, h1, hi0]

-- ===================================================================== RST_STREAM

theorem parse_encode_reset (sid code : Nat)
    (hs0 : sid ≠ 0) (hs : sid < 2 ^ 31) (hc : code < 2 ^ 32) :
    ∃ bytes, encodeSimple (.reset sid code) = some bytes ∧
      Spec.Frame.parse bytes = some (.ok (.rstStream sid code)) := by
  refine ⟨_, rfl, ?_⟩
  have := parse_head_encode (Head.mk 3 0 sid) (be32 code) hs (by simp)
  simp only [be32_length] at this
  rw [this]
  have h1 : Spec.Frame.u32 (be32 code) = code := by simpa using be32_u32 code hc []
  simp [Spec.Frame.ofParts, h1, hs0]

-- ===================================================================== SETTINGS

/-- the values h2's own setters produce (`set_enable_push(bool)`, `set_initial_window_size` ≤ 2^31-1,
    `set_max_frame_size` asserts 2^14 ≤ v ≤ 2^24-1, `set_enable_connect_protocol` ≤ 1), all u32 -/
def SettingOK (p : Nat × Nat) : Prop :=
  p.2 < 2 ^ 32 ∧ (p.1 = 2 ∨ p.1 = 8 → p.2 ≤ 1) ∧ (p.1 = 4 → p.2 ≤ 2 ^ 31 - 1) ∧
    (p.1 = 5 → 2 ^ 14 ≤ p.2 ∧ p.2 ≤ 2 ^ 24 - 1)

instance (p : Nat × Nat) : Decidable (SettingOK p) := by unfold SettingOK; infer_instance

theorem paramViolation_of_ok (p : Nat × Nat) (h : SettingOK p) : Spec.Frame.paramViolation p = none := by
  obtain ⟨_, h28, h4, h5⟩ := h
  unfold Spec.Frame.paramViolation
  split
  · have := h28 (Or.inl rfl); simp at this ⊢; omega
  · have := h4 rfl; simp at this ⊢; omega
  · have := h5 rfl; simp at this ⊢; omega
  · have := h28 (Or.inr rfl); simp at this ⊢; omega
  · rfl

theorem mem_settingsOrder {vals : List (Nat × Nat)} {p : Nat × Nat} (h : p ∈ settingsOrder vals) :
    p ∈ vals ∧ p.1 ∈ [1, 2, 3, 4, 5, 6, 8] := by
  unfold settingsOrder at h
  rw [List.mem_filterMap] at h
  obtain ⟨id, hid, hf⟩ := h
  have h1 := List.mem_of_find?_eq_some hf
  have h2 := List.find?_some hf
  simp only [decide_eq_true_eq] at h2
  exact ⟨h1, h2 ▸ hid⟩

theorem settingsOrder_length_le (vals : List (Nat × Nat)) : (settingsOrder vals).length ≤ 7 := by
  unfold settingsOrder
  exact Nat.le_trans (List.length_filterMap_le _ _) (by simp)

theorem flatMap_setting_length (l : List (Nat × Nat)) :
    (l.flatMap fun (id, v) => be16 id ++ be32 v).length = 6 * l.length := by
  induction l with
  | nil => rfl
  | cons x xs ih => simp only [List.flatMap_cons, List.length_append, ih, be16_length, be32_length, List.length_cons]; omega

theorem settingsPayload_length (vals : List (Nat × Nat)) :
    (settingsPayload vals).length = 6 * (settingsOrder vals).length := flatMap_setting_length _

/-- reading the parameter list back -/
theorem params_flatMap (l : List (Nat × Nat)) (n : Nat) (hn : l.length ≤ n)
    (hr : ∀ p ∈ l, p.1 < 2 ^ 16 ∧ p.2 < 2 ^ 32) :
    Spec.Frame.params n (l.flatMap fun (id, v) => be16 id ++ be32 v) = l := by
  induction l generalizing n with
  | nil => cases n <;> simp [Spec.Frame.params]
  | cons x xs ih =>
    obtain ⟨id, v⟩ := x
    cases n with
    | zero => simp at hn
    | succ n =>
      have hx := hr (id, v) (List.mem_cons_self ..)
      simp only [List.flatMap_cons, Spec.Frame.params]
      have hl : ¬ ((be16 id ++ be32 v ++ List.flatMap (fun x => be16 x.1 ++ be32 x.2) xs).length < 6) := by
        simp only [List.length_append, be16_length, be32_length]; omega
      have h16 : Spec.Frame.u16 (be16 id ++ be32 v ++ List.flatMap (fun x => be16 x.1 ++ be32 x.2) xs) = id := by
        rw [List.append_assoc]; exact be16_u16 id hx.1 _
      have hd2 : (be16 id ++ be32 v ++ List.flatMap (fun x => be16 x.1 ++ be32 x.2) xs).drop 2
          = be32 v ++ List.flatMap (fun x => be16 x.1 ++ be32 x.2) xs := rfl
      have hd6 : (be16 id ++ be32 v ++ List.flatMap (fun x => be16 x.1 ++ be32 x.2) xs).drop 6
          = List.flatMap (fun x => be16 x.1 ++ be32 x.2) xs := rfl
      rw [if_neg hl, h16, hd2, hd6, be32_u32 v hx.2]
      have := ih n (by simpa using hn) (fun p hp => hr p (List.mem_cons_of_mem _ hp))
      simp only at this
      rw [this]

/-- SETTINGS (not ACK): the reference parser reads the canonical parameter list back -/
theorem parse_encode_settings (vals : List (Nat × Nat)) (hv : ∀ p ∈ vals, SettingOK p) :
    ∃ bytes, encodeSimple (.settings false vals) = some bytes ∧
      Spec.Frame.parse bytes = some (.ok (.settings false (settingsOrder vals))) := by
  refine ⟨_, rfl, ?_⟩
  have hlen := settingsPayload_length vals
  have hle := settingsOrder_length_le vals
  rw [parse_head_encode _ _ (by decide) (by omega)]
  have hpar : Spec.Frame.params ((settingsPayload vals).length / 6) (settingsPayload vals) = settingsOrder vals := by
    unfold settingsPayload at hlen ⊢
    apply params_flatMap
    · omega
    · intro p hp
      obtain ⟨h1, h2⟩ := mem_settingsOrder hp
      refine ⟨?_, (hv p h1).1⟩
      simp at h2; omega
  have hviol : (settingsOrder vals).findSome? Spec.Frame.paramViolation = none := by
    rw [List.findSome?_eq_none_iff]
    intro p hp
    exact paramViolation_of_ok p (hv p (mem_settingsOrder hp).1)
  have hmod : ¬ ((settingsPayload vals).length % 6 ≠ 0) := by omega
  simp only [Spec.Frame.ofParts]
  rw [hpar, hviol]
  have hf : Spec.Frame.flag 0 1 = false := rfl
  simp [hmod, hf]

/-- SETTINGS ACK (`Settings::ack()`: no values) -/
theorem parse_encode_settings_ack :
    ∃ bytes, encodeSimple (.settings true []) = some bytes ∧
      Spec.Frame.parse bytes = some (.ok (.settings true [])) :=
  ⟨_, rfl, by
    rw [parse_head_encode _ _ (by simp) (by simp [settingsPayload, settingsOrder])]
    rfl⟩

-- ===================================================================== the octets are octets

theorem settingsPayload_valid (vals : List (Nat × Nat)) : Bytes.Valid (settingsPayload vals) := by
  unfold settingsPayload
  intro b hb
  rw [List.mem_flatMap] at hb
  obtain ⟨⟨id, v⟩, _, hb⟩ := hb
  exact valid_append (be16_valid id) (be32_valid v) b hb

/-- every octet `encodeSimple` emits is < 256 as soon as the opaque parts are -/
theorem encodeSimple_valid (f : Model.Frame.Frame) (bs : Bytes) (h : encodeSimple f = some bs)
    (hp : match f with
      | .data _ p _ _ => Bytes.Valid p
      | .ping _ p => Bytes.Valid p
      | .goAway _ _ d => Bytes.Valid d
      | _ => True) : Bytes.Valid bs := by
  cases f <;> simp only [encodeSimple, Option.some.injEq, reduceCtorEq] at h <;> subst h
  · rename_i sid p eos _
    exact valid_append (Head.encode_valid _ _ (by simp) (by cases eos <;> simp)) hp
  · exact valid_append (Head.encode_valid _ _ (by simp) (by simp)) (be32_valid _)
  · rename_i ack vals
    exact valid_append (Head.encode_valid _ _ (by simp) (by cases ack <;> simp)) (settingsPayload_valid _)
  · rename_i ack p
    exact valid_append (Head.encode_valid _ _ (by simp) (by cases ack <;> simp)) hp
  · exact valid_append (valid_append (valid_append (Head.encode_valid _ _ (by simp) (by simp)) (be32_valid _)) (be32_valid _)) hp
  · exact valid_append (Head.encode_valid _ _ (by simp) (by simp)) (be32_valid _)

end H2V.Lemmas.Codec
