import H2V.Lemmas.ConnWakePEndAll
import H2V.Lemmas.CompBasic
/-
  ConnWakeP, part 13 — concrete witnesses, all evaluated by `decide` on states reached through the
  model's own API functions from `Conn.init {}` (client, default builder).

  FINDING W1 (C07): `SendStream::poll_reset` on a stream that ended cleanly stays `Pending` for ever,
  also after the connection has died and been dropped.  `State::ensure_reason` answers `Ok(None)` for
  `Closed(EndStream)`; `transition_after` unlinked the stream from the id map when it closed (its
  handles keep it in the slab); `recv_eof` / `handle_error` only walk the id map — so the parked
  `send_task` is never woken and every later `poll_reset` parks again.
  Reproduced on the real code (h2v run):  cn_new client / cn_peer 000000040000000000 / cn_poll /
  cn_req 1 GET /a - / cn_poll / cn_peer 000001010500000001 88 / cn_poll / cn_pollreset 0 → pending /
  cn_eof / cn_poll / cn_dropconn / cn_pollreset 0 → pending, wk=-.

  W2 (benign, same mechanism on the receive side): `poll_trailers` called while DATA is still buffered
  parks `recv_task` on a closed, unlinked stream; the teardown does not wake it (the owner of the
  `RecvStream` un-parks itself with the next `poll_data`).
-/
namespace H2V.Lemmas.ConnWakeP
open H2V H2V.Model H2V.Model.Conn H2V.Lemmas.Comp

namespace W1
/-- client, default configuration -/
def w0 : Streams := (Conn.init {}).streams
/-- `send_request` with END_STREAM: stream key 0, id 1 -/
def w1 : Streams := (w0.sendRequest false [] true none).1
/-- the connection task opens the stream and pops its HEADERS frame -/
def w2 : Streams :=
  let s := w1.popPendingOpen.1
  let s := ((s.qPushFront .pendingSend 0).1).tryAssignCapacity 0
  (Streams.popFrame 4 s 16384).1
/-- the response head arrives with END_STREAM: `Closed(EndStream)`, unlinked, kept by its handles -/
def w3 : Streams := (w2.recvHeaders { sid := 1, eos := true, status := some [50, 48, 48] }).1
/-- the `SendStream` handle waits for a reset … -/
def w4 : Streams := (w3.pollReset 0 .streaming "s0").1
/-- … the connection dies and is dropped (`Drop for Connection` = `recv_eof(true)`) -/
def w5 : Streams := w4.recvEof true

theorem request_ok : (w0.sendRequest false [] true none).2 = .ok (0, false) := by decide
theorem ended_cleanly :
    (w3.stream 0).state = { inner := .closed .endStream } ∧ w3.store.ids = [] ∧ (w3.stream 0).refCount = 1 := by decide
theorem parked : (w3.pollReset 0 .streaming "s0").2 = .ok none ∧ (w4.stream 0).sendTask = some "s0" := by decide

/-- the connection is gone, nothing was woken, the waker is still parked, and polling again parks again -/
theorem pollReset_endStream_hangs_counterexample :
    w5.actions.connError.isSome = true ∧ w5.wakes = [] ∧ (w5.stream 0).sendTask = some "s0" ∧
    (w5.pollReset 0 .streaming "s0").2 = .ok none := by decide

/-- every other wait on that stream does resolve -/
theorem others_resolve :
    (w5.pollCapacity 0 "s0").2 = .none ∧
    (match (Streams.recvPollResponse 2 w5 0 "p0").2 with | .response _ _ => true | _ => false) = true := by decide
end W1

namespace W2
/-- as W1, but the response carries DATA and END_STREAM, and `poll_trailers` is called before `poll_data` -/
def w3 : Streams := (W1.w2.recvHeaders { sid := 1, eos := false, status := some [50, 48, 48] }).1
def w4 : Streams := (w3.recvData 1 [1, 2, 3] true none).1
def w5 : Streams := (Streams.recvPollResponse 2 w4 0 "p0").1
def w6 : Streams := (w5.recvPollTrailers 0 "b0").1
def w7 : Streams := w6.recvEof true

theorem pollTrailers_before_data_counterexample :
    (w4.stream 0).state = { inner := .closed .endStream } ∧
    (match (w5.recvPollTrailers 0 "b0").2 with | .pending => true | _ => false) = true ∧
    w7.wakes = [] ∧ (w7.stream 0).recvTask = some "b0" ∧
    (match (w7.refPollData 0 "b0").2 with | .data [1, 2, 3] _ => true | _ => false) = true := by decide
end W2

namespace R1
/-- the lost wake-up of `reserve_capacity` (fixed in the real code by 6a8a003, mirrored in the model):
    A reserves the whole connection window, B buffers DATA without capacity, the connection task parks,
    A gives the capacity back: B is scheduled AND the connection task `c` is woken. -/
def r0 : Streams := (Conn.init {}).streams
def r1 : Streams := (r0.sendRequest false [] false none).1
def r2 : Streams := (r1.sendRequest false [] false none).1
def r3 : Streams :=
  let open1 := fun (s : Streams) (k : Nat) =>
    let s := s.popPendingOpen.1
    let s := ((s.qPushFront .pendingSend k).1).tryAssignCapacity k
    (Streams.popFrame 4 s 16384).1
  open1 (open1 r2 0) 1
def r4 : Streams := r3.refReserveCapacity 0 65535
def r5 : Streams := (r4.refSendData 1 100 false).1
/-- the connection task polls, finds nothing it can send and parks -/
def r6 : Streams :=
  let s := (Streams.popFrame 6 r5 16384).1
  { s with actions := { s.actions with task := some "c" }, wakes := [] }
def r7 : Streams := r6.refReserveCapacity 0 0

theorem reserve_capacity_wakes_connection_example :
    r6.prio.pendingSend = [] ∧ r6.actions.task = some "c" ∧
    r7.prio.pendingSend = [1] ∧ r7.wakes = ["c"] ∧ r7.actions.task = none := by decide
end R1

/-- a small state for the non-vacuity examples: one open stream (id 1, key 0) linked in the id map, a
    response future parked on it (`p0`), its body sender parked for capacity (`s0`), two handles -/
def exOpen : Streams :=
  { store := { slab := [{ key := 0, id := 1, state := { inner := .open .streaming .awaitingHeaders }, refCount := 2,
                          recvTask := some "p0", sendTask := some "s0", isCounted := true }],
               ids := [(1, 0)], nextKey := 1 },
    counts := { numSendStreams := 1 } }

end H2V.Lemmas.ConnWakeP
