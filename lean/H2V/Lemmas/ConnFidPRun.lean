import H2V.Lemmas.ConnFidPInvStep
/-
  ConnFidP, part 12 — paths with the ghost state threaded through (`Run`), and `Inv` along every run
  that stays off the write path (`Run.inv`).
-/
namespace H2V.Lemmas.ConnFidP
open H2V H2V.Model H2V.Model.Conn H2V.Lemmas.ConnWakeP

/-- a sequence of elementary steps permitted by `P`, with the ghost updated by every label -/
inductive Run (P : Perm) : Streams → Ghost → Streams → Ghost → Prop
  | refl (s : Streams) (g : Ghost) : Run P s g s g
  | tau {s0 s s' : Streams} {g0 g : Ghost} : Run P s0 g0 s g → El none s s' → Run P s0 g0 s' g
  | lbl {s0 s s' : Streams} {g0 g : Ghost} (l : Lbl) : Run P s0 g0 s g → El (some l) s s' → P.ok l →
      Run P s0 g0 s' (gstep s l g)

theorem Path.run {P : Perm} {s0 s : Streams} {tr : List Lbl} (p : Path P s0 s tr) (g0 : Ghost) :
    ∃ g, Run P s0 g0 s g := by
  induction p with
  | refl => exact ⟨g0, .refl _ _⟩
  | tau _ e ih => obtain ⟨g, r⟩ := ih; exact ⟨g, .tau r e⟩
  | lbl l _ e ok ih => obtain ⟨g, r⟩ := ih; exact ⟨_, .lbl l r e ok⟩

theorem Tr.run {P : Perm} {s0 s : Streams} (t : Tr P s0 s) (g0 : Ghost) : ∃ g, Run P s0 g0 s g := by
  obtain ⟨tr, p⟩ := t; exact p.run g0

theorem Run.trans' {P : Perm} {s0 s1 s2 : Streams} {g0 g1 g2 : Ghost} (h2 : Run P s1 g1 s2 g2) :
    Run P s0 g0 s1 g1 → Run P s0 g0 s2 g2 := by
  induction h2 with
  | refl => exact fun h1 => h1
  | tau _ e ih => exact fun h1 => .tau (ih h1) e
  | lbl l _ e ok ih => exact fun h1 => .lbl l (ih h1) e ok

theorem Run.trans {P : Perm} {s0 s1 s2 : Streams} {g0 g1 g2 : Ghost} (h1 : Run P s0 g0 s1 g1) (h2 : Run P s1 g1 s2 g2) :
    Run P s0 g0 s2 g2 := h2.trans' h1

theorem Run.mono {P Q : Perm} (hPQ : ∀ l, P.ok l → Q.ok l) {s0 s : Streams} {g0 g : Ghost} (h : Run P s0 g0 s g) :
    Run Q s0 g0 s g := by
  induction h with
  | refl => exact .refl _ _
  | tau _ e ih => exact .tau ih e
  | lbl l _ e ok ih => exact .lbl l ih e (hPQ l ok)

/-- the `weird` flag never goes down -/
theorem Run.weird_mono {P : Perm} {s0 s : Streams} {g0 g : Ghost} (h : Run P s0 g0 s g) (hw : g.weird = false) :
    g0.weird = false := by
  induction h with
  | refl => exact hw
  | tau _ _ ih => exact ih hw
  | lbl l _ _ _ ih => exact ih (gstep_weird_mono _ l _ hw)

/-- emitted frames are only recorded on the write path -/
theorem Run.emi_eq {P : Perm} {s0 s : Streams} {g0 g : Ghost} (h : Run P s0 g0 s g) (hp : ¬P.pop) : g.emi = g0.emi := by
  induction h with
  | refl => rfl
  | tau _ _ ih => exact ih
  | lbl l _ _ ok ih =>
    rw [gstep_emi _ _ _ (by intro k f e; subst e; exact hp ok)]; exact ih

/-- message frames may only be queued on entries that were not cut (an entry that was cut and may be pushed on
    is gone) -/
def PushOK (P : Perm) (s : Streams) (g : Ghost) : Prop :=
  ∀ k f, isMsg f = true → P.push k f → g.cut k = true → s.store.get? k = none

/-- **`Inv` along a run off the write path.**  Either the run may not cut anything and message frames are only
    pushed on uncut entries at the start (an API call that accepts a frame), or it may not push message
    frames at all (everything else). -/
theorem Run.inv {P : Perm} {s0 s : Streams} {g0 g : Ghost} {h : Option DataFrame} (r : Run P s0 g0 s g) (hw : ¬P.write) (hpp : P.pop → h = none)
    (hP : ((∀ k, ¬P.cut k) ∧ PushOK P s0 g0) ∨ (∀ k f, isMsg f = true → ¬P.push k f))
    (hI : Inv s0 h g0) (hweird : g.weird = false) :
    Inv s h g ∧ (((∀ k, ¬P.cut k) ∧ PushOK P s g) ∨ (∀ k f, isMsg f = true → ¬P.push k f)) := by
  induction r with
  | refl => exact ⟨hI, hP⟩
  | @tau s1 s2 g1x g1 _ e ih =>
    obtain ⟨hI1, hP1⟩ := ih hP hI hweird
    refine ⟨El.inv none e (by intro _ h'; cases h') hI1 (by intro _ _ h'; cases h') hweird (by intro _ _ h'; cases h'), ?_⟩
    rcases hP1 with ⟨hc, hp⟩ | hn
    · refine Or.inl ⟨hc, fun k f hm hpk hck => ?_⟩
      have hn := hp k f hm hpk hck
      cases hb : s2.store.get? k with
      | none => rfl
      | some b =>
        have := (e.new k b hn hb).1
        have hlt : k < s1.store.nextKey := by
          apply Nat.lt_of_not_le; intro hle
          have := (hI1.ghostKey k hle).2.2
          rw [this] at hck; cases hck
        omega
    · exact Or.inr hn
  | @lbl s1 s2 g1x g1 l _ e ok ih =>
    have hw1 := gstep_weird_mono _ l _ hweird
    obtain ⟨hI1, hP1⟩ := ih hP hI hw1
    have hlw : l.isWrite = false := by
      cases l <;> simp only [Lbl.isWrite] <;> exact absurd ok hw
    have hpush : ∀ k f, some l = some (.push k f) → isMsg f = true → g1.cut k = false := by
      intro k f hl hm
      cases hl
      have hpres := e.pres _ k rfl rfl rfl
      rcases hP1 with ⟨hc, hp⟩ | hn
      · cases hck : g1.cut k with
        | false => rfl
        | true =>
          have hpk : P.push k f := by
            rcases ok with h' | ⟨h', _⟩
            · exact h'
            · rw [hm] at h'; cases h'
          have := hp k f hm hpk hck
          rw [this] at hpres; cases hpres
      · have hpk : P.push k f := by
          rcases ok with h' | ⟨h', _⟩
          · exact h'
          · rw [hm] at h'; cases h'
        exact absurd hpk (hn k f hm)
    refine ⟨El.inv (some l) e (by intro l' h'; cases h'; exact hlw) hI1 hpush hweird
      (by intro j f h'; cases h'; exact hpp ok), ?_⟩
    rcases hP1 with ⟨hc, hp⟩ | hn
    · refine Or.inl ⟨hc, fun k f hm hpk hck => ?_⟩
      by_cases hg1 : g1.cut k = true
      · have hn := hp k f hm hpk hg1
        cases hb : s2.store.get? k with
        | none => rfl
        | some b =>
          have := (e.new k b hn hb).1
          have hlt : k < s1.store.nextKey := by
            apply Nat.lt_of_not_le; intro hle
            have := (hI1.ghostKey k hle).2.2
            rw [this] at hg1; cases hg1
          omega
      · -- newly cut: only `gone k` can do that here, and then the entry is gone
        cases l with
        | cut j n =>
          by_cases hj : j = k
          · subst hj; exact absurd ok (hc j)
          · simp only [gstep] at hck
            split at hck
            · have : upd g1.cut j true k = g1.cut k := upd_other _ _ (fun e' => hj e'.symm)
              exact absurd (this ▸ hck) hg1
            · exact absurd hck hg1
        | gone j =>
          by_cases hj : j = k
          · subst hj; exact e.goneAbs j rfl
          · simp only [gstep] at hck
            split at hck
            · have : upd g1.cut j true k = g1.cut k := upd_other _ _ (fun e' => hj e'.symm)
              exact absurd (this ▸ hck) hg1
            · exact absurd hck hg1
        | push j f' => simp only [gstep] at hck; split at hck <;> exact absurd hck hg1
        | pop j f' => simp only [gstep] at hck; split at hck <;> exact absurd hck hg1
        | _ => exact absurd hck hg1
    · exact Or.inr hn

end H2V.Lemmas.ConnFidP
