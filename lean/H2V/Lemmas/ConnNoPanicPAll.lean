import H2V.Lemmas.ConnNoPanicPIdsPush
import H2V.Lemmas.ConnNoPanicPWin
import H2V.Lemmas.ConnNoPanicPFlowInv
/-
  C08 (no panic) — everything together (stage 1): histories with handle accounting over 35 operations,
  the invariants `NPI`, `HOK`, `IBS` (ids below `next_stream_id`: discharges the `Store::insert` assert),
  ConnRecvP's connection-level receive-window invariant (`set_target_window_size` cannot panic) and
  ConnFlowP's `SafeInv`.
-/
namespace H2V.Lemmas.ConnNoPanicP
open H2V H2V.Model H2V.Model.Conn H2V.Lemmas.ConnCountsP
open H2V.Lemmas.ConnResetP (Op run)

/-- preconditions: as `opPre`, with `send_request` free, three more operations, and the bounds the decoder guarantees -/
def opPre2 (s : Streams) : Op → Prop
  | .sendRequest _ _ _ _ => True
  | .setTargetConnectionWindow t => t ≤ 2147483647
  | .refSendPushPromise _ _ _ => True
  | .recvWindowUpdate _ inc => inc ≤ 2147483647
  | .applyRemoteSettings vals _ => ConnFlowP.SettingsOk vals
  | .applyLocalSettingsFrame vals => ∀ t, ConnRecvP.settingsIws vals = some t → t ≤ 2147483647
  | op => opPre s op

def opKey2 : Op → Option Nat
  | .refSendPushPromise p _ _ => some p
  | op => opKey op

def opHandles2 (s : Streams) (H : List Nat) : Op → List Nat
  | .refSendPushPromise p v f => match (s.refSendPushPromise p v f).2 with | .ok c => c :: H | .error _ => H
  | op => opHandles s H op

/-- the invariant bundle -/
structure Good (s : Streams) (H : List Nat) : Prop where
  npi : NPI (fun _ => False) s
  hok : HOK s H
  ibs : IBS s
  jr : JR s
  safe : ConnFlowP.SafeInv s

/-- what a new connection's stream layer satisfies -/
structure Init2 (s : Streams) : Prop where
  blank : Blank s
  np : s.panicked = none
  q : ∀ q, s.getQ q = []
  recv : ConnRecvP.Init s
  flow : ConnFlowP.Init s

inductive AReach : Streams → List Nat → Prop
  | init {s : Streams} : Init2 s → AReach s []
  | step {s : Streams} {H : List Nat} (op : Op) : AReach s H → opPre2 s op → (∀ k, opKey2 op = some k → k ∈ H) →
      AReach (op.apply s) (opHandles2 s H op)

theorem opPre2_old {s : Streams} {op : Op} (h : opPre2 s op) (h1 : ∀ a b c d, op ≠ .sendRequest a b c d)
    (h2 : ∀ t, op ≠ .setTargetConnectionWindow t) (h3 : ∀ p v f, op ≠ .refSendPushPromise p v f) : opPre s op := by
  cases op <;> first
    | exact h
    | exact trivial
    | exact absurd rfl (h1 _ _ _ _)
    | exact absurd rfl (h2 _)
    | exact absurd rfl (h3 _ _ _)

theorem flowPre_of {s : Streams} {op : Op} (h : opPre2 s op) : flowPre op := by
  cases op <;> first | exact h | exact trivial

theorem recvValid_of {s : Streams} {op : Op} (h : opPre2 s op) : (toRecvOp op).valid s := by
  cases op <;> first | exact h | exact trivial

theorem op_apiStep2 (s : Streams) (op : Op) (hpre : opPre2 s op) : ApiStep s (op.apply s) := by
  by_cases h1 : ∃ a b c d, op = .sendRequest a b c d
  · obtain ⟨a, b, c, d, rfl⟩ := h1; exact .sendRequest s a b c d
  by_cases h2 : ∃ t, op = .setTargetConnectionWindow t
  · obtain ⟨t, rfl⟩ := h2; exact .setTargetConnectionWindow s t
  by_cases h3 : ∃ p v f, op = .refSendPushPromise p v f
  · obtain ⟨p, v, f, rfl⟩ := h3; exact .refSendPushPromise s p v f
  exact op_apiStep s op (opPre2_old hpre (fun a b c d e => h1 ⟨a, b, c, d, e⟩) (fun t e => h2 ⟨t, e⟩)
    (fun p v f e => h3 ⟨p, v, f, e⟩))

theorem AReach.evT {s : Streams} {H : List Nat} (h : AReach s H) : KeysOK s ∧ NextLocal s := by
  induction h with
  | init hi => exact ⟨hi.blank.keysOK, hi.blank.next⟩
  | step op _ hpre _ ih =>
    have e := (op_apiStep2 _ op hpre).evT ih.1 ih.2
    exact ⟨e.keysOK ih.1, e.nx.nextLocal ih.2⟩

theorem good_step {s : Streams} {H : List Nat} (g : Good s H) (op : Op) (hpre : opPre2 s op)
    (hin : ∀ k, opKey2 op = some k → k ∈ H) (he : ErrOK s) (he' : ErrOK (op.apply s)) :
    Good (op.apply s) (opHandles2 s H op) := by
  have hk := g.npi.keys
  have hjr : JR (op.apply s) := JR_step g.jr op (recvValid_of hpre)
  have hsf : ConnFlowP.SafeInv (op.apply s) := safeInv_step g.safe op (flowPre_of hpre)
  by_cases h1 : ∃ a b c d, op = .sendRequest a b c d
  · obtain ⟨a, b, c, d, rfl⟩ := h1
    have := sendRequest_npi' g.npi g.ibs a b c d
    exact ⟨this.1, hok_step g.npi g.hok (.sendRequest a b c d) (g.ibs.hfree g.npi) (fun k h => by cases h), this.2, hjr, hsf⟩
  by_cases h2 : ∃ t, op = .setTargetConnectionWindow t
  · obtain ⟨t, rfl⟩ := h2
    exact ⟨setTargetConnectionWindow_npi g.npi g.jr t, hok_generic hk g.hok _ (by intro j e; cases e),
      g.ibs.of_evF hk (setTargetConnectionWindow_ev (ρ := false) s t), hjr, hsf⟩
  by_cases h3 : ∃ p v f, op = .refSendPushPromise p v f
  · obtain ⟨p, v, f, rfl⟩ := h3
    have hpH : p ∈ H := hin p rfl
    obtain ⟨x, hx, _⟩ := g.hok p hpH
    obtain ⟨hn', hi', hch⟩ := refSendPushPromise_npi g.npi g.ibs (parent := p) ⟨x, hx⟩ v f
    refine ⟨hn', ?_, hi', hjr, hsf⟩
    show HOK _ (match (s.refSendPushPromise p v f).2 with | .ok c => c :: H | .error _ => H)
    cases hres : (s.refSendPushPromise p v f).2 with
    | error e => exact hok_generic hk g.hok (.refSendPushPromise p v f) (by intro j e; cases e)
    | ok c =>
      simp only []
      obtain ⟨hcn, x', hx', hr'⟩ := hch c hres
      have hnot : c ∉ H := by
        intro hcH
        obtain ⟨y, hy, _⟩ := g.hok c hcH
        have := hk.fresh y (get?_mem hy)
        rw [get?_key hy, hcn] at this; omega
      intro j hj
      rcases List.mem_cons.mp hj with e | e
      · subst e
        exact ⟨x', hx', by rw [List.count_cons_self, List.count_eq_zero_of_not_mem hnot]; exact hr'⟩
      · have hjc : j ≠ c := fun e' => hnot (e' ▸ e)
        obtain ⟨y, hy, hc⟩ := g.hok j e
        have hpos := count_pos_of_mem e
        obtain ⟨y', h1', h2'⟩ := op_keeps_ref hk (.refSendPushPromise p v f) hy (by omega) (by intro e; cases e)
        exact ⟨y', h1', by rw [List.count_cons_of_ne (fun e => hjc e.symm)]; omega⟩
  -- the operations of `opPre`
  have hold := opPre2_old hpre (fun a b c d e => h1 ⟨a, b, c, d, e⟩) (fun t e => h2 ⟨t, e⟩) (fun p v f e => h3 ⟨p, v, f, e⟩)
  have hkey : ∀ k, opKey op = some k → k ∈ H := by
    intro k hk'
    apply hin
    cases op <;> first | exact hk' | exact (h3 ⟨_, _, _, rfl⟩).elim
  have hhand : opHandles2 s H op = opHandles s H op := by
    cases op <;> first | rfl | exact (h3 ⟨_, _, _, rfl⟩).elim
  have hkeys : ∀ k, opKey op = some k → Live s k ∧ (s.stream k).refCount > 0 := by
    intro k hk'
    obtain ⟨x, hx, hc⟩ := g.hok k (hkey k hk')
    have hpos := count_pos_of_mem (hkey k hk')
    exact ⟨⟨x, hx⟩, by rw [stream_of_get? hx]; omega⟩
  rw [hhand]
  exact ⟨(op_step s op hold hkeys).npi g.npi he', hok_step g.npi g.hok op hold hkey, IBS_step g.npi g.ibs op hold, hjr, hsf⟩

/-- **No panic, handle discipline, 35 operations** -/
theorem areach_good {s : Streams} {H : List Nat} (h : AReach s H) (he : ErrOK s) : Good s H := by
  induction h with
  | init hi =>
    exact ⟨blank_npi hi.blank hi.np hi.q, fun k hk => absurd hk List.not_mem_nil, IBS_blank hi.blank hi.q, JR_init hi.recv,
      ConnFlowP.Init.safe hi.flow⟩
  | step op hr hpre hin ih =>
    have e := (op_apiStep2 _ op hpre).evT hr.evT.1 hr.evT.2
    have he0 := ErrOK.backT e he
    exact good_step (ih he0) op hpre hin he0 he

/-- witness: the stream layer of a new client connection (both connection windows 65 535) -/
def wInit : Streams :=
  { actions := { recv := { flow := { windowSize := { val := 65535 }, available := { val := 65535 } } },
                 send := { prioritize := { flow := { windowSize := { val := 65535 }, available := { val := 65535 } } } } } }

theorem wInit_init2 : Init2 wInit :=
  ⟨⟨rfl, rfl, rfl, rfl, rfl, rfl, rfl, rfl, rfl, rfl, by intro x hx; cases hx; rfl⟩, rfl, fun q => by cases q <;> rfl,
   ⟨rfl, rfl, rfl, rfl, rfl⟩, ⟨rfl, by decide⟩⟩

/-- witness history: request, response head, DATA in, DATA out, window raised, handle cloned, both dropped, EOF -/
def wOps2 : List Op :=
  [.sendRequest false [] false none, .recvHeaders { sid := 1, eos := false, status := some [50, 48, 48] },
   .recvData 1 [1, 2, 3] false none, .refSendData 0 10 false, .setTargetConnectionWindow 100000, .cloneStreamRef 0,
   .dropStreamRef 0, .dropStreamRef 0, .recvEof false]

set_option maxRecDepth 8000 in
theorem wOps2_areach : AReach (run wInit wOps2) [] := by
  have r0 : AReach wInit [] := .init wInit_init2
  have r1 := AReach.step (.sendRequest false [] false none) r0 trivial (by intro k h; cases h)
  have r2 := AReach.step (.recvHeaders { sid := 1, eos := false, status := some [50, 48, 48] }) r1 (by show _ = none; decide) (by intro k h; cases h)
  have r3 := AReach.step (.recvData 1 [1, 2, 3] false none) r2 (by show FrameLenOK [1, 2, 3] none; unfold FrameLenOK; decide) (by intro k h; cases h)
  have r4 := AReach.step (.refSendData 0 10 false) r3 trivial (by intro k h; cases h; decide)
  have r5 := AReach.step (.setTargetConnectionWindow 100000) r4 (by show 100000 ≤ 2147483647; decide) (by intro k h; cases h)
  have r6 := AReach.step (.cloneStreamRef 0) r5 trivial (by intro k h; cases h; decide)
  have r7 := AReach.step (.dropStreamRef 0) r6 (by show dropPPP _ 0 = []; decide) (by intro k h; cases h; decide)
  have r8 := AReach.step (.dropStreamRef 0) r7 (by show dropPPP _ 0 = []; decide) (by intro k h; cases h; decide)
  have r9 := AReach.step (.recvEof false) r8 (by intro h; cases h) (by intro k h; cases h)
  exact r9

set_option maxRecDepth 8000 in
theorem wOps2_facts : ErrOK (run wInit wOps2) ∧ (run wInit wOps2).store.slab.length = 0 :=
  ⟨by unfold ErrOK; decide +kernel, by decide +kernel⟩

end H2V.Lemmas.ConnNoPanicP
