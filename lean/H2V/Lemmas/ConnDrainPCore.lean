import H2V.Lemmas.ConnDrainPPhi
/-
  ConnDrainP, part 3 — `CoreFr`: the capacity machinery that runs inside `pop_frame`'s `continue`s
  (`reclaim_all_capacity` → `assign_connection_capacity` → `try_assign_capacity`, `transition_after` of a
  stream that is still sending) leaves every stream's queue, state and buffered count alone, and removes
  no slab entry.
-/
namespace H2V.Lemmas.ConnDrainP
open H2V H2V.Model H2V.Model.Conn
open H2V.Lemmas.ConnFlowP (KeysOk SafeInv SafeInvG ReqOk stream_of_get stream_panic stream_modStream_self stream_modStream_other modStream_none)
open H2V.Lemmas.ConnCountsP (QOK Flagged Ev EvB)

-- ===================================================================== a frame for what `pop_frame` looks at

/-- what `pop_frame` looks at in a stream to decide whether to go on -/
def core (x : Stream) : List SFrame × State × Nat := (x.pendingSend, x.state, x.bufferedSendData)

/-- every stream reads back with the same queue, state and buffered count -/
def CoreFr (s s' : Streams) : Prop := ∀ j, core (s'.stream j) = core (s.stream j)

theorem CoreFr.refl (s : Streams) : CoreFr s s := fun _ => rfl
theorem CoreFr.trans {a b c : Streams} (h1 : CoreFr a b) (h2 : CoreFr b c) : CoreFr a c := fun j => (h2 j).trans (h1 j)
theorem CoreFr.of_store {s s' : Streams} (h : s'.store = s.store) : CoreFr s s' := fun j => by
  unfold Streams.stream; rw [h]
theorem CoreFr.panic (s : Streams) (m : String) : CoreFr s (s.panic m) := .of_store (ConnFlowP.panic_store _ _)
theorem CoreFr.setQ (s : Streams) (q : QName) (l : List Nat) : CoreFr s (s.setQ q l) := .of_store (ConnCountsP.setQ_store _ _ _)
theorem CoreFr.modCountsA (s : Streams) (w : String) (f : Counts → Option Counts) : CoreFr s (s.modCountsA w f) := by
  unfold Streams.modCountsA; split
  · exact .of_store rfl
  · exact .panic _ _

theorem CoreFr.modStream (s : Streams) (k : Nat) (f : Stream → Stream) (hkey : ∀ x, (f x).key = x.key)
    (hf : ∀ x, core (f x) = core x) : CoreFr s (s.modStream k f) := by
  intro j
  by_cases hj : j = k
  · subst hj
    cases h : s.store.get? j with
    | none => rw [modStream_none h, stream_panic]
    | some a => rw [stream_modStream_self h f (hkey a), stream_of_get h, hf]
  · rw [stream_modStream_other f hkey hj]

theorem stream_modStreamW (s : Streams) (k : Nat) (f : Stream → Stream × List String) (hkey : ∀ x, (f x).1.key = x.key)
    (j : Nat) : (s.modStreamW k f).stream j = (s.modStream k fun x => (f x).1).stream j := by
  unfold Streams.modStreamW Streams.modStream
  cases s.store.get? k <;> rfl

theorem CoreFr.modStreamW (s : Streams) (k : Nat) (f : Stream → Stream × List String) (hkey : ∀ x, (f x).1.key = x.key)
    (hf : ∀ x, core (f x).1 = core x) : CoreFr s (s.modStreamW k f) := by
  intro j
  rw [stream_modStreamW s k f hkey j]
  exact CoreFr.modStream s k (fun x => (f x).1) hkey hf j

theorem core_setQueued (a : Stream) (q : QName) (v : Bool) : core (a.setQueued q v) = core a := by cases q <;> rfl

theorem CoreFr.qPush (s : Streams) (q : QName) (k : Nat) : CoreFr s (s.qPush q k).1 := by
  unfold Streams.qPush; split
  · exact .refl _
  · exact (CoreFr.modStream s k _ (fun x => setQueued_key x q true) (fun x => core_setQueued x q true)).trans (.setQ _ _ _)

theorem CoreFr.qPop (s : Streams) (q : QName) : CoreFr s (s.qPop q).1 := by
  unfold Streams.qPop; split
  · exact .refl _
  · exact (CoreFr.setQ s q _).trans (CoreFr.modStream _ _ _ (fun x => setQueued_key x q false) (fun x => core_setQueued x q false))

theorem CoreFr.ite_qPush (c : Prop) [Decidable c] (s : Streams) (q : QName) (k : Nat) :
    CoreFr s (if c then (s.qPush q k).1 else s) := by
  split
  · exact .qPush _ _ _
  · exact .refl _

theorem CoreFr.of_fst_eq {α : Type} {s : Streams} {p : Streams × α} {s' : Streams} {r : α} (he : p = (s', r))
    (h : CoreFr s p.1) : CoreFr s s' := by subst he; exact h

theorem core_notifySend (x : Stream) : core x.notifySend.1 = core x := by
  unfold Stream.notifySend
  cases x.sendTask <;> dsimp only <;> split <;> rfl

theorem core_assignCapacity (x : Stream) (a b : Nat) : core (x.assignCapacity a b).1 = core x := by
  unfold Stream.assignCapacity; dsimp only; split
  · unfold Stream.notifyCapacity; rw [core_notifySend]; rfl
  · rfl

theorem key_notifySend (x : Stream) : x.notifySend.1.key = x.key := by
  unfold Stream.notifySend
  cases x.sendTask <;> dsimp only <;> split <;> rfl

theorem key_assignCapacity (x : Stream) (a b : Nat) : (x.assignCapacity a b).1.key = x.key :=
  (ConnFlowP.assignCapacity_kf x a b).1

theorem CoreFr.modPrio (s : Streams) (f : Prioritize → Prioritize) : CoreFr s (s.modPrio f) := .of_store rfl

theorem CoreFr.tryAssignCapacity (s : Streams) (k : Nat) : CoreFr s (s.tryAssignCapacity k) := by
  unfold Streams.tryAssignCapacity
  dsimp only
  split
  · exact .refl _
  split
  · exact .refl _
  split
  · exact .refl _
  generalize hS1 : (if _ > 0 then _ else s) = S1
  have h1 : CoreFr s S1 := by
    subst hS1
    split
    · exact (CoreFr.modStreamW s k _ (fun x => key_assignCapacity x _ _) (fun x => core_assignCapacity x _ _)).trans (.modPrio _ _)
    · exact .refl _
  refine h1.trans ?_
  exact (CoreFr.ite_qPush _ _ _ _).trans (CoreFr.ite_qPush _ _ _ _)

/-- `transition_after` of a stream that is not closed (queue, buffered data or state say so) leaves the store alone -/
theorem transitionAfter_store_of_open {s : Streams} {k : Nat} (b : Bool) (h : (s.stream k).isClosed = false) :
    (s.transitionAfter k b).store = s.store := by
  unfold Streams.transitionAfter
  dsimp only
  have hst : ∀ (t : Streams), t.store = s.store → t.stream k = s.stream k := by
    intro t ht; unfold Streams.stream; rw [ht]
  generalize hS1 : (if (b && !(s.stream k).isPendingResetExpiration) = true then _ else s) = S1
  have h1 : S1.store = s.store := by
    subst hS1; split
    · unfold Streams.modCountsA; split
      · rfl
      · exact ConnFlowP.panic_store _ _
    · rfl
  rw [h, ]
  simp only [Bool.false_eq_true, if_false]
  have hr : (S1.stream k).isReleased = false := by
    rw [hst S1 h1]; unfold Stream.isReleased; rw [h]; rfl
  rw [hr]
  simp only [Bool.false_eq_true, if_false]
  exact h1

theorem CoreFr.transitionAfter_open {s : Streams} {k : Nat} (b : Bool) (h : (s.stream k).isClosed = false) :
    CoreFr s (s.transitionAfter k b) := .of_store (transitionAfter_store_of_open b h)

theorem isClosed_of_filter {x : Stream} (h : ¬ (!(x.state.isSendStreaming || decide (x.bufferedSendData > 0))) = true) :
    x.isClosed = false := by
  unfold Stream.isClosed
  have h : x.state.isSendStreaming = true ∨ x.bufferedSendData > 0 := by
    cases h1 : x.state.isSendStreaming
    · right
      cases h2 : decide (x.bufferedSendData > 0)
      · rw [h1, h2] at h; exact absurd rfl h
      · exact of_decide_eq_true h2
    · left; rfl
  rcases h with h | h
  · have : x.state.isClosed = false := by
      unfold State.isSendStreaming at h; unfold State.isClosed
      split at h <;> simp_all
    rw [this]; rfl
  · have : (x.bufferedSendData == 0) = false := by simp; omega
    rw [this]; simp

theorem isClosed_of_core {a b : Stream} (h : core b = core a) : b.isClosed = a.isClosed := by
  unfold core at h
  injection h with h1 h2
  injection h2 with h2 h3
  unfold Stream.isClosed; rw [h1, h2, h3]

theorem CoreFr.assignConnectionCapacityLoop (n : Nat) : ∀ s : Streams, CoreFr s (Streams.assignConnectionCapacityLoop n s) := by
  induction n with
  | zero => intro s; exact .refl _
  | succ n ih =>
    intro s
    unfold Streams.assignConnectionCapacityLoop
    split
    · split
      · next s0 heq => exact .of_fst_eq heq (CoreFr.qPop s _)
      · next s0 j heq =>
        have h0 : CoreFr s s0 := .of_fst_eq heq (CoreFr.qPop s _)
        dsimp only
        split
        · exact h0.trans (ih _)
        · next hf =>
          have hc := isClosed_of_filter hf
          have h1 := CoreFr.tryAssignCapacity s0 j
          have hc1 : ((s0.tryAssignCapacity j).stream j).isClosed = false := by
            rw [isClosed_of_core (h1 j)]; exact hc
          exact h0.trans (h1.trans ((CoreFr.transitionAfter_open _ hc1).trans (ih _)))
    · exact .refl _

theorem CoreFr.assignConnectionCapacity (s : Streams) (inc : Nat) : CoreFr s (s.assignConnectionCapacity inc) := by
  unfold Streams.assignConnectionCapacity
  exact (CoreFr.modPrio s _).trans (CoreFr.assignConnectionCapacityLoop _ _)

theorem CoreFr.reclaimAllCapacity (s : Streams) (k : Nat) : CoreFr s (s.reclaimAllCapacity k) := by
  unfold Streams.reclaimAllCapacity
  dsimp only
  split
  · refine CoreFr.trans (CoreFr.modStream _ _ _ ?_ ?_) (CoreFr.assignConnectionCapacity _ _)
    · intro x; rfl
    · intro x; rfl
  · exact .refl _

end H2V.Lemmas.ConnDrainP
