import H2V.Lemmas.ConnFidPOnce
/-
  ConnFidP, part 21 — concrete witnesses (all evaluated by `decide` on states reached through the model's API).

  O1 (observation, by design): `poll_response` DISCARDS interim 1xx heads that are still queued — an interim response is
     only delivered by `poll_informational` polled before the final response is taken.
  S1 (what the seeded defect "cancelling stream A drops the rest of stream B's chunk" looks like): a `clear_queue`
     that turns the in-flight marker to `Drop` whatever stream it names violates `clearQueue_marker`.
-/
namespace H2V.Lemmas.ConnFidP
open H2V H2V.Model H2V.Model.Conn

namespace O1
/-- client, request sent; the peer answers `103` then `200` (END_STREAM) -/
def c3 : Streams :=
  let s := (((Conn.init {}).streams.sendRequest false [] true none).1).popPendingOpen.1
  let s := (s.recvHeaders { sid := 1, eos := false, status := some [49, 48, 51] }).1
  (s.recvHeaders { sid := 1, eos := true, status := some [50, 48, 48] }).1

theorem both_queued : (c3.stream 0).pendingRecv = [.informational [49, 48, 51] [], .headers [50, 48, 48] []] := by decide

/-- the application takes the final response first: the `103` is gone, `poll_informational` answers "no more" -/
theorem interim_response_discarded_by_poll_response :
    ((Streams.recvPollResponse 5 c3 0 "p").1.stream 0).pendingRecv = [] ∧
    (match ((Streams.recvPollResponse 5 c3 0 "p").1.recvPollInformational 0 "p").2 with | .none => true | _ => false) = true := by
  decide

/-- polled in order, both are delivered -/
theorem interim_response_delivered_when_polled_first :
    (match (c3.recvPollInformational 0 "p").2 with | .response st => decide (st = [49, 48, 51]) | _ => false) = true ∧
    ((c3.recvPollInformational 0 "p").1.stream 0).pendingRecv = [.headers [50, 48, 48] []] := by decide
end O1

namespace S1
/-- the seeded defect: `clear_queue` sets `Drop` without looking at the key of the marker -/
def buggyClearQueue (s : Streams) (id : Nat) : Streams :=
  let s := s.modStream id clearF
  match s.prio.inFlightDataFrame with
  | .dataFrame _ => s.modPrio (markF .drop)
  | _ => s

/-- a state in which a chunk of stream B (key 1) is in the codec -/
def sB : Streams := { actions := { send := { prioritize := { inFlightDataFrame := .dataFrame 1 } } } }

/-- resetting stream A (key 0): the real `clear_queue` leaves B's marker alone (`clearQueue_marker`), the buggy one drops it -/
theorem buggy_clear_queue_drops_other_streams_chunk_counterexample :
    marker (sB.clearQueue 0) = .dataFrame 1 ∧ marker (buggyClearQueue sB 0) = .drop := by decide
end S1

end H2V.Lemmas.ConnFidP

namespace H2V.Lemmas.ConnFidP
open H2V H2V.Model H2V.Model.Conn

/-- without `cut` steps the `weird` flag does not move -/
theorem Run.weird_eq {P : Perm} {s0 s : Streams} {g0 g : Ghost} (r : Run P s0 g0 s g) (hc : ∀ k, ¬P.cut k) :
    g.weird = g0.weird := by
  induction r with
  | refl => rfl
  | tau _ _ ih => exact ih
  | lbl l _ _ ok ih =>
    cases l with
    | cut k n => exact absurd ok (hc k)
    | push k f => simp only [gstep]; split <;> exact ih
    | pop k f => simp only [gstep]; split <;> exact ih
    | gone k => simp only [gstep]; split <;> exact ih
    | _ => exact ih

/-- non-vacuity of the history theorems: a history (request head and a body frame accepted) with the `weird` flag down -/
theorem history_with_weird_down :
    ∃ g, Hist ((((Conn.init {}).streams.sendRequest false [] false none).1).refSendData 0 10 true).1 {} g ∧ g.weird = false := by
  have h0 : Hist (Conn.init {}).streams {} {} := .init _ _ rfl rfl rfl
  -- `send_request`
  have t1 := sendRequest_acc' (P := permNewRequest (Conn.init {}).streams.store.nextKey false []) trivial false [] false none
    (Or.inl ⟨rfl, rfl⟩) (Tr.refl _ (Conn.init {}).streams)
  obtain ⟨g1, r1⟩ := t1.run {}
  have w1 : g1.weird = false := r1.weird_eq (fun _ h => h)
  have h1 : Hist ((Conn.init {}).streams.sendRequest false [] false none).1 {} g1 :=
    .api _ h0 (fun h => h) (fun h => h) (Or.inr (Or.inl ⟨fun _ h => h, fun k f _ _ hc => by cases hc⟩)) r1
  -- `send_data`
  obtain ⟨g2, r2⟩ := (refSendData_tr ((Conn.init {}).streams.sendRequest false [] false none).1 0 10 true).run g1
  have w2 : g2.weird = false := (r2.weird_eq (fun _ h => h)).trans w1
  refine ⟨g2, .api _ h1 (fun h => h) (fun h => h) ?_ r2, w2⟩
  refine Or.inr (Or.inl ⟨fun _ h => h, fun k f _ hp hc => ?_⟩)
  -- the entry was not cut: it is not closed
  have hI := (h1.inv w1).1
  have hk : k = 0 := hp.1
  subst hk
  have hcl := hI.closed 0 hc
  exfalso
  have : ((((Conn.init {}).streams.sendRequest false [] false none).1).store.get? 0).map (·.state.isClosed) = some false := by decide
  cases hq : (((Conn.init {}).streams.sendRequest false [] false none).1).store.get? 0 with
  | none => rw [hq] at this; cases this
  | some a =>
    rw [hq] at this
    have h1' := hcl a hq
    simp only [Option.map_some, Option.some.injEq] at this
    rw [h1'] at this; cases this

end H2V.Lemmas.ConnFidP
