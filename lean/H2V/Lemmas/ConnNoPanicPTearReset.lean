import H2V.Lemmas.ConnNoPanicPTearEach
/-
  C08 (no panic) — part 10: the loops that pop `pending_reset_expired` (`clear_expired_reset_streams`,
  `clear_all_reset_streams`) and `pending_accept` (`clear_all_pending_accept`), `Recv::clear_queues`,
  `Actions::clear_queues`, `Inner::recv_eof`.
-/
namespace H2V.Lemmas.ConnNoPanicP
open H2V H2V.Model H2V.Model.Conn H2V.Lemmas.ConnCountsP

-- ===================================================================== `transition_after` keeps every queue and its flags

theorem _root_.H2V.Lemmas.ConnCountsP.QF.transitionAfter (q : QName) (s : Streams) (k : Nat) (b : Bool) :
    QF q s (s.transitionAfter k b) := by
  rw [transitionAfter_split]
  generalize hs0 : (if (b && !(s.stream k).isPendingResetExpiration) = true then
      s.modCountsA "self.num_local_reset_streams > 0" Counts.decNumResetStreams else s) = s0
  have h0 : QF q s s0 := by
    rw [← hs0]; split
    · exact QF.modCountsA _ _ _ _
    · exact .refl _ _
  refine h0.trans ?_
  clear hs0 h0
  unfold Streams.transitionAfter
  simp only [Bool.false_and, Bool.false_eq_true, if_false]
  generalize hs1 : (if (s0.stream k).isClosed = true then _ else s0) = s1
  have e1 : QF q s0 s1 := by
    rw [← hs1]
    split
    · split
      · refine .trans ?_ (QF.decNumStreams _ _ _)
        split
        · exact QF.unlink _ _ _
        · exact .refl _ _
      · split
        · exact QF.unlink _ _ _
        · exact .refl _ _
    · exact .refl _ _
  refine e1.trans ?_
  split
  · next hrel =>
    rcases stream_get?_or s1 k with ⟨x, hx, hxs⟩ | hn
    · rw [hxs] at hrel ⊢
      split
      · next hc =>
        refine .trans (QF.decNumStreams _ _ _) (QF.remove _ _ k _ ?_)
        intro st hst
        rw [decNumStreams_get?_self s1 k x hx] at hst
        cases hst
        have := isReleased_flags hrel q; cases q <;> exact this
      · next hc =>
        refine QF.remove _ _ k _ ?_
        intro st hst
        rw [hx] at hst; cases hst
        exact isReleased_flags hrel q
    · exfalso
      unfold Streams.stream at hrel
      rw [hn] at hrel
      simp [Stream.isReleased, Stream.isClosed, State.isClosed] at hrel
  · exact .refl _ _

-- ===================================================================== `NPI` along `EvT`

theorem NPI.evT {s s' : Streams} (h : NPI (fun _ => False) s) (e : EvT s s')
    (hp : s'.panicked = none) (hav : AvOK s') (hids : IdsOK s') : NPI (fun _ => False) s' := by
  refine ⟨hp, hav, e.keysOK h.keys, e.nx.nextLocal h.nl, e.inv1 hp h.keys h.inv1, ?_, ?_, hids⟩
  · rw [e.nx.role]; exact e.inv2 _ hp h.keys h.inv2
  · intro q hq; exact (e.qstep q hq).ok hp (h.qs q hq)

-- ===================================================================== popping `pending_reset_expired`

theorem qPop_counts' (s : Streams) (q : QName) : (s.qPop q).1.counts = s.counts := by
  unfold Streams.qPop; split
  · rfl
  · dsimp only; rw [modStream_counts, setQ_counts']

theorem setQueued_counted (x : Stream) (q : QName) (v : Bool) : (x.setQueued q v).isCounted = x.isCounted := by cases q <;> rfl

/-- one round of `clear_expired_reset_streams` / `clear_all_reset_streams` -/
theorem resetPop_npe {s : Streams} (h : NPI (fun _ => False) s) (he : ErrOK s) :
    NPE (fun _ => False) (match s.qPop .pendingResetExpired with
      | (s', some id) => s'.transitionAfter id true
      | (s', none) => s') := by
  have hev := EvT.resetPop (s := s)
  have hq := h.qs .pendingResetExpired (by decide)
  have hp1 : (s.qPop .pendingResetExpired).1.panicked = none := (qPop_panicked hq).trans h.np
  have hav1 := qPop_av .pendingResetExpired h.av
  have hids1 := qPop_idsOK .pendingResetExpired h.ids
  have he1 := (qPop_errSame s .pendingResetExpired).errOK he
  have hc1 := qPop_counts' s .pendingResetExpired
  have hcnt := qPop_spr (P := (·.isCounted)) s .pendingResetExpired (fun x v => setQueued_counted x _ v)
  have hsid := qPop_spr (P := (·.id)) s .pendingResetExpired (fun x v => setQueued_id x _ v)
  split
  · next s' id heq =>
    rw [heq] at hp1 hav1 hids1 he1 hc1 hcnt hsid hev
    dsimp only at hp1 hav1 hids1 he1 hc1 hcnt hsid hev
    have hcnt' : (s'.stream id).isCounted = (s.stream id).isCounted := hcnt id
    have hsid' : (s'.stream id).id = (s.stream id).id := hsid id
    have hd : DecOK id s' := by
      have hd0 := decOK_of_inv h.np h.inv1 h.inv2 he id
      unfold DecOK Counts.isLocalInit at hd0 ⊢
      rw [hcnt', hsid', hc1]
      exact ⟨hp1, hd0.2⟩
    have hpos : s'.counts.numLocalResetStreams > 0 := by
      rw [hc1, h.inv1.reset]
      unfold Streams.qPop at heq
      split at heq
      · cases heq
      · next id' rest hl =>
        have : s.recv.pendingResetExpired = id' :: rest := hl
        rw [this]; simp
    have hp2 := transitionAfter_np s' id true hd (fun _ => hpos)
    exact ⟨h.evT hev hp2 (avOK_transitionAfter hav1 id true) (hids1.transitionAfter id true),
      (transitionAfter_errSame _ _ _).errOK he1⟩
  · next s' heq =>
    rw [heq] at hp1 hav1 hids1 he1 hev
    exact ⟨h.evT hev hp1 hav1 hids1, he1⟩

theorem clearExpiredResetStreams_npe (n : Nat) {s : Streams} (h : NPI (fun _ => False) s) (he : ErrOK s) :
    NPE (fun _ => False) (Streams.clearExpiredResetStreams n s) := by
  induction n generalizing s with
  | zero => exact ⟨h, he⟩
  | succ n ih =>
    unfold Streams.clearExpiredResetStreams
    split
    · exact ⟨h, he⟩
    · have := resetPop_npe h he
      split
      · next s' heq => rw [heq] at this; exact this
      · next s' id heq => rw [heq] at this; exact ih this.1 this.2

theorem clearAllResetStreams_npe (n : Nat) {s : Streams} (h : NPI (fun _ => False) s) (he : ErrOK s) :
    NPE (fun _ => False) (Streams.clearAllResetStreams n s) := by
  induction n generalizing s with
  | zero => exact ⟨h, he⟩
  | succ n ih =>
    unfold Streams.clearAllResetStreams
    have := resetPop_npe h he
    split
    · next s' heq => rw [heq] at this; exact this
    · next s' id heq => rw [heq] at this; exact ih this.1 this.2

theorem clearExpiredResetStreams_npi (n : Nat) {s : Streams} (h : NPI (fun _ => False) s) (he : ErrOK s) :
    NPI (fun _ => False) (Streams.clearExpiredResetStreams n s) := (clearExpiredResetStreams_npe n h he).1
theorem clearAllResetStreams_npi (n : Nat) {s : Streams} (h : NPI (fun _ => False) s) (he : ErrOK s) :
    NPI (fun _ => False) (Streams.clearAllResetStreams n s) := (clearAllResetStreams_npe n h he).1

end H2V.Lemmas.ConnNoPanicP
