import Lean
import H2V.Lemmas.ConnRecvPBase
/-
  C03 — part 2: proof automation for `Ext` goals.

  A goal `Ext s0 (f a (g b s))` is peeled from the outside: `ext_head` looks at the head function
  `f` of the target and applies `Ext.trans ?_ (f_ext ..)` where `f_ext : Ext s (f a s)` is found BY
  NAME (`<last component of f>_ext` in this namespace).  `ext_auto` repeats that, splitting `if`s and
  `match`es and reducing `let`s on the way.
-/
namespace H2V.Lemmas.ConnRecvP
open H2V H2V.Model H2V.Model.Conn
attribute [local irreducible] wrapSubU32 wrapSubUsize

/-- proves `SameR x (f x)` for the stream methods that do not touch the receive side -/
syntax "samer" : tactic
macro_rules | `(tactic| samer) => `(tactic| with_reducible exact ⟨rfl, rfl, rfl, fun h => h, fun h => h⟩)

theorem notifySend_same (x : Stream) : SameR x x.notifySend.1 := by
  unfold Stream.notifySend
  cases h1 : x.sendTask <;> cases h2 : x.openTask <;> simp only [h1, h2] <;> exact ⟨rfl, rfl, rfl, fun h => h, fun h => h⟩
macro_rules | `(tactic| samer) => `(tactic| with_reducible exact notifySend_same _)

theorem notifyRecv_same (x : Stream) : SameR x x.notifyRecv.1 := by
  unfold Stream.notifyRecv; split <;> samer
macro_rules | `(tactic| samer) => `(tactic| with_reducible exact notifyRecv_same _)

theorem notifyPush_same (x : Stream) : SameR x x.notifyPush.1 := by
  unfold Stream.notifyPush; split <;> samer
macro_rules | `(tactic| samer) => `(tactic| with_reducible exact notifyPush_same _)

theorem notifyCapacity_same (x : Stream) : SameR x x.notifyCapacity.1 :=
  SameR.trans (y := { x with sendCapacityInc := true }) ⟨rfl, rfl, rfl, fun h => h, fun h => h⟩ (notifySend_same _)
macro_rules | `(tactic| samer) => `(tactic| with_reducible exact notifyCapacity_same _)

theorem assignCapacity_same (x : Stream) (a b : Nat) : SameR x (x.assignCapacity a b).1 := by
  unfold Stream.assignCapacity; simp only []; split
  · exact SameR.trans (y := { x with sendFlow := (x.sendFlow.assignCapacity a).1 }) ⟨rfl, rfl, rfl, fun h => h, fun h => h⟩
      (notifyCapacity_same _)
  · samer
macro_rules | `(tactic| samer) => `(tactic| with_reducible exact assignCapacity_same _ _ _)

open Lean Elab Command Meta in
/-- `abstract_const f c as g`: defines `g := fun (x : type of c) => (value of f)[c := x]`, so that
    `f = g c` holds by unfolding both sides to syntactically identical terms (kernel-checked like any
    definition).  Needed for `Stream.sendData`: its `if prev < s1.capacity ..` sits under a pair
    `match`, so any definitional unfolding makes the kernel evaluate the `Decidable` instance, which
    reaches `wrapSubUsize` = `.. + 2^64 ..` — and `whnf` of `x + literal` is unary. With the instance
    abstracted the evaluation is stuck at once. -/
elab "abstract_const " f:ident c:ident " as " g:ident : command => liftTermElabM do
  let fn ← realizeGlobalConstNoOverloadWithInfo f
  let cn ← realizeGlobalConstNoOverloadWithInfo c
  let finfo ← getConstInfo fn
  let cinfo ← getConstInfo cn
  let some val := finfo.value? | throwError "no value"
  unless finfo.levelParams.isEmpty && cinfo.levelParams.isEmpty do throwError "universe polymorphic"
  let cty := cinfo.type
  let (gval, gty) ← withLocalDeclD `inst cty fun x => do
    let v := val.replace fun e => if e.isConstOf cn then some x else none
    let gval ← mkLambdaFVars #[x] v
    let gty ← mkForallFVars #[x] finfo.type
    pure (gval, gty)
  let gname := (← getCurrNamespace) ++ g.getId
  let hints := ReducibilityHints.regular (getMaxHeight (← getEnv) gval + 1)
  addDecl (.defnDecl { name := gname, levelParams := [], type := gty, value := gval, hints := hints, safety := .safe })

open Lean Elab Command Term Meta in
/-- `kernel_rfl name : ∀ xs, lhs = rhs`: adds the theorem with proof `fun xs => Eq.refl lhs`, checked by
    the kernel only (the elaborator's own `isDefEq` reduces matchers eagerly and runs into the unary
    `x + 2^64`; the kernel compares the two sides structurally first) -/
elab "kernel_rfl " n:ident " : " t:term : command => liftTermElabM do
  let stmt ← elabType t
  synthesizeSyntheticMVarsNoPostponing
  let stmt ← instantiateMVars stmt
  if stmt.hasMVar || stmt.hasFVar then throwError "kernel_rfl: statement not closed"
  let prf ← forallTelescope stmt fun xs body => do
    let some (_, lhs, _) := body.eq? | throwError "kernel_rfl: not an equation"
    mkLambdaFVars xs (← mkEqRefl lhs)
  let name := (← getCurrNamespace) ++ n.getId
  addDecl (.thmDecl { name := name, levelParams := [], type := stmt, value := prf })

abstract_const Stream.sendData Nat.decLt as sendDataG

theorem sendData_eq_G : Stream.sendData = sendDataG Nat.decLt := rfl

theorem sendDataG_same (inst : ∀ p q : Nat, Decidable (p < q)) (x : Stream) (a b : Nat) :
    SameR x (sendDataG inst x a b).1 := by
  unfold sendDataG
  generalize x.sendFlow.sendData a = p
  obtain ⟨fl, r⟩ := p
  dsimp only
  generalize inst _ _ = d
  cases d with
  | isTrue h =>
    simp only [if_pos h]
    exact SameR.trans (y := { x with sendFlow := fl, bufferedSendData := wrapSubUsize x.bufferedSendData a, requestedSendCapacity := wrapSubU32 x.requestedSendCapacity a })
      ⟨rfl, rfl, rfl, fun h => h, fun h => h⟩ (notifyCapacity_same _)
  | isFalse h =>
    simp only [if_neg h]
    exact ⟨rfl, rfl, rfl, fun h => h, fun h => h⟩

theorem sendData_same (x : Stream) (a b : Nat) : SameR x (x.sendData a b).1 := by
  rw [sendData_eq_G]; exact sendDataG_same _ x a b
macro_rules | `(tactic| samer) => `(tactic| with_reducible exact sendData_same _ _ _)

theorem setQueued_same (x : Stream) (q : QName) (v : Bool) : SameR x (x.setQueued q v) := by
  cases q <;> exact ⟨rfl, rfl, rfl, fun h => h, fun h => h⟩
macro_rules | `(tactic| samer) => `(tactic| with_reducible exact setQueued_same _ _ _)

theorem waitSend_same (x : Stream) (t : String) : SameR x (x.waitSend t) := ⟨rfl, rfl, rfl, fun h => h, fun h => h⟩
macro_rules | `(tactic| samer) => `(tactic| with_reducible exact waitSend_same _ _)
theorem waitOpen_same (x : Stream) (t : String) : SameR x (x.waitOpen t) := ⟨rfl, rfl, rfl, fun h => h, fun h => h⟩
macro_rules | `(tactic| samer) => `(tactic| with_reducible exact waitOpen_same _ _)

-- the state transitions: a closed state stays closed

theorem setReset_closed (st : State) (sid : Nat) (r : Reason) (i : Initiator) : (st.setReset sid r i).isClosed = true := rfl
theorem setScheduledReset_closed (st : State) (r : Reason) : (st.setScheduledReset r).isClosed = true := rfl
theorem recvReset_closed (st : State) (sid : Nat) (r : Reason) (q : Bool) (h : st.isClosed = true) :
    (st.recvReset sid r q).isClosed = true := by
  obtain ⟨inner⟩ := st
  cases inner <;> simp [State.isClosed] at h
  unfold State.recvReset; simp only []; split <;> rfl
theorem handleError_closed (st : State) (e : PErr) (h : st.isClosed = true) : (st.handleError e).isClosed = true := by
  obtain ⟨inner⟩ := st
  cases inner <;> simp [State.isClosed] at h
  rfl
theorem recvEof_closed (st : State) (h : st.isClosed = true) : st.recvEof.isClosed = true := by
  obtain ⟨inner⟩ := st
  cases inner <;> simp [State.isClosed] at h
  rfl
theorem sendOpen_closed (st : State) (eos : Bool) (h : st.isClosed = true) : (st.sendOpen eos).1.isClosed = true := by
  obtain ⟨inner⟩ := st
  cases inner <;> simp [State.isClosed] at h
  rfl
theorem recvOpen_closed (st : State) (a b : Bool) (h : st.isClosed = true) : (st.recvOpen a b).1.isClosed = true := by
  obtain ⟨inner⟩ := st
  cases inner <;> simp [State.isClosed] at h
  rfl
theorem reserveRemote_closed (st : State) (h : st.isClosed = true) : st.reserveRemote.1.isClosed = true := by
  obtain ⟨inner⟩ := st
  cases inner <;> simp [State.isClosed] at h
  rfl
theorem reserveLocal_closed (st : State) (h : st.isClosed = true) : st.reserveLocal.1.isClosed = true := by
  obtain ⟨inner⟩ := st
  cases inner <;> simp [State.isClosed] at h
  rfl
theorem recvClose_closed (st : State) (h : st.isClosed = true) : st.recvClose.1.isClosed = true := by
  obtain ⟨inner⟩ := st
  cases inner <;> simp [State.isClosed] at h
  rfl
theorem sendClose_closed (st st' : State) (h : st.isClosed = true) (h' : st.sendClose = some st') : st'.isClosed = true := by
  obtain ⟨inner⟩ := st
  cases inner <;> simp [State.isClosed] at h
  simp [State.sendClose] at h'

theorem setReset_same (x : Stream) (r : Reason) (i : Initiator) : SameR x (x.setReset r i).1 := by
  unfold Stream.setReset
  simp only []
  refine SameR.trans (y := { x with state := x.state.setReset x.id r i }) ⟨rfl, rfl, rfl, fun _ => rfl, fun h => h⟩ ?_
  exact (notifySend_same _).trans ((notifyPush_same _).trans (notifyRecv_same _))
macro_rules | `(tactic| samer) => `(tactic| with_reducible exact setReset_same _ _ _)

/-- a new `state` computed from the entry itself: closedness must be kept -/
theorem setState_same (x : Stream) (st' : State) (h : x.state.isClosed = true → st'.isClosed = true) :
    SameR x { x with state := st' } := ⟨rfl, rfl, rfl, h, fun h => h⟩

open Lean Elab Tactic Meta in
/-- the head function of the target state of an `Ext` goal, looking through `.1`/`.2` -/
def extHeadOfAux : Nat → Expr → Option Expr
  | 0, _ => none
  | fuel + 1, e =>
    match e with
    | .proj _ _ b => extHeadOfAux fuel b
    | .mdata _ b => extHeadOfAux fuel b
    | _ =>
      let f := e.getAppFn
      match f with
      | .const n _ =>
        if n == ``Prod.fst || n == ``Prod.snd then
          match e.getAppArgs.back? with
          | some a => extHeadOfAux fuel a
          | none => none
        else some f
      | .fvar _ => if e.isFVar then some f else none
      | _ => none

open Lean Elab Tactic Meta in
def extHeadOf (e : Expr) : Option Expr := extHeadOfAux 16 e

open Lean Elab Tactic Meta in
/-- One step on a goal `Ext s0 t`, chosen by looking at the head of `t` only (no search):
    * `t` a variable: close the goal with a hypothesis, `Ext.refl`, or rewrite along a destructuring
      equation `p = (t, _)`;
    * `t = f … s …`: `Ext.trans ?_ (f_ext ..)` with the lemma found BY NAME (`<last component of f>_ext`),
      `modStream`/`modStreamW`/`modRecv` leave their side condition when `samer` cannot prove it;
    * `t` a structure literal: the field-update lemmas;
    * anything else (`if`, `match`, `let`): fails, so that `ext_let` / `split` take over. -/
elab "ext_step" ih:(ident)? : tactic => withMainContext do
  let g ← getMainGoal
  let t ← instantiateMVars (← g.getType)
  unless t.isAppOfArity ``Ext 2 do throwError "ext_step: not an Ext goal"
  let e := t.appArg!
  if t.appFn!.appArg! == e then
    g.assign (mkApp (mkConst ``Ext.refl) e)
    replaceMainGoal []
    return
  match extHeadOf e with
  | none => throwError "ext_step: no head"
  | some (.fvar _) =>
    evalTactic (← `(tactic| first
      | with_reducible exact Ext.refl _
      | with_reducible assumption
      | with_reducible refine Ext.of_fst_eq (by assumption) ?_))
  | some (.const n _) =>
    if n == ``Streams.mk then
      evalTactic (← `(tactic| first
        | with_reducible refine Ext.trans ?_ (setCounts_ext ..)
        | with_reducible refine Ext.trans ?_ (setRefs_ext ..)
        | with_reducible refine Ext.trans ?_ (setConnError_ext ..)
        | with_reducible refine Ext.trans ?_ (setTask_ext ..)
        | with_reducible refine Ext.trans ?_ (unlink_ext ..)
        | with_reducible refine Ext.trans ?_ (remove_ext ..)
        | with_reducible refine Ext.trans ?_ (unlinkRemove_ext ..)
        | with_reducible refine Ext.trans ?_ (remove_ext' ..)
        | with_reducible refine Ext.trans ?_ (insert_ext' _ _ _ _ (by assumption) ?_ ?_)))
    else if n == ``Streams.modStream then
      evalTactic (← `(tactic| first
        | ((with_reducible refine Ext.trans ?_ (modStream_ext _ _ _ ?side)); case side => intro _ _; samer)
        | with_reducible refine Ext.trans ?_ (modStream_ext _ _ _ ?_)))
    else if n == ``Streams.modStreamW then
      evalTactic (← `(tactic| first
        | ((with_reducible refine Ext.trans ?_ (modStreamW_ext _ _ _ ?side)); case side => intro _ _; samer)
        | with_reducible refine Ext.trans ?_ (modStreamW_ext _ _ _ ?_)))
    else if n == ``Streams.modRecv then
      evalTactic (← `(tactic| first
        | ((with_reducible refine Ext.trans ?_ (modRecv_ext _ _ ?side)); case side => intro _; exact ⟨rfl, rfl, rfl⟩)
        | with_reducible refine Ext.trans ?_ (modRecv_ext _ _ ?_)))
    else if n == ``ite || n == ``dite || (← isMatcher n) then
      throwError "ext_step: control structure"
    else
      let last := match n with
        | .str _ s => s
        | _ => "?"
      let lemmaName := (`H2V.Lemmas.ConnRecvP).str (last ++ "_ext")
      if (← getEnv).contains lemmaName then
        -- `Ext.trans ?_ (lemma args)`: unify the target of the lemma with `e`; hypotheses of the lemma
        -- that unification does not determine become new goals
        let s0 := t.appFn!.appArg!
        let lem ← mkConstWithFreshMVarLevels lemmaName
        let (args, _, concl) ← forallMetaTelescopeReducing (← inferType lem)
        unless concl.isAppOfArity ``Ext 2 do throwError "ext_step: {lemmaName} is not an Ext lemma"
        let mid := concl.appFn!.appArg!
        unless (← withReducible <| isDefEq concl.appArg! e) do throwError "ext_step: {lemmaName} does not apply"
        let g1 ← mkFreshExprSyntheticOpaqueMVar (mkApp2 (mkConst ``Ext) s0 mid)
        let mut newGoals := #[g1.mvarId!]
        for a in args do
          let a ← instantiateMVars a
          if a.isMVar then
            unless (← a.mvarId!.isAssigned) do
              unless (← isProp (← inferType a)) do throwError "ext_step: {lemmaName} leaves data undetermined"
              newGoals := newGoals.push a.mvarId!
        g.assign (mkApp5 (mkConst ``Ext.trans) s0 mid e g1 (mkAppN lem args))
        replaceMainGoal newGoals.toList
      else
        match ih with
        | some ih => evalTactic (← `(tactic| with_reducible refine Ext.trans ?_ ($ih ..)))
        | none => throwError "ext_step: no lemma {lemmaName}"
  | _ => throwError "ext_step: no head"

open Lean Elab Tactic Meta in
/-- goal `Ext s0 (let x := v; b)` (possibly under `.1`):
    * `x : Streams` — two goals `Ext s0 v` and `∀ x, Ext s0 x → Ext s0 b`: the intermediate state is
      forgotten, only the fact that it extends `s0` is kept (no duplication of `v` in `b`);
    * any other `let` is substituted. -/
elab "ext_let" : tactic => withMainContext do
  let g ← getMainGoal
  let t ← instantiateMVars (← g.getType)
  unless t.isAppOfArity ``Ext 2 do throwError "ext_let: not an Ext goal"
  let s0 := t.appFn!.appArg!
  let e := t.appArg!
  -- strip projections
  let rec strip (e : Expr) (fuel : Nat) : Option (Expr × (Expr → Expr)) :=
    match fuel with
    | 0 => none
    | fuel + 1 =>
      match e with
      | .letE .. => some (e, id)
      | .mdata _ b => strip b fuel
      | .proj n i b => (strip b fuel).map fun (l, k) => (l, fun x => .proj n i (k x))
      | .app f a =>
        if (f.isAppOfArity ``Prod.fst 2 || f.isAppOfArity ``Prod.snd 2) then
          (strip a fuel).map fun (l, k) => (l, fun x => .app f (k x))
        else none
      | _ => none
  match strip e 6 with
  | some (.letE n ty v b _, k) =>
    if ty.isConstOf ``Streams then
      let g1 ← mkFreshExprSyntheticOpaqueMVar (mkApp2 (mkConst ``Ext) s0 v)
      let ty2 ← withLocalDeclD n ty fun x => do
        withLocalDeclD `hx (mkApp2 (mkConst ``Ext) s0 x) fun hx => do
          mkForallFVars #[x, hx] (mkApp2 (mkConst ``Ext) s0 (k ((b.instantiate1 x).replace fun e => if e == v then some x else none)))
      let g2 ← mkFreshExprSyntheticOpaqueMVar ty2
      g.assign (mkApp2 g2 v g1)
      let (_, g2') ← g2.mvarId!.introNP 2
      replaceMainGoal [g1.mvarId!, g2']
    else
      let g' ← g.replaceTargetDefEq (mkApp2 (mkConst ``Ext) s0 (k (b.instantiate1 v)))
      replaceMainGoal [g']
  | _ => throwError "ext_let: no let"

open Lean Elab Tactic Meta in
/-- `∀ …, Ext s t`: introduce the binders -/
elab "ext_intro" : tactic => withMainContext do
  let g ← getMainGoal
  let t ← instantiateMVars (← g.getType)
  unless t.isForall do throwError "ext_intro: not a ∀"
  let rec concl (e : Expr) : Expr := match e with
    | .forallE _ _ b _ => concl b
    | .mdata _ b => concl b
    | e => e
  unless (concl t).isAppOfArity ``Ext 2 do throwError "ext_intro: conclusion is not Ext"
  let (_, g') ← g.intros
  replaceMainGoal [g']

macro "ext_auto" : tactic =>
  `(tactic| repeat (any_goals (first | ext_step | ext_intro | ext_let | split | dsimp (config := { zeta := false }) only)))
/-- the same with an induction hypothesis `ih : ∀ …, Ext s (loop n … s …)` -/
macro "ext_auto_ih" ih:ident : tactic =>
  `(tactic| repeat (any_goals (first | ext_step $ih | ext_intro | ext_let | split | dsimp (config := { zeta := false }) only)))

end H2V.Lemmas.ConnRecvP
