import H2V.Lemmas.ConnFlowPReach
import H2V.Lemmas.ConnFlowPMoves
import H2V.Lemmas.ConnWakePTear
/-
  ConnPartP, part 12 — C16: the send ledger `Σ stream.available + conn.available = conn.window`.

  ConnFlowP leaves one gap (`C16.capacity_lost_only_by_release_partial`): `transition_after` may release a
  closed, unreferenced stream that still holds capacity.  Here:
    * `a9_reach`, `a9_ledger`: a state that IS reachable in ConnFlowP's `Reach` (the stream-layer API with
      ARBITRARY `Writer` arguments for `poll_complete`) in which 7000 octets of connection capacity are
      gone for good.  The history needs `poll_complete` to be called with three unrelated writers: one
      that takes a DATA chunk and keeps its remainder, a fresh one, and one that "hands back" a remainder
      it never took.  A connection has ONE codec; the real code and the connection model (`Conn`) cannot
      do this.  So the full statement is false for `Reach` and can only be true — and proved — at a level
      where `Streams` and `Writer` are coupled (`Conn`).
    * `release_loses_nothing_of_tight`: what a coupled proof has to supply, as a state predicate:
      `Tight s` = every `Stream::is_closed()` entry holds no capacity.  Under it `transition_after`
      keeps the total EXACTLY, with no exception.
-/
namespace H2V.Lemmas.ConnPartP
open H2V H2V.Model H2V.Model.Conn H2V.Lemmas.ConnFlowP

namespace LedgerCex
/-- client, default builder except `max_concurrent_reset_streams = 0` (only makes the release immediate) -/
def a0 : Streams := (Conn.init { resetMax := 0 }).streams
/-- a request with a body to follow: stream 1, key 0 -/
def a1 : Streams := (a0.sendRequest false [] false none).1
/-- the connection writes the HEADERS -/
def a2 : Streams := (Streams.pollComplete 10 a1 {} {} "c").1
/-- the application reserves 10 000 octets of capacity … -/
def a3 : Streams := a2.refReserveCapacity 0 10000
/-- … and sends 3000 octets of DATA -/
def a4 : Streams := (a3.refSendData 0 3000 false).1
/-- `poll_complete` with a writer whose max frame size is 2000 and a transport that takes nothing: the
    first 2000 octets are in the codec (in flight), 1000 wait to be reclaimed -/
def a5 : Streams := (Streams.pollComplete 10 a4 { maxFrameSize := 2000 } { budget := some 0 } "c").1
/-- all handles dropped: implicit reset CANCEL scheduled; the capacity beyond what is buffered goes back -/
def a6 : Streams := a5.dropStreamRef 0
/-- `poll_complete` with ANOTHER writer (fresh): the in-flight remainder is not handed back; the
    stream's own queue is empty, RST_STREAM goes out -/
def a7 : Streams := (Streams.pollComplete 10 a6 {} {} "c").1
/-- WINDOW_UPDATE(1, 1) from the peer: `try_assign_capacity` tops the stream up to its old request -/
def a8 : Streams := (a7.recvWindowUpdate 1 1).1
/-- `poll_complete` with a third writer that "hands back" a 1000-octet remainder: it is sent (after the
    RST_STREAM), the stream is closed, unreferenced — released, with 7000 octets of capacity -/
def a9 : Streams :=
  (Streams.pollComplete 10 a8 { lastDataFrame := some { key := 0, sid := 1, rest := 1000, eos := false } } {} "c").1

theorem a9_reach : Reach a9 :=
  .pollComplete _ _ _ _ (.recvWindowUpdate 1 1 (by decide) (.pollComplete _ _ _ _ (.dropStreamRef 0
    (.pollComplete _ _ _ _ (.refSendData 0 3000 false (.refReserveCapacity 0 10000 (.pollComplete _ _ _ _
      (.sendRequest false [] false none (.init ⟨rfl, rfl⟩)))))))))

/-- the intermediate states: the chunk in the codec (`in_flight_data_frame = DataFrame(0)`, 1000 octets
    still counted as buffered); after the drop 1000 octets of capacity are kept for them; after the
    foreign `poll_complete` the stream is `Reset(CANCEL, Library)` with 1000 octets "buffered" and the
    marker still set; the WINDOW_UPDATE raises its capacity to 8000 -/
theorem a_steps :
    a5.prio.inFlightDataFrame = .dataFrame 0 ∧ (a5.stream 0).bufferedSendData = 1000 ∧ (a5.stream 0).pendingSend = [] ∧
    (a6.stream 0).sendFlow.available.val = 1000 ∧ (a6.stream 0).requestedSendCapacity = 8000 ∧
    (a7.stream 0).state = { inner := .closed (.error (.reset 1 8 .library)) } ∧ (a7.stream 0).bufferedSendData = 1000 ∧
    a7.prio.inFlightDataFrame = .dataFrame 0 ∧
    (a8.stream 0).sendFlow.available.val = 8000 := by decide +kernel

/-- the end: the store is empty, no `assert!` has fired, and `Σ available + conn.available = 55 535`
    although the connection window is `62 535` -/
theorem a9_ledger : a9.store.slab = [] ∧ a9.panicked = none ∧ total a9 = 55535 ∧ a9.prio.flow.windowSize.val = 62535 := by
  decide +kernel
end LedgerCex

/-- every entry that `Stream::is_closed()` holds no send capacity -/
def Tight (s : Streams) : Prop := ∀ x ∈ s.store.slab, x.isClosed = true → x.sendFlow.available.val = 0

section
open H2V.Lemmas.ConnWakeP

@[grind ←] theorem fr_decNumStreams {s0 s : Streams} (k : Nat) (h : GStep True Frame s0 s) :
    GStep True Frame s0 (s.decNumStreams k) := by
  unfold Streams.decNumStreams; tear_grind

/-- the part of `transition_after` in front of the `is_released` test -/
def taMid (t : Streams) (id : Nat) (b : Bool) : Streams :=
  let st := t.stream id
  let s :=
    if b && !st.isPendingResetExpiration then
      t.modCountsA "self.num_local_reset_streams > 0" Counts.decNumResetStreams
    else t
  if st.isClosed then
    let s := if !st.isPendingResetExpiration then { s with store := s.store.unlink st.id } else s
    if !st.state.isScheduledReset && st.isCounted then s.decNumStreams id else s
  else s

theorem transitionAfter_eq_mid (t : Streams) (id : Nat) (b : Bool) :
    t.transitionAfter id b =
      (if ((taMid t id b).stream id).isReleased then
        let s := if ((taMid t id b).stream id).isCounted then (taMid t id b).decNumStreams id else taMid t id b
        { s with store := s.store.remove id, recvBufferLeaked := s.recvBufferLeaked + (s.stream id).pendingRecv.length }
       else taMid t id b) := rfl

theorem taMid_frame (t : Streams) (id : Nat) (b : Bool) : GStep True Frame t (taMid t id b) := by
  unfold taMid; tear_grind

/-- an entry that `transition_after` releases was `is_closed()` -/
theorem released_was_closed (t : Streams) (id : Nat) (b : Bool)
    (hrel : ((taMid t id b).stream id).isReleased = true) :
    ∃ a, t.store.get? id = some a ∧ a.isClosed = true := by
  have hcl : ((taMid t id b).stream id).isClosed = true := by
    unfold Stream.isReleased at hrel
    simp only [Bool.and_eq_true] at hrel
    exact hrel.1.1.1.1.1.1.1
  cases ha : t.store.get? id with
  | none =>
    have := (taMid_frame t id b).fresh id ha
    simp [Streams.stream, this, Stream.isClosed, State.isClosed] at hcl
  | some a =>
    refine ⟨a, rfl, ?_⟩
    rcases (taMid_frame t id b).keep id a ha with ⟨_, hn⟩ | ⟨c, hc, hac⟩
    · simp [Streams.stream, hn, Stream.isClosed, State.isClosed] at hcl
    · rw [stream_eq_of_get? hc] at hcl
      unfold Stream.isClosed at hcl ⊢
      rw [← hac.state, ← hac.buffered, ← hac.pendingSend]; exact hcl
end

theorem eq_of_nodup_key {l : List Stream} (h : (l.map (·.key)).Nodup) {x a : Stream} (hx : x ∈ l) (ha : a ∈ l)
    (hk : x.key = a.key) : x = a := by
  induction l with
  | nil => cases hx
  | cons y ys ih =>
    simp only [List.map_cons, List.nodup_cons] at h
    rcases List.mem_cons.mp hx with rfl | hx'
    · rcases List.mem_cons.mp ha with rfl | ha'
      · rfl
      · exact absurd (List.mem_map_of_mem (f := (·.key)) ha') (by rw [← hk]; exact h.1)
    · rcases List.mem_cons.mp ha with rfl | ha'
      · exact absurd (List.mem_map_of_mem (f := (·.key)) hx') (by rw [hk]; exact h.1)
      · exact ih h.2 hx' ha'

/-- under `Tight`, `transition_after` keeps `Σ available + conn.available` exactly — whatever it
    unlinks or releases -/
theorem release_loses_nothing_of_tight {t : Streams} (hk : KeysOk t.store) (ht : Tight t) (id : Nat) (b : Bool) :
    total (t.transitionAfter id b) = total t := by
  by_cases hrel : ((taMid t id b).stream id).isReleased = true
  · obtain ⟨a, ha, hcl⟩ := released_was_closed t id b hrel
    rcases transitionAfter_total hk id b with h | ⟨st, -, -, -, ⟨x, hx, hxk, hfl⟩, h⟩
    · exact h
    · -- keys are unique: `x` is the entry `a`
      have hax : x = a := by
        have hmem := get?_mem ha
        exact eq_of_nodup_key hk.1 hx hmem.1 (by rw [hxk, hmem.2])
      subst hax
      have h0 := ht x hx hcl
      rw [h, ← hfl, h0]; omega
  · -- nothing is removed: keys, flows and the queues of `Prioritize` are as before
    obtain ⟨t1, hx, hc⟩ := transitionAfter_cases t id b
    rcases hc with hc | ⟨-, -, -, -, -, -⟩
    · rw [hc]; exact hx.total hk
    · -- (the release branch of `transitionAfter_cases` cannot be the one taken here: decide by the model's text)
      rw [transitionAfter_eq_mid, if_neg hrel]
      have hx' : XFr t (taMid t id b) := by unfold taMid; xfr_auto
      exact hx'.total hk

-- ===================================================================== the coupling that the counterexample breaks

/-- the codec holds a DATA frame whose remainder has not been reclaimed (`Next::Data` or `last_data_frame`) -/
def Holds (w : Writer) : Prop := w.lastDataFrame.isSome = true ∨ w.next.isSome = true

/-- `in_flight_data_frame` is set only while the codec holds the frame -/
def MarkerCoupled (s : Streams) (w : Writer) : Prop := s.prio.inFlightDataFrame ≠ .nothing → Holds w

/-- **`pop_frame` never sees an outstanding remainder when stream layer and codec are coupled**: after
    `reclaim_frame(dst)` — which `poll_complete` runs before every `pop_frame` — a codec that `has_capacity()`
    (the condition under which `pop_frame` is called at all) means `in_flight_data_frame = Nothing`.  Steps
    `a7` and `a9` of the counterexample are exactly a `poll_complete` whose writer violates `MarkerCoupled`. -/
theorem reclaimFrame_then_capacity (s : Streams) (w : Writer) (hc : MarkerCoupled s w) :
    MarkerCoupled (s.reclaimFrame w).1 (s.reclaimFrame w).2.1 ∧
    ((s.reclaimFrame w).2.1.hasCapacity = true → (s.reclaimFrame w).1.prio.inFlightDataFrame = .nothing) := by
  unfold Streams.reclaimFrame Writer.takeLastDataFrame
  cases hl : w.lastDataFrame with
  | some fr =>
    simp only
    have hm : (s.reclaimFrameInner fr).1.prio.inFlightDataFrame = .nothing := by
      unfold Streams.reclaimFrameInner
      simp only
      have hp : ∀ (t : Streams) (m : String), (t.panic m).prio = t.prio := by
        intro t m; unfold Streams.panic Streams.prio; split <;> rfl
      have hq : ∀ (t : Streams) (k : Nat), (t.qPush .pendingSend k).1.prio.inFlightDataFrame = t.prio.inFlightDataFrame := by
        intro t k
        unfold Streams.qPush
        split
        · rfl
        · unfold Streams.modStream
          split
          · rfl
          · show ((t.panic _).setQ _ _).prio.inFlightDataFrame = _
            unfold Streams.panic; split <;> rfl
      have hms : ∀ (t : Streams) (k : Nat) (f : Stream → Stream), (t.modStream k f).prio = t.prio := by
        intro t k f; unfold Streams.modStream; split
        · rfl
        · exact hp _ _
      (repeat' split) <;> first | rfl | (rw [hp]; rfl) | (rw [hq, hms]; rfl) | (rw [hms]; rfl)
    exact ⟨fun h => absurd hm h, fun _ => hm⟩
  | none =>
    simp only
    refine ⟨fun h => ?_, fun hcap => ?_⟩
    · rcases hc h with h' | h'
      · rw [hl] at h'; cases h'
      · exact Or.inr h'
    · cases hm : s.prio.inFlightDataFrame with
      | nothing => rfl
      | dataFrame k =>
        exfalso
        rcases hc (by rw [hm]; intro h; cases h) with h' | h'
        · rw [hl] at h'; cases h'
        · unfold Writer.hasCapacity at hcap
          simp only [Bool.and_eq_true] at hcap
          cases hn : w.next with
          | none => rw [hn] at h'; cases h'
          | some nd => rw [hn] at hcap; simp at hcap
      | drop =>
        exfalso
        rcases hc (by rw [hm]; intro h; cases h) with h' | h'
        · rw [hl] at h'; cases h'
        · unfold Writer.hasCapacity at hcap
          simp only [Bool.and_eq_true] at hcap
          cases hn : w.next with
          | none => rw [hn] at h'; cases h'
          | some nd => rw [hn] at hcap; simp at hcap

theorem bufferData_holds (w : Writer) (len : Nat) (flagEos : Bool) (fr : DataFrame) (hlen : len ≤ w.maxFrameSize) :
    ∃ w', w.bufferData len flagEos fr = some w' ∧ Holds w' := by
  unfold Writer.bufferData
  simp only [show ¬ len > w.maxFrameSize from by omega, if_false]
  split
  · split
    · exact ⟨_, rfl, Or.inr rfl⟩
    · exact ⟨_, rfl, Or.inr rfl⟩
  · exact ⟨_, rfl, Or.inl rfl⟩

/-- `dst.buffer(DATA)` sets the marker and hands the frame to the codec together -/
theorem bufferOut_data_coupled (s : Streams) (w : Writer) (len : Nat) (flagEos : Bool) (fr : DataFrame)
    (hlen : len ≤ w.maxFrameSize) :
    MarkerCoupled (s.bufferOut w (.data len flagEos fr)).1 (s.bufferOut w (.data len flagEos fr)).2 := by
  intro _
  obtain ⟨w', hw, hh⟩ := bufferData_holds w len flagEos fr hlen
  unfold Streams.bufferOut
  simp only [hw]
  exact hh

end H2V.Lemmas.ConnPartP
