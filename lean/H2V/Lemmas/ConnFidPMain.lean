import H2V.Lemmas.ConnFidPOver
/-
  ConnFidP, part 19 — reachability through the API of the stream layer and the main theorems.

  `ApiStep s w s' w'`: one operation of the connection task (`Conn`, connection.rs) or of an application handle
  on the stream layer `s` and the codec `w`, with arbitrary arguments (so every interleaving of peer
  frames, polls of the connection and user calls is a sequence of `ApiStep`s); the codec may, between
  two operations, do anything that keeps the DATA frame it holds (`codec`: flushes, connection-level frames).
  `Reach`: reached from a fresh stream layer by `ApiStep`s.  `Reach.hist`: every reachable pair is a history,
  so the fidelity invariant (`Hist.inv`) holds in it.
-/
set_option linter.unusedSectionVars false
namespace H2V.Lemmas.ConnFidP
open H2V H2V.Model H2V.Model.Conn H2V.Lemmas.ConnWakeP

theorem held_pollSendPendingRefusal (n : Nat) (s : Streams) (w : Writer) (io : Tio) (t : String) (hw : WOk w) :
    held (Streams.pollSendPendingRefusal n s w io t).2.1 = held w ∧ WOk (Streams.pollSendPendingRefusal n s w io t).2.1 := by
  induction n generalizing s w io with
  | zero => unfold Streams.pollSendPendingRefusal; exact ⟨rfl, hw⟩
  | succ n ih =>
    unfold Streams.pollSendPendingRefusal
    have hs : held (s.sendPendingRefusal w).2.1 = held w ∧ WOk (s.sendPendingRefusal w).2.1 := by
      unfold Streams.sendPendingRefusal
      split
      · split
        · exact ⟨rfl, hw⟩
        · exact ⟨(held_bufferSimple w 4 _).1, (held_bufferSimple w 4 _).2 hw⟩
      · exact ⟨rfl, hw⟩
    rcases hp : s.sendPendingRefusal w with ⟨s1, w1, st⟩
    rw [hp] at hs
    cases st with
    | complete => exact hs
    | codecFull =>
      simp only
      have hr := held_pollReadyW w1 io t hs.2
      rcases hq : pollReadyW w1 io t with ⟨w2, io2, r⟩
      rw [hq] at hr
      cases r with
      | ready =>
        have := ih s1 w2 io2 hr.2
        exact ⟨this.1.trans (hr.1.trans hs.1), this.2⟩
      | pending => exact ⟨hr.1.trans hs.1, hr.2⟩
      | err e => exact ⟨hr.1.trans hs.1, hr.2⟩

/-- the operations on (stream layer, codec) -/
inductive ApiStep : Streams → Writer → Streams → Writer → Prop
  -- frames and events of the connection
  | recvHeaders (s : Streams) (w : Writer) (h : HeadersIn) (hov : h.isOverSize = false) : ApiStep s w (s.recvHeaders h).1 w
  | recvHeadersAny (s : Streams) (w : Writer) (h : HeadersIn) : ApiStep s w (s.recvHeaders h).1 w
  | recvData (s : Streams) (w : Writer) (id : Nat) (p : Bytes) (eos : Bool) (pad : Option Nat) : ApiStep s w (s.recvData id p eos pad).1 w
  | recvReset (s : Streams) (w : Writer) (id : Nat) (r : Reason) : ApiStep s w (s.recvReset id r).1 w
  | recvWindowUpdate (s : Streams) (w : Writer) (id inc : Nat) : ApiStep s w (s.recvWindowUpdate id inc).1 w
  | recvPushPromise (s : Streams) (w : Writer) (id : Nat) (h : HeadersIn) : ApiStep s w (s.recvPushPromise id h).1 w
  | handleError (s : Streams) (w : Writer) (e : PErr) : ApiStep s w (s.handleError e).1 w
  | recvGoAwayFrame (s : Streams) (w : Writer) (l : Nat) (r : Reason) (d : Bytes) : ApiStep s w (s.recvGoAwayFrame l r d).1 w
  | recvGoAway (s : Streams) (w : Writer) (l : Nat) : ApiStep s w (s.recvGoAway l) w
  | recvEof (s : Streams) (w : Writer) (b : Bool) : ApiStep s w (s.recvEof b) w
  | innerSendReset (s : Streams) (w : Writer) (id : Nat) (r : Reason) : ApiStep s w (s.innerSendReset id r).1 w
  | setTargetConnectionWindow (s : Streams) (w : Writer) (t : Nat) : ApiStep s w (s.setTargetConnectionWindow t).1 w
  | applyRemoteSettings (s : Streams) (w : Writer) (v : List (Nat × Nat)) (b : Bool) : ApiStep s w (s.applyRemoteSettings v b).1 w
  | applyLocalSettingsFrame (s : Streams) (w : Writer) (v : List (Nat × Nat)) : ApiStep s w (s.applyLocalSettingsFrame v).1 w
  | clearExpiredResetStreams (s : Streams) (w : Writer) (n : Nat) : ApiStep s w (Streams.clearExpiredResetStreams n s) w
  | pollComplete (s : Streams) (w : Writer) (n : Nat) (io : Tio) (t : String) :
      ApiStep s w (Streams.pollComplete n s w io t).1 (Streams.pollComplete n s w io t).2.1
  | pollSendPendingRefusal (s : Streams) (w : Writer) (n : Nat) (io : Tio) (t : String) :
      ApiStep s w (Streams.pollSendPendingRefusal n s w io t).1 (Streams.pollSendPendingRefusal n s w io t).2.1
  | codec (s : Streams) (w w' : Writer) : held w' = held w → (WOk w → WOk w') → ApiStep s w s w'
  | wake (s : Streams) (w : Writer) (t : List String) : ApiStep s w (s.wake t) w
  | clearWakes (s : Streams) (w : Writer) : ApiStep s w { s with wakes := [] } w
  | panic (s : Streams) (w : Writer) (m : String) : ApiStep s w (s.panic m) w
  -- handles
  | cloneHandle (s : Streams) (w : Writer) : ApiStep s w s.cloneHandle w
  | dropHandle (s : Streams) (w : Writer) : ApiStep s w s.dropHandle w
  | sendRequest (s : Streams) (w : Writer) (b : Bool) (f : List Hpack.Field) (eos : Bool) (p : Option Nat) :
      ApiStep s w (s.sendRequest b f eos p).1 w
  | pollPendingOpen (s : Streams) (w : Writer) (p : Option Nat) (t : String) : ApiStep s w (s.pollPendingOpen p t).1 w
  | nextIncoming (s : Streams) (w : Writer) : ApiStep s w s.nextIncoming.1 w
  | recvTakeRequest (s : Streams) (w : Writer) (k : Nat) : ApiStep s w (s.recvTakeRequest k).1 w
  | cloneStreamRef (s : Streams) (w : Writer) (k : Nat) : ApiStep s w (s.cloneStreamRef k) w
  | dropStreamRef (s : Streams) (w : Writer) (k : Nat) : ApiStep s w (s.dropStreamRef k) w
  | refSendResponse (s : Streams) (w : Writer) (k : Nat) (f : List Hpack.Field) (eos : Bool) : ApiStep s w (s.refSendResponse k f eos).1 w
  | refSendInformationalHeaders (s : Streams) (w : Writer) (k : Nat) (f : List Hpack.Field) :
      ApiStep s w (s.refSendInformationalHeaders k f).1 w
  | refSendPushPromise (s : Streams) (w : Writer) (parent : Nat) (v : Bool) (f : List Hpack.Field) :
      ApiStep s w (s.refSendPushPromise parent v f).1 w
  | refSendData (s : Streams) (w : Writer) (k len : Nat) (eos : Bool) : ApiStep s w (s.refSendData k len eos).1 w
  | refSendTrailers (s : Streams) (w : Writer) (k : Nat) (f : List Hpack.Field) : ApiStep s w (s.refSendTrailers k f).1 w
  | refReserveCapacity (s : Streams) (w : Writer) (k c : Nat) : ApiStep s w (s.refReserveCapacity k c) w
  | pollCapacity (s : Streams) (w : Writer) (k : Nat) (t : String) : ApiStep s w (s.pollCapacity k t).1 w
  | refSendReset (s : Streams) (w : Writer) (k : Nat) (r : Reason) : ApiStep s w (s.refSendReset k r) w
  | pollReset (s : Streams) (w : Writer) (k : Nat) (m : PollReset) (t : String) : ApiStep s w (s.pollReset k m t).1 w
  | recvPollResponse (s : Streams) (w : Writer) (n k : Nat) (t : String) : ApiStep s w (Streams.recvPollResponse n s k t).1 w
  | recvPollInformational (s : Streams) (w : Writer) (k : Nat) (t : String) : ApiStep s w (s.recvPollInformational k t).1 w
  | refPollData (s : Streams) (w : Writer) (k : Nat) (t : String) : ApiStep s w (s.refPollData k t).1 w
  | refPollPushed (s : Streams) (w : Writer) (k : Nat) (t : String) : ApiStep s w (s.refPollPushed k t).1 w
  | recvPollTrailers (s : Streams) (w : Writer) (k : Nat) (t : String) : ApiStep s w (s.recvPollTrailers k t).1 w
  | refReleaseCapacity (s : Streams) (w : Writer) (k c : Nat) : ApiStep s w (s.refReleaseCapacity k c).1 w
  | refClearRecvBuffer (s : Streams) (w : Writer) (k : Nat) : ApiStep s w (s.refClearRecvBuffer k) w

/-- **every API operation maps a history to a history** -/
theorem ApiStep.hist {s s' : Streams} {w w' : Writer} (st : ApiStep s w s' w') (h : HistP s w) : HistP s' w' := by
  have hg : permAny.gone := trivial
  have hc : CutAll permAny := fun _ => trivial
  have hA : RpushAll permAny := fun _ _ => trivial
  have hr : RclearAll permAny := fun _ => trivial
  have t0 := Tr.refl permAny s
  cases st with
  | recvHeaders hd hov => exact h.any (recvHeaders_acc' hg hd hov hc hA t0)
  | recvHeadersAny hd => exact h.recvHeaders hd
  | recvData id p eos pad => exact h.any (recvData_acc hg id p eos pad hc hA t0)
  | recvReset id r => exact h.any (recvReset_acc hg id r hc t0)
  | recvWindowUpdate id inc => exact h.any (recvWindowUpdate_acc hg id inc hc t0)
  | recvPushPromise id hd => exact h.any (recvPushPromise_acc hg id hd hc hA t0)
  | handleError e => exact h.any (handleError_acc hg e hc t0)
  | recvGoAwayFrame l r d => exact h.any (recvGoAwayFrame_acc hg l r d hc t0)
  | recvGoAway l => exact h.any (recvGoAway_acc hg l t0)
  | recvEof b => exact h.any (recvEof_acc hg b hc t0)
  | innerSendReset id r => exact h.any (innerSendReset_acc hg id r hc t0)
  | setTargetConnectionWindow t => exact h.any (setTargetConnectionWindow_acc hg t t0)
  | applyRemoteSettings v b => exact h.any (applyRemoteSettings_acc hg v b hc t0)
  | applyLocalSettingsFrame v => exact h.any (applyLocalSettingsFrame_acc hg v t0)
  | clearExpiredResetStreams n => exact h.any (clearExpiredResetStreams_acc hg n t0)
  | pollComplete n io t => exact hist_pollComplete n s w io t h
  | pollSendPendingRefusal n io t =>
    have hh := held_pollSendPendingRefusal n s w io t h.wok
    exact (h.any (pollSendPendingRefusal_acc hg n w io t t0)).codec hh.1 (fun _ => hh.2)
  | codec _ hh hk => exact h.codec hh hk
  | wake t => exact h.any (wake_acc t t0)
  | clearWakes => exact h.any (setWakes_acc [] t0)
  | panic m => exact h.any (panic_acc m t0)
  | cloneHandle => exact h.any (cloneHandle_acc hg t0)
  | dropHandle => exact h.any (dropHandle_acc hg t0)
  | sendRequest b f eos p => obtain ⟨g, h⟩ := h; obtain ⟨g', h', _⟩ := h.sendRequest b f eos p; exact ⟨g', h'⟩
  | pollPendingOpen p t => exact h.any (pollPendingOpen_acc hg p t t0)
  | nextIncoming => exact h.any (nextIncoming_acc hg t0)
  | recvTakeRequest k => exact h.any (recvTakeRequest_acc hg k trivial t0)
  | cloneStreamRef k => exact h.any (cloneStreamRef_acc hg k t0)
  | dropStreamRef k => exact h.any (dropStreamRef_acc hg k hr t0)
  | refSendResponse k f eos => obtain ⟨g, h⟩ := h; obtain ⟨g', h', _⟩ := h.refSendResponse k f eos; exact ⟨g', h'⟩
  | refSendInformationalHeaders k f => obtain ⟨g, h⟩ := h; obtain ⟨g', h', _⟩ := h.refSendInformationalHeaders k f; exact ⟨g', h'⟩
  | refSendPushPromise parent v f => obtain ⟨g, h⟩ := h; exact h.refSendPushPromise parent v f
  | refSendData k len eos => obtain ⟨g, h⟩ := h; obtain ⟨g', h', _⟩ := h.refSendData k len eos; exact ⟨g', h'⟩
  | refSendTrailers k f => obtain ⟨g, h⟩ := h; obtain ⟨g', h', _⟩ := h.refSendTrailers k f; exact ⟨g', h'⟩
  | refReserveCapacity k c => exact h.any (refReserveCapacity_acc hg k c t0)
  | pollCapacity k t => exact h.any (pollCapacity_acc hg k t t0)
  | refSendReset k r => exact h.any (refSendReset_acc hg k r trivial t0)
  | pollReset k m t => exact h.any (pollReset_acc hg k m t t0)
  | recvPollResponse n k t => exact h.any (recvPollResponse_acc hg n k t trivial t0)
  | recvPollInformational k t => exact h.any (recvPollInformational_acc hg k t trivial t0)
  | refPollData k t => exact h.any (refPollData_acc hg k t trivial t0)
  | refPollPushed k t => exact h.any (refPollPushed_acc hg k t (fun _ => trivial) t0)
  | recvPollTrailers k t => exact h.any (recvPollTrailers_acc hg k t trivial t0)
  | refReleaseCapacity k c => exact h.any (refReleaseCapacity_acc hg k c t0)
  | refClearRecvBuffer k => exact h.any (refClearRecvBuffer_acc hg k trivial t0)

/-- reachable from a fresh stream layer (no stream yet, nothing in flight, codec holding no DATA frame) -/
inductive Reach : Streams → Writer → Prop
  | init (s : Streams) (w : Writer) : s.store.slab = [] → marker s = .nothing → held w = none → Reach s w
  | step {s s' : Streams} {w w' : Writer} : Reach s w → ApiStep s w s' w' → Reach s' w'

/-- **every reachable (stream layer, codec) pair is a history** -/
theorem Reach.hist {s : Streams} {w : Writer} (r : Reach s w) : HistP s w := by
  induction r with
  | init s w h0 hm hh => exact ⟨{}, .init s w h0 hm hh⟩
  | step _ st ih => exact st.hist ih

/-- **SEND-SIDE FIDELITY IN EVERY HISTORY.**  For every history with ghost log `g` (and the `weird` flag down)
    and every slab entry `k`:  emitted ++ (in-flight remainder ++ queued) ++ discarded  REFINES  accepted,
    where the discarded suffix `D` is empty unless `k` was cut (reset, error) or removed. -/
theorem Hist.fidelity {s : Streams} {w : Writer} {g : Ghost} (h : Hist s w g) (hw : g.weird = false) (k : Nat) :
    ∃ D, Refine (g.emi k ++ msg (out s (held w) k) ++ D) (g.acc k) ∧ (g.cut k = false → D = []) :=
  (h.inv hw).1.ref k

/-- what has been emitted for a stream is (a splitting of) an octet-wise PREFIX of what was accepted on it: the peer
    sees the accepted header blocks, DATA octets and END_STREAM in order, none twice, none skipped -/
theorem Hist.emitted_prefix {s : Streams} {w : Writer} {g : Ghost} (h : Hist s w g) (hw : g.weird = false) (k : Nat) :
    EmitsPrefix (g.emi k) (g.acc k) ∧ toks (g.emi k) <+: toks (g.acc k) := by
  obtain ⟨D, hR, _⟩ := h.fidelity hw k
  have : EmitsPrefix (g.emi k) (g.acc k) := ⟨msg (out s (held w) k) ++ D, by rw [← List.append_assoc]; exact hR⟩
  exact ⟨this, this.toks_prefix⟩

/-- a queue is only ever cut on a closed stream, and a removed or cut entry accepts nothing further (its accepted
    log is final) — stated as: while the entry exists and is not closed, nothing accepted on it was lost -/
theorem Hist.nothing_lost_while_open {s : Streams} {w : Writer} {g : Ghost} (h : Hist s w g) (hw : g.weird = false)
    (k : Nat) (a : Stream) (ha : s.store.get? k = some a) (hc : a.state.isClosed = false) :
    Refine (g.emi k ++ msg (out s (held w) k)) (g.acc k) := by
  have hI := (h.inv hw).1
  have hcut : g.cut k = false := by
    cases hk : g.cut k with
    | false => rfl
    | true => have := hI.closed k hk a ha; rw [hc] at this; cases this
  obtain ⟨D, hR, hD⟩ := hI.ref k
  rw [hD hcut, List.append_nil] at hR; exact hR

end H2V.Lemmas.ConnFidP
