import H2V.Model.ConnFlow
import H2V.Lemmas.CompBasic
/-
  Part 2a -- flow-control arithmetic of `Model.Conn.FlowControl` (mirror of
  `src/proto/streams/flow_control.rs`): exact `i32` arithmetic of every operation, one operation at
  a time.  The history ("ledger") theorems are in `CompLedger.lean`.

  Conventions: `ws = f.windowSize.val`, `av = f.available.val`, `d = u32AsI32 sz` (the Rust
  `sz as i32`; equal to `sz` for `sz < 2^31`, negative for `2^31 ≤ sz < 2^32`).
-/
namespace H2V.Lemmas.Comp
open H2V H2V.Model.Conn
open H2V.Generated.Consts (MAX_WINDOW_SIZE UNCLAIMED_NUMERATOR UNCLAIMED_DENOMINATOR)

-- ===================================================================== facts about the generated constants

theorem MAX_WINDOW_SIZE_le_I32_MAX : (MAX_WINDOW_SIZE : Int) ≤ I32_MAX := by decide
/-- with the pinned source the bound is tight (`MAX_WINDOW_SIZE = i32::MAX`) -/
theorem MAX_WINDOW_SIZE_eq_I32_MAX : (MAX_WINDOW_SIZE : Int) = I32_MAX := by decide
theorem MAX_WINDOW_SIZE_nonneg : (0 : Int) ≤ (MAX_WINDOW_SIZE : Int) := Int.natCast_nonneg _
theorem UNCLAIMED_NUMERATOR_nonneg : (0 : Int) ≤ (UNCLAIMED_NUMERATOR : Int) := Int.natCast_nonneg _
theorem UNCLAIMED_NUMERATOR_lt_DENOMINATOR : UNCLAIMED_NUMERATOR < UNCLAIMED_DENOMINATOR := by decide
theorem UNCLAIMED_DENOMINATOR_pos : (0 : Int) < (UNCLAIMED_DENOMINATOR : Int) := by decide
theorem UNCLAIMED_ratio :
    (0 : Int) ≤ (UNCLAIMED_NUMERATOR : Int) ∧ (UNCLAIMED_NUMERATOR : Int) < (UNCLAIMED_DENOMINATOR : Int) := by
  decide

-- ===================================================================== i32 helpers

theorem inI32_iff (x : Int) : inI32 x = true ↔ (-2147483648 ≤ x ∧ x ≤ 2147483647) := by
  unfold inI32 I32_MIN I32_MAX
  rw [Bool.and_eq_true, decide_eq_true_iff, decide_eq_true_iff]

theorem not_inI32_iff (x : Int) : inI32 x = false ↔ (x < -2147483648 ∨ 2147483647 < x) := by
  rw [← Bool.not_eq_true, inI32_iff]; omega

/-- `sz as i32` is an `i32` -/
theorem u32AsI32_range (x : Nat) : -2147483648 ≤ u32AsI32 x ∧ u32AsI32 x ≤ 2147483647 := by
  unfold u32AsI32; simp only []; split <;> simp only [U32_MOD] at * <;> omega

theorem u32AsI32_inI32 (x : Nat) : inI32 (u32AsI32 x) = true := (inI32_iff _).2 (u32AsI32_range x)

/-- below `2^31` the cast is the identity -/
theorem u32AsI32_of_lt {x : Nat} (h : x < 2147483648) : u32AsI32 x = (x : Int) := by
  unfold u32AsI32; simp only []; split <;> simp only [U32_MOD] at * <;> omega

@[simp] theorem u32AsI32_zero : u32AsI32 0 = 0 := by decide

/-- for a genuine `u32`, the cast is `0` only for `0` -/
theorem u32AsI32_eq_zero_iff {x : Nat} (h : x < 4294967296) : u32AsI32 x = 0 ↔ x = 0 := by
  unfold u32AsI32; simp only []; split <;> simp only [U32_MOD] at * <;> omega

/-- for a genuine `u32`, the cast is negative exactly from `2^31` on -/
theorem u32AsI32_neg_iff {x : Nat} (h : x < 4294967296) : u32AsI32 x < 0 ↔ 2147483648 ≤ x := by
  unfold u32AsI32; simp only []; split <;> simp only [U32_MOD] at * <;> omega

/-- `wrapI32` is the identity on `i32` values ... -/
theorem wrapI32_of_inI32 {x : Int} (h : inI32 x = true) : wrapI32 x = x := by
  rw [inI32_iff] at h
  unfold wrapI32 u32AsI32; simp only []; split <;> simp only [U32_MOD] at * <;> omega

/-- ... and subtracts `2^32` just above (the only overflow case of a difference of two `i32`) -/
theorem wrapI32_of_above {x : Int} (h1 : 2147483647 < x) (h2 : x ≤ 4294967295) :
    wrapI32 x = x - 4294967296 := by
  unfold wrapI32 u32AsI32; simp only []; split <;> simp only [U32_MOD] at * <;> omega

/-- `wrapI32 x as u32` is `x mod 2^32` -/
theorem wrapI32_emod (x : Int) : wrapI32 x % (U32_MOD : Int) = x % (U32_MOD : Int) := by
  unfold wrapI32 u32AsI32; simp only []; split <;> simp only [U32_MOD] at * <;> omega

-- ===================================================================== Window

/-- `Window::decrease_by` as one `if`: `checked_sub` -/
theorem Window.decreaseBy_eq (w : Window) (n : Nat) :
    w.decreaseBy n =
      if inI32 (w.val - u32AsI32 n) = true then (⟨w.val - u32AsI32 n⟩, .ok ())
      else (w, .error (.reason FLOW_CONTROL_ERROR)) := by
  simp only [Window.decreaseBy, checkedSub]
  by_cases h : inI32 (w.val - u32AsI32 n) = true
  · simp only [h, if_true]
  · simp only [h]; rfl

/-- `Window::increase_by` as one `if`: `checked_add` -/
theorem Window.increaseBy_eq (w : Window) (n : Nat) :
    w.increaseBy n =
      if inI32 (w.val + u32AsI32 n) = true then (⟨w.val + u32AsI32 n⟩, .ok ())
      else (w, .error (.reason FLOW_CONTROL_ERROR)) := by
  simp only [Window.increaseBy, Window.add, checkedAdd]
  by_cases h : inI32 (w.val + u32AsI32 n) = true
  · simp only [h, if_true]
  · simp only [h]; rfl

-- ===================================================================== closed forms of the operations

namespace Flow

/-- `inc_window`, closed form -/
theorem incWindow_eq (f : FlowControl) (sz : Nat) :
    f.incWindow sz =
      if inI32 (f.windowSize.val + u32AsI32 sz) = true ∧
          f.windowSize.val + u32AsI32 sz ≤ (MAX_WINDOW_SIZE : Int)
      then ({ f with windowSize := ⟨f.windowSize.val + u32AsI32 sz⟩ }, .ok ())
      else (f, .error (.reason FLOW_CONTROL_ERROR)) := by
  simp only [FlowControl.incWindow]
  by_cases h1 : inI32 (f.windowSize.val + u32AsI32 sz) = true
  · by_cases h2 : f.windowSize.val + u32AsI32 sz ≤ (MAX_WINDOW_SIZE : Int)
    · have : ¬ (f.windowSize.val + u32AsI32 sz > (MAX_WINDOW_SIZE : Int)) := by omega
      simp [h1, h2, this]
    · have : f.windowSize.val + u32AsI32 sz > (MAX_WINDOW_SIZE : Int) := by omega
      simp [h1, h2, this]
  · simp [h1]

theorem decSendWindow_eq (f : FlowControl) (sz : Nat) :
    f.decSendWindow sz =
      if inI32 (f.windowSize.val - u32AsI32 sz) = true
      then ({ f with windowSize := ⟨f.windowSize.val - u32AsI32 sz⟩ }, .ok ())
      else (f, .error (.reason FLOW_CONTROL_ERROR)) := by
  simp only [FlowControl.decSendWindow, Window.decreaseBy_eq]
  split <;> rfl

theorem assignCapacity_eq (f : FlowControl) (sz : Nat) :
    f.assignCapacity sz =
      if inI32 (f.available.val + u32AsI32 sz) = true
      then ({ f with available := ⟨f.available.val + u32AsI32 sz⟩ }, .ok ())
      else (f, .error (.reason FLOW_CONTROL_ERROR)) := by
  simp only [FlowControl.assignCapacity, Window.increaseBy_eq]
  split <;> rfl

theorem claimCapacity_eq (f : FlowControl) (sz : Nat) :
    f.claimCapacity sz =
      if inI32 (f.available.val - u32AsI32 sz) = true
      then ({ f with available := ⟨f.available.val - u32AsI32 sz⟩ }, .ok ())
      else (f, .error (.reason FLOW_CONTROL_ERROR)) := by
  simp only [FlowControl.claimCapacity, Window.decreaseBy_eq]
  split <;> rfl

/-- `dec_recv_window`, closed form: three outcomes; the middle one is the *partial update*
    (the first `?` passed and was committed, the second `?` failed) -/
theorem decRecvWindow_eq (f : FlowControl) (sz : Nat) :
    f.decRecvWindow sz =
      if inI32 (f.windowSize.val - u32AsI32 sz) = true then
        if inI32 (f.available.val - u32AsI32 sz) = true then
          (⟨⟨f.windowSize.val - u32AsI32 sz⟩, ⟨f.available.val - u32AsI32 sz⟩⟩, .ok ())
        else
          (⟨⟨f.windowSize.val - u32AsI32 sz⟩, f.available⟩, .error (.reason FLOW_CONTROL_ERROR))
      else (f, .error (.reason FLOW_CONTROL_ERROR)) := by
  simp only [FlowControl.decRecvWindow, Window.decreaseBy_eq]
  by_cases h1 : inI32 (f.windowSize.val - u32AsI32 sz) = true
  · by_cases h2 : inI32 (f.available.val - u32AsI32 sz) = true
    · simp [h1, h2]
    · simp [h1, h2]
  · simp [h1]

/-- `send_data`, closed form: five outcomes -/
theorem sendData_eq (f : FlowControl) (sz : Nat) :
    f.sendData sz =
      if sz = 0 then (f, .ok ())
      else if f.windowSize.val < u32AsI32 sz then (f, .error .assertFailed)
      else if inI32 (f.windowSize.val - u32AsI32 sz) = true then
        if inI32 (f.available.val - u32AsI32 sz) = true then
          (⟨⟨f.windowSize.val - u32AsI32 sz⟩, ⟨f.available.val - u32AsI32 sz⟩⟩, .ok ())
        else
          (⟨⟨f.windowSize.val - u32AsI32 sz⟩, f.available⟩, .error (.reason FLOW_CONTROL_ERROR))
      else (f, .error (.reason FLOW_CONTROL_ERROR)) := by
  simp only [FlowControl.sendData, Window.decreaseBy_eq]
  by_cases h0 : sz = 0
  · simp [h0]
  · have : sz > 0 := by omega
    by_cases hlt : f.windowSize.val < u32AsI32 sz
    · simp [this, h0, hlt]
    · by_cases h1 : inI32 (f.windowSize.val - u32AsI32 sz) = true
      · by_cases h2 : inI32 (f.available.val - u32AsI32 sz) = true
        · simp [this, h0, hlt, h1, h2]
        · simp [this, h0, hlt, h1, h2]
      · simp [this, h0, hlt, h1]

end Flow

-- ===================================================================== inc_window

/-- **incWindow_ok** -/
theorem incWindow_ok {f f' : FlowControl} {sz : Nat} (h : f.incWindow sz = (f', .ok ())) :
    f'.windowSize.val = f.windowSize.val + u32AsI32 sz ∧
    f'.windowSize.val ≤ (MAX_WINDOW_SIZE : Int) ∧
    inI32 f'.windowSize.val = true ∧
    f'.available = f.available := by
  rw [Flow.incWindow_eq] at h
  split at h
  · next hc =>
    simp only [Prod.mk.injEq, and_true] at h
    subst h
    exact ⟨rfl, hc.2, hc.1, rfl⟩
  · simp at h

/-- **incWindow_err**: on error nothing was written, and the error is `FLOW_CONTROL_ERROR` -/
theorem incWindow_err {f f' : FlowControl} {sz : Nat} {e : FlowErr}
    (h : f.incWindow sz = (f', .error e)) : f' = f ∧ e = .reason FLOW_CONTROL_ERROR := by
  rw [Flow.incWindow_eq] at h
  split at h
  · simp at h
  · simp only [Prod.mk.injEq, Except.error.injEq] at h
    exact ⟨h.1.symm, h.2.symm⟩

/-- exactly when `inc_window` succeeds -/
theorem incWindow_ok_iff (f : FlowControl) (sz : Nat) :
    isOk (f.incWindow sz).2 = true ↔
      (inI32 (f.windowSize.val + u32AsI32 sz) = true ∧
        f.windowSize.val + u32AsI32 sz ≤ (MAX_WINDOW_SIZE : Int)) := by
  rw [Flow.incWindow_eq]; split <;> simp_all

-- ===================================================================== dec_send_window

/-- **decSendWindow_ok** -/
theorem decSendWindow_ok {f f' : FlowControl} {sz : Nat} (h : f.decSendWindow sz = (f', .ok ())) :
    f'.windowSize.val = f.windowSize.val - u32AsI32 sz ∧
    inI32 f'.windowSize.val = true ∧
    f'.available = f.available := by
  rw [Flow.decSendWindow_eq] at h
  split at h
  · next hc =>
    simp only [Prod.mk.injEq, and_true] at h
    subst h
    exact ⟨rfl, hc, rfl⟩
  · simp at h

/-- **decSendWindow_err** -/
theorem decSendWindow_err {f f' : FlowControl} {sz : Nat} {e : FlowErr}
    (h : f.decSendWindow sz = (f', .error e)) : f' = f ∧ e = .reason FLOW_CONTROL_ERROR := by
  rw [Flow.decSendWindow_eq] at h
  split at h
  · simp at h
  · simp only [Prod.mk.injEq, Except.error.injEq] at h
    exact ⟨h.1.symm, h.2.symm⟩

theorem decSendWindow_ok_iff (f : FlowControl) (sz : Nat) :
    isOk (f.decSendWindow sz).2 = true ↔ inI32 (f.windowSize.val - u32AsI32 sz) = true := by
  rw [Flow.decSendWindow_eq]; split <;> simp_all

-- ===================================================================== assign_capacity / claim_capacity

/-- **assignCapacity_ok** -/
theorem assignCapacity_ok {f f' : FlowControl} {sz : Nat} (h : f.assignCapacity sz = (f', .ok ())) :
    f'.available.val = f.available.val + u32AsI32 sz ∧
    inI32 f'.available.val = true ∧
    f'.windowSize = f.windowSize := by
  rw [Flow.assignCapacity_eq] at h
  split at h
  · next hc =>
    simp only [Prod.mk.injEq, and_true] at h
    subst h
    exact ⟨rfl, hc, rfl⟩
  · simp at h

/-- **assignCapacity_err** -/
theorem assignCapacity_err {f f' : FlowControl} {sz : Nat} {e : FlowErr}
    (h : f.assignCapacity sz = (f', .error e)) : f' = f ∧ e = .reason FLOW_CONTROL_ERROR := by
  rw [Flow.assignCapacity_eq] at h
  split at h
  · simp at h
  · simp only [Prod.mk.injEq, Except.error.injEq] at h
    exact ⟨h.1.symm, h.2.symm⟩

theorem assignCapacity_ok_iff (f : FlowControl) (sz : Nat) :
    isOk (f.assignCapacity sz).2 = true ↔ inI32 (f.available.val + u32AsI32 sz) = true := by
  rw [Flow.assignCapacity_eq]; split <;> simp_all

/-- **claimCapacity_ok** -/
theorem claimCapacity_ok {f f' : FlowControl} {sz : Nat} (h : f.claimCapacity sz = (f', .ok ())) :
    f'.available.val = f.available.val - u32AsI32 sz ∧
    inI32 f'.available.val = true ∧
    f'.windowSize = f.windowSize := by
  rw [Flow.claimCapacity_eq] at h
  split at h
  · next hc =>
    simp only [Prod.mk.injEq, and_true] at h
    subst h
    exact ⟨rfl, hc, rfl⟩
  · simp at h

/-- **claimCapacity_err** -/
theorem claimCapacity_err {f f' : FlowControl} {sz : Nat} {e : FlowErr}
    (h : f.claimCapacity sz = (f', .error e)) : f' = f ∧ e = .reason FLOW_CONTROL_ERROR := by
  rw [Flow.claimCapacity_eq] at h
  split at h
  · simp at h
  · simp only [Prod.mk.injEq, Except.error.injEq] at h
    exact ⟨h.1.symm, h.2.symm⟩

theorem claimCapacity_ok_iff (f : FlowControl) (sz : Nat) :
    isOk (f.claimCapacity sz).2 = true ↔ inI32 (f.available.val - u32AsI32 sz) = true := by
  rw [Flow.claimCapacity_eq]; split <;> simp_all

-- ===================================================================== dec_recv_window

/-- **decRecvWindow_ok**: both fields decrease by exactly `sz as i32` -/
theorem decRecvWindow_ok {f f' : FlowControl} {sz : Nat} (h : f.decRecvWindow sz = (f', .ok ())) :
    f'.windowSize.val = f.windowSize.val - u32AsI32 sz ∧
    f'.available.val = f.available.val - u32AsI32 sz ∧
    inI32 f'.windowSize.val = true ∧ inI32 f'.available.val = true := by
  rw [Flow.decRecvWindow_eq] at h
  split at h
  · next h1 =>
    split at h
    · next h2 =>
      simp only [Prod.mk.injEq, and_true] at h
      subst h
      exact ⟨rfl, rfl, h1, h2⟩
    · simp at h
  · simp at h

/-- **decRecvWindow_err**: on error `available` is untouched; the window is either untouched, or
    (partial update) already decreased -/
theorem decRecvWindow_err {f f' : FlowControl} {sz : Nat} {e : FlowErr}
    (h : f.decRecvWindow sz = (f', .error e)) :
    e = .reason FLOW_CONTROL_ERROR ∧ f'.available = f.available ∧
    (f' = f ∨
      (f'.windowSize.val = f.windowSize.val - u32AsI32 sz ∧
        inI32 (f.windowSize.val - u32AsI32 sz) = true ∧
        inI32 (f.available.val - u32AsI32 sz) = false)) := by
  rw [Flow.decRecvWindow_eq] at h
  split at h
  · next h1 =>
    split at h
    · simp at h
    · next h2 =>
      simp only [Prod.mk.injEq, Except.error.injEq] at h
      obtain ⟨rfl, rfl⟩ := h
      exact ⟨rfl, rfl, .inr ⟨rfl, h1, by simpa using h2⟩⟩
  · simp only [Prod.mk.injEq, Except.error.injEq] at h
    obtain ⟨rfl, rfl⟩ := h
    exact ⟨rfl, rfl, .inl rfl⟩

/-- **decRecvWindow_partial_iff**: the result is an error *and* the window was already decreased,
    exactly when the window subtraction fits `i32`, the `available` subtraction does not, and the
    amount is not `0` -/
theorem decRecvWindow_partial_iff (f : FlowControl) (sz : Nat) :
    (isOk (f.decRecvWindow sz).2 = false ∧ (f.decRecvWindow sz).1.windowSize ≠ f.windowSize) ↔
      (inI32 (f.windowSize.val - u32AsI32 sz) = true ∧
        inI32 (f.available.val - u32AsI32 sz) = false ∧ u32AsI32 sz ≠ 0) := by
  rw [Flow.decRecvWindow_eq]
  rcases f with ⟨⟨ws⟩, ⟨av⟩⟩
  generalize u32AsI32 sz = d
  by_cases h1 : inI32 (ws - d) = true
  · by_cases h2 : inI32 (av - d) = true
    · simp [h1, h2]
    · simp [h1, h2]
      omega
  · simp [h1]

/-- ... and then the state left behind is exactly this one -/
theorem decRecvWindow_partial_state {f : FlowControl} {sz : Nat}
    (h1 : inI32 (f.windowSize.val - u32AsI32 sz) = true)
    (h2 : inI32 (f.available.val - u32AsI32 sz) = false) :
    f.decRecvWindow sz =
      (⟨⟨f.windowSize.val - u32AsI32 sz⟩, f.available⟩, .error (.reason FLOW_CONTROL_ERROR)) := by
  rw [Flow.decRecvWindow_eq]; simp [h1, h2]

/-- the same condition for genuine sizes (`sz < 2^31`) and `i32` fields, in plain arithmetic:
    the window can absorb `sz`, `available` cannot -/
theorem decRecvWindow_partial_iff_small (f : FlowControl) (sz : Nat) (hsz : sz < 2147483648)
    (hw : inI32 f.windowSize.val = true) (ha : inI32 f.available.val = true) :
    (isOk (f.decRecvWindow sz).2 = false ∧ (f.decRecvWindow sz).1.windowSize ≠ f.windowSize) ↔
      (0 < sz ∧ -2147483648 ≤ f.windowSize.val - sz ∧ f.available.val - sz < -2147483648) := by
  rw [decRecvWindow_partial_iff, u32AsI32_of_lt hsz, inI32_iff, not_inI32_iff]
  rw [inI32_iff] at hw ha
  omega

/-- concrete witness: window 0, available = `i32::MIN`, 1 byte received: the call fails, but the
    window has moved to -1 while `available` stayed -/
example :
    (FlowControl.decRecvWindow ⟨⟨0⟩, ⟨-2147483648⟩⟩ 1) =
      (⟨⟨-1⟩, ⟨-2147483648⟩⟩, .error (.reason FLOW_CONTROL_ERROR)) := by decide

/-- a witness with a positive window -/
example :
    (FlowControl.decRecvWindow ⟨⟨65535⟩, ⟨-2147483000⟩⟩ 16384) =
      (⟨⟨49151⟩, ⟨-2147483000⟩⟩, .error (.reason FLOW_CONTROL_ERROR)) := by decide

-- ===================================================================== send_data

@[simp] theorem sendData_zero (f : FlowControl) : f.sendData 0 = (f, .ok ()) := by
  simp [FlowControl.sendData]

/-- **sendData_ok'** (any `sz`, in terms of `sz as i32`) -/
theorem sendData_ok' {f f' : FlowControl} {sz : Nat} (hpos : 0 < sz)
    (h : f.sendData sz = (f', .ok ())) :
    u32AsI32 sz ≤ f.windowSize.val ∧
    f'.windowSize.val = f.windowSize.val - u32AsI32 sz ∧
    f'.available.val = f.available.val - u32AsI32 sz ∧
    inI32 f'.windowSize.val = true ∧ inI32 f'.available.val = true := by
  rw [Flow.sendData_eq] at h
  have h0 : sz ≠ 0 := by omega
  simp only [h0, if_false] at h
  split at h
  · simp at h
  · next hlt =>
    split at h
    · next h1 =>
      split at h
      · next h2 =>
        simp only [Prod.mk.injEq, and_true] at h
        subst h
        exact ⟨by omega, rfl, rfl, h1, h2⟩
      · simp at h
    · simp at h

/-- **sendData_ok**: for `0 < sz < 2^31`, success means `sz ≤ window_size` and both fields
    decrease by exactly `sz`.

    The statement is *false* for `sz = 0` (`send_data(0)` is `Ok` whatever the window, e.g. with
    window `-1`, see the `example` below); that case is `sendData_zero`: nothing changes. -/
theorem sendData_ok {f f' : FlowControl} {sz : Nat} (hpos : 0 < sz) (hsz : sz < 2147483648)
    (h : f.sendData sz = (f', .ok ())) :
    (sz : Int) ≤ f.windowSize.val ∧
    f'.windowSize.val = f.windowSize.val - sz ∧
    f'.available.val = f.available.val - sz := by
  have := sendData_ok' hpos h
  rw [u32AsI32_of_lt hsz] at this
  exact ⟨this.1, this.2.1, this.2.2.1⟩

/-- the counterexample for `sz = 0` -/
example : (FlowControl.sendData ⟨⟨-1⟩, ⟨0⟩⟩ 0) = (⟨⟨-1⟩, ⟨0⟩⟩, .ok ()) ∧ ¬ ((0 : Int) ≤ -1) := by
  decide

/-- **sendData_assert_iff**: the Rust `assert!(self.window_size.0 >= sz as i32)` fires exactly when
    `sz > 0` and the window is smaller than `sz as i32` -/
theorem sendData_assert_iff (f : FlowControl) (sz : Nat) :
    (f.sendData sz).2 = .error .assertFailed ↔ (sz > 0 ∧ f.windowSize.val < u32AsI32 sz) := by
  rw [Flow.sendData_eq]
  by_cases h0 : sz = 0
  · simp [h0]
  · have hp : sz > 0 := by omega
    simp only [h0, if_false, hp, true_and]
    split
    · simp_all
    · next hlt =>
      split
      · split <;> simp [hlt, FLOW_CONTROL_ERROR]
      · simp [hlt]

/-- for genuine sizes: the assert fires iff `0 < sz` and `window_size < sz` -/
theorem sendData_assert_iff_small (f : FlowControl) (sz : Nat) (hsz : sz < 2147483648) :
    (f.sendData sz).2 = .error .assertFailed ↔ (0 < sz ∧ f.windowSize.val < (sz : Int)) := by
  rw [sendData_assert_iff, u32AsI32_of_lt hsz]

/-- **sendData_err**: on error `available` is untouched; the window is either untouched, or
    (partial update) already decreased -/
theorem sendData_err {f f' : FlowControl} {sz : Nat} {e : FlowErr}
    (h : f.sendData sz = (f', .error e)) :
    f'.available = f.available ∧
    (f' = f ∨
      (e = .reason FLOW_CONTROL_ERROR ∧ f'.windowSize.val = f.windowSize.val - u32AsI32 sz ∧
        u32AsI32 sz ≤ f.windowSize.val ∧
        inI32 (f.windowSize.val - u32AsI32 sz) = true ∧
        inI32 (f.available.val - u32AsI32 sz) = false)) := by
  rw [Flow.sendData_eq] at h
  split at h
  · simp at h
  · split at h
    · simp only [Prod.mk.injEq] at h; obtain ⟨rfl, -⟩ := h; exact ⟨rfl, .inl rfl⟩
    · next hlt =>
      split at h
      · next h1 =>
        split at h
        · simp at h
        · next h2 =>
          simp only [Prod.mk.injEq, Except.error.injEq] at h
          obtain ⟨rfl, rfl⟩ := h
          exact ⟨rfl, .inr ⟨rfl, rfl, by omega, h1, by simpa using h2⟩⟩
      · simp only [Prod.mk.injEq] at h; obtain ⟨rfl, -⟩ := h; exact ⟨rfl, .inl rfl⟩

/-- **sendData_partial_iff**: error with the window already decreased -/
theorem sendData_partial_iff (f : FlowControl) (sz : Nat) :
    (isOk (f.sendData sz).2 = false ∧ (f.sendData sz).1.windowSize ≠ f.windowSize) ↔
      (sz ≠ 0 ∧ u32AsI32 sz ≤ f.windowSize.val ∧
        inI32 (f.windowSize.val - u32AsI32 sz) = true ∧
        inI32 (f.available.val - u32AsI32 sz) = false ∧ u32AsI32 sz ≠ 0) := by
  rw [Flow.sendData_eq]
  rcases f with ⟨⟨ws⟩, ⟨av⟩⟩
  by_cases h0 : sz = 0
  · simp [h0]
  · generalize u32AsI32 sz = d
    by_cases hlt : ws < d
    · have : ¬ (d ≤ ws) := by omega
      simp [h0, hlt, this]
    · have hle : d ≤ ws := by omega
      by_cases h1 : inI32 (ws - d) = true
      · by_cases h2 : inI32 (av - d) = true
        · simp [h0, hlt, h1, h2]
        · simp [h0, hlt, h1, h2, hle]
          omega
      · simp [h0, hlt, h1]

/-- for genuine sizes and `i32` fields: the window covers `sz`, `available` is so negative that
    `available - sz` leaves `i32` -/
theorem sendData_partial_iff_small (f : FlowControl) (sz : Nat) (hsz : sz < 2147483648)
    (hw : inI32 f.windowSize.val = true) (ha : inI32 f.available.val = true) :
    (isOk (f.sendData sz).2 = false ∧ (f.sendData sz).1.windowSize ≠ f.windowSize) ↔
      (0 < sz ∧ (sz : Int) ≤ f.windowSize.val ∧ f.available.val - sz < -2147483648) := by
  rw [sendData_partial_iff, u32AsI32_of_lt hsz, inI32_iff, not_inI32_iff]
  rw [inI32_iff] at hw ha
  omega

/-- concrete witness: window 10, available close to `i32::MIN`: `send_data(10)` fails, the window
    is 0 afterwards, `available` unchanged -/
example :
    (FlowControl.sendData ⟨⟨10⟩, ⟨-2147483640⟩⟩ 10) =
      (⟨⟨0⟩, ⟨-2147483640⟩⟩, .error (.reason FLOW_CONTROL_ERROR)) := by decide

/-- no partial update as long as `available - sz` fits `i32` (e.g. `available ≥ 0` and
    `sz < 2^31`): then the two operations are all-or-nothing -/
theorem no_partial_of_available_fits (f : FlowControl) (sz : Nat)
    (h : inI32 (f.available.val - u32AsI32 sz) = true) :
    (isOk (f.decRecvWindow sz).2 = false → (f.decRecvWindow sz).1 = f) ∧
    (isOk (f.sendData sz).2 = false → (f.sendData sz).1 = f) := by
  rw [Flow.decRecvWindow_eq, Flow.sendData_eq]
  simp only [h, if_true]
  constructor
  · split <;> simp
  · split
    · simp
    · split
      · simp
      · split <;> simp

/-- remark (sizes ≥ 2^31 are negative as `i32`): `send_data` then *raises* both fields.  Not
    reachable from h2's callers (frame payloads are < 2^24), stated for completeness. -/
example :
    (FlowControl.sendData ⟨⟨0⟩, ⟨0⟩⟩ 4294967295) = (⟨⟨1⟩, ⟨1⟩⟩, .ok ()) := by decide

-- ===================================================================== success conditions of the two-step operations

theorem decRecvWindow_ok_iff (f : FlowControl) (sz : Nat) :
    isOk (f.decRecvWindow sz).2 = true ↔
      (inI32 (f.windowSize.val - u32AsI32 sz) = true ∧ inI32 (f.available.val - u32AsI32 sz) = true) := by
  rw [Flow.decRecvWindow_eq]
  by_cases h1 : inI32 (f.windowSize.val - u32AsI32 sz) = true
  · by_cases h2 : inI32 (f.available.val - u32AsI32 sz) = true
    · simp [h1, h2]
    · simp [h1, h2]
  · simp [h1]

theorem sendData_ok_iff (f : FlowControl) (sz : Nat) :
    isOk (f.sendData sz).2 = true ↔
      (sz = 0 ∨ (u32AsI32 sz ≤ f.windowSize.val ∧ inI32 (f.windowSize.val - u32AsI32 sz) = true ∧
        inI32 (f.available.val - u32AsI32 sz) = true)) := by
  rw [Flow.sendData_eq]
  by_cases h0 : sz = 0
  · simp [h0]
  · by_cases hlt : f.windowSize.val < u32AsI32 sz
    · have : ¬ (u32AsI32 sz ≤ f.windowSize.val) := by omega
      simp [h0, hlt, this]
    · have hle : u32AsI32 sz ≤ f.windowSize.val := by omega
      by_cases h1 : inI32 (f.windowSize.val - u32AsI32 sz) = true
      · by_cases h2 : inI32 (f.available.val - u32AsI32 sz) = true
        · simp [h0, hlt, h1, h2, hle]
        · simp [h0, hlt, h1, h2]
      · simp [h0, hlt, h1]

/-- for genuine sizes and `i32` fields, `send_data` succeeds iff `sz = 0` or the window covers
    `sz` and `available - sz` stays in `i32` -/
theorem sendData_ok_iff_small (f : FlowControl) (sz : Nat) (hsz : sz < 2147483648)
    (hw : inI32 f.windowSize.val = true) (ha : inI32 f.available.val = true) :
    isOk (f.sendData sz).2 = true ↔
      (sz = 0 ∨ ((sz : Int) ≤ f.windowSize.val ∧ -2147483648 ≤ f.available.val - sz)) := by
  rw [sendData_ok_iff, u32AsI32_of_lt hsz, inI32_iff, inI32_iff]
  rw [inI32_iff] at hw ha
  omega

-- ===================================================================== has_unavailable

theorem hasUnavailable_iff (f : FlowControl) :
    f.hasUnavailable = true ↔ (0 ≤ f.windowSize.val ∧ f.available.val < f.windowSize.val) := by
  simp only [FlowControl.hasUnavailable]
  split <;> simp <;> omega

-- ===================================================================== unclaimed_capacity

/-- the threshold as coded: `window_size / UNCLAIMED_DENOMINATOR * UNCLAIMED_NUMERATOR`
    (`i32` division, truncating toward zero) -/
def unclaimedThreshold (f : FlowControl) : Int :=
  f.windowSize.val.tdiv (UNCLAIMED_DENOMINATOR : Int) * (UNCLAIMED_NUMERATOR : Int)

/-- the `as WindowSize` of the result: for `i32` fields it is the true difference, always -/
theorem unclaimed_cast {ws av : Int} (hw : inI32 ws = true) (ha : inI32 av = true) (hlt : ws < av) :
    (wrapI32 (av - ws) % (U32_MOD : Int)).toNat = (av - ws).toNat := by
  rw [wrapI32_emod]
  rw [inI32_iff] at hw ha
  simp only [U32_MOD]
  omega

/-- **unclaimedCapacity_spec'**: the exact characterisation for `i32` fields.  The returned amount
    is always the true difference; the *comparison with the threshold* is made on the wrapped
    difference (release build; a debug build panics on the overflow instead). -/
theorem unclaimedCapacity_spec' (f : FlowControl) (n : Nat)
    (hw : inI32 f.windowSize.val = true) (ha : inI32 f.available.val = true) :
    f.unclaimedCapacity = some n ↔
      (f.available.val > f.windowSize.val ∧
        n = (f.available.val - f.windowSize.val).toNat ∧
        wrapI32 (f.available.val - f.windowSize.val) ≥ unclaimedThreshold f) := by
  simp only [FlowControl.unclaimedCapacity, unclaimedThreshold]
  by_cases h1 : f.windowSize.val ≥ f.available.val
  · simp only [h1, if_true]
    constructor
    · intro h; cases h
    · intro h; omega
  · simp only [h1, if_false]
    have hlt : f.windowSize.val < f.available.val := by omega
    split
    · next h2 =>
      constructor
      · intro h; cases h
      · intro h; omega
    · next h2 =>
      rw [unclaimed_cast hw ha hlt]
      simp only [Option.some.injEq]
      constructor
      · intro h; exact ⟨by omega, h.symm, by omega⟩
      · intro h; exact h.2.1.symm

/-- **unclaimedCapacity_spec**: when the subtraction `available - window_size` does not overflow
    `i32` (always the case when `window_size ≥ 0`, or `available ≤ 0`), the code computes the
    intended predicate -/
theorem unclaimedCapacity_spec (f : FlowControl) (n : Nat)
    (hw : inI32 f.windowSize.val = true) (ha : inI32 f.available.val = true)
    (hd : inI32 (f.available.val - f.windowSize.val) = true) :
    f.unclaimedCapacity = some n ↔
      (f.available.val > f.windowSize.val ∧
        n = (f.available.val - f.windowSize.val).toNat ∧
        f.available.val - f.windowSize.val ≥ unclaimedThreshold f) := by
  rw [unclaimedCapacity_spec' f n hw ha, wrapI32_of_inI32 hd]

/-- the no-overflow hypothesis is automatic for a non-negative window -/
theorem unclaimed_diff_inI32_of_nonneg {f : FlowControl}
    (hw : inI32 f.windowSize.val = true) (ha : inI32 f.available.val = true)
    (h0 : 0 ≤ f.windowSize.val) (hlt : f.windowSize.val < f.available.val) :
    inI32 (f.available.val - f.windowSize.val) = true := by
  rw [inI32_iff] at *; omega

/-- **the spec as literally requested is false without the no-overflow hypothesis**: window `-1`,
    available `i32::MAX`: `2^31` bytes are unclaimed, far above the threshold `0`, but the wrapped
    difference is `i32::MIN` and the function answers `None` -/
example :
    let f : FlowControl := ⟨⟨-1⟩, ⟨2147483647⟩⟩
    f.unclaimedCapacity = none ∧
    inI32 f.windowSize.val = true ∧ inI32 f.available.val = true ∧
    f.available.val > f.windowSize.val ∧
    f.available.val - f.windowSize.val ≥ unclaimedThreshold f := by decide

/-- the threshold is `≤ 0` for an exhausted window ... -/
theorem unclaimedThreshold_nonpos {f : FlowControl} (h : f.windowSize.val ≤ 0) :
    unclaimedThreshold f ≤ 0 := by
  unfold unclaimedThreshold
  have h1 : f.windowSize.val.tdiv (UNCLAIMED_DENOMINATOR : Int) ≤ 0 := by
    have h2 : 0 ≤ (-f.windowSize.val).tdiv (UNCLAIMED_DENOMINATOR : Int) :=
      Int.tdiv_nonneg (by omega) (Int.le_of_lt UNCLAIMED_DENOMINATOR_pos)
    rw [Int.neg_tdiv] at h2
    omega
  exact Int.mul_nonpos_of_nonpos_of_nonneg h1 UNCLAIMED_NUMERATOR_nonneg

/-- ... and between `0` and the window for a non-negative one (this is where
    `NUMERATOR < DENOMINATOR` is used) -/
theorem unclaimedThreshold_le_window {f : FlowControl} (h : 0 ≤ f.windowSize.val) :
    0 ≤ unclaimedThreshold f ∧ unclaimedThreshold f ≤ f.windowSize.val := by
  unfold unclaimedThreshold
  have hD := UNCLAIMED_DENOMINATOR_pos
  have hq : 0 ≤ f.windowSize.val.tdiv (UNCLAIMED_DENOMINATOR : Int) :=
    Int.tdiv_nonneg h (Int.le_of_lt hD)
  refine ⟨Int.mul_nonneg hq UNCLAIMED_NUMERATOR_nonneg, ?_⟩
  have h1 : f.windowSize.val.tdiv (UNCLAIMED_DENOMINATOR : Int) * (UNCLAIMED_NUMERATOR : Int)
      ≤ f.windowSize.val.tdiv (UNCLAIMED_DENOMINATOR : Int) * (UNCLAIMED_DENOMINATOR : Int) :=
    Int.mul_le_mul_of_nonneg_left (Int.le_of_lt UNCLAIMED_ratio.2) hq
  have h2 : f.windowSize.val.tdiv (UNCLAIMED_DENOMINATOR : Int) * (UNCLAIMED_DENOMINATOR : Int)
      ≤ f.windowSize.val := by
    rw [Int.tdiv_eq_ediv_of_nonneg h]
    exact Int.ediv_mul_le _ (by omega)
  omega

/-- **unclaimed_when_exhausted**: with an exhausted window (`≤ 0`) every unit of `available` above
    the window is owed at once -- a WINDOW_UPDATE of exactly `available - window_size` is due --
    provided the difference fits `i32` -/
theorem unclaimed_when_exhausted (f : FlowControl)
    (hw : inI32 f.windowSize.val = true) (ha : inI32 f.available.val = true)
    (h0 : f.windowSize.val ≤ 0) (hlt : f.windowSize.val < f.available.val)
    (hd : inI32 (f.available.val - f.windowSize.val) = true) :
    f.unclaimedCapacity = some (f.available.val - f.windowSize.val).toNat := by
  rw [unclaimedCapacity_spec f _ hw ha hd]
  have := unclaimedThreshold_nonpos h0
  exact ⟨hlt, rfl, by omega⟩

/-- in particular for window exactly `0` -/
theorem unclaimed_when_zero (f : FlowControl) (ha : inI32 f.available.val = true)
    (h0 : f.windowSize.val = 0) (hlt : 0 < f.available.val) :
    f.unclaimedCapacity = some f.available.val.toNat := by
  have hw : inI32 f.windowSize.val = true := by rw [h0]; decide
  have := unclaimed_when_exhausted f hw ha (by omega) (by omega) (by rw [h0]; simpa using ha)
  simpa [h0] using this

/-- the iff for an exhausted window: an update is owed iff the wrapped difference is not below the
    (non-positive) threshold; without overflow that is always, with overflow (`available -
    window_size > i32::MAX`, only possible for a negative window) it can fail -- see the
    counterexample above -/
theorem unclaimed_when_exhausted_iff (f : FlowControl)
    (hw : inI32 f.windowSize.val = true) (ha : inI32 f.available.val = true)
    (h0 : f.windowSize.val ≤ 0) (hlt : f.windowSize.val < f.available.val) :
    f.unclaimedCapacity.isSome = true ↔
      (f.available.val - f.windowSize.val ≤ 2147483647 ∨
        f.available.val - f.windowSize.val - 4294967296 ≥ unclaimedThreshold f) := by
  have hthr := unclaimedThreshold_nonpos h0
  rw [Option.isSome_iff_exists]
  constructor
  · rintro ⟨n, hn⟩
    rw [unclaimedCapacity_spec' f n hw ha] at hn
    by_cases hov : f.available.val - f.windowSize.val ≤ 2147483647
    · exact .inl hov
    · right
      rw [inI32_iff] at hw ha
      rw [wrapI32_of_above (by omega) (by omega)] at hn
      exact hn.2.2
  · intro h
    refine ⟨(f.available.val - f.windowSize.val).toNat, ?_⟩
    rw [unclaimedCapacity_spec' f _ hw ha]
    refine ⟨hlt, rfl, ?_⟩
    rw [inI32_iff] at hw ha
    by_cases hov : f.available.val - f.windowSize.val ≤ 2147483647
    · rw [wrapI32_of_inI32 ((inI32_iff _).2 ⟨by omega, hov⟩)]; omega
    · rw [wrapI32_of_above (by omega) (by omega)]
      rcases h with h | h
      · omega
      · exact h

/-- nothing is ever owed while `available ≤ window_size` -/
theorem unclaimed_none_of_le (f : FlowControl) (h : f.available.val ≤ f.windowSize.val) :
    f.unclaimedCapacity = none := by
  simp only [FlowControl.unclaimedCapacity]
  have : f.windowSize.val ≥ f.available.val := h
  simp [this]

end H2V.Lemmas.Comp
