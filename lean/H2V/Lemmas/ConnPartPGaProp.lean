import H2V.Lemmas.ConnPartPGaMain
/-
  ConnPartP, part 4 — C15: the coverage theorem of `recv_go_away` in the form quoted by
  `H2V/Props/C15Cover.lean` (relations unfolded into fields, wake-ups added from ConnWakeP's `Step`),
  the characterisation of `failState`, and a concrete history for the non-vacuity examples.
-/
namespace H2V.Lemmas.ConnPartP
open H2V H2V.Model H2V.Model.Conn H2V.Lemmas.ConnWakeP

/-- put the six capacity-assignment fields of `b` into `m` -/
def unmask (m b : Stream) : Stream :=
  { m with sendFlow := { m.sendFlow with available := b.sendFlow.available },
           sendTask := b.sendTask, openTask := b.openTask, sendCapacityInc := b.sendCapacityInc,
           isPendingSendCapacity := b.isPendingSendCapacity, isPendingSend := b.isPendingSend }

theorem unmask_mask (b : Stream) : unmask (mask b) b = b := rfl

/-- `Unt` spelled out: `b` is `a` with (at most) six fields replaced -/
theorem Unt.eq {a b : Stream} (h : Unt a b) :
    b = { a with sendFlow := { a.sendFlow with available := b.sendFlow.available },
                 sendTask := b.sendTask, openTask := b.openTask, sendCapacityInc := b.sendCapacityInc,
                 isPendingSendCapacity := b.isPendingSendCapacity, isPendingSend := b.isPendingSend } := by
  have e : b = unmask (mask a) b := (unmask_mask b).symm.trans (congrArg (fun m => unmask m b) h)
  exact e

/-- the state a failed stream ends in carries the peer's reason and debug data: a stream that was
    not closed becomes `Closed(Error(GoAway(debug, reason, Remote)))` (`ErrorAfterEndStream` when the
    peer had already ended it); a stream that was closed keeps its state, except that the scheduled
    implicit reset of a stream still waiting in `pending_open` becomes a plain library reset -/
theorem failState_remoteGoAway (a : Stream) (debug : Bytes) (reason : Reason) :
    (a.state.isClosed = false →
      (failState (PErr.remoteGoAway debug reason) a).inner =
        .closed (if a.state.isRecvEndStream then .errorAfterEndStream (.goAway debug reason .remote)
                 else .error (.goAway debug reason .remote))) ∧
    (a.state.isClosed = true →
      failState (PErr.remoteGoAway debug reason) a = a.state ∨
      (a.isPendingOpen = true ∧ ∃ r, a.state.getScheduledReset = some r ∧
        failState (PErr.remoteGoAway debug reason) a = { inner := .closed (.error (.reset a.id r .library)) })) := by
  constructor
  · intro hc
    have h1 : (a.state.handleError (PErr.remoteGoAway debug reason)).inner =
        .closed (if a.state.isRecvEndStream then .errorAfterEndStream (.goAway debug reason .remote)
                 else .error (.goAway debug reason .remote)) := by
      unfold State.handleError State.isClosed PErr.remoteGoAway at *
      cases h : a.state.inner <;> simp_all
    have h2 : (a.state.handleError (PErr.remoteGoAway debug reason)).getScheduledReset = none := by
      unfold State.getScheduledReset; rw [h1]
      by_cases hre : a.state.isRecvEndStream = true <;> simp [hre]
    unfold failState
    rw [h2]
    split <;> exact h1
  · intro hc
    have h1 : a.state.handleError (PErr.remoteGoAway debug reason) = a.state := by
      unfold State.handleError State.isClosed at *
      cases h : a.state.inner <;> simp_all
    unfold failState
    rw [h1]
    by_cases hp : a.isPendingOpen = true
    · rw [if_pos hp]
      cases hr : a.state.getScheduledReset with
      | none => exact Or.inl rfl
      | some r => exact Or.inr ⟨hp, r, rfl, rfl⟩
    · rw [if_neg hp]; exact Or.inl rfl

theorem sel_iff (s : Streams) (last : Nat) (a : Stream) :
    Sel last s.counts.isServer a ↔ (s.counts.isLocalInit a.id = true ∧ (a.id > last ∨ a.isPendingOpen = true)) := by
  unfold Sel Counts.isLocalInit
  exact ⟨fun ⟨h1, h2⟩ => ⟨h2, h1⟩, fun ⟨h1, h2⟩ => ⟨h2, h1⟩⟩

/-- **coverage, selected streams** -/
theorem recvGoAwayFrame_fails_all (s s' : Streams) (hg : Good s) (last : Nat) (reason : Reason) (debug : Bytes)
    (hok : s.recvGoAwayFrame last reason debug = (s', .ok ())) :
    ∀ e ∈ s.store.ids, ∀ a, s.store.get? e.2 = some a →
      s.counts.isLocalInit a.id = true → (a.id > last ∨ a.isPendingOpen = true) →
      s'.store.get? e.2 = none ∨
      ∃ b, s'.store.get? e.2 = some b ∧
        b.state = failState (PErr.remoteGoAway debug reason) a ∧
        b.pendingSend = [] ∧ b.bufferedSendData = 0 ∧ b.requestedSendCapacity = 0 ∧
        b.sendTask = none ∧ b.openTask = none ∧ b.recvTask = none ∧ b.pushTask = none ∧
        (∀ t, (a.sendTask = some t ∨ a.openTask = some t ∨ a.recvTask = some t ∨ a.pushTask = some t) →
          t ∈ newWakes s s') ∧
        b.id = a.id ∧ b.refCount = a.refCount ∧ b.pendingRecv = a.pendingRecv ∧ b.recvFlow = a.recvFlow ∧
        b.inFlightRecvData = a.inFlightRecvData ∧ b.isPendingOpen = a.isPendingOpen := by
  intro e he a ha hloc hsel
  have hstep : Step none s s' := (recvGoAwayFrame_acc last reason debug (Step.refl none s)).of_fst hok
  have hkeep : KS s s' := (k_recvGoAwayFrame last reason debug (GStep.refl s)).of_fst hok
  rcases (recvGoAwayFrame_cover s s' hg.ids last reason debug hok).2.2.2.1 e he a ha
      ((sel_iff s last a).mpr ⟨hloc, hsel⟩) with hn | ⟨b, hb, hf⟩
  · exact Or.inl hn
  · right
    have hdone : Done e.2 s' := Or.inr ⟨b, hb, hf.resolved⟩
    rcases endedAt_of hg.bounded ha hdone hkeep hstep with hn | ⟨b', hb', _, _, hw⟩
    · rw [hn] at hb; cases hb
    · rw [hb'] at hb; cases hb
      exact ⟨b, hb', hf.state, hf.cleared.1, hf.cleared.2, hf.cleared.3, hf.resolved.2.1, hf.resolved.2.2.1,
        hf.resolved.2.2.2.1, hf.resolved.2.2.2.2, hw, hf.id, hf.refCount, hf.pendingRecv, hf.recvFlow,
        hf.inFlightRecvData, hf.isPendingOpen⟩

/-- **coverage, all other streams** (frame) -/
theorem recvGoAwayFrame_keeps_others (s s' : Streams) (hg : Good s) (last : Nat) (reason : Reason) (debug : Bytes)
    (hok : s.recvGoAwayFrame last reason debug = (s', .ok ())) :
    (∀ k, s.store.get? k = none → s'.store.get? k = none) ∧
    ∀ k a, s.store.get? k = some a →
      ¬ (s.counts.isLocalInit a.id = true ∧ (a.id > last ∨ a.isPendingOpen = true)) →
      ∃ b, s'.store.get? k = some b ∧
        b = { a with sendFlow := { a.sendFlow with available := b.sendFlow.available },
                     sendTask := b.sendTask, openTask := b.openTask, sendCapacityInc := b.sendCapacityInc,
                     isPendingSendCapacity := b.isPendingSendCapacity, isPendingSend := b.isPendingSend } ∧
        SlotStep (newWakes s s') a.sendTask b.sendTask ∧ SlotStep (newWakes s s') a.openTask b.openTask ∧
        (a.sendCapacityInc = true → b.sendCapacityInc = true) ∧
        (∀ e ∈ s.store.ids, e.2 = k → e ∈ s'.store.ids) := by
  have hcov := recvGoAwayFrame_cover s s' hg.ids last reason debug hok
  refine ⟨hcov.2.1, fun k a ha hns => ?_⟩
  have hstep : Step none s s' := (recvGoAwayFrame_acc last reason debug (Step.refl none s)).of_fst hok
  obtain ⟨b, hb, hu⟩ := hcov.2.2.1 k a ha (fun h => hns ((sel_iff s last a).mp h))
  rcases hstep.keep k a (hg.bounded.get? ha) ha with hn | ⟨b', hb', hs⟩
  · rw [hn] at hb; cases hb
  · rw [hb'] at hb; cases hb
    exact ⟨b, hb', hu.eq, hs.sendTask, hs.openTask, hs.capKeep,
      fun e he hek => hcov.2.2.2.2 e he a (by rw [hek]; exact ha) (fun h => hns ((sel_iff s last a).mp h))⟩

-- ===================================================================== a concrete history (client)

namespace Demo
/-- client, default configuration; the peer's SETTINGS allow two concurrent streams -/
def d0 : Streams := ((Conn.init {}).streams.applyRemoteSettings [(3, 2)] true).1
/-- three requests (stream ids 1, 3, 5; keys 0, 1, 2), bodies to follow -/
def d3 : Streams :=
  (((d0.sendRequest false [] false none).1.sendRequest false [] false none).1.sendRequest false [] false none).1
/-- what `poll_complete` does for one stream: `pop_pending_open`, then `pop_frame` (its HEADERS) -/
def open1 (s : Streams) (k : Nat) : Streams :=
  let s := s.popPendingOpen.1
  let s := ((s.qPushFront .pendingSend k).1).tryAssignCapacity k
  (Streams.popFrame 4 s 16384).1
/-- streams 1 and 3 are open, stream 5 waits in `pending_open` (limit 2) -/
def d4 : Streams := open1 (open1 d3 0) 1
/-- the body sender of stream 3 waits for capacity (`s1`), the request future of stream 5 for its slot (`q`) -/
def d5 : Streams := ((d4.pollCapacity 1 "s1").1.pollPendingOpen (some 2) "q").1

theorem open1_good {s : Streams} (h : Good s) (k : Nat) : Good (open1 s k) :=
  popFrame_good _ _ (tryAssignCapacity_good k (qPushFront_good _ k (popPendingOpen_good h)))

theorem d5_good : Good d5 :=
  pollPendingOpen_good _ _ (pollCapacity_good _ _ (open1_good (open1_good
    (sendRequest_good _ _ _ _ (sendRequest_good _ _ _ _ (sendRequest_good _ _ _ _
      (applyRemoteSettings_good _ _ (init_good {}))))) 0) 1))

end Demo

end H2V.Lemmas.ConnPartP
