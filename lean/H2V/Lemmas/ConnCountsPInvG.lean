import H2V.Lemmas.ConnCountsPInvF
/-
  C05 — invariants, part G: `Inv2` through the counter primitives and the steps on `pending_open`.
-/
namespace H2V.Lemmas.ConnCountsP
open H2V H2V.Model H2V.Model.Conn

theorem incNumSendStreams_eq {s : Streams} {k : Nat} (hcan : s.counts.canIncNumSendStreams = true)
    (hnc : (s.stream k).isCounted = false) :
    s.incNumSendStreams k =
      (s.modCounts fun c => { c with numSendStreams := c.numSendStreams + 1 }).modStream k fun st => { st with isCounted := true } := by
  unfold Streams.incNumSendStreams
  simp only [hcan, if_true, hnc, Bool.false_eq_true, if_false]

theorem incNumRecvStreams_eq {s : Streams} {k : Nat} (hcan : s.counts.canIncNumRecvStreams = true)
    (hnc : (s.stream k).isCounted = false) :
    s.incNumRecvStreams k =
      (s.modCounts fun c => { c with numRecvStreams := c.numRecvStreams + 1 }).modStream k fun st => { st with isCounted := true } := by
  unfold Streams.incNumRecvStreams
  simp only [hcan, if_true, hnc, Bool.false_eq_true, if_false]

theorem keysOK_modCounts {s : Streams} (h : KeysOK s) (f : Counts → Counts) : KeysOK (s.modCounts f) := ⟨h.nodup, h.fresh⟩

theorem b2n_false : b2n false = 0 := rfl
theorem b2n_true : b2n true = 1 := rfl

/-- `inc_num_send_streams` on a locally initiated stream -/
theorem Inv2.incSend {s : Streams} {k : Nat} {sv : Bool} {E : Nat → Prop} (hA : KeysOK s) (hi : Inv2 sv E s)
    (hp : (s.incNumSendStreams k).panicked = none) (hloc : ∀ x, s.store.get? k = some x → locId sv x.id = true) :
    Inv2 sv E (s.incNumSendStreams k) := by
  have hde := DE.incNumSendStreams (G := fun _ => False) s k
  refine hde.inv2 hi (fun _ _ _ h => h.elim) ?_
  intro herr
  obtain ⟨_, hcan, ⟨x, hx, hxc⟩, hc, _⟩ := incNumSendStreams_spec hA hp
  have hnc : (s.stream k).isCounted = false := by rw [stream_of_get? hx]; exact hxc
  rw [hc, incNumSendStreams_eq hcan hnc]
  dsimp only
  rcases cntP_modStream (sendCounted sv) (keysOK_modCounts hA (fun c => { c with numSendStreams := c.numSendStreams + 1 })) k (fun st => { st with isCounted := true }) (fun _ => rfl)
    with ⟨y, hy, e⟩ | ⟨hn, _⟩
  · have hyx : y = x := by rw [show (s.modCounts _).store.get? k = s.store.get? k from rfl, hx] at hy; cases hy; rfl
    subst hyx
    have h0 : sendCounted sv y = false := by unfold sendCounted; rw [hxc]; rfl
    have h1 : sendCounted sv { y with isCounted := true } = true := by unfold sendCounted; simp [hloc y hx]
    rw [h0, h1, b2n_false, b2n_true] at e
    have hd := hi.dir (hde.counts.errOK herr)
    have : cntP (sendCounted sv) (s.modCounts fun c => { c with numSendStreams := c.numSendStreams + 1 }) = cntP (sendCounted sv) s := rfl
    omega
  · rw [show (s.modCounts _).store.get? k = s.store.get? k from rfl, hx] at hn; cases hn

/-- `inc_num_recv_streams` on a stream of the peer -/
theorem Inv2.incRecvStep {s : Streams} {k : Nat} {sv : Bool} {E : Nat → Prop} (hA : KeysOK s) (hi : Inv2 sv E s)
    (hp : (s.incNumRecvStreams k).panicked = none)
    (hrem : ErrOK (s.incNumRecvStreams k) → ∀ x, s.store.get? k = some x → locId sv x.id = false) :
    Inv2 sv E (s.incNumRecvStreams k) := by
  have hde := DE.incNumRecvStreams (G := fun _ => False) s k
  refine hde.inv2 hi (fun _ _ _ h => h.elim) ?_
  intro herr
  obtain ⟨_, hcan, ⟨x, hx, hxc⟩, hc, _⟩ := incNumRecvStreams_spec hA hp
  have hnc : (s.stream k).isCounted = false := by rw [stream_of_get? hx]; exact hxc
  have hr := hrem herr x hx
  rw [hc, incNumRecvStreams_eq hcan hnc]
  dsimp only
  rcases cntP_modStream (sendCounted sv) (keysOK_modCounts hA (fun c => { c with numRecvStreams := c.numRecvStreams + 1 })) k (fun st => { st with isCounted := true }) (fun _ => rfl)
    with ⟨y, hy, e⟩ | ⟨hn, _⟩
  · have hyx : y = x := by rw [show (s.modCounts _).store.get? k = s.store.get? k from rfl, hx] at hy; cases hy; rfl
    subst hyx
    have h0 : sendCounted sv y = false := by unfold sendCounted; rw [hxc]; rfl
    have h1 : sendCounted sv { y with isCounted := true } = false := by unfold sendCounted; simp [hr]
    rw [h0, h1, b2n_false] at e
    have hd := hi.dir (hde.counts.errOK herr)
    have : cntP (sendCounted sv) (s.modCounts fun c => { c with numRecvStreams := c.numRecvStreams + 1 }) = cntP (sendCounted sv) s := rfl
    omega
  · rw [show (s.modCounts _).store.get? k = s.store.get? k from rfl, hx] at hn; cases hn

theorem decNumStreams_eq_send {s : Streams} {k : Nat} (hc : (s.stream k).isCounted = true)
    (hloc : s.counts.isLocalInit (s.stream k).id = true) (hpos : 0 < s.counts.numSendStreams) :
    s.decNumStreams k =
      (s.modCounts fun c => { c with numSendStreams := c.numSendStreams - 1 }).modStream k fun st => { st with isCounted := false } := by
  unfold Streams.decNumStreams
  simp only [hc, if_true, hloc, gt_iff_lt, hpos]

theorem decNumStreams_eq_recv {s : Streams} {k : Nat} (hc : (s.stream k).isCounted = true)
    (hloc : s.counts.isLocalInit (s.stream k).id = false) (hpos : 0 < s.counts.numRecvStreams) :
    s.decNumStreams k =
      (s.modCounts fun c => { c with numRecvStreams := c.numRecvStreams - 1 }).modStream k fun st => { st with isCounted := false } := by
  unfold Streams.decNumStreams
  simp only [hc, if_true, hloc, Bool.false_eq_true, if_false, gt_iff_lt, hpos]

theorem Inv2.decNum {s : Streams} {k : Nat} {sv : Bool} {E : Nat → Prop} (hA : KeysOK s) (hi : Inv2 sv E s)
    (hp : (s.decNumStreams k).panicked = none) : Inv2 sv E (s.decNumStreams k) := by
  have hde := DE.decNumStreams (G := fun _ => False) s k
  refine hde.inv2 hi (fun _ _ _ h => h.elim) ?_
  intro herr
  obtain ⟨_, ⟨x, hx, hxc, hcase⟩, _⟩ := decNumStreams_spec hA hp
  have hsx : s.stream k = x := stream_of_get? hx
  have hd := hi.dir (hde.counts.errOK herr)
  rcases hcase with ⟨hloc, hpos, hc⟩ | ⟨hloc, hpos, hc⟩
  · rw [hc, decNumStreams_eq_send (by rw [hsx]; exact hxc) (by rw [hsx]; exact hloc) hpos]
    dsimp only
    rcases cntP_modStream (sendCounted sv) (keysOK_modCounts hA (fun c => { c with numSendStreams := c.numSendStreams - 1 })) k (fun st => { st with isCounted := false }) (fun _ => rfl)
      with ⟨y, hy, e⟩ | ⟨hn, _⟩
    · have hyx : y = x := by rw [show (s.modCounts _).store.get? k = s.store.get? k from rfl, hx] at hy; cases hy; rfl
      subst hyx
      have hl : locId sv y.id = true := by rw [← hi.role]; exact hloc
      have h0 : sendCounted sv y = true := by unfold sendCounted; simp [hxc, hl]
      have h1 : sendCounted sv { y with isCounted := false } = false := by unfold sendCounted; rfl
      rw [h0, h1, b2n_false, b2n_true] at e
      have : cntP (sendCounted sv) (s.modCounts fun c => { c with numSendStreams := c.numSendStreams - 1 }) = cntP (sendCounted sv) s := rfl
      omega
    · rw [show (s.modCounts _).store.get? k = s.store.get? k from rfl, hx] at hn; cases hn
  · rw [hc, decNumStreams_eq_recv (by rw [hsx]; exact hxc) (by rw [hsx]; exact hloc) hpos]
    dsimp only
    rcases cntP_modStream (sendCounted sv) (keysOK_modCounts hA (fun c => { c with numRecvStreams := c.numRecvStreams - 1 })) k (fun st => { st with isCounted := false }) (fun _ => rfl)
      with ⟨y, hy, e⟩ | ⟨hn, _⟩
    · have hyx : y = x := by rw [show (s.modCounts _).store.get? k = s.store.get? k from rfl, hx] at hy; cases hy; rfl
      subst hyx
      have hl : locId sv y.id = false := by rw [← hi.role]; exact hloc
      have h0 : sendCounted sv y = false := by unfold sendCounted; simp [hl]
      have h1 : sendCounted sv { y with isCounted := false } = false := by unfold sendCounted; rfl
      rw [h0, h1, b2n_false] at e
      have : cntP (sendCounted sv) (s.modCounts fun c => { c with numRecvStreams := c.numRecvStreams - 1 }) = cntP (sendCounted sv) s := rfl
      omega
    · rw [show (s.modCounts _).store.get? k = s.store.get? k from rfl, hx] at hn; cases hn

/-- `Queue::push` on `pending_open` for a locally initiated stream -/
theorem Inv2.qPushOpen {s : Streams} {k : Nat} {sv : Bool} {E : Nat → Prop} (hA : KeysOK s) (hi : Inv2 sv E s)
    (hp : (s.qPush .pendingOpen k).1.panicked = none) (hloc : s.counts.isLocalInit (s.stream k).id = true) :
    Inv2 sv E (s.qPush .pendingOpen k).1 := by
  unfold Streams.qPush at hp ⊢
  split at hp
  · next hq => simp only [hq, if_true]; exact hi
  · next hq =>
    simp only [hq, Bool.false_eq_true, if_false] at ⊢
    have hdf := DF.modStream s k (fun st => st.setQueued .pendingOpen true) (fun x => setQueued_key x _ true) (fun x => setQueued_sameD x _ true)
    rw [setQ_panicked] at hp
    obtain ⟨_, x, hx⟩ := modStream_noPanic hp
    generalize hs1 : (s.modStream k fun st => st.setQueued .pendingOpen true) = s1 at hdf hp
    have hi1 := hdf.inv2 hA hi
    have hsx : s.stream k = x := stream_of_get? hx
    have hl : locId sv x.id = true := by rw [← hi.role, ← hsx]; exact hloc
    -- the queue gains `k`
    have hst : (s1.setQ .pendingOpen (s.getQ .pendingOpen ++ [k])).store = s1.store := setQ_store _ _ _
    refine ⟨hi1.role, ?_, ?_, ?_, ?_, ?_, ?_⟩
    · intro j hj
      have hj' : j ∈ s.prio.pendingOpen ++ [k] := hj
      rw [hst]
      rcases List.mem_append.mp hj' with h1 | h1
      · have := hi.p1 j h1
        refine ⟨by rw [hdf.nextKey]; exact this.1, ?_⟩
        intro st' hst'
        obtain ⟨y, hy, d⟩ := hdf.desc j st' hst'
        rw [d.id]; exact this.2 y hy
      · simp only [List.mem_singleton] at h1
        subst h1
        refine ⟨by rw [hdf.nextKey]; exact hA.fresh x (get?_mem hx) |> fun h => by rw [get?_key hx] at h; exact h, ?_⟩
        intro st' hst'
        obtain ⟨y, hy, d⟩ := hdf.desc j st' hst'
        rw [hx] at hy; cases hy
        rw [d.id]; exact hl
    · rw [hst]; exact hi1.ids
    · rw [hst]; exact hi1.fr
    · intro herr; rw [hst]; exact hi1.p3 herr
    · intro herr
      have : cntP (sendCounted sv) (s1.setQ .pendingOpen (s.getQ .pendingOpen ++ [k])) = cntP (sendCounted sv) s1 := cntP_of_store_eq _ hst
      rw [this, setQ_counts]
      exact hi1.dir (by unfold ErrOK at herr ⊢; rw [setQ_counts] at herr; exact herr)
    · exact hi1.next

end H2V.Lemmas.ConnCountsP
