import H2V.Lemmas.ConnCtlPPoll
/-
  ConnCtlP, part 5 — C14 over whole histories of one connection: any interleaving of
  `Connection::poll` (client or server flavour, any waker, any amount of input and write capacity)
  with the calls of the user-facing API.  The API calls are the ones `ConnDriver.step` makes; all of
  them leave `settings.remote` / `ping_pong.pending_pong` alone and keep a dead connection dead
  (`Inert`, proved below for each of them; a call that only changes the stream store or the scripted
  transport is inert by definition).
-/
set_option autoImplicit false
set_option linter.unusedSimpArgs false
namespace H2V.Lemmas.ConnCtlP
open H2V H2V.Model H2V.Model.Conn

/-- a call that does not touch what is owed to the peer and does not revive a dead connection -/
def Inert (c c' : Conn) : Prop := SameAck c c' ∧ (Dead c → Dead c')

theorem Inert.refl (c : Conn) : Inert c c := ⟨SameAck.refl c, id⟩
theorem Inert.trans {a b c : Conn} (h1 : Inert a b) (h2 : Inert b c) : Inert a c :=
  ⟨h1.1.trans h2.1, fun h => h2.2 (h1.2 h)⟩

/-- every handle call (`send_request`, `send_data`, `poll_data`, `release_capacity`, drops, …) and
    every event of the scripted transport (`cn_peer`, `cn_budget`, `cn_eof`, …): only the stream
    store, the codec and the polling waker change -/
theorem inert_streams_codec (c : Conn) (s : Streams) (k : Codec) (cx : String) (u : Option String) :
    Inert c { c with streams := s, codec := k, cx := cx, unsupported := u } :=
  ⟨⟨rfl, rfl⟩, fun h => h.of_goAway_state rfl rfl⟩

theorem inert_panic (c : Conn) (m : String) : Inert c (c.panic m) := inert_streams_codec c _ c.codec c.cx c.unsupported

theorem inert_setTargetWindowSize (c : Conn) (n : Nat) : Inert c (c.setTargetWindowSize n) :=
  inert_streams_codec c _ c.codec c.cx c.unsupported

theorem inert_sendSettings (c : Conn) (v : List (Nat × Nat)) : Inert c (c.sendSettings v).1 := by
  unfold Conn.sendSettings
  split
  · exact ⟨⟨rfl, rfl⟩, fun h => h.of_goAway_state rfl rfl⟩
  · exact Inert.refl c

theorem inert_setInitialWindowSize (c : Conn) (n : Nat) : Inert c (c.setInitialWindowSize n).1 :=
  inert_sendSettings c _

theorem inert_takeUserPings (c : Conn) : Inert c c.takeUserPings.1 := by
  unfold Conn.takeUserPings
  split
  · exact Inert.refl c
  · exact ⟨⟨rfl, rfl⟩, fun h => h.of_goAway_state rfl rfl⟩

theorem inert_userSendPing (c : Conn) : Inert c c.userSendPing.1 := by
  unfold Conn.userSendPing
  (repeat' split) <;> first | exact Inert.refl c | exact ⟨⟨rfl, rfl⟩, fun h => h.of_goAway_state rfl rfl⟩

theorem inert_userPollPong (c : Conn) (t : String) : Inert c (c.userPollPong t).1 := by
  unfold Conn.userPollPong
  dsimp only
  (repeat' split) <;> first | exact Inert.refl c | exact ⟨⟨rfl, rfl⟩, fun h => h.of_goAway_state rfl rfl⟩

theorem inert_dropUserPingsRx (c : Conn) : Inert c c.dropUserPingsRx := by
  unfold Conn.dropUserPingsRx
  split
  · exact Inert.refl c
  · exact ⟨⟨rfl, rfl⟩, fun h => h.of_goAway_state rfl rfl⟩

theorem dynGoAway_goAway (c : Conn) (id : Nat) (e : Reason) :
    (c.dynGoAway id e).goAway = (c.goAway.goAway { lastStreamId := id, reason := e }).1 ∧
    (c.dynGoAway id e).state = c.state ∧ (c.dynGoAway id e).error = c.error := by
  unfold Conn.dynGoAway
  dsimp only
  split <;> exact ⟨rfl, rfl, rfl⟩

theorem dynGoAway_dead (c : Conn) (id : Nat) (e : Reason) (h : Dead c) : Dead (c.dynGoAway id e) := by
  obtain ⟨h1, h2, -⟩ := dynGoAway_goAway c id e
  rcases h with h | h
  · left
    unfold Halting
    rw [h1]
    exact ⟨h.1, rfl⟩
  · right; rw [h2]; exact h

/-- server `graceful_shutdown` -/
theorem inert_goAwayGracefully (c : Conn) : Inert c c.goAwayGracefully := by
  unfold Conn.goAwayGracefully
  split
  · exact Inert.refl c
  · dsimp only
    refine ⟨⟨?_, ?_⟩, fun h => ?_⟩
    · split <;> simp [PingPong.pingShutdown]
    · split <;> simp [PingPong.pingShutdown]
    · have := dynGoAway_dead c STREAM_ID_MAX NO_ERROR h
      split <;> exact this.of_goAway_state rfl rfl

/-- server `abrupt_shutdown` -/
theorem inert_goAwayFromUser (c : Conn) (e : Reason) : Inert c (c.goAwayFromUser e) ∧ Halting (c.goAwayFromUser e) := by
  unfold Conn.goAwayFromUser
  dsimp only
  have hh := GoAway.goAwayNow_halting { c.goAway with isUserInitiated := true }
    { lastStreamId := c.streams.recv.lastProcessedId, reason := e }
  have : Halting (c.goAwayFromUser e) := by
    unfold Conn.goAwayFromUser GoAway.goAwayFromUser
    dsimp only
    split <;> exact hh
  unfold Conn.goAwayFromUser at this
  dsimp only at this
  refine ⟨⟨⟨?_, ?_⟩, fun _ => Or.inl this⟩, this⟩
  · split <;> rfl
  · split <;> rfl

-- ===================================================================== client::Connection::poll

theorem clientPollT_conn (fuel : Nat) (c : Conn) :
    Inert (protoPollT fuel (if !c.hasStreamsOrOtherReferences then c.goAwayNow NO_ERROR else c)).1.1 (clientPollT fuel c).1.1 := by
  unfold clientPollT
  generalize (if !c.hasStreamsOrOtherReferences then c.goAwayNow NO_ERROR else c) = c0
  dsimp only
  (repeat' split) <;> first | exact Inert.refl _ | exact ⟨⟨rfl, rfl⟩, fun h => h.of_goAway_state rfl rfl⟩

theorem inert_clientPre (c : Conn) :
    Inert c (if !c.hasStreamsOrOtherReferences then c.goAwayNow NO_ERROR else c) := by
  split
  · obtain ⟨g1, g2, -, -⟩ := goAwayNow_same c NO_ERROR
    exact ⟨⟨by rw [g1], by rw [g2]⟩, fun _ => Or.inl (goAwayNow_halting c NO_ERROR)⟩
  · exact Inert.refl c

theorem clientPollT_spec (fuel : Nat) (c : Conn) : RunP c (clientPollT fuel c) := by
  have h1 := inert_clientPre c
  have h2 := clientPollT_conn fuel c
  have h3 := protoPollT_spec fuel (if !c.hasStreamsOrOtherReferences then c.goAwayNow NO_ERROR else c)
  unfold RunP at *
  rw [clientPollT_snd]
  rcases h3 with h | ⟨hd, h⟩
  · exact Or.inl ((h.left h1.1).right h2.1)
  · exact Or.inr ⟨h2.2 hd, (h.left h1.1).right h2.1⟩

theorem clientPollT_dead (fuel : Nat) (c : Conn) (hd : Dead c) :
    OnlyGoAway (clientPollT fuel c).2 ∧ Dead (clientPollT fuel c).1.1 ∧ SameAck c (clientPollT fuel c).1.1 := by
  have h1 := inert_clientPre c
  have h2 := clientPollT_conn fuel c
  obtain ⟨i1, i2, i3⟩ := protoPollT_dead fuel _ (h1.2 hd)
  rw [clientPollT_snd]
  exact ⟨i1, h2.2 i2, (h1.1.trans i3).trans h2.1⟩

-- ===================================================================== histories

/-- the histories of one connection: `Connection::poll` in its two flavours, polled from any task,
    interleaved with inert calls -/
inductive Hist (c0 : Conn) : List Ev → Conn → Prop
  | init : Hist c0 [] c0
  | serverPoll {evs : List Ev} {c : Conn} (cx : String) (fuel : Nat) : Hist c0 evs c →
      Hist c0 (evs ++ (protoPollT fuel { c with cx := cx }).2) (protoPollT fuel { c with cx := cx }).1.1
  | clientPoll {evs : List Ev} {c : Conn} (cx : String) (fuel : Nat) : Hist c0 evs c →
      Hist c0 (evs ++ (clientPollT fuel { c with cx := cx }).2) (clientPollT fuel { c with cx := cx }).1.1
  | call {evs : List Ev} {c : Conn} (c' : Conn) : Hist c0 evs c → Inert c c' → Hist c0 evs c'

/-- **the acknowledgement ledger over every history** -/
theorem hist_ledger {c0 c : Conn} {evs : List Ev} (h : Hist c0 evs c) :
    Led c0 evs c ∨ (Dead c ∧ LedF c0 evs c) := by
  induction h with
  | init => exact Or.inl (Led.of_same rfl rfl rfl rfl rfl rfl)
  | @serverPoll evs c cx fuel _ ih =>
    have sa : SameAck c { c with cx := cx } := ⟨rfl, rfl⟩
    rcases ih with ih | ⟨hd, ih⟩
    · exact RunP.pre (ih.right sa) (protoPollT_spec fuel _)
    · obtain ⟨i1, i2, i3⟩ := protoPollT_dead fuel { c with cx := cx } (hd.of_goAway_state rfl rfl)
      exact Or.inr ⟨i2, ih.append_quiet i1 (sa.trans i3)⟩
  | @clientPoll evs c cx fuel _ ih =>
    have sa : SameAck c { c with cx := cx } := ⟨rfl, rfl⟩
    rcases ih with ih | ⟨hd, ih⟩
    · exact RunP.pre (ih.right sa) (clientPollT_spec fuel _)
    · obtain ⟨i1, i2, i3⟩ := clientPollT_dead fuel { c with cx := cx } (hd.of_goAway_state rfl rfl)
      exact Or.inr ⟨i2, ih.append_quiet i1 (sa.trans i3)⟩
  | call c' _ hi ih =>
    rcases ih with ih | ⟨hd, ih⟩
    · exact Or.inl (ih.right hi.1)
    · exact Or.inr ⟨hi.2 hd, ih.right hi.1⟩

/-- SETTINGS: the acknowledgements are a prefix of the frames received — never more ACKs than
    SETTINGS, in arrival order, each answering exactly "its" frame — and at most one is outstanding -/
theorem hist_settings {c0 c : Conn} {evs : List Ev} (h : Hist c0 evs c) (h0 : c0.settings.remote = none) :
    ackS evs <+: rxS evs ∧ (rxS evs).length ≤ (ackS evs).length + 1 ∧
    (¬ Dead c → ackS evs ++ owedS c = rxS evs) := by
  have e0 : owedS c0 = [] := by simp [owedS, h0]
  rcases hist_ledger h with l | ⟨hd, l⟩
  · have := l.settings
    rw [e0, List.nil_append] at this
    refine ⟨⟨owedS c, this⟩, ?_, fun _ => this⟩
    rw [← this, List.length_append]
    have := owedS_length_le c
    omega
  · have := l.settings
    rw [e0, List.nil_append] at this
    exact ⟨⟨[], by simp [this]⟩, by rw [this]; omega, fun hn => absurd hd hn⟩

/-- PING: every payload received is taken out of `pending_pong` exactly once, in arrival order, or
    is the one still pending; it is echoed unless the transport answered an I/O error at that moment -/
theorem hist_pings {c0 c : Conn} {evs : List Ev} (h : Hist c0 evs c) (h0 : c0.pingPong.pendingPong = none) :
    ansP evs ++ owedP c = rxP evs ∧ (rxP evs).length ≤ (ansP evs).length + 1 ∧
    ((∀ p, Ev.pongLost p ∉ evs) → pongP evs = ansP evs) := by
  have e0 : owedP c0 = [] := by simp [owedP, h0]
  have hp : ansP evs ++ owedP c = rxP evs := by
    rcases hist_ledger h with l | ⟨-, l⟩ <;> simpa [e0] using l.pings
  refine ⟨hp, ?_, ?_⟩
  · rw [← hp, List.length_append]
    have := owedP_length_le c
    omega
  · intro hl
    clear hp h
    induction evs with
    | nil => rfl
    | cons e t ih =>
      have ht : ∀ p, Ev.pongLost p ∉ t := fun p hp => hl p (List.mem_cons_of_mem _ hp)
      have := ih ht
      cases e <;> simp_all [pongP, ansP]

end H2V.Lemmas.ConnCtlP
