import H2V.Model.Frame
import H2V.Model.CodecRead
import H2V.Lemmas.ConnFlowPReach
/-
  ConnFlowP, part 26 — the two argument bounds `Reach` asks for are what the frame decoder delivers:
    * `WindowUpdate::load` masks the reserved bit: the increment is below `2^31`;
    * `Settings::load` rejects SETTINGS_INITIAL_WINDOW_SIZE above `2^31 - 1`.
-/
namespace H2V.Lemmas.ConnFlowP
open H2V H2V.Model H2V.Model.Conn

theorem loadWindowUpdate_bound {h : Frame.Head} {payload : Bytes} {sid inc : Nat}
    (hl : Frame.loadWindowUpdate h payload = .ok (.windowUpdate sid inc)) : inc ≤ 2147483647 := by
  unfold Frame.loadWindowUpdate at hl
  split at hl
  · cases hl
  · dsimp only at hl
    split at hl
    · cases hl
    · injection hl with hl
      injection hl with _ hinc
      omega

/-- every entry for identifier 4 carries a 31-bit value -/
def AccOk (acc : List (Nat × Nat)) : Prop := ∀ p ∈ acc, p.1 = 4 → p.2 ≤ 2147483647

theorem applySetting_ok {acc acc' : List (Nat × Nat)} {id val : Nat} (h : AccOk acc)
    (ha : Frame.applySetting acc id val = some acc') : AccOk acc' := by
  unfold Frame.applySetting at ha
  dsimp only at ha
  have hset : ∀ (hv : id = 4 → val ≤ 2147483647), AccOk (acc.filter (·.1 ≠ id) ++ [(id, val)]) := by
    intro hv p hp h4
    rcases List.mem_append.1 hp with hp | hp
    · exact h p (List.mem_filter.1 hp).1 h4
    · simp only [List.mem_singleton] at hp; subst hp; exact hv h4
  split at ha
  · rename_i hid
    cases ha
    exact hset (by intro h4; omega)
  · split at ha
    · rename_i hid
      split at ha
      · cases ha; exact hset (by intro h4; omega)
      · cases ha
    · split at ha
      · rename_i hid
        split at ha
        · cases ha
        · rename_i hle
          cases ha
          exact hset (by intro _; simp only [Generated.Consts.MAX_INITIAL_WINDOW_SIZE] at hle; omega)
      · split at ha
        · rename_i hid
          split at ha
          · cases ha; exact hset (by intro h4; omega)
          · cases ha
        · cases ha; exact h

theorem settingsLoop_ok (fuel : Nat) : ∀ (p : Bytes) (acc vals : List (Nat × Nat)), AccOk acc →
    Frame.settingsLoop fuel p acc = .ok vals → AccOk vals := by
  induction fuel with
  | zero => intro p acc vals h hl; unfold Frame.settingsLoop at hl; cases hl; exact h
  | succ n ih =>
    intro p acc vals h hl
    unfold Frame.settingsLoop at hl
    split at hl
    · cases hl; exact h
    · split at hl
      · cases hl
      · rename_i acc' ha
        exact ih _ _ _ (applySetting_ok h ha) hl

theorem settingsOrder_mem {vals : List (Nat × Nat)} {p : Nat × Nat} (hp : p ∈ Frame.settingsOrder vals) : p ∈ vals := by
  unfold Frame.settingsOrder at hp
  obtain ⟨id, _, hf⟩ := List.mem_filterMap.1 hp
  exact List.mem_of_find?_eq_some hf

/-- **what `Settings::load` delivers satisfies `SettingsOk`** -/
theorem loadSettings_settingsOk {h : Frame.Head} {payload : Bytes} {ack : Bool} {vals : List (Nat × Nat)}
    (hl : Frame.loadSettings h payload = .ok (.settings ack vals)) : SettingsOk vals := by
  have hacc : AccOk vals := by
    unfold Frame.loadSettings at hl
    split at hl
    · cases hl
    · split at hl
      · split at hl
        · cases hl; intro p hp; cases hp
        · cases hl
      · split at hl
        · cases hl
        · split at hl
          · cases hl
          · rename_i acc hloop
            cases hl
            intro p hp h4
            exact settingsLoop_ok _ _ _ _ (by intro p hp; cases hp) hloop p (settingsOrder_mem hp) h4
  intro v hv
  cases hf : vals.find? (·.1 = 4) with
  | none => rw [hf] at hv; cases hv
  | some p =>
    rw [hf] at hv
    simp only [Option.map_some, Option.some.injEq] at hv
    have hm := List.mem_of_find?_eq_some hf
    have h4 := List.find?_some hf
    simp only [decide_eq_true_eq] at h4
    rw [← hv]; exact hacc p hm h4

-- ===================================================================== `decode_frame`

/-- the two bounds, as a predicate on decoded frames -/
def FrameOk : Frame.Frame → Prop
  | .windowUpdate _ inc => inc ≤ 2147483647
  | .settings _ vals => SettingsOk vals
  | _ => True

open CodecRead in
theorem toFrame_ok (c : Continuable) : FrameOk c.toFrame := by
  cases c <;> exact trivial

open CodecRead in
theorem afterHpack_ok {r r' : Reader} {c : Continuable} {tail : Bytes} {count : Nat} {eh : Bool} {sid : Nat}
    {res : Except Frame.FErr Unit} {f : Frame.Frame} (h : afterHpack r c tail count eh sid res = (r', .frame f)) :
    FrameOk f := by
  unfold afterHpack at h
  dsimp only at h
  have hc : ∀ {r'' : Reader}, (if eh = true then (({ r with partialBlk := none } : Reader), DF.frame c.toFrame)
      else ({ r with partialBlk := some { frame := c, buf := tail, count := count } }, DF.none)) = (r'', DF.frame f) →
      FrameOk f := by
    intro r'' hh
    split at hh
    · injection hh with _ hh; injection hh with hh; rw [← hh]; exact toFrame_ok c
    · injection hh with _ hh; cases hh
  split at h
  · exact hc h
  · split at h
    · exact hc h
    · injection h with _ h; cases h
  all_goals (injection h with _ h; cases h)

theorem loadSettings_frameOk {h : Frame.Head} {payload : Bytes} {g : Frame.Frame}
    (hl : Frame.loadSettings h payload = .ok g) : FrameOk g := by
  have : ∃ ack vals, g = .settings ack vals := by
    unfold Frame.loadSettings at hl
    repeat' split at hl
    all_goals first | (cases hl; exact ⟨_, _, rfl⟩) | cases hl
  obtain ⟨ack, vals, rfl⟩ := this
  exact loadSettings_settingsOk hl

theorem loadWindowUpdate_frameOk {h : Frame.Head} {payload : Bytes} {g : Frame.Frame}
    (hl : Frame.loadWindowUpdate h payload = .ok g) : FrameOk g := by
  have : ∃ sid inc, g = .windowUpdate sid inc := by
    unfold Frame.loadWindowUpdate at hl
    dsimp only at hl
    repeat' split at hl
    all_goals first | (cases hl; exact ⟨_, _, rfl⟩) | cases hl
  obtain ⟨sid, inc, rfl⟩ := this
  exact loadWindowUpdate_bound hl

/-- **every frame `decode_frame` yields satisfies the two bounds** -/
theorem decodeFrame_ok {r r' : CodecRead.Reader} {bytes : Bytes} {f : Frame.Frame}
    (h : CodecRead.decodeFrame r bytes = (r', .frame f)) : FrameOk f := by
  unfold CodecRead.decodeFrame at h
  dsimp only at h
  have hs : ∀ (x : Except Frame.FErr Frame.Frame), (∀ g, x = .ok g → FrameOk g) →
      (match x with | .ok f => (r, CodecRead.DF.frame f) | .error _ => (r, CodecRead.connErr)) = (r', CodecRead.DF.frame f) →
      FrameOk f := by
    intro x hx hh
    split at hh
    · rename_i g
      injection hh with _ hh; injection hh with hh; rw [← hh]; exact hx g rfl
    · injection hh with _ hh; cases hh
  split at h
  · injection h with _ h; cases h
  · split at h
    · exact hs _ (fun g hg => loadSettings_frameOk hg) h
    · exact hs _ (fun g hg => by
        unfold Frame.loadPing at hg
        repeat' split at hg
        all_goals first | (cases hg; exact trivial) | cases hg) h
    · exact hs _ (fun g hg => loadWindowUpdate_frameOk hg) h
    · exact hs _ (fun g hg => by
        unfold Frame.loadData at hg
        dsimp only at hg
        repeat' split at hg
        all_goals first | (cases hg; exact trivial) | cases hg) h
    · exact hs _ (fun g hg => by
        unfold Frame.loadReset at hg
        split at hg <;> first | (cases hg; exact trivial) | cases hg) h
    · split at h
      · injection h with _ h; cases h
      · exact hs _ (fun g hg => by
          unfold Frame.loadGoAway at hg
          split at hg <;> first | (cases hg; exact trivial) | cases hg) h
    · split at h
      · injection h with _ h; cases h
      · split at h
        · rename_i g hg
          injection h with _ h; injection h with h; rw [← h]
          unfold Frame.loadPriority at hg
          dsimp only at hg
          repeat' split at hg
          all_goals first | (cases hg; exact trivial) | cases hg
        all_goals (injection h with _ h; cases h)
    · split at h
      · injection h with _ h; cases h
      · injection h with _ h; cases h
      · exact afterHpack_ok h
    · split at h
      · injection h with _ h; cases h
      · injection h with _ h; cases h
      · exact afterHpack_ok h
    · repeat' split at h
      all_goals first | exact afterHpack_ok h | (injection h with _ h; cases h)
    · injection h with _ h; cases h

end H2V.Lemmas.ConnFlowP
