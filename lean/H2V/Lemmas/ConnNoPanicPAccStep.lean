import H2V.Lemmas.ConnNoPanicPAccOps
/-
  C08 (no panic) — the server accept path, part 11: the handle calls keep `J`; `J_step`: every covered
  operation of ConnResetP's `Op` keeps `J`.
-/
namespace H2V.Lemmas.ConnNoPanicP
open H2V H2V.Model H2V.Model.Conn H2V.Lemmas.ConnCountsP
open H2V.Lemmas.ConnResetP (Op run)
attribute [local irreducible] wrapSubU32 wrapSubUsize

theorem transition_light_j {α : Type} {s : Streams} (hj : J s) (k : Nat) (f : Streams → Streams × α) (hal : AL [] s (f s).1) :
    J (s.transition k f).1 := J.transition k f (hj.al0 hal)

theorem refSendData_j {s : Streams} (hj : J s) (k len : Nat) (eos : Bool) : J (s.refSendData k len eos).1 := by
  unfold Streams.refSendData; exact transition_light_j hj k _ (prioSendData_al s k len eos)
theorem refSendTrailers_j {s : Streams} (hj : J s) (k : Nat) (f : List Hpack.Field) : J (s.refSendTrailers k f).1 := by
  unfold Streams.refSendTrailers; exact transition_light_j hj k _ (sendTrailers_al s k f)
theorem refSendResponse_j {s : Streams} (hj : J s) (k : Nat) (f : List Hpack.Field) (eos : Bool) : J (s.refSendResponse k f eos).1 := by
  unfold Streams.refSendResponse; exact transition_light_j hj k _ (sendHeaders_al s k eos f)
theorem refSendInformationalHeaders_j {s : Streams} (hj : J s) (k : Nat) (f : List Hpack.Field) :
    J (s.refSendInformationalHeaders k f).1 := by
  unfold Streams.refSendInformationalHeaders; exact transition_light_j hj k _ (sendInterimInformationalHeaders_al s k f)

theorem cloneStreamRef_j {s : Streams} (hj : J s) {k : Nat} (hk : Live s k) (hr : (s.stream k).refCount > 0) :
    J (s.cloneStreamRef k) := by
  obtain ⟨hnq, hrh⟩ := hj.of_ref hk hr
  unfold Streams.cloneStreamRef
  exact (refInc_j hj hk hnq hrh).al0 (setMisc_al (ks := []) _ _ _ _ _ _ rfl)

theorem dropPre_j {s : Streams} (hj : J s) {k : Nat} (hk : Live s k) (hr : (s.stream k).refCount > 0) :
    J (dropPre s k) ∧ k ∉ (dropPre s k).recv.pendingAccept := by
  have hnq := hj.not_mem_of_ref hr
  unfold dropPre
  dsimp only
  have hs0 : ({ s with refs := s.refs - 1 } : Streams).stream k = s.stream k := rfl
  rw [hs0]
  simp only [hr, if_true]
  have h0 : J { s with refs := s.refs - 1 } := hj.al0 (setMisc_al (ks := []) s s.actions (s.refs - 1) _ _ _ rfl)
  have hk0 : Live ({ s with refs := s.refs - 1 } : Streams) k := hk
  have hnq0 : k ∉ ({ s with refs := s.refs - 1 } : Streams).recv.pendingAccept := hnq
  have h1 := refDec_j h0 hk0 hnq0
  have hq1 : (({ s with refs := s.refs - 1 } : Streams).modStream k fun st => { st with refCount := st.refCount - 1 }).recv.pendingAccept =
      s.recv.pendingAccept := by
    show Streams.getQ _ .pendingAccept = Streams.getQ s .pendingAccept
    rw [getQ_modStream]; rfl
  split
  · exact ⟨h1.al0 (notifyTask_al _), by rw [(notifyTask_al (ks := []) _).queue, hq1]; exact hnq⟩
  · exact ⟨h1, by rw [hq1]; exact hnq⟩

theorem dropStreamRef_j {s : Streams} (hj : J s) {k : Nat} (hk : Live s k) (hr : (s.stream k).refCount > 0)
    (hppp : dropPPP s k = []) : J (s.dropStreamRef k) := by
  rw [dropStreamRef_eq]
  obtain ⟨h1, hnq1⟩ := dropPre_j hj hk hr
  unfold dropPPP at hppp
  generalize dropPre s k = t at h1 hnq1 hppp
  refine J.transition k _ ?_
  rw [dropClosure_nil t k hppp]
  split
  · refine h1.al1 ?_ hnq1
    al_auto
  · exact h1.al0 (maybeCancel_al t k)

-- ===================================================================== `send_request`

theorem sendRequest_cases2 (s : Streams) (isHead : Bool) (fields : List Hpack.Field) (eos : Bool) (pending : Option Nat) :
    (s.sendRequest isHead fields eos pending).1 = s ∨
    (s.counts.isServer = false ∧ s.sendRequest isHead fields eos pending = sendRequestCore isHead fields eos s) := by
  unfold Streams.sendRequest
  repeat (first | (left; rfl) | (right; exact ⟨by simp_all, rfl⟩) | split)

/-- queue and role unchanged -/
def QSa (s s' : Streams) : Prop := s'.recv.pendingAccept = s.recv.pendingAccept ∧ s'.counts.isServer = s.counts.isServer
theorem QSa.trans {a b c : Streams} (h1 : QSa a b) (h2 : QSa b c) : QSa a c := ⟨h2.1.trans h1.1, h2.2.trans h1.2⟩
theorem AL.qsa {ks : List Nat} {s s' : Streams} (h : AL ks s s') : QSa s s' := ⟨h.queue, h.srv⟩

theorem sendRequestCore_qs (s : Streams) (isHead : Bool) (fields : List Hpack.Field) (eos : Bool) :
    QSa s (sendRequestCore isHead fields eos s).1 := by
  unfold sendRequestCore
  have h1 := (sendOpenId_al s).qsa
  generalize s.sendOpenId = p at h1
  obtain ⟨s1, r⟩ := p
  cases r with
  | error e => exact h1
  | ok id =>
    simp only []
    generalize hsP : (if s1.store.contains id = true then s1.panic _ else s1) = sP
    have hP : QSa s sP := by
      rw [← hsP]; split
      · exact h1.trans (panic_al (ks := []) _ _).qsa
      · exact h1
    generalize (if isHead = true then _ else Stream.new id s1.actions.send.initWindowSz s1.recv.initWindowSz) = st
    have h2 : QSa s ({ sP with store := (sP.store.insert st).1 } : Streams) := hP
    generalize hsh : Streams.sendHeaders _ (sP.store.insert st).2 eos fields = q
    obtain ⟨s3, r3⟩ := q
    have h3 : QSa s s3 := h2.trans (AL.of_fst_eq hsh (sendHeaders_al _ _ _ _)).qsa
    cases r3 with
    | error e => exact h3
    | ok u =>
      simp only []
      refine h3.trans ⟨?_, ?_⟩
      · show Streams.getQ _ .pendingAccept = Streams.getQ s3 .pendingAccept
        unfold Streams.refInc
        rw [getQ_modStream]; rfl
      · unfold Streams.refInc
        rw [modStream_counts]

theorem sendRequest_j {s : Streams} (hj : J s) (isHead : Bool) (fields : List Hpack.Field) (eos : Bool) (pending : Option Nat) :
    J (s.sendRequest isHead fields eos pending).1 := by
  rcases sendRequest_cases2 s isHead fields eos pending with e | ⟨hc, e⟩
  · rw [e]; exact hj
  · rw [e]
    have := sendRequestCore_qs s isHead fields eos
    exact .of_client (this.2.trans hc) (this.1.trans (hj.cl hc))

-- ===================================================================== `J_step`

/-- the precondition on the ARGUMENT of an operation that the accept path needs: `Streams::handle_error` is never
    called with `Reset(_, _, Initiator::Remote)` (connection.rs hands over GOAWAY and I/O errors only) -/
def accPre : Op → Prop
  | .handleError e => NotRR e
  | _ => True

/-- **every covered operation keeps `J`** -/
theorem J_step {s : Streams} {H : List Nat} (hn : NPI (fun _ => False) s) (hh : HOK s H) (hj : J s) (op : Op)
    (hpre : opPre s op) (hacc : accPre op) (hin : ∀ k, opKey op = some k → k ∈ H) : J (op.apply s) := by
  have hk : ∀ k, opKey op = some k → Live s k ∧ (s.stream k).refCount > 0 := by
    intro k hk
    obtain ⟨x, hx, hc⟩ := hh k (hin k hk)
    have hpos := count_pos_of_mem (hin k hk)
    exact ⟨⟨x, hx⟩, by rw [stream_of_get? hx]; omega⟩
  cases op <;> simp only [opPre] at hpre <;> try exact hpre.elim
  case recvHeaders h => exact recvHeaders_j hn hj h
  case recvData id p eos pad => exact recvData_j hj id p eos pad
  case recvReset id r => exact recvReset_j hn hj id r
  case recvWindowUpdate id inc => exact recvWindowUpdate_j hj id inc
  case innerSendReset id r => exact innerSendReset_j hj id r
  case recvGoAway l => exact hj.al0 (recvGoAway_al s l)
  case handleError e => exact handleError_j hj e hacc
  case recvGoAwayFrame l r d => exact recvGoAwayFrame_j hj l r d
  case recvEof b => exact recvEof_j hj b
  case clearExpiredResetStreams n => exact clearExpiredResetStreams_j n hj
  case applyRemoteSettings v b => exact hj.al0 (applyRemoteSettings_al s v b)
  case applyLocalSettingsFrame v => exact hj.al0 (applyLocalSettingsFrame_al s v)
  case wake t => exact hj.al0 (wake_al s t)
  case cloneHandle => exact hj.al0 (cloneHandle_al s)
  case dropHandle => exact hj.al0 (dropHandle_al s)
  case sendRequest a b c d => exact sendRequest_j hj a b c d
  case pollPendingOpen p t => exact hj.al0 (pollPendingOpen_al s p t)
  case cloneStreamRef k => exact cloneStreamRef_j hj (hk k rfl).1 (hk k rfl).2
  case dropStreamRef k => exact dropStreamRef_j hj (hk k rfl).1 (hk k rfl).2 hpre
  case refSendResponse k f eos => exact refSendResponse_j hj k f eos
  case refSendInformationalHeaders k f => exact refSendInformationalHeaders_j hj k f
  case refSendData k len eos => exact refSendData_j hj k len eos
  case refSendTrailers k f => exact refSendTrailers_j hj k f
  case refReserveCapacity k c => exact hj.al0 (refReserveCapacity_al s k c)
  case pollCapacity k t => exact hj.al0 (pollCapacity_al s k t)
  case refSendReset k r => exact refSendReset_j hj k r
  case pollReset k m t => exact hj.al0 (pollReset_al s k m t)
  case recvPollInformational k t => exact hj.al1 (recvPollInformational_al s k t) (hj.not_mem_of_ref (hk k rfl).2)
  case refPollData k t => exact hj.al1 (refPollData_al s k t) (hj.not_mem_of_ref (hk k rfl).2)
  case recvPollTrailers k t => exact hj.al1 (recvPollTrailers_al s k t) (hj.not_mem_of_ref (hk k rfl).2)
  case refReleaseCapacity k c => exact hj.al0 (refReleaseCapacity_al s k c)
  case refClearRecvBuffer k => exact hj.al1 (refClearRecvBuffer_al s k) (hj.not_mem_of_ref (hk k rfl).2)

end H2V.Lemmas.ConnNoPanicP
