import H2V.Lemmas.ConnFidPView
import H2V.Lemmas.CompState
/-
  ConnFidP, part 9 — consequences for single API calls: what a call can do to the queues of ALL entries
  (from the path lemmas with the tightest permission) and the exact behaviour of the receive handles
  (`poll_data`, `poll_trailers`): FIFO hand-out, and when a clean end is reported.
-/
namespace H2V.Lemmas.ConnFidP
open H2V H2V.Model H2V.Model.Conn H2V.Lemmas.ConnWakeP

/-- what a call that stays off the write path can do to the send queues: every entry that was not cut or
    removed keeps its queue and gets the permitted frames appended at the back -/
theorem Tr.send_frames {P : Perm} {s s' : Streams} (h : Tr P s s') (hw : ¬P.write) (hp : ¬P.pop) :
    ∃ tr, Path P s s' tr ∧ (∀ j, wasCut j tr = false → sq s' j = sq s j ++ pushed j tr) ∧
      (∀ j f, f ∈ pushed j tr → P.ok (.push j f)) ∧ (∀ j, wasCut j tr = true → P.cut j ∨ s'.store.get? j = none ∨ True) := by
  obtain ⟨tr, p⟩ := h
  refine ⟨tr, p, fun j hj => p.send_ledger hw hp j hj, ?_, fun _ _ => Or.inr (Or.inr trivial)⟩
  intro j f hf
  unfold pushed at hf
  rw [List.mem_filterMap] at hf
  obtain ⟨l, hl, e⟩ := hf
  cases l <;> simp only [pushed1] at e <;> (try cases e)
  next i g =>
    split at e
    · next hi => subst hi; cases e; exact p.allowed _ hl
    · cases e

/-- what a call can do to the receive queues: every entry that was not cleared or removed loses the events
    handed out (from the front) and gets the permitted events appended at the back -/
theorem Tr.recv_events {P : Perm} {s s' : Streams} (h : Tr P s s') :
    ∃ tr, Path P s s' tr ∧ (∀ j, rlost j tr = false → dlvd j tr ++ rq s' j = rq s j ++ rcvd j tr) ∧
      (∀ j e, e ∈ rcvd j tr → P.rpush j e) ∧ (∀ j e, e ∈ dlvd j tr → P.rpop j) := by
  obtain ⟨tr, p⟩ := h
  refine ⟨tr, p, fun j hj => p.recv_ledger j hj, ?_, ?_⟩
  · intro j e he
    unfold rcvd at he
    rw [List.mem_filterMap] at he
    obtain ⟨l, hl, e'⟩ := he
    cases l <;> simp only [rcvd1] at e' <;> (try cases e')
    next i g =>
      split at e'
      · next hi => subst hi; cases e'; exact p.allowed _ hl
      · cases e'
  · intro j e he
    unfold dlvd at he
    rw [List.mem_filterMap] at he
    obtain ⟨l, hl, e'⟩ := he
    cases l <;> simp only [dlvd1] at e' <;> (try cases e')
    next i g =>
      split at e'
      · next hi => subst hi; cases e'; exact p.allowed _ hl
      · cases e'

-- ===================================================================== permissions of the API calls

/-- `send_data(k, len, eos)` may queue `DATA(len, eos)` on entry `k`, nothing else -/
def permSendData (k len : Nat) (eos : Bool) : Perm := { push := fun j f => j = k ∧ f = .data len eos, gone := True }
/-- `send_trailers` / `send_response` / `send_informational` may queue that one HEADERS frame on `k` -/
def permSendHeaders (k : Nat) (eos : Bool) (f : List Hpack.Field) : Perm := { push := fun j g => j = k ∧ g = .headers eos f, gone := True }
/-- `send_request` may queue the request head on an entry (the new one) -/
def permSendRequest (eos : Bool) (f : List Hpack.Field) : Perm := { push := fun _ g => g = .headers eos f, gone := True }
/-- `send_reset(k)` may cut the queue of `k` (and queue RST_STREAM on it), no other -/
def permReset (k : Nat) : Perm := { cut := fun j => j = k, gone := True }
/-- a receive handle of `k` may take events off `pending_recv` of `k` -/
def permPoll (k : Nat) : Perm := { rpop := fun j => j = k, gone := True }
/-- `recv_data(payload, eos)` may queue that payload on any entry, and reset streams -/
def permRecvData (_p : Bytes) (_eos : Bool) : Perm := { rpush := fun _ _ => True, cut := fun _ => True, gone := True }

theorem refSendData_tr (s : Streams) (k len : Nat) (eos : Bool) :
    Tr (permSendData k len eos) s (s.refSendData k len eos).1 :=
  refSendData_acc trivial k len eos (Or.inl ⟨rfl, rfl⟩) (Tr.refl _ _)
theorem refSendTrailers_tr (s : Streams) (k : Nat) (f : List Hpack.Field) :
    Tr (permSendHeaders k true f) s (s.refSendTrailers k f).1 :=
  refSendTrailers_acc trivial k f (Or.inl ⟨rfl, rfl⟩) (Tr.refl _ _)
theorem refSendResponse_tr (s : Streams) (k : Nat) (f : List Hpack.Field) (eos : Bool) :
    Tr (permSendHeaders k eos f) s (s.refSendResponse k f eos).1 :=
  refSendResponse_acc trivial k f eos (Or.inl ⟨rfl, rfl⟩) (Tr.refl _ _)
theorem refSendInformationalHeaders_tr (s : Streams) (k : Nat) (f : List Hpack.Field) :
    Tr (permSendHeaders k false f) s (s.refSendInformationalHeaders k f).1 :=
  refSendInformationalHeaders_acc trivial k f (Or.inl ⟨rfl, rfl⟩) (Tr.refl _ _)
theorem sendRequest_tr (s : Streams) (b : Bool) (f : List Hpack.Field) (eos : Bool) (p : Option Nat) :
    Tr (permSendRequest eos f) s (s.sendRequest b f eos p).1 :=
  sendRequest_acc trivial b f eos p (fun _ => Or.inl rfl) (Tr.refl _ _)
theorem refSendReset_tr (s : Streams) (k : Nat) (r : Reason) : Tr (permReset k) s (s.refSendReset k r) :=
  refSendReset_acc trivial k r rfl (Tr.refl _ _)
theorem refPollData_tr (s : Streams) (k : Nat) (t : String) : Tr (permPoll k) s (s.refPollData k t).1 :=
  refPollData_acc trivial k t rfl (Tr.refl _ _)
theorem recvPollTrailers_tr (s : Streams) (k : Nat) (t : String) : Tr (permPoll k) s (s.recvPollTrailers k t).1 :=
  recvPollTrailers_acc trivial k t rfl (Tr.refl _ _)
theorem recvData_tr (s : Streams) (id : Nat) (p : Bytes) (eos : Bool) (pad : Option Nat) :
    Tr (permRecvData p eos) s (s.recvData id p eos pad).1 :=
  recvData_acc trivial id p eos pad (fun _ => trivial) (fun _ _ => trivial) (Tr.refl _ _)

-- ===================================================================== the receive handles, exactly

/-- `poll_data` hands out the DATA payload at the head of `pending_recv`, and takes exactly it off -/
theorem recvPollData_head (s : Streams) (k : Nat) (t : String) (p : Bytes) (b : Bool) (rest : List REvent)
    (h : (s.stream k).pendingRecv = .data p b :: rest) :
    s.recvPollData k t = (s.modStream k fun st => { st with pendingRecv := rest }, .data p b) := by
  unfold Streams.recvPollData; rw [h]

/-- when `poll_data` answers with a payload, that payload was the head of the queue -/
theorem recvPollData_data {s : Streams} {k : Nat} {t : String} {p : Bytes} {b : Bool}
    (h : (s.recvPollData k t).2 = .data p b) : ∃ rest, (s.stream k).pendingRecv = .data p b :: rest := by
  cases hq : (s.stream k).pendingRecv with
  | nil =>
    cases he : (s.stream k).state.ensureRecvOpen with
    | error e => simp [Streams.recvPollData, Streams.scheduleRecv, hq, he] at h
    | ok v => cases v <;> simp [Streams.recvPollData, Streams.scheduleRecv, hq, he] at h
  | cons e rest =>
    cases e <;> simp [Streams.recvPollData, hq] at h
    obtain ⟨rfl, rfl⟩ := h
    exact ⟨rest, rfl⟩

/-- **a clean end of the body is reported only when the next event is not DATA (headers / trailers follow)
    or the queue is empty and the receive half ended with END_STREAM** (or the stream never had one:
    `ReservedLocal`).  In particular never for a stream closed by a reset or a connection error before
    END_STREAM arrived (`recvPollData_error`). -/
theorem recvPollData_none {s : Streams} {k : Nat} {t : String} (h : (s.recvPollData k t).2 = .none) :
    (∃ e rest, (s.stream k).pendingRecv = e :: rest ∧ ∀ p b, e ≠ .data p b) ∨
    ((s.stream k).pendingRecv = [] ∧
      ((s.stream k).state.isRecvEndStream = true ∨ H2V.Lemmas.Comp.phase (s.stream k).state = .reservedLocal)) := by
  cases hq : (s.stream k).pendingRecv with
  | nil =>
    refine Or.inr ⟨rfl, ?_⟩
    cases he : (s.stream k).state.ensureRecvOpen with
    | error e => simp [Streams.recvPollData, Streams.scheduleRecv, hq, he] at h
    | ok v =>
      cases v
      · exact (H2V.Lemmas.Comp.ensureRecvOpen_false_iff _).mp he
      · simp [Streams.recvPollData, Streams.scheduleRecv, hq, he] at h
  | cons e rest =>
    refine Or.inl ⟨e, rest, rfl, ?_⟩
    intro p b he; subst he
    simp [Streams.recvPollData, hq] at h

/-- **a stream cut short is not a clean end**: with nothing left in the queue, a stream that was closed by
    an error (peer RST_STREAM — also `NO_ERROR` —, local reset, GOAWAY, I/O error) before END_STREAM
    arrived makes `poll_data` answer that error -/
theorem recvPollData_error (s : Streams) (k : Nat) (t : String) (e : PErr) (hq : (s.stream k).pendingRecv = [])
    (he : (s.stream k).state.inner = .closed (.error e)) : (s.recvPollData k t).2 = .err e := by
  unfold Streams.recvPollData Streams.scheduleRecv
  rw [hq]
  have : (s.stream k).state.ensureRecvOpen = .error e := by
    unfold State.ensureRecvOpen; rw [he]
  simp only [this]

/-- `poll_trailers` hands out the trailers at the head of the queue -/
theorem recvPollTrailers_head (s : Streams) (k : Nat) (t : String) (f : Fields) (rest : List REvent)
    (h : (s.stream k).pendingRecv = .trailers f :: rest) :
    s.recvPollTrailers k t = (s.modStream k fun st => { st with pendingRecv := rest }, .trailers f) := by
  unfold Streams.recvPollTrailers; rw [h]

theorem recvPollTrailers_trailers {s : Streams} {k : Nat} {t : String} {f : Fields}
    (h : (s.recvPollTrailers k t).2 = .trailers f) : ∃ rest, (s.stream k).pendingRecv = .trailers f :: rest := by
  cases hq : (s.stream k).pendingRecv with
  | nil =>
    cases he : (s.stream k).state.ensureRecvOpen with
    | error e => simp [Streams.recvPollTrailers, Streams.scheduleRecv, hq, he] at h
    | ok v => cases v <;> simp [Streams.recvPollTrailers, Streams.scheduleRecv, hq, he] at h
  | cons e rest =>
    cases e <;> simp [Streams.recvPollTrailers, hq] at h
    subst h
    exact ⟨rest, rfl⟩

/-- "no trailers" is reported only with an empty queue and a receive half that ended with END_STREAM -/
theorem recvPollTrailers_none {s : Streams} {k : Nat} {t : String} (h : (s.recvPollTrailers k t).2 = .none) :
    (s.stream k).pendingRecv = [] ∧
      ((s.stream k).state.isRecvEndStream = true ∨ H2V.Lemmas.Comp.phase (s.stream k).state = .reservedLocal) := by
  cases hq : (s.stream k).pendingRecv with
  | nil =>
    refine ⟨rfl, ?_⟩
    cases he : (s.stream k).state.ensureRecvOpen with
    | error e => simp [Streams.recvPollTrailers, Streams.scheduleRecv, hq, he] at h
    | ok v =>
      cases v
      · exact (H2V.Lemmas.Comp.ensureRecvOpen_false_iff _).mp he
      · simp [Streams.recvPollTrailers, Streams.scheduleRecv, hq, he] at h
  | cons e rest =>
    cases e <;> simp [Streams.recvPollTrailers, hq] at h

end H2V.Lemmas.ConnFidP
