import H2V.Lemmas.ConnCtlPTrace
/-
  ConnCtlP, part 1b — `Streams::apply_remote_settings` can only fail with a connection error
  (`Error::GoAway`, FLOW_CONTROL_ERROR), never with a stream error: errors of `try_for_each` are
  errors of its closure.
-/
set_option autoImplicit false
set_option linter.unusedSimpArgs false
namespace H2V.Lemmas.ConnCtlP
open H2V H2V.Model H2V.Model.Conn

theorem tryForEach_err (f : Streams → Nat → Streams × Option PErr) (P : PErr → Prop)
    (hf : ∀ s id e, (f s id).2 = some e → P e) :
    ∀ (fuel i len : Nat) (s : Streams) (e : PErr), (Streams.tryForEach f fuel i len s).2 = some e → P e := by
  intro fuel
  induction fuel with
  | zero => intro i len s e h; simp [Streams.tryForEach] at h
  | succ n ih =>
    intro i len s e h
    unfold Streams.tryForEach at h
    split at h
    · split at h
      · simp [Streams.panic] at h
      · rename_i id _
        rcases hfs : f s id with ⟨s', r⟩
        rw [hfs] at h
        cases r with
        | some e' =>
          simp at h
          subst h
          exact hf s id e' (by rw [hfs])
        | none =>
          dsimp only at h
          split at h
          · exact ih _ _ _ _ h
          · exact ih _ _ _ _ h
    · simp at h

theorem tryForEachAcc_err (f : Nat → Streams → Nat → Streams × Nat × Option PErr) (P : PErr → Prop)
    (hf : ∀ acc s id e, (f acc s id).2.2 = some e → P e) :
    ∀ (fuel i len acc : Nat) (s : Streams) (e : PErr), (Streams.tryForEachAcc f fuel i len acc s).2.2 = some e → P e := by
  intro fuel
  induction fuel with
  | zero => intro i len acc s e h; simp [Streams.tryForEachAcc] at h
  | succ n ih =>
    intro i len acc s e h
    unfold Streams.tryForEachAcc at h
    split at h
    · split at h
      · simp [Streams.panic] at h
      · rename_i id _
        rcases hfs : f acc s id with ⟨s', acc', r⟩
        rw [hfs] at h
        cases r with
        | some e' =>
          simp at h
          subst h
          exact hf acc s id e' (by rw [hfs])
        | none =>
          dsimp only at h
          split at h
          · exact ih _ _ _ _ _ h
          · exact ih _ _ _ _ _ h
    · simp at h

def IsGoAwayErr (e : PErr) : Prop := ∃ d r i, e = .goAway d r i

theorem decStreamWindow_err (dec acc : Nat) (s : Streams) (id : Nat) (e : PErr)
    (h : (Streams.decStreamWindow dec acc s id).2.2 = some e) : IsGoAwayErr e := by
  unfold Streams.decStreamWindow at h
  dsimp only at h
  (repeat' split at h) <;> simp at h <;> exact ⟨_, _, _, h.symm⟩

/-- the SETTINGS_INITIAL_WINDOW_SIZE part of `Send::apply_remote_settings` (a copy of the model's code) -/
def sarsWindowE (s : Streams) (val : Nat) : Streams × Option PErr :=
  let oldVal := s.actions.send.initWindowSz
  let s := s.modSend fun sd => { sd with initWindowSz := val }
  if val < oldVal then
    let dec := oldVal - val
    match Streams.tryForEachAcc (Streams.decStreamWindow dec) (2 * s.store.ids.length + 1) 0 s.store.ids.length 0 s with
    | (s, _, some e) => (s, some e)
    | (s, total, none) => (s.assignConnectionCapacity total, none)
  else if val > oldVal then
    let inc := val - oldVal
    s.storeTryForEach fun s id =>
      match s.sendRecvStreamWindowUpdate id inc with
      | (s, .error r) => (s, some (PErr.libraryGoAway r))
      | (s, .ok _) => (s, none)
  else (s, none)

def sarsConnectE (s : Streams) (enableConnect : Option Nat) : Streams :=
  match enableConnect with
  | some v => s.modSend fun sd => { sd with isExtendedConnectProtocolEnabled := v != 0 }
  | none => s

theorem sendApplyRemoteSettings_eqE (s : Streams) (a b c : Option Nat) :
    s.sendApplyRemoteSettings a b c =
      (let (s, res) : Streams × Option PErr :=
        match a with
        | none => (sarsConnectE s c, none)
        | some val => sarsWindowE (sarsConnectE s c) val
      match res with
      | some e => (s, .error e)
      | none =>
        let s := match b with
          | some v => s.modSend fun sd => { sd with isPushEnabled := v != 0 }
          | none => s
        (s, .ok ())) := by
  cases a <;> rfl

theorem sarsWindowE_err (s : Streams) (val : Nat) (e : PErr) (h : (sarsWindowE s val).2 = some e) : IsGoAwayErr e := by
  unfold sarsWindowE at h
  dsimp only at h
  split at h
  · split at h
    · rename_i s2 acc2 e2 htf
      simp at h
      subst h
      exact tryForEachAcc_err _ IsGoAwayErr (fun acc s id e h => decStreamWindow_err _ acc s id e h) _ _ _ _ _ _ (by rw [htf])
    · simp at h
  · split at h
    · unfold Streams.storeTryForEach at h
      refine tryForEach_err _ IsGoAwayErr ?_ _ _ _ _ e h
      intro s id e he
      split at he
      · simp at he; exact ⟨_, _, _, he.symm⟩
      · simp at he
    · simp at h

theorem sendApplyRemoteSettings_err (s : Streams) (a b c : Option Nat) (e : PErr)
    (h : (s.sendApplyRemoteSettings a b c).2 = .error e) : IsGoAwayErr e := by
  rw [sendApplyRemoteSettings_eqE] at h
  cases a with
  | none => simp at h
  | some val =>
    dsimp only at h
    rcases hw : sarsWindowE (sarsConnectE s c) val with ⟨s1, r⟩
    rw [hw] at h
    cases r with
    | none => simp at h
    | some e' =>
      simp at h
      subst h
      exact sarsWindowE_err _ val e' (by rw [hw])

theorem ackAndApply_err (c : Conn) (v : List (Nat × Nat)) (e : PErr) (h : (ackAndApply c v).2 = .err e) :
    IsGoAwayErr e := by
  unfold ackAndApply at h
  dsimp only at h
  split at h
  · rename_i s e' hres
    simp at h
    subst h
    exact sendApplyRemoteSettings_err _ _ _ _ e' (by unfold Streams.applyRemoteSettings at hres; rw [hres])
  · simp at h

theorem applyRemoteSettings_err (s : Streams) (vals : List (Nat × Nat)) (b : Bool) (e : PErr)
    (h : (s.applyRemoteSettings vals b).2 = .error e) : IsGoAwayErr e :=
  sendApplyRemoteSettings_err _ _ _ _ e h

end H2V.Lemmas.ConnCtlP
