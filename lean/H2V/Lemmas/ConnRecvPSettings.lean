import H2V.Lemmas.ConnRecvPUpdate
/-
  C03 — part 9: `Recv::apply_local_settings` (the peer acknowledged our SETTINGS): every stream in
  the id map has its receive window and `available` shifted by `new − old` initial window size.
  * whatever happens, the connection-level invariant holds (`Inv false`);
  * when the call succeeds, the stream-level invariant holds again with the new initial window size.
  The loop is `Store::try_for_each` over the id map by index; `LInv` is the loop invariant: the
  streams whose key has been visited balance against the new size, the others against the old one.
-/
namespace H2V.Lemmas.ConnRecvP
open H2V H2V.Model H2V.Model.Conn
open H2V.Model.Conn.Streams
open H2V.Lemmas.Comp
attribute [local irreducible] wrapSubU32 wrapSubUsize

/-- `Store::try_for_each` preserves every predicate that its step preserves -/
theorem tryForEach_pred (P : Streams → Prop) (f : Streams → Nat → Streams × Option PErr)
    (hf : ∀ s id, P s → P (f s id).1) (hpanic : ∀ s m, P s → P (s.panic m))
    (n i len : Nat) (s : Streams) (h : P s) : P (tryForEach f n i len s).1 := by
  induction n generalizing i len s with
  | zero => unfold tryForEach; exact h
  | succ n ih =>
    unfold tryForEach
    split
    · split
      · exact hpanic _ _ h
      · next sid id _ =>
        have h1 := hf s id h
        cases hfs : f s id with
        | mk s1 r =>
          rw [hfs] at h1
          cases r with
          | some e => exact h1
          | none =>
            dsimp only
            split
            · exact ih _ _ _ h1
            · exact ih _ _ _ h1
    · exact h

/-- the ghost after an acknowledged SETTINGS_INITIAL_WINDOW_SIZE -/
def Ghost.setInit (g : Ghost) (target : Nat) : Ghost := { g with hiInit := max g.hiInit target }

/-- what `Inv` says about one stream apart from its budget -/
structure StreamBasic (hiInit : Nat) (x : Stream) : Prop where
  wI32 : inI32 x.recvFlow.windowSize.val = true
  aI32 : inI32 x.recvFlow.available.val = true
  wa : x.recvFlow.windowSize.val ≤ x.recvFlow.available.val
  live : x.state.isClosed = true ∨
    (x.recvFlow.available.val - x.recvFlow.windowSize.val + (x.inFlightRecvData : Int) ≤ (hiInit : Int) ∧
     x.recvFlow.available.val + (x.inFlightRecvData : Int) ≤ (hiInit : Int))

/-- loop invariant of `apply_local_settings`: `done` are the keys already visited -/
structure LInv (g : Ghost) (oldSz target : Nat) (done todo : List Nat) (s : Streams) : Prop where
  base : Inv false g s
  basic : ∀ x ∈ s.store.slab, StreamBasic g.hiInit x
  hdone : ∀ x ∈ s.store.slab, x.key ∈ done → Bud x target
  htodo : ∀ x ∈ s.store.slab, x.key ∈ todo → Bud x oldSz
  keysLt : ∀ k, k ∈ done ∨ k ∈ todo → k < s.store.nextKey

theorem Bud.of_same {x x' : Stream} {init : Nat} (hs : SameR x x') (h : Bud x init) : Bud x' init := by
  rcases h with hc | hb
  · exact .inl (hs.closed hc)
  · right; rw [hs.flow, hs.infl]; exact ⟨hb.1, fun hr => hb.2 (hs.recv hr)⟩

theorem StreamBasic.of_same {x x' : Stream} {hi : Nat} (hs : SameR x x') (h : StreamBasic hi x) : StreamBasic hi x' := by
  refine ⟨by rw [hs.flow]; exact h.wI32, by rw [hs.flow]; exact h.aI32, by rw [hs.flow]; exact h.wa, ?_⟩
  rcases h.live with hc | hl
  · exact .inl (hs.closed hc)
  · exact .inr (by rw [hs.flow, hs.infl]; exact hl)

theorem LInv.of_ext {g : Ghost} {oldSz target : Nat} {done todo : List Nat} {s s' : Streams}
    (h : LInv g oldSz target done todo s) (e : Ext s s') : LInv g oldSz target done todo s' := by
  have hk := h.base.keys
  have hinit : s.recv.initWindowSz ≤ 2147483647 := Nat.le_trans h.base.initHi h.base.initMax
  refine ⟨h.base.of_ext e, ?_, ?_, ?_, fun k hkk => Nat.lt_of_lt_of_le (h.keysLt k hkk) e.nk⟩
  · intro x' hx'
    rcases e.slab hk x' hx' with ⟨x, hx, hs⟩ | hfr
    · exact (h.basic x hx).of_same hs
    · rcases hfr.flow with hfl | ⟨hfl, hc⟩
      · rw [newRecvFlow_eq hinit] at hfl
        have hI := h.base.initHi
        have hM := h.base.initMax
        refine ⟨?_, ?_, ?_, ?_⟩
        · rw [hfl]; apply inI32_of_range <;> simp <;> omega
        · rw [hfl]; apply inI32_of_range <;> simp <;> omega
        · rw [hfl]; exact Int.le_refl _
        · right; rw [hfl, hfr.infl]; simp; omega
      · rw [newRecvFlow_zero] at hfl
        refine ⟨?_, ?_, ?_, .inl hc⟩
        · rw [hfl]; decide
        · rw [hfl]; decide
        · rw [hfl]; exact Int.le_refl _
  · intro x' hx' hd
    rcases e.slab hk x' hx' with ⟨x, hx, hs⟩ | hfr
    · exact (h.hdone x hx (by rw [← hs.key]; exact hd)).of_same hs
    · have := h.keysLt x'.key (.inl hd)
      have := hfr.key
      omega
  · intro x' hx' hd
    rcases e.slab hk x' hx' with ⟨x, hx, hs⟩ | hfr
    · exact (h.htodo x hx (by rw [← hs.key]; exact hd)).of_same hs
    · have := h.keysLt x'.key (.inr hd)
      have := hfr.key
      omega

/-- the visited stream: window and `available` both move by `target − oldSz` -/
theorem LInv.shift {g : Ghost} {oldSz target : Nat} {done todo : List Nat} {s : Streams} {k : Nat} {fl : FlowControl}
    (h : LInv g oldSz target done (k :: todo) s) (hkd : k ∉ done) (hkt : k ∉ todo) (htg : target ≤ g.hiInit)
    (hfl : ∀ x, s.store.get? k = some x →
      fl.windowSize.val = x.recvFlow.windowSize.val + (target : Int) - (oldSz : Int) ∧
      fl.available.val = x.recvFlow.available.val + (target : Int) - (oldSz : Int) ∧
      inI32 fl.windowSize.val = true ∧ inI32 fl.available.val = true) :
    LInv g oldSz target (done ++ [k]) todo (s.modStream k fun st => { st with recvFlow := fl }) := by
  unfold Streams.modStream
  split
  · next x hx =>
    have hxm := get?_mem hx
    have hf := hfl x hx
    have hbase : Inv false g (s.setStream { x with recvFlow := fl }) :=
      h.base.setStream (x := x) (by rw [hxm.2]; exact hx) rfl (Int.le_refl _) (fun hc => by cases hc)
    have hslab : ∀ y' ∈ (s.setStream { x with recvFlow := fl }).store.slab,
        (y' = { x with recvFlow := fl } ∧ y'.key = k) ∨ (y' ∈ s.store.slab ∧ y'.key ≠ k) := by
      intro y' hy'
      have hy'' : y' ∈ s.store.slab.map fun y => if y.key == ({ x with recvFlow := fl } : Stream).key then { x with recvFlow := fl } else y := hy'
      obtain ⟨y, hy, rfl⟩ := List.mem_map.1 hy''
      by_cases hc : y.key = x.key
      · left
        have : (y.key == ({ x with recvFlow := fl } : Stream).key) = true := by simpa using hc
        rw [if_pos this]
        exact ⟨rfl, hxm.2⟩
      · right
        have : (y.key == ({ x with recvFlow := fl } : Stream).key) = false := by simpa using hc
        rw [if_neg (by rw [this]; exact Bool.false_ne_true)]
        exact ⟨hy, by rw [← hxm.2]; exact hc⟩
    refine ⟨hbase, ?_, ?_, ?_, ?_⟩
    · intro y' hy'
      rcases hslab y' hy' with ⟨rfl, -⟩ | ⟨hy, -⟩
      · have hb := h.basic x hxm.1
        have hbud := h.htodo x hxm.1 (by rw [hxm.2]; exact List.mem_cons_self)
        refine ⟨hf.2.2.1, hf.2.2.2, ?_, ?_⟩
        · show fl.windowSize.val ≤ fl.available.val
          rw [hf.1, hf.2.1]; have := hb.wa; omega
        · rcases hb.live with hc | hl
          · exact .inl hc
          · rcases hbud with hc | hbb
            · exact .inl hc
            · right
              show fl.available.val - fl.windowSize.val + (x.inFlightRecvData : Int) ≤ _ ∧
                fl.available.val + (x.inFlightRecvData : Int) ≤ _
              rw [hf.1, hf.2.1]
              have := hbb.1
              omega
      · exact h.basic y' hy
    · intro y' hy' hd
      rcases hslab y' hy' with ⟨rfl, -⟩ | ⟨hy, hne⟩
      · -- the visited stream now balances against the new size
        have hbud := h.htodo x hxm.1 (by rw [hxm.2]; exact List.mem_cons_self)
        rcases hbud with hc | hbb
        · exact .inl hc
        · right
          show fl.available.val + (x.inFlightRecvData : Int) ≤ _ ∧ (x.isRecv = true → fl.available.val + (x.inFlightRecvData : Int) = _)
          rw [hf.2.1]
          have h1 := hbb.1
          refine ⟨by omega, fun hr => ?_⟩
          have h2 := hbb.2 hr
          omega
      · rcases List.mem_append.1 hd with hd | hd
        · exact h.hdone y' hy hd
        · simp only [List.mem_singleton] at hd; exact absurd hd hne
    · intro y' hy' hd
      rcases hslab y' hy' with ⟨rfl, hk'⟩ | ⟨hy, -⟩
      · exfalso; apply hkt; rw [← hk']; exact hd
      · exact h.htodo y' hy (List.mem_cons_of_mem _ hd)
    · intro k' hk'
      show k' < s.store.nextKey
      rcases hk' with hk' | hk'
      · rcases List.mem_append.1 hk' with hk' | hk'
        · exact h.keysLt k' (.inl hk')
        · simp only [List.mem_singleton] at hk'; subst hk'; exact h.keysLt _ (.inr List.mem_cons_self)
      · exact h.keysLt k' (.inr (List.mem_cons_of_mem _ hk'))
  · next hn =>
    -- a dangling id-map entry: nothing to shift, no slab entry has this key
    have hnone : ∀ y ∈ s.store.slab, y.key ≠ k := by
      intro y hy hc
      have := List.find?_eq_none.1 (show s.store.slab.find? (·.key == k) = none from hn) y hy
      simp [hc] at this
    have h' : LInv g oldSz target (done ++ [k]) todo s := by
      refine ⟨h.base, h.basic, ?_, ?_, ?_⟩
      · intro y hy hd
        rcases List.mem_append.1 hd with hd | hd
        · exact h.hdone y hy hd
        · simp only [List.mem_singleton] at hd; exact absurd hd (hnone y hy)
      · intro y hy hd; exact h.htodo y hy (List.mem_cons_of_mem _ hd)
      · intro k' hk'
        rcases hk' with hk' | hk'
        · rcases List.mem_append.1 hk' with hk' | hk'
          · exact h.keysLt k' (.inl hk')
          · simp only [List.mem_singleton] at hk'; subst hk'; exact h.keysLt _ (.inr List.mem_cons_self)
        · exact h.keysLt k' (.inr (List.mem_cons_of_mem _ hk'))
    exact h'.of_ext (panic_ext _ _)

/-- the loop: when `try_for_each` ends without an error, every key of the id map has been visited -/
theorem tryForEach_linv (f : Streams → Nat → Streams × Option PErr) (g : Ghost) (oldSz target : Nat)
    (hstep : ∀ s k s' done todo, f s k = (s', none) → LInv g oldSz target done (k :: todo) s → k ∉ done → k ∉ todo →
      LInv g oldSz target (done ++ [k]) todo s' ∧ s'.store.ids = s.store.ids)
    (n i : Nat) (s : Streams) (hi : i ≤ s.store.ids.length) (hn : n > s.store.ids.length - i)
    (hnd : (s.store.ids.map (·.2)).Nodup)
    (h : LInv g oldSz target ((s.store.ids.take i).map (·.2)) ((s.store.ids.drop i).map (·.2)) s)
    (hres : (tryForEach f n i s.store.ids.length s).2 = none) :
    LInv g oldSz target (s.store.ids.map (·.2)) [] (tryForEach f n i s.store.ids.length s).1 ∧
    (tryForEach f n i s.store.ids.length s).1.store.ids = s.store.ids := by
  induction n generalizing i s with
  | zero => omega
  | succ n ih =>
    unfold tryForEach at hres ⊢
    by_cases hlt : i < s.store.ids.length
    · simp only [hlt, if_true] at hres ⊢
      have hget : s.store.ids[i]? = some s.store.ids[i] := List.getElem?_eq_getElem hlt
      cases hp : s.store.ids[i] with
      | mk sid k =>
        rw [hget, hp] at hres ⊢
        dsimp only at hres ⊢
        cases hfs : f s k with
        | mk s1 r =>
          rw [hfs] at hres
          cases r with
          | some e => cases hres
          | none =>
            dsimp only at hres ⊢
            have hdrop : s.store.ids.drop i = (sid, k) :: s.store.ids.drop (i + 1) := by
              rw [List.drop_eq_getElem_cons hlt, hp]
            have htake : s.store.ids.take (i + 1) = s.store.ids.take i ++ [(sid, k)] := by
              rw [List.take_succ_eq_append_getElem hlt, hp]
            -- the key is neither among the visited ones nor further down
            have hsplit : s.store.ids.map (·.2) =
                (s.store.ids.take i).map (·.2) ++ k :: (s.store.ids.drop (i + 1)).map (·.2) := by
              conv => lhs; rw [← List.take_append_drop i s.store.ids, hdrop]
              simp
            rw [hsplit] at hnd
            have hnd' := List.nodup_append.1 hnd
            have hkd : k ∉ (s.store.ids.take i).map (·.2) := fun hc => hnd'.2.2 k hc k List.mem_cons_self rfl
            have hkt : k ∉ (s.store.ids.drop (i + 1)).map (·.2) := (List.nodup_cons.1 hnd'.2.1).1
            rw [hdrop, List.map_cons] at h
            obtain ⟨h1, hids1⟩ := hstep s k s1 _ _ hfs h hkd hkt
            have hlen : ¬ (s1.store.ids.length < s.store.ids.length) := by rw [hids1]; omega
            simp only [hlen, if_false] at hres ⊢
            have key := ih (i + 1) s1 (by rw [hids1]; omega) (by rw [hids1]; omega)
              (by rw [hids1, hsplit]; exact hnd)
              (by rw [hids1, htake, List.map_append]; exact h1)
              (by rw [hids1]; exact hres)
            rw [hids1] at key
            exact key
    · simp only [hlt, if_false] at hres ⊢
      have : i = s.store.ids.length := by omega
      subst this
      rw [List.take_length, List.drop_length] at h
      first | exact ⟨h, rfl⟩ | exact ⟨h, trivial⟩

/-- the step of the `Less` branch of `apply_local_settings` -/
def decF (dec : Nat) (s : Streams) (id : Nat) : Streams × Option PErr :=
  match (s.stream id).recvFlow.decRecvWindow dec with
  | (fl, .error _) => (s.modStream id fun st => { st with recvFlow := fl }, some (PErr.libraryGoAway FLOW_CONTROL_ERROR))
  | (fl, .ok _) =>
    let s := s.modStream id fun st => { st with recvFlow := fl }
    if fl.unclaimedCapacity.isSome then ((s.qPush .pendingWindowUpdates id).1, none) else (s, none)

/-- the step of the `Greater` branch -/
def incF (inc : Nat) (s : Streams) (id : Nat) : Streams × Option PErr :=
  match (s.stream id).recvFlow.incWindow inc with
  | (_, .error _) => (s, some (PErr.libraryGoAway FLOW_CONTROL_ERROR))
  | (fl, .ok _) =>
    match fl.assignCapacity inc with
    | (fl2, .error _) => (s.modStream id fun st => { st with recvFlow := fl2 }, some (PErr.libraryGoAway FLOW_CONTROL_ERROR))
    | (fl2, .ok _) => (s.modStream id fun st => { st with recvFlow := fl2 }, none)

/-- `apply_local_settings` with the two steps named -/
def applyLocalSettings' (s : Streams) (initialWindowSize enableConnect : Option Nat) : Streams × Except PErr Unit :=
  let s := match enableConnect with
    | some v => s.modRecv fun r => { r with isExtendedConnectProtocolEnabled := v != 0 }
    | none => s
  match initialWindowSize with
  | none => (s, .ok ())
  | some target =>
    let oldSz := s.recv.initWindowSz
    let s := s.modRecv fun r => { r with initWindowSz := target }
    let p : Streams × Option PErr :=
      if target < oldSz then s.storeTryForEach (decF (oldSz - target))
      else if target > oldSz then s.storeTryForEach (incF (target - oldSz))
      else (s, none)
    match p.2 with
    | some e => (p.1, .error e)
    | none => (p.1, .ok ())

theorem applyLocalSettings_eq' (s : Streams) (a b : Option Nat) : s.applyLocalSettings a b = applyLocalSettings' s a b := by
  unfold Streams.applyLocalSettings applyLocalSettings'
  rfl

theorem modStream_ids (s : Streams) (id : Nat) (f : Stream → Stream) : (s.modStream id f).store.ids = s.store.ids := by
  unfold Streams.modStream; split
  · rfl
  · rw [panic_store]

theorem setQ_store (s : Streams) (q : QName) (l : List Nat) : (s.setQ q l).store = s.store := by
  cases q <;> rfl

theorem qPush_ids (s : Streams) (q : QName) (id : Nat) : (s.qPush q id).1.store.ids = s.store.ids := by
  unfold Streams.qPush; split
  · rfl
  · show ((s.modStream id _).setQ q _).store.ids = _
    rw [setQ_store, modStream_ids]

/-- changing a stream's receive `FlowControl` cannot disturb the connection-level invariant -/
theorem Inv.false_modStream_flow {g : Ghost} {s : Streams} (h : Inv false g s) (id : Nat) (fl : FlowControl) :
    Inv false g (s.modStream id fun st => { st with recvFlow := fl }) :=
  h.modStream id _ (fun _ => Int.le_refl _) (fun _ => rfl) (fun _ _ => Int.le_refl _) (fun hc => by cases hc)

theorem decF_false {g : Ghost} (dec : Nat) (s : Streams) (id : Nat) (h : Inv false g s) : Inv false g (decF dec s id).1 := by
  unfold decF
  split
  · exact h.false_modStream_flow id _
  · dsimp only
    split
    · exact (h.false_modStream_flow id _).of_ext (qPush_ext _ _ _)
    · exact h.false_modStream_flow id _

theorem incF_false {g : Ghost} (inc : Nat) (s : Streams) (id : Nat) (h : Inv false g s) : Inv false g (incF inc s id).1 := by
  unfold incF
  split
  · exact h
  · split
    · exact h.false_modStream_flow id _
    · exact h.false_modStream_flow id _

theorem decF_step {g : Ghost} {oldSz target : Nat} (hlt : target < oldSz) (hM : oldSz ≤ 2147483647) (htg : target ≤ g.hiInit)
    (s : Streams) (k : Nat) (s' : Streams) (done todo : List Nat)
    (hf : decF (oldSz - target) s k = (s', none)) (h : LInv g oldSz target done (k :: todo) s)
    (hkd : k ∉ done) (hkt : k ∉ todo) :
    LInv g oldSz target (done ++ [k]) todo s' ∧ s'.store.ids = s.store.ids := by
  have hu : u32AsI32 (oldSz - target) = (oldSz : Int) - (target : Int) := by
    rw [u32AsI32_of_lt (by omega)]; omega
  unfold decF at hf
  split at hf
  · cases hf
  · next fl _ hdec =>
    have hshift : LInv g oldSz target (done ++ [k]) todo (s.modStream k fun st => { st with recvFlow := fl }) := by
      refine h.shift hkd hkt htg fun x hx => ?_
      rw [stream_eq_of_get? hx] at hdec
      have hok := decRecvWindow_ok hdec
      rw [hu] at hok
      exact ⟨by rw [hok.1]; omega, by rw [hok.2.1]; omega, hok.2.2.1, hok.2.2.2⟩
    dsimp only at hf
    split at hf
    · cases hf
      exact ⟨hshift.of_ext (qPush_ext _ _ _), by rw [qPush_ids, modStream_ids]⟩
    · cases hf
      exact ⟨hshift, modStream_ids _ _ _⟩

theorem incF_step {g : Ghost} {oldSz target : Nat} (hlt : oldSz < target) (hM : target ≤ 2147483647) (htg : target ≤ g.hiInit)
    (s : Streams) (k : Nat) (s' : Streams) (done todo : List Nat)
    (hf : incF (target - oldSz) s k = (s', none)) (h : LInv g oldSz target done (k :: todo) s)
    (hkd : k ∉ done) (hkt : k ∉ todo) :
    LInv g oldSz target (done ++ [k]) todo s' ∧ s'.store.ids = s.store.ids := by
  have hu : u32AsI32 (target - oldSz) = (target : Int) - (oldSz : Int) := by
    rw [u32AsI32_of_lt (by omega)]; omega
  unfold incF at hf
  split at hf
  · cases hf
  · next fl _ hinc =>
    split at hf
    · cases hf
    · next fl2 _ hass =>
      cases hf
      refine ⟨h.shift hkd hkt htg fun x hx => ?_, modStream_ids _ _ _⟩
      rw [stream_eq_of_get? hx] at hinc
      have h1 := incWindow_ok hinc
      have h2 := assignCapacity_ok hass
      rw [hu] at h1 h2
      refine ⟨by rw [h2.2.2, h1.1]; omega, by rw [h2.1, h1.2.2.2]; omega, by rw [h2.2.2]; exact h1.2.2.1, h2.2.1⟩

/-- the ghost after `apply_local_settings(frame)` -/
def Ghost.afterSettings (g : Ghost) : Option Nat → Ghost
  | some t => g.setInit t
  | none => g

/-- start and end of the loop: `Inv` for the old size is `LInv` with nothing visited, `LInv` with
    everything visited is `Inv` for the new size -/
theorem LInv.start {full : Bool} {g : Ghost} {s : Streams} (h : Inv full g s) (hf : full = true) (target : Nat)
    (ht : target ≤ 2147483647) :
    LInv (g.setInit target) s.recv.initWindowSz target [] (s.store.ids.map (·.2))
      (s.modRecv fun r => { r with initWindowSz := target }) := by
  have hb : Inv false (g.setInit target) (s.modRecv fun r => { r with initWindowSz := target }) := by
    have h' := h.drop_full
    refine ⟨h'.keys, h'.wI32, h'.aI32, h'.cons, h'.w0, h'.wI, h'.tHi, h'.hiMax, h'.sum, ?_, ?_, fun hc => by cases hc⟩
    · show target ≤ max g.hiInit target; omega
    · show max g.hiInit target ≤ 2147483647; have := h.initMax; omega
  refine ⟨hb, ?_, (fun _ _ hd => by cases hd), ?_, ?_⟩
  · intro x hx
    have ok := h.streams hf x hx
    refine ⟨ok.wI32, ok.aI32, ok.wa, ?_⟩
    rcases ok.live with hc | hl
    · exact .inl hc
    · right
      show _ ≤ ((max g.hiInit target : Nat) : Int) ∧ _ ≤ ((max g.hiInit target : Nat) : Int)
      omega
  · intro x hx hd
    exact (h.streams hf x hx).bud hd
  · intro k hk
    rcases hk with hk | hk
    · cases hk
    · obtain ⟨p, hp, rfl⟩ := List.mem_map.1 hk
      exact h.keys.idsLt p hp

theorem LInv.finish {g : Ghost} {oldSz target : Nat} {s : Streams}
    (h : LInv g oldSz target (s.store.ids.map (·.2)) [] s) (hinit : s.recv.initWindowSz = target) : Inv true g s :=
  ⟨h.base.keys, h.base.wI32, h.base.aI32, h.base.cons, h.base.w0, h.base.wI, h.base.tHi, h.base.hiMax, h.base.sum,
   h.base.initHi, h.base.initMax, fun _ x hx =>
    ⟨(h.basic x hx).wI32, (h.basic x hx).aI32, (h.basic x hx).wa, (h.basic x hx).live,
     fun hl => by rw [hinit]; exact h.hdone x hx hl⟩⟩

theorem storeTryForEach_init (f : Streams → Nat → Streams × Option PErr)
    (hf : ∀ s id, (f s id).1.recv.initWindowSz = s.recv.initWindowSz) (s : Streams) :
    (s.storeTryForEach f).1.recv.initWindowSz = s.recv.initWindowSz := by
  unfold Streams.storeTryForEach
  exact tryForEach_pred (fun s' => s'.recv.initWindowSz = s.recv.initWindowSz) f
    (fun s' id h => by rw [hf]; exact h) (fun s' m h => by show (s'.panic m).actions.recv.initWindowSz = _; rw [panic_actions]; exact h)
    _ _ _ s rfl

theorem modStream_actions (s : Streams) (id : Nat) (f : Stream → Stream) : (s.modStream id f).actions = s.actions := by
  unfold Streams.modStream; split
  · rfl
  · rw [panic_actions]

theorem decF_init (dec : Nat) (s : Streams) (id : Nat) : (decF dec s id).1.recv.initWindowSz = s.recv.initWindowSz := by
  unfold decF
  split
  · show (s.modStream id _).actions.recv.initWindowSz = _; rw [modStream_actions]; rfl
  · dsimp only
    split
    · rw [(qPush_ext _ _ _).init]; show (s.modStream id _).actions.recv.initWindowSz = _; rw [modStream_actions]; rfl
    · show (s.modStream id _).actions.recv.initWindowSz = _; rw [modStream_actions]; rfl

theorem incF_init (inc : Nat) (s : Streams) (id : Nat) : (incF inc s id).1.recv.initWindowSz = s.recv.initWindowSz := by
  unfold incF
  split
  · rfl
  · split
    · show (s.modStream id _).actions.recv.initWindowSz = _; rw [modStream_actions]; rfl
    · show (s.modStream id _).actions.recv.initWindowSz = _; rw [modStream_actions]; rfl

/-- **`Recv::apply_local_settings`**: the connection-level invariant survives whatever happens; when
    the call succeeds the stream-level invariant holds for the new initial window size -/
theorem applyLocalSettings_inv {full : Bool} {g : Ghost} {s : Streams} (h : Inv full g s) (iws ec : Option Nat)
    (hv : ∀ t, iws = some t → t ≤ 2147483647) :
    Inv false (g.afterSettings iws) (s.applyLocalSettings iws ec).1 ∧
    ((s.applyLocalSettings iws ec).2 = .ok () → Inv full (g.afterSettings iws) (s.applyLocalSettings iws ec).1) := by
  rw [applyLocalSettings_eq']
  unfold applyLocalSettings'
  -- the extended CONNECT flag
  have h0 : Inv full g (match ec with
      | some v => s.modRecv fun r => { r with isExtendedConnectProtocolEnabled := v != 0 }
      | none => s) := by
    split
    · exact h.of_ext (modRecv_ext _ _ fun _ => ⟨rfl, rfl, rfl⟩)
    · exact h
  generalize (match ec with
      | some v => s.modRecv fun r => { r with isExtendedConnectProtocolEnabled := v != 0 }
      | none => s) = s0 at h0 ⊢
  cases iws with
  | none => exact ⟨h0.drop_full, fun _ => h0⟩
  | some target =>
    have ht := hv target rfl
    have hold : s0.recv.initWindowSz ≤ 2147483647 := Nat.le_trans h0.initHi h0.initMax
    dsimp only
    -- connection level, always
    have hA0 : Inv false (g.setInit target) (s0.modRecv fun r => { r with initWindowSz := target }) := by
      have h' := h0.drop_full
      refine ⟨h'.keys, h'.wI32, h'.aI32, h'.cons, h'.w0, h'.wI, h'.tHi, h'.hiMax, h'.sum, ?_, ?_, fun hc => by cases hc⟩
      · show target ≤ max g.hiInit target; omega
      · show max g.hiInit target ≤ 2147483647; have := h0.initMax; omega
    have hids1 : (s0.modRecv fun r => { r with initWindowSz := target }).store.ids = s0.store.ids := rfl
    have hinit1 : (s0.modRecv fun r => { r with initWindowSz := target }).recv.initWindowSz = target := rfl
    have hL0 : full = true → LInv (g.setInit target) s0.recv.initWindowSz target [] (s0.store.ids.map (·.2))
        (s0.modRecv fun r => { r with initWindowSz := target }) := fun hf => LInv.start h0 hf target ht
    have hnd : (s0.store.ids.map (·.2)).Nodup := h0.keys.idsNodup
    generalize (s0.modRecv fun r => { r with initWindowSz := target }) = s1 at hA0 hids1 hinit1 hL0 ⊢
    have htg : target ≤ (g.setInit target).hiInit := by show target ≤ max g.hiInit target; omega
    -- the two loops
    have hloop : ∀ (f : Streams → Nat → Streams × Option PErr),
        (∀ s id, Inv false (g.setInit target) s → Inv false (g.setInit target) (f s id).1) →
        (∀ s id, (f s id).1.recv.initWindowSz = s.recv.initWindowSz) →
        (∀ s k s' done todo, f s k = (s', none) → LInv (g.setInit target) s0.recv.initWindowSz target done (k :: todo) s →
          k ∉ done → k ∉ todo →
          LInv (g.setInit target) s0.recv.initWindowSz target (done ++ [k]) todo s' ∧ s'.store.ids = s.store.ids) →
        Inv false (g.setInit target) (s1.storeTryForEach f).1 ∧
        ((s1.storeTryForEach f).2 = none → Inv full (g.setInit target) (s1.storeTryForEach f).1) := by
      intro f hfA hfI hfS
      have hinitr := storeTryForEach_init f hfI s1
      unfold Streams.storeTryForEach at hinitr ⊢
      have hAr := tryForEach_pred (Inv false (g.setInit target)) f hfA (fun s m h => h.of_ext (panic_ext _ _))
        (2 * s1.store.ids.length + 1) 0 s1.store.ids.length s1 hA0
      refine ⟨hAr, fun hres => ?_⟩
      cases hfull : full with
      | false => exact hAr
      | true =>
        have hL := hL0 hfull
        rw [← hids1] at hL hnd
        have := tryForEach_linv f (g.setInit target) s0.recv.initWindowSz target hfS
          (2 * s1.store.ids.length + 1) 0 s1 (Nat.zero_le _) (by omega) hnd
          (by rw [List.take_zero, List.drop_zero]; exact hL) hres
        refine LInv.finish (by rw [this.2]; exact this.1) ?_
        rw [hinitr, hinit1]
    by_cases hlt : target < s0.recv.initWindowSz
    · simp only [hlt, if_true]
      obtain ⟨hA, hB⟩ := hloop (decF (s0.recv.initWindowSz - target)) (fun s id h => decF_false _ s id h)
        (decF_init _) (decF_step hlt hold htg)
      cases hr : (s1.storeTryForEach (decF (s0.recv.initWindowSz - target))).2 with
      | some e => exact ⟨hA, fun hc => by cases hc⟩
      | none => exact ⟨hA, fun _ => hB hr⟩
    · by_cases hgt : target > s0.recv.initWindowSz
      · simp only [hlt, hgt, if_true, if_false]
        obtain ⟨hA, hB⟩ := hloop (incF (target - s0.recv.initWindowSz)) (fun s id h => incF_false _ s id h)
          (incF_init _) (incF_step hgt ht htg)
        cases hr : (s1.storeTryForEach (incF (target - s0.recv.initWindowSz))).2 with
        | some e => exact ⟨hA, fun hc => by cases hc⟩
        | none => exact ⟨hA, fun _ => hB hr⟩
      · simp only [hlt, hgt, if_false]
        -- the size did not change
        have heq : target = s0.recv.initWindowSz := by omega
        refine ⟨hA0, fun _ => ?_⟩
        cases hfull : full with
        | false => exact hA0
        | true =>
          have hL := hL0 hfull
          rw [← hids1] at hL
          refine LInv.finish (oldSz := s0.recv.initWindowSz) ?_ hinit1
          refine ⟨hL.base, hL.basic, fun x hx hd => ?_, (fun _ _ hd => by cases hd), fun k hk => hL.keysLt k (.inr (by
            rcases hk with hk | hk
            · exact hk
            · cases hk))⟩
          rw [heq]; exact hL.htodo x hx hd

end H2V.Lemmas.ConnRecvP
