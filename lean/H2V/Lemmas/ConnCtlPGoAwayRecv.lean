import H2V.Lemmas.ConnCtlPGoAway
import H2V.Lemmas.ConnCtlPStore
/-
  ConnCtlP, part 9 — C15, single steps around a GOAWAY: frames above `max_stream_id` are ignored,
  a received GOAWAY fails the cut-off streams with the peer's reason and forbids new requests, the
  connection's result carries the peer's code and debug data, the stages of a graceful shutdown.
-/
set_option autoImplicit false
set_option linter.unusedSimpArgs false
namespace H2V.Lemmas.ConnCtlP
open H2V H2V.Model H2V.Model.Conn

-- ===================================================================== after sending GOAWAY(last)

/-- HEADERS on a stream above the id we announced: dropped, nothing changes, no error -/
theorem recvHeaders_above_max (s : Streams) (h : HeadersIn) (hm : h.sid > s.recv.maxStreamId) :
    s.recvHeaders h = (s, .ok ()) := by
  unfold Streams.recvHeaders
  simp [hm]

/-- RST_STREAM on a stream above the id we announced: dropped -/
theorem recvReset_above_max (s : Streams) (id : Nat) (r : Reason) (h0 : id ≠ 0) (hm : id > s.recv.maxStreamId) :
    s.recvReset id r = (s, .ok ()) := by
  unfold Streams.recvReset
  simp [h0, hm]

/-- DATA on a (necessarily unknown) stream above the id we announced: only connection-level flow
    control sees it (`ignore_data`), it is not a stream or connection error by itself -/
theorem recvData_above_max (s : Streams) (id : Nat) (payload : Bytes) (eos : Bool) (pad : Option Nat)
    (hk : s.store.findKey? id = none) (hm : id > s.recv.maxStreamId) :
    s.recvData id payload eos pad =
      (match s.ignoreData (usizeAsU32 (payload.length + (match pad with | some p => p + 1 | none => 0))) with
       | (s, .error e) => (s, .error e)
       | (s, .ok _) => (s, .ok ())) := by
  unfold Streams.recvData
  simp only [hk, hm, if_true]
  rfl

/-- PUSH_PROMISE on an initiating stream above the id announced: dropped (client) -/
theorem recvPushPromise_above_max (s : Streams) (id k : Nat) (h : HeadersIn) (hc : s.counts.isServer = false)
    (hk : s.store.findKey? id = some k) (hm : id > s.recv.maxStreamId) :
    s.recvPushPromise id h = (s, .ok ()) := by
  unfold Streams.recvPushPromise
  simp [hc, hk, hm]

/-- `DynConnection::go_away(last, e)` enforces what it announces: afterwards `max_stream_id = last` -/
theorem dynGoAway_max (c : Conn) (last : Nat) (e : Reason) :
    (c.dynGoAway last e).streams.recv.maxStreamId = last := by
  unfold Conn.dynGoAway
  dsimp only
  have : (c.streams.recvGoAway last).recv.maxStreamId = last := by
    unfold Streams.recvGoAway; dsimp only; split <;> rfl
  split
  · exact this
  · unfold Conn.panic Streams.panic
    dsimp only
    split <;> exact this

-- ===================================================================== receiving GOAWAY

/-- `Inner::recv_go_away`, literally: the `last_stream_id` check of `Send::recv_go_away`, then
    `handle_error(remote GOAWAY)` on exactly the locally initiated streams above `last_stream_id`
    (or still waiting to be opened), then `conn_error` -/
theorem recvGoAwayFrame_eq (s : Streams) (last : Nat) (reason : Reason) (debug : Bytes) :
    s.recvGoAwayFrame last reason debug =
      (if last > s.actions.send.maxStreamId then (s, .error (PErr.libraryGoAway PROTOCOL_ERROR))
       else
        let s := s.modSend fun sd => { sd with maxStreamId := last }
        let err := PErr.remoteGoAway debug reason
        let s := s.storeForEach fun s id =>
          let st := s.stream id
          if (st.id > last || st.isPendingOpen) && s.counts.isLocalInit st.id then
            (s.transition id fun s => ((s.recvHandleError id err).sendHandleError id, ())).1
          else s
        ({ s with actions := { s.actions with connError := some err } }, .ok ())) := by
  unfold Streams.recvGoAwayFrame Streams.sendRecvGoAway
  by_cases h : last > s.actions.send.maxStreamId
  · rw [if_pos h, if_pos h]
  · rw [if_neg h, if_neg h]

/-- a GOAWAY whose last-stream-id is above the one of an earlier GOAWAY: connection error
    PROTOCOL_ERROR, nothing changes -/
theorem recvGoAwayFrame_increasing (s : Streams) (last : Nat) (reason : Reason) (debug : Bytes)
    (h : last > s.actions.send.maxStreamId) :
    s.recvGoAwayFrame last reason debug = (s, .error (PErr.libraryGoAway PROTOCOL_ERROR)) := by
  rw [recvGoAwayFrame_eq, if_pos h]

/-- `Recv::handle_error` on a stream that exists: its state becomes `state.handle_error(err)` -/
theorem recvHandleError_state (s : Streams) (k : Nat) (err : PErr) (st : Stream) (h : s.store.get? k = some st) :
    ((s.recvHandleError k err).stream k).state = st.state.handleError err := by
  have n1 : ∀ st : Stream, (Stream.notifySend st).1.key = st.key ∧ (Stream.notifySend st).1.state = st.state := by
    intro st; unfold Stream.notifySend; dsimp only; (repeat' split) <;> exact ⟨rfl, rfl⟩
  have n2 : ∀ st : Stream, (Stream.notifyRecv st).1.key = st.key ∧ (Stream.notifyRecv st).1.state = st.state := by
    intro st; unfold Stream.notifyRecv; split <;> exact ⟨rfl, rfl⟩
  have n3 : ∀ st : Stream, (Stream.notifyPush st).1.key = st.key ∧ (Stream.notifyPush st).1.state = st.state := by
    intro st; unfold Stream.notifyPush; split <;> exact ⟨rfl, rfl⟩
  unfold Streams.recvHandleError
  dsimp only
  have h1 := stream_modStream s k (fun st => { st with state := st.state.handleError err }) st h rfl
  have h2 := stream_modStreamW _ k Stream.notifySend _ h1 (n1 _).1
  have h3 := stream_modStreamW _ k Stream.notifyRecv _ h2 (n2 _).1
  have h4 := stream_modStreamW _ k Stream.notifyPush _ h3 (n3 _).1
  rw [stream_of_get? _ k _ h4, (n3 _).2, (n2 _).2, (n1 _).2]

/-- what `state.handle_error(remote GOAWAY)` is: a stream that was not closed yet is now
    `Closed(Error(GoAway(debug, reason, Remote)))` (or `ErrorAfterEndStream` when the peer had
    finished sending), i.e. the application sees the peer's reason and debug data; a closed stream
    is untouched -/
theorem handleError_remoteGoAway (st : State) (debug : Bytes) (reason : Reason) :
    (st.isClosed = true → st.handleError (PErr.remoteGoAway debug reason) = st) ∧
    (st.isClosed = false →
      (st.handleError (PErr.remoteGoAway debug reason)).inner =
        .closed (if st.isRecvEndStream then .errorAfterEndStream (.goAway debug reason .remote)
                 else .error (.goAway debug reason .remote))) := by
  unfold State.handleError State.isClosed PErr.remoteGoAway
  cases h : st.inner <;> simp

/-- after a GOAWAY was received, new requests are refused with the peer's error: `send_request`
    fails as long as `conn_error` is set -/
theorem sendRequest_after_connError (s : Streams) (e : PErr) (h : s.actions.connError = some e)
    (isHead : Bool) (fields : List Hpack.Field) (eos : Bool) (pending : Option Nat) :
    s.sendRequest isHead fields eos pending = (s, .error (.proto e)) := by
  unfold Streams.sendRequest Streams.ensureNoConnError
  simp [h]

theorem pollPendingOpen_after_connError (s : Streams) (e : PErr) (h : s.actions.connError = some e)
    (pending : Option Nat) (tag : String) :
    s.pollPendingOpen pending tag = (s, .error (.proto e)) := by
  unfold Streams.pollPendingOpen Streams.ensureNoConnError
  simp [h]

-- ===================================================================== the connection's result

/-- `recv_frame(GOAWAY)` remembers the peer's frame in `error` -/
theorem recvFrame_goAway_error (c : Conn) (last code : Nat) (debug : Bytes) (s : Streams) (u : Unit)
    (h : c.streams.recvGoAwayFrame last code debug = (s, .ok u)) :
    c.recvFrame (some (.goAway last code debug)) =
      ({ c with streams := s, error := some { lastStreamId := last, reason := code, debugData := debug } }, .ok .continue) := by
  unfold Conn.recvFrame
  dsimp only
  rw [h]

/-- **the connection's result reports the peer's code and debug data**: `take_error` — what
    `Connection::poll` returns once the state is `Closed` — is `Ok` when neither side had an error,
    our own reason when only we had one, and otherwise the REMOTE GOAWAY error with the peer's
    reason and debug data -/
theorem takeError_spec (c : Conn) (ours : Reason) (i : Initiator) :
    (c.error = none → (c.takeError ours i).2 =
      if ours == NO_ERROR then .ok () else .error (.goAway [] ours i)) ∧
    (∀ f, c.error = some f → f.reason ≠ NO_ERROR →
      (c.takeError ours i).2 = .error (PErr.remoteGoAway f.debugData f.reason)) ∧
    (∀ f, c.error = some f → f.reason = NO_ERROR → (c.takeError ours i).2 =
      if ours == NO_ERROR then .ok () else .error (.goAway [] ours i)) := by
  unfold Conn.takeError
  refine ⟨fun h => ?_, fun f h hr => ?_, fun f h hr => ?_⟩
  · rw [h]; dsimp only; by_cases ho : (ours == NO_ERROR) = true <;> simp [ho]
  · rw [h]; dsimp only
    have : (f.reason == NO_ERROR) = false := by simpa using hr
    simp [this]
  · rw [h]; dsimp only
    have : (f.reason == NO_ERROR) = true := by simpa using hr
    by_cases ho : (ours == NO_ERROR) = true <;> simp [ho, this]

/-- in the `Closed` state `Connection::poll` answers `take_error` -/
theorem protoPoll_closed (fuel : Nat) (c : Conn) (r : Reason) (i : Initiator) (h : c.state = .closed r i) :
    Conn.protoPoll (fuel + 1) c = ((c.takeError r i).1, .ready (c.takeError r i).2) := by
  unfold Conn.protoPoll
  rw [h]

end H2V.Lemmas.ConnCtlP
