import H2V.Lemmas.ConnDrainPTurn
import H2V.Lemmas.ConnRecvPReach
import H2V.Lemmas.ConnDrainPCapE
/-
  ConnDrainP, part 11 — `SReach`: the stream-layer invariants of ConnFlowP (+ `CapInv`), ConnCountsP and ConnRecvP
  together, closed under every call the connection task makes (with the decoder's bounds on WINDOW_UPDATE
  increments and SETTINGS_INITIAL_WINDOW_SIZE); the frames `Codec::poll_next` yields meet those bounds
  (`pollNext_frameOk`).
-/
namespace H2V.Lemmas.ConnDrainP
open H2V H2V.Model H2V.Model.Conn
open H2V.Lemmas.ConnFlowP (FrameOk SettingsOk)

-- ===================================================================== frames handed over by the codec are bounded

theorem drain1_frame {r : CodecRead.Reader} {f : Frame.Frame} {rest : List CodecRead.Item}
    (h : (CodecRead.Reader.drain 1 r []).2.1 = .frame f :: rest) : FrameOk f := by
  unfold CodecRead.Reader.drain at h
  dsimp only at h
  split at h
  · cases h
  · cases h
  · split at h
    · cases h
    · (try dsimp only at h)
      split at h
      · next r2 g hd =>
        unfold CodecRead.Reader.drain at h
        simp only [List.nil_append, List.cons.injEq, CodecRead.Item.frame.injEq] at h
        rw [← h.1]
        exact ConnFlowP.decodeFrame_ok hd
      · unfold CodecRead.Reader.drain at h; cases h
      · cases h

theorem pollNext_frameOk (n : Nat) : ∀ (c c' : Codec) (tag : String) (f : Frame.Frame),
    pollNext n c tag = (c', .frame f) → FrameOk f := by
  induction n with
  | zero => intro c c' tag f h; cases h
  | succ n ih =>
    intro c c' tag f h
    unfold pollNext at h
    split at h
    · cases h
    · simp only at h
      split at h
      · next g rest hitems =>
        injection h with _ h
        injection h with h
        rw [← h]
        exact drain1_frame hitems
      · cases h
      · split at h
        · exact ih _ _ _ _ h
        · repeat' split at h
          all_goals cases h


-- ===================================================================== the stream-layer invariants of all families together

/-- the stream-layer invariants this family needs, from four families: `KInv` (ConnFlowP's send-flow safety and
    `u32` requests, plus `CapInv` — ConnDrainPCapA…E), ConnCountsP's key/next-id facts and queue ↔ flag consistency of
    `pending_send` / `pending_capacity` (as long as no `assert!` fired), ConnRecvP's connection-level receive-window
    invariant.  Kept in invariant form (not as the families' `Reach` predicates) so that any call with an `Ev` /
    `Ext` frame lemma can be added (`SReach.of_ev`), e.g. `poll_pushed`, which those `Reach` definitions predate. -/
structure SReach (s : Streams) : Prop where
  k : KInv s
  keys : ConnCountsP.KeysOK s
  nx : ConnCountsP.NextLocal s
  q : s.panicked = none → ConnCountsP.QOK .pendingSend s ∧ ConnCountsP.QOK .pendingCapacity s
  rv : ∃ g, ConnRecvP.Inv false g s

theorem SReach.pinv {s : Streams} (h : SReach s) (hp : s.panicked = none) : PInv s ∧ RangeOK s := by
  refine ⟨⟨h.k.safe, h.k.req, (h.q hp).1, (h.q hp).2⟩, ?_⟩
  obtain ⟨g, hi⟩ := h.rv
  have h1 := (Comp.inI32_iff _).1 hi.aI32
  have h2 := (Comp.inI32_iff _).1 hi.wI32
  exact ⟨h1.2, h2.1⟩

/-- what ConnCountsP's evolution relation keeps -/
theorem SReach.cnt_ev {s s' : Streams} (h : SReach s) (e : ConnCountsP.EvT s s') :
    ConnCountsP.KeysOK s' ∧ ConnCountsP.NextLocal s' ∧
    (s'.panicked = none → ConnCountsP.QOK .pendingSend s' ∧ ConnCountsP.QOK .pendingCapacity s') := by
  refine ⟨e.keysOK h.keys, e.nx.nextLocal h.nx, fun hp => ?_⟩
  have e1 := e.qstep .pendingSend (by decide)
  have e2 := e.qstep .pendingCapacity (by decide)
  have hq := h.q (ConnCountsP.panicked_none_of e1.mono hp)
  exact ⟨e1.ok hp hq.1, e2.ok hp hq.2⟩

/-- a call with frame lemmas of ConnCountsP (`Ev`) and ConnRecvP (`Ext`) -/
theorem SReach.of_ev {s s' : Streams} (h : SReach s) (hk : KInv s') (e : ConnCountsP.EvT s s') (x : ConnRecvP.Ext s s') :
    SReach s' := by
  obtain ⟨g, hi⟩ := h.rv
  have c := h.cnt_ev e
  exact ⟨hk, c.1, c.2.1, c.2.2, ⟨g, hi.of_ext x⟩⟩

/-- one call of the `Streams` API (a step of ConnCountsP's `ApiStep`, an `Op` of ConnRecvP) -/
theorem SReach.step {s s' : Streams} (h : SReach s) (hk : KInv s')
    (h2 : ConnCountsP.ApiStep s s') (op : ConnRecvP.Op) (hv : op.valid s) (he : op.apply s = s') : SReach s' := by
  obtain ⟨g, hi⟩ := h.rv
  have c := h.cnt_ev (h2.evT h.keys h.nx)
  exact ⟨hk, c.1, c.2.1, c.2.2, ⟨_, he ▸ (op.step_inv hi hv).1⟩⟩

/-- states the three `Reach` predicates accept satisfy it (used for the fresh connection) -/
theorem SReach.of_reach {s : Streams} (hk : KInv s) (hc : ConnCountsP.Reach s) {g : ConnRecvP.Ghost} (hr : ConnRecvP.Reach g s) :
    SReach s :=
  ⟨hk, hc.inv.1, hc.inv.2.1, fun hp => ⟨hc.qok hp _ (by decide), hc.qok hp _ (by decide)⟩, ⟨g, ConnRecvP.reach_inv hr⟩⟩

section
variable {s : Streams} (h : SReach s)
include h

theorem SReach.recvHeaders (hd : HeadersIn) : SReach (s.recvHeaders hd).1 :=
  h.step (h.k.recvHeaders hd) (.recvHeaders s hd) (.recvHeaders hd) trivial rfl
theorem SReach.recvData (id : Nat) (p : Bytes) (e : Bool) (pl : Option Nat) : SReach (s.recvData id p e pl).1 :=
  h.step (h.k.recvData id p e pl) (.recvData s id p e pl) (.recvData id p e pl) trivial rfl
theorem SReach.recvReset (id : Nat) (r : Reason) : SReach (s.recvReset id r).1 :=
  h.step (h.k.recvReset id r) (.recvReset s id r) (.recvReset id r) trivial rfl
theorem SReach.recvPushPromise (id : Nat) (hd : HeadersIn) : SReach (s.recvPushPromise id hd).1 :=
  h.step (h.k.recvPushPromise id hd) (.recvPushPromise s id hd) (.recvPushPromise id hd) trivial rfl
theorem SReach.recvGoAwayFrame (l : Nat) (r : Reason) (d : Bytes) : SReach (s.recvGoAwayFrame l r d).1 :=
  h.step (h.k.recvGoAwayFrame l r d) (.recvGoAwayFrame s l r d) (.recvGoAwayFrame l r d) trivial rfl
theorem SReach.recvWindowUpdate (id inc : Nat) (hi : inc ≤ 2147483647) : SReach (s.recvWindowUpdate id inc).1 :=
  h.step (h.k.recvWindowUpdate id inc hi) (.recvWindowUpdate s id inc) (.recvWindowUpdate id inc) trivial rfl
theorem SReach.recvEof (b : Bool) : SReach (s.recvEof b) :=
  h.step (h.k.recvEof b) (.recvEof s b) (.recvEof b) trivial rfl
theorem SReach.handleError (e : PErr) : SReach (s.handleError e).1 :=
  h.step (h.k.handleError e) (.handleError s e) (.handleError e) trivial rfl
theorem SReach.innerSendReset (id : Nat) (r : Reason) : SReach (s.innerSendReset id r).1 :=
  h.step (h.k.innerSendReset id r) (.innerSendReset s id r) (.innerSendReset id r) trivial rfl
theorem SReach.recvGoAway (l : Nat) : SReach (s.recvGoAway l) :=
  h.step (h.k.recvGoAway l) (.recvGoAway s l) (.recvGoAway l) trivial rfl
theorem SReach.applyRemoteSettings (v : List (Nat × Nat)) (b : Bool) (hv : SettingsOk v) : SReach (s.applyRemoteSettings v b).1 :=
  h.step (h.k.applyRemoteSettings v b hv) (.applyRemoteSettings s v b) (.applyRemoteSettings v b) trivial rfl
theorem SReach.applyLocalSettingsFrame (v : List (Nat × Nat)) (hv : ∀ t, ConnRecvP.settingsIws v = some t → t ≤ 2147483647) :
    SReach (s.applyLocalSettingsFrame v).1 :=
  h.step (h.k.applyLocalSettingsFrame v) (.applyLocalSettingsFrame s v) (.applyLocalSettings v) hv rfl
theorem SReach.setTargetConnectionWindow (t : Nat) (ht : t ≤ 2147483647) : SReach (s.setTargetConnectionWindow t).1 :=
  h.step (h.k.setTargetConnectionWindow t) (.setTargetConnectionWindow s t) (.setTargetConnectionWindow t) ht rfl
theorem SReach.clearExpiredResetStreams (n : Nat) : SReach (Streams.clearExpiredResetStreams n s) :=
  h.step (KInv.clearExpiredResetStreams n h.k) (.clearExpiredResetStreams n s) (.clearExpiredResetStreams n) trivial rfl
theorem SReach.pollComplete (n : Nat) (w : Writer) (io : Tio) (t : String) : SReach (Streams.pollComplete n s w io t).1 :=
  h.step (KInv.pollComplete n h.k w io t) (.pollComplete n s w io t) (.pollComplete n w io t) trivial rfl
theorem SReach.pollSendPendingRefusal (n : Nat) (w : Writer) (io : Tio) (t : String) :
    SReach (Streams.pollSendPendingRefusal n s w io t).1 :=
  h.step (KInv.pollSendPendingRefusal n h.k w io t) (.pollSendPendingRefusal n s w io t) (.pollSendPendingRefusal n w io t) trivial rfl
theorem SReach.wake (t : List String) : SReach (s.wake t) :=
  h.step (h.k.wake t) (.wake s t) (.wake t) trivial rfl
theorem SReach.panic (m : String) : SReach (s.panic m) :=
  h.step (h.k.panic m) (.panic s m) (.panic m) trivial rfl

end

end H2V.Lemmas.ConnDrainP
