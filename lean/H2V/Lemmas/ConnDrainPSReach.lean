import H2V.Lemmas.ConnDrainPTurn
import H2V.Lemmas.ConnRecvPReach
import H2V.Lemmas.ConnDrainPCapE
/-
  ConnDrainP, part 11 — `SReach`: stream-layer states that the reachability notions of ConnFlowP, ConnCountsP and
  ConnRecvP all accept (closed under every call the connection task makes, with the decoder's bounds on
  WINDOW_UPDATE increments and SETTINGS_INITIAL_WINDOW_SIZE); the frames `Codec::poll_next` yields meet those
  bounds (`pollNext_frameOk`).
-/
namespace H2V.Lemmas.ConnDrainP
open H2V H2V.Model H2V.Model.Conn
open H2V.Lemmas.ConnFlowP (FrameOk SettingsOk)

-- ===================================================================== frames handed over by the codec are bounded

theorem drain1_frame {r : CodecRead.Reader} {f : Frame.Frame} {rest : List CodecRead.Item}
    (h : (CodecRead.Reader.drain 1 r []).2.1 = .frame f :: rest) : FrameOk f := by
  unfold CodecRead.Reader.drain at h
  dsimp only at h
  split at h
  · cases h
  · cases h
  · split at h
    · cases h
    · (try dsimp only at h)
      split at h
      · next r2 g hd =>
        unfold CodecRead.Reader.drain at h
        simp only [List.nil_append, List.cons.injEq, CodecRead.Item.frame.injEq] at h
        rw [← h.1]
        exact ConnFlowP.decodeFrame_ok hd
      · unfold CodecRead.Reader.drain at h; cases h
      · cases h

theorem pollNext_frameOk (n : Nat) : ∀ (c c' : Codec) (tag : String) (f : Frame.Frame),
    pollNext n c tag = (c', .frame f) → FrameOk f := by
  induction n with
  | zero => intro c c' tag f h; cases h
  | succ n ih =>
    intro c c' tag f h
    unfold pollNext at h
    split at h
    · cases h
    · simp only at h
      split at h
      · next g rest hitems =>
        injection h with _ h
        injection h with h
        rw [← h]
        exact drain1_frame hitems
      · cases h
      · split at h
        · exact ih _ _ _ _ h
        · repeat' split at h
          all_goals cases h


-- ===================================================================== stream-layer states every family accepts

/-- a stream-layer state reachable in the sense of all three lemma families whose invariants are used here:
    ConnFlowP (send-flow safety), ConnCountsP (queue ↔ flag consistency), ConnRecvP (receive windows); plus `KInv`
    (ConnDrainPCapA…E: nobody waits in `pending_capacity` while the connection has capacity to give), which
    ConnFlowP's `Reach` does not give because its initial states leave `pending_capacity` unconstrained -/
structure SReach (s : Streams) : Prop where
  flow : ConnFlowP.Reach s
  cnt : ConnCountsP.Reach s
  rv : ∃ g, ConnRecvP.Reach g s
  k : KInv s

theorem SReach.pinv {s : Streams} (h : SReach s) (hp : s.panicked = none) : PInv s ∧ RangeOK s := by
  refine ⟨⟨h.flow.safe, h.flow.reqOk, h.cnt.qok hp _ (by decide), h.cnt.qok hp _ (by decide)⟩, ?_⟩
  obtain ⟨g, hr⟩ := h.rv
  have hi := ConnRecvP.reach_inv hr
  have h1 := (Comp.inI32_iff _).1 hi.aI32
  have h2 := (Comp.inI32_iff _).1 hi.wI32
  exact ⟨h1.2, h2.1⟩

/-- one call with `True` validity in ConnRecvP -/
theorem SReach.step {s s' : Streams} (h : SReach s) (h1 : ConnFlowP.Reach s') (hk : KInv s')
    (h2 : ConnCountsP.ApiStep s s') (op : ConnRecvP.Op) (hv : op.valid s) (he : op.apply s = s') : SReach s' := by
  obtain ⟨g, hr⟩ := h.rv
  exact ⟨h1, .step h.cnt h2, ⟨_, he ▸ ConnRecvP.Reach.step op hr hv⟩, hk⟩

section
variable {s : Streams} (h : SReach s)
include h

theorem SReach.recvHeaders (hd : HeadersIn) : SReach (s.recvHeaders hd).1 :=
  h.step (.recvHeaders hd h.flow) (h.k.recvHeaders hd) (.recvHeaders s hd) (.recvHeaders hd) trivial rfl
theorem SReach.recvData (id : Nat) (p : Bytes) (e : Bool) (pl : Option Nat) : SReach (s.recvData id p e pl).1 :=
  h.step (.recvData id p e pl h.flow) (h.k.recvData id p e pl) (.recvData s id p e pl) (.recvData id p e pl) trivial rfl
theorem SReach.recvReset (id : Nat) (r : Reason) : SReach (s.recvReset id r).1 :=
  h.step (.recvReset id r h.flow) (h.k.recvReset id r) (.recvReset s id r) (.recvReset id r) trivial rfl
theorem SReach.recvPushPromise (id : Nat) (hd : HeadersIn) : SReach (s.recvPushPromise id hd).1 :=
  h.step (.recvPushPromise id hd h.flow) (h.k.recvPushPromise id hd) (.recvPushPromise s id hd) (.recvPushPromise id hd) trivial rfl
theorem SReach.recvGoAwayFrame (l : Nat) (r : Reason) (d : Bytes) : SReach (s.recvGoAwayFrame l r d).1 :=
  h.step (.recvGoAwayFrame l r d h.flow) (h.k.recvGoAwayFrame l r d) (.recvGoAwayFrame s l r d) (.recvGoAwayFrame l r d) trivial rfl
theorem SReach.recvWindowUpdate (id inc : Nat) (hi : inc ≤ 2147483647) : SReach (s.recvWindowUpdate id inc).1 :=
  h.step (.recvWindowUpdate id inc hi h.flow) (h.k.recvWindowUpdate id inc hi) (.recvWindowUpdate s id inc) (.recvWindowUpdate id inc) trivial rfl
theorem SReach.recvEof (b : Bool) : SReach (s.recvEof b) :=
  h.step (.recvEof b h.flow) (h.k.recvEof b) (.recvEof s b) (.recvEof b) trivial rfl
theorem SReach.handleError (e : PErr) : SReach (s.handleError e).1 :=
  h.step (.handleError e h.flow) (h.k.handleError e) (.handleError s e) (.handleError e) trivial rfl
theorem SReach.innerSendReset (id : Nat) (r : Reason) : SReach (s.innerSendReset id r).1 :=
  h.step (.innerSendReset id r h.flow) (h.k.innerSendReset id r) (.innerSendReset s id r) (.innerSendReset id r) trivial rfl
theorem SReach.recvGoAway (l : Nat) : SReach (s.recvGoAway l) :=
  h.step (.recvGoAway l h.flow) (h.k.recvGoAway l) (.recvGoAway s l) (.recvGoAway l) trivial rfl
theorem SReach.applyRemoteSettings (v : List (Nat × Nat)) (b : Bool) (hv : SettingsOk v) : SReach (s.applyRemoteSettings v b).1 :=
  h.step (.applyRemoteSettings v b hv h.flow) (h.k.applyRemoteSettings v b hv) (.applyRemoteSettings s v b) (.applyRemoteSettings v b) trivial rfl
theorem SReach.applyLocalSettingsFrame (v : List (Nat × Nat)) (hv : ∀ t, ConnRecvP.settingsIws v = some t → t ≤ 2147483647) :
    SReach (s.applyLocalSettingsFrame v).1 :=
  h.step (.applyLocalSettingsFrame v h.flow) (h.k.applyLocalSettingsFrame v) (.applyLocalSettingsFrame s v) (.applyLocalSettings v) hv rfl
theorem SReach.setTargetConnectionWindow (t : Nat) (ht : t ≤ 2147483647) : SReach (s.setTargetConnectionWindow t).1 :=
  h.step (.setTargetConnectionWindow t h.flow) (h.k.setTargetConnectionWindow t) (.setTargetConnectionWindow s t) (.setTargetConnectionWindow t) ht rfl
theorem SReach.clearExpiredResetStreams (n : Nat) : SReach (Streams.clearExpiredResetStreams n s) :=
  h.step (.clearExpiredResetStreams n h.flow) (KInv.clearExpiredResetStreams n h.k) (.clearExpiredResetStreams n s) (.clearExpiredResetStreams n) trivial rfl
theorem SReach.pollComplete (n : Nat) (w : Writer) (io : Tio) (t : String) : SReach (Streams.pollComplete n s w io t).1 :=
  h.step (.pollComplete n w io t h.flow) (KInv.pollComplete n h.k w io t) (.pollComplete n s w io t) (.pollComplete n w io t) trivial rfl
theorem SReach.pollSendPendingRefusal (n : Nat) (w : Writer) (io : Tio) (t : String) :
    SReach (Streams.pollSendPendingRefusal n s w io t).1 :=
  h.step (.pollSendPendingRefusal n w io t h.flow) (KInv.pollSendPendingRefusal n h.k w io t) (.pollSendPendingRefusal n s w io t) (.pollSendPendingRefusal n w io t) trivial rfl
theorem SReach.wake (t : List String) : SReach (s.wake t) :=
  h.step (.wake t h.flow) (h.k.wake t) (.wake s t) (.wake t) trivial rfl
theorem SReach.panic (m : String) : SReach (s.panic m) :=
  h.step (.panic m h.flow) (h.k.panic m) (.panic s m) (.panic m) trivial rfl

end

end H2V.Lemmas.ConnDrainP
