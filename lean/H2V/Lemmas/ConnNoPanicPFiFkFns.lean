import H2V.Lemmas.ConnNoPanicPFiSkFns
/-
  C08 (no panic) — PUSH_PROMISE bookkeeping, part 2: `f_pp` for the light functions (generated from the `f_lt` list).
-/
namespace H2V.Lemmas.ConnNoPanicP
open H2V H2V.Model H2V.Model.Conn H2V.Lemmas.ConnCountsP
attribute [local irreducible] wrapSubU32 wrapSubUsize

theorem ppIdsOf_append_nonpp (l : List SFrame) {f : SFrame} (hf : SFrame.isPP f = false) : ppIdsOf (l ++ [f]) = ppIdsOf l := by
  unfold ppIdsOf
  rw [List.filterMap_append]
  cases f <;> first | (cases hf; done) | (simp [List.filterMap])

theorem flg_append_nonpp (x : Stream) {f : SFrame} (hf : SFrame.isPP f = false) :
    Flg x { x with pendingSend := x.pendingSend ++ [f] } :=
  ⟨rfl, id, id, id, by show (ppIdsOf (x.pendingSend ++ [f])).Sublist _; rw [ppIdsOf_append_nonpp _ hf]; exact .refl _⟩

theorem flg_drop (x : Stream) (n : Nat) : Flg x { x with pendingSend := x.pendingSend.drop n } :=
  ⟨rfl, id, id, id, by unfold ppIdsOf; exact (List.drop_sublist n _).filterMap _⟩

macro_rules | `(tactic| fk_side) => `(tactic| (show SFrame.isPP _ = false; rfl))
macro_rules | `(tactic| fk_side) => `(tactic| (intro _; exact flg_append_nonpp _ rfl))
macro_rules | `(tactic| fk_side) => `(tactic| (intro _; exact flg_drop _ _))

theorem notifyPushIfRecvEnded_fk (s : Streams) (k : Nat) : FK s (s.notifyPushIfRecvEnded k) := by
  unfold Streams.notifyPushIfRecvEnded; fk_auto

theorem queueFrame_fk (s : Streams) (k : Nat) (f : SFrame) (hf : SFrame.isPP f = false) : FK s (s.queueFrame k f) := by
  unfold Streams.queueFrame
  exact (modStream_fk _ _ _ (fun x => flg_append_nonpp x hf)).trans (scheduleSend_fk _ _)

/-- `send_reset` on a stream in `pending_open` keeps the first frame of its queue -/
theorem fk_append_after {s1 s3 : Streams} {k : Nat} {f : SFrame} (h13 : FK s1 s3)
    (hnil : Live s3 k → (s3.stream k).pendingSend = []) (hsub : (ppIdsOf [f]).Sublist (ppq s1 k)) :
    FK s1 (s3.modStream k fun st => { st with pendingSend := st.pendingSend ++ [f] }) := by
  refine ⟨fun j => ?_, fun m hm => (modStream_pk _ _ _).pk m (h13.pk m hm), ?_, ?_⟩
  · rcases modStream_streams s3 k (fun st => { st with pendingSend := st.pendingSend ++ [f] }) (fun _ => rfl) j with e | ⟨e, hl, e2⟩
    · rw [e]; exact h13.fl j
    · subst e
      rw [e2]
      have r := h13.fl j
      refine ⟨r.key, r.c, r.pp, r.po, ?_⟩
      show (ppIdsOf ((s3.stream j).pendingSend ++ [f])).Sublist _
      rw [hnil hl]; exact hsub
  · have : (s3.modStream k fun st => { st with pendingSend := st.pendingSend ++ [f] }).prio = s3.prio := modStream_prio _ _ _
    rw [this]; exact h13.nf
  · exact h13.ids.trans (.of_eq (modStream_ids _ _ _))

theorem clearQueue_nil (s : Streams) (k : Nat) (hl : Live (s.clearQueue k) k) : ((s.clearQueue k).stream k).pendingSend = [] := by
  unfold Streams.clearQueue at hl ⊢
  dsimp only at hl ⊢
  have hl0 : Live s k := by
    by_cases h : Live s k
    · exact h
    · exfalso
      have hst := modStream_dangling h (fun st => { st with pendingSend := [], bufferedSendData := 0, requestedSendCapacity := 0 })
      revert hl
      split
      · split
        · intro hl; exact h (by unfold Live at hl ⊢; rw [← hst]; exact hl)
        · intro hl; exact h (by unfold Live at hl ⊢; rw [← hst]; exact hl)
      · intro hl; exact h (by unfold Live at hl ⊢; rw [← hst]; exact hl)
  have hst := stream_modStream_live hl0 (fun st => { st with pendingSend := [], bufferedSendData := 0, requestedSendCapacity := 0 }) (fun _ => rfl)
  split
  · split
    · show ((s.modStream k _).stream k).pendingSend = []; rw [hst]
    · rw [hst]
  · rw [hst]

theorem reserveCapacity_fk (s : Streams) (k cap : Nat) : FK s (s.reserveCapacity k cap) := by
  unfold Streams.reserveCapacity; fk_auto
theorem recvConnectionWindowUpdate_fk (s : Streams) (inc : Nat) : FK s (s.recvConnectionWindowUpdate inc).1 := by
  unfold Streams.recvConnectionWindowUpdate; fk_auto
theorem sendOpenId_fk (s : Streams) : FK s s.sendOpenId.1 := by
  unfold Streams.sendOpenId; fk_auto
theorem sendReserveLocal_fk (s : Streams) : FK s s.sendReserveLocal.1 := by
  unfold Streams.sendReserveLocal; fk_auto
theorem sendInterimInformationalHeaders_fk (s : Streams) (k : Nat) (f : List Hpack.Field) : FK s (s.sendInterimInformationalHeaders k f).1 := by
  unfold Streams.sendInterimInformationalHeaders; fk_auto
theorem sendSendReset_fk (s : Streams) (k : Nat) (r : Reason) (i : Initiator) : FK s (s.sendSendReset k r i) := by
  unfold Streams.sendSendReset
  dsimp only
  split
  · exact .refl _
  · have h1 : FK s (s.modStreamW k fun st => st.setReset r i) := modStreamW_fk _ _ _ (fun x => setReset_flg x r i)
    generalize (s.modStreamW k fun st => st.setReset r i) = s1 at h1 ⊢
    split
    · exact h1
    · generalize hs2 : (if (s1.stream k).isPendingOpen = true then _ else s1.clearQueue k) = s2
      have h2 : FK s1 s2 := by
        rw [← hs2]
        split
        · have ha : FK s1 ((s1.modStream k fun st => { st with pendingSend := st.pendingSend.drop 1 }).clearQueue k) := by fk_auto
          split
          · next f hf =>
            refine fk_append_after ha (clearQueue_nil _ _) ?_
            unfold ppq
            cases hps : (s1.stream k).pendingSend with
            | nil => rw [hps] at hf; cases hf
            | cons g rest =>
              rw [hps] at hf
              simp only [List.head?_cons, Option.some.injEq] at hf
              subst hf
              unfold ppIdsOf
              exact (List.sublist_append_left [g] rest).filterMap _
          · exact ha
        · fk_auto
      exact (h1.trans h2).trans (by fk_auto)
theorem pollCapacity_fk (s : Streams) (k : Nat) (tag : String) : FK s (s.pollCapacity k tag).1 := by
  unfold Streams.pollCapacity; fk_auto
theorem pollReset_fk (s : Streams) (k : Nat) (m : PollReset) (tag : String) : FK s (s.pollReset k m tag).1 := by
  unfold Streams.pollReset; fk_auto
theorem sendRecvGoAway_fk (s : Streams) (l : Nat) : FK s (s.sendRecvGoAway l).1 := by
  unfold Streams.sendRecvGoAway; fk_auto
theorem sendHandleError_fk (s : Streams) (k : Nat) : FK s (s.sendHandleError k) := by
  unfold Streams.sendHandleError; fk_auto
theorem sendMaybeResetNextStreamId_fk (s : Streams) (id : Nat) : FK s (s.sendMaybeResetNextStreamId id) := by
  unfold Streams.sendMaybeResetNextStreamId; fk_auto
theorem sendTrailers_fk (s : Streams) (k : Nat) (f : List Hpack.Field) : FK s (s.sendTrailers k f).1 := by
  unfold Streams.sendTrailers; fk_auto
theorem prioSendData_fk (s : Streams) (k len : Nat) (eos : Bool) : FK s (s.prioSendData k len eos).1 := by
  unfold Streams.prioSendData; fk_auto
theorem reclaimReservedCapacity_fk (s : Streams) (k : Nat) : FK s (s.reclaimReservedCapacity k) := by
  unfold Streams.reclaimReservedCapacity; fk_auto
theorem scheduleImplicitReset_fk (s : Streams) (k : Nat) (r : Reason) : FK s (s.scheduleImplicitReset k r) := by
  unfold Streams.scheduleImplicitReset; fk_auto
theorem prioRecvStreamWindowUpdate_fk (s : Streams) (k inc : Nat) : FK s (s.prioRecvStreamWindowUpdate k inc).1 := by
  unfold Streams.prioRecvStreamWindowUpdate; fk_auto
theorem sendRecvStreamWindowUpdate_fk (s : Streams) (k sz : Nat) : FK s (s.sendRecvStreamWindowUpdate k sz).1 := by
  unfold Streams.sendRecvStreamWindowUpdate; fk_auto
theorem decStreamWindow_fk (dec acc : Nat) (s : Streams) (k : Nat) : FK s (Streams.decStreamWindow dec acc s k).1 := by
  unfold Streams.decStreamWindow; fk_auto
theorem releaseConnectionCapacity_fk (s : Streams) (c : Nat) (b : Bool) : FK s (s.releaseConnectionCapacity c b) := by
  unfold Streams.releaseConnectionCapacity; fk_auto
theorem releaseCapacity_fk (s : Streams) (k c : Nat) (b : Bool) : FK s (s.releaseCapacity k c b).1 := by
  unfold Streams.releaseCapacity; fk_auto
theorem clearRecvBuffer_fk (s : Streams) (k : Nat) (b : Bool) : FK s (s.clearRecvBuffer k b) := by
  unfold Streams.clearRecvBuffer
  dsimp only
  have h0 : FK s { s with counts := (Streams.clearRecvBufferLoop (s.stream k).inFlightRecvData (s.stream k).pendingRecv 0 s.counts).2 } :=
    .of_eqs rfl rfl rfl
  split
  · fk_auto
  · fk_auto
theorem releaseClosedCapacity_fk (s : Streams) (k : Nat) : FK s (s.releaseClosedCapacity k) := by
  unfold Streams.releaseClosedCapacity; fk_auto
theorem consumeConnectionWindow_fk (s : Streams) (sz : Nat) : FK s (s.consumeConnectionWindow sz).1 := by
  unfold Streams.consumeConnectionWindow; fk_auto
theorem ignoreData_fk (s : Streams) (sz : Nat) : FK s (s.ignoreData sz).1 := by
  unfold Streams.ignoreData; fk_auto
theorem recvOpen_fk (s : Streams) (id : Nat) (b : Bool) : FK s (s.recvOpen id b).1 := by
  unfold Streams.recvOpen; fk_auto
theorem recvRecvTrailers_fk (s : Streams) (k : Nat) (h : HeadersIn) : FK s (s.recvRecvTrailers k h).1 := by
  unfold Streams.recvRecvTrailers; fk_auto
theorem recvRecvPushPromise_fk (s : Streams) (k : Nat) (h : HeadersIn) : FK s (s.recvRecvPushPromise k h).1 := by
  unfold Streams.recvRecvPushPromise; fk_auto
theorem recvHandleError_fk (s : Streams) (k : Nat) (e : PErr) : FK s (s.recvHandleError k e) := by
  unfold Streams.recvHandleError; fk_auto
theorem recvGoAway_fk (s : Streams) (l : Nat) : FK s (s.recvGoAway l) := by
  unfold Streams.recvGoAway; fk_auto
theorem recvRecvEof_fk (s : Streams) (k : Nat) : FK s (s.recvRecvEof k) := by
  unfold Streams.recvRecvEof; fk_auto
theorem recvMaybeResetNextStreamId_fk (s : Streams) (id : Nat) : FK s (s.recvMaybeResetNextStreamId id) := by
  unfold Streams.recvMaybeResetNextStreamId; fk_auto
theorem sendPendingRefusal_fk (s : Streams) (w : Writer) : FK s (s.sendPendingRefusal w).1 := by
  unfold Streams.sendPendingRefusal; fk_auto
theorem scheduleRecv_fk (s : Streams) (k : Nat) (t : String) : FK s (s.scheduleRecv k t).1 := by
  unfold Streams.scheduleRecv; fk_auto
theorem recvPollData_fk (s : Streams) (k : Nat) (t : String) : FK s (s.recvPollData k t).1 := by
  unfold Streams.recvPollData; fk_auto
theorem recvPollTrailers_fk (s : Streams) (k : Nat) (t : String) : FK s (s.recvPollTrailers k t).1 := by
  unfold Streams.recvPollTrailers; fk_auto
theorem recvPollInformational_fk (s : Streams) (k : Nat) (t : String) : FK s (s.recvPollInformational k t).1 := by
  unfold Streams.recvPollInformational; fk_auto
theorem enqueueResetExpiration_fk (s : Streams) (k : Nat) : FK s (s.enqueueResetExpiration k) := by
  unfold Streams.enqueueResetExpiration; fk_auto
theorem recvRecvReset_fk (s : Streams) (k : Nat) (r : Reason) : FK s (s.recvRecvReset k r).1 := by
  unfold Streams.recvRecvReset; fk_auto
theorem decContentLength_flg {x y : Stream} {n : Nat} (h : x.decContentLength n = some y) : Flg x y := by
  unfold Stream.decContentLength at h
  split at h
  · split at h
    · cases h; flg_fields
    · cases h
  · split at h
    · cases h
    · cases h; exact Flg.refl _
  · cases h; exact Flg.refl _

theorem recvRecvData_fk (s : Streams) (k : Nat) (payload : Bytes) (eos : Bool) (pad : Option Nat) : FK s (s.recvRecvData k payload eos pad).1 := by
  unfold Streams.recvRecvData
  cases pad <;> dsimp only
  all_goals (
    generalize hs0 : (if _ > Generated.Consts.MAX_WINDOW_SIZE then s.panic _ else s) = s0
    have h0 : FK s s0 := by rw [← hs0]; split; exact panic_fk _ _; exact .refl _
    split
    · exact h0
    split
    · fk_auto
    split
    · fk_auto
    · next s1 _ heq1 =>
      have h1 : FK s s1 := h0.trans (FK.of_fst_eq heq1 (consumeConnectionWindow_fk _ _))
      split
      · exact h1
      · split
        · exact h1
        · next st1 hdc =>
          have hsp : Flg (s1.stream k) st1 := decContentLength_flg hdc
          generalize hs2 : s1.setStream st1 = s2
          have h2 : FK s s2 := by
            rw [← hs2]; exact h1.trans (setStream_fk s1 st1 (by rw [hsp.key, stream_key]; exact hsp))
          generalize hs3 : (if eos = true then _ else (s2, (none : Option PErr))) = p3
          have h3 : FK s p3.1 := by
            rw [← hs3]
            split
            · split
              · exact h2
              · split
                · exact h2
                · exact h2.trans (modStream_fk _ _ _ (fun _ => by flg_tac))
            · exact h2
          split
          · exact h3
          · next s4 =>
            have h4 : FK s s4 := h3
            fk_auto)

theorem maybeCancel_fk (s : Streams) (k : Nat) : FK s (s.maybeCancel k) := by
  unfold Streams.maybeCancel; fk_auto
theorem refReserveCapacity_fk (s : Streams) (k c : Nat) : FK s (s.refReserveCapacity k c) := by
  unfold Streams.refReserveCapacity; fk_auto
theorem refReleaseCapacity_fk (s : Streams) (k c : Nat) : FK s (s.refReleaseCapacity k c).1 := by
  unfold Streams.refReleaseCapacity; fk_auto
theorem refClearRecvBuffer_fk (s : Streams) (k : Nat) : FK s (s.refClearRecvBuffer k) := by
  unfold Streams.refClearRecvBuffer; fk_auto
theorem pollPendingOpen_fk (s : Streams) (p : Option Nat) (t : String) : FK s (s.pollPendingOpen p t).1 := by
  unfold Streams.pollPendingOpen; fk_auto
theorem cloneHandle_fk (s : Streams) : FK s s.cloneHandle := by
  unfold Streams.cloneHandle; fk_auto
theorem dropHandle_fk (s : Streams) : FK s s.dropHandle := by
  unfold Streams.dropHandle; fk_auto
theorem refPollData_fk (s : Streams) (k : Nat) (t : String) : FK s (s.refPollData k t).1 := by
  unfold Streams.refPollData
  split
  · next s1 payload budgeted heq =>
    have h1 : FK s s1 := FK.of_fst_eq heq (recvPollData_fk s k t)
    dsimp only
    split
    · exact h1.trans (modCounts_fk _ _)
    · exact h1
  · exact recvPollData_fk s k t

end H2V.Lemmas.ConnNoPanicP
