import H2V.Lemmas.ConnNoPanicPPushInvHeldLoops
import H2V.Lemmas.ConnNoPanicPPollComplete
/-
  C08 (no panic) — PUSH_PROMISE bookkeeping, stage 2, part 4: the frame `HR` for the write path
  (`Streams::poll_complete`, `send_pending_refusal`); `pop_frame` through the clone `ConnFlowP.popFrameC`.
-/
namespace H2V.Lemmas.ConnNoPanicP
open H2V H2V.Model H2V.Model.Conn H2V.Lemmas.ConnCountsP
attribute [local irreducible] wrapSubU32 wrapSubUsize

-- ===================================================================== Stream::send_data

/-- what the frame needs of `Stream::send_data` -/
def SdHR (sd : Stream → Nat → Nat → Stream × List String × Bool) : Prop :=
  ∀ x a b, (sd x a b).1.key = x.key ∧ (sd x a b).1.isPendingAccept = x.isPendingAccept

theorem sdHR_sendData : SdHR Stream.sendData := fun x a b => accOf (sendData_same x a b)

-- ===================================================================== recv side of `buffer_pending`

theorem sendConnectionWindowUpdate_hr (s : Streams) (w : Writer) : HR s (s.sendConnectionWindowUpdate w).1 := by
  unfold Streams.sendConnectionWindowUpdate; hr_auto
theorem sendStreamWindowUpdates_hr (n : Nat) : ∀ (s : Streams) (w : Writer), HR s (Streams.sendStreamWindowUpdates n s w).1 := by
  induction n with
  | zero => intro s w; unfold Streams.sendStreamWindowUpdates; exact .refl _
  | succ n ih => intro s w; unfold Streams.sendStreamWindowUpdates; hr_auto_ih ih
theorem recvBufferPending_hr (s : Streams) (w : Writer) : HR s (s.recvBufferPending w).1 := by
  unfold Streams.recvBufferPending; hr_auto

-- ===================================================================== pop_frame

theorem popPendingOpen_hr (s : Streams) : HR s s.popPendingOpen.1 := by
  unfold Streams.popPendingOpen; hr_auto

theorem emitC_hr (sd : Stream → Nat → Nat → Stream × List String × Bool) (hsd : SdHR sd) (s : Streams) (id len : Nat)
    (rest : List SFrame) : HR s (ConnFlowP.emitC sd s id len rest) := by
  unfold ConnFlowP.emitC
  dsimp only
  generalize hs1 : (s.modStream id fun st => { st with pendingSend := rest }) = s1
  have h1 : HR s s1 := by rw [← hs1]; exact modStream_hr _ _ _ (fun _ => ⟨rfl, rfl⟩)
  have hk := hsd (s1.stream id) len s1.prio.maxBufferSize
  generalize sd (s1.stream id) len s1.prio.maxBufferSize = p at hk ⊢
  obtain ⟨st', w, bad⟩ := p
  dsimp only at hk ⊢
  have h2 : HR s (s1.setStream st') := h1.trans (setStream_hr s1 id st' (hk.1.trans (stream_key _ _)) hk.2)
  hr_auto

theorem finish_hr {s' t : Streams} (id : Nat) (c : Prop) [Decidable c] (b : Bool) (h : HR s' t) :
    HR s' ((if c then (t.qPush .pendingSend id).1 else t).transitionAfter id b) := by
  refine HR.trans ?_ (transitionAfter_hr _ _ _)
  split
  · exact h.trans (qPush_hr _ _ _)
  · exact h

set_option hygiene false in
local macro "hr_data_rest" : tactic => `(tactic|
  (split
   · exact ih _ _
   · split
     · exact ih _ _
     · exact finish_hr id _ _ (emitC_hr _ hsd _ _ _ _)))

theorem popFrameC_hr (sd : Stream → Nat → Nat → Stream × List String × Bool) (hsd : SdHR sd) (fuel : Nat) :
    ∀ (s : Streams) (maxLen : Nat), HR s (ConnFlowP.popFrameC sd fuel s maxLen).1 := by
  induction fuel with
  | zero => intro s m; rw [ConnFlowP.popFrameC_zero]; exact .refl _
  | succ n ih =>
    intro s maxLen
    rw [ConnFlowP.popFrameC_succ']
    split
    · next s' heq => exact .of_fst_eq heq (qPop_hr _ _)
    · next s' id heq =>
      refine HR.trans (.of_fst_eq heq (qPop_hr _ _)) ?_
      dsimp only
      split
      · split
        · split
          · refine HR.trans ?_ (ih _ _)
            hr_auto
          · hr_data_rest
        · simp only [Bool.false_eq_true, if_false]
          hr_data_rest
      · exact finish_hr id _ _ (modStream_hr _ _ _ (fun _ => ⟨rfl, rfl⟩))
      · exact finish_hr id _ _ (modStream_hr _ _ _ (fun _ => ⟨rfl, rfl⟩))
      · split
        · refine HR.trans ?_ (ih _ _)
          exact finish_hr id _ _ (modStream_hr _ _ _ (fun _ => ⟨rfl, rfl⟩))
        · refine finish_hr id _ _ ?_
          hr_auto
      · split
        · exact finish_hr id _ _ (modStreamW_hr _ _ _ (fun _ => accOf (setReset_same _ _ _)))
        · exact (transitionAfter_hr _ _ _).trans (ih _ _)

theorem popFrame_hr (fuel : Nat) (s : Streams) (maxLen : Nat) : HR s (Streams.popFrame fuel s maxLen).1 := by
  rw [ConnFlowP.popFrameC.eq]; exact popFrameC_hr _ sdHR_sendData fuel s maxLen

-- ===================================================================== buffer_pending, poll_complete

theorem reclaimFrameInner_hr (s : Streams) (fr : DataFrame) : HR s (s.reclaimFrameInner fr).1 := by
  unfold Streams.reclaimFrameInner; hr_auto
theorem reclaimFrame_hr (s : Streams) (w : Writer) : HR s (s.reclaimFrame w).1 := by
  unfold Streams.reclaimFrame; hr_auto
theorem bufferOut_hr (s : Streams) (w : Writer) (f : Streams.OutFrame) : HR s (s.bufferOut w f).1 := by
  unfold Streams.bufferOut; hr_auto
theorem prioBufferPendingLoop_hr (n : Nat) : ∀ (s : Streams) (w : Writer), HR s (Streams.prioBufferPendingLoop n s w).1 := by
  induction n with
  | zero => intro s w; unfold Streams.prioBufferPendingLoop; exact panic_hr _ _
  | succ n ih => intro s w; unfold Streams.prioBufferPendingLoop; hr_auto_ih ih
theorem prioBufferPending_hr (n : Nat) (s : Streams) (w : Writer) : HR s (Streams.prioBufferPending n s w).1 := by
  unfold Streams.prioBufferPending; hr_auto
theorem bufferPending_hr (n : Nat) (s : Streams) (w : Writer) : HR s (Streams.bufferPending n s w).1 := by
  unfold Streams.bufferPending; hr_auto
theorem pollComplete_hr (n : Nat) : ∀ (s : Streams) (w : Writer) (io : Tio) (t : String), HR s (Streams.pollComplete n s w io t).1 := by
  induction n with
  | zero => intro s w io t; unfold Streams.pollComplete; exact panic_hr _ _
  | succ n ih => intro s w io t; unfold Streams.pollComplete; hr_auto_ih ih
theorem pollSendPendingRefusal_hr (n : Nat) :
    ∀ (s : Streams) (w : Writer) (io : Tio) (t : String), HR s (Streams.pollSendPendingRefusal n s w io t).1 := by
  induction n with
  | zero => intro s w io t; unfold Streams.pollSendPendingRefusal; exact .refl _
  | succ n ih => intro s w io t; unfold Streams.pollSendPendingRefusal; hr_auto_ih ih

end H2V.Lemmas.ConnNoPanicP
