import H2V.Lemmas.ConnNoPanicPHist
/-
  C08 (no panic) — the client response path, part 1: the shape of a request stream's `pending_recv`
  (`respShape`, `respHead`, `RGood`), the per-stream frame relation `RS` (receive queue untouched, no new
  "receive streaming" state, handle count not lowered), its lift `RP X s s'` to the entries that have a
  handle (`ref_count > 0`) and are not in the exception list `X`, the primitives, and the peeling tactic
  `rp_auto` (same design as `lt_auto` / `af_auto`: the head function `f` is peeled with the lemma `f_rp`).
-/
namespace H2V.Lemmas.ConnNoPanicP
open H2V H2V.Model H2V.Model.Conn H2V.Lemmas.ConnCountsP
attribute [local irreducible] wrapSubU32 wrapSubUsize

-- ===================================================================== the queue of a request stream

/-- `pending_recv` of a stream whose `ResponseFuture` has not completed: interim heads, then nothing or the final head -/
def respShape : List REvent → Bool
  | [] => true
  | .informational _ _ :: r => respShape r
  | .headers _ _ :: _ => true
  | _ => false

/-- … and the final response head is queued -/
def respHead : List REvent → Bool
  | .informational _ _ :: r => respHead r
  | .headers _ _ :: _ => true
  | _ => false

theorem respShape_of_head {q : List REvent} (h : respHead q = true) : respShape q = true := by
  induction q with
  | nil => rfl
  | cons e r ih => cases e <;> first | exact ih h | rfl | cases h

theorem respHead_append {q : List REvent} (l : List REvent) (h : respHead q = true) : respHead (q ++ l) = true := by
  induction q with
  | nil => cases h
  | cons e r ih => cases e <;> first | exact ih h | rfl | cases h

theorem respShape_append_info {q : List REvent} (a : Bytes) (f : Fields) (h : respShape q = true) :
    respShape (q ++ [.informational a f]) = true := by
  induction q with
  | nil => rfl
  | cons e r ih => cases e <;> first | exact ih h | rfl | cases h

theorem respHead_append_headers {q : List REvent} (a : Bytes) (f : Fields) (h : respShape q = true) :
    respHead (q ++ [.headers a f]) = true := by
  induction q with
  | nil => rfl
  | cons e r ih => cases e <;> first | exact ih h | rfl | cases h

/-- what the invariant says about one stream -/
structure RGood (x : Stream) : Prop where
  shape : respShape x.pendingRecv = true
  head : x.state.isRecvStreaming = true → respHead x.pendingRecv = true

-- ===================================================================== the per-stream frame

structure RS (a b : Stream) : Prop where
  key : b.key = a.key
  q : b.pendingRecv = a.pendingRecv
  ref : a.refCount ≤ b.refCount
  str : b.state.isRecvStreaming = true → a.state.isRecvStreaming = true

theorem RS.refl (a : Stream) : RS a a := ⟨rfl, rfl, Nat.le_refl _, fun h => h⟩
theorem RS.trans {a b c : Stream} (h1 : RS a b) (h2 : RS b c) : RS a c :=
  ⟨h2.key.trans h1.key, h2.q.trans h1.q, Nat.le_trans h1.ref h2.ref, fun h => h1.str (h2.str h)⟩
theorem RS.good {a b : Stream} (h : RS a b) (g : RGood a) : RGood b :=
  ⟨by rw [h.q]; exact g.shape, fun hs => by rw [h.q]; exact g.head (h.str hs)⟩

/-- entries with a handle, outside `X`, are framed -/
structure RP (X : List Nat) (s s' : Streams) : Prop where
  fr : ∀ j, j ∉ X → 0 < (s.stream j).refCount → RS (s.stream j) (s'.stream j)

theorem RP.refl (X : List Nat) (s : Streams) : RP X s s := ⟨fun _ _ _ => RS.refl _⟩
theorem RP.trans {X : List Nat} {a b c : Streams} (h1 : RP X a b) (h2 : RP X b c) : RP X a c := ⟨fun j hj hr =>
  (h1.fr j hj hr).trans (h2.fr j hj (Nat.lt_of_lt_of_le hr (h1.fr j hj hr).ref))⟩
theorem RP.mono {X Y : List Nat} {s s' : Streams} (h : RP X s s') (hs : ∀ k ∈ X, k ∈ Y) : RP Y s s' :=
  ⟨fun j hj hr => h.fr j (fun hx => hj (hs j hx)) hr⟩
theorem RP.of_store {X : List Nat} {s s' : Streams} (h : s'.store = s.store) : RP X s s' := ⟨fun j _ _ => by
  have : s'.stream j = s.stream j := by unfold Streams.stream; rw [h]
  rw [this]; exact RS.refl _⟩
theorem RP.of_eq {X : List Nat} {s a b : Streams} (h : a = b) (e : RP X s a) : RP X s b := h ▸ e
theorem RP.of_fst_eq {X : List Nat} {s : Streams} {α : Type} {p : Streams × α} {a : Streams} {x : α}
    (h : p = (a, x)) (e : RP X s p.1) : RP X s a := by subst h; exact e

/-- an entry without handle may be excepted for free -/
theorem RP.drop0 {X : List Nat} {s s' : Streams} {k : Nat} (h : RP (k :: X) s s') (h0 : (s.stream k).refCount = 0) :
    RP X s s' := ⟨fun j hj hr => by
  refine h.fr j (fun hx => ?_) hr
  rcases List.mem_cons.mp hx with e | e
  · subst e; omega
  · exact hj e⟩

-- ===================================================================== primitives

theorem panic_rp {X : List Nat} (s : Streams) (m : String) : RP X s (s.panic m) := .of_store (panic_store _ _)
theorem wake_rp {X : List Nat} (s : Streams) (t : List String) : RP X s (s.wake t) := .of_store rfl
theorem notifyTask_rp {X : List Nat} (s : Streams) : RP X s s.notifyTask := by
  unfold Streams.notifyTask; split
  · exact .of_store rfl
  · exact .refl _ _
theorem unsup_rp {X : List Nat} (s : Streams) (m : String) : RP X s (s.unsup m) := by
  unfold Streams.unsup; split
  · exact .refl _ _
  · exact .of_store rfl
theorem modPrio_rp {X : List Nat} (s : Streams) (f : Prioritize → Prioritize) : RP X s (s.modPrio f) := .of_store rfl
theorem modSend_rp {X : List Nat} (s : Streams) (f : Send → Send) : RP X s (s.modSend f) := .of_store rfl
theorem modRecv_rp {X : List Nat} (s : Streams) (f : Recv → Recv) : RP X s (s.modRecv f) := .of_store rfl
theorem modCounts_rp {X : List Nat} (s : Streams) (f : Counts → Counts) : RP X s (s.modCounts f) := .of_store rfl
theorem modCountsA_rp {X : List Nat} (s : Streams) (w : String) (f : Counts → Option Counts) : RP X s (s.modCountsA w f) := by
  unfold Streams.modCountsA; split
  · exact .of_store rfl
  · exact panic_rp _ _
theorem setQ_rp {X : List Nat} (s : Streams) (q : QName) (l : List Nat) : RP X s (s.setQ q l) := .of_store (setQ_store _ _ _)
theorem setMisc_rp {X : List Nat} (s : Streams) (a : Actions) (refs leaked : Nat) (wk : List String) (un : Option String) :
    RP X s { s with actions := a, refs := refs, recvBufferLeaked := leaked, wakes := wk, unsupported := un } := .of_store rfl
theorem setCounts_rp {X : List Nat} (s : Streams) (c : Counts) : RP X s { s with counts := c } := .of_store rfl

theorem setStream_rp {X : List Nat} (s : Streams) (st' : Stream) (h : RS (s.stream st'.key) st') : RP X s (s.setStream st') := by
  refine ⟨fun j _ _ => ?_⟩
  rcases setStream_stream s st' j with e | ⟨e, hj, _⟩
  · rw [e]; exact RS.refl _
  · rw [e, hj]; exact h

/-- an update of entry `k` that is a frame step for the entry as it is now -/
theorem modStream_rp' {X : List Nat} (s : Streams) (k : Nat) (f : Stream → Stream) (h : RS (s.stream k) (f (s.stream k))) :
    RP X s (s.modStream k f) := by
  unfold Streams.modStream
  split
  · next st hst =>
    rw [stream_of_get? hst] at h
    refine setStream_rp s _ ?_
    rw [h.key, get?_key hst, stream_of_get? hst]; exact h
  · exact panic_rp _ _

theorem modStream_rp {X : List Nat} (s : Streams) (k : Nat) (f : Stream → Stream) (h : ∀ x, RS x (f x)) : RP X s (s.modStream k f) :=
  modStream_rp' s k f (h _)

theorem modStreamW_rp' {X : List Nat} (s : Streams) (k : Nat) (f : Stream → Stream × List String)
    (h : RS (s.stream k) (f (s.stream k)).1) : RP X s (s.modStreamW k f) := by
  unfold Streams.modStreamW
  split
  · next st hst =>
    rw [stream_of_get? hst] at h
    refine (setStream_rp s _ ?_).trans (wake_rp _ _)
    rw [h.key, get?_key hst, stream_of_get? hst]; exact h
  · exact panic_rp _ _

theorem modStreamW_rp {X : List Nat} (s : Streams) (k : Nat) (f : Stream → Stream × List String) (h : ∀ x, RS x (f x).1) :
    RP X s (s.modStreamW k f) := modStreamW_rp' s k f (h _)

/-- any key-preserving update of an excepted entry -/
theorem modStream_rpx {X : List Nat} (s : Streams) (k : Nat) (f : Stream → Stream) (hk : ∀ x, (f x).key = x.key) (hX : k ∈ X) :
    RP X s (s.modStream k f) := by
  unfold Streams.modStream
  split
  · next st hst =>
    refine ⟨fun j hj _ => ?_⟩
    rcases setStream_stream s (f st) j with e | ⟨_, hjk, _⟩
    · rw [e]; exact RS.refl _
    · rw [hk, get?_key hst] at hjk; subst hjk; exact absurd hX hj
  · exact panic_rp _ _

theorem setQueued_rs (x : Stream) (q : QName) (v : Bool) : RS x (x.setQueued q v) := by
  cases q <;> exact ⟨rfl, rfl, Nat.le_refl _, fun h => h⟩

theorem qPush_rp {X : List Nat} (s : Streams) (q : QName) (k : Nat) : RP X s (s.qPush q k).1 := by
  unfold Streams.qPush; split
  · exact .refl _ _
  · exact (modStream_rp s k _ (fun x => setQueued_rs x q true)).trans (setQ_rp _ _ _)
theorem qPushFront_rp {X : List Nat} (s : Streams) (q : QName) (k : Nat) : RP X s (s.qPushFront q k).1 := by
  unfold Streams.qPushFront; split
  · exact .refl _ _
  · exact (modStream_rp s k _ (fun x => setQueued_rs x q true)).trans (setQ_rp _ _ _)
theorem qPop_rp {X : List Nat} (s : Streams) (q : QName) : RP X s (s.qPop q).1 := by
  unfold Streams.qPop; split
  · exact .refl _ _
  · exact (setQ_rp _ _ _).trans (modStream_rp _ _ _ (fun x => setQueued_rs x q false))

-- ===================================================================== `RS` for the stream methods

macro "rs_fields" : tactic => `(tactic| with_reducible exact ⟨rfl, rfl, Nat.le_refl _, fun h => h⟩)

theorem notifySend_rs (x : Stream) : RS x x.notifySend.1 := by
  unfold Stream.notifySend
  cases h1 : x.sendTask <;> cases h2 : x.openTask <;> simp only [h1, h2] <;> rs_fields
theorem notifyRecv_rs (x : Stream) : RS x x.notifyRecv.1 := by
  unfold Stream.notifyRecv; split <;> rs_fields
theorem notifyPush_rs (x : Stream) : RS x x.notifyPush.1 := by
  unfold Stream.notifyPush; split <;> rs_fields
theorem notifyCapacity_rs (x : Stream) : RS x x.notifyCapacity.1 := by
  unfold Stream.notifyCapacity
  exact RS.trans (b := { x with sendCapacityInc := true }) (by rs_fields) (notifySend_rs _)
theorem waitSend_rs (x : Stream) (t : String) : RS x (x.waitSend t) := by unfold Stream.waitSend; rs_fields
theorem waitOpen_rs (x : Stream) (t : String) : RS x (x.waitOpen t) := by unfold Stream.waitOpen; rs_fields
theorem assignCapacity_rs (x : Stream) (a b : Nat) : RS x (x.assignCapacity a b).1 := by
  unfold Stream.assignCapacity; simp only []; split
  · exact RS.trans (b := { x with sendFlow := (x.sendFlow.assignCapacity a).1 }) (by rs_fields) (notifyCapacity_rs _)
  · rs_fields
/-- a state that is not "receive streaming" may replace any state -/
theorem setState_rs (x : Stream) (st' : State) (h : st'.isRecvStreaming = true → x.state.isRecvStreaming = true) :
    RS x { x with state := st' } := ⟨rfl, rfl, Nat.le_refl _, h⟩
theorem setReset_rs (x : Stream) (r : Reason) (i : Initiator) : RS x (x.setReset r i).1 := by
  unfold Stream.setReset
  simp only []
  refine RS.trans (b := { x with state := x.state.setReset x.id r i }) (setState_rs _ _ (fun h => by cases h)) ?_
  exact (notifySend_rs _).trans ((notifyPush_rs _).trans (notifyRecv_rs _))

/-- proves `RS x (… x …)` -/
macro "rs_tac" : tactic => `(tactic| with_reducible first
  | exact ⟨rfl, rfl, Nat.le_refl _, fun h => h⟩
  | exact notifySend_rs _ | exact notifyRecv_rs _ | exact notifyPush_rs _ | exact notifyCapacity_rs _
  | exact assignCapacity_rs _ _ _ | exact waitSend_rs _ _ | exact waitOpen_rs _ _
  | exact setReset_rs _ _ _ | exact setQueued_rs _ _ _)

-- ===================================================================== the peeling tactic

syntax "rp_side" : tactic
macro_rules | `(tactic| rp_side) => `(tactic| (intro _; rs_tac))
macro_rules | `(tactic| rp_side) => `(tactic| rs_tac)
macro_rules | `(tactic| rp_side) => `(tactic| (intro _; rfl))
macro_rules | `(tactic| rp_side) => `(tactic| exact List.mem_cons_self ..)
macro_rules | `(tactic| rp_side) => `(tactic| assumption)

open Lean Elab Tactic Meta in
/-- goal `RP X s0 (f … s …)` (possibly under `.1`): peel `f` with the lemma `f_rp` found by name -/
elab "rp_head" : tactic => withMainContext do
  let g ← getMainGoal
  let t ← instantiateMVars (← g.getType)
  let t := t.cleanupAnnotations
  unless t.isAppOfArity ``RP 3 do throwError "rp_head: not an RP goal"
  let e := t.appArg!
  let rec headOf (e : Expr) (fuel : Nat) : Option Name :=
    match fuel with
    | 0 => none
    | fuel + 1 =>
      match e with
      | .proj _ _ b => headOf b fuel
      | .mdata _ b => headOf b fuel
      | _ =>
        match e.getAppFn with
        | .const n _ =>
          if n == ``Prod.fst || n == ``Prod.snd then
            match e.getAppArgs.back? with
            | some a =>
              if a.isAppOfArity ``Prod.mk 4 then
                headOf (if n == ``Prod.fst then a.getAppArgs[2]! else a.getAppArgs[3]!) fuel
              else headOf a fuel
            | none => none
          else some n
        | _ => none
  match headOf e 8 with
  | none => throwError "rp_head: no head constant"
  | some n =>
    if n == ``Streams.mk then
      evalTactic (← `(tactic| first
        | with_reducible refine RP.trans ?_ (setMisc_rp _ _ _ _ _ _)
        | with_reducible refine RP.trans ?_ (setCounts_rp _ _)))
    else
    let last := match n with
      | .str _ s => s
      | _ => "?"
    let lemmaName := (`H2V.Lemmas.ConnNoPanicP).str (last ++ "_rp")
    unless (← getEnv).contains lemmaName do throwError "rp_head: no lemma {lemmaName}"
    let gs ← g.apply (← mkConstWithFreshMVarLevels ``RP.trans)
    let gs ← gs.filterM fun m => do
      let ty ← instantiateMVars (← m.getType)
      pure (ty.cleanupAnnotations.isAppOfArity ``RP 3)
    match gs with
    | [g1, g2] =>
      let side ← withReducible (g2.apply (← mkConstWithFreshMVarLevels lemmaName))
      replaceMainGoal (g1 :: side)
    | _ => throwError "rp_head: unexpected goals after RP.trans"

syntax "rp_step" : tactic
macro_rules | `(tactic| rp_step) => `(tactic| rp_head)
macro_rules | `(tactic| rp_step) => `(tactic| with_reducible refine RP.of_fst_eq (by with_reducible assumption) ?_)
macro_rules | `(tactic| rp_step) => `(tactic| with_reducible assumption)
macro_rules | `(tactic| rp_step) => `(tactic| with_reducible exact RP.refl _ _)

macro "rp_auto" : tactic => `(tactic| repeat (first | rp_step | rp_side | intro _ | split | dsimp only))
macro "rp_auto_ih" ih:ident : tactic =>
  `(tactic| repeat (first | rp_step | with_reducible refine RP.trans ?_ ($ih ..) | rp_side | intro _ | split | dsimp only))

-- ===================================================================== counters, `transition_after`

theorem RP.of_slab {X : List Nat} {s s' : Streams} (h : s'.store.slab = s.store.slab) : RP X s s' := ⟨fun j _ _ => by
  have : s'.stream j = s.stream j := by unfold Streams.stream Store.get?; rw [h]
  rw [this]; exact RS.refl _⟩

theorem setStoreUnlink_rp {X : List Nat} (s : Streams) (id : Nat) : RP X s { s with store := s.store.unlink id } :=
  .of_slab rfl

theorem stream_remove_ne (s : Streams) (k j leaked : Nat) (h : j ≠ k) :
    ({ s with store := s.store.remove k, recvBufferLeaked := leaked } : Streams).stream j = s.stream j := by
  unfold Streams.stream
  show ((s.store.remove k).get? j).getD _ = _
  rw [get?_remove_ne _ _ _ h]

theorem decNumStreams_rp {X : List Nat} (s : Streams) (k : Nat) : RP X s (s.decNumStreams k) := by
  unfold Streams.decNumStreams; rp_auto
theorem incNumSendStreams_rp {X : List Nat} (s : Streams) (k : Nat) : RP X s (s.incNumSendStreams k) := by
  unfold Streams.incNumSendStreams; rp_auto
theorem incNumRecvStreams_rp {X : List Nat} (s : Streams) (k : Nat) : RP X s (s.incNumRecvStreams k) := by
  unfold Streams.incNumRecvStreams; rp_auto

theorem isReleased_ref0 {x : Stream} (h : x.isReleased = true) : x.refCount = 0 := by
  unfold Stream.isReleased at h
  simp only [Bool.and_eq_true, beq_iff_eq] at h
  exact h.1.1.1.1.1.1.2

/-- `transition_after` only drops an entry without handle -/
theorem transitionAfter_rp {X : List Nat} (s : Streams) (k : Nat) (b : Bool) : RP X s (s.transitionAfter k b) := by
  rw [ConnResetP.transitionAfter_eq]
  have h1 : RP X s (ConnResetP.taPrefix s k b) := by
    unfold ConnResetP.taPrefix
    dsimp only
    generalize hs1 : (if (b && !(s.stream k).isPendingResetExpiration) = true then _ else s) = s1
    have h1 : RP X s s1 := by rw [← hs1]; rp_auto
    split
    · generalize hs2 : (if (!(s.stream k).isPendingResetExpiration) = true then _ else s1) = s2
      have h2 : RP X s s2 := by
        rw [← hs2]; split
        · exact h1.trans (setStoreUnlink_rp _ _)
        · exact h1
      rp_auto
    · exact h1
  generalize ConnResetP.taPrefix s k b = t at h1 ⊢
  unfold ConnResetP.releaseStep
  split
  · next hrel =>
    have hr0 := isReleased_ref0 hrel
    refine ⟨fun j hj hr => ?_⟩
    have hjk : j ≠ k := fun e => by
      subst e
      have := (h1.fr j hj hr).ref
      omega
    have h2 : RP X s (if (t.stream k).isCounted = true then t.decNumStreams k else t) := by rp_auto
    rw [stream_remove_ne _ _ _ _ hjk]
    exact h2.fr j hj hr
  · exact h1

theorem transition_rp {X : List Nat} {α : Type} (s : Streams) (k : Nat) (f : Streams → Streams × α) (hf : RP X s (f s).1) :
    RP X s (s.transition k f).1 := by
  have : (s.transition k f).1 = (f s).1.transitionAfter k (s.stream k).isPendingResetExpiration := by
    unfold Streams.transition; rfl
  rw [this]
  exact hf.trans (transitionAfter_rp _ _ _)

end H2V.Lemmas.ConnNoPanicP
