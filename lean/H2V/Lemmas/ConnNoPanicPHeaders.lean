import H2V.Lemmas.ConnNoPanicPFrames
/-
  C08 (no panic) — part 9: `Inner::recv_headers` keeps `NPI`.
-/
namespace H2V.Lemmas.ConnNoPanicP
open H2V H2V.Model H2V.Model.Conn H2V.Lemmas.ConnCountsP

/-- the closure of `Inner::recv_headers` -/
def recvHeadersClosure (k : Nat) (h : HeadersIn) (s : Streams) : Streams × Except PErr Unit :=
          let id := h.sid
          if !(s.stream k).state.isRecvHeaders && !h.eos then (s, .error (PErr.libraryReset id PROTOCOL_ERROR))
          else
          let (s, res) : Streams × Except PErr Unit :=
            if (s.stream k).state.isRecvHeaders then
              match s.recvRecvHeaders k h with
              | (s, .ok) => (s, .ok ())
              | (s, .oversize true) =>
                let f431 : List Hpack.Field := [{ h := (Hpack.pStatus, Http.str "431"), sensitive := false, nameless := false }]
                let s := (s.sendHeaders k true f431).1
                let s := s.scheduleImplicitReset k PROTOCOL_ERROR
                (s.enqueueResetExpiration k, .ok ())
              | (s, .oversize false) => (s, .error (PErr.libraryReset id PROTOCOL_ERROR))
              | (s, .state e) => (s, .error e)
              | (s, .unsupported) => (s.unsup "request URI outside the modelled subset", .ok ())
            else s.recvRecvTrailers k h
          s.resetOnRecvStreamErr k res

/-- what `Inner::recv_headers` does once it has the entry -/
def recvHeadersTail (k : Nat) (h : HeadersIn) (s : Streams) : Streams × Except PErr Unit :=
      let st := s.stream k
      if st.isPendingOpen then (s, .error (PErr.libraryGoAway PROTOCOL_ERROR))
      else if st.state.isLocalError then (s, .ok ())
      else s.transition k (recvHeadersClosure k h)

theorem recvHeadersClosure_le (k : Nat) (h : HeadersIn) (s : Streams) : LE [k] s (recvHeadersClosure k h s).1 := by
  unfold recvHeadersClosure
  dsimp only
  split
  · exact .refl _ _
  · have hfin : ∀ (t : Streams) (r : Except PErr Unit), LE [k] s t → LE [k] s (t.resetOnRecvStreamErr k r).1 :=
      fun t r ht => ht.trans ⟨resetOnRecvStreamErr_ltw _ _ _, resetOnRecvStreamErr_ev _ _ _⟩ (fun _ h => h)
    split
    · generalize hr : s.recvRecvHeaders k h = p
      obtain ⟨s1, res⟩ := p
      have h1 : LE [k] s s1 := LE.of_fst_eq hr (LE.of (recvRecvHeaders_lt s k h) (recvRecvHeaders_ev _ _ _))
      cases res with
      | ok => exact hfin _ _ h1
      | oversize b =>
        cases b
        · exact hfin _ _ h1
        · refine hfin _ _ ?_
          simp only []
          refine h1.trans (LE.of (ks := [k]) ?_ ?_) (fun _ h => h)
          · lt_auto
          · show EvB true _ _
            ev_auto
      | state e => exact hfin _ _ h1
      | unsupported => exact hfin _ _ (h1.step0 (unsup_lt _ _) (unsup_ev _ _))
    · generalize hr : s.recvRecvTrailers k h = p
      obtain ⟨s1, res⟩ := p
      exact hfin _ _ (LE.of_fst_eq hr (LE.of (recvRecvTrailers_lt s k h) (recvRecvTrailers_ev _ _ _)))

theorem recvHeadersTail_npi {E : Nat → Prop} {s : Streams} (hn : NPI E s) (hE : ∀ k, ¬ E k) {k : Nat} (hk : Live s k) (h : HeadersIn)
    (he' : ErrOK (recvHeadersTail k h s).1) : NPI E (recvHeadersTail k h s).1 := by
  unfold recvHeadersTail at he' ⊢
  dsimp only at he' ⊢
  split
  · exact hn
  · split
    · exact hn
    · next h1 h2 =>
      rw [if_neg h1, if_neg h2] at he'
      have hle := recvHeadersClosure_le k h s
      exact transition_npi k _ (hn.le hle (liveAll1 hk) hE) hle.ev (errOK_of_transition he')

/-- a freshly inserted entry with a peer-initiated id: the full invariant holds as it is -/
theorem NPI.insert_remote {s : Streams} (h : NPI (fun _ => False) s) (st : Stream) (hf : Fresh st)
    (hav : st.sendFlow.available.val ≤ 2147483647) (hrem : s.counts.isLocalInit st.id = false) :
    NPI (fun _ => False) { s with store := (s.store.insert st).1 } ∧
    Live { s with store := (s.store.insert st).1 } s.store.nextKey := by
  obtain ⟨h2, hl⟩ := h.insert st hf hav
  refine ⟨⟨h2.np, h2.av, h2.keys, h2.nl, h2.inv1, ?_, h2.qs, h2.ids⟩, hl⟩
  exact h.inv2.insert h.keys st hf (fun hl => by rw [isLocalInit_eq] at hrem; rw [hrem] at hl; cases hl)

theorem recvOpen_true_parity (s : Streams) (id : Nat) (h : (s.recvOpen id false).2 = .ok true) :
    s.counts.isServer = true ∧ (id % 2 == 0) = false := by
  unfold Streams.recvOpen at h
  dsimp only at h
  generalize hs0 : (if s.recv.refused.isSome = true then s.panic _ else s) = s0 at h
  have hc0 : s0.counts = s.counts := by rw [← hs0]; split; exact panic_counts _ _; rfl
  rw [← hc0]
  cases hsv : s0.counts.isServer <;> cases hpar : (id % 2 == 0) <;>
    simp only [hsv, hpar, Bool.false_or, Bool.not_false, Bool.not_true, Bool.or_false, Bool.or_true, Bool.true_or,
      if_true, Bool.false_eq_true, if_false] at h
  · cases h
  · cases h
  · exact ⟨rfl, rfl⟩
  · cases h

theorem recvOpen_true_remote {s s1 : Streams} {id : Nat} (h : s.recvOpen id false = (s1, .ok true)) :
    s1.counts.isLocalInit id = false := by
  have hp := recvOpen_true_parity s id (by rw [h])
  have hr := (recvOpen_ev (ρ := true) s id false).nx.role
  rw [h] at hr
  unfold Counts.isLocalInit
  rw [hr, hp.1, hp.2]; rfl

/-- **`Inner::recv_headers` keeps the invariant** (no panic), given that no refusal is pending
    (`Connection::poll` sends the pending refusal before it reads the next frame) -/
theorem recvHeaders_npi {s : Streams} (hn : NPI (fun _ => False) s) (h : HeadersIn) (href : s.recv.refused = none)
    (he' : ErrOK (s.recvHeaders h).1) : NPI (fun _ => False) (s.recvHeaders h).1 := by
  unfold Streams.recvHeaders at he' ⊢
  dsimp only at he' ⊢
  split
  · exact hn
  · next hmax =>
    rw [if_neg hmax] at he'
    cases hfk : s.store.findKey? h.sid with
    | some k =>
      simp only [hfk] at he' ⊢
      exact recvHeadersTail_npi hn (fun _ h => h) (hn.ids.findKey hfk).1 h he'
    | none =>
      simp only [hfk] at he' ⊢
      by_cases hforg : (!s.counts.isServer && s.mayHaveForgottenStream h.sid) = true
      · simp only [hforg, if_true]; exact hn
      · simp only [hforg, Bool.false_eq_true, if_false] at he' ⊢
        generalize hro : s.recvOpen h.sid false = p at he' ⊢
        obtain ⟨s1, res⟩ := p
        have h1 : NPI (fun _ => False) s1 :=
          hn.lt (LT.of_fst_eq hro (recvOpen_lt s h.sid false href)).w (liveAll0 s)
            (EvB.of_fst_eq hro (recvOpen_ev (ρ := true) s h.sid false)) (fun _ _ h => h)
        cases res with
        | error e => exact h1
        | ok b =>
          cases b
          · exact h1
          · simp only [] at he' ⊢
            have hrem : s1.counts.isLocalInit (Stream.new h.sid s1.actions.send.initWindowSz s1.recv.initWindowSz).id = false :=
              recvOpen_true_remote hro
            obtain ⟨h2, hl2⟩ := h1.insert_remote _ (fresh_new _ _ _) (new_av _ _ _) hrem
            exact recvHeadersTail_npi h2 (fun _ h => h) hl2 h he'

end H2V.Lemmas.ConnNoPanicP
