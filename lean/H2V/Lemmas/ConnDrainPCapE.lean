import H2V.Lemmas.ConnDrainPCapD
/-
  ConnDrainP, part 18 — `KInv` through streams.rs: every function of the `Streams` API (the constructors of
  ConnFlowP's `Reach`), with the decoder's bounds on WINDOW_UPDATE increments and SETTINGS_INITIAL_WINDOW_SIZE.
-/
namespace H2V.Lemmas.ConnDrainP
open H2V H2V.Model H2V.Model.Conn
open H2V.Lemmas.ConnFlowP H2V.Lemmas.Comp

theorem KInv.applyLocalSettings {t : Streams} (h : KInv t) (a b : Option Nat) : KInv (t.applyLocalSettings a b).1 := by
  k_by Streams.applyLocalSettings
macro_rules | `(tactic| k_peel) => `(tactic| with_reducible apply KInv.applyLocalSettings)

section
variable {s : Streams}

theorem KInv.resetOnRecvStreamErr (h : KInv s) (id : Nat) (r : Except PErr Unit) :
    KInv (s.resetOnRecvStreamErr id r).1 := by
  k_by Streams.resetOnRecvStreamErr
macro_rules | `(tactic| k_peel) => `(tactic| with_reducible apply KInv.resetOnRecvStreamErr)

theorem KInv.actionsSendReset (h : KInv s) (id : Nat) (r : Reason) (i : Initiator) :
    KInv (s.actionsSendReset id r i).1 := by
  k_by Streams.actionsSendReset
macro_rules | `(tactic| k_peel) => `(tactic| with_reducible apply KInv.actionsSendReset)

theorem KInv.clearQueues (h : KInv s) (b : Bool) : KInv (s.clearQueues b) := by
  k_by Streams.clearQueues
macro_rules | `(tactic| k_peel) => `(tactic| with_reducible apply KInv.clearQueues)

theorem KInv.recvHeaders (h : KInv s) (hd : HeadersIn) : KInv (s.recvHeaders hd).1 := by
  k_by Streams.recvHeaders

theorem KInv.recvData (h : KInv s) (id : Nat) (p : Bytes) (eos : Bool) (pad : Option Nat) :
    KInv (s.recvData id p eos pad).1 := by
  k_by Streams.recvData

theorem KInv.recvReset (h : KInv s) (id : Nat) (r : Reason) : KInv (s.recvReset id r).1 := by
  k_by Streams.recvReset

theorem KInv.recvWindowUpdate (h : KInv s) (id inc : Nat) (hinc : inc ≤ 2147483647) :
    KInv (s.recvWindowUpdate id inc).1 := by
  unfold Streams.recvWindowUpdate
  split
  · have := h.recvConnectionWindowUpdate inc hinc
    split
    · rename_i heq; rw [heq] at this; exact this
    · rename_i heq; rw [heq] at this; exact this
  · split
    · split
      · exact h
      · have := h.sendRecvStreamWindowUpdate ‹_› inc hinc
        dsimp only
        exact KInv.resetOnRecvStreamErr this _ _
    · split <;> exact h

set_option maxHeartbeats 800000 in
theorem KInv.recvPushPromise (h : KInv s) (id : Nat) (hd : HeadersIn) : KInv (s.recvPushPromise id hd).1 := by
  k_by Streams.recvPushPromise

theorem KInv.handleError (h : KInv s) (e : PErr) : KInv (s.handleError e).1 := by
  k_by Streams.handleError

theorem KInv.recvGoAwayFrame (h : KInv s) (l : Nat) (r : Reason) (d : Bytes) :
    KInv (s.recvGoAwayFrame l r d).1 := by
  k_by Streams.recvGoAwayFrame

theorem KInv.recvEof (h : KInv s) (b : Bool) : KInv (s.recvEof b) := by
  k_by Streams.recvEof

theorem KInv.innerSendReset (h : KInv s) (id : Nat) (r : Reason) : KInv (s.innerSendReset id r).1 := by
  k_by Streams.innerSendReset

theorem KInv.bufferPending (h : KInv s) (fuel : Nat) (w : Writer) : KInv (Streams.bufferPending fuel s w).1 := by
  k_by Streams.bufferPending
macro_rules | `(tactic| k_peel) => `(tactic| with_reducible apply KInv.bufferPending)

theorem KInv.pollComplete (fuel : Nat) :
    ∀ {s : Streams}, KInv s → ∀ w io tag, KInv (Streams.pollComplete fuel s w io tag).1 := by
  induction fuel with
  | zero => intro s h w io tag; unfold Streams.pollComplete; k_auto
  | succ n ih => intro s h w io tag; unfold Streams.pollComplete; dsimp only; k_auto

theorem KInv.pollSendPendingRefusal (fuel : Nat) :
    ∀ {s : Streams}, KInv s → ∀ w io tag, KInv (Streams.pollSendPendingRefusal fuel s w io tag).1 := by
  induction fuel with
  | zero => intro s h w io tag; unfold Streams.pollSendPendingRefusal; k_auto
  | succ n ih => intro s h w io tag; unfold Streams.pollSendPendingRefusal; k_auto

/-- SETTINGS of the peer; identifier 4 (initial window size) carries a 31-bit value -/
theorem KInv.applyRemoteSettings (h : KInv s) (vals : List (Nat × Nat)) (b : Bool)
    (hv : ∀ v, (vals.find? (·.1 = 4)).map (·.2) = some v → v ≤ 2147483647) :
    KInv (s.applyRemoteSettings vals b).1 := by
  unfold Streams.applyRemoteSettings
  dsimp only
  exact KInv.sendApplyRemoteSettings (h.modCounts _) _ _ _ hv

theorem KInv.applyLocalSettingsFrame (h : KInv s) (vals : List (Nat × Nat)) :
    KInv (s.applyLocalSettingsFrame vals).1 := by
  k_by Streams.applyLocalSettingsFrame

theorem KInv.refInc (h : KInv s) (id : Nat) : KInv (s.refInc id) := by
  k_by Streams.refInc
macro_rules | `(tactic| k_peel) => `(tactic| with_reducible apply KInv.refInc)

theorem KInv.cloneStreamRef (h : KInv s) (id : Nat) : KInv (s.cloneStreamRef id) := by
  k_by Streams.cloneStreamRef

theorem KInv.maybeCancel (h : KInv s) (id : Nat) : KInv (s.maybeCancel id) := by
  k_by Streams.maybeCancel
macro_rules | `(tactic| k_peel) => `(tactic| with_reducible apply KInv.maybeCancel)

theorem KInv.foldl' {α : Type} {f : Streams → α → Streams} {l : List α} {t : Streams}
    (hf : ∀ t a, KInv t → KInv (f t a)) (h : KInv t) : KInv (l.foldl f t) := by
  induction l generalizing t with
  | nil => exact h
  | cons a l ih => exact ih (hf _ a h)

macro_rules | `(tactic| k_peel) => `(tactic|
  (with_reducible apply KInv.foldl'; (· intro _ _ _; (try unfold Streams.transition); (try dsimp only); k_auto)))

theorem KInv.dropStreamRef (h : KInv s) (id : Nat) : KInv (s.dropStreamRef id) := by
  k_by Streams.dropStreamRef

theorem KInv.sendRequest (h : KInv s) (b : Bool) (f : List Hpack.Field) (eos : Bool) (p : Option Nat) :
    KInv (s.sendRequest b f eos p).1 := by
  k_by Streams.sendRequest

theorem KInv.pollPendingOpen (h : KInv s) (p : Option Nat) (tag : String) : KInv (s.pollPendingOpen p tag).1 := by
  k_by Streams.pollPendingOpen

theorem KInv.nextIncoming (h : KInv s) : KInv s.nextIncoming.1 := by
  k_by Streams.nextIncoming

theorem KInv.refSendResponse (h : KInv s) (k : Nat) (f : List Hpack.Field) (eos : Bool) :
    KInv (s.refSendResponse k f eos).1 := by
  k_by Streams.refSendResponse

theorem KInv.refSendInformationalHeaders (h : KInv s) (k : Nat) (f : List Hpack.Field) :
    KInv (s.refSendInformationalHeaders k f).1 := by
  k_by Streams.refSendInformationalHeaders

theorem KInv.refSendPushPromise (h : KInv s) (k : Nat) (b : Bool) (f : List Hpack.Field) :
    KInv (s.refSendPushPromise k b f).1 := by
  k_by Streams.refSendPushPromise

theorem KInv.cloneHandle (h : KInv s) : KInv s.cloneHandle := by
  k_by Streams.cloneHandle

theorem KInv.dropHandle (h : KInv s) : KInv s.dropHandle := by
  k_by Streams.dropHandle

theorem KInv.refSendData (h : KInv s) (id len : Nat) (eos : Bool) : KInv (s.refSendData id len eos).1 := by
  k_by Streams.refSendData

theorem KInv.refSendTrailers (h : KInv s) (id : Nat) (f : List Hpack.Field) : KInv (s.refSendTrailers id f).1 := by
  k_by Streams.refSendTrailers

theorem KInv.refSendReset (h : KInv s) (id : Nat) (r : Reason) : KInv (s.refSendReset id r) := by
  k_by Streams.refSendReset

theorem KInv.refReserveCapacity (h : KInv s) (id c : Nat) : KInv (s.refReserveCapacity id c) := by
  k_by Streams.refReserveCapacity

theorem KInv.refPollData (h : KInv s) (id : Nat) (tag : String) : KInv (s.refPollData id tag).1 := by
  k_by Streams.refPollData

theorem KInv.refReleaseCapacity (h : KInv s) (id c : Nat) : KInv (s.refReleaseCapacity id c).1 := by
  k_by Streams.refReleaseCapacity

theorem KInv.refClearRecvBuffer (h : KInv s) (id : Nat) : KInv (s.refClearRecvBuffer id) := by
  k_by Streams.refClearRecvBuffer

end


end H2V.Lemmas.ConnDrainP
