import H2V.Lemmas.ConnPartPBooks
/-
  ConnPartP, part 11 — C03: `handle_poll2_result`, `proto::Connection::poll`, `client::Connection::poll`,
  the user-side calls; connection-level reachability `SReach` and the theorem
  **`Dead c` or the stream layer is `ReachOk`** for every reachable connection (`sreach_books`).
-/
namespace H2V.Lemmas.ConnPartP
open H2V H2V.Model H2V.Model.Conn
open H2V.Model.Conn.Streams
open H2V.Lemmas.ConnRecvP
open H2V.Lemmas.ConnCtlP (Dead Halting)

variable {T H : Nat}

/-- the books are good, or the connection is dead -/
def BK (T H : Nat) (c : Conn) : Prop := SInv T H c ∨ Dead c

/-- `handle_poll2_result` with good books: they stay good, or the connection dies -/
theorem handlePoll2Result_bk {c : Conn} (h : SInv T H c) (res : Except PErr Unit) : BK T H (c.handlePoll2Result res).1 := by
  cases res with
  | ok u => exact Or.inr (H2V.Lemmas.ConnCtlP.handlePoll2Result_kills c _ (Or.inl rfl))
  | error e =>
    cases e with
    | goAway d r i => exact Or.inr (H2V.Lemmas.ConnCtlP.handlePoll2Result_kills c _ (Or.inr ⟨d, r, i, rfl⟩))
    | reset id reason init =>
      unfold Conn.handlePoll2Result
      dsimp only
      split
      · exact Or.inl h
      · split
        · next s u heq =>
          left
          have hok : (Op.innerSendReset id reason).ok c.streams := by
            show (c.streams.innerSendReset id reason).2 = .ok ()
            rw [heq]
          have h1 : SI T H (c.streams.innerSendReset id reason).1 c.settings.loc :=
            h.op (.innerSendReset id reason) trivial hok
          rw [heq] at h1
          exact h1
        · next s g heq =>
          exact Or.inr (H2V.Lemmas.ConnCtlP.handleGoAway_spec _ _ _ _).1
    | io kind msg =>
      unfold Conn.handlePoll2Result
      dsimp only
      left
      split <;> exact h.op (.handleError _) trivial trivial

/-- a dead connection stays dead through `proto::Connection::poll` -/
theorem protoPoll_dead (fuel : Nat) (c : Conn) (hd : Dead c) : Dead (Conn.protoPoll fuel c).1 := by
  have := (H2V.Lemmas.ConnCtlP.protoPollT_dead fuel c hd).2.1
  rw [H2V.Lemmas.ConnCtlP.protoPollT_fst] at this
  exact this

theorem clientPoll_dead (fuel : Nat) (c : Conn) (hd : Dead c) : Dead (Conn.clientPoll fuel c).1 := by
  have := (H2V.Lemmas.ConnCtlP.clientPollT_dead fuel c hd).2.1
  rw [H2V.Lemmas.ConnCtlP.clientPollT_fst] at this
  exact this

theorem protoPoll_bk' (fuel : Nat) {c : Conn} (h : BK T H c) : BK T H (Conn.protoPoll fuel c).1 := by
  rcases h with h | h
  · induction fuel generalizing c with
    | zero => unfold Conn.protoPoll; exact Or.inl (panic_sinv h _)
    | succ fuel ih =>
      unfold Conn.protoPoll
      split
      · -- open
        have h1 := poll2_p2 (fuel + 1) h
        split
        · rename_i c1 result heq
          rw [heq] at h1
          have h2 : BK T H (c1.handlePoll2Result result).1 := by
            rcases h1 with h1 | ⟨d, rs, i, h1⟩
            · exact handlePoll2Result_bk h1 result
            · simp only [PollRes.ready.injEq] at h1
              exact Or.inr (H2V.Lemmas.ConnCtlP.handlePoll2Result_kills c1 _ (Or.inr ⟨d, rs, i, h1⟩))
          split
          · rename_i c2 u heq2
            rw [heq2] at h2
            rcases h2 with h2 | h2
            · exact ih h2
            · exact Or.inr (protoPoll_dead fuel c2 h2)
          · rename_i c2 e heq2
            rw [heq2] at h2; exact h2
        · rename_i c1 heq
          rw [heq] at h1
          have h1 : SInv T H c1 := by
            rcases h1 with h1 | ⟨d, rs, i, h1⟩
            · exact h1
            · cases h1
          have h2 : SI T H (Streams.pollComplete (fuel + 1) c1.streams c1.codec.w c1.codec.io c1.cx).1 c1.settings.loc :=
            h1.op (.pollComplete (fuel + 1) c1.codec.w c1.codec.io c1.cx) trivial trivial
          dsimp only
          split
          · exact Or.inl h2
          · exact Or.inl h2
          · split
            · exact ih (goAwayNow_sinv (c := { c1 with streams := _, codec := _ }) h2 _)
            · exact Or.inl h2
      · -- closing
        dsimp only
        split
        · exact Or.inl h
        · exact Or.inl h
        · exact ih (c := { c with codec := _, state := _ }) h
      · -- closed
        dsimp only
        exact Or.inl (takeError_sinv h _ _)
  · exact Or.inr (protoPoll_dead fuel c h)

theorem clientPoll_bk (fuel : Nat) {c : Conn} (h : BK T H c) : BK T H (Conn.clientPoll fuel c).1 := by
  rcases h with h | h
  · unfold Conn.clientPoll
    dsimp only
    have h1 : SInv T H (if (!c.hasStreamsOrOtherReferences) = true then c.goAwayNow NO_ERROR else c) :=
      sinv_ite (goAwayNow_sinv h _) h
    generalize (if (!c.hasStreamsOrOtherReferences) = true then c.goAwayNow NO_ERROR else c) = c1 at h1 ⊢
    have h2 := protoPoll_bk' fuel (Or.inl h1)
    rcases h2 with h2 | h2
    · left
      repeat' split
      all_goals first | exact h2 | exact h2.op (.wake _) trivial trivial
    · right
      repeat' split
      all_goals first | exact h2 | exact h2.of_goAway_state rfl rfl
  · exact Or.inr (clientPoll_dead fuel c h)

theorem goAwayGracefully_sinv {c : Conn} (h : SInv T H c) : SInv T H c.goAwayGracefully := by
  unfold Conn.goAwayGracefully
  split
  · exact h
  · dsimp only
    have h1 := dynGoAway_sinv h Conn.STREAM_ID_MAX NO_ERROR
    exact sinv_ite (panic_sinv h1 _) h1

theorem goAwayFromUser_sinv {c : Conn} (h : SInv T H c) (e : Reason) : SInv T H (c.goAwayFromUser e) := by
  unfold Conn.goAwayFromUser
  dsimp only
  split
  · exact h.op (.handleError _) trivial trivial
  · exact (h.op (.panic _) trivial trivial).op (.handleError _) trivial trivial

-- ===================================================================== the initial connections

theorem init_sinv (cfg : Conn.Cfg) (hv : CfgValid cfg) : SInv (cfgTarget cfg) (max 65535 (cfgTarget cfg)) (Conn.init cfg) := by
  constructor
  · unfold cfgTarget
    cases hc : cfg.cws with
    | none => exact ⟨_, .init (init_client cfg hc), rfl, rfl⟩
    | some sz =>
      refine ⟨Ghost.init.setTarget sz, ?_, rfl, rfl⟩
      unfold Conn.init
      simp only [hc]
      refine ReachOk.step (.setTargetConnectionWindow sz) (.init ?_) (hv.2 sz hc) trivial
      exact ⟨rfl, rfl, flowInit_eq, rfl, rfl⟩
  · exact (init_cinv cfg hv).2

theorem init_server_sinv (cfg : Conn.Cfg) (ecp : Bool) (pf : Bytes) (hv : CfgValid cfg) :
    SInv (cfgTarget cfg) (max 65535 (cfgTarget cfg)) (Conn.initServer cfg ecp pf) := by
  constructor
  · unfold cfgTarget
    cases hc : cfg.cws with
    | none => exact ⟨_, .init (init_server cfg ecp pf hc), rfl, rfl⟩
    | some sz =>
      refine ⟨Ghost.init.setTarget sz, ?_, rfl, rfl⟩
      unfold Conn.initServer
      simp only [hc]
      refine ReachOk.step (.setTargetConnectionWindow sz) (.init ?_) (hv.2 sz hc) trivial
      exact ⟨rfl, rfl, flowInit_eq, rfl, rfl⟩
  · exact (init_server_cinv cfg ecp pf hv).2

-- ===================================================================== the user-side calls keep a dead connection dead

theorem dead_of_same {c c' : Conn} (h : Dead c) (hg : c'.goAway = c.goAway) (hs : c'.state = c.state) : Dead c' :=
  h.of_goAway_state hg hs

theorem userSendPing_dead {c : Conn} (h : Dead c) : Dead c.userSendPing.1 := by
  unfold Conn.userSendPing
  (repeat' split) <;> exact h.of_goAway_state rfl rfl

theorem userPollPong_dead {c : Conn} (h : Dead c) (t : String) : Dead (c.userPollPong t).1 := by
  unfold Conn.userPollPong
  split
  · exact h
  · dsimp only
    (repeat' split) <;> exact h.of_goAway_state rfl rfl

theorem dropUserPingsRx_dead {c : Conn} (h : Dead c) : Dead c.dropUserPingsRx := by
  unfold Conn.dropUserPingsRx
  split
  · exact h
  · exact h.of_goAway_state rfl rfl

theorem takeUserPings_dead {c : Conn} (h : Dead c) : Dead c.takeUserPings.1 := by
  unfold Conn.takeUserPings; split <;> exact h.of_goAway_state rfl rfl

theorem setInitialWindowSize_dead {c : Conn} (h : Dead c) (size : Nat) : Dead (c.setInitialWindowSize size).1 := by
  unfold Conn.setInitialWindowSize Conn.sendSettings
  split <;> exact h.of_goAway_state rfl rfl

-- ===================================================================== connection-level reachability

/-- the connection window configured last / the largest so far, after the call: as in ConnRecvP -/
theorem COp.step_bk {c : Conn} (h : BK T H c) (op : COp) (hv : op.valid c)
    (hh : ∀ o, op = .handle o → o.ok c.streams) :
    BK (op.target T) (op.hi H) (op.apply c) := by
  cases op with
  | protoPoll fuel => exact protoPoll_bk' fuel h
  | clientPoll fuel => exact clientPoll_bk fuel h
  | setTargetWindowSize size =>
    rcases h with h | h
    · exact Or.inl (setTargetWindowSize_sinv h size hv)
    · exact Or.inr (h.of_goAway_state rfl rfl)
  | setInitialWindowSize size =>
    rcases h with h | h
    · exact Or.inl (setInitialWindowSize_sinv h size hv)
    · exact Or.inr (setInitialWindowSize_dead h size)
  | goAwayGracefully =>
    rcases h with h | h
    · exact Or.inl (goAwayGracefully_sinv h)
    · exact Or.inr ((H2V.Lemmas.ConnCtlP.inert_goAwayGracefully c).2 h)
  | goAwayFromUser e =>
    rcases h with h | h
    · exact Or.inl (goAwayFromUser_sinv h e)
    · exact Or.inr (Or.inl (H2V.Lemmas.ConnCtlP.inert_goAwayFromUser c e).2)
  | goAwayNow e =>
    rcases h with h | h
    · exact Or.inl (goAwayNow_sinv h e)
    · exact Or.inr (Or.inl (H2V.Lemmas.ConnCtlP.goAwayNow_halting c e))
  | userSendPing =>
    rcases h with h | h
    · exact Or.inl (userSendPing_sinv h)
    · exact Or.inr (userSendPing_dead h)
  | userPollPong t =>
    rcases h with h | h
    · exact Or.inl (userPollPong_sinv h t)
    · exact Or.inr (userPollPong_dead h t)
  | dropUserPingsRx =>
    rcases h with h | h
    · exact Or.inl (dropUserPingsRx_sinv h)
    · exact Or.inr (dropUserPingsRx_dead h)
  | takeUserPings =>
    rcases h with h | h
    · exact Or.inl (takeUserPings_sinv h)
    · exact Or.inr (takeUserPings_dead h)
  | handle op =>
    rcases h with h | h
    · -- a handle never calls `apply_local_settings` / `Inner::send_reset` (`hh`)
      exact Or.inl (h.op op hv.1 (hh op rfl) hv.2)
    · exact Or.inr (h.of_goAway_state rfl rfl)

/-- connections reachable from a new client or server connection — as ConnRecvP's `CReach`, with two
    differences: a `handle` step is a stream-layer call the HANDLES make (so not `apply_local_settings`
    or `Inner::send_reset`, which only `Connection::poll` calls: `op.ok` is asked of it), and the
    environment step leaves `go_away` and the connection state alone (it stands for the transport and
    the wakers) -/
inductive SReach : Nat → Nat → Conn → Prop where
  | client (cfg : Conn.Cfg) (hv : CfgValid cfg) : SReach (cfgTarget cfg) (max 65535 (cfgTarget cfg)) (Conn.init cfg)
  | server (cfg : Conn.Cfg) (ecp : Bool) (pf : Bytes) (hv : CfgValid cfg) :
      SReach (cfgTarget cfg) (max 65535 (cfgTarget cfg)) (Conn.initServer cfg ecp pf)
  | step {T H : Nat} {c : Conn} (op : COp) (h : SReach T H c) (hv : op.valid c)
      (hh : ∀ o, op = .handle o → o.ok c.streams) : SReach (op.target T) (op.hi H) (op.apply c)
  | env {T H : Nat} {c c' : Conn} (h : SReach T H c) (hs : c'.streams = c.streams) (hl : c'.settings = c.settings)
      (hg : c'.goAway = c.goAway) (hst : c'.state = c.state) : SReach T H c'

/-- **books or dead**: for every reachable connection the stream layer is in a `ReachOk` state — no
    `apply_local_settings` / `Inner::send_reset` has failed — or the connection is dead -/
theorem sreach_bk {c : Conn} (h : SReach T H c) : BK T H c := by
  induction h with
  | client cfg hv => exact Or.inl (init_sinv cfg hv)
  | server cfg ecp pf hv => exact Or.inl (init_server_sinv cfg ecp pf hv)
  | step op _ hv hh ih => exact COp.step_bk ih op hv hh
  | env _ hs hl hg hst ih =>
    rcases ih with ih | ih
    · left; unfold SInv; rw [hs, hl]; exact ih
    · right; exact ih.of_goAway_state hg hst

/-- **every receive window of every stream is conserved, or the connection is dying**: for every
    reachable connection, `Dead c` or the full (connection- and stream-level) invariant of ConnRecvP holds
    for its stream layer, with `target = T` -/
theorem sreach_books {c : Conn} (h : SReach T H c) :
    Dead c ∨ ∃ g, Inv true g c.streams ∧ g.target = T ∧ g.hiTarget = H := by
  rcases sreach_bk h with ⟨⟨g, hg, ht, hh⟩, -⟩ | hd
  · exact Or.inr ⟨g, reachOk_inv hg, ht, hh⟩
  · exact Or.inl hd

/-- an `SReach` connection is a `CReach` connection: the connection-level theorems of ConnRecvP apply to
    it unconditionally (dead or not) -/
theorem SReach.creach {c : Conn} (h : SReach T H c) : CReach T H c := by
  induction h with
  | client cfg hv => exact .client cfg hv
  | server cfg ecp pf hv => exact .server cfg ecp pf hv
  | step op _ hv _ ih => exact .step op ih hv
  | env _ hs hl _ _ ih => exact .env ih hs hl

end H2V.Lemmas.ConnPartP
