import H2V.Lemmas.ConnHttpPFail
import H2V.Lemmas.ConnHttpPBody
/-
  C13 (ConnHttpP), part 19 — `Inner::recv_data` (streams.rs): what it hands over, and that a DATA frame
  refused with a stream error (beyond / short of the content-length, flow control) fails the stream.
-/
namespace H2V.Lemmas.ConnHttpP
open H2V H2V.Model H2V.Model.Conn

/-- the closure `Inner::recv_data` hands to `counts.transition` -/
def rdBody (s : Streams) (k : Nat) (payload : Bytes) (eos : Bool) (padLen : Option Nat) : Streams × Except PErr Unit :=
  let flowLen := flowLenOf payload padLen
  let sz := flowLen
  let (s, res) := s.recvRecvData k payload eos padLen
  let (s, res) : Streams × Except PErr Unit :=
    match res with
    | .ok _ =>
      if !eos then
        let (c, ok) := s.counts.recordDataFrame payload.length
        let s := { s with counts := c }
        if ok then (s, .ok ()) else (s, .error (PErr.libraryGoAwayData ENHANCE_YOUR_CALM "too_many_data_frames"))
      else (s, .ok ())
    | .error e => (s, .error e)
  let s := match res with
    | .error (.reset ..) => s.releaseConnectionCapacity (usizeAsU32 sz) false
    | _ => s
  s.resetOnRecvStreamErr k res

theorem recvData_eq (s : Streams) (id : Nat) (payload : Bytes) (eos : Bool) (padLen : Option Nat) :
    s.recvData id payload eos padLen =
      let flowLen := flowLenOf payload padLen
      match s.store.findKey? id with
      | none =>
        if id > s.recv.maxStreamId then
          match s.ignoreData (usizeAsU32 flowLen) with
          | (s, .error e) => (s, .error e)
          | (s, .ok _) => (s, .ok ())
        else if s.mayHaveForgottenStream id then
          match s.ignoreData (usizeAsU32 flowLen) with
          | (s, .error e) => (s, .error e)
          | (s, .ok _) => (s, .error (PErr.libraryReset id STREAM_CLOSED))
        else (s, .error (PErr.libraryGoAway PROTOCOL_ERROR))
      | some k => s.transition k fun s => rdBody s k payload eos padLen := rfl


theorem rdBody_delivers (s : Streams) (k : Nat) (payload : Bytes) (eos : Bool) (padLen : Option Nat) :
    Delivers (fun k' ev => k' = k ∧ DataAccepted payload eos ev) s (rdBody s k payload eos padLen).1 := by
  unfold rdBody
  simp only
  have d := (recvRecvData_delivers s k payload eos padLen).1
  generalize s.recvRecvData k payload eos padLen = r at d ⊢
  obtain ⟨s1, res⟩ := r
  simp only at d ⊢
  cases res with
  | error e =>
    simp only
    refine d.step ?_
    apply Quiet.resetOnRecvStreamErr
    split
    · exact (Quiet.refl _).releaseConnectionCapacity _ _
    · exact Quiet.refl _
  | ok u =>
    simp only
    cases eos with
    | true =>
      simp only [Bool.not_true, Bool.false_eq_true, if_false]
      exact d.step ((Quiet.refl _).resetOnRecvStreamErr _ _)
    | false =>
      simp only [Bool.not_false, if_true]
      generalize s1.counts.recordDataFrame payload.length = rc
      obtain ⟨c, ok⟩ := rc
      simp only
      cases ok with
      | true =>
        simp only [if_true]
        refine d.step ?_
        apply Quiet.resetOnRecvStreamErr
        exact quiet_of_slab rfl
      | false =>
        simp only [Bool.false_eq_true, if_false]
        refine d.step ?_
        apply Quiet.resetOnRecvStreamErr
        exact quiet_of_slab rfl

/-- **`Inner::recv_data`, every state, every frame**: all that reaches any receive queue is at most
    one `data` event carrying this payload -/
theorem recvData_delivers (s : Streams) (id : Nat) (payload : Bytes) (eos : Bool) (padLen : Option Nat) :
    Delivers (fun _ ev => DataAccepted payload eos ev) s (s.recvData id payload eos padLen).1 := by
  rw [recvData_eq]
  simp only
  split
  · generalize usizeAsU32 (flowLenOf payload padLen) = sz
    have q := (Quiet.refl s).ignoreData sz
    generalize s.ignoreData sz = r at q ⊢
    obtain ⟨s1, res⟩ := r
    split
    · cases res <;> exact Quiet.delivers q
    · split
      · cases res <;> exact Quiet.delivers q
      · exact (Quiet.refl s).delivers
  · rename_i k _
    unfold Streams.transition
    simp only
    exact ((rdBody_delivers s k payload eos padLen).mono (fun _ ev h => h.2)).step ((Quiet.refl _).transitionAfter _ _)

theorem releaseConnectionCapacity_store (s : Streams) (c : Nat) (t : Bool) :
    (s.releaseConnectionCapacity c t).store = s.store := by
  unfold Streams.releaseConnectionCapacity
  simp only
  split
  · unfold Streams.notifyTask; split <;> rfl
  · rfl

/-- **a DATA frame that `Recv::recv_data` refuses with a stream error** (payload beyond the
    content-length, END_STREAM short of it, stream window exceeded) **fails the stream (or the
    connection)** -/
theorem refused_data_fails (s : Streams) (k : Nat) (payload : Bytes) (eos : Bool) (padLen : Option Nat)
    (i : Nat) (reason : Reason) (init : Initiator)
    (hr : (s.recvRecvData k payload eos padLen).2 = .error (.reset i reason init)) :
    FailsStream (s.recvRecvData k payload eos padLen).1 k reason init
      (s.transition k fun s => rdBody s k payload eos padLen) := by
  unfold Streams.transition rdBody
  simp only
  generalize s.recvRecvData k payload eos padLen = r at hr ⊢
  obtain ⟨s0, res⟩ := r
  simp only at hr
  subst hr
  simp only
  have := reset_then_transitionAfter (s0.releaseConnectionCapacity (usizeAsU32 (flowLenOf payload padLen)) false)
    k i reason init (s.stream k).isPendingResetExpiration
  unfold FailsStream at this ⊢
  rw [releaseConnectionCapacity_store] at this
  exact this

/-- which DATA frames are refused that way: payload beyond what is left of the content-length, and
    END_STREAM with something left (`recv_data` answers `library_reset(PROTOCOL_ERROR)`) -/
theorem data_against_content_length_refused (s : Streams) (k : Nat) (payload : Bytes) (eos : Bool)
    (padLen : Option Nat) (cl : ContentLength) (hk : clOf s k = some cl)
    (hnl : (s.stream k).state.isLocalError = false)
    (hbad : decCL cl payload.length = none ∨ (eos = true ∧ ∀ cl', decCL cl payload.length = some cl' → zeroCL cl' = false)) :
    (s.recvRecvData k payload eos padLen).2 ≠ .ok () := by
  intro hok
  obtain ⟨cl', d1, d2, -⟩ := recvRecvData_cl s k payload eos padLen cl hk hnl hok
  rcases hbad with h | ⟨he, h⟩
  · rw [h] at d1; cases d1
  · have := h cl' d1
    rw [d2 he] at this; cases this

end H2V.Lemmas.ConnHttpP
