import H2V.Lemmas.ConnCountsPSend2
/-
  C05 / C18 / C19 — part 8: `Ev` for `recv.rs` (`ConnRecv.lean`).
-/
namespace H2V.Lemmas.ConnCountsP
open H2V H2V.Model H2V.Model.Conn
variable {ρ : Bool}
attribute [local irreducible] wrapSubU32 wrapSubUsize

-- ===================================================================== updates of `Counts`

theorem cstep_budget (c : Counts) (b : Budget) (n : Nat) : CStep c { c with dataFrameBudget := b, numRecvEmptyDataFrames := n } :=
  ⟨rfl, rfl, rfl, rfl, rfl, rfl, rfl, rfl, .inl rfl, .inl (Nat.le_refl _)⟩

theorem cstep_releaseDataFrame (c : Counts) (n : Nat) : CStep c (c.releaseDataFrame n) := by
  unfold Counts.releaseDataFrame
  dsimp only
  split
  · exact cstep_budget c _ _
  · exact CStep.refl _

theorem cstep_recordDataFrame (c : Counts) (n : Nat) : CStep c (c.recordDataFrame n).1 := by
  unfold Counts.recordDataFrame
  dsimp only
  split
  · split
    · exact CStep.refl _
    · exact cstep_budget c _ _
  · split
    · split
      · exact cstep_budget c _ _
      · exact CStep.refl _
    · exact cstep_budget c _ _

theorem cstep_applyRemoteSettings (c : Counts) (v : Option Nat) (b : Bool) : CStep c (c.applyRemoteSettings v b) := by
  unfold Counts.applyRemoteSettings
  repeat' split
  all_goals first | exact CStep.refl _ | exact ⟨rfl, rfl, rfl, rfl, rfl, rfl, rfl, rfl, .inl rfl, .inl (Nat.le_refl _)⟩

theorem cstep_incErr {c c' : Counts} (h : c.incNumLocalErrorResets = some c') : CStep c c' := by
  unfold Counts.incNumLocalErrorResets at h
  split at h
  · next hc => cases h; exact ⟨rfl, rfl, rfl, rfl, rfl, rfl, rfl, rfl, .inr ⟨rfl, hc⟩, .inl (Nat.le_refl _)⟩
  · cases h

theorem cstep_incRemote {c c' : Counts} (h : c.incNumRemoteResetStreams = some c') : CStep c c' := by
  unfold Counts.incNumRemoteResetStreams at h
  split at h
  · next hc => cases h; exact ⟨rfl, rfl, rfl, rfl, rfl, rfl, rfl, rfl, .inl rfl, .inr ⟨rfl, hc⟩⟩
  · cases h

theorem cstep_decRemote {c c' : Counts} (h : c.decNumRemoteResetStreams = some c') : CStep c c' := by
  unfold Counts.decNumRemoteResetStreams at h
  split at h
  · cases h; exact ⟨rfl, rfl, rfl, rfl, rfl, rfl, rfl, rfl, .inl rfl, .inl (Nat.sub_le _ _)⟩
  · cases h

macro_rules | `(tactic| ev_side) => `(tactic| (intro st hst; rw [stream_of_get? hst] at *; state_tac))
macro_rules | `(tactic| ev_side) => `(tactic| exact cstep_releaseDataFrame _ _)
macro_rules | `(tactic| ev_side) => `(tactic| exact cstep_recordDataFrame _ _)
macro_rules | `(tactic| ev_side) => `(tactic| exact cstep_applyRemoteSettings _ _ _)
macro_rules | `(tactic| ev_side) => `(tactic| (intro _ h; exact cstep_incErr h))
macro_rules | `(tactic| ev_side) => `(tactic| (intro _ h; exact cstep_incRemote h))
macro_rules | `(tactic| ev_side) => `(tactic| (intro _ h; exact cstep_decRemote h))

/-- `clear_recv_buffer`'s loop only gives DATA-frame budget back -/
theorem clearRecvBufferLoop_budget (inFlight : Nat) : ∀ (l : List REvent) (acc : Nat) (c : Counts),
    ∃ b, (Streams.clearRecvBufferLoop inFlight l acc c).2 = { c with dataFrameBudget := b } := by
  intro l
  induction l with
  | nil => intro acc c; exact ⟨c.dataFrameBudget, rfl⟩
  | cons e l ih =>
    intro acc c
    cases e with
    | data payload budgeted =>
      unfold Streams.clearRecvBufferLoop
      dsimp only
      obtain ⟨b, hb⟩ := ih (min (min (acc + usizeAsU32 payload.length) U32_MAX) inFlight) (if budgeted = true then c.releaseDataFrame payload.length else c)
      rw [hb]
      cases budgeted
      · exact ⟨b, rfl⟩
      · simp only [if_true]
        unfold Counts.releaseDataFrame
        dsimp only
        split <;> exact ⟨b, rfl⟩
    | _ => unfold Streams.clearRecvBufferLoop; exact ih _ _

theorem cstep_clearRecvBufferLoop (inFlight : Nat) (l : List REvent) (acc : Nat) (c : Counts) :
    CStep c (Streams.clearRecvBufferLoop inFlight l acc c).2 := by
  obtain ⟨b, hb⟩ := clearRecvBufferLoop_budget inFlight l acc c
  rw [hb]; exact cstep_budget c _ _

-- ===================================================================== recv.rs

theorem releaseConnectionCapacity_ev (s : Streams) (cap : Nat) (t : Bool) : EvB ρ s (s.releaseConnectionCapacity cap t) := by
  unfold Streams.releaseConnectionCapacity
  ev_auto

theorem releaseCapacity_ev (s : Streams) (id cap : Nat) (t : Bool) : EvB ρ s (s.releaseCapacity id cap t).1 := by
  unfold Streams.releaseCapacity
  ev_auto

theorem clearRecvBuffer_ev (s : Streams) (id : Nat) (t : Bool) : EvB ρ s (s.clearRecvBuffer id t) := by
  unfold Streams.clearRecvBuffer
  dsimp only
  generalize hl : Streams.clearRecvBufferLoop _ _ _ _ = p
  obtain ⟨toRelease, c⟩ := p
  have hc : CStep s.counts c := by
    have := cstep_clearRecvBufferLoop (s.stream id).inFlightRecvData (s.stream id).pendingRecv 0 s.counts
    rw [hl] at this; exact this
  dsimp only
  refine .trans (setCounts_ev s c hc) ?_
  ev_auto

theorem releaseClosedCapacity_ev (s : Streams) (id : Nat) : EvB ρ s (s.releaseClosedCapacity id) := by
  unfold Streams.releaseClosedCapacity
  ev_auto

theorem setTargetConnectionWindow_ev (s : Streams) (t : Nat) : EvB ρ s (s.setTargetConnectionWindow t).1 := by
  unfold Streams.setTargetConnectionWindow
  ev_auto

theorem applyLocalSettings_ev (s : Streams) (a b : Option Nat) : EvB ρ s (s.applyLocalSettings a b).1 := by
  unfold Streams.applyLocalSettings
  ev_auto

theorem consumeConnectionWindow_ev (s : Streams) (sz : Nat) : EvB ρ s (s.consumeConnectionWindow sz).1 := by
  unfold Streams.consumeConnectionWindow
  ev_auto

theorem ignoreData_ev (s : Streams) (sz : Nat) : EvB ρ s (s.ignoreData sz).1 := by
  unfold Streams.ignoreData
  ev_auto

theorem recvOpen_ev (s : Streams) (id : Nat) (pp : Bool) : EvB ρ s (s.recvOpen id pp).1 := by
  unfold Streams.recvOpen
  ev_auto

theorem recvOpen_initial_early {st st' : State} {a b : Bool} (h : st.recvOpen a b = (st', .ok true)) :
    st.inner = .idle ∨ st.inner = .reservedRemote := by
  obtain ⟨inner⟩ := st
  cases inner with
  | idle => left; rfl
  | reservedRemote => right; rfl
  | «open» l r => cases r <;> simp [State.recvOpen] at h
  | halfClosedLocal p => cases p <;> simp [State.recvOpen] at h
  | _ => simp [State.recvOpen] at h

theorem modRecv_frame (s : Streams) (f : Recv → Recv)
    (h : ∀ p, (f p).pendingWindowUpdates = p.pendingWindowUpdates ∧ (f p).pendingAccept = p.pendingAccept ∧
      (f p).pendingResetExpired = p.pendingResetExpired) : Frame s (s.modRecv f) := by
  refine ⟨rfl, CStep.refl _, ?_, id, NextOK.refl _ _⟩
  intro q
  cases q <;> simp [Streams.getQ, Streams.prio, Streams.recv, Streams.modRecv, h]

/-- F32: `notify_push` when END_STREAM has closed the receive side (only `push_task` and the wake log change) -/
theorem notifyPushIfRecvEnded_ev (s : Streams) (id : Nat) : EvB ρ s (s.notifyPushIfRecvEnded id) := by
  unfold Streams.notifyPushIfRecvEnded
  ev_auto

theorem recvRecvHeaders_ev (s : Streams) (id : Nat) (h : HeadersIn) : EvB true s (s.recvRecvHeaders id h).1 := by
  unfold Streams.recvRecvHeaders
  split
  · exact .refl _
  · next st' isInitial heq =>
    dsimp only
    have eM : EvB true s (s.modStream id fun st => { st with state := st' }) :=
      modStream_ev' _ _ _ (setState_same _ _ (recvOpen_early heq))
    -- a promised stream whose response arrives when the limit is reached is refused (uncounted)
    by_cases hfull : (isInitial && !((s.modStream id fun st => { st with state := st' }).stream id).isCounted &&
        !(s.modStream id fun st => { st with state := st' }).counts.canIncNumRecvStreams) = true
    · rw [if_pos hfull]; exact eM
    rw [if_neg hfull]
    generalize hS2 : (if (isInitial && !(Streams.stream _ id).isCounted) = true then _ else _) = S2
    have e2 : EvB true s S2 := by
      rw [← hS2]
      split
      · next hc =>
        have hi : isInitial = true := by simp only [Bool.and_eq_true] at hc; exact hc.1
        subst hi
        refine .incRecv id st' _ (recvOpen_initial_early heq) ?_
        split
        · exact modRecv_frame _ _ (fun _ => ⟨rfl, rfl, rfl⟩)
        · exact Frame.refl _
      · exact eM
    refine .trans e2 ?_
    clear hS2 e2 eM
    ev_auto

theorem recvRecvTrailers_ev (s : Streams) (id : Nat) (h : HeadersIn) : EvB ρ s (s.recvRecvTrailers id h).1 := by
  unfold Streams.recvRecvTrailers
  ev_auto

theorem decContentLength_same {x st1 : Stream} {n : Nat} (h : x.decContentLength n = some st1) : Same x st1 := by
  unfold Stream.decContentLength at h
  split at h
  · split at h
    · cases h; same_fields
    · cases h
  · split at h
    · cases h
    · cases h; exact Same.refl _
  · cases h; exact Same.refl _
macro_rules | `(tactic| ev_side) => `(tactic| exact decContentLength_same (by assumption))

theorem recvRecvData_ev (s : Streams) (id : Nat) (payload : Bytes) (eos : Bool) (pad : Option Nat) :
    EvB ρ s (s.recvRecvData id payload eos pad).1 := by
  unfold Streams.recvRecvData
  extract_lets flowLen s0 sz st isIgnoringFrame
  have e0 : EvB ρ s s0 := by
    simp only [s0]
    ev_auto
  refine .trans e0 ?_
  clear_value s0
  clear e0
  split
  · exact .refl _
  · split
    · exact ignoreData_ev _ _
    · split
      · next s1 e heq => exact .of_fst_eq heq (consumeConnectionWindow_ev _ _)
      · next s1 u heq =>
        refine .trans (.of_fst_eq heq (consumeConnectionWindow_ev _ _)) ?_
        clear heq
        split
        · exact .refl _
        · split
          · exact .refl _
          · next st1 heq2 =>
            have e2 : EvB ρ s1 (s1.setStream st1) := setStream_ev _ id _ (decContentLength_same heq2)
            refine .trans e2 ?_
            generalize s1.setStream st1 = s2
            dsimp only
            split
            · next s3 e heq3 =>
              have h := congrArg Prod.fst heq3
              dsimp only at h
              rw [← h]
              ev_auto
            · next s3 heq3 =>
              have e3 : EvB ρ s2 s3 := by
                have h := congrArg Prod.fst heq3
                dsimp only at h
                rw [← h]
                ev_auto
              refine .trans e3 ?_
              ev_auto

theorem recvRecvPushPromise_ev (s : Streams) (id : Nat) (h : HeadersIn) : EvB ρ s (s.recvRecvPushPromise id h).1 := by
  unfold Streams.recvRecvPushPromise
  ev_auto

theorem recvNextIncoming_ev (s : Streams) : EvB ρ s s.recvNextIncoming.1 := by
  unfold Streams.recvNextIncoming
  ev_auto

theorem recvTakeRequest_ev (s : Streams) (id : Nat) : EvB ρ s (s.recvTakeRequest id).1 := by
  unfold Streams.recvTakeRequest
  ev_auto

theorem recvRecvReset_ev (s : Streams) (id : Nat) (reason : Reason) : EvB ρ s (s.recvRecvReset id reason).1 := by
  unfold Streams.recvRecvReset
  ev_auto

theorem recvHandleError_ev (s : Streams) (id : Nat) (err : PErr) : EvB ρ s (s.recvHandleError id err) := by
  unfold Streams.recvHandleError
  ev_auto

theorem recvGoAway_ev (s : Streams) (last : Nat) : EvB ρ s (s.recvGoAway last) := by
  unfold Streams.recvGoAway
  ev_auto

theorem recvRecvEof_ev (s : Streams) (id : Nat) : EvB ρ s (s.recvRecvEof id) := by
  unfold Streams.recvRecvEof
  ev_auto

theorem recvMaybeResetNextStreamId_ev (s : Streams) (id : Nat) : EvB ρ s (s.recvMaybeResetNextStreamId id) := by
  unfold Streams.recvMaybeResetNextStreamId
  ev_auto

theorem stream_isLocalError_live {s : Streams} {k : Nat} (h : (s.stream k).state.isLocalError = true) :
    (s.store.get? k).isSome = true := by
  unfold Streams.stream at h
  cases hx : s.store.get? k with
  | none => rw [hx] at h; simp [State.isLocalError] at h
  | some x => rfl

theorem enqueueResetExpiration_ev (s : Streams) (id : Nat) : EvB ρ s (s.enqueueResetExpiration id) := by
  unfold Streams.enqueueResetExpiration
  dsimp only
  split
  · exact .refl _
  · next h1 =>
    split
    · next hc =>
      simp only [Bool.or_eq_true, Bool.not_eq_true', not_or, Bool.not_eq_false] at h1
      refine .resetEnq id hc ?_ (stream_isLocalError_live h1.1)
      simpa [Stream.isPendingResetExpiration] using h1.2
    · exact .refl _

theorem sendPendingRefusal_ev (s : Streams) (w : Writer) : EvB ρ s (s.sendPendingRefusal w).1 := by
  unfold Streams.sendPendingRefusal
  ev_auto

theorem clearStreamWindowUpdateQueue_ev : ∀ (fuel : Nat) (s : Streams), EvB ρ s (Streams.clearStreamWindowUpdateQueue fuel s) := by
  intro fuel
  induction fuel with
  | zero => intro s; exact .refl _
  | succ n ih =>
    intro s
    unfold Streams.clearStreamWindowUpdateQueue
    split
    · next s' heq => exact .of_fst_eq heq (qPop_ev _ _ (by decide) (by decide))
    · next s' id heq =>
      have e0 : EvB ρ s s' := .of_fst_eq heq (qPop_ev _ _ (by decide) (by decide))
      exact .trans e0 (.trans (transitionAfter_after id (.refl _)) (ih _))

theorem clearAllPendingAccept_ev : ∀ (fuel : Nat) (s : Streams), EvB ρ s (Streams.clearAllPendingAccept fuel s) := by
  intro fuel
  induction fuel with
  | zero => intro s; exact .refl _
  | succ n ih =>
    intro s
    unfold Streams.clearAllPendingAccept
    split
    · next s' heq => exact .of_fst_eq heq (qPop_ev _ _ (by decide) (by decide))
    · next s' id heq =>
      have e0 : EvB ρ s s' := .of_fst_eq heq (qPop_ev _ _ (by decide) (by decide))
      exact .trans e0 (.trans (transitionAfter_ev _ _ _ (fun h => Bool.noConfusion h)) (ih _))

theorem sendConnectionWindowUpdate_ev (s : Streams) (w : Writer) : EvB ρ s (s.sendConnectionWindowUpdate w).1 := by
  unfold Streams.sendConnectionWindowUpdate
  ev_auto

theorem sendStreamWindowUpdates_ev : ∀ (fuel : Nat) (s : Streams) (w : Writer), EvB ρ s (Streams.sendStreamWindowUpdates fuel s w).1 := by
  intro fuel
  induction fuel with
  | zero => intro s w; exact .refl _
  | succ n ih =>
    intro s w
    unfold Streams.sendStreamWindowUpdates
    split
    · exact .refl _
    · split
      · next s' heq => exact .of_fst_eq heq (qPop_ev _ _ (by decide) (by decide))
      · next s' id heq =>
        have e0 : EvB ρ s s' := .of_fst_eq heq (qPop_ev _ _ (by decide) (by decide))
        refine .trans e0 ?_
        dsimp only
        refine .trans (transitionAfter_after id ?_) (ih _ _)
        ev_auto

theorem recvBufferPending_ev (s : Streams) (w : Writer) : EvB ρ s (s.recvBufferPending w).1 := by
  unfold Streams.recvBufferPending
  ev_auto

theorem scheduleRecv_ev (s : Streams) (id : Nat) (tag : String) : EvB ρ s (s.scheduleRecv id tag).1 := by
  unfold Streams.scheduleRecv
  ev_auto

theorem recvPollData_ev (s : Streams) (id : Nat) (tag : String) : EvB ρ s (s.recvPollData id tag).1 := by
  unfold Streams.recvPollData
  ev_auto

theorem recvPollTrailers_ev (s : Streams) (id : Nat) (tag : String) : EvB ρ s (s.recvPollTrailers id tag).1 := by
  unfold Streams.recvPollTrailers
  ev_auto

theorem recvPollResponse_ev : ∀ (fuel : Nat) (s : Streams) (id : Nat) (tag : String), EvB ρ s (Streams.recvPollResponse fuel s id tag).1 := by
  intro fuel
  induction fuel with
  | zero => intro s id tag; exact .refl _
  | succ n ih =>
    intro s id tag
    unfold Streams.recvPollResponse
    ev_auto_ih ih

theorem recvPollInformational_ev (s : Streams) (id : Nat) (tag : String) : EvB ρ s (s.recvPollInformational id tag).1 := by
  unfold Streams.recvPollInformational
  ev_auto

-- ===================================================================== the pops of `pending_reset_expired` (`EvT`)

theorem clearExpiredResetStreams_evT : ∀ (fuel : Nat) (s : Streams), EvT s (Streams.clearExpiredResetStreams fuel s) := by
  intro fuel
  induction fuel with
  | zero => intro s; exact .refl _
  | succ n ih =>
    intro s
    unfold Streams.clearExpiredResetStreams
    split
    · exact .refl _
    · have h := EvT.resetPop (s := s)
      split
      · next s' heq => rw [heq] at h; exact h
      · next s' id heq => rw [heq] at h; exact .trans h (ih _)

theorem clearAllResetStreams_evT : ∀ (fuel : Nat) (s : Streams), EvT s (Streams.clearAllResetStreams fuel s) := by
  intro fuel
  induction fuel with
  | zero => intro s; exact .refl _
  | succ n ih =>
    intro s
    unfold Streams.clearAllResetStreams
    have h := EvT.resetPop (s := s)
    split
    · next s' heq => rw [heq] at h; exact h
    · next s' id heq => rw [heq] at h; exact .trans h (ih _)

theorem recvClearQueues_evT (s : Streams) (b : Bool) : EvT s (s.recvClearQueues b) := by
  unfold Streams.recvClearQueues
  dsimp only
  split
  · exact .trans (.trans (.ev (clearStreamWindowUpdateQueue_ev _ _)) (clearAllResetStreams_evT _ _)) (.ev (clearAllPendingAccept_ev _ _))
  · exact .trans (.ev (clearStreamWindowUpdateQueue_ev _ _)) (clearAllResetStreams_evT _ _)

/-- `Recv::poll_pushed` (F32): the promised stream leaves its parent's `pending_push_promises`
    (link flag cleared: `acceptFlag`), its request head is taken -/
theorem recvPollPushed_ev (s : Streams) (id : Nat) (tag : String) : EvB ρ s (s.recvPollPushed id tag).1 := by
  unfold Streams.recvPollPushed
  split
  · next child rest _ =>
    dsimp only
    have e1 : EvB ρ s ((s.modStream id fun st => { st with pendingPushPromises := rest }).modStream child
        fun st => { st with isPendingAccept := false }) :=
      .trans (by ev_auto) (.acceptFlag child false)
    generalize ((s.modStream id fun st => { st with pendingPushPromises := rest }).modStream child
        fun st => { st with isPendingAccept := false }) = s2 at e1 ⊢
    ev_auto
  · ev_auto

end H2V.Lemmas.ConnCountsP
