import H2V.Lemmas.ConnHttpPMain
import H2V.Lemmas.ConnHttpPCl
import H2V.Lemmas.ConnHttpPSend
import H2V.Lemmas.ConnHttpPPush
import H2V.Lemmas.ConnHttpPCex
/-
  C13 (ConnHttpP), part 21 — the statements of `H2V/Props/C13.lean` that need more than a line of
  glue, and the frame-level dispatch of `DynConnection::recv_frame`.
-/
namespace H2V.Lemmas.ConnHttpP
open H2V H2V.Model H2V.Model.Frame H2V.Model.Hpack H2V.Model.Conn H2V.Model.CodecRead

theorem delivered_block_common (r : Reader) (g : List Header) (bytes : Bytes) (blk : HeaderBlock)
    (hi : RInv r g) (hd : dfBlock (decodeFrame r bytes).2 = some blk) :
    blk.isMalformed = false ∧ BlockInv blk (ghostNext g r bytes) ∧ (∀ x ∈ ghostNext g r bytes, fieldOk x = true) ∧
    (blk.isOverSize = true ∨
      (Spec.Http.common (ghostNext g r bytes) = [] ∧ PseudoExact (ghostNext g r bytes) blk.pseudo ∧
        blk.fields = groupInto [] (regular (ghostNext g r bytes)))) := by
  obtain ⟨hm, hb, hok⟩ := (decodeFrame_inv r g bytes hi).2 blk hd
  refine ⟨hm, hb, hok, ?_⟩
  cases ho : blk.isOverSize with
  | true => exact Or.inl rfl
  | false => exact Or.inr (block_exact blk _ hm ho hb hok)

theorem violating_field_flag (b : HeaderBlock) (fs : List Header) (src : Bytes) (maxList : Nat) (dec : Decoder)
    (hb : BlockInv b fs) (hok : ∀ x ∈ fs ++ loadedFields dec src, fieldOk x = true)
    (hbad : Spec.Http.common (fs ++ loadedFields dec src) ≠ []) :
    (HeaderBlock.load b src maxList dec).2.2.2 = .error .headerListWayTooLarge ∨
    (HeaderBlock.load b src maxList dec).1.isMalformed = true ∨
    (HeaderBlock.load b src maxList dec).1.isOverSize = true := by
  by_cases hw : (HeaderBlock.load b src maxList dec).2.2.2 = .error .headerListWayTooLarge
  · exact Or.inl hw
  · right
    have hinv := load_inv b fs src maxList dec hb hw
    cases hm : (HeaderBlock.load b src maxList dec).1.isMalformed with
    | true => exact Or.inl rfl
    | false =>
      cases ho : (HeaderBlock.load b src maxList dec).1.isOverSize with
      | true => exact Or.inr rfl
      | false => exact absurd (block_exact _ _ hm ho hinv hok).1 hbad

theorem send_accepts_checked (fields : List Hpack.Field)
    (h : (∃ s id eos, (Streams.sendHeaders s id eos fields).2 = .ok ()) ∨
         (∃ s id, (Streams.sendTrailers s id fields).2 = .ok ()) ∨
         (∃ s id, (Streams.sendInterimInformationalHeaders s id fields).2 = .ok ()) ∨
         (∃ s p pk pid, (Streams.sendPushPromise s p pk pid fields).2 = .ok ()) ∨
         (∃ s isHead eos p r, (Streams.sendRequest s isHead fields eos p).2 = .ok r)) :
    "connection-specific-field" ∉ Spec.Http.common (wireFields fields) ∧
    "te-not-trailers" ∉ Spec.Http.common (wireFields fields) ∧
    (∀ f ∈ fields, f.h.1 = Spec.Http.ascii "te" → f.h.2 = Spec.Http.ascii "trailers") := by
  have hc : Streams.checkHeaders fields = .ok () := by
    rcases h with ⟨s, id, eos, h⟩ | ⟨s, id, h⟩ | ⟨s, id, h⟩ | ⟨s, p, pk, pid, h⟩ | ⟨s, ih, eos, p, r, h⟩
    · exact sendHeaders_ok s id eos fields h
    · exact sendTrailers_ok s id fields h
    · exact sendInterim_ok s id fields h
    · exact sendPushPromise_ok s p pk pid fields h
    · exact sendRequest_ok s ih fields eos p r h
  exact ⟨(checkHeaders_ok_spec fields hc).1, (checkHeaders_ok_spec fields hc).2, (checkHeaders_ok fields hc).2⟩

/-! ### `DynConnection::recv_frame`: the three frame types that can hand something over -/

theorem recvFrame_headers (c : Conn) (sid : Nat) (eos : Bool) (d : Option (Nat × Nat × Bool)) (blk : HeaderBlock) :
    (c.recvFrame (some (.headers sid eos d blk))).1.streams = (c.streams.recvHeaders (Conn.headersIn sid eos blk)).1 := by
  unfold Conn.recvFrame
  simp only
  generalize c.streams.recvHeaders (Conn.headersIn sid eos blk) = r
  obtain ⟨s, res⟩ := r
  cases res <;> rfl

theorem recvFrame_data (c : Conn) (sid : Nat) (payload : Bytes) (eos : Bool) (pad : Option Nat) :
    (c.recvFrame (some (.data sid payload eos pad))).1.streams = (c.streams.recvData sid payload eos pad).1 := by
  unfold Conn.recvFrame
  simp only
  generalize c.streams.recvData sid payload eos pad = r
  obtain ⟨s, res⟩ := r
  cases res <;> rfl

theorem recvFrame_pushPromise (c : Conn) (sid promised : Nat) (blk : HeaderBlock) :
    (c.recvFrame (some (.pushPromise sid promised blk))).1.streams =
      (c.streams.recvPushPromise sid (Conn.headersIn promised false blk)).1 := by
  unfold Conn.recvFrame
  simp only
  generalize c.streams.recvPushPromise sid (Conn.headersIn promised false blk) = r
  obtain ⟨s, res⟩ := r
  cases res <;> rfl

end H2V.Lemmas.ConnHttpP
