import H2V.Lemmas.ConnCountsPLocal
import H2V.Lemmas.ConnCountsPWitness
import H2V.Lemmas.ConnCountsPFree
import H2V.Lemmas.ConnCountsPConn
/-
  C05 — concurrent-stream limits are honoured in both directions and slots are recycled.
  Property theorems only (lemmas: `H2V/Lemmas/ConnCountsP*.lean`, notes: `ConnCountsPNOTES.md`).
  The theorems are about the executable model `H2V/Model/Conn*.lean` of h2's stream layer
  (validated line by line against the real code, see `Model/ConnNOTES.md`).
-/
namespace H2V.Props.C05
open H2V H2V.Model H2V.Model.Conn H2V.Lemmas.ConnCountsP

/-- **Requests beyond the peer's limit wait.**  While `num_send_streams` has reached the peer's
    SETTINGS_MAX_CONCURRENT_STREAMS, `Prioritize::pop_pending_open` — the only code that moves a
    locally initiated stream from `pending_open` to the wire — returns nothing and changes nothing. -/
theorem requests_wait_at_limit (s : Streams) (h : s.counts.canIncNumSendStreams = false) :
    s.popPendingOpen = (s, none) :=
  popPendingOpen_at_limit s h

/-- non-vacuity: limit 1, one stream open -/
example : ({ counts := { maxSendStreams := 1, numSendStreams := 1 } } : Streams).counts.canIncNumSendStreams = false := by decide

/-- **A stream is opened only into a free slot, which it then occupies.**  Whenever
    `pop_pending_open` hands out a stream, `num_send_streams` was strictly below the limit before
    and is one higher afterwards (so it is at most the limit); the limit itself is untouched. -/
theorem open_takes_free_slot (s s' : Streams) (k : Nat) (h : s.popPendingOpen = (s', some k)) :
    s.counts.numSendStreams < s.counts.maxSendStreams ∧
    s'.counts.numSendStreams = s.counts.numSendStreams + 1 ∧
    s'.counts.maxSendStreams = s.counts.maxSendStreams ∧
    s'.counts.numSendStreams ≤ s'.counts.maxSendStreams := by
  have := popPendingOpen_takes_slot s s' k h
  exact ⟨this.1, this.2.1, this.2.2, by omega⟩

/-- non-vacuity: a queued request and a free slot -/
example : (({ counts := { maxSendStreams := 1 },
              actions := { send := { prioritize := { pendingOpen := [0] } } },
              store := { slab := [{ key := 0, id := 1, isPendingOpen := true }], ids := [(1, 0)], nextKey := 1 } } : Streams).popPendingOpen).2 = some 0 := by
  decide

/-- **Streams beyond the advertised limit are refused and never reach the application.**
    `Recv::open` for a new peer-initiated stream id (valid for the role, not below `next_stream_id`)
    while `num_recv_streams` has reached the local `max_concurrent_streams`: the answer is
    `Ok(None)` — `recv_headers` / `recv_push_promise` then drop the frame without creating a stream —,
    the id is remembered in `refused`, and neither the store, nor the counters, nor `pending_accept`
    (what `poll_accept` hands to the application) change. -/
theorem excess_stream_is_refused (s : Streams) (id : Nat) (isPP : Bool) (nextId : Nat)
    (hr : s.recv.refused = none) (hnext : s.recv.nextStreamId = some nextId) (hid : nextId ≤ id)
    (hcan : (if s.counts.isServer then !(isPP || id % 2 == 0) else !(!isPP || !(id % 2 == 0))) = true)
    (hfull : s.counts.canIncNumRecvStreams = false) :
    (s.recvOpen id isPP).2 = .ok false ∧ (s.recvOpen id isPP).1.recv.refused = some id ∧
    (s.recvOpen id isPP).1.store = s.store ∧ (s.recvOpen id isPP).1.counts = s.counts ∧
    (s.recvOpen id isPP).1.recv.pendingAccept = s.recv.pendingAccept :=
  recvOpen_refuses s id isPP nextId hr hnext hid hcan hfull

/-- non-vacuity: a server that advertised `max_concurrent_streams = 0` receives HEADERS on stream 1 -/
example : let s : Streams := { counts := { isServer := true, maxRecvStreams := 0 }, actions := { recv := { nextStreamId := some 1 } } }
    s.recv.refused = none ∧ s.recv.nextStreamId = some 1 ∧ 1 ≤ 1 ∧
    (if s.counts.isServer then !(false || 1 % 2 == 0) else !(!false || !(1 % 2 == 0))) = true ∧
    s.counts.canIncNumRecvStreams = false := by decide

/-- **The refusal is `RST_STREAM(REFUSED_STREAM)`.**  `Recv::send_pending_refusal` (run by
    `Connection::poll_ready` before every frame is read) writes it as soon as the codec has room
    and forgets the id. -/
theorem refusal_is_refused_stream (s : Streams) (w : Writer) (sid : Nat) (hr : s.recv.refused = some sid)
    (hw : w.hasCapacity = true) :
    s.sendPendingRefusal w =
      (s.modRecv fun r => { r with refused := none }, w.bufferSimple 4 s!"R:{sid}:{REFUSED_STREAM}", .complete) :=
  sendPendingRefusal_writes s w sid hr hw

/-- non-vacuity (`REFUSED_STREAM` is error code 7) -/
example : ({ actions := { recv := { refused := some 5 } } } : Streams).recv.refused = some 5 ∧ REFUSED_STREAM = 7 := by decide

/-- **Every stream that closes, by any path, frees its slot — in every reachable state.**
    `Reach s`: `s` is reachable from the stream state of a fresh client or server connection (any
    builder configuration) by any sequence of calls of the stream layer's functions that the
    connection loop and the user handles make (`ApiStep`: all `recv_*` frame handlers, `recv_eof`,
    `handle_error`, `send_reset`, settings, `poll_complete`, the expiry pass, `send_request`,
    `send_data`/`send_trailers`/`send_reset`, `poll_*`, capacity calls, clone/drop of every handle,
    `next_incoming`, `send_response`, `push_request`, …) with arbitrary arguments in arbitrary order
    (a client's first stream id is odd, as the builder asserts).
    As long as no `assert!` of the real code has fired (`panicked = none`; none is known to be
    reachable), `num_send_streams + num_recv_streams` — the slots in use in both directions —
    equals the number of slab entries with `is_counted`.  Hence: a slot is in use only for a stream
    that is still stored and counted; a stream that has been removed from the store — closed by
    END_STREAM, reset from either side, refused, cancelled by dropped handles, swept by GOAWAY / EOF —
    keeps no slot (this is the positive statement for quirk Q6 of ConnNOTES.md, fixed in the real
    code), and no slot is freed twice. -/
theorem slots_are_accounted_everywhere {s : Streams} (h : Reach s) (hp : s.panicked = none) :
    s.counts.numSendStreams + s.counts.numRecvStreams = cntAll s :=
  (h.inv.2.2 hp).1.sum

/-- **Never more concurrently counted peer-initiated streams than advertised — in every reachable
    state** (`num_recv_streams ≤ max_recv_streams`, the local SETTINGS_MAX_CONCURRENT_STREAMS; the
    streams beyond are refused by `excess_stream_is_refused`). -/
theorem advertised_limit_is_never_exceeded {s : Streams} (h : Reach s) (hp : s.panicked = none) :
    s.counts.numRecvStreams ≤ s.counts.maxRecvStreams :=
  (h.inv.2.2 hp).1.recvLe

/-- non-vacuity of the two theorems above: a reachable state without panic that holds a counted
    stream (a client after `send_request` and one `poll_complete`) -/
example : Reach wS2 ∧ wS2.panicked = none ∧ wS2.counts.numSendStreams = 1 ∧ cntAll wS2 = 1 :=
  ⟨wS2_reach, wS2_facts.1, wS2_facts.2.1, wS2_facts.2.2.2.1⟩

/-- **Per direction: each counter is exactly the number of counted streams of its direction — in
    every reachable state.**  (`Reach` as above; it also contains the server's `push_request`.)
    `num_send_streams` = number of slab entries that are counted and *locally initiated*,
    `num_recv_streams` = number of slab entries that are counted and *initiated by the peer*
    (direction by the parity of the stream id, as `Peer::is_local_init` does).  Hypotheses: no
    `assert!` has fired, and the local-error-reset quota (`max_local_error_reset_streams`, 1024 by
    default) is not exhausted — once it is, the connection is being torn down with
    `GOAWAY(ENHANCE_YOUR_CALM)`; the proof needs the hypothesis because in that situation
    `Inner::send_reset` leaves an `Idle` entry for a locally initiated id behind until `handle_error`
    sweeps it (see `ConnCountsPNOTES.md`); the *sum* is exact without it
    (`slots_are_accounted_everywhere`). -/
theorem slots_are_accounted_per_direction {s : Streams} (h : Reach s) (hp : s.panicked = none)
    (herr : s.counts.canIncNumLocalErrorResets = true) :
    s.counts.numSendStreams = cntP (sendCounted s.counts.isServer) s ∧
    s.counts.numRecvStreams = cntP (recvCounted s.counts.isServer) s :=
  h.direction hp herr

/-- non-vacuity: the reachable client state with one open request meets the hypotheses -/
example : Reach wS2 ∧ wS2.panicked = none ∧ wS2.counts.canIncNumLocalErrorResets = true :=
  ⟨wS2_reach, wS2_facts.1, by decide +kernel⟩

/-- **An endpoint never has more self-initiated streams counted than the peer's limit when it opens
    one.**  In a reachable state, whenever `Prioritize::pop_pending_open` moves a stream from
    `pending_open` to the wire, the number of counted locally initiated slab entries *afterwards*
    is at most `max_send_streams` (the peer's SETTINGS_MAX_CONCURRENT_STREAMS as applied).  (Between
    openings the peer may lower the limit below the current number — that is legitimate and not
    excluded.)  Same hypotheses as above, on the state after the opening. -/
theorem open_respects_peer_limit {s s' : Streams} {k : Nat} (h : Reach s) (hpop : s.popPendingOpen = (s', some k))
    (hp : s'.panicked = none) (herr : s'.counts.canIncNumLocalErrorResets = true) :
    cntP (sendCounted s'.counts.isServer) s' ≤ s'.counts.maxSendStreams :=
  open_within_limit h hpop hp herr

/-- non-vacuity: the client with one queued request opens it -/
example : Reach wS1 ∧ (wS1.popPendingOpen).2 = some 0 ∧ (wS1.popPendingOpen).1.panicked = none ∧
    (wS1.popPendingOpen).1.counts.canIncNumLocalErrorResets = true :=
  ⟨.step (.init (.client {} rfl)) (.sendRequest _ false wGet true none), by decide +kernel⟩

/-- **… end to end through `Inner::recv_headers`.**  A server that has `max_concurrent_streams`
    peer-initiated streams counted receives HEADERS for a new, valid (odd, not below
    `next_stream_id`, within the GOAWAY horizon) stream id: the call answers `Ok(())`, the store, the
    counters and `pending_accept` are exactly as before — no stream exists, nothing will be handed to
    `accept` — and the id sits in `refused` (to be answered by `refusal_is_refused_stream`). -/
theorem excess_request_never_reaches_application (s : Streams) (h : HeadersIn) (nextId : Nat)
    (hsv : s.counts.isServer = true) (hmax : ¬ h.sid > s.recv.maxStreamId) (hnew : s.store.findKey? h.sid = none)
    (hr : s.recv.refused = none) (hnext : s.recv.nextStreamId = some nextId) (hid : nextId ≤ h.sid)
    (hodd : h.sid % 2 = 1) (hfull : s.counts.canIncNumRecvStreams = false) :
    (s.recvHeaders h).2 = .ok () ∧ (s.recvHeaders h).1.store = s.store ∧ (s.recvHeaders h).1.counts = s.counts ∧
    (s.recvHeaders h).1.recv.pendingAccept = s.recv.pendingAccept ∧ (s.recvHeaders h).1.recv.refused = some h.sid :=
  recvHeaders_refuses s h nextId hsv hmax hnew hr hnext hid hodd hfull

/-- non-vacuity: a server with `max_concurrent_streams = 0`, first request on stream 1 -/
example : let s : Streams := { counts := { isServer := true, maxRecvStreams := 0 }, actions := { recv := { nextStreamId := some 1 } } }
    let h : HeadersIn := { sid := 1, eos := true, status := none }
    s.counts.isServer = true ∧ ¬ h.sid > s.recv.maxStreamId ∧ s.store.findKey? h.sid = none ∧ s.recv.refused = none ∧
    s.recv.nextStreamId = some 1 ∧ 1 ≤ h.sid ∧ h.sid % 2 = 1 ∧ s.counts.canIncNumRecvStreams = false := by decide

/-- **A pushed response beyond the limit is refused, not counted.**  A client counts a promised
    stream only when its response HEADERS arrives (`Recv::recv_headers`, the stream leaves
    `ReservedRemote`).  If by then `num_recv_streams` has reached the client's own
    `max_concurrent_streams`, the stream is refused with the stream error `REFUSED_STREAM`; the
    counters stay as they are and no `assert!` fires (the real code used to panic here with
    "assertion failed: self.can_inc_num_recv_streams()"; fix F31). -/
theorem pushed_response_beyond_limit_is_refused (s : Streams) (id : Nat) (h : HeadersIn) (x : Stream) (st' : State)
    (hx : s.store.get? id = some x) (ho : x.state.recvOpen h.eos h.isInformational = (st', .ok true))
    (hc : x.isCounted = false) (hfull : s.counts.canIncNumRecvStreams = false) :
    (s.recvRecvHeaders id h).2 = .state (PErr.libraryReset x.id REFUSED_STREAM) ∧
    (s.recvRecvHeaders id h).1.counts = s.counts ∧ (s.recvRecvHeaders id h).1.panicked = s.panicked :=
  recvRecvHeaders_refuses s id h x st' hx ho hc hfull

/-- non-vacuity: a client with `max_concurrent_streams = 0` and a reserved promised stream 2 -/
example : let s : Streams := { counts := { maxRecvStreams := 0 }, store := { slab := [{ key := 0, id := 2, state := { inner := .reservedRemote } }], ids := [(2, 0)], nextKey := 1 } }
    let h : HeadersIn := { sid := 2, eos := false, status := some (Http.str "200") }
    ∃ x st', s.store.get? 0 = some x ∧ x.state.recvOpen h.eos h.isInformational = (st', .ok true) ∧ x.isCounted = false ∧
      s.counts.canIncNumRecvStreams = false := ⟨_, _, rfl, rfl, rfl, by decide⟩

/-- **Closing frees the slot.**  `Counts::transition_after` — what every stream-touching operation
    ends with — on a stream that is closed in both directions with nothing left to send
    (`Stream::is_closed`), counted, and not merely *scheduled* for its implicit RST_STREAM: exactly one
    slot is given back (`num_send_streams + num_recv_streams` drops by one), whether the entry is
    then unlinked, kept for the reset-expiration queue, or released.  (`KeysOK`: one slab entry per
    key — holds in every reachable state, `H2V.Props.C19.bookkeeping_returns_to_idle`.)  For a stream
    in the scheduled-reset state the slot is given back when the RST_STREAM has been generated
    (the state is then `Error(Reset)`, this theorem) or at the latest when the entry is released
    (`slots_are_accounted_everywhere`). -/
theorem closing_frees_the_slot (s : Streams) (k : Nat) (b : Bool) (hA : KeysOK s)
    (hp : (s.transitionAfter k b).panicked = none)
    (hcl : (s.stream k).isClosed = true) (hcn : (s.stream k).isCounted = true)
    (hns : (s.stream k).state.isScheduledReset = false) :
    (s.transitionAfter k b).counts.numSendStreams + (s.transitionAfter k b).counts.numRecvStreams + 1 =
      s.counts.numSendStreams + s.counts.numRecvStreams :=
  transitionAfter_frees_slot s k b hA hp hcl hcn hns

/-- non-vacuity: a counted client stream that has just been closed by END_STREAM in both directions -/
example : let s : Streams := { counts := { numSendStreams := 1 }, store := { slab := [{ key := 0, id := 1, isCounted := true, refCount := 1, state := { inner := .closed .endStream } }], ids := [(1, 0)], nextKey := 1 } }
    (s.transitionAfter 0 false).panicked = none ∧ (s.stream 0).isClosed = true ∧ (s.stream 0).isCounted = true ∧
    (s.stream 0).state.isScheduledReset = false ∧ (s.transitionAfter 0 false).counts.numSendStreams = 0 := by decide

/-- **… and the freed slot is taken at once.**  As soon as `num_send_streams` is below the limit, the
    next `pop_pending_open` (called by `Prioritize::pop_frame`'s caller for every frame it writes) opens
    the request at the head of `pending_open`. -/
theorem freed_slot_is_taken (s : Streams) (k : Nat) (rest : List Nat) (hc : s.counts.canIncNumSendStreams = true)
    (hq : s.prio.pendingOpen = k :: rest) : s.popPendingOpen.2 = some k :=
  popPendingOpen_opens s k rest hc hq

/-- non-vacuity -/
example : ({ counts := { maxSendStreams := 1 }, actions := { send := { prioritize := { pendingOpen := [0] } } } } : Streams).counts.canIncNumSendStreams = true := by decide

/-- **The limits hold in every state of a running connection.**  `ConnReach c`: the connection
    state `c` is reachable from a freshly built client or server connection (any builder
    configuration) by any sequence of: polls of the connection future (`client::Connection::poll`,
    `proto::Connection::poll`: reading and handling every frame the peer sent — whatever bytes are
    in the transport —, SETTINGS, GOAWAY, writing), single received frames, the user's calls on the
    connection (graceful/abrupt shutdown, window sizes, ping) and on any stream handle, and
    arbitrary changes of everything but the stream state (bytes arriving, write budget, wakers).
    It is PROVED (`ConnReach.reach`, `ConnCountsPConn.lean`) that the connection loop calls nothing but
    the functions `Reach` is closed under.  In every such state in which no `assert!` has fired: the
    number of counted peer-initiated streams is within the advertised limit, and the two counters
    together are exactly the number of counted slab entries. -/
theorem limits_hold_in_every_connection_state {c : Conn} (h : ConnReach c) (hp : c.streams.panicked = none) :
    c.streams.counts.numRecvStreams ≤ c.streams.counts.maxRecvStreams ∧
    c.streams.counts.numSendStreams + c.streams.counts.numRecvStreams = cntAll c.streams :=
  ⟨advertised_limit_is_never_exceeded h.reach hp, slots_are_accounted_everywhere h.reach hp⟩

/-- non-vacuity: a fresh client after its first `poll` -/
example : ConnReach ((Conn.init {}).clientPoll 50).1 ∧ ((Conn.init {}).clientPoll 50).1.streams.panicked = none :=
  ⟨.step (.client {} rfl) (.clientPoll 50 _), by decide +kernel⟩

#print axioms requests_wait_at_limit
#print axioms open_takes_free_slot
#print axioms excess_stream_is_refused
#print axioms refusal_is_refused_stream
#print axioms slots_are_accounted_everywhere
#print axioms advertised_limit_is_never_exceeded
#print axioms slots_are_accounted_per_direction
#print axioms open_respects_peer_limit
#print axioms excess_request_never_reaches_application
#print axioms pushed_response_beyond_limit_is_refused
#print axioms closing_frees_the_slot
#print axioms freed_slot_is_taken
#print axioms limits_hold_in_every_connection_state

end H2V.Props.C05
