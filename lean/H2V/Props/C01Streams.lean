import H2V.Lemmas.ConnFidPLocal
/-
  C01 (stream layer) — message fidelity inside `proto/streams`: what the application submits on a stream
  reaches the codec (send side), and what the codec delivers reaches the application (receive side),
  exactly once, unmodified, in order, on the same stream.
  PROPERTY THEOREMS ONLY (proofs: H2V/Lemmas/ConnFidP*.lean; what is partial: H2V/Lemmas/ConnFidPNOTES.md).
  The codec half of C01 (framing, HPACK, chunking of transport reads/writes) is H2V/Props/C01.lean.

  Vocabulary (H2V/Lemmas/ConnFidPBase.lean, ConnFidPStep.lean, ConnFidPView.lean):
    `Refine es as`   the frame sequence `es` is `as` with DATA frames cut into consecutive pieces (lengths sum up,
                     END_STREAM only on the last piece, everything else kept in place);
    `toks`           what a frame sequence is for the receiving application: header blocks, DATA octets, END_STREAM;
    `sq s k`/`rq s k` `pending_send` / `pending_recv` of the slab entry with key `k` in the stream-layer state `s`;
    `Path P s s' tr` `s'` is reached from `s` by elementary steps with the labels `tr`; a step that is not silent does
                     to the queues exactly what its label says (push at the back, pop from the front, cut, …);
                     every model function is such a path (ConnFidPFn*.lean), `P` lists the labels it may produce;
    `pushed k tr`, `rcvd k tr`, `dlvd k tr`   frames queued on / events queued on / events taken off entry `k` along `tr`.
-/
namespace H2V.Props.C01Streams
open H2V H2V.Model H2V.Model.Conn H2V.Lemmas.ConnFidP

-- ===================================================================== what "the same message" means

/-- **Cutting DATA frames into pieces does not change the message**: a frame sequence and any refinement of it by
    splitting carry the same header blocks in the same places, the same number of DATA octets between
    them, and END_STREAM at the same octet position. -/
theorem splitting_carries_the_same_message (es as : List SFrame) (h : Refine es as) : toks es = toks as :=
  h.toks_eq

example : Refine [.headers false [], .data 1 false, .data 2 true] [.headers false [], .data 3 true] :=
  .same _ (.split 1 2 true (.refl _))

/-- … in particular the octet count, the END_STREAM count and the non-DATA frames (HEADERS, trailers,
    PUSH_PROMISE, RST_STREAM) with their order are the same. -/
theorem splitting_keeps_octets_end_and_headers (es as : List SFrame) (h : Refine es as) :
    dataLen es = dataLen as ∧ eosCount es = eosCount as ∧ nonData es = nonData as :=
  ⟨h.dataLen_eq, h.eosCount_eq, h.nonData_eq⟩

/-- **What `pop_frame` does to a DATA frame keeps the refinement**: if "emitted so far ++ still queued" refines
    what was accepted and the head of the queued part is a DATA frame of `sz` octets, then after `len ≤ sz`
    octets have gone out as a frame flagged END_STREAM only when nothing is left (`flag_eos = if sz > len
    then false else eos`) and the remainder `(sz - len, eos)` is back at the FRONT, the same holds. -/
theorem cutting_a_piece_off_keeps_refinement (E X A : List SFrame) (sz len : Nat) (eos : Bool)
    (h : Refine (E ++ .data sz eos :: X) A) (hl : len ≤ sz) :
    Refine (E ++ .data len (if sz > len then false else eos) ::
      ((if sz - len > 0 then [.data (sz - len) eos] else []) ++ X)) A :=
  h.pop_data hl

example : Refine ([.headers false []] ++ .data 5 true :: []) [.headers false [], .data 5 true] := .refl _

/-- a frame accepted at the back keeps it, too -/
theorem accepting_a_frame_keeps_refinement (E A : List SFrame) (f : SFrame) (h : Refine E A) :
    Refine (E ++ [f]) (A ++ [f]) := h.snoc f

-- ===================================================================== send side: the API calls

/-- **`send_data` queues its frame at the back of its own stream and touches no other queue.**
    The call is a path of elementary steps whose only non-silent labels are `push k (DATA len eos)` and
    removals of released entries; so for EVERY entry `j` that is not removed, `pending_send` afterwards is
    `pending_send` before followed by what was pushed — and what was pushed on `j` is nothing unless `j = k`,
    and then only `DATA(len, eos)` frames. -/
theorem send_data_queues_at_the_back_of_its_stream (s : Streams) (k len : Nat) (eos : Bool) :
    ∃ tr, Path (permSendData k len eos) s (s.refSendData k len eos).1 tr ∧
      (∀ j, wasCut j tr = false → sq (s.refSendData k len eos).1 j = sq s j ++ pushed j tr) ∧
      (∀ j f, f ∈ pushed j tr → j = k ∧ f = .data len eos) := by
  obtain ⟨tr, p, h1, h2, _⟩ := (refSendData_tr s k len eos).send_frames (fun h => h)
  refine ⟨tr, p, h1, fun j f hf => ?_⟩
  rcases h2 j f hf with h | ⟨_, h⟩
  · exact h
  · exact absurd h id

/-- **`send_trailers` likewise**: only `HEADERS(END_STREAM, trailers)` at the back of entry `k`. -/
theorem send_trailers_queues_at_the_back_of_its_stream (s : Streams) (k : Nat) (f : List Hpack.Field) :
    ∃ tr, Path (permSendHeaders k true f) s (s.refSendTrailers k f).1 tr ∧
      (∀ j, wasCut j tr = false → sq (s.refSendTrailers k f).1 j = sq s j ++ pushed j tr) ∧
      (∀ j g, g ∈ pushed j tr → j = k ∧ g = .headers true f) := by
  obtain ⟨tr, p, h1, h2, _⟩ := (refSendTrailers_tr s k f).send_frames (fun h => h)
  refine ⟨tr, p, h1, fun j g hg => ?_⟩
  rcases h2 j g hg with h | ⟨_, h⟩
  · exact h
  · exact absurd h id

/-- **`send_response` / `send_informational` likewise** (the head, 1xx heads before it). -/
theorem send_response_queues_at_the_back_of_its_stream (s : Streams) (k : Nat) (f : List Hpack.Field) (eos : Bool) :
    ∃ tr, Path (permSendHeaders k eos f) s (s.refSendResponse k f eos).1 tr ∧
      (∀ j, wasCut j tr = false → sq (s.refSendResponse k f eos).1 j = sq s j ++ pushed j tr) ∧
      (∀ j g, g ∈ pushed j tr → j = k ∧ g = .headers eos f) := by
  obtain ⟨tr, p, h1, h2, _⟩ := (refSendResponse_tr s k f eos).send_frames (fun h => h)
  refine ⟨tr, p, h1, fun j g hg => ?_⟩
  rcases h2 j g hg with h | ⟨_, h⟩
  · exact h
  · exact absurd h id

/-- **`send_request`**: the only frame queued anywhere is the request head. -/
theorem send_request_queues_only_its_head (s : Streams) (b : Bool) (f : List Hpack.Field) (eos : Bool) (p : Option Nat) :
    ∃ tr, Path (permSendRequest eos f) s (s.sendRequest b f eos p).1 tr ∧
      (∀ j, wasCut j tr = false → sq (s.sendRequest b f eos p).1 j = sq s j ++ pushed j tr) ∧
      (∀ j g, g ∈ pushed j tr → g = .headers eos f) := by
  obtain ⟨tr, pth, h1, h2, _⟩ := (sendRequest_tr s b f eos p).send_frames (fun h => h)
  refine ⟨tr, pth, h1, fun j g hg => ?_⟩
  rcases h2 j g hg with h | ⟨_, h⟩
  · exact h
  · exact absurd h id

example : sq ((Conn.init {}).streams.sendRequest false [] false none).1 0 = [.headers false []] := by decide

/-- **Resetting stream `k` discards queued frames of `k` only.**  `send_reset(k)` is a path whose only labels
    are cuts of entry `k`, RST_STREAM pushed on `k`, and removals of released entries: every other entry that
    is not removed keeps its `pending_send` exactly (the seeded defect "cancelling stream A drops the rest
    of stream B's chunk" changes the queue or the in-flight marker of B and breaks this). -/
theorem reset_discards_only_its_own_stream (s : Streams) (k : Nat) (r : Reason) :
    ∃ tr, Path (permReset k) s (s.refSendReset k r) tr ∧
      ∀ j, j ≠ k → wasCut j tr = false → sq (s.refSendReset k r) j = sq s j := by
  obtain ⟨tr, p, h1, h2, _⟩ := (refSendReset_tr s k r).send_frames (fun h => h)
  refine ⟨tr, p, fun j hj hc => ?_⟩
  have hp : pushed j tr = [] := by
    cases hq : pushed j tr with
    | nil => rfl
    | cons f rest =>
      have := h2 j f (by rw [hq]; exact List.mem_cons_self ..)
      rcases this with h | ⟨_, h⟩
      · exact absurd h id
      · exact absurd h hj
  rw [h1 j hc, hp, List.append_nil]

-- ===================================================================== receive side

/-- **Receive FIFO, exactly once (any sequence of model steps).**  Along any path, for every entry `k` whose
    `pending_recv` was not cleared (`clear_recv_buffer`: the application dropped the `RecvStream`) and which was
    not removed: the events handed to the application, followed by the events still queued, are the
    events queued at the start followed by the events received since — same events, same order, none
    lost, none duplicated. -/
theorem received_events_are_delivered_in_order (P : Perm) (s s' : Streams) (tr : List Lbl) (h : Path P s s' tr) (k : Nat)
    (hl : rlost k tr = false) : dlvd k tr ++ rq s' k = rq s k ++ rcvd k tr :=
  h.recv_ledger k hl

/-- **`poll_data` hands out the payload at the head of the queue**, unmodified, and takes exactly it off. -/
theorem poll_data_hands_out_the_head (s : Streams) (k : Nat) (t : String) (p : Bytes) (b : Bool) (rest : List REvent)
    (h : (s.stream k).pendingRecv = .data p b :: rest) :
    s.recvPollData k t = (s.modStream k fun st => { st with pendingRecv := rest }, .data p b) :=
  recvPollData_head s k t p b rest h

/-- … and a payload it answers with WAS the head of the queue. -/
theorem poll_data_answer_was_the_head (s : Streams) (k : Nat) (t : String) (p : Bytes) (b : Bool)
    (h : (s.recvPollData k t).2 = .data p b) : ∃ rest, (s.stream k).pendingRecv = .data p b :: rest :=
  recvPollData_data h

/-- the call takes events off entry `k` only, queues none, and touches no other receive queue -/
theorem poll_data_touches_only_its_queue (s : Streams) (k : Nat) (t : String) :
    ∃ tr, Path (permPoll k) s (s.refPollData k t).1 tr ∧ (∀ j, rcvd j tr = []) ∧ (∀ j, j ≠ k → dlvd j tr = []) := by
  obtain ⟨tr, p, _, h2, h3⟩ := (refPollData_tr s k t).recv_events
  refine ⟨tr, p, fun j => ?_, fun j hj => ?_⟩
  · cases hq : rcvd j tr with
    | nil => rfl
    | cons e _ => exact absurd (h2 j e (by rw [hq]; exact List.mem_cons_self ..)) id
  · cases hq : dlvd j tr with
    | nil => rfl
    | cons e _ => exact absurd (h3 j e (by rw [hq]; exact List.mem_cons_self ..)) hj

/-- **A clean end of the body is reported only after END_STREAM.**  `poll_data` answers `None` only when the
    next queued event is not DATA (trailers — which only arrive with END_STREAM — or a head), or when the
    queue is empty and the receive half of the stream ended with END_STREAM (`is_recv_end_stream`; or the
    stream is `ReservedLocal` and never had a receive half). -/
theorem clean_end_only_after_end_stream (s : Streams) (k : Nat) (t : String) (h : (s.recvPollData k t).2 = .none) :
    (∃ e rest, (s.stream k).pendingRecv = e :: rest ∧ ∀ p b, e ≠ .data p b) ∨
    ((s.stream k).pendingRecv = [] ∧
      ((s.stream k).state.isRecvEndStream = true ∨ H2V.Lemmas.Comp.phase (s.stream k).state = .reservedLocal)) :=
  recvPollData_none h

/-- **A stream cut short never looks like a clean end.**  Once the queue is drained, a stream closed by an
    error before END_STREAM arrived — the peer's RST_STREAM with ANY code, `NO_ERROR` included, a local reset, a
    connection error — makes `poll_data` answer exactly that error. -/
theorem cut_short_is_an_error_not_an_end (s : Streams) (k : Nat) (t : String) (e : PErr)
    (hq : (s.stream k).pendingRecv = []) (he : (s.stream k).state.inner = .closed (.error e)) :
    (s.recvPollData k t).2 = .err e :=
  recvPollData_error s k t e hq he

/-- non-vacuity, and the scenario of the property text: response head, 3 octets of DATA, then the peer's
    `RST_STREAM(NO_ERROR)` mid-body.  The buffered payload is still delivered, then the error — not `None`. -/
def demo : Streams :=
  let s := ((Conn.init {}).streams.sendRequest false [] false none).1
  let s := s.popPendingOpen.1
  let s := (s.recvHeaders { sid := 1, eos := false, status := some [50, 48, 48] }).1
  let s := (s.recvData 1 [1, 2, 3] false none).1
  let s := (s.recvReset 1 0).1
  (Streams.recvPollResponse 5 s 0 "p").1

example : (demo.stream 0).pendingRecv = [.data [1, 2, 3] true] := by decide
example : (match (demo.refPollData 0 "b").2 with | .data p _ => decide (p = [1, 2, 3]) | _ => false) = true := by decide
example : ((demo.refPollData 0 "b").1.stream 0).pendingRecv = [] ∧
    ((demo.refPollData 0 "b").1.stream 0).state.inner = .closed (.error (.reset 1 0 .remote)) := by decide
example : (match ((demo.refPollData 0 "b").1.refPollData 0 "b").2 with
    | .err e => decide (e = .reset 1 0 .remote) | _ => false) = true := by decide

/-- **`poll_trailers` hands out the trailers at the head of the queue**, and a "no trailers" answer needs an empty
    queue and a receive half that ended with END_STREAM. -/
theorem poll_trailers_fifo_and_clean_end (s : Streams) (k : Nat) (t : String) :
    (∀ f rest, (s.stream k).pendingRecv = .trailers f :: rest →
      s.recvPollTrailers k t = (s.modStream k fun st => { st with pendingRecv := rest }, .trailers f)) ∧
    (∀ f, (s.recvPollTrailers k t).2 = .trailers f → ∃ rest, (s.stream k).pendingRecv = .trailers f :: rest) ∧
    ((s.recvPollTrailers k t).2 = .none → (s.stream k).pendingRecv = [] ∧
      ((s.stream k).state.isRecvEndStream = true ∨ H2V.Lemmas.Comp.phase (s.stream k).state = .reservedLocal)) :=
  ⟨fun f rest h => recvPollTrailers_head s k t f rest h, fun _ h => recvPollTrailers_trailers h,
   fun h => recvPollTrailers_none h⟩

end H2V.Props.C01Streams

#print axioms H2V.Props.C01Streams.splitting_carries_the_same_message
#print axioms H2V.Props.C01Streams.splitting_keeps_octets_end_and_headers
#print axioms H2V.Props.C01Streams.cutting_a_piece_off_keeps_refinement
#print axioms H2V.Props.C01Streams.accepting_a_frame_keeps_refinement
#print axioms H2V.Props.C01Streams.send_data_queues_at_the_back_of_its_stream
#print axioms H2V.Props.C01Streams.send_trailers_queues_at_the_back_of_its_stream
#print axioms H2V.Props.C01Streams.send_response_queues_at_the_back_of_its_stream
#print axioms H2V.Props.C01Streams.send_request_queues_only_its_head
#print axioms H2V.Props.C01Streams.reset_discards_only_its_own_stream
#print axioms H2V.Props.C01Streams.received_events_are_delivered_in_order
#print axioms H2V.Props.C01Streams.poll_data_hands_out_the_head
#print axioms H2V.Props.C01Streams.poll_data_answer_was_the_head
#print axioms H2V.Props.C01Streams.poll_data_touches_only_its_queue
#print axioms H2V.Props.C01Streams.clean_end_only_after_end_stream
#print axioms H2V.Props.C01Streams.cut_short_is_an_error_not_an_end
#print axioms H2V.Props.C01Streams.poll_trailers_fifo_and_clean_end
